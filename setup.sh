#!/bin/sh
# Build the framework from files on disk only (offline): regenerate the facts taken from /repo's
# headers, build the Lean library (models, theorems) and the compiled model driver.
set -e
cd "$(dirname "$0")"
python3 tools/gen.py >/dev/null
cd lean
lake build SafeC safec_model

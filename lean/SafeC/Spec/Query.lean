import SafeC.Proofs.Query
/-!
# Specs of the standard counterparts of the query functions (C10, second part)

Plain structurally recursive functions over the memory contents `d : Nat → Nat` restricted to the
declared extents (`p` = first cell, `n` = number of cells), in the style of `scanLen`, `firstIdx`,
`lastIdx`, `firstDiff`, `inSet`, `spanLen`, `stopIdx` of `SafeC/Proofs/Query.lean`, each with a
`…_spec` / `…_iff` lemma that says in first-order terms what the function means.
No model, no `Prog` here.
-/
namespace SafeC
open Gen

/-! ## substring search (`strstr`, `strcasestr`, `wcsstr`, `strprefix`) -/

/-- the `m` cells at `p` equal the `m` cells at `q`, both folded with `f`
(`f = id`: exact; `f = toUpperC`: ignoring case in the C locale) -/
def subAt (f : Nat → Nat) (d : Nat → Nat) (p q : Nat) : Nat → Bool
  | 0 => true
  | m+1 => f (d p) == f (d q) && subAt f d (p+1) (q+1) m

theorem subAt_iff (f : Nat → Nat) (d : Nat → Nat) (p q m : Nat) :
    subAt f d p q m = true ↔ ∀ j, j < m → f (d (p+j)) = f (d (q+j)) := by
  induction m generalizing p q with
  | zero => simp [subAt]
  | succ m ih =>
    simp only [subAt, Bool.and_eq_true, beq_iff_eq, ih]
    constructor
    · rintro ⟨h0, h1⟩ j hj
      cases j with
      | zero => simpa using h0
      | succ j => have := h1 j (by omega); simpa [Nat.add_assoc, Nat.add_comm 1 j] using this
    · intro h
      refine ⟨by simpa using h 0 (by omega), fun j hj => ?_⟩
      have := h (j+1) (by omega); simpa [Nat.add_assoc, Nat.add_comm 1 j] using this

/-- `strstr` restricted to the first `n` cells of the string at `p`: offset of the first occurrence
of the needle (the `m` cells at `q`) that lies entirely inside the `n` cells; the search ends at the
haystack's terminator.  (A needle of `m ≥ 1` non-zero cells cannot match across the terminator.) -/
def findSub (f : Nat → Nat) (d : Nat → Nat) (q m : Nat) (p : Nat) : Nat → Option Nat
  | 0 => none
  | n+1 =>
    if m ≤ n+1 ∧ subAt f d p q m = true then some 0
    else if d p = 0 then none
    else (findSub f d q m (p+1) n).map (· + 1)

theorem findSub_some (f : Nat → Nat) (d : Nat → Nat) (q m p n i : Nat) (h : findSub f d q m p n = some i) :
    i + m ≤ n ∧ subAt f d (p+i) q m = true ∧
    ∀ k, k < i → d (p+k) ≠ 0 ∧ subAt f d (p+k) q m = false := by
  induction n generalizing p i with
  | zero => simp [findSub] at h
  | succ n ih =>
    simp only [findSub] at h
    split at h
    · rename_i hm
      cases h
      exact ⟨by omega, by simpa using hm.2, fun k hk => by omega⟩
    · rename_i hm
      split at h
      · cases h
      · rename_i h0
        cases hf : findSub f d q m (p+1) n with
        | none => simp [hf] at h
        | some k =>
          simp [hf] at h; subst h
          obtain ⟨h1, h2, h3⟩ := ih (p+1) k hf
          refine ⟨by omega, by simpa [Nat.add_assoc, Nat.add_comm 1 k] using h2, ?_⟩
          intro j hj
          cases j with
          | zero =>
            refine ⟨by simpa using h0, ?_⟩
            have : ¬ subAt f d p q m = true := fun hs => hm ⟨by omega, hs⟩
            simpa using this
          | succ j => have := h3 j (by omega); simpa [Nat.add_assoc, Nat.add_comm 1 j] using this

theorem findSub_none (f : Nat → Nat) (d : Nat → Nat) (q m p n : Nat) (h : findSub f d q m p n = none) :
    ∀ i, i + m ≤ n → i < n → (∀ k, k < i → d (p+k) ≠ 0) → subAt f d (p+i) q m = false := by
  induction n generalizing p with
  | zero => intro i _ hi; omega
  | succ n ih =>
    simp only [findSub] at h
    split at h
    · cases h
    · rename_i hm
      intro i hi hin hnz
      cases i with
      | zero =>
        have : ¬ subAt f d p q m = true := fun hs => hm ⟨by omega, hs⟩
        simpa using this
      | succ i =>
        split at h
        · rename_i h0
          exact absurd (by simpa using h0) (hnz 0 (by omega))
        · have hf : findSub f d q m (p+1) n = none := by
            cases hf : findSub f d q m (p+1) n with
            | none => rfl
            | some k => simp [hf] at h
          have := ih (p+1) hf i (by omega) (by omega) (fun k hk => by
            have := hnz (k+1) (by omega); simpa [Nat.add_assoc, Nat.add_comm 1 k] using this)
          simpa [Nat.add_assoc, Nat.add_comm 1 i] using this

theorem findSub_short (f : Nat → Nat) (d : Nat → Nat) (q m p n : Nat) (h : n < m) :
    findSub f d q m p n = none := by
  induction n generalizing p with
  | zero => rfl
  | succ n ih =>
    simp only [findSub]
    have : ¬ (m ≤ n+1 ∧ subAt f d p q m = true) := fun hh => by omega
    simp only [this, if_false]
    split
    · rfl
    · rw [ih (p+1) (by omega)]; rfl

/-! ## `strpbrk` -/

/-- `strpbrk` restricted to the first `n` cells of the string at `p`: offset of the first character
that is in the set (the string at `src`, at most `slen` characters) -/
def firstIn (d : Nat → Nat) (src slen : Nat) (p : Nat) : Nat → Option Nat
  | 0 => none
  | n+1 =>
    if d p = 0 then none
    else if inSet d (d p) src slen = true then some 0
    else (firstIn d src slen (p+1) n).map (· + 1)

theorem firstIn_some (d : Nat → Nat) (src slen p n i : Nat) (h : firstIn d src slen p n = some i) :
    i < scanLen d p n ∧ inSet d (d (p+i)) src slen = true ∧
    ∀ k, k < i → inSet d (d (p+k)) src slen = false := by
  induction n generalizing p i with
  | zero => simp [firstIn] at h
  | succ n ih =>
    simp only [firstIn] at h
    simp only [scanLen]
    split at h
    · cases h
    · rename_i h0
      simp only [h0, if_false]
      split at h
      · rename_i hin
        cases h
        exact ⟨by omega, by simpa using hin, fun k hk => by omega⟩
      · rename_i hin
        cases hf : firstIn d src slen (p+1) n with
        | none => simp [hf] at h
        | some k =>
          simp [hf] at h; subst h
          obtain ⟨h1, h2, h3⟩ := ih (p+1) k hf
          refine ⟨by omega, by simpa [Nat.add_assoc, Nat.add_comm 1 k] using h2, ?_⟩
          intro j hj
          cases j with
          | zero => simpa using hin
          | succ j => have := h3 j (by omega); simpa [Nat.add_assoc, Nat.add_comm 1 j] using this

theorem firstIn_none (d : Nat → Nat) (src slen p n : Nat) (h : firstIn d src slen p n = none) :
    ∀ k, k < scanLen d p n → inSet d (d (p+k)) src slen = false := by
  induction n generalizing p with
  | zero => intro k hk; simp [scanLen] at hk
  | succ n ih =>
    simp only [firstIn] at h
    simp only [scanLen]
    split at h
    · rename_i h0; simp [h0]
    · rename_i h0
      simp only [h0, if_false]
      split at h
      · cases h
      · rename_i hin
        have hf : firstIn d src slen (p+1) n = none := by
          cases hf : firstIn d src slen (p+1) n with
          | none => rfl
          | some k => simp [hf] at h
        intro k hk
        cases k with
        | zero => simpa using hin
        | succ k => have := ih (p+1) hf k (by omega); simpa [Nat.add_assoc, Nat.add_comm 1 k] using this

/-! ## case-insensitive / folded comparison (`strcasecmp`) -/

/-- where a comparison folded with `f` stops among the first `n` positions: the first index at
which either string ends or the folded characters differ (`n` if there is none) -/
def stopIdxF (f : Nat → Nat) (d : Nat → Nat) (p q : Nat) : Nat → Nat
  | 0 => 0
  | n+1 => if d p = 0 ∨ d q = 0 ∨ f (d p) ≠ f (d q) then 0 else 1 + stopIdxF f d (p+1) (q+1) n

theorem stopIdxF_spec (f : Nat → Nat) (d : Nat → Nat) (p q n : Nat) :
    stopIdxF f d p q n ≤ n ∧
    (∀ j, j < stopIdxF f d p q n → d (p+j) ≠ 0 ∧ d (q+j) ≠ 0 ∧ f (d (p+j)) = f (d (q+j))) ∧
    (stopIdxF f d p q n < n →
      d (p + stopIdxF f d p q n) = 0 ∨ d (q + stopIdxF f d p q n) = 0 ∨
      f (d (p + stopIdxF f d p q n)) ≠ f (d (q + stopIdxF f d p q n))) := by
  induction n generalizing p q with
  | zero => simp [stopIdxF]
  | succ n ih =>
    obtain ⟨i1, i2, i3⟩ := ih (p+1) (q+1)
    simp only [stopIdxF]
    by_cases hc : d p = 0 ∨ d q = 0 ∨ f (d p) ≠ f (d q)
    · simp only [hc, if_true]
      exact ⟨by omega, fun j hj => by omega, fun _ => by simpa using hc⟩
    · simp only [hc, if_false]
      have hc' : d p ≠ 0 ∧ d q ≠ 0 ∧ f (d p) = f (d q) := by
        refine ⟨fun h => hc (Or.inl h), fun h => hc (Or.inr (Or.inl h)), ?_⟩
        apply Classical.byContradiction; intro h; exact hc (Or.inr (Or.inr h))
      refine ⟨by omega, ?_, ?_⟩
      · intro j hj
        cases j with
        | zero => exact ⟨by simpa using hc'.1, by simpa using hc'.2.1, by simpa using hc'.2.2⟩
        | succ j => have := i2 j (by omega); simpa [Nat.add_assoc, Nat.add_comm 1 j] using this
      · intro hlt
        have := i3 (by omega)
        simpa [Nat.add_assoc, Nat.add_comm 1] using this

/-! ## first / last index where two strings agree or differ -/

/-- `strfirstsame` (`same = true`) / `strfirstdiff` (`same = false`) over the first `n` positions:
the first index, before either string ends, at which the two characters are equal / different -/
def pairFirst (same : Bool) (d : Nat → Nat) (p q : Nat) : Nat → Option Nat
  | 0 => none
  | n+1 =>
    if d p = 0 ∨ d q = 0 then none
    else if (d p == d q) = same then some 0
    else (pairFirst same d (p+1) (q+1) n).map (· + 1)

/-- `strlastsame` / `strlastdiff`: the last such index -/
def pairLast (same : Bool) (d : Nat → Nat) (p q : Nat) : Nat → Option Nat
  | 0 => none
  | n+1 =>
    if d p = 0 ∨ d q = 0 then none
    else match pairLast same d (p+1) (q+1) n with
      | some i => some (i+1)
      | none => if (d p == d q) = same then some 0 else none

/-- number of positions, among the first `n`, before either string ends -/
def pairLen (d : Nat → Nat) (p q : Nat) : Nat → Nat
  | 0 => 0
  | n+1 => if d p = 0 ∨ d q = 0 then 0 else 1 + pairLen d (p+1) (q+1) n

theorem pairLen_spec (d : Nat → Nat) (p q n : Nat) :
    pairLen d p q n ≤ n ∧ (∀ j, j < pairLen d p q n → d (p+j) ≠ 0 ∧ d (q+j) ≠ 0) ∧
    (pairLen d p q n < n → d (p + pairLen d p q n) = 0 ∨ d (q + pairLen d p q n) = 0) := by
  induction n generalizing p q with
  | zero => simp [pairLen]
  | succ n ih =>
    obtain ⟨i1, i2, i3⟩ := ih (p+1) (q+1)
    simp only [pairLen]
    by_cases hc : d p = 0 ∨ d q = 0
    · simp only [hc, if_true]
      exact ⟨by omega, fun j hj => by omega, fun _ => by simpa using hc⟩
    · simp only [hc, if_false]
      have hc' : d p ≠ 0 ∧ d q ≠ 0 := ⟨fun h => hc (Or.inl h), fun h => hc (Or.inr h)⟩
      refine ⟨by omega, ?_, ?_⟩
      · intro j hj
        cases j with
        | zero => simpa using hc'
        | succ j => have := i2 j (by omega); simpa [Nat.add_assoc, Nat.add_comm 1 j] using this
      · intro hlt
        have := i3 (by omega)
        simpa [Nat.add_assoc, Nat.add_comm 1] using this

theorem pairFirst_some (same : Bool) (d : Nat → Nat) (p q n i : Nat) (h : pairFirst same d p q n = some i) :
    i < pairLen d p q n ∧ (d (p+i) == d (q+i)) = same ∧ ∀ k, k < i → (d (p+k) == d (q+k)) = !same := by
  induction n generalizing p q i with
  | zero => simp [pairFirst] at h
  | succ n ih =>
    simp only [pairFirst] at h
    simp only [pairLen]
    split at h
    · cases h
    · rename_i h0
      simp only [h0, if_false]
      split at h
      · rename_i hs
        cases h
        exact ⟨by omega, by simpa using hs, fun k hk => by omega⟩
      · rename_i hs
        cases hf : pairFirst same d (p+1) (q+1) n with
        | none => simp [hf] at h
        | some k =>
          simp [hf] at h; subst h
          obtain ⟨h1, h2, h3⟩ := ih (p+1) (q+1) k hf
          refine ⟨by omega, by simpa [Nat.add_assoc, Nat.add_comm 1 k] using h2, ?_⟩
          intro j hj
          cases j with
          | zero =>
            cases same <;> cases hb : (d p == d q) <;> simp_all
          | succ j => have := h3 j (by omega); simpa [Nat.add_assoc, Nat.add_comm 1 j] using this

theorem pairFirst_none (same : Bool) (d : Nat → Nat) (p q n : Nat) (h : pairFirst same d p q n = none) :
    ∀ k, k < pairLen d p q n → (d (p+k) == d (q+k)) = !same := by
  induction n generalizing p q with
  | zero => intro k hk; simp [pairLen] at hk
  | succ n ih =>
    simp only [pairFirst] at h
    simp only [pairLen]
    split at h
    · rename_i h0; simp [h0]
    · rename_i h0
      simp only [h0, if_false]
      split at h
      · cases h
      · rename_i hs
        have hf : pairFirst same d (p+1) (q+1) n = none := by
          cases hf : pairFirst same d (p+1) (q+1) n with
          | none => rfl
          | some k => simp [hf] at h
        intro k hk
        cases k with
        | zero => cases same <;> cases hb : (d p == d q) <;> simp_all
        | succ k => have := ih (p+1) (q+1) hf k (by omega); simpa [Nat.add_assoc, Nat.add_comm 1 k] using this

theorem pairLast_some (same : Bool) (d : Nat → Nat) (p q n i : Nat) (h : pairLast same d p q n = some i) :
    i < pairLen d p q n ∧ (d (p+i) == d (q+i)) = same ∧
    ∀ k, i < k → k < pairLen d p q n → (d (p+k) == d (q+k)) = !same := by
  induction n generalizing p q i with
  | zero => simp [pairLast] at h
  | succ n ih =>
    simp only [pairLast] at h
    simp only [pairLen]
    split at h
    · cases h
    · rename_i h0
      simp only [h0, if_false]
      split at h
      · rename_i k hf
        cases h
        obtain ⟨h1, h2, h3⟩ := ih (p+1) (q+1) k hf
        refine ⟨by omega, by simpa [Nat.add_assoc, Nat.add_comm 1 k] using h2, ?_⟩
        intro j hj1 hj2
        cases j with
        | zero => omega
        | succ j => have := h3 j (by omega) (by omega); simpa [Nat.add_assoc, Nat.add_comm 1 j] using this
      · rename_i hf
        split at h
        · rename_i hs
          cases h
          refine ⟨by omega, by simpa using hs, ?_⟩
          intro j hj1 hj2
          cases j with
          | zero => omega
          | succ j =>
            have := pairLast_none_aux same d (p+1) (q+1) n hf j (by omega)
            simpa [Nat.add_assoc, Nat.add_comm 1 j] using this
        · cases h
where
  pairLast_none_aux (same : Bool) (d : Nat → Nat) (p q n : Nat) (h : pairLast same d p q n = none) :
      ∀ k, k < pairLen d p q n → (d (p+k) == d (q+k)) = !same := by
    induction n generalizing p q with
    | zero => intro k hk; simp [pairLen] at hk
    | succ n ih =>
      simp only [pairLast] at h
      simp only [pairLen]
      split at h
      · rename_i h0; simp [h0]
      · rename_i h0
        simp only [h0, if_false]
        split at h
        · cases h
        · rename_i hf
          split at h
          · cases h
          · rename_i hs
            intro k hk
            cases k with
            | zero => cases same <;> cases hb : (d p == d q) <;> simp_all
            | succ k => have := ih (p+1) (q+1) hf k (by omega); simpa [Nat.add_assoc, Nat.add_comm 1 k] using this

theorem pairLast_none (same : Bool) (d : Nat → Nat) (p q n : Nat) (h : pairLast same d p q n = none) :
    ∀ k, k < pairLen d p q n → (d (p+k) == d (q+k)) = !same :=
  pairLast_some.pairLast_none_aux same d p q n h

/-! ## character classes -/

/-- every one of the `n` cells at `p` satisfies `ok` -/
def allCells (ok : Nat → Bool) (d : Nat → Nat) (p : Nat) : Nat → Bool
  | 0 => true
  | n+1 => ok (d p) && allCells ok d (p+1) n

theorem allCells_iff (ok : Nat → Bool) (d : Nat → Nat) (p n : Nat) :
    allCells ok d p n = true ↔ ∀ j, j < n → ok (d (p+j)) = true := by
  induction n generalizing p with
  | zero => simp [allCells]
  | succ n ih =>
    simp only [allCells, Bool.and_eq_true, ih]
    constructor
    · rintro ⟨h0, h1⟩ j hj
      cases j with
      | zero => simpa using h0
      | succ j => have := h1 j (by omega); simpa [Nat.add_assoc, Nat.add_comm 1 j] using this
    · intro h
      refine ⟨by simpa using h 0 (by omega), fun j hj => ?_⟩
      have := h (j+1) (by omega); simpa [Nat.add_assoc, Nat.add_comm 1 j] using this

/-- how many of the `n` cells at `p` satisfy `ok` -/
def countCells (ok : Nat → Bool) (d : Nat → Nat) (p : Nat) : Nat → Nat
  | 0 => 0
  | n+1 => (if ok (d p) then 1 else 0) + countCells ok d (p+1) n

/-! ## the same specs as functions on the LIST of cells of the declared extent -/

/-- the `n` cells at `p`, as a list -/
def cells (d : Nat → Nat) (p : Nat) : Nat → List Nat
  | 0 => []
  | n+1 => d p :: cells d (p+1) n

theorem cells_length (d : Nat → Nat) (p n : Nat) : (cells d p n).length = n := by
  induction n generalizing p with
  | zero => rfl
  | succ n ih => simp [cells, ih]

theorem cells_getElem? (d : Nat → Nat) (p n i : Nat) (h : i < n) : (cells d p n)[i]? = some (d (p+i)) := by
  induction n generalizing p i with
  | zero => omega
  | succ n ih =>
    cases i with
    | zero => simp [cells]
    | succ i => simp only [cells, List.getElem?_cons_succ]; rw [ih (p+1) i (by omega)]; congr 2; omega

/-- the C string in the extent: the cells before the first NUL -/
def cstr (d : Nat → Nat) (p n : Nat) : List Nat := (cells d p n).takeWhile (· != 0)

end SafeC

import SafeC.Driver
import SafeC.Models.Copy
import SafeC.Models.Timing
/-!
# name → model dispatch for the driver
-/
namespace SafeC.Driver
open SafeC

structure Ctx where
  cfg : Cfg
  regs : Array Region
  args : Array String

def Ctx.p (c : Ctx) (i : Nat) : Option Nat := c.args[i]? >>= parsePtr c.regs
def Ctx.n (c : Ctx) (i : Nat) : Option Nat := c.args[i]? >>= parseNum
def Ctx.b (c : Ctx) (i : Nat) : Option Bos := c.args[i]? >>= parseBos

def errOut (p : Prog Nat) : Prog Out := do
  let r ← p
  pure { ret := toString r }

def stpOut (regs : Array Region) (errpos : Nat) (p : Prog (Nat × Nat)) : Prog Out := do
  let (ptr, err) ← p
  pure { ret := showPtr regs ptr, outs := [(errpos, toString err)] }

def dispatchCore (fn : String) (c : Ctx) : Option (Prog Out) :=
  match fn with
  | "strcpy_s" => do
    let d ← c.p 0; let m ← c.n 1; let s ← c.p 2; let b ← c.b 3
    pure (errOut (strcpy_s c.cfg d m s b))
  | "strcat_s" => do
    let d ← c.p 0; let m ← c.n 1; let s ← c.p 2; let b ← c.b 3
    pure (errOut (strcat_s c.cfg d m s b))
  | "strncpy_s" => do
    let d ← c.p 0; let m ← c.n 1; let s ← c.p 2; let l ← c.n 3; let b ← c.b 4; let sb ← c.b 5
    pure (errOut (strncpy_s c.cfg d m s l b sb))
  | "strncat_s" => do
    let d ← c.p 0; let m ← c.n 1; let s ← c.p 2; let l ← c.n 3; let b ← c.b 4; let sb ← c.b 5
    pure (errOut (strncat_s c.cfg d m s l b sb))
  | "wcscpy_s" => do
    let d ← c.p 0; let m ← c.n 1; let s ← c.p 2; let b ← c.b 3
    pure (errOut (wcscpy_s c.cfg d m s b))
  | "wcscat_s" => do
    let d ← c.p 0; let m ← c.n 1; let s ← c.p 2; let b ← c.b 3
    pure (errOut (wcscat_s c.cfg d m s b))
  | "wcsncpy_s" => do
    let d ← c.p 0; let m ← c.n 1; let s ← c.p 2; let l ← c.n 3; let b ← c.b 4; let sb ← c.b 5
    pure (errOut (wcsncpy_s c.cfg d m s l b sb))
  | "wcsncat_s" => do
    let d ← c.p 0; let m ← c.n 1; let s ← c.p 2; let l ← c.n 3; let b ← c.b 4; let sb ← c.b 5
    pure (errOut (wcsncat_s c.cfg d m s l b sb))
  | "stpcpy_s" => do
    let d ← c.p 0; let m ← c.n 1; let s ← c.p 2; let b ← c.b 4; let sb ← c.b 5
    pure (stpOut c.regs 3 (stpcpy_s c.cfg d m s b sb))
  | "stpncpy_s" => do
    let d ← c.p 0; let m ← c.n 1; let s ← c.p 2; let l ← c.n 3; let b ← c.b 5; let sb ← c.b 6
    pure (stpOut c.regs 4 (stpncpy_s c.cfg d m s l b sb))
  | "timingsafe_bcmp" => do
    let a ← c.p 0; let b ← c.p 1; let n ← c.n 2; let db ← c.b 3; let sb ← c.b 4
    pure (do let r ← timingsafe_bcmp a b n db sb; pure { ret := toString r })
  | "timingsafe_memcmp" => do
    let a ← c.p 0; let b ← c.p 1; let n ← c.n 2; let db ← c.b 3; let sb ← c.b 4
    pure (do let r ← timingsafe_memcmp a b n db sb; pure { ret := toString r })
  | "strnlen_s" => do
    let s ← c.p 0; let m ← c.n 1; let b ← c.b 2
    pure (errOut (strnlen_s s m b))
  | _ => none

end SafeC.Driver

import SafeC.Common
/-!
# F1 / F1w: the bumper-loop copy family

`strcpy_s strncpy_s strcat_s strncat_s` and their `wcs*` twins share one loop shape; the models
are parametrised by the limit (`RSIZE_MAX_STR` / `RSIZE_MAX_WSTR`) only, the cell being a `char`
or a `wchar_t`.
-/
namespace SafeC
open Gen

/-- one of the two copy loops (`dest < src`: the bumper is checked against `dest`; else against
`src`).  `bounded` = the `slen == 0` truncation test is present (strncpy/strncat variants).
Ends with the ESNOSPC exit. -/
def copyLoop (cfg : Cfg) (onDest bounded : Bool) (bumper origDest origDmax : Nat) :
    Nat → Nat → Nat → Nat → Prog Nat
  | 0, _, _, _ => do
    handleError cfg origDest origDmax ESNOSPC
    pure ESNOSPC
  | dmax+1, dest, src, slen =>
    if (if onDest then dest else src) = bumper then do
      handleError cfg origDest origDmax ESOVRLP
      pure ESOVRLP
    else if bounded = true ∧ slen = 0 then do
      if cfg.slack then nullSlack dest (dmax+1) else store dest 0
      pure EOK
    else do
      let c ← load src
      store dest c
      if c = 0 then do
        if cfg.slack then nullSlack dest (dmax+1) else pure ()
        pure EOK
      else copyLoop cfg onDest bounded bumper origDest origDmax dmax (dest+1) (src+1) (slen - 1)

/-- `while (*dest != '\0')` of the concatenations: find the end of dest.
`chkBumper` is true in the `dest < src` branch only. Returns `inl code` on an error exit,
`inr (dest, dmax)` at the terminator. -/
def findEnd (cfg : Cfg) (chkBumper : Bool) (bumper origDest origDmax : Nat) :
    Nat → Nat → Prog (Nat ⊕ (Nat × Nat))
  | 0, dest => do
    -- unreachable from the entry points (dmax ≥ 1); C would wrap around
    let _ ← load dest
    pure (.inl ESUNTERM)
  | dmax+1, dest => do
    let c ← load dest
    if c = 0 then pure (.inr (dest, dmax+1))
    else if chkBumper ∧ dest = bumper then do
      handleError cfg origDest origDmax ESOVRLP
      pure (.inl ESOVRLP)
    else if dmax = 0 then do
      handleError cfg origDest origDmax ESUNTERM
      pure (.inl ESUNTERM)
    else findEnd cfg chkBumper bumper origDest origDmax dmax (dest+1)

def strcpyG (max : Nat) (cfg : Cfg) (dest dmax src : Nat) (destbos : Bos) : Prog Nat :=
  if dest = 0 then failS ESNULLP
  else if dmax = 0 then failS ESZEROL
  else chkDmaxClear cfg dest dmax destbos max <|
    if src = 0 then do handleError cfg dest dmax ESNULLP; pure ESNULLP
    else if dest = src then pure EOK
    else if dest < src then copyLoop cfg true false src dest dmax dmax dest src 0
    else copyLoop cfg false false dest dest dmax dmax dest src 0

def strcpy_s := strcpyG RSIZE_MAX_STR

def strncpyG (max : Nat) (cfg : Cfg) (dest dmax src slen : Nat) (destbos srcbos : Bos) : Prog Nat :=
  if slen = 0 ∧ dest ≠ 0 ∧ dmax ≠ 0 then do store dest 0; pure EOK
  else if dest = 0 then failS ESNULLP
  else if dmax = 0 then failS ESZEROL
  else chkDmaxClear cfg dest dmax destbos max <|
    if src = 0 then do handleError cfg dest dmax ESNULLP; pure ESNULLP
    else chkSlenMaxClear cfg dest dmax slen max <|
      match srcbos with
      | some sb =>
        if slen > sb then handleStrBosOverflow cfg dest (destbos.getD (2^64 - 1))
        else if dest < src then copyLoop cfg true true src dest dmax dmax dest src slen
        else copyLoop cfg false true dest dest dmax dmax dest src slen
      | none =>
        if dest < src then copyLoop cfg true true src dest dmax dmax dest src slen
        else copyLoop cfg false true dest dest dmax dmax dest src slen

def strncpy_s := strncpyG RSIZE_MAX_STR

def strcatG (max : Nat) (cfg : Cfg) (dest dmax src : Nat) (destbos : Bos) : Prog Nat :=
  if dest = 0 then failS ESNULLP
  else if dmax = 0 then failS ESZEROL
  else chkDmaxClear cfg dest dmax destbos max <|
    if src = 0 then do handleError cfg dest dmax ESNULLP; pure ESNULLP
    else if dest < src then do
      match ← findEnd cfg true src dest dmax dmax dest with
      | .inl code => pure code
      | .inr (d, m) => copyLoop cfg true false src dest dmax m d src 0
    else do
      match ← findEnd cfg false dest dest dmax dmax dest with
      | .inl code => pure code
      | .inr (d, m) => copyLoop cfg false false dest dest dmax m d src 0

def strcat_s := strcatG RSIZE_MAX_STR

def strncatG (max : Nat) (cfg : Cfg) (dest dmax src slen : Nat) (destbos srcbos : Bos) : Prog Nat :=
  if slen = 0 ∧ dest = 0 ∧ dmax = 0 then pure EOK
  else if dest = 0 then failS ESNULLP
  else if dmax = 0 then failS ESZEROL
  else chkDmaxClear cfg dest dmax destbos max <|
    if src = 0 then do handleError cfg dest dmax ESNULLP; pure ESNULLP
    else chkSlenMaxClear cfg dest dmax slen max <|
      if slen = 0 then do
        let l ← strnlen_s dest dmax none
        let error := if l < dmax then EOK else ESZEROL
        handleError cfg dest dmax error
        pure error
      else
        let body : Prog Nat :=
          if dest < src then do
            match ← findEnd cfg true src dest dmax dmax dest with
            | .inl code => pure code
            | .inr (d, m) => copyLoop cfg true true src dest dmax m d src slen
          else do
            match ← findEnd cfg false dest dest dmax dmax dest with
            | .inl code => pure code
            | .inr (d, m) => copyLoop cfg false true dest dest dmax m d src slen
        match srcbos with
        | some sb => if slen > sb then handleStrBosOverflow cfg dest (destbos.getD (2^64 - 1)) else body
        | none => body

def strncat_s := strncatG RSIZE_MAX_STR


/-! ## wide twins: same loops, the entry checks of `src/wchar/*.c` -/

def wcscpy_s (cfg : Cfg) (dest dmax src : Nat) (destbos : Bos) : Prog Nat :=
  if dest = 0 then failS ESNULLP
  else if dmax = 0 then failS ESZEROL
  else chkDmaxClearW cfg dest dmax destbos <|
    if src = 0 then do handleError cfg dest dmax ESNULLP; pure ESNULLP
    else if dest = src then pure EOK
    else if dest < src then copyLoop cfg true false src dest dmax dmax dest src 0
    else copyLoop cfg false false dest dest dmax dmax dest src 0

def wcsncpy_s (cfg : Cfg) (dest dmax src slen : Nat) (destbos srcbos : Bos) : Prog Nat :=
  if slen = 0 ∧ dest ≠ 0 ∧ dmax ≠ 0 then do store dest 0; pure EOK
  else if dest = 0 then failS ESNULLP
  else if dmax = 0 then failS ESZEROL
  else chkDmaxClearW cfg dest dmax destbos <|
    if src = 0 then do handleError cfg dest dmax ESNULLP; pure ESNULLP
    else if slen > RSIZE_MAX_WSTR then do
      let l ← wcsnlen_s dest dmax
      handleError cfg dest l ESLEMAX
      pure ESLEMAX
    else
      let body : Prog Nat :=
        if dest < src then copyLoop cfg true true src dest dmax dmax dest src slen
        else copyLoop cfg false true dest dest dmax dmax dest src slen
      match srcbos with
      | some sb =>
        if slen * SIZEOF_WCHAR_T > sb then do
          let l ← wcsnlen_s dest dmax
          handleError cfg dest l EOVERFLOW
          pure EOVERFLOW
        else body
      | none => body

def wcscat_s (cfg : Cfg) (dest dmax src : Nat) (destbos : Bos) : Prog Nat :=
  if dest = 0 then failS ESNULLP
  else if dmax = 0 then failS ESZEROL
  else chkDmaxW dmax destbos <|
    if src = 0 then do handleError cfg dest dmax ESNULLP; pure ESNULLP
    else if dest < src then do
      match ← findEnd cfg true src dest dmax dmax dest with
      | .inl code => pure code
      | .inr (d, m) => copyLoop cfg true false src dest dmax m d src 0
    else do
      match ← findEnd cfg false dest dest dmax dmax dest with
      | .inl code => pure code
      | .inr (d, m) => copyLoop cfg false false dest dest dmax m d src 0

def wcsncat_s (cfg : Cfg) (dest dmax src slen : Nat) (destbos srcbos : Bos) : Prog Nat :=
  if slen = 0 ∧ dest = 0 ∧ dmax = 0 then pure EOK
  else if dest = 0 then failS ESNULLP
  else if dmax = 0 then failS ESZEROL
  else chkDmaxW dmax destbos <|
    if src = 0 then do handleError cfg dest dmax ESNULLP; pure ESNULLP
    else if slen > RSIZE_MAX_WSTR then do
      let l ← wcsnlen_s dest dmax
      handleError cfg dest l ESLEMAX
      pure ESLEMAX
    else
      let rest : Prog Nat :=
        if slen = 0 then do
          let l ← wcsnlen_s dest dmax
          let error := if l < dmax then EOK else ESZEROL
          handleError cfg dest dmax error
          pure error
        else if dest < src then do
          match ← findEnd cfg true src dest dmax dmax dest with
          | .inl code => pure code
          | .inr (d, m) => copyLoop cfg true true src dest dmax m d src slen
        else do
          match ← findEnd cfg false dest dest dmax dmax dest with
          | .inl code => pure code
          | .inr (d, m) => copyLoop cfg false true dest dest dmax m d src slen
      match srcbos with
      | some sb =>
        if slen * SIZEOF_WCHAR_T > sb then do
          let l ← wcsnlen_s dest dmax
          handleError cfg dest l EOVERFLOW
          pure EOVERFLOW
        else rest
      | none => rest

/-! ## `stpcpy_s` / `stpncpy_s` (as repaired by the `fix:` commits) — return (pointer, *errp) -/

def stpEok (cfg : Cfg) (isN : Bool) (dest dmax : Nat) : Prog (Nat × Nat) := do
  if cfg.slack then nullSlack dest dmax
  else if isN then store dest 0 else pure ()
  pure (dest, EOK)

def stpLoop (cfg : Cfg) (isN onDest : Bool) (bumper origDest origDmax : Nat) (srcbos : Bos) :
    Nat → Nat → Nat → Nat → Prog (Nat × Nat)
  | 0, _, _, _ => do
    handleError cfg origDest origDmax ESNOSPC
    pure (0, ESNOSPC)
  | dmax+1, dest, src, slen =>
    if (if onDest then dest else src) = bumper then do
      handleError cfg origDest origDmax ESOVRLP
      pure (0, ESOVRLP)
    else if isN ∧ slen = 0 then stpEok cfg isN dest (dmax+1)
    else do
      let c ← load src
      store dest c
      if c = 0 then stpEok cfg isN dest (dmax+1)
      else
        let slen' := if isN then slen - 1 else slen + 1
        if (match srcbos with | none => false | some sb => decide (slen' ≥ sb)) then do
          (if cfg.fixStpUnterm then handleError cfg origDest origDmax ESUNTERM else handlerS ESUNTERM)
          pure (0, ESUNTERM)
        else stpLoop cfg isN onDest bumper origDest origDmax srcbos dmax (dest+1) (src+1) slen'

def stpSameWalk (cfg : Cfg) (isN : Bool) (origDest origDmax : Nat) : Nat → Nat → Prog (Nat × Nat)
  | 0, _ => do
    handleError cfg origDest origDmax ESNOSPC
    pure (0, ESNOSPC)
  | dmax+1, dest => do
    let c ← load dest
    if c = 0 then stpEok cfg isN dest (dmax+1) else stpSameWalk cfg isN origDest origDmax dmax (dest+1)

def stpBody (cfg : Cfg) (isN : Bool) (dest dmax src slen : Nat) (srcbos : Bos) : Prog (Nat × Nat) :=
  if dest = src then stpSameWalk cfg isN dest dmax dmax dest
  else if dest < src then stpLoop cfg isN true src dest dmax srcbos dmax dest src slen
  else stpLoop cfg isN false dest dest dmax srcbos dmax dest src slen

def stpcpy_s (cfg : Cfg) (dest dmax src : Nat) (destbos srcbos : Bos) : Prog (Nat × Nat) :=
  if dest = 0 then do handlerS ESNULLP; pure (0, ESNULLP)
  else if dmax = 0 then do handlerS ESZEROL; pure (0, ESZEROL)
  else chkDmaxClearG (fun c => (0, c)) cfg dest dmax destbos RSIZE_MAX_STR <|
    if src = 0 then do handleError cfg dest dmax ESNULLP; pure (0, ESNULLP)
    else stpBody cfg false dest dmax src 0 srcbos

def stpncpy_s (cfg : Cfg) (dest dmax src slen : Nat) (destbos srcbos : Bos) : Prog (Nat × Nat) :=
  if dest = 0 then do handlerS ESNULLP; pure (0, ESNULLP)
  else if dmax = 0 then do handlerS ESZEROL; pure (0, ESZEROL)
  else chkDmaxClearG (fun c => (0, c)) cfg dest dmax destbos RSIZE_MAX_STR <|
    if src = 0 then do handleError cfg dest dmax ESNULLP; pure (0, ESNULLP)
    else if slen > RSIZE_MAX_STR then do
      let l ← strnlen_s dest dmax none
      handleError cfg dest l ESLEMAX
      pure (0, ESLEMAX)
    else match srcbos with
      | some sb =>
        if slen > sb then do
          let c ← handleStrBosOverflow cfg dest (destbos.getD (2^64 - 1))
          pure (0, c)
        else stpBody cfg true dest dmax src slen srcbos
      | none => stpBody cfg true dest dmax src slen srcbos

end SafeC

import SafeC.Common
/-!
# F1 / F1w: the bumper-loop copy family

`strcpy_s strncpy_s strcat_s strncat_s` and their `wcs*` twins share one loop shape; the models
are parametrised by the limit (`RSIZE_MAX_STR` / `RSIZE_MAX_WSTR`) only, the cell being a `char`
or a `wchar_t`.
-/
namespace SafeC
open Gen

/-- one of the two copy loops (`dest < src`: the bumper is checked against `dest`; else against
`src`).  `slen = none` for the unbounded variants. Ends with the ESNOSPC exit. -/
def copyLoop (cfg : Cfg) (onDest : Bool) (bumper origDest origDmax : Nat) :
    Nat → Nat → Nat → Option Nat → Prog Nat
  | 0, _, _, _ => do
    handleError cfg origDest origDmax ESNOSPC
    pure ESNOSPC
  | dmax+1, dest, src, slen =>
    if (if onDest then dest else src) = bumper then do
      handleError cfg origDest origDmax ESOVRLP
      pure ESOVRLP
    else if slen = some 0 then do
      if cfg.slack then nullSlack dest (dmax+1) else store dest 0
      pure EOK
    else do
      let c ← load src
      store dest c
      if c = 0 then do
        if cfg.slack then nullSlack dest (dmax+1) else pure ()
        pure EOK
      else copyLoop cfg onDest bumper origDest origDmax dmax (dest+1) (src+1) (slen.map (· - 1))

/-- `while (*dest != '\0')` of the concatenations: find the end of dest.
`chkBumper` is true in the `dest < src` branch only. Returns `inl code` on an error exit,
`inr (dest, dmax)` at the terminator. -/
def findEnd (cfg : Cfg) (chkBumper : Bool) (bumper origDest origDmax : Nat) :
    Nat → Nat → Prog (Nat ⊕ (Nat × Nat))
  | 0, dest => do
    -- unreachable from the entry points (dmax ≥ 1); C would wrap around
    let _ ← load dest
    pure (.inl ESUNTERM)
  | dmax+1, dest => do
    let c ← load dest
    if c = 0 then pure (.inr (dest, dmax+1))
    else if chkBumper ∧ dest = bumper then do
      handleError cfg origDest origDmax ESOVRLP
      pure (.inl ESOVRLP)
    else if dmax = 0 then do
      handleError cfg origDest origDmax ESUNTERM
      pure (.inl ESUNTERM)
    else findEnd cfg chkBumper bumper origDest origDmax dmax (dest+1)

def strcpyG (max : Nat) (cfg : Cfg) (dest dmax src : Nat) (destbos : Bos) : Prog Nat :=
  if dest = 0 then failS ESNULLP
  else if dmax = 0 then failS ESZEROL
  else chkDmaxClear cfg dest dmax destbos max <|
    if src = 0 then do handleError cfg dest dmax ESNULLP; pure ESNULLP
    else if dest = src then pure EOK
    else if dest < src then copyLoop cfg true src dest dmax dmax dest src none
    else copyLoop cfg false dest dest dmax dmax dest src none

def strcpy_s := strcpyG RSIZE_MAX_STR

def strncpyG (max : Nat) (cfg : Cfg) (dest dmax src slen : Nat) (destbos srcbos : Bos) : Prog Nat :=
  if slen = 0 ∧ dest ≠ 0 ∧ dmax ≠ 0 then do store dest 0; pure EOK
  else if dest = 0 then failS ESNULLP
  else if dmax = 0 then failS ESZEROL
  else chkDmaxClear cfg dest dmax destbos max <|
    if src = 0 then do handleError cfg dest dmax ESNULLP; pure ESNULLP
    else chkSlenMaxClear cfg dest dmax slen max <|
      match srcbos with
      | some sb =>
        if slen > sb then handleStrBosOverflow cfg dest (destbos.getD (2^64 - 1))
        else if dest < src then copyLoop cfg true src dest dmax dmax dest src (some slen)
        else copyLoop cfg false dest dest dmax dmax dest src (some slen)
      | none =>
        if dest < src then copyLoop cfg true src dest dmax dmax dest src (some slen)
        else copyLoop cfg false dest dest dmax dmax dest src (some slen)

def strncpy_s := strncpyG RSIZE_MAX_STR

def strcatG (max : Nat) (cfg : Cfg) (dest dmax src : Nat) (destbos : Bos) : Prog Nat :=
  if dest = 0 then failS ESNULLP
  else if dmax = 0 then failS ESZEROL
  else chkDmaxClear cfg dest dmax destbos max <|
    if src = 0 then do handleError cfg dest dmax ESNULLP; pure ESNULLP
    else if dest < src then do
      match ← findEnd cfg true src dest dmax dmax dest with
      | .inl code => pure code
      | .inr (d, m) => copyLoop cfg true src dest dmax m d src none
    else do
      match ← findEnd cfg false dest dest dmax dmax dest with
      | .inl code => pure code
      | .inr (d, m) => copyLoop cfg false dest dest dmax m d src none

def strcat_s := strcatG RSIZE_MAX_STR

def strncatG (max : Nat) (cfg : Cfg) (dest dmax src slen : Nat) (destbos srcbos : Bos) : Prog Nat :=
  if slen = 0 ∧ dest = 0 ∧ dmax = 0 then pure EOK
  else if dest = 0 then failS ESNULLP
  else if dmax = 0 then failS ESZEROL
  else chkDmaxClear cfg dest dmax destbos max <|
    if src = 0 then do handleError cfg dest dmax ESNULLP; pure ESNULLP
    else chkSlenMaxClear cfg dest dmax slen max <|
      if slen = 0 then do
        let l ← strnlen_s dest dmax none
        let error := if l < dmax then EOK else ESZEROL
        handleError cfg dest dmax error
        pure error
      else
        let body : Prog Nat :=
          if dest < src then do
            match ← findEnd cfg true src dest dmax dmax dest with
            | .inl code => pure code
            | .inr (d, m) => copyLoop cfg true src dest dmax m d src (some slen)
          else do
            match ← findEnd cfg false dest dest dmax dmax dest with
            | .inl code => pure code
            | .inr (d, m) => copyLoop cfg false dest dest dmax m d src (some slen)
        match srcbos with
        | some sb => if slen > sb then handleStrBosOverflow cfg dest (destbos.getD (2^64 - 1)) else body
        | none => body

def strncat_s := strncatG RSIZE_MAX_STR

end SafeC

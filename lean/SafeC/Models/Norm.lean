import SafeC.Gen.Consts
import SafeC.Gen.UniCanon
import SafeC.Gen.UniCombin
import SafeC.Gen.UniCompos
/-!
# C17 — model of src/extwchar/wcsnorm_s.c (32-bit `wchar_t`, canonical tables only: `HAVE_NORM_COMPAT` is not defined)

Core Lean only (linked into `safec_model`).  Strings are lists of cell values (`Nat`, each `< 2^32`), without the terminator;
the end of the list is the terminating NUL.  Buffers are assumed not to overlap (C07's business) and object sizes unknown.

The generated tables (`SafeC.Gen.Uni*`, written by tools/gen17.py from the CURRENT tree on every run) keep the C shape:
`main[cp >> 16]` → plane → `plane[(cp >> 8) & 0xff]` → row → `row[cp & 0xff]`, every array a packed `Nat` literal
(`cell w data i`).  Reading `main` at an index `≥ mainN`, `UNWIF_canon_tbl` at an index `≥ 4` or a value table behind its
last entry is the C's out-of-bounds read; the model reports it as `oob` (lookups return `none`) instead of inventing a value.

`Fixes` selects the code as it was (`unrepaired`) or as repaired by `fixes/wcsnorm-*.diff` and `fixes/wcsfc-multichar-room-check.diff`;
`current` is what the driver runs.
-/
namespace SafeC.Norm
open SafeC.Gen

/-- which repairs are applied -/
structure Fixes where
  /-- `_composite_cp`: the short (16-bit) composition lists are searched with the full second code point, not `(uint16_t)cp2` -/
  compCast : Bool
  /-- `wcsnorm_reorder_s`, `wcsnorm_compose_s`, `wcsfc_s` reject a cell `> _UNICODE_MAX` (ESLEMAX) before any table lookup -/
  rangeChk : Bool
  /-- `wcsfc_s` (Models/Fold.lean only; the functions of this file ignore it): the `iswfc(cp) > 1` branch tests `dmax < 5`
  (`goto too_small`, ESNOSPC) before it stores its 2..4 cells — `fixes/wcsfc-multichar-room-check.diff` -/
  foldRoom : Bool
deriving DecidableEq, Repr

def unrepaired : Fixes := ⟨false, false, false⟩
def allFixed : Fixes := ⟨true, true, true⟩
/-- the tree with the two wcsnorm fix commits (014b5d7, 1d9cc16) but without the room check of wcsfc_s -/
def normFixed : Fixes := ⟨true, true, false⟩
/-- THE line to flip when a fix lands in /repo: `normFixed` = /repo as it is now; `allFixed` once
`fixes/wcsfc-multichar-room-check.diff` is applied -/
def current : Fixes := allFixed

/-- cell `i` of a packed array of `w`-bit cells -/
def cell (w data i : Nat) : Nat := (data >>> (w * i)) % 2 ^ w

/-- `T[cp >> 16][(cp >> 8) & 0xff]`: `none` = the index into the main table is out of bounds; `some 0` = NULL plane or row;
`some (k+1)` = row `k` -/
def rowId (mainN main planes cp : Nat) : Option Nat :=
  if cp / 65536 < mainN then
    let p := cell 8 main (cp / 65536)
    if p = 0 then some 0 else some (cell 16 planes ((p - 1) * 256 + cp / 256 % 256))
  else none

/-- `row[cp & 0xff]` of `UNWIF_canon` (0 when plane or row is NULL) -/
def canonVi (cp : Nat) : Option Nat :=
  match rowId UniCanon.mainN UniCanon.main UniCanon.planes cp with
  | none => none
  | some 0 => some 0
  | some (r + 1) => some (cell 16 UniCanon.rows (r * 256 + cp % 256))

/-- `UNWIF_canon_tbl[l-1]` with its number of entries -/
def canonTbl : Nat → Nat × Nat
  | 1 => (UniCanon.tblN1, UniCanon.tbl1)
  | 2 => (UniCanon.tblN2, UniCanon.tbl2)
  | 3 => (UniCanon.tblN3, UniCanon.tbl3)
  | 4 => (UniCanon.tblN4, UniCanon.tbl4)
  | _ => (0, 0)

/-- the table part of `_decomp_canonical_s`: `none` = an index out of bounds, `some []` = "returns 0", else the cells copied -/
def decompCanon (cp : Nat) : Option (List Nat) :=
  match canonVi cp with
  | none => none
  | some 0 => some []
  | some vi =>
    let l := vi / 4096 + 1
    let i := vi % 4096
    if l ≤ 4 ∧ i < (canonTbl l).1 then some ((List.range l).map fun k => cell 32 (canonTbl l).2 (i * l + k)) else none

def isS (cp : Nat) : Bool := UniCompos.HSBase ≤ cp && cp ≤ UniCompos.HSFinal
def isL (cp : Nat) : Bool := UniCompos.HLBase ≤ cp && cp ≤ UniCompos.HLFinal
def isV (cp : Nat) : Bool := UniCompos.HVBase ≤ cp && cp ≤ UniCompos.HVFinal
def isT (cp : Nat) : Bool := UniCompos.HTBase < cp && cp ≤ UniCompos.HTFinal
def isLV (cp : Nat) : Bool := isS cp && (cp - UniCompos.HSBase) % UniCompos.HTCount == 0

/-- `_decomp_hangul_s` (cells written) -/
def decompHangul (cp : Nat) : List Nat :=
  let s := cp - UniCompos.HSBase
  let l := s / UniCompos.HNCount
  let v := s % UniCompos.HNCount / UniCompos.HTCount
  let t := s % UniCompos.HTCount
  if t ≠ 0 then [UniCompos.HLBase + l, UniCompos.HVBase + v, UniCompos.HTBase + t]
  else [UniCompos.HLBase + l, UniCompos.HVBase + v]

inductive DRes
  | oob                      -- a table index out of bounds
  | err (code : Nat)         -- negative return
  | seq (l : List Nat)       -- `[]`: returned 0
deriving DecidableEq, Repr

/-- `_decomp_s(dest, dmax, cp, false)` -/
def decompS (dmax cp : Nat) : DRes :=
  if isS cp then (if dmax < 4 then .err ESNOSPC else .seq (decompHangul cp))
  else if dmax < 5 then .err ESNOSPC
  else match decompCanon cp with
    | none => .oob
    | some l => .seq l

/-- outcome of one of the three passes -/
inductive Step
  | ok (out : List Nat) (dmaxLeft : Nat)
  | fail (ret : Nat) (len : Nat)
  | oob
  | overrun                  -- unsigned `dmax` arithmetic would wrap: the C writes past `dest + dmax` (C01's matter; excluded from C17 inputs)
deriving DecidableEq, Repr

/-- the loop of `_wcsnorm_decompose_s_chk`; `orig` = `orig_dmax` -/
def decLoop (orig : Nat) : List Nat → Nat → Step
  | [], dmax => if dmax = 0 then .fail ESNOSPC orig else .ok [] dmax
  | cp :: rest, dmax =>
    if dmax = 0 then .fail ESNOSPC orig
    else if UniCompos.unicodeMax < cp then .fail ESLEMAX 0
    else if cp = 0 then .ok [] dmax
    else match decompS dmax cp with
      | .oob => .oob
      | .err e => .fail e 0
      | .seq l =>
        let w := if l.isEmpty then [cp] else l
        match decLoop orig rest (dmax - w.length) with
        | .ok out d => .ok (w ++ out) d
        | r => r

/-- `_combin_class` -/
def combinClass (cp : Nat) : Option Nat :=
  match rowId UniCombin.mainN UniCombin.main UniCombin.planes cp with
  | none => none
  | some 0 => some 0
  | some (r + 1) => some (cell 8 UniCombin.rows (r * 256 + cp % 256))

/-- `UNWIF_cc` -/
structure CC where
  cc : Nat
  cp : Nat
  pos : Nat
deriving DecidableEq, Repr

/-- `_compare_cc(a, b) <= 0` -/
def leCC (a b : CC) : Bool := a.cc < b.cc || (a.cc == b.cc && a.pos ≤ b.pos)

def insertCC (x : CC) : List CC → List CC
  | [] => [x]
  | y :: ys => if leCC x y then x :: y :: ys else y :: insertCC x ys

/-- `qsort(seq, cc_pos, sizeof(UNWIF_cc), _compare_cc)`: the comparator is a strict total order on the records (`pos` is
unique), so every correct sorting routine returns the same array — the records in increasing `(cc, pos)` order.  libc's
`qsort` is trusted to sort; the model computes that order by insertion. -/
def sortCC : List CC → List CC
  | [] => []
  | x :: xs => insertCC x (sortCC xs)

/-- the loop of `_wcsnorm_reorder_s_chk`; `seq` = `seq_ptr[0..cc_pos)` -/
def reorderLoop (fx : Fixes) : List Nat → List CC → Nat → Step
  | [], _, dmax => .ok [] dmax
  | cp :: rest, seq, dmax =>
    if fx.rangeChk && UniCompos.unicodeMax < cp then .fail ESLEMAX 0 else
    match combinClass cp with
    | none => .oob
    | some cc =>
      let seq' := if cc ≠ 0 then seq ++ [⟨cc, cp, seq.length⟩] else seq
      if cc ≠ 0 ∧ !rest.isEmpty then reorderLoop fx rest seq' dmax
      else if !seq'.isEmpty ∧ dmax = seq'.length then .fail ESNOSPC 0
      else
        let emitted := (sortCC seq').map (·.cp) ++ (if cc = 0 then [cp] else [])
        if dmax < emitted.length then .overrun
        else if dmax = emitted.length then .fail ESNOSPC 0
        else match reorderLoop fx rest [] (dmax - emitted.length) with
          | .ok out d => .ok (emitted ++ out) d
          | r => r

/-- `isExclusion` (the predicate as evaluated by the translator: closed ranges) -/
def exclRanges : List (Nat × Nat) :=
  (List.range UniCompos.exclN).map fun k => (cell 32 UniCompos.excl (2 * k), cell 32 UniCompos.excl (2 * k + 1))

def isExcl (cp : Nat) : Bool := exclRanges.any fun r => r.1 ≤ cp && cp ≤ r.2

/-- the sorted-list search of `_composite_cp` (`n` pairs from index `off`) -/
def searchList (key : Nat) : Nat → Nat → Nat
  | _, 0 => 0
  | off, n + 1 =>
    let nx := cell 32 UniCompos.pairs (2 * off)
    if key = nx then cell 32 UniCompos.pairs (2 * off + 1)
    else if key < nx then 0
    else searchList key (off + 1) n

/-- `_composite_cp(cp, cp2)` as a 32-bit value (0 = no composite); the table walk cannot go out of bounds because of the range test -/
def compositeCp (fx : Fixes) (cp cp2 : Nat) : Nat :=
  if cp2 = 0 then 0
  else if UniCompos.unicodeMax < cp ∨ UniCompos.unicodeMax < cp2 then 2 ^ 32 - ESLEMAX
  else if isL cp && isV cp2 then
    UniCompos.HSBase + ((cp - UniCompos.HLBase) * UniCompos.HVCount + (cp2 - UniCompos.HVBase)) * UniCompos.HTCount
  else if isLV cp && isT cp2 then cp + (cp2 - UniCompos.HTBase)
  else match rowId UniCompos.mainN UniCompos.main UniCompos.planes cp with
    | none => 0
    | some 0 => 0
    | some (r + 1) =>
      let c := cell 16 UniCompos.rows (r * 256 + cp % 256)
      if c = 0 then 0 else
      let key := if cp < UniCompos.firstLong ∧ !fx.compCast then cp2 % 65536 else cp2
      searchList key (cell 16 UniCompos.listOff (c - 1)) (cell 8 UniCompos.listLen (c - 1))

/-- the loop of `_wcsnorm_compose_s_chk`: `cpS`, `valid_cpS`, `pre_cc`, `seq_ptr[0..cc_pos)`, `dmax` -/
def composeLoop (fx : Fixes) (contig : Bool) : List Nat → Nat → Bool → Nat → List Nat → Nat → Step
  | [], _, _, _, _, dmax => .ok [] dmax
  | cp :: rest, cpS, valid, pre, seq, dmax =>
    if fx.rangeChk && UniCompos.unicodeMax < cp then .fail ESLEMAX 0 else
    match combinClass cp with
    | none => .oob
    | some cur =>
      let more := !rest.isEmpty
      -- the common tail: "output"
      let output (cpS : Nat) (pre : Nat) (seq : List Nat) : Step :=
        if dmax = 0 then .overrun
        else if dmax = 1 then .fail ESNOSPC 0
        else if dmax - 1 ≤ seq.length then .overrun
        else match composeLoop fx contig rest cp true pre [] (dmax - 1 - seq.length) with
          | .ok out d => .ok (cpS :: seq ++ out) d
          | r => r
      if !valid then
        if cur = 0 then
          if more then composeLoop fx contig rest cp true pre seq dmax
          else output cp pre seq
        else
          if dmax = 0 then .overrun
          else if dmax = 1 then .fail ESNOSPC 0
          else match composeLoop fx contig rest cpS false pre seq (dmax - 1) with
            | .ok out d => .ok (cp :: out) d
            | r => r
      else
        let blocked := (contig && !seq.isEmpty) || (cur != 0 && pre == cur) || (pre > cur)
        let comp := if blocked then 0 else compositeCp fx cpS cp
        if comp ≠ 0 ∧ !isExcl comp then
          if more then composeLoop fx contig rest comp true pre seq dmax
          else output comp pre seq
        else
          let seq' := if cur ≠ 0 ∨ !more then seq ++ [cp] else seq
          if cur ≠ 0 ∧ more then composeLoop fx contig rest cpS true cur seq' dmax
          else output cpS cur seq'

/-- what the caller of `_wcsnorm_s_chk` can observe that C17 speaks about -/
structure Res where
  ret : Int
  len : Nat              -- `*lenp`
  out : List Nat         -- `dest` up to its terminator (`[]` when dest was cleared)
  oob : Bool := false
  overrun : Bool := false
deriving DecidableEq, Repr

def Res.ofStep (orig : Nat) : Step → Res
  | .ok out d => ⟨0, orig - d, out, false, false⟩
  | .fail r l => ⟨r, l, [], false, false⟩
  | .oob => ⟨0, 0, [], true, false⟩
  | .overrun => ⟨0, 0, [], false, true⟩

/-- `_wcsnorm_decompose_s_chk(dest, dmax, src, &len, iscompat, BOS_UNKNOWN)`, dest and src non-null and disjoint -/
def decomposeS (dmax : Nat) (src : List Nat) (iscompat : Bool) : Res :=
  if dmax = 0 then ⟨ESZEROL, 0, [], false, false⟩
  else if dmax < 5 then ⟨ESLEMIN, 0, [], false, false⟩
  else if dmax > RSIZE_MAX_WSTR then ⟨ESLEMAX, 0, [], false, false⟩
  else if iscompat then ⟨-1, 0, [], false, false⟩          -- EOF: not configured with --enable-norm-compat
  else Res.ofStep dmax (decLoop dmax src dmax)

/-- `_wcsnorm_reorder_s_chk(dest, dmax, src, len, BOS_UNKNOWN)` with `src` = exactly `len` cells -/
def reorderS (fx : Fixes) (dmax : Nat) (src : List Nat) : Res :=
  if dmax > RSIZE_MAX_WSTR then ⟨ESLEMAX, 0, [], false, false⟩
  else Res.ofStep dmax (reorderLoop fx src [] dmax)

/-- `_wcsnorm_compose_s_chk(dest, dmax, src, &len, iscontig, BOS_UNKNOWN)` with `src` = exactly `*lenp` cells -/
def composeS (fx : Fixes) (dmax : Nat) (src : List Nat) (contig : Bool) : Res :=
  if dmax > RSIZE_MAX_WSTR then ⟨ESLEMAX, 0, [], false, false⟩
  else Res.ofStep dmax (composeLoop fx contig src 0 false 0 [] dmax)

/-- `_wcsnorm_s_chk(dest, dmax, src, mode, &len, BOS_UNKNOWN)`; modes: 0 NFD, 1 NFC, 2 FCD, 3 FCC, 4 NFKD, 5 NFKC -/
def wcsnormS (fx : Fixes) (mode dmax : Nat) (src : List Nat) : Res :=
  let d := decomposeS dmax src (mode / 4 % 2 == 1)
  if d.oob || d.overrun || d.ret ≠ 0 then d
  else if mode = 2 then d
  else
    let r := reorderS fx (d.len + 2) d.out
    if r.oob || r.overrun then r
    else if r.ret ≠ 0 then { r with len := d.len, out := [] }
    else if mode = 0 ∨ mode = 4 then { r with len := d.len }
    else
      let c := composeS fx dmax r.out (mode == 3)
      if c.oob || c.overrun then c
      else if c.ret ≠ 0 then { c with len := d.len, out := [] }
      else c

/-- NFD / NFC of the model, as plain functions (no sizes): the three passes with room to spare -/
def decompose1 (cp : Nat) : List Nat :=
  if isS cp then decompHangul cp
  else match decompCanon cp with
    | some (x :: l) => x :: l
    | _ => [cp]

end SafeC.Norm

import SafeC.Models.Printf
/-!
# `Spec.printf` — C11 7.21.6.1 for the conversions `d i u x X o c s %`

A direct rendering of the standard's text, independent of the engine's structure: a conversion specification is
parsed into its parts (flags, field width, precision, length modifier, conversion specifier; §4), the argument is
converted (§7: length modifiers; §8: conversions), and the result is laid out from the parts the standard names:
sign, prefix, leading zeros, digits, padding (§6: flags).  `none` = the format or the arguments are outside what the
standard defines for these conversions (unknown or floating conversion, a flag / precision / length modifier the
standard calls undefined for the conversion, `%n`, argument of the wrong type or missing, NULL string).
It is validated against glibc on every generated case of the check (spec ↔ glibc), and it is what the C11 theorems
compare the engine with.
-/
namespace SafeC.Printf.Spec
open SafeC.Printf

/-- positional representation of `n` in base `b`, most significant digit first; `[]` for 0 -/
def digits (b : Nat) (n : Nat) : List Nat :=
  if _h : 2 ≤ b ∧ 0 < n then digits b (n / b) ++ [n % b] else []
termination_by n
decreasing_by exact Nat.div_lt_self _h.2 _h.1

/-- the digit characters `0123456789abcdef` / `0123456789ABCDEF` -/
def digitSym (upper : Bool) (d : Nat) : Char :=
  (if upper then ['0', '1', '2', '3', '4', '5', '6', '7', '8', '9', 'A', 'B', 'C', 'D', 'E', 'F']
   else ['0', '1', '2', '3', '4', '5', '6', '7', '8', '9', 'a', 'b', 'c', 'd', 'e', 'f']).getD d '?'

inductive LenMod | none | hh | h | l | ll | j | z | t
  deriving DecidableEq, Repr

/-- a conversion specification (§4) -/
structure Dir where
  minus : Bool := false
  plus : Bool := false
  space : Bool := false
  hash : Bool := false
  zero : Bool := false
  width : Nat := 0            -- 0: no minimum field width
  prec : Option Nat := Option.none
  len : LenMod := .none
  conv : Char := 'd'
  deriving Repr

/-- pad `core` to the field width: on the left by default, on the right with the `-` flag (§6) -/
def padField (d : Dir) (core : Str) : Str :=
  if d.minus then core ++ List.replicate (d.width - core.length) ' '
  else List.replicate (d.width - core.length) ' ' ++ core

/-- §8 d,i / o,u,x,X: `mag` is the magnitude, `neg` the sign of the converted value -/
def renderInt (d : Dir) (signed : Bool) (neg : Bool) (mag : Nat) (base : Nat) (upper : Bool) : Str :=
  -- "The precision specifies the minimum number of digits to appear … The default precision is 1. The result of
  --  converting a zero value with a precision of zero is no characters."
  let ds := (digits base mag).map (digitSym upper)
  let ds := List.replicate (d.prec.getD 1 - ds.length) '0' ++ ds
  -- "# … For o conversion, it increases the precision, if and only if necessary, to force the first digit of the
  --  result to be a zero.  For x (or X) conversion, a nonzero result has 0x (or 0X) prefixed to it."
  let ds := if d.hash ∧ base = 8 ∧ ds.head? ≠ some '0' then '0' :: ds else ds
  let pre : Str := if d.hash ∧ base = 16 ∧ mag ≠ 0 then ['0', if upper then 'X' else 'x'] else []
  -- "+ The result of a signed conversion always begins with a plus or minus sign.  space: if the first character of
  --  a signed conversion is not a sign … a space is prefixed.  If the space and + flags both appear, space is ignored."
  let sign : Str := if signed then (if neg then ['-'] else if d.plus then ['+'] else if d.space then [' '] else []) else []
  -- "0 … leading zeros (following any indication of sign or base) are used to pad to the field width rather than
  --  performing space padding.  If the 0 and - flags both appear, the 0 flag is ignored.  For d, i, o, u, x, X
  --  conversions, if a precision is specified, the 0 flag is ignored."
  let fill : Str := if d.zero ∧ ¬ d.minus ∧ d.prec = Option.none then List.replicate (d.width - (sign.length + pre.length + ds.length)) '0' else []
  padField d (sign ++ pre ++ fill ++ ds)

def isFlag (c : Char) : Bool := c == '-' || c == '+' || c == ' ' || c == '#' || c == '0'

def setFlags (d : Dir) : Str → Dir
  | [] => d
  | c :: r => setFlags (if c = '-' then { d with minus := true } else if c = '+' then { d with plus := true }
                        else if c = ' ' then { d with space := true } else if c = '#' then { d with hash := true }
                        else if c = '0' then { d with zero := true } else d) r

/-- value of a decimal digit string -/
def decVal (s : Str) : Nat := s.foldl (fun a c => a * 10 + (c.toNat - 48)) 0

/-- an `int` argument for `*` -/
def starArg : List Arg → Option (Int × List Arg)
  | .int v :: as => some (wrapS 32 v, as)
  | _ => none

/-- §4/§5: flags, field width (`*`: "a negative field width argument is taken as a - flag followed by a positive field
    width"), precision (`.` alone = 0; "a negative precision argument is taken as if the precision were omitted"),
    length modifier, conversion specifier.  Returns the specification, the rest of the format, the remaining arguments. -/
def parseDir (f : Str) (args : List Arg) : Option (Dir × Str × List Arg) := do
  let d := setFlags {} (f.takeWhile isFlag)
  let f := f.dropWhile isFlag
  -- field width
  let (d, f, args) ←
    match f with
    | '*' :: r => do
      let (w, as) ← starArg args
      pure (if w < 0 then { d with minus := true, width := (-w).toNat } else { d with width := w.toNat }, r, as)
    | _ => pure ({ d with width := decVal (f.takeWhile Char.isDigit) }, f.dropWhile Char.isDigit, args)
  -- precision
  let (d, f, args) ←
    match f with
    | '.' :: '*' :: r => do
      let (p, as) ← starArg args
      pure (if p < 0 then d else { d with prec := some p.toNat }, r, as)
    | '.' :: r => pure ({ d with prec := some (decVal (r.takeWhile Char.isDigit)) }, r.dropWhile Char.isDigit, args)
    | _ => pure (d, f, args)
  -- length modifier
  let (d, f) :=
    match f with
    | 'h' :: 'h' :: r => ({ d with len := .hh }, r)
    | 'h' :: r => ({ d with len := .h }, r)
    | 'l' :: 'l' :: r => ({ d with len := .ll }, r)
    | 'l' :: r => ({ d with len := .l }, r)
    | 'j' :: r => ({ d with len := .j }, r)
    | 'z' :: r => ({ d with len := .z }, r)
    | 't' :: r => ({ d with len := .t }, r)
    | _ => (d, f)
  match f with
  | [] => none
  | c :: r => pure ({ d with conv := c }, r, args)

/-- §7: the integer argument a length modifier selects, converted to the type it names: (negative?, magnitude) for the
    signed conversions -/
def signedArg (lm : LenMod) : List Arg → Option (Int × List Arg)
  | .int v :: as =>
    match lm with
    | .none => some (wrapS 32 v, as)
    | .hh => some (wrapS 8 v, as)       -- "the value shall be converted to signed char before printing"
    | .h => some (wrapS 16 v, as)
    | _ => Option.none
  | .long v :: as =>
    match lm with
    | .l | .ll | .j | .z | .t => some (wrapS 64 v, as)
    | _ => Option.none
  | _ => Option.none

def unsignedArg (lm : LenMod) : List Arg → Option (Nat × List Arg)
  | .int v :: as =>
    match lm with
    | .none => some (wrapU 32 v, as)
    | .hh => some (wrapU 8 v, as)
    | .h => some (wrapU 16 v, as)
    | _ => Option.none
  | .long v :: as =>
    match lm with
    | .l | .ll | .j | .z | .t => some (wrapU 64 v, as)
    | _ => Option.none
  | _ => Option.none

/-- §8: the characters one conversion specification produces -/
def render (d : Dir) (args : List Arg) : Option (Str × List Arg) :=
  if d.conv = 'd' ∨ d.conv = 'i' then
    if d.hash then none else do                         -- "#: for other conversions, the behavior is undefined"
      let (v, as) ← signedArg d.len args
      pure (renderInt d true (v < 0) v.natAbs 10 false, as)
  else if d.conv = 'u' then
    if d.hash then none else do
      let (v, as) ← unsignedArg d.len args
      pure (renderInt d false false v 10 false, as)
  else if d.conv = 'o' then do
    let (v, as) ← unsignedArg d.len args
    pure (renderInt d false false v 8 false, as)
  else if d.conv = 'x' ∨ d.conv = 'X' then do
    let (v, as) ← unsignedArg d.len args
    pure (renderInt d false false v 16 (d.conv = 'X'), as)
  else if d.conv = 'c' then
    -- "c: if no l length modifier is present, the int argument is converted to an unsigned char, and the resulting
    --  character is written."  # and 0 flags, a precision, and h/hh/ll/j/z/t are undefined for c
    if d.hash ∨ d.zero ∨ d.prec.isSome ∨ d.len ≠ .none then none else
    match args with
    | .int v :: as => some (padField d [Char.ofNat (wrapU 8 v)], as)
    | _ => none
  else if d.conv = 's' then
    -- "s: … characters from the array are written up to (but not including) the terminating null character.  If the
    --  precision is specified, no more than that many bytes are written."
    if d.hash ∨ d.zero ∨ d.len ≠ .none then none else
    match args with
    | .str (some p) :: as => some (padField d (match d.prec with | some n => p.take n | Option.none => p), as)
    | _ => none
  else none

/-- the format, directive by directive; fuel = one unit per step (every step consumes a character) -/
def go : Nat → Str → List Arg → Option Str
  | 0, _, _ => some []
  | _ + 1, [], _ => some []
  | k + 1, c :: r, args =>
    if c ≠ '%' then (go k r args).map (c :: ·)
    else match r with
      | '%' :: r' => (go k r' args).map ('%' :: ·)       -- "%: a % character is written … the complete conversion specification shall be %%"
      | _ => do
        let (d, r', args') ← parseDir r args
        let (out, args'') ← render d args'
        let rest ← go k r' args''
        pure (out ++ rest)

/-- the characters `printf(fmt, args…)` writes, for formats made of ordinary characters, `%%` and the conversions
    `d i u x X o c s` -/
def printf (fmt : Str) (args : List Arg) : Option Str := go fmt.length fmt args

end SafeC.Printf.Spec

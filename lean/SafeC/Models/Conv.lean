import SafeC.Gen.Consts
/-!
# C15 — multibyte / wide conversions

Pure executable models (core Lean only, no machine): the six wrappers
`mbstowcs_s mbsrtowcs_s wcstombs_s wcsrtombs_s wcrtomb_s wctomb_s` of `src/wchar/*.c` are straight-line code
around ONE libc call; everything interesting is (a) what libc does and (b) how the wrapper classifies the count.

* `Libc.*` — glibc 2.36 as measured in this sandbox (trusted-base items, validated against the real libc by the
  correspondence run): the UTF-8 codec of locale `C.UTF-8` (1..6 byte forms, 31 bits, surrogates and overlong forms
  rejected, restartable with an explicit pending-byte state) and the 7-bit codec of locale `C`; the gconv step
  (`gconvMb`, `gconvWc`), and `mbsrtowcs` (with glibc's "pessimistic window" loop), `wcsrtombs`, `mbstowcs`, `wcstombs`,
  `wcrtomb`, `wctomb` over (source cells, len, dest available?).
* wrappers — mirror the C statement by statement, defects included; `Fixes` selects the code as it is / as repaired
  by `fixes/wchar-*.diff`; `current` is the ONE definition to flip when a fix lands in /repo.

The destination is a list of PHYSICAL cells (`cap = cells.length`, the true object); a store at an index ≥ cap is a
fault (guard page), a store at an index in `[dmax, cap)` is recorded in `hi` (one past the highest index stored).
-/
namespace SafeC.Conv
open SafeC.Gen

inductive Locale | C | UTF8
  deriving DecidableEq, Repr, Inhabited

def SIZE_MAX : Nat := 18446744073709551615
def WORD : Nat := 18446744073709551616

/-! ## libc: codecs -/
namespace Libc

/-- `(b & 0xc0) == 0x80` -/
def isCont (b : Nat) : Bool := b / 64 == 2
def isSurr (c : Nat) : Bool := 0xD800 ≤ c && c ≤ 0xDFFF

/-- internal → UTF-8 (`internal_utf8_loop`): 31-bit values, surrogates rejected -/
def utf8Enc (c : Nat) : Option (List Nat) :=
  if c > 0x7fffffff || isSurr c then none
  else if c < 0x80 then some [c]
  else if c < 0x800 then some [0xC0 + c / 64, 0x80 + c % 64]
  else if c < 0x10000 then some [0xE0 + c / 4096, 0x80 + c / 64 % 64, 0x80 + c % 64]
  else if c < 0x200000 then some [0xF0 + c / 262144, 0x80 + c / 4096 % 64, 0x80 + c / 64 % 64, 0x80 + c % 64]
  else if c < 0x4000000 then
    some [0xF8 + c / 16777216, 0x80 + c / 262144 % 64, 0x80 + c / 4096 % 64, 0x80 + c / 64 % 64, 0x80 + c % 64]
  else
    some [0xFC + c / 1073741824, 0x80 + c / 16777216 % 64, 0x80 + c / 262144 % 64, 0x80 + c / 4096 % 64,
          0x80 + c / 64 % 64, 0x80 + c % 64]

/-- internal → ASCII (`internal_ascii_loop`, locale C) -/
def asciiEnc (c : Nat) : Option (List Nat) := if c < 0x80 then some [c] else none

def enc : Locale → Nat → Option (List Nat)
  | .UTF8, c => utf8Enc c
  | .C, c => asciiEnc c

/-- lead byte → (total length, payload bits); `C0 C1` and `FE FF` and continuation bytes are not lead bytes -/
def lead (b : Nat) : Option (Nat × Nat) :=
  if 0xC2 ≤ b && b < 0xE0 then some (2, b % 32)
  else if b / 16 == 0xE then some (3, b % 16)
  else if b / 8 == 0x1E then some (4, b % 8)
  else if b / 4 == 0x3E then some (5, b % 4)
  else if b / 2 == 0x7E then some (6, b % 2)
  else none

inductive Dec | ok (ch n : Nat) | incomplete | illegal
  deriving DecidableEq, Repr

def accum (hi : Nat) (conts : List Nat) : Nat := conts.foldl (fun a x => a * 64 + x % 64) hi

/-- minimal value of an n-byte form (`(ch >> (5*cnt-4)) == 0` is the overlong test for cnt > 2) -/
def minOf (cnt : Nat) : Nat := 2 ^ (5 * cnt - 4)

/-- the BODY of `utf8_internal_loop` on the bytes available: one character, or incomplete (all available bytes
are acceptable so far — glibc only looks at the continuation bits here), or illegal -/
def utf8Body : List Nat → Dec
  | [] => .incomplete
  | b :: rest =>
    if b < 0x80 then .ok b 1 else
    match lead b with
    | none => .illegal
    | some (cnt, hi) =>
      let conts := rest.take (cnt - 1)
      if !conts.all isCont then .illegal
      else if conts.length < cnt - 1 then .incomplete
      else
        let ch := accum hi conts
        if (cnt > 2 && ch < minOf cnt) || isSurr ch then .illegal else .ok ch cnt

def asciiBody : List Nat → Dec
  | [] => .incomplete
  | b :: _ => if b < 0x80 then .ok b 1 else .illegal

def body : Locale → List Nat → Dec
  | .UTF8, bs => utf8Body bs
  | .C, bs => asciiBody bs

/-- decode a whole byte string (no terminator), `none` on any illegal or incomplete sequence -/
def decodeAll (loc : Locale) : Nat → List Nat → Option (List Nat)
  | 0, bs => if bs.isEmpty then some [] else none
  | fuel + 1, bs =>
    if bs.isEmpty then some [] else
    match body loc bs with
    | .ok ch n => (decodeAll loc fuel (bs.drop n)).map (ch :: ·)
    | _ => none

def encodeAll (loc : Locale) : List Nat → Option (List Nat)
  | [] => some []
  | c :: cs => match enc loc c, encodeAll loc cs with
    | some a, some b => some (a ++ b)
    | _, _ => none

/-! ## libc: the gconv step functions -/

inductive Status | empty | full | incomplete | illegal
  deriving DecidableEq, Repr

/-- result of one gconv call: cells produced, input cells consumed, pending bytes of the state, status -/
structure GR where
  out : List Nat
  used : Nat
  st : List Nat
  status : Status
  deriving Repr

/-- multibyte → wide main loop: output-full is tested before the next character is looked at -/
def mbMain (loc : Locale) : Nat → List Nat → Nat → GR
  | 0, _, _ => ⟨[], 0, [], .empty⟩
  | fuel + 1, inp, space =>
    if inp.isEmpty then ⟨[], 0, [], .empty⟩
    else if space = 0 then ⟨[], 0, [], .full⟩
    else match body loc inp with
      | .ok ch n =>
        let r := mbMain loc fuel (inp.drop n) (space - 1)
        ⟨ch :: r.out, n + r.used, r.st, r.status⟩
      | .incomplete => ⟨[], inp.length, inp, .incomplete⟩
      | .illegal => ⟨[], 0, [], .illegal⟩

/-- one call of the multibyte → wide step with `consume_incomplete`: a pending state is first completed from the
input (`SINGLE(LOOPFCT)`, at most 6 bytes in the staging buffer); on an illegal continuation the state is left as
it was and nothing is consumed -/
def gconvMb (loc : Locale) (pend inp : List Nat) (space : Nat) : GR :=
  if pend.isEmpty then mbMain loc (inp.length + 1) inp space
  else if space = 0 then ⟨[], 0, pend, .full⟩
  else
    let tk := inp.take (6 - pend.length)
    let buf := pend ++ tk
    match body loc buf with
    | .ok ch n =>
      let u := n - pend.length
      let r := mbMain loc (inp.length + 1) (inp.drop u) (space - 1)
      ⟨ch :: r.out, u + r.used, r.st, r.status⟩
    | .incomplete => ⟨[], tk.length, buf, .incomplete⟩
    | .illegal => ⟨[], 0, pend, .illegal⟩

/-- wide → multibyte step: a character that does not fit entirely stops the conversion (`full`) -/
def gconvWc (loc : Locale) : List Nat → Nat → GR
  | [], _ => ⟨[], 0, [], .empty⟩
  | c :: cs, space =>
    if space = 0 then ⟨[], 0, [], .full⟩
    else match enc loc c with
      | none => ⟨[], 0, [], .illegal⟩
      | some bs =>
        if bs.length > space then ⟨[], 0, [], .full⟩
        else
          let r := gconvWc loc cs (space - bs.length)
          ⟨bs ++ r.out, 1 + r.used, [], r.status⟩

/-! ## libc: string functions -/

def strnlen (s : List Nat) (n : Nat) : Nat := ((s.take n).takeWhile (· != 0)).length
def strlen (s : List Nat) : Nat := (s.takeWhile (· != 0)).length

/-- result of a libc string conversion: cells written at dst[0..), return value (`SIZE_MAX` = (size_t)-1),
`*src` afterwards (`none` = NULL, `some k` = source + k cells), pending bytes of `*ps`, errno set to EILSEQ? -/
structure LR where
  out : List Nat
  ret : Nat
  src : Option Nat
  st : List Nat
  eilseq : Bool
  deriving Repr

/-- the loop of glibc's `mbsrtowcs` for dst ≠ NULL: windows of `strnlen(srcp, len) + 1` bytes ("pessimistic guess:
one input byte per output wchar_t"), repeated while the window was used up without reaching the NUL -/
def mbsLoop (loc : Locale) : Nat → List Nat → Nat → Nat → List Nat → List Nat → Status → (List Nat × Nat × List Nat × Status)
  | 0, _, off, _, st, out, status => (out, off, st, status)
  | fuel + 1, rest, off, len, st, out, status =>
    if len = 0 then (out, off, st, status) else
    let w := rest.take (strnlen rest len + 1)
    let r := gconvMb loc st w len
    if (r.status == .empty || r.status == .incomplete) && r.used == w.length && w.getLast? != some 0 then
      mbsLoop loc fuel (rest.drop r.used) (off + r.used) (len - r.out.length) r.st (out ++ r.out) r.status
    else (out ++ r.out, off + r.used, r.st, r.status)

/-- `mbsrtowcs(dst, &src, len, ps)`; `mem` is the source memory from `*src` on (it contains a NUL) -/
def mbsrtowcs (loc : Locale) (dstNull : Bool) (mem : List Nat) (len : Nat) (ps : List Nat) : LR :=
  if dstNull then
    let w := mem.take (strlen mem + 1)
    let r := gconvMb loc ps w (w.length + 1)
    if r.status == .illegal || r.status == .incomplete then
      ⟨[], if r.status == .illegal then SIZE_MAX else r.out.length, some 0, ps, r.status == .illegal⟩
    else ⟨[], r.out.length - 1, some 0, ps, false⟩
  else
    let (out, off, st, status) := mbsLoop loc (mem.length + 1) mem 0 len ps [] .full
    if status == .illegal then ⟨out, SIZE_MAX, some off, st, true⟩
    else if status == .empty && out.getLast? == some 0 then ⟨out, out.length - 1, none, st, false⟩
    else ⟨out, out.length, some off, st, false⟩

/-- `wcsrtombs(dst, &src, len, ps)` (state always initial for these two codecs) -/
def wcsrtombs (loc : Locale) (dstNull : Bool) (mem : List Nat) (len : Nat) : LR :=
  if dstNull then
    let w := mem.take (strlen mem + 1)
    let r := gconvWc loc w (6 * w.length + 1)
    if r.status == .illegal then ⟨[], SIZE_MAX, some 0, [], true⟩
    else ⟨[], r.out.length - 1, some 0, [], false⟩
  else
    let w := mem.take (strnlen mem len + 1)
    let r := gconvWc loc w len
    if r.status == .illegal then ⟨r.out, SIZE_MAX, some r.used, [], true⟩
    else if r.status == .empty && r.out.getLast? == some 0 then ⟨r.out, r.out.length - 1, none, [], false⟩
    else ⟨r.out, r.out.length, some r.used, [], false⟩

/-- `mbstowcs` = `mbsrtowcs` on a local pointer and a zeroed local state -/
def mbstowcs (loc : Locale) (dstNull : Bool) (mem : List Nat) (len : Nat) : LR := mbsrtowcs loc dstNull mem len []
def wcstombs (loc : Locale) (dstNull : Bool) (mem : List Nat) (len : Nat) : LR := wcsrtombs loc dstNull mem len

/-- `wcrtomb(s, wc, ps)`: bytes stored at `s`, return value, errno set? (`s == NULL`: as if `wc == 0` into a private buffer) -/
def wcrtomb (loc : Locale) (sNull : Bool) (wc : Nat) : List Nat × Nat × Bool :=
  if sNull then ([], 1, false)
  else if wc = 0 then ([0], 1, false)
  else match enc loc wc with
    | none => ([], SIZE_MAX, true)
    | some bs => (bs, bs.length, false)

/-- `wctomb(s, wc)`: `s == NULL` asks "stateful encoding?" → 0; return value as C `int` (-1 = `none`) -/
def wctomb (loc : Locale) (sNull : Bool) (wc : Nat) : List Nat × Option Nat × Bool :=
  if sNull then ([], some 0, false)
  else
    let (bs, r, e) := wcrtomb loc false wc
    (bs, if r = SIZE_MAX then none else some r, e)

end Libc

/-! ## the destination object -/

/-- physical destination: `hi` = one past the highest index stored so far, `fault` = a store outside the object -/
structure D where
  cells : List Nat
  hi : Nat := 0
  fault : Bool := false
  deriving Repr

def overlay (old new : List Nat) : List Nat := new.take old.length ++ old.drop new.length

/-- store `vs` at cells `off, off+1, …` -/
def D.write (d : D) (off : Nat) (vs : List Nat) : D :=
  if vs.isEmpty then d else
  { cells := d.cells.take off ++ overlay (d.cells.drop off) vs
    hi := max d.hi (off + vs.length)
    fault := d.fault || off + vs.length > d.cells.length }

def D.zero (d : D) (off n : Nat) : D := d.write off (List.replicate n 0)

/-- `*(char *)dest = 0` on a wide destination: the low byte of cell 0 -/
def D.zeroByte0 (d : D) : D :=
  match d.cells with
  | [] => { d with fault := true, hi := max d.hi 1 }
  | c :: cs => { d with cells := (c - c % 256) :: cs, hi := max d.hi 1 }

/-! ## configuration -/

/-- candidate repairs (fixes/wchar-*.diff); `false` = the code as it is in the tree -/
structure Fixes where
  /-- the four string converters hand libc `min(len, dmax)` instead of `len` -/
  clamp : Bool
  /-- wcrtomb_s / wctomb_s convert into a local buffer and copy only what fits -/
  stage : Bool
  /-- the result code is taken from the conversion's own result, not from a stale `errno` / a re-scan -/
  rc : Bool
  /-- wcstombs_s / wcsrtombs_s accept a conversion of length 0 -/
  zero : Bool
  /-- mbstowcs_s / mbsrtowcs_s do not clear through a NULL dest when src / srcp is NULL -/
  nullsrc : Bool
  /-- wcsrtombs_s stores the terminator in the build without SAFECLIB_STR_NULL_SLACK too -/
  term : Bool
  deriving DecidableEq, Repr

def unrepaired : Fixes := ⟨false, false, false, false, false, false⟩
def allFixed : Fixes := ⟨true, true, true, true, true, true⟩
/-- the code the driver runs: flip when the fixes are applied to /repo -/
def current : Fixes := allFixed

structure Cfg where
  slack : Bool := true
  loc : Locale := .C
  fx : Fixes := current
  deriving Repr

/-- what a call leaves behind -/
structure Out where
  ret : Nat
  /-- value stored through `retvalp` (`none`: nothing stored) -/
  retval : Option Nat := none
  dest : Option D := none
  /-- write through a NULL destination -/
  nullw : Bool := false
  /-- `*srcp` afterwards: `none` = NULL, `some k` = original + k -/
  src : Option Nat := some 0
  st : List Nat := []
  ev : List Nat := []
  deriving Repr

/-- `handle_werror(dest, n, msg, code)` / `handle_error` on a byte destination: clear, then the handler -/
def clearCells (slack : Bool) (d : D) (n : Nat) : D := if slack then d.zero 0 n else d.zero 0 1

/-- `handle_error((char *)dest, nbytes, …)` on a WIDE destination -/
def clearBytesW (slack : Bool) (d : D) (nbytes : Nat) : D := if slack then d.zero 0 (nbytes / 4) else d.zeroByte0

/-! ## the wrappers -/

/-- arguments common to the string converters -/
structure SArgs where
  retvalNull : Bool := false
  dest : Option (List Nat)
  dmax : Nat
  /-- source memory from `src` / `*srcp` on (`none` = NULL pointer) -/
  src : Option (List Nat)
  /-- `srcp == NULL` (restartable forms only) -/
  srcpNull : Bool := false
  psNull : Bool := false
  /-- `(char *)dest == src` (resp. `== srcp`, `== *srcp`) -/
  alias : Bool := false
  len : Nat
  /-- object size in BYTES when known -/
  bos : Option Nat := none
  ps : List Nat := []
  errno0 : Nat := 0
  deriving Repr

def mkD (a : SArgs) : Option D := a.dest.map fun c => { cells := c }

/-- the length handed to libc -/
def libcLen (cfg : Cfg) (a : SArgs) : Nat :=
  if cfg.fx.clamp && a.dest.isSome && a.len > a.dmax then a.dmax else a.len

/-- entry checks on `dest`/`dmax`/`len` shared by mbstowcs_s and mbsrtowcs_s (wide destination);
`clr` = the BOS-known exits clear through `handle_error` (mbstowcs_s) or only report (mbsrtowcs_s) -/
def entryW (cfg : Cfg) (a : SArgs) (clr : Bool) (d : D) : Option Out :=
  if a.dmax = 0 then some { ret := ESZEROL, retval := some 0, dest := some d, ev := [ESZEROL], st := a.ps } else
  match a.bos with
  | none =>
    if a.dmax > RSIZE_MAX_WSTR || a.len > RSIZE_MAX_WSTR then
      some { ret := ESLEMAX, retval := some 0, dest := some d, ev := [ESLEMAX], st := a.ps }
    else none
  | some bos =>
    if a.dmax * 4 % WORD > bos || a.len * 4 % WORD > bos then
      let code := if a.dmax > RSIZE_MAX_WSTR || a.len > RSIZE_MAX_WSTR then ESLEMAX else EOVERFLOW
      some { ret := code, retval := some 0, dest := some (if clr then clearBytesW cfg.slack d bos else d), ev := [code], st := a.ps }
    else none

/-- the tail shared by mbstowcs_s and mbsrtowcs_s once libc has returned `r`;
`requery` = what the second, NULL-destination libc call returns (count, errno set?) -/
def tailW (cfg : Cfg) (a : SArgs) (r : Libc.LR) (errnoBefore : Nat) (requery : Unit → Nat × Bool) : Out :=
  let dAfter : Option D := (mkD a).map fun d => d.write 0 r.out
  let errno1 := if r.eilseq then EILSEQ else errnoBefore
  if r.ret < a.dmax then
    let d' := dAfter.map fun d => if cfg.slack then d.zero r.ret (a.dmax - r.ret) else d.zero r.ret 1
    { ret := EOK, retval := some r.ret, dest := d', src := r.src, st := r.st }
  else
    match dAfter with
    | some d =>
      let rc :=
        if cfg.fx.rc then (if r.ret = SIZE_MAX then EILSEQ else ESNOSPC)
        else if r.ret > RSIZE_MAX_WSTR then
          let (tmp, e) := requery ()
          if tmp = 0 then ESNOSPC else (if e then EILSEQ else 0)
        else ESNOSPC
      { ret := rc, retval := some r.ret, dest := some (clearCells cfg.slack d a.dmax), src := r.src, st := r.st, ev := [rc] }
    | none =>
      let rc := if cfg.fx.rc then (if r.ret = SIZE_MAX then EILSEQ else EOK) else (if r.ret = 0 then EOK else errno1)
      { ret := rc, retval := some r.ret, dest := none, src := r.src, st := r.st }

def mbstowcs_s (cfg : Cfg) (a : SArgs) : Out :=
  if a.retvalNull then { ret := ESNULLP, dest := mkD a, ev := [ESNULLP] } else
  match a.src with
  | none =>
    match mkD a with
    | none => { ret := ESNULLP, retval := some 0, nullw := !cfg.fx.nullsrc && (!cfg.slack || a.dmax != 0), ev := [ESNULLP] }
    | some d => { ret := ESNULLP, retval := some 0, dest := some (clearCells cfg.slack d a.dmax), ev := [ESNULLP] }
  | some mem =>
    match (match mkD a with | some d => entryW cfg a true d | none => none) with
    | some o => o
    | none =>
      if a.alias then { ret := ESOVRLP, retval := some 0, dest := mkD a } else
      let n := libcLen cfg a
      let r := Libc.mbstowcs cfg.loc a.dest.isNone mem n
      let o := tailW cfg a r 0 (fun _ => let q := Libc.mbstowcs cfg.loc true mem n; (q.ret, q.eilseq))
      { o with src := some 0, st := [] }

/-- mbsrtowcs_s' second libc call `mbsrtowcs(NULL, srcp, len - 1, &orig_ps)`: from the UPDATED `*srcp`, with the saved
entry state (`len - 1` is ignored by libc when dst is NULL) -/
def mbsrRequery (cfg : Cfg) (a : SArgs) (mem : List Nat) (n : Nat) (r : Libc.LR) : Unit → Nat × Bool := fun _ =>
  match r.src with
  | none => (0, false)   -- not reached: r.ret > RSIZE_MAX_WSTR only for (size_t)-1, and then *srcp is not NULL
  | some k => let q := Libc.mbsrtowcs cfg.loc true (mem.drop k) (n - 1) a.ps; (q.ret, q.eilseq)

def mbsrtowcs_s (cfg : Cfg) (a : SArgs) : Out :=
  if a.retvalNull then { ret := ESNULLP, dest := mkD a, ev := [ESNULLP], st := a.ps } else
  if a.psNull then { ret := ESNULLP, retval := some 0, dest := mkD a, ev := [ESNULLP] } else
  if a.srcpNull then
    match mkD a with
    | none => { ret := ESNULLP, retval := some 0, nullw := !cfg.fx.nullsrc && (!cfg.slack || a.dmax != 0), ev := [ESNULLP], st := a.ps }
    | some d => { ret := ESNULLP, retval := some 0, dest := some (clearCells cfg.slack d a.dmax), ev := [ESNULLP], st := a.ps }
  else
  match a.src with
  | none => { ret := ESNULLP, retval := some 0, dest := mkD a, ev := [ESNULLP], st := a.ps, src := none }
  | some mem =>
    match (match mkD a with | some d => entryW cfg a false d | none => none) with
    | some o => o
    | none =>
      if a.alias then { ret := ESOVRLP, retval := some 0, dest := mkD a, st := a.ps } else
      let n := libcLen cfg a
      let r := Libc.mbsrtowcs cfg.loc a.dest.isNone mem n a.ps
      tailW cfg a r a.errno0 (mbsrRequery cfg a mem n r)

/-- entry checks shared by wcstombs_s and wcsrtombs_s (byte destination) -/
def entryB (cfg : Cfg) (a : SArgs) (d : D) : Option Out :=
  if a.dmax = 0 then some { ret := ESZEROL, retval := some 0, dest := some d, ev := [ESZEROL], st := a.ps } else
  match a.bos with
  | none =>
    if a.dmax > RSIZE_MAX_WSTR || a.len > RSIZE_MAX_WSTR then
      some { ret := ESLEMAX, retval := some 0, dest := some d, ev := [ESLEMAX], st := a.ps }
    else none
  | some bos =>
    if a.dmax > bos || a.len > bos then
      let code := if a.dmax > RSIZE_MAX_WSTR || a.len > RSIZE_MAX_WSTR then ESLEMAX else EOVERFLOW
      some { ret := code, retval := some 0, dest := some (clearCells cfg.slack d bos), ev := [code], st := a.ps }
    else none

/-- tail of wcstombs_s (`term = true`: the no-slack build stores `dest[l] = 0`) and wcsrtombs_s (`term = false`) -/
def tailB (cfg : Cfg) (a : SArgs) (r : Libc.LR) (term : Bool) : Out :=
  let dAfter : Option D := (mkD a).map fun d => d.write 0 r.out
  let l := r.ret
  let errno1 := if r.eilseq then EILSEQ else a.errno0
  if (l > 0 || cfg.fx.zero) && l < a.dmax then
    let d' := dAfter.map fun d => if cfg.slack then d.zero l (a.dmax - l) else if term then d.zero l 1 else d
    { ret := EOK, retval := some l, dest := d', src := r.src, st := [] }
  else
    let rc := if cfg.fx.rc then (if l = SIZE_MAX then EILSEQ else ESNOSPC) else (if l ≤ RSIZE_MAX_STR then ESNOSPC else errno1)
    match dAfter with
    | some d => { ret := rc, retval := some l, dest := some (clearCells cfg.slack d a.dmax), src := r.src, ev := [rc] }
    | none => { ret := rc, retval := some l, src := r.src }

def wcstombs_s (cfg : Cfg) (a : SArgs) : Out :=
  if a.retvalNull then { ret := ESNULLP, dest := mkD a, ev := [ESNULLP] } else
  match (match mkD a with | some d => entryB cfg a d | none => none) with
  | some o => o
  | none =>
    match a.src with
    | none => { ret := ESNULLP, retval := some 0, dest := (mkD a).map fun d => clearCells cfg.slack d a.dmax, ev := [ESNULLP] }
    | some mem =>
      if a.alias then { ret := ESOVRLP, retval := some 0, dest := mkD a, ev := [ESOVRLP] } else
      let r := Libc.wcstombs cfg.loc a.dest.isNone mem (libcLen cfg a)
      { tailB cfg a r true with src := some 0 }

def wcsrtombs_s (cfg : Cfg) (a : SArgs) : Out :=
  if a.retvalNull then { ret := ESNULLP, dest := mkD a, ev := [ESNULLP] } else
  if a.psNull then { ret := ESNULLP, retval := some 0, dest := mkD a, ev := [ESNULLP] } else
  match (match mkD a with | some d => entryB cfg a d | none => none) with
  | some o => o
  | none =>
    if a.srcpNull then
      { ret := ESNULLP, retval := some 0, dest := (mkD a).map fun d => clearCells cfg.slack d a.dmax, ev := [ESNULLP] }
    else
    match a.src with
    | none => { ret := ESNULLP, retval := some 0, dest := (mkD a).map fun d => clearCells cfg.slack d a.dmax, ev := [ESNULLP], src := none }
    | some mem =>
      if a.alias then { ret := ESOVRLP, retval := some 0, dest := mkD a, ev := [ESOVRLP] } else
      let r := Libc.wcsrtombs cfg.loc a.dest.isNone mem (libcLen cfg a)
      tailB cfg a r cfg.fx.term

/-- arguments of the single-character converters -/
structure CArgs where
  retvalNull : Bool := false
  dest : Option (List Nat)
  dmax : Nat
  wc : Nat
  psNull : Bool := false
  bos : Option Nat := none
  errno0 : Nat := 0
  deriving Repr

/-- entry checks of wcrtomb_s / wctomb_s -/
def entryC (a : CArgs) : Option Out :=
  let d0 : Option D := a.dest.map fun c => { cells := c }
  match a.dest with
  | some _ =>
    if a.dmax = 0 then some { ret := ESZEROL, dest := d0, ev := [ESZEROL] } else
    match a.bos with
    | none => if a.dmax > RSIZE_MAX_WSTR then some { ret := ESLEMAX, dest := d0, ev := [ESLEMAX] } else none
    | some bos =>
      if a.dmax > bos then
        let code := if a.dmax > RSIZE_MAX_STR then ESLEMAX else EOVERFLOW
        some { ret := code, dest := d0, ev := [code] }
      else none
  | none => if a.dmax != 0 then some { ret := ESNULLP, ev := [ESNULLP] } else none

def wcrtomb_s (cfg : Cfg) (a : CArgs) : Out :=
  if a.retvalNull then { ret := ESNULLP, dest := a.dest.map fun c => { cells := c }, ev := [ESNULLP] } else
  if a.psNull then { ret := ESNULLP, dest := a.dest.map fun c => { cells := c }, ev := [ESNULLP] } else
  match entryC a with
  | some o => o
  | none =>
    let (bs, len, e) := Libc.wcrtomb cfg.loc a.dest.isNone a.wc
    let d0 : Option D := a.dest.map fun c => { cells := c }
    -- as it is: libc stores straight into dest; repaired: into a local buffer, copied only when it fits
    let dAfter := d0.map fun d => if cfg.fx.stage && !(len < a.dmax) then d else d.write 0 bs
    let errno1 := if e then EILSEQ else a.errno0
    if len < a.dmax then
      { ret := EOK, retval := some len,
        dest := dAfter.map fun d => if cfg.slack then d.zero len (a.dmax - len) else d.zero len 1 }
    else
      let rc := if cfg.fx.rc then (if len = SIZE_MAX then EILSEQ else ESNOSPC) else (if len ≤ RSIZE_MAX_STR then ESNOSPC else errno1)
      match dAfter with
      | some d => { ret := rc, retval := some len, dest := some (clearCells cfg.slack d a.dmax), ev := [rc] }
      | none => { ret := rc, retval := some len }

/-- `*retvalp` of wctomb_s is an `int`: reported as `some n` or `none` for -1 via `retval = SIZE_MAX` -/
def wctomb_s (cfg : Cfg) (a : CArgs) : Out :=
  if a.retvalNull then { ret := ESNULLP, dest := a.dest.map fun c => { cells := c }, ev := [ESNULLP] } else
  match entryC a with
  | some o => o
  | none =>
    let (bs, len?, e) := Libc.wctomb cfg.loc a.dest.isNone a.wc
    let d0 : Option D := a.dest.map fun c => { cells := c }
    let fits := match len? with | some l => l > 0 && l < a.dmax | none => false
    let dAfter := d0.map fun d => if cfg.fx.stage && !fits then d else d.write 0 bs
    let errno1 := if e then EILSEQ else a.errno0
    let rv := match len? with | some l => l | none => SIZE_MAX
    if fits then
      { ret := EOK, retval := some rv, dest := dAfter.map fun d => if cfg.slack then d.zero rv (a.dmax - rv) else d }
    else
      let rc :=
        if cfg.fx.rc then (match len? with | none => EILSEQ | some l => if l = 0 && a.dest.isNone then EOK else ESNOSPC)
        else (match len? with | some l => if l > 0 then ESNOSPC else errno1 | none => errno1)
      match dAfter with
      | some d => { ret := rc, retval := some rv, dest := some (clearCells cfg.slack d a.dmax), ev := [rc] }
      | none => { ret := rc, retval := some rv }

end SafeC.Conv

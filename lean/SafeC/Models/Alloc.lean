import SafeC.Gen.Consts
/-!
# C20 — the allocation skeleton machine and the allocation skeletons of every allocating function

`Machine.lean` has no allocator.  This file defines a small machine of its own: programs over
`alloc`, `realloc`, `free`, `deref` (any use of a pointer that came from the allocator), `emit`
(constraint handler called / dest cleared) and `ret`.  The allocator is answered by an oracle
`fails : Nat → Bool` on the running index of the allocation request (malloc, calloc and realloc
share one counter, as in harness/halloc.c).  State = live blocks + counters + event log; using a
failed allocation (`deref none`) is a fault, as is touching or freeing a block that is not live.

The skeletons mirror the C control flow around the allocations 1:1 — which branch allocates, which
exits free, which exits forget, which uses are unchecked — and are parameterised by the input
features that steer that control flow (computed by tools/p20.py from the concrete input, see
there).  `Fixes` selects, per defect site, the code as it is (`false`) or as repaired by
fixes/*.diff (`true`); `current` is the tree as it stands.
-/
namespace SafeC.Alloc

abbrev Blk := Nat

inductive Fault
  | nullDeref
  | useAfterFree (b : Blk)
  | badFree (b : Blk)
  | badRealloc (b : Blk)
  deriving DecidableEq, Repr

inductive Ev
  | malloc (i : Nat) (ok : Bool)
  | realloc (i : Nat) (old : Option Blk) (ok : Bool)
  | free (b : Option Blk)
  | handler
  | clear
  deriving DecidableEq, Repr

structure St where
  next : Nat := 0            -- index of the next allocation request
  live : List Blk := []      -- blocks outstanding (a block is named by the request that created it)
  nfail : Nat := 0           -- allocation requests answered NULL so far
  hn : Nat := 0              -- constraint handler calls so far
  cleared : Bool := false    -- dest has been wiped (handle_error / handle_werror / memset / *dest = 0)
  events : List Ev := []     -- newest first
  deriving Repr

inductive Prog (α : Type) : Type
  | ret (x : α)
  | alloc (k : Option Blk → Prog α)
  | realloc (old : Option Blk) (k : Option Blk → Prog α)
  | free (b : Option Blk) (k : Prog α)
  | deref (b : Option Blk) (k : Prog α)
  | emit (e : Ev) (k : Prog α)

namespace Prog
def bind : Prog α → (α → Prog β) → Prog β
  | .ret x, f => f x
  | .alloc k, f => .alloc fun r => (k r).bind f
  | .realloc o k, f => .realloc o fun r => (k r).bind f
  | .free b k, f => .free b (k.bind f)
  | .deref b k, f => .deref b (k.bind f)
  | .emit e k, f => .emit e (k.bind f)
instance : Monad Prog where
  pure := .ret
  bind := bind
end Prog

def malloc : Prog (Option Blk) := .alloc .ret
def realloc (old : Option Blk) : Prog (Option Blk) := .realloc old .ret
def free (b : Option Blk) : Prog Unit := .free b (.ret ())
/-- `if (p) free(p);` -/
def freeIf (b : Option Blk) : Prog Unit := if b.isSome then free b else pure ()
def deref (b : Option Blk) : Prog Unit := .deref b (.ret ())
def handler : Prog Unit := .emit .handler (.ret ())
def clear : Prog Unit := .emit .clear (.ret ())

def St.onEmit (s : St) : Ev → St
  | .handler => { s with hn := s.hn + 1, events := .handler :: s.events }
  | .clear => { s with cleared := true, events := .clear :: s.events }
  | e => { s with events := e :: s.events }

def St.allocFail (s : St) (e : Ev) : St :=
  { s with next := s.next + 1, nfail := s.nfail + 1, events := e :: s.events }
def St.allocOk (s : St) (live : List Blk) (e : Ev) : St :=
  { s with next := s.next + 1, live := s.next :: live, events := e :: s.events }

def exec (fails : Nat → Bool) : Prog α → St → Except Fault (α × St)
  | .ret x, s => .ok (x, s)
  | .alloc k, s =>
    if fails s.next then exec fails (k none) (s.allocFail (.malloc s.next false))
    else exec fails (k (some s.next)) (s.allocOk s.live (.malloc s.next true))
  | .realloc old k, s =>
    match old with
    | some b =>
      if b ∈ s.live then
        if fails s.next then exec fails (k none) (s.allocFail (.realloc s.next old false))
        else exec fails (k (some s.next)) (s.allocOk (s.live.erase b) (.realloc s.next old true))
      else .error (.badRealloc b)
    | none =>
      if fails s.next then exec fails (k none) (s.allocFail (.realloc s.next none false))
      else exec fails (k (some s.next)) (s.allocOk s.live (.realloc s.next none true))
  | .free b k, s =>
    match b with
    | none => exec fails k { s with events := .free none :: s.events }
    | some b => if b ∈ s.live then exec fails k { s with live := s.live.erase b, events := .free (some b) :: s.events }
                else .error (.badFree b)
  | .deref b k, s =>
    match b with
    | none => .error .nullDeref
    | some b => if b ∈ s.live then exec fails k s else .error (.useAfterFree b)
  | .emit e k, s => exec fails k (s.onEmit e)

/-- which repairs (fixes/*.diff) the modelled code contains -/
structure Fixes where
  fmtcopy : Bool      -- vsnprintf_s.c: the %L[fFeEgGaA] / %a format-copy mallocs are checked
  lsconv : Bool       -- vsnprintf_s.c: %ls staging buffer freed (and a negative code returned) when wcstombs_s fails
  wprobe : Bool       -- swprintf_s / snwprintf_s / vsnwprintf_s: probe malloc checked
  vswrep : Bool       -- vswprintf_s: failed probe malloc goes through handle_werror
  normtmp : Bool      -- wcsnorm_s: scratch malloc checked
  reorder : Bool      -- wcsnorm_reorder_s: malloc/realloc checked, seq_ext freed on the ESNOSPC exits
  compose : Bool      -- wcsnorm_compose_s: the same
  deriving Repr, DecidableEq

/-- the code before any repair (what the `_partial` / `_witness` theorems are about) -/
def unrepaired : Fixes := ⟨false, false, false, false, false, false, false⟩
def allFixed : Fixes := ⟨true, true, true, true, true, true, true⟩
/-- the tree as it stands: the ONE line to change when fixes/*.diff are applied to /repo
(`allFixed`, or single fields when only some are applied) -/
def current : Fixes := allFixed

/-- what the caller sees -/
structure Out where
  failed : Bool
  /-- an unsigned `dmax -= n` went below zero on the way (destination overrun: a C01 matter; the check does not use such inputs) -/
  wrapped : Bool := false
  deriving Repr, DecidableEq

/-- handler, then `return <failure>` -/
def failH : Prog Out := do handler; pure ⟨true, false⟩
/-- handle_error / handle_werror (wipe dest, call the handler), then `return <failure>` -/
def failCH : Prog Out := do clear; handler; pure ⟨true, false⟩

/-! ## the printf engine `safec_vsnprintf_s` (src/str/vsnprintf_s.c) -/

inductive EngRes | ok | fail | posErr
  deriving DecidableEq, Repr

/-- where a `%ls` directive leaves the engine (`none`: it completes) -/
inductive LsExit | none | argNull | conv | tooLong | prePad | out | postPad
  deriving DecidableEq, Repr
inductive PlainExit | none | handled | silent
  deriving DecidableEq, Repr

/-- one stretch of the format: `plain` = literal text and directives that do not allocate (with the
way they leave the engine, if they do); `fl follows err` = a `%Lf %Le %Lg %La %a` directive, `follows` =
more format text behind it (only then is the directive copied to the heap), `err` = writing its
characters failed; `ls x` = a `%ls` directive -/
inductive Seg
  | plain (x : PlainExit)
  | fl (follows err : Bool)
  | ls (x : LsExit)
  deriving DecidableEq, Repr

def stop (r : EngRes) : Prog (Option EngRes) := pure (some r)
def stopH (r : EngRes) : Prog (Option EngRes) := do handler; pure (some r)

/-- the tail of a float directive, after the format copy has been dealt with -/
def flTail (err : Bool) : Prog (Option EngRes) := if err then stopH .fail else pure none

/-- the part of `%ls` behind the successful malloc -/
def lsBody (fx : Fixes) (p : Option Blk) : LsExit → Prog (Option EngRes)
  | .conv => do
    deref p                                 -- err = wcstombs_s(&len, p, l + 1, lp, l);
    handler; handler                        -- wcstombs_s reports, then the engine reports
    if fx.lsconv then do free p; stop .fail
    else stop .posErr                       -- `return err;` -- a positive code, and p is not freed
  | .tooLong => do deref p; handler; free p; stop .fail
  | .prePad => do deref p; handler; free p; stop .fail
  | .out => do deref p; deref p; handler; free p; stop .fail
  | .postPad => do deref p; deref p; free p; stopH .fail
  | _ => do deref p; deref p; free p; pure none

/-- `none` = the engine goes on with the next piece of the format -/
def segProg (fx : Fixes) : Seg → Prog (Option EngRes)
  | .plain .none => pure none
  | .plain .handled => stopH .fail
  | .plain .silent => stop .fail
  | .fl false err => flTail err
  | .fl true err => do
    let s ← malloc                          -- char *s = (char *)malloc(off + 1);
    if fx.fmtcopy && s.isNone then stopH .fail
    else do
      deref s                               -- memcpy(s, startformat, off); s[off] = '\0';
      deref s                               -- safec_?toa*(..., s): snprintf(buf, 64, s, value)
      free s
      flTail err
  | .ls .argNull => stopH .fail
  | .ls x => do
    let p ← malloc                          -- p = (char *)malloc(l + 1);
    if p.isNone then stopH .fail            -- if (!p) { ...handler...; return -1; }
    else lsBody fx p x

def engine (fx : Fixes) : List Seg → Prog EngRes
  | [] => pure .ok
  | g :: rest => do
    match ← segProg fx g with
    | some r => pure r
    | none => engine fx rest

/-- the callers of the engine: `vsn` = sprintf_s, snprintf_s, vsnprintf_s (all are `_vsnprintf_s_chk`);
`vs full posGe` = vsprintf_s (`full`: the text fills dmax exactly, `posGe`: the positive code returned by a
failed `%ls` conversion is >= dmax); `stream` = printf_s, fprintf_s, vfprintf_s -/
inductive Wrap | vsn | vs (full posGe : Bool) | stream
  deriving DecidableEq, Repr

def wrapTail : Wrap → EngRes → Prog Out
  | .stream, r => pure ⟨r == .fail, false⟩
  | .vsn, r => if r == .fail then do clear; pure ⟨true, false⟩ else pure ⟨false, false⟩
  | .vs full posGe, r =>
    if r == .fail then do clear; pure ⟨true, false⟩
    else if (r == .ok && full) || (r == .posErr && posGe) then failCH
    else pure ⟨false, false⟩

def printfProg (fx : Fixes) (w : Wrap) (entryErr : Bool) (segs : List Seg) : Prog Out :=
  if entryErr then failH
  else do
    let r ← engine fx segs
    wrapTail w r

/-! ## the no-space probe of the wide printf functions (src/wchar/{swprintf_s,vswprintf_s,snwprintf_s,vsnwprintf_s}.c) -/

inductive WFn | sw | vsw | snw | vsnw
  deriving DecidableEq, Repr
/-- result of the probing `vswprintf`: negative, zero, `0 < r < dmax`, `r >= dmax` -/
inductive PR | neg | zero | small | large
  deriving DecidableEq, Repr

structure WFeat where
  entryErr : Bool     -- an entry check fails (no allocation is reached)
  fits : Bool         -- the first vswprintf(dest, dmax, ...) succeeds
  dmax1 : Bool        -- dmax == 1
  big : Bool          -- dmax >= 512: the probe buffer comes from malloc
  probe : PR
  deriving Repr

/-- swprintf_s / vswprintf_s after the probe: `if (ret > 0) goto nospc; ... else if (ret < 0) handle_werror` -/
def swTail : PR → Prog Out
  | .small | .large => failCH
  | .neg => failCH
  | .zero => pure ⟨false, false⟩
/-- snwprintf_s / vsnwprintf_s after the probe: truncate, or handle_werror for a negative result -/
def snwTail : PR → Prog Out
  | .neg => failCH
  | _ => pure ⟨false, false⟩

/-- `tmp = malloc(...); ret = vswprintf(tmp, ...); free(tmp);` with the check the fix adds -/
def probeUnchecked (fixed : Bool) (k : Prog Out) : Prog Out := do
  let tmp ← malloc
  if fixed && tmp.isNone then failCH
  else do
    deref tmp
    free tmp
    k

def wprobeProg (fx : Fixes) (f : WFn) (x : WFeat) : Prog Out :=
  if x.entryErr then failH
  else if x.fits then pure ⟨false, false⟩
  else match f with
  | .sw =>
    if x.dmax1 then failCH
    else if x.big then probeUnchecked fx.wprobe (swTail x.probe)
    else swTail x.probe
  | .vsw =>
    if !x.big then
      if x.dmax1 then failCH else swTail x.probe
    else do
      let tmp ← malloc                       -- malloc(RSIZE_MAX_WSTR * sizeof(wchar_t))
      if tmp.isNone then
        if fx.vswrep then failCH             -- fixed: handle_werror first
        else pure ⟨true, false⟩              -- if (!tmp) return -(ESNOSPC);
      else do
        deref tmp
        free tmp
        swTail x.probe
  | _ =>                                     -- snwprintf_s, vsnwprintf_s
    if !x.big then
      if x.dmax1 then do clear; pure ⟨false, false⟩     -- *dest = L'\0'; return 1;
      else snwTail x.probe
    else probeUnchecked fx.wprobe (snwTail x.probe)

/-! ## the two fold buffers of wcsicmp_s and wcsnatcmp_s (src/extwchar/{wcsicmp_s,wcsnatcmp_s}.c) -/

structure FoldFeat where
  entryErr : Bool
  fold : Bool        -- wcsicmp_s: always; wcsnatcmp_s: the fold_case argument
  fc1err : Bool      -- wcsfc_s(d1, 2*dmax, dest) returns an error (it reports it itself)
  fc2err : Bool
  finalErr : Bool    -- the comparison proper ends in an error exit (wcscmp_s error / ESUNTERM), handler called
  deriving Repr

/-- `wcsfc_s(d, ...)`: a null `d` is caught by its own CHK_DEST_NULL; result = "returned an error" -/
def wcsfc (d : Option Blk) (err : Bool) : Prog Bool :=
  if d.isNone then do handler; pure true
  else do
    deref d
    if err then do handler; pure true else pure false

def foldFinal (x : FoldFeat) : Prog Out :=
  if x.finalErr then failH else pure ⟨false, false⟩

def foldProg (x : FoldFeat) : Prog Out :=
  if x.entryErr then failH
  else if x.fold then do
    let d1 ← malloc
    let e1 ← wcsfc d1 x.fc1err
    if e1 then do free d1; pure ⟨true, false⟩
    else do
      let d2 ← malloc
      let e2 ← wcsfc d2 x.fc2err
      if e2 then do free d1; free d2; pure ⟨true, false⟩
      else do
        deref d1; deref d2
        let o ← foldFinal x
        free d1; free d2
        pure o
  else foldFinal x

/-! ## normalization: wcsnorm_reorder_s, wcsnorm_compose_s, wcsnorm_s (src/extwchar/wcsnorm_s.c) -/

/-- a buffer the function writes through: the caller's, or one that came from malloc -/
inductive Ptr | caller | heap (b : Option Blk)
  deriving DecidableEq, Repr
def touch : Ptr → Prog Unit
  | .caller => pure ()
  | .heap b => deref b

def CC_SEQ_SIZE : Nat := 10
def CC_SEQ_STEP : Nat := 5
def two64 : Nat := 18446744073709551616
/-- `dmax -= n` on a size_t (written so that symbolic evaluation never recurses on the 2^64 literal) -/
@[irreducible] def subw (d n : Nat) : Nat := (two64 + d - n % two64) % two64

structure Seq where
  ccPos : Nat := 0
  seqMax : Nat := CC_SEQ_SIZE
  ext : Option Blk := none     -- seq_ext
  useExt : Bool := false       -- seq_ptr == seq_ext
  dmax : Nat
  wrapped : Bool := false
  deriving Repr

/-- `n` cells written to dest: `dest += n; dmax -= n;` -/
def Seq.wrote (q : Seq) (n : Nat) : Seq :=
  { q with wrapped := q.wrapped || q.dmax < n, dmax := subw q.dmax n }

/-- the growth step shared by reorder and compose; `none` = the (fixed) code bailed out -/
def grow (fixed : Bool) (q : Seq) : Prog (Option Seq) :=
  if q.seqMax < q.ccPos + 1 then
    if q.ccPos == CC_SEQ_SIZE then do
      let e ← malloc                                   -- seq_ext = malloc(seq_max * sizeof ...)
      if fixed && e.isNone then pure none
      else do
        deref e                                        -- memcpy(seq_ext, seq_ary, ...)
        pure (some { q with seqMax := q.ccPos + CC_SEQ_STEP, ext := e, useExt := true })
    else do
      let e ← realloc q.ext                            -- seq_ext = realloc(seq_ext, ...)
      if fixed && e.isNone then do
        freeIf q.ext                                   -- fixed: the old block is released
        pure none
      else pure (some { q with seqMax := q.ccPos + CC_SEQ_STEP, ext := e, useExt := true })
  else pure (some q)

def useSeq (q : Seq) : Prog Unit := if q.useExt then deref q.ext else pure ()

/-- `seq_ptr[cc_pos] = ...; ++cc_pos;` with the growth in front -/
def collect (fixed : Bool) (q : Seq) : Prog (Option Seq) := do
  match ← grow fixed q with
  | none => pure none
  | some q' => do
    useSeq q'
    pure (some { q' with ccPos := q'.ccPos + 1 })

inductive Step | done (o : Out) | next (q : Seq) (valid : Bool)

/-- an ESNOSPC exit of reorder/compose: handle_werror, and (fixed) free(seq_ext) -/
def bail (fixed : Bool) (q : Seq) : Prog Step := do
  clear; handler
  if fixed then freeIf q.ext
  pure (.done ⟨true, q.wrapped⟩)

/-- the exit the fix adds for a failed malloc/realloc -/
def bailNoMem (q : Seq) : Prog Step := do
  clear; handler
  pure (.done ⟨true, q.wrapped⟩)

def checkRoom (fixed : Bool) (q : Seq) (valid : Bool) : Prog Step :=
  if q.dmax == 0 then bail fixed q else pure (.next q valid)

/-- reorder: the output part of one iteration -/
def reorderFlush (fixed : Bool) (dest : Ptr) (m : Bool) (q : Seq) : Prog Step :=
  let starter (q : Seq) : Prog Step :=
    if !m then do touch dest; checkRoom fixed (q.wrote 1) true
    else checkRoom fixed q true
  if q.ccPos != 0 then
    if q.dmax == q.ccPos then bail fixed q             -- if (dmax - cc_pos <= 0): ESNOSPC
    else do
      useSeq q                                         -- qsort, then the copy loop reads seq_ptr
      touch dest
      starter { q.wrote q.ccPos with ccPos := 0 }
  else starter q

/-- `m`: the cell is a combining mark (canonical combining class != 0); `last`: it is the last cell -/
def reorderStep (fixed : Bool) (dest : Ptr) (m last : Bool) (q : Seq) : Prog Step :=
  if m then do
    match ← collect fixed q with
    | none => bailNoMem q
    | some q' => if !last then pure (.next q' true) else reorderFlush fixed dest m q'
  else reorderFlush fixed dest m q

def reorderLoop (fixed : Bool) (dest : Ptr) : List Bool → Seq → Prog Out
  | [], q => do
    freeIf q.ext                                       -- if (seq_ext) free(seq_ext);
    touch dest                                         -- *dest = 0;
    pure ⟨false, q.wrapped⟩
  | m :: rest, q => do
    match ← reorderStep fixed dest m rest.isEmpty q with
    | .done o => pure o
    | .next q' _ => reorderLoop fixed dest rest q'

def reorderProg (fx : Fixes) (dest : Ptr) (dmax : Nat) (cells : List Bool) : Prog Out :=
  if dmax > Gen.RSIZE_MAX_WSTR then failH               -- CHK_DMAX_MAX
  else reorderLoop fx.reorder dest cells { dmax }

/-- compose: per source cell, `mark` = combining class != 0, `comp` = the cell is absorbed into the
current starter by canonical composition -/
structure CCell where
  mark : Bool
  comp : Bool
  deriving Repr, DecidableEq

/-- compose: output of the starter and the pending marks -/
def composeOut (fixed : Bool) (dest : Ptr) (q : Seq) : Prog Step := do
  touch dest                                           -- _ENC_W16(dest, dmax, cpS)
  let q := q.wrote 1
  if q.dmax == 0 then bail fixed q
  else if q.ccPos != 0 then do
    useSeq q
    touch dest
    pure (.next { q.wrote q.ccPos with ccPos := 0 } true)
  else pure (.next q true)

def composeStep (fixed : Bool) (dest src : Ptr) (c : CCell) (last valid : Bool) (q : Seq) : Prog Step := do
  touch src                                            -- cp = _dec_w16(p)
  if !valid then
    if !c.mark then
      if !last then pure (.next q true) else composeOut fixed dest q
    else do
      touch dest
      checkRoom fixed (q.wrote 1) false
  else if c.comp then
    if !last then pure (.next q true) else composeOut fixed dest q
  else if c.mark || last then do
    match ← collect fixed q with
    | none => bailNoMem q
    | some q' => if c.mark && !last then pure (.next q' true) else composeOut fixed dest q'
  else composeOut fixed dest q

def composeLoop (fixed : Bool) (dest src : Ptr) : List CCell → Bool → Seq → Prog Out
  | [], _, q => do
    freeIf q.ext
    touch dest                                         -- memset(dest, 0, ...) / *dest = 0
    pure ⟨false, q.wrapped⟩
  | c :: rest, valid, q => do
    match ← composeStep fixed dest src c rest.isEmpty valid q with
    | .done o => pure o
    | .next q' v => composeLoop fixed dest src rest v q'

def composeProg (fx : Fixes) (dest src : Ptr) (dmax : Nat) (cells : List CCell) : Prog Out :=
  if dmax > Gen.RSIZE_MAX_WSTR then failCH
  else composeLoop fx.compose dest src cells false { dmax }

inductive NormMode | nfd | nfc | fcd | fcc
  deriving DecidableEq, Repr

/-- wcsnorm_s: `decErr` = the decomposition step reports an error (before any allocation);
`len` = decomposed length; `rcells` = mark pattern of the decomposed text (the reorder step only
permutes marks inside runs, so the pattern is also that of the reordered text); `ccells` = the
composition features of the reordered text -/
structure NormFeat where
  decErr : Bool
  mode : NormMode
  dmax : Nat
  len : Nat
  rcells : List Bool
  ccells : List CCell
  deriving Repr

def tmpFree : Ptr → Prog Unit
  | .heap t => freeIf t                                -- if (tmp) free(tmp);
  | .caller => pure ()

/-- wcsnorm_s behind the scratch-buffer decision -/
def normBody (fx : Fixes) (x : NormFeat) (tmp : Ptr) : Prog Out := do
  let r ← reorderProg fx tmp (x.len + 2) x.rcells
  if r.failed then do
    tmpFree tmp
    clear
    pure ⟨true, r.wrapped⟩
  else if x.mode == .nfd then do
    touch tmp                                          -- memcpy(dest, tmp_ptr, ...)
    tmpFree tmp
    pure ⟨false, r.wrapped⟩
  else do
    let c ← composeProg fx .caller tmp x.dmax x.ccells
    tmpFree tmp
    pure ⟨c.failed, r.wrapped || c.wrapped⟩

def normProg (fx : Fixes) (x : NormFeat) : Prog Out :=
  if x.decErr then failCH
  else if x.mode == .fcd then pure ⟨false, false⟩
  else if x.len + 2 < 128 then normBody fx x .caller    -- tmp_stack
  else do
    let t ← malloc                                     -- tmp = malloc((len + 2) * sizeof(wchar_t))
    if fx.normtmp && t.isNone then failCH
    else normBody fx x (.heap t)

end SafeC.Alloc

import SafeC.Common
/-!
# F5: the tokenizers `strtok_s` (src/str/strtok_s.c) and `wcstok_s` (src/wchar/wcstok_s.c)

Both functions are the same two-phase scan (skip delimiters, then find the end of the token); the
cell is a `char` or a `wchar_t`.  `dmaxp` and `ptr` point to caller objects that are not part of the
modelled memory: the model receives their contents (`none` = the pointer itself is NULL) and returns
what was stored through them (`none` = nothing stored).

The models mirror the C statement by statement, including
* the loop headers `while (*dest != '\0' && !ptoken)` / `while (*dest != '\0')` that read `*dest`
  *before* the `dlen == 0` test of the loop body (a read of `dest[dmax]`),
* `*dest = '\0'` on the "unterminated" exits, executed at whatever cell the scan has reached
  (`dest[dmax]` for an unterminated dest, a non-delimiter cell for an over-long delimiter string),
* `ptoken` staying NULL when the delimiter string is empty (the inner loop body never runs),
* `*ptr` being stored at every return after the entry checks (since the `fix:` commit: also when the
  scan ends at the terminator — before it the continuation pointer was stale there), `NULL` on the
  late error exits,
* `strtok_s` testing `RSIZE_MAX_STR` only when the object size is unknown.
-/
namespace SafeC
open Gen

/-- what a tokenizer call hands back: the returned pointer (0 = NULL) and the values stored through
`dmaxp` / `ptr` (`none` = that object was not written) -/
structure TokOut where
  ret : Nat
  dmaxv : Option Nat := none
  ptrv : Option Nat := none
  deriving Repr, DecidableEq, Inhabited

/-- entry-check exit: handler, `errno = code`, `return NULL` (errno is not part of the observation) -/
def tokFail (code : Nat) : Prog TokOut := do
  handlerS code
  pure { ret := 0 }

/-- the late error exit `*ptr = NULL; *dmaxp = 0; *dest = '\0'; handler(ESUNTERM); return NULL` -/
def tokUnterm (dest : Nat) : Prog TokOut := do
  store dest 0
  handlerS ESUNTERM
  pure { ret := 0, dmaxv := some 0, ptrv := some 0 }

/-- outcome of one pass over the delimiter list inside the FIRST loop -/
inductive Delim1 where
  | tooLong              -- `slen == 0` reached with `*pt != '\0'`
  | done (tok : Bool)    -- inner loop left; `tok` = ptoken is non-NULL (= dest)
  deriving Repr, DecidableEq, Inhabited

/-- `slen = STRTOK_DELIM_MAX_LEN; pt = delim; while (*pt != '\0') { if (slen == 0) ..; slen--;
     if (*dest == *pt) { ptoken = NULL; break; } else { pt++; ptoken = dest; } }` -/
def delimScan1 (dest : Nat) : Nat → Nat → Bool → Prog Delim1
  | 0, pt, tok => do
    let d ← load pt
    if d = 0 then pure (.done tok) else pure .tooLong
  | slen+1, pt, tok => do
    let d ← load pt
    if d = 0 then pure (.done tok)
    else do
      let c ← load dest
      let d' ← load pt
      if c = d' then pure (.done false)
      else delimScan1 dest slen (pt+1) true

/-- outcome of the first loop -/
inductive Scan1 where
  | out (o : TokOut)                        -- returned from inside the loop
  | exit (ptoken : Nat) (dest dlen : Nat)   -- loop left; ptoken = 0 is NULL
  deriving Repr, DecidableEq, Inhabited

/-- `while (*dest != '\0' && !ptoken) { if (dlen == 0) <error>; <delimScan1>; dest++; dlen--; }`
by recursion on `dlen`.  `wide`: wcstok_s also does `*dmaxp = 0; *dest = 0` on the dlen == 0 exit,
strtok_s only `*ptr = NULL`. -/
def scan1 (wide : Bool) (delim : Nat) : Nat → Nat → Prog Scan1
  | 0, dest => do
    let c ← load dest
    if c = 0 then pure (.exit 0 dest 0)
    else if wide then do
      let o ← tokUnterm dest
      pure (.out o)
    else do
      handlerS ESUNTERM
      pure (.out { ret := 0, ptrv := some 0 })
  | dlen+1, dest => do
    let c ← load dest
    if c = 0 then pure (.exit 0 dest (dlen+1))
    else do
      let r ← delimScan1 dest STRTOK_DELIM_MAX_LEN delim false
      match r with
      | .tooLong => do
        let o ← tokUnterm dest
        pure (.out o)
      | .done true => do
        -- dest++; dlen--; the loop header reads `*dest` once more, then `!ptoken` ends the loop
        let _ ← load (dest+1)
        pure (.exit dest (dest+1) dlen)
      | .done false => scan1 wide delim dlen (dest+1)

/-- outcome of one pass over the delimiter list inside the SECOND loop -/
inductive Delim2 where
  | tooLong | hit | miss
  deriving Repr, DecidableEq, Inhabited

def delimScan2 (dest : Nat) : Nat → Nat → Prog Delim2
  | 0, pt => do
    let d ← load pt
    if d = 0 then pure .miss else pure .tooLong
  | slen+1, pt => do
    let d ← load pt
    if d = 0 then pure .miss
    else do
      let c ← load dest
      let d' ← load pt
      if c = d' then pure .hit else delimScan2 dest slen (pt+1)

/-- `while (*dest != '\0') { if (dlen == 0) <error>; <delimScan2: on a hit `*dest = 0; *ptr = dest+1;
*dmaxp = dlen-1; return ptoken`>; dest++; dlen--; }  *ptr = dest; *dmaxp = dlen; return ptoken;` -/
def scan2 (delim ptoken : Nat) : Nat → Nat → Prog TokOut
  | 0, dest => do
    let c ← load dest
    if c = 0 then pure { ret := ptoken, dmaxv := some 0, ptrv := some dest }
    else tokUnterm dest
  | dlen+1, dest => do
    let c ← load dest
    if c = 0 then pure { ret := ptoken, dmaxv := some (dlen+1), ptrv := some dest }
    else do
      let r ← delimScan2 dest STRTOK_DELIM_MAX_LEN delim
      match r with
      | .tooLong => tokUnterm dest
      | .hit => do
        store dest 0
        pure { ret := ptoken, dmaxv := some dlen, ptrv := some (dest+1) }
      | .miss => scan2 delim ptoken dlen (dest+1)

/-- everything after the entry checks -/
def tokBody (wide : Bool) (delim dest dlen : Nat) : Prog TokOut := do
  let r ← scan1 wide delim dlen dest
  match r with
  | .out o => pure o
  | .exit ptoken d l =>
    if ptoken = 0 then pure { ret := 0, dmaxv := some l, ptrv := some d }
    else scan2 delim ptoken l d

/-- `_strtok_s_chk(dest, dmaxp, delim, ptr, destbos)`.
`dmaxp = none`: NULL pointer, `some v`: `*dmaxp == v`; `ptr` likewise. -/
def strtok_s (dest : Nat) (dmaxp : Option Nat) (delim : Nat) (ptr : Option Nat) (destbos : Bos) :
    Prog TokOut :=
  match dmaxp with
  | none => tokFail ESNULLP
  | some dmax =>
    if dmax = 0 then tokFail ESZEROL
    else if delim = 0 then tokFail ESNULLP
    else match ptr with
      | none => tokFail ESNULLP
      | some pv =>
        let d := if dest = 0 then pv else dest
        if d = 0 then tokFail ESNULLP
        else
          match (if dest = 0 then none else destbos) with
          | none =>
            if dmax > RSIZE_MAX_STR then tokFail ESLEMAX
            else tokBody false delim d dmax
          | some bos =>
            if dmax > bos then tokFail EOVERFLOW
            else tokBody false delim d dmax

/-- `_wcstok_s_chk(dest, dmaxp, delim, ptr, destbos)`; `destbos` in bytes -/
def wcstok_s (dest : Nat) (dmaxp : Option Nat) (delim : Nat) (ptr : Option Nat) (destbos : Bos) :
    Prog TokOut :=
  match dmaxp with
  | none => tokFail ESNULLP
  | some dlen =>
    if dlen = 0 then tokFail ESZEROL
    else if dlen > RSIZE_MAX_WSTR then tokFail ESLEMAX
    else if delim = 0 then tokFail ESNULLP
    else match ptr with
      | none => tokFail ESNULLP
      | some pv =>
        let d := if dest = 0 then pv else dest
        if d = 0 then tokFail ESNULLP
        else
          match (if dest = 0 then none else destbos) with
          | none => tokBody true delim d dlen
          | some bos =>
            if dlen * SIZEOF_WCHAR_T > bos then tokFail EOVERFLOW
            else tokBody true delim d dlen

end SafeC

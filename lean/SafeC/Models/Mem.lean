import SafeC.Common
/-!
# F2: the memory family and the unguarded primitives it calls

`src/mem/mem_primitives_lib.c` (the `__WORDSIZE == 64` variants), `src/mem/mem{cpy,move,set}_s.c`,
`src/extmem/mem{cpy,move,set,zero}{,16,32}_s.c`, `src/extmem/memccpy_s.c`,
`src/wchar/wmem{cpy,move}_s.c`.

## Addressing

Model memory is addressed in CELLS of the entry point's element width `w` (1, 2 or 4 bytes); the
byte address of cell `a` is `a * w` (region bases are multiples of `w`, see `Driver.Region.base`),
so for the byte functions (`w = 1`) a cell address IS the machine address and the alignment tests
of the primitives (`& 7`) are evaluated on the very numbers the C code sees.  Sizes keep the unit
the C parameter has: `dmax` of `memcpy16_s`/`memset32_s`/… and every `destbos`/`srcbos` are BYTES,
`slen`/`n`/`len` of the 16/32-bit and `wmem*` functions are ELEMENTS.

* A 64-bit word copy `*(uint64_t *)dp = *(uint64_t *)sp` is the loads of its 8 cells (ascending)
  followed by the stores of those 8 cells (ascending).  Both pointers are 8-aligned whenever the C
  code gets there, so a word never straddles a page: it faults as a whole, at its first cell, as a
  read before it can fault as a write.
* A 64-bit word store of `mem_prim_set` is `8 / w` cell stores.
* A BYTE store into memory held in wider cells (only `mem_prim_set`/`memset` on the error paths
  of the 16/32-bit functions) is folded into one store of the whole cell, issued at the cell's first
  byte, when the ascending run it belongs to covers the cell to its end; the bytes of a final,
  partially covered cell (a byte count that is not a multiple of `w`) are read-modify-write.
  Folding is invisible: all bytes of the run carry the same value, the stores of one cell are
  consecutive, and a cell is mapped or unmapped as a whole.

Every primitive keeps the shape of the C: alignment prologue, 16-way unrolled body, tail are
separate functions, each by structural recursion on its own counter.  The
`while (n) switch (n) { default: 16×…; n -= 16; break; case 15: … case 1: …; n = 0; }` loops run the
`default:` arm `n / 16` times and then enter the fall-through chain at `case n % 16`; they are
written as exactly that (`…Blocks (n / 16)` then `… (n % 16)`).
-/
namespace SafeC
open Gen

namespace Mem

def U32 : Nat := 2 ^ 32
def U64 : Nat := 2 ^ 64

/-- `w` bytes, each equal to `v` (little endian cell value) -/
def spread : Nat → Nat → Nat
  | 0, _ => 0
  | w+1, v => v + 256 * spread w v

/-- cell `c` with byte `k` replaced by `v` -/
def setByte (c k v : Nat) : Nat :=
  c - ((c / 256 ^ k) % 256) * 256 ^ k + v * 256 ^ k

/-- C `int` value of an argument passed in a 64-bit register -/
def asInt (x : Nat) : Int :=
  let y := x % U32
  if y < 2 ^ 31 then (y : Int) else (y : Int) - (U32 : Int)

/-- number of passes of `do { … } while (--tsp);` entered with `tsp` (a `uint64_t`): entered with 0
it wraps around -/
def doWhileCount (tsp : Nat) : Nat := if tsp = 0 then U64 else tsp

/-! ## byte stores into `w`-byte cells -/

/-- `*dp = value` for ONE byte at byte address `a`, inside an ascending run of byte stores that
began on a cell boundary and still has `rem` bytes to go (this one included). -/
def storeByte (w v a rem : Nat) : Prog Unit :=
  if w ≤ 1 then store a v
  else
    let k := a % w
    if k + rem ≥ w then
      if k = 0 then store (a / w) (spread w v) else pure ()
    else do
      let c ← load (a / w)
      store (a / w) (setByte c k v)

/-- libc `memset(dest, v, n)` / `explicit_bzero` with `n` in BYTES on `w`-byte cells starting at
cell `dest`: ascending -/
def memsetBytes (w v dest n : Nat) : Prog Unit := do
  memsetP (spread w v) (n / w) dest
  if n % w = 0 then pure ()
  else do
    let cell := dest + n / w
    let c ← load cell
    store cell (c / 256 ^ (n % w) * 256 ^ (n % w) + spread (n % w) v)

/-- `handle_mem_error(dest, len, msg, code)`: `memset(dest, 0, len)` (bytes), then the mem handler.
Inside the library `_BOS_KNOWN(dest)` is false (dest is a parameter), so `len` is `dmax`. -/
def handleMemErrorB (w dest len code : Nat) : Prog Unit := do
  memsetBytes w 0 dest len
  handlerM code

/-! ## `mem_prim_set(dest, len, value)` — 64-bit variant; `dest` is a BYTE address -/

/-- `for (; count && ((uintptr_t)dp & 7); count--) *dp++ = value;` → (count, dp) -/
def setPrologue (w v : Nat) : Nat → Nat → Prog (Nat × Nat)
  | 0, dp => pure (0, dp)
  | count+1, dp =>
    if dp % 8 = 0 then pure (count+1, dp)
    else do
      storeByte w v dp (count+1)
      setPrologue w v count (dp+1)

/-- `k` times `*lp++ = value64;` → lp -/
def setWords (w v : Nat) : Nat → Nat → Prog Nat
  | 0, lp => pure lp
  | k+1, lp => do
    memsetP (spread w v) (8 / w) (lp / w)
    setWords w v k (lp + 8)

/-- `q` passes through the `default:` arm (16 qwords each) → lp -/
def setBlocks (w v : Nat) : Nat → Nat → Prog Nat
  | 0, lp => pure lp
  | q+1, lp => do
    let lp ← setWords w v 16 lp
    setBlocks w v q lp

/-- `for (; count; dp++, count--) *dp = value;` -/
def setTail (w v : Nat) : Nat → Nat → Prog Unit
  | 0, _ => pure ()
  | count+1, dp => do
    storeByte w v dp (count+1)
    setTail w v count (dp+1)

def mem_prim_set (w dest len value : Nat) : Prog Unit := do
  let count := len % U32            -- `uint32_t len`
  let value := value % 256          -- `uint8_t value`
  let (count, dp) ← setPrologue w value count dest
  let lcount := count / 8
  let lp ← setBlocks w value (lcount / 16) dp
  let lp ← setWords w value (lcount % 16) lp
  setTail w value (count % 8) lp

/-! ## `mem_prim_set16` / `mem_prim_set32` — `dest` is a CELL address, `len` in elements -/

/-- `k` times `*dp++ = value;` → dp -/
def setElems (v : Nat) : Nat → Nat → Prog Nat
  | 0, dp => pure dp
  | k+1, dp => do
    store dp v
    setElems v k (dp+1)

def setElemBlocks (v : Nat) : Nat → Nat → Prog Nat
  | 0, dp => pure dp
  | q+1, dp => do
    let dp ← setElems v 16 dp
    setElemBlocks v q dp

def primSetElems (dest len value : Nat) : Prog Unit := do
  let len := len % U32
  let dp ← setElemBlocks value (len / 16) dest
  let _ ← setElems value (len % 16) dp
  pure ()

def mem_prim_set16 (dest len value : Nat) : Prog Unit := primSetElems dest len (value % 2 ^ 16)
def mem_prim_set32 (dest len value : Nat) : Prog Unit := primSetElems dest len (value % 2 ^ 32)

/-! ## element copies shared by every move primitive -/

/-- `n` times `*dp++ = *sp++;` → (dp, sp) -/
def copyFwd : Nat → Nat → Nat → Prog (Nat × Nat)
  | 0, dp, sp => pure (dp, sp)
  | n+1, dp, sp => do
    let c ← load sp
    store dp c
    copyFwd n (dp+1) (sp+1)

/-- `n` times `*--dp = *--sp;` → (dp, sp) -/
def copyBwd : Nat → Nat → Nat → Prog (Nat × Nat)
  | 0, dp, sp => pure (dp, sp)
  | n+1, dp, sp => do
    let c ← load (sp-1)
    store (dp-1) c
    copyBwd n (dp-1) (sp-1)

def loadCells : Nat → Nat → Prog (List Nat)
  | 0, _ => pure []
  | n+1, a => do
    let c ← load a
    let cs ← loadCells n (a+1)
    pure (c :: cs)

def storeCells : List Nat → Nat → Prog Unit
  | [], _ => pure ()
  | c :: cs, a => do
    store a c
    storeCells cs (a+1)

/-- `*(uint64_t *)dp = *(uint64_t *)sp;` on byte cells -/
def copyWord (dp sp : Nat) : Prog Unit := do
  let cs ← loadCells 8 sp
  storeCells cs dp

/-- `do { *(uint64_t *)dp = *(uint64_t *)sp; sp += 8; dp += 8; } while (--tsp);` (entered only
with `tsp > 0`) → (dp, sp) -/
def wordsFwd : Nat → Nat → Nat → Prog (Nat × Nat)
  | 0, dp, sp => pure (dp, sp)
  | n+1, dp, sp => do
    copyWord dp sp
    wordsFwd n (dp+8) (sp+8)

/-- `do { sp -= 8; dp -= 8; *(uint64_t *)dp = *(uint64_t *)sp; } while (--tsp);` → (dp, sp) -/
def wordsBwd : Nat → Nat → Nat → Prog (Nat × Nat)
  | 0, dp, sp => pure (dp, sp)
  | n+1, dp, sp => do
    copyWord (dp-8) (sp-8)
    wordsBwd n (dp-8) (sp-8)

/-! ## `mem_prim_move(dest, src, len)` — 64-bit variant, byte cells only (`memcpy_s`, `memmove_s`) -/

/-- forward alignment prologue → (dp, sp, len) -/
def moveFwdAlign (dest src len : Nat) : Prog (Nat × Nat × Nat) :=
  if (src ||| dest) % 8 ≠ 0 then do
    let tsp := if (src ^^^ dest) % 8 ≠ 0 ∨ len < 8 then len else 8 - src % 8
    let (dp, sp) ← copyFwd (doWhileCount tsp) dest src
    pure (dp, sp, len - tsp)                 -- `len -= tsp;` (tsp ≤ len)
  else pure (dest, src, len)

/-- backward alignment prologue, `dp`/`sp` already moved to the end → (dp, sp, len) -/
def moveBwdAlign (dp sp len : Nat) : Prog (Nat × Nat × Nat) :=
  if (sp ||| dp) % 8 ≠ 0 then do
    let tsp := if (sp ^^^ dp) % 8 ≠ 0 ∨ len ≤ 8 then len else sp % 8
    let (dp', sp') ← copyBwd (doWhileCount tsp) dp sp
    pure (dp', sp', len - tsp)
  else pure (dp, sp, len)

def mem_prim_move (dest src len : Nat) : Prog Unit := do
  let len := len % U32               -- `uint32_t len`
  if dest < src then do
    let (dp, sp, len) ← moveFwdAlign dest src len
    let (dp, sp) ← wordsFwd (len / 8) dp sp          -- `if (tsp > 0) do … while (--tsp)`
    let _ ← copyFwd (len % 8) dp sp                  -- `if (tsp > 0) do … while (--tsp)`
    pure ()
  else do
    let (dp, sp, len) ← moveBwdAlign (dest + len) (src + len) len
    let (dp, sp) ← wordsBwd (len / 8) dp sp
    let _ ← copyBwd (len % 8) dp sp
    pure ()

/-! ## `mem_prim_move8/16/32(dest, src, len)` — CELL addresses, `len` in elements -/

def moveBlocksFwd : Nat → Nat → Nat → Prog (Nat × Nat)
  | 0, dp, sp => pure (dp, sp)
  | q+1, dp, sp => do
    let (dp, sp) ← copyFwd 16 dp sp
    moveBlocksFwd q dp sp

def moveBlocksBwd : Nat → Nat → Nat → Prog (Nat × Nat)
  | 0, dp, sp => pure (dp, sp)
  | q+1, dp, sp => do
    let (dp, sp) ← copyBwd 16 dp sp
    moveBlocksBwd q dp sp

def primMoveElems (dest src len : Nat) : Prog Unit := do
  let len := len % U32
  if dest < src then do
    let (dp, sp) ← moveBlocksFwd (len / 16) dest src
    let _ ← copyFwd (len % 16) dp sp
    pure ()
  else do
    let (dp, sp) ← moveBlocksBwd (len / 16) (dest + len) (src + len)
    let _ ← copyBwd (len % 16) dp sp
    pure ()

def mem_prim_move8 := primMoveElems
def mem_prim_move16 := primMoveElems
def mem_prim_move32 := primMoveElems

/-! ## shared macros -/

/-- `if (destbos == BOS_UNKNOWN) { CHK_DMAX_MEM_MAX(func, max) } else { CHK_DEST_MEM_OVR(func, destbos) }`
(`CHK_DEST_MEM_OVR` always compares with `RSIZE_MAX_MEM`).  `k` receives `destbos` when known:
the callers that do `dmax = destbos;` use it. -/
def chkDmaxMemB (dmax : Nat) (destbos : Bos) (max : Nat) (k : Option Nat → Prog Nat) : Prog Nat :=
  match destbos with
  | none => if dmax > max then failM ESLEMAX else k none
  | some bos =>
    if dmax > bos then
      if dmax > RSIZE_MAX_MEM then failM ESLEMAX else failM EOVERFLOW
    else k (some bos)

/-- `CHK_OVRLP_BUTSAME(dp, dlen, sp, slen)` on pointers to `w`-byte elements -/
def ovrlpButSame (w dp dlen sp slen : Nat) : Bool :=
  let d := dp * w
  let s := sp * w
  (decide (d > s) && decide (d < (s + slen * w) % U64)) ||
  (decide (d < s) && decide (s < (d + dlen * w) % U64))

/-- `CHK_OVRLP(dp, dlen, sp, slen)` -/
def ovrlp (w dp dlen sp slen : Nat) : Bool :=
  let d := dp * w
  let s := sp * w
  (decide (d ≥ s) && decide (d < (s + slen * w) % U64)) ||
  (decide (d < s) && decide (s < (d + dlen * w) % U64))

def exceeds (x : Nat) : Bos → Bool
  | none => false
  | some b => decide (x > b)

end Mem
open Mem

/-! ## `src/mem` -/

def memcpy_s (dest dmax src slen : Nat) (destbos srcbos : Bos) : Prog Nat :=
  if slen = 0 then pure EOK
  else if dest = 0 then failM ESNULLP
  else if dmax = 0 then failM ESZEROL
  else chkDmaxMemB dmax destbos RSIZE_MAX_MEM fun _ =>
    if src = 0 then do handleMemErrorB 1 dest dmax ESNULLP; pure ESNULLP
    else if slen > dmax then do
      let error := if slen > RSIZE_MAX_MEM then ESLEMAX else ESNOSPC
      handleMemErrorB 1 dest dmax error
      pure error
    else if exceeds slen srcbos then failM EOVERFLOW
    else if ovrlpButSame 1 dest dmax src slen then do
      mem_prim_set 1 dest dmax 0
      handlerM ESOVRLP
      pure ESOVRLP
    else do
      mem_prim_move dest src slen
      pure EOK

def memmove_s (dest dmax src slen : Nat) (destbos srcbos : Bos) : Prog Nat :=
  if slen = 0 then pure EOK
  else if dest = 0 then failM ESNULLP
  else if dmax = 0 then failM ESZEROL
  else chkDmaxMemB dmax destbos RSIZE_MAX_MEM fun _ =>
    if src = 0 then do handleMemErrorB 1 dest dmax ESNULLP; pure ESNULLP
    else if slen > dmax then do
      let error := if slen > RSIZE_MAX_MEM then ESLEMAX else ESNOSPC
      handleMemErrorB 1 dest dmax error
      pure error
    else if exceeds slen srcbos then failM EOVERFLOW
    else do
      mem_prim_move dest src slen
      pure EOK

/-- `value` is a C `int`: only `value > 255` is rejected, negative values pass and are truncated -/
def memset_s (dest dmax value n : Nat) (destbos : Bos) : Prog Nat :=
  if dest = 0 then failM ESNULLP
  else if n = 0 then pure EOK
  else chkDmaxMemB dmax destbos RSIZE_MAX_MEM fun b =>
    let dmax := b.getD dmax                    -- `dmax = destbos;`
    if asInt value > 255 then failM ESLEMAX
    else if n > dmax then do
      let err := if n > RSIZE_MAX_MEM then ESLEMAX else ESNOSPC
      handlerM err
      mem_prim_set 1 dest dmax value           -- `n = dmax;`
      pure err
    else do
      mem_prim_set 1 dest n value
      pure EOK

/-! ## `src/extmem` -/

/-- built with `HAVE_EXPLICIT_BZERO` (config.h): `explicit_bzero(dest, len)`, not `mem_prim_set` -/
def memzero_s (dest len : Nat) (destbos : Bos) : Prog Nat :=
  let dmax := len
  if dest = 0 then failM ESNULLP
  else if dmax = 0 then failM ESZEROL
  else chkDmaxMemB dmax destbos RSIZE_MAX_MEM fun _ => do
    memsetBytes 1 0 dest len
    pure EOK

def memzero16_s (dest len : Nat) (destbos : Bos) : Prog Nat :=
  let dmax := (len * 2) % U64
  if dest = 0 then failM ESNULLP
  else if dmax = 0 then failM ESZEROL
  else chkDmaxMemB dmax destbos RSIZE_MAX_MEM fun _ => do
    mem_prim_set16 dest len 0
    pure EOK

def memzero32_s (dest len : Nat) (destbos : Bos) : Prog Nat :=
  let dmax := (len * 4) % U64
  if dest = 0 then failM ESNULLP
  else if dmax = 0 then failM ESZEROL
  else chkDmaxMemB dmax destbos RSIZE_MAX_MEM fun _ => do
    mem_prim_set32 dest len 0
    pure EOK

/-- `dmax` in bytes, `n` in elements -/
def memset16_s (dest dmax value n : Nat) (destbos : Bos) : Prog Nat :=
  if dest = 0 then failM ESNULLP
  else if n = 0 then pure EOK
  else chkDmaxMemB dmax destbos RSIZE_MAX_MEM fun b =>
    let dmax := b.getD dmax                    -- `dmax = destbos;`
    if n > dmax / 2 then do
      let err := if n > RSIZE_MAX_MEM16 then ESLEMAX else ESNOSPC
      handlerM err
      mem_prim_set16 dest (dmax / 2) value
      pure err
    else do
      mem_prim_set16 dest n value
      pure EOK

def memset32_s (dest dmax value n : Nat) (destbos : Bos) : Prog Nat :=
  if dest = 0 then failM ESNULLP
  else if n = 0 then pure EOK
  else chkDmaxMemB dmax destbos RSIZE_MAX_MEM fun b =>
    let dmax := b.getD dmax                    -- `dmax = destbos;`
    if n > dmax / 4 then do
      let err := if n > RSIZE_MAX_MEM32 then ESLEMAX else ESNOSPC
      handlerM err
      mem_prim_set32 dest (dmax / 4) value
      pure err
    else do
      mem_prim_set32 dest n value
      pure EOK

/-- `dmax` in bytes, `slen` in elements; a known `destbos` REPLACES `dmax` -/
def memcpy16_s (dest dmax src slen : Nat) (destbos srcbos : Bos) : Prog Nat :=
  if slen = 0 then pure EOK
  else if dest = 0 then failM ESNULLP
  else if dmax = 0 then failM ESZEROL
  else
    let smax := (slen * 2) % U64
    chkDmaxMemB dmax destbos RSIZE_MAX_MEM fun b =>
      let dmax := b.getD dmax                  -- `dmax = destbos;`
      if src = 0 then do handleMemErrorB 2 dest dmax ESNULLP; pure ESNULLP
      else if smax > dmax then do
        let error := if smax > RSIZE_MAX_MEM then ESLEMAX else ESNOSPC
        handleMemErrorB 2 dest dmax error
        pure error
      else if exceeds smax srcbos then failM ESLEMAX
      else if ovrlpButSame 2 dest (dmax / 2) src slen then do
        mem_prim_set 2 (dest * 2) dmax 0
        handlerM ESOVRLP
        pure ESOVRLP
      else do
        mem_prim_move16 dest src slen
        pure EOK

def memcpy32_s (dest dmax src slen : Nat) (destbos srcbos : Bos) : Prog Nat :=
  if slen = 0 then pure EOK
  else if dest = 0 then failM ESNULLP
  else if dmax = 0 then failM ESZEROL
  else
    let smax := (slen * 4) % U64
    chkDmaxMemB dmax destbos RSIZE_MAX_MEM fun b =>
      let dmax := b.getD dmax                  -- `dmax = destbos;`
      if src = 0 then do handleMemErrorB 4 dest dmax ESNULLP; pure ESNULLP
      else if smax > dmax then do
        let error := if smax > RSIZE_MAX_MEM then ESLEMAX else ESNOSPC
        handleMemErrorB 4 dest dmax error
        pure error
      else if exceeds smax srcbos then failM ESLEMAX
      else if ovrlpButSame 4 dest (dmax / 4) src slen then do
        mem_prim_set 4 (dest * 4) dmax 0
        handlerM ESOVRLP
        pure ESOVRLP
      else do
        mem_prim_move32 dest src slen
        pure EOK

def memmove16_s (dest dmax src slen : Nat) (destbos srcbos : Bos) : Prog Nat :=
  if slen = 0 then pure EOK
  else if dest = 0 then failM ESNULLP
  else if dmax = 0 then failM ESZEROL
  else
    let smax := (slen * 2) % U64
    chkDmaxMemB dmax destbos RSIZE_MAX_MEM fun b =>
      let dmax := b.getD dmax                  -- `dmax = destbos;`
      if src = 0 then do handleMemErrorB 2 dest dmax ESNULLP; pure ESNULLP
      else if smax > dmax then do
        let error := if smax > RSIZE_MAX_MEM then ESLEMAX else ESNOSPC
        handleMemErrorB 2 dest dmax error
        pure error
      else if exceeds smax srcbos then failM EOVERFLOW
      else do
        mem_prim_move16 dest src slen
        pure EOK

def memmove32_s (dest dmax src slen : Nat) (destbos srcbos : Bos) : Prog Nat :=
  if slen = 0 then pure EOK
  else if dest = 0 then failM ESNULLP
  else if dmax = 0 then failM ESZEROL
  else
    let smax := (slen * 4) % U64
    chkDmaxMemB dmax destbos RSIZE_MAX_MEM fun b =>
      let dmax := b.getD dmax                  -- `dmax = destbos;`
      if src = 0 then do handleMemErrorB 4 dest dmax ESNULLP; pure ESNULLP
      else if smax > dmax then do
        let error := if smax > RSIZE_MAX_MEM then ESLEMAX else ESNOSPC
        handleMemErrorB 4 dest dmax error
        pure error
      else if exceeds smax srcbos then failM EOVERFLOW
      else do
        mem_prim_move32 dest src slen
        pure EOK

/-- `c` is a C `int` compared with the promoted `uint8_t` just stored; the not-enough-space exit goes
through `handle_error` of the STRING family (str handler, `memset`/`*dest = 0` by `cfg.slack`) -/
def memccpyLoop (cfg : Cfg) (c : Int) (origDest origDmax : Nat) : Nat → Nat → Nat → Nat → Prog Nat
  | 0, _, _, _ => do
    handleError cfg origDest origDmax ESNOSPC
    pure ESNOSPC
  | dmax+1, dp, sp, n =>
    if n = 0 then do
      store dp 0
      pure EOK
    else do
      let v ← load sp
      store dp v
      let v' ← load dp
      if (v' : Int) = c then do
        if cfg.slack then mem_prim_set 1 dp n 0 else pure ()
        pure EOK
      else memccpyLoop cfg c origDest origDmax dmax (dp+1) (sp+1) (n-1)

def memccpy_s (cfg : Cfg) (dest dmax src c n : Nat) (destbos _srcbos : Bos) : Prog Nat :=
  if dest = 0 then failM ESNULLP
  else if dmax = 0 then failM ESZEROL
  else chkDmaxMemB dmax destbos RSIZE_MAX_MEM fun _ =>
    if n = 0 then do
      store dest 0
      pure EOK
    else if src = 0 then do handleMemErrorB 1 dest dmax ESNULLP; pure ESNULLP
    else if n > dmax then do
      let error := if n > RSIZE_MAX_MEM then ESLEMAX else ESNOSPC
      handleMemErrorB 1 dest dmax error
      pure error
    else if ovrlp 1 dest dmax src n then do
      mem_prim_set 1 dest dmax 0
      handlerM ESOVRLP
      pure ESOVRLP
    else memccpyLoop cfg (asInt c) dest dmax dmax dest src n

/-! ## `src/wchar` (`wchar_t` is 4 bytes: `wmem_set = mem_prim_set32`, `wmem_move = mem_prim_move32`) -/

def wmemcpy_s (dest dlen src count : Nat) (destbos srcbos : Bos) : Prog Nat :=
  let dmax := (dlen * SIZEOF_WCHAR_T) % U64
  let smax := (count * SIZEOF_WCHAR_T) % U64
  if count = 0 then pure EOK
  else if dest = 0 then failM ESNULLP
  else if dmax = 0 then failM ESZEROL
  else chkDmaxMemB dmax destbos RSIZE_MAX_MEM fun _ =>
    if src = 0 then do handleMemErrorB SIZEOF_WCHAR_T dest dmax ESNULLP; pure ESNULLP
    else if smax > dmax then do
      let error := if smax > RSIZE_MAX_MEM then ESLEMAX else ESNOSPC
      handleMemErrorB SIZEOF_WCHAR_T dest dmax error
      pure error
    else if exceeds smax srcbos then do
      mem_prim_set32 dest dlen 0
      handlerM EOVERFLOW
      pure EOVERFLOW
    else if ovrlpButSame SIZEOF_WCHAR_T dest dlen src count then do
      mem_prim_set32 dest dlen 0
      handlerM ESOVRLP
      pure ESOVRLP
    else do
      mem_prim_move32 dest src count
      pure EOK

/-- `CHK_DMAX_MEM_MAX("wmemmove_s", RSIZE_MAX_WMEM)`: the BYTE size is compared with the ELEMENT limit -/
def wmemmove_s (dest dlen src count : Nat) (destbos srcbos : Bos) : Prog Nat :=
  let dmax := (dlen * SIZEOF_WCHAR_T) % U64
  let smax := (count * SIZEOF_WCHAR_T) % U64
  if count = 0 then pure EOK
  else if dest = 0 then failM ESNULLP
  else if dmax = 0 then failM ESZEROL
  else chkDmaxMemB dmax destbos RSIZE_MAX_WMEM fun _ =>
    if src = 0 then do handleMemErrorB SIZEOF_WCHAR_T dest dmax ESNULLP; pure ESNULLP
    else if smax > dmax then do
      let error := if smax > RSIZE_MAX_MEM then ESLEMAX else ESNOSPC
      handleMemErrorB SIZEOF_WCHAR_T dest dmax error
      pure error
    else if exceeds smax srcbos then do
      mem_prim_set32 dest dlen 0
      handlerM EOVERFLOW
      pure EOVERFLOW
    else do
      mem_prim_move32 dest src count
      pure EOK

end SafeC

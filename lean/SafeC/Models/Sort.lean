import SafeC.Gen.Consts
/-!
# Model of `src/misc/qsort_s.c` (musl smoothsort) and `src/misc/bsearch_s.c`

Element-index level: the array is an `Array α` of abstract elements (an element = `size` bytes of the C
array), "pointers" are element indices (`head - width - lp[k]` of the C is `head - 1 - lp[k]` here, with
`lp` the UNSCALED Leonardo numbers).  A pointer below `base` or an element index `≥ nmemb` is a `Fault`
(the harness puts the array between two `PROT_NONE` pages).  The fixed-size locals of the C are modelled
with their capacity: `lp[12*sizeof(size_t)]` = 96 entries, `ar[14*sizeof(size_t)+1]` = 113 entries; running
over them is a `Fault` too.  The two-word bit vector `p` is two `UInt64` with the x86 shift semantics
(count taken modulo 64), so the `p[1] << 64` the source comments on is executed as the hardware does.

The comparator is a parameter that may depend on the number of calls made so far and on the positions of
its arguments (so inconsistent / adversarial comparators are covered); every call is logged.

`cycle` is modelled twice: `cycle` (element rotation, used by the sort) and `cycleBytes` (the byte-level
program with the 256-byte `tmp` chunking); `Proofs/SortCycle.lean` proves the second equal to the first.

`Fixes` selects the code as it stood in the tree (`unrepaired`) or as repaired by `fixes/qsort_s-*.diff`
(one switch per diff); `current` is the ONE definition to flip when a fix is applied to /repo.
-/
namespace SafeC.Sort

structure Fixes where
  /-- `ntz` counts trailing zeros of the whole `size_t` word and is 0 for 0 (repaired);
      `false`: `__builtin_ctz` = the `int` builtin, i.e. the low 32 bits only (`tzcnt`: 32 for 0) -/
  ctz64 : Bool
  /-- known object size: `nmemb > basebos / size` (repaired); `false`: `nmemb * size` computed in `size_t` (wraps) -/
  ovf : Bool
  /-- `pntz` tests `p[1] != 0` itself before it answers `64 + ntz(p[1])` (repaired, `fixes/qsort_s-pntz-gap-64.diff`);
      `false`: it computes `r = 64 + ntz(p[1])` and takes `r == 64` for "no bit set in `p[1]`", which an odd `p[1]` gives too -/
  pntzGap : Bool
deriving DecidableEq, Repr

def unrepaired : Fixes := ⟨false, false, false⟩
/-- the first two repairs (whole-word `ntz`, unwrapped product) without the `pntz` one -/
def ntzOvfFixed : Fixes := ⟨true, true, false⟩
def allFixed : Fixes := ⟨true, true, true⟩
/-- the code of the tree the check runs against (`allFixed` once `fixes/qsort_s-pntz-gap-64.diff` is applied) -/
def current : Fixes := allFixed

inductive Fault
  | idx (i : Nat)     -- element index ≥ nmemb dereferenced
  | neg               -- pointer below `base`
  | lpIdx (i : Nat)   -- `lp[]` used outside the entries written / beyond its 96 entries
  | arIdx             -- `ar[]` (113 entries) overrun
  | wrap              -- scaled Leonardo number does not fit `size_t`
  | fuel              -- bsearch loop bound (never: see `bsearch_fuel`)
deriving DecidableEq, Repr

/-- one comparator call: positions of the first and second argument, context pointer -/
structure Ev where
  i : Nat
  j : Nat
  ctx : Nat
deriving DecidableEq, Repr

structure St (α : Type) where
  a : Array α
  log : List Ev      -- newest first
  ncmp : Nat

structure Env (α : Type) where
  /-- call number, position of 1st argument, position of 2nd argument, the two elements -/
  cmp : Nat → Nat → Nat → α → α → Int
  ctx : Nat
  lp : Array Nat
  fx : Fixes
  trace : Bool

abbrev M := Except Fault

def sub (x y : Nat) : M Nat := if y ≤ x then .ok (x - y) else .error .neg

def lpAt (lp : Array Nat) (i : Nat) : M Nat :=
  match lp[i]? with
  | some v => .ok v
  | none => .error (.lpIdx i)

/-- `(*cmp)(base + i*width, base + j*width, ctx)` -/
def cmpAt (e : Env α) (s : St α) (i j : Nat) : M (Int × St α) :=
  if hi : i < s.a.size then
    if hj : j < s.a.size then
      .ok (e.cmp s.ncmp i j s.a[i] s.a[j],
           { s with log := if e.trace then ⟨i, j, e.ctx⟩ :: s.log else s.log, ncmp := s.ncmp + 1 })
    else .error (.idx j)
  else .error (.idx i)

def getE (a : Array α) (i : Nat) : M α :=
  if h : i < a.size then .ok a[i] else .error (.idx i)

def setE (a : Array α) (i : Nat) (v : α) : M (Array α) :=
  if h : i < a.size then .ok (a.set i v) else .error (.idx i)

/-- the `for (i = 0; i < n; i++) memcpy(ar[i], ar[i+1], l)` of `cycle` on whole elements, `ar[n] = tmp` -/
def cycleGo (a : Array α) (tmp : α) : List Nat → M (Array α)
  | [] => .ok a
  | [x] => setE a x tmp
  | x :: y :: rest => do
    let v ← getE a y
    let a ← setE a x v
    cycleGo a tmp (y :: rest)

/-- `cycle(width, ar, n)`: rotate the elements at positions `ar[0..n)` one step towards `ar[0]` -/
def cycle (s : St α) (ar : List Nat) : M (St α) :=
  match ar with
  | [] => .ok s
  | [_] => .ok s
  | x :: _ :: _ =>
    if ar.length > 112 then .error .arIdx else do     -- ar[n] = tmp
      let tmp ← getE s.a x
      let a ← cycleGo s.a tmp ar
      pure { s with a := a }

/-! ## the bit vector `p[2]` -/

structure PV where
  lo : UInt64
  hi : UInt64
deriving DecidableEq, Repr

def PV.one : PV := ⟨1, 0⟩

/-- `shl(p, n)`; x86: shift counts are taken modulo 64 -/
def shl (p : PV) (n : Nat) : PV :=
  let p1 : PV := if n ≥ 64 then ⟨0, p.lo⟩ else p
  let n1 := if n ≥ 64 then n - 64 else n
  let hi := p1.hi <<< n1.toUInt64
  let hi := hi ||| (p1.lo >>> (64 - n1).toUInt64)
  ⟨p1.lo <<< n1.toUInt64, hi⟩

/-- `shr(p, n)` -/
def shr (p : PV) (n : Nat) : PV :=
  let p1 : PV := if n ≥ 64 then ⟨p.hi, 0⟩ else p
  let n1 := if n ≥ 64 then n - 64 else n
  let lo := p1.lo >>> n1.toUInt64
  let lo := lo ||| (p1.hi <<< (64 - n1).toUInt64)
  ⟨lo, p1.hi >>> n1.toUInt64⟩

/-- trailing zeros of a positive number (`fuel` = word width) -/
def ctzAux : Nat → Nat → Nat
  | 0, _ => 0
  | f + 1, x => if x % 2 = 1 then 0 else 1 + ctzAux f (x / 2)

/-- `__builtin_ctz((unsigned)x)` as gcc -O0 compiles it here (`tzcnt %eax,%eax`): low 32 bits, 32 for 0 -/
def ctz32 (x : UInt64) : Nat :=
  let y := x.toNat % 2 ^ 32
  if y = 0 then 32 else ctzAux 32 y

/-- repaired `ntz`: whole word, 0 for 0 -/
def ctz64 (x : UInt64) : Nat :=
  if x = 0 then 0 else ctzAux 64 x.toNat

def ntz (fx : Fixes) (x : UInt64) : Nat := if fx.ctz64 then ctz64 x else ctz32 x

/-- `pntz(p)` -/
def pntz (fx : Fixes) (p : PV) : Nat :=
  let r := ntz fx (p.lo - 1)
  if r ≠ 0 then r else
  if fx.pntzGap then
    (if p.hi ≠ 0 then 64 + ntz fx p.hi else 0)          -- `if (p[1] != 0) return 8 * sizeof(size_t) + ntz(p[1]); return 0;`
  else
    let r := 64 + ntz fx p.hi
    if r ≠ 64 then r else 0

/-! ## sift / trinkle -/

/-- the `while (pshift > 1)` loop of `sift`; `acc` = `ar[0..i)` newest first, `room` = free entries of `ar` -/
def siftLoop (e : Env α) : (room : Nat) → St α → (ar0 head pshift : Nat) → (acc : List Nat) → M (St α × List Nat)
  | room, s, ar0, head, pshift, acc =>
    if pshift ≤ 1 then .ok (s, acc) else do
      let rt ← sub head 1
      let l ← lpAt e.lp (pshift - 2)
      let lf ← sub rt l
      let (c1, s) ← cmpAt e s ar0 lf
      let (stop, s) ← (if c1 ≥ 0 then do
                          let (c2, s) ← cmpAt e s ar0 rt
                          pure (decide (c2 ≥ 0), s)
                        else pure (false, s) : M (Bool × St α))
      if stop then .ok (s, acc) else do
        let (c3, s) ← cmpAt e s lf rt
        match room with
        | 0 => .error .arIdx
        | room + 1 =>
          if c3 ≥ 0 then siftLoop e room s ar0 lf (pshift - 1) (lf :: acc)
          else siftLoop e room s ar0 rt (pshift - 2) (rt :: acc)

def sift (e : Env α) (s : St α) (head pshift : Nat) : M (St α) := do
  let (s, acc) ← siftLoop e 112 s head head pshift [head]
  cycle s acc.reverse

/-- one round of the `while (p[0] != 1 || p[1] != 0)` loop of `trinkle` up to the decision:
    `some stepson` = go on with the stepson, `none` = `break` -/
def trinkleIter (e : Env α) (s : St α) (ar0 head pshift : Nat) (trusty : Bool) : M (St α × Option Nat) := do
  let l ← lpAt e.lp pshift
  let stepson ← sub head l
  let (c, s) ← cmpAt e s stepson ar0
  if c ≤ 0 then .ok (s, none) else do
    let (brk, s) ← (if !trusty ∧ pshift > 1 then do
                       let rt ← sub head 1
                       let l2 ← lpAt e.lp (pshift - 2)
                       let lf ← sub rt l2
                       let (c1, s) ← cmpAt e s rt stepson
                       if c1 ≥ 0 then pure (true, s) else do
                         let (c2, s) ← cmpAt e s lf stepson
                         pure (decide (c2 ≥ 0), s)
                     else pure (false, s) : M (Bool × St α))
    if brk then .ok (s, none) else .ok (s, some stepson)

/-- the loop of `trinkle`; `room` = free entries of `ar`; returns state, head, pshift, trusty, `ar` (newest first) -/
def trinkleLoop (e : Env α) : (room : Nat) → St α → (ar0 head : Nat) → PV → (pshift : Nat) → (trusty : Bool) →
    (acc : List Nat) → M (St α × Nat × Nat × Bool × List Nat)
  | 0, s, ar0, head, p, pshift, trusty, acc =>
    if p = PV.one then .ok (s, head, pshift, trusty, acc) else do
      let (s, step) ← trinkleIter e s ar0 head pshift trusty
      match step with
      | none => .ok (s, head, pshift, trusty, acc)
      | some _ => .error .arIdx                              -- ar[i++] beyond the array
  | room + 1, s, ar0, head, p, pshift, trusty, acc =>
    if p = PV.one then .ok (s, head, pshift, trusty, acc) else do
      let (s, step) ← trinkleIter e s ar0 head pshift trusty
      match step with
      | none => .ok (s, head, pshift, trusty, acc)
      | some stepson =>
        trinkleLoop e room s ar0 stepson (shr p (pntz e.fx p)) (pshift + pntz e.fx p) false (stepson :: acc)

def trinkle (e : Env α) (s : St α) (head : Nat) (p : PV) (pshift : Nat) (trusty : Bool) : M (St α) := do
  let (s, head, pshift, trusty, acc) ← trinkleLoop e 112 s head head p pshift trusty [head]
  if !trusty then do
    let s ← cycle s acc.reverse
    sift e s head pshift
  else pure s

/-! ## qsort_musl -/

/-- `for (lp[0] = lp[1] = width, i = 2; (lp[i] = lp[i-2] + lp[i-1] + width) < size; i++);`
    `a b` = the unscaled `lp[i-2] lp[i-1]`, `room` = 96 - i -/
def genLp (width size : Nat) : (room : Nat) → (a b : Nat) → Array Nat → M (Array Nat)
  | 0, _, _, _ => .error (.lpIdx 96)
  | room + 1, a, b, acc =>
    let c := a + b + 1
    if c * width ≥ 2 ^ 64 then .error .wrap else
    if c * width < size then genLp width size room b c (acc.push c) else .ok (acc.push c)

def mkLp (width size : Nat) : M (Array Nat) := genLp width size 94 1 1 #[1, 1]

/-- one round of `while (head < high)`, `k + 1 = high - head` (in elements) -/
def mainStep (e : Env α) (k : Nat) (s : St α) (head : Nat) (p : PV) (pshift : Nat) : M (St α × PV × Nat) := do
  let (s, p, pshift) ← (if p.lo &&& 3 = 3 then do
        let s ← sift e s head pshift
        pure (s, shr p 2, pshift + 2)
      else do
        let i ← sub pshift 1 |>.mapError (fun _ => Fault.lpIdx 0)       -- lp[pshift - 1]
        let l ← lpAt e.lp i
        let s ← if l ≥ k + 1 then trinkle e s head p pshift false else sift e s head pshift
        if pshift = 1 then pure (s, shl p 1, 0) else pure (s, shl p (pshift - 1), 1) : M (St α × PV × Nat))
  pure (s, ⟨p.lo ||| 1, p.hi⟩, pshift)

def mainLoop (e : Env α) : (k : Nat) → St α → (head : Nat) → PV → (pshift : Nat) → M (St α × PV × Nat)
  | 0, s, _, p, pshift => .ok (s, p, pshift)
  | k + 1, s, head, p, pshift => do
    let (s, p, pshift) ← mainStep e k s head p pshift
    mainLoop e k s (head + 1) p pshift

/-- body of the final `while (pshift != 1 || p[0] != 1 || p[1] != 0)` without the `head -= width` -/
def dismantleStep (e : Env α) (s : St α) (head : Nat) (p : PV) (pshift : Nat) : M (St α × PV × Nat) :=
  if pshift ≤ 1 then
    let trail := pntz e.fx p
    .ok (s, shr p trail, pshift + trail)
  else do
    let p := shl p 2
    let pshift := pshift - 2
    let p : PV := ⟨p.lo ^^^ 7, p.hi⟩
    let p := shr p 1
    let l ← lpAt e.lp pshift
    let h1 ← sub head l
    let h1 ← sub h1 1
    let s ← trinkle e s h1 p (pshift + 1) true
    let p := shl p 1
    let p : PV := ⟨p.lo ||| 1, p.hi⟩
    let h2 ← sub head 1
    let s ← trinkle e s h2 p pshift true
    pure (s, p, pshift)

def dismantle (e : Env α) : (head : Nat) → St α → PV → (pshift : Nat) → M (St α)
  | head, s, p, pshift =>
    if pshift = 1 ∧ p = PV.one then .ok s else do
      let (s, p, pshift) ← dismantleStep e s head p pshift
      match head with
      | 0 => .error .neg                       -- head -= width below base
      | h + 1 => dismantle e h s p pshift

/-- smoothsort of the first `n` elements, `n ≥ 1`, table `e.lp` already built -/
def smooth (e : Env α) (s : St α) (n : Nat) : M (St α) := do
  let (s, p, pshift) ← mainLoop e (n - 1) s 0 PV.one 1
  let s ← trinkle e s (n - 1) p pshift false
  dismantle e (n - 1) s p pshift

/-- what the comparator is, before the table exists -/
structure Cmp (α : Type) where
  cmp : Nat → Nat → Nat → α → α → Int
  ctx : Nat
  trace : Bool

/-- `qsort_musl(base, nel, width, cmp, ctx)`; `nel`, `width` are `size_t` values -/
def qsortMusl (fx : Fixes) (c : Cmp α) (s : St α) (nel width : Nat) : M (St α) :=
  let size := (width * nel) % 2 ^ 64
  if size = 0 then .ok s else do
    -- `high = head + size - width; while (head < high) head += width`: ⌈size/width⌉ elements, at least one
    let n := (size + width - 1) / width
    let lp ← mkLp width size
    smooth ⟨c.cmp, c.ctx, lp, fx, c.trace⟩ s n

/-! ## entry points -/

inductive HK | str | mem
deriving DecidableEq, Repr

structure Args where
  baseNull : Bool
  cmpNull : Bool
  keyNull : Bool
  nmemb : Nat
  size : Nat
  bos : Option Nat       -- `none` = BOS_UNKNOWN

structure Out (α : Type) (ρ : Type) where
  ret : ρ
  errno : Option Nat     -- bsearch_s only
  events : List (HK × Nat)
  st : St α

open SafeC.Gen in
/-- `_qsort_s_chk` -/
def qsortChk (fx : Fixes) (c : Cmp α) (g : Args) (s : St α) : M (Out α Nat) :=
  let fail (code : Nat) : M (Out α Nat) := .ok ⟨code, none, [(.str, code)], s⟩
  if g.nmemb ≠ 0 ∧ (g.baseNull ∨ g.cmpNull) then fail ESNULLP else
  let run : M (Out α Nat) := do
    let s ← qsortMusl fx c s g.nmemb g.size
    pure ⟨EOK, none, [], s⟩
  match g.bos with
  | none => if g.nmemb > RSIZE_MAX_MEM ∨ g.size > RSIZE_MAX_MEM then fail ESLEMAX else run
  | some b =>
    if fx.ovf then (if g.size ≠ 0 ∧ g.nmemb > b / g.size then fail ESNOSPC else run)
    else (if (g.nmemb * g.size) % 2 ^ 64 > b then fail ESNOSPC else run)

structure BCmp (α : Type) where
  /-- call number, position of the probed element, the element -/
  cmp : Nat → Nat → α → Int
  ctx : Nat
  trace : Bool

/-- `compar(key, base + i*size, context)`; logged with `i` in both position fields -/
def probe (c : BCmp α) (s : St α) (i : Nat) : M (Int × St α) :=
  if h : i < s.a.size then
    .ok (c.cmp s.ncmp i s.a[i],
         { s with log := if c.trace then ⟨i, i, c.ctx⟩ :: s.log else s.log, ncmp := s.ncmp + 1 })
  else .error (.idx i)

/-- the `while (nmemb > 0)` loop of `bsearch_s` -/
def bsearchLoop (c : BCmp α) : (fuel : Nat) → St α → (base nmemb : Nat) → M (Option Nat × St α)
  | 0, s, _, nmemb => if nmemb = 0 then .ok (none, s) else .error .fuel
  | f + 1, s, base, nmemb =>
    if nmemb = 0 then .ok (none, s) else do
      let i := base + nmemb / 2
      let (sign, s) ← probe c s i
      if sign = 0 then .ok (some i, s)
      else if nmemb = 1 then .ok (none, s)
      else if sign < 0 then bsearchLoop c f s base (nmemb / 2)
      else bsearchLoop c f s i (nmemb - nmemb / 2)

open SafeC.Gen in
/-- `_bsearch_s_chk`; result = position of the element returned -/
def bsearchChk (fx : Fixes) (c : BCmp α) (g : Args) (s : St α) : M (Out α (Option Nat)) :=
  let fail (code : Nat) : M (Out α (Option Nat)) := .ok ⟨none, some code, [(.mem, code)], s⟩
  if g.nmemb ≠ 0 ∧ (g.keyNull ∨ g.baseNull ∨ g.cmpNull) then fail ESNULLP else
  let run : M (Out α (Option Nat)) := do
    let (r, s) ← bsearchLoop c g.nmemb s 0 g.nmemb
    pure ⟨r, some 0, [], s⟩
  match g.bos with
  | none => if g.nmemb > RSIZE_MAX_MEM ∨ g.size > RSIZE_MAX_MEM then fail ESLEMAX else run
  | some b =>
    if fx.ovf then (if g.size ≠ 0 ∧ g.nmemb > b / g.size then fail ESNOSPC else run)
    else (if (g.nmemb * g.size) % 2 ^ 64 > b then fail ESNOSPC else run)

/-! ## byte-level `cycle` -/

/-- memory = the array bytes; `tmp` = the 256-byte scratch.  `cycleChunk`: one round of the `while (width)`
loop: `memcpy(tmp, ar[0], l); for i: memcpy(ar[i], ar[i+1], l)` at byte offset `off` inside each element. -/
def copyBytes (mem : Array UInt8) (dst src l : Nat) : M (Array UInt8) :=
  match l with
  | 0 => .ok mem
  | l + 1 => do
    let mem ← copyBytes mem dst src l
    let v ← getE mem (src + l)
    setE mem (dst + l) v

/-- load `l` bytes at `src` into `tmp[0..l)` (`l ≤ 256` checked) -/
def loadTmp (mem : Array UInt8) (src l : Nat) : M (List UInt8) :=
  if l > 256 then .error (.idx 256) else
    (List.range l).mapM fun k => getE mem (src + k)

def storeTmp (mem : Array UInt8) (dst : Nat) : List UInt8 → M (Array UInt8)
  | [] => .ok mem
  | b :: bs => do
    let mem ← setE mem dst b
    storeTmp mem (dst + 1) bs

/-- the inner `for` of `cycle` for one chunk; `ptrs` = current `ar[0..n)` as byte addresses -/
def chunkGo (mem : Array UInt8) (tmp : List UInt8) (l : Nat) : List Nat → M (Array UInt8)
  | [] => .ok mem
  | [x] => storeTmp mem x tmp
  | x :: y :: rest => do
    let mem ← copyBytes mem x y l
    chunkGo mem tmp l (y :: rest)

/-- `cycle(width, ar, n)` on bytes; `fuel` ≥ number of chunks -/
def cycleBytes : (fuel : Nat) → Array UInt8 → (width : Nat) → (ptrs : List Nat) → M (Array UInt8)
  | 0, mem, width, _ => if width = 0 then .ok mem else .error .fuel
  | f + 1, mem, width, ptrs =>
    if ptrs.length < 2 then .ok mem else
    if width = 0 then .ok mem else do
      let l := if 256 < width then 256 else width
      let tmp ← loadTmp mem ptrs.head! l
      let mem ← chunkGo mem tmp l ptrs
      cycleBytes f mem (width - l) (ptrs.map (· + l))

end SafeC.Sort

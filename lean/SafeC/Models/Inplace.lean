import SafeC.Common
/-!
# F4: functions that transform dest in place

`strset_s strnset_s strzero_s strtolowercase_s strtouppercase_s strljustify_s strremovews_s
strnterminate_s` (`src/extstr`) and `wcsset_s wcsnset_s` (`src/extwchar`).

Each model follows its C function statement by statement: same entry checks in the same order,
same loop with the same operand order in its test (`while (dmax && *dest)` tests the counter
first, `while (*dest && dmax)` reads the cell first), same number of reads per cell, including
the reads and writes that leave the `dmax` cells of dest:

* `if (!*dest) memset(...)` of the set/zero functions reads `dest[dmax]` after a full loop;
* `while (*dest && dmax)` of the case functions reads `dest[dmax]`;
* the termination scan of `strljustify_s` / `strremovews_s` reads `dest[dmax]` before it looks at
  its counter (and accepts a terminator found there);
* the trailing-whitespace strip of `strremovews_s` walks downwards with no lower bound.

A cell is a `char` (narrow) or a `wchar_t` (wide); `int`/`wchar_t` arguments arrive as the
64-bit register value and are truncated the way the C parameter type does.
-/
namespace SafeC
open Gen

/-- an `int` / `wchar_t` parameter: the low 32 bits of the register -/
def arg32 (v : Nat) : Nat := v % 2^32

/-- `while (k && *dest) { *dest = v; k--; dest++; }` — returns the final `(dest, k)` -/
def setLoop (v : Nat) : Nat → Nat → Prog (Nat × Nat)
  | 0, dest => pure (dest, 0)
  | k+1, dest => do
    let c ← load dest
    if c = 0 then pure (dest, k+1)
    else do
      store dest v
      setLoop v k (dest+1)

/-- `#ifdef SAFECLIB_STR_NULL_SLACK  if (!*dest) memset(dest, 0, n);  #endif` -/
def slackTail (cfg : Cfg) (dest n : Nat) : Prog Unit :=
  if cfg.slack then do
    let c ← load dest
    if c = 0 then memsetP 0 n dest else pure ()
  else pure ()

/-- `_strset_s_chk(dest, dmax, value, destbos)` -/
def strset_s (cfg : Cfg) (dest dmax value : Nat) (destbos : Bos) : Prog Nat :=
  if dest = 0 then failS ESNULLP
  else if dmax = 0 then failS ESZEROL
  else chkDmax dmax destbos RSIZE_MAX_STR <|
    if arg32 value > 255 then failS ESLEMAX     -- (unsigned)value > 255
    else do
      let (d, m) ← setLoop (arg32 value) dmax dest
      slackTail cfg d m
      pure EOK

/-- `_strnset_s_chk(dest, dmax, value, n, destbos)` -/
def strnset_s (cfg : Cfg) (dest dmax value n : Nat) (destbos : Bos) : Prog Nat :=
  if dest = 0 then failS ESNULLP
  else if dmax = 0 then failS ESZEROL
  else chkDmax dmax destbos RSIZE_MAX_STR <|
    if arg32 value > 255 then failS ESLEMAX
    else if n > dmax then failS ESNOSPC
    else do
      let (d, _) ← setLoop (arg32 value) n dest
      slackTail cfg d (dmax - (d - dest))
      pure EOK

/-- `_strzero_s_chk(dest, dmax, destbos)` -/
def strzero_s (cfg : Cfg) (dest dmax : Nat) (destbos : Bos) : Prog Nat :=
  if dest = 0 then failS ESNULLP
  else if dmax = 0 then failS ESZEROL
  else chkDmax dmax destbos RSIZE_MAX_STR <| do
    let (d, m) ← setLoop 0 dmax dest
    slackTail cfg d m
    pure EOK

/-- the loop of `strtolowercase_s` / `strtouppercase_s`:
`while (*dest && dmax) { if ((*dest >= lo) && (*dest <= hi)) *dest = (char)(*dest ± 32); dest++; dmax--; }`
The cell is a plain (signed) `char`: a byte ≥ 0x80 is negative and below `lo`.  `*dest` is read
afresh by every sub-expression. -/
def caseLoop (lo hi : Nat) (f : Nat → Nat) : Nat → Nat → Prog Unit
  | 0, _ => pure ()              -- `while (dmax && *dest)` (after the fix: commit): counter first
  | dmax+1, dest => do
    let c ← load dest
    if c = 0 then pure ()
    else do
      let c1 ← load dest
      if schar c1 ≥ (lo : Int) then do
        let c2 ← load dest
        if schar c2 ≤ (hi : Int) then do
          let c3 ← load dest
          store dest (f c3 % 256)
        else pure ()
      else pure ()
      caseLoop lo hi f dmax (dest+1)

/-- `_strtolowercase_s_chk(dest, dmax, destbos)` -/
def strtolowercase_s (_cfg : Cfg) (dest dmax : Nat) (destbos : Bos) : Prog Nat :=
  if dest = 0 then failS ESNULLP
  else if dmax = 0 then failS ESZEROL
  else chkDmax dmax destbos RSIZE_MAX_STR <| do
    caseLoop 65 90 (fun c => c + 32) dmax dest
    pure EOK

/-- `_strtouppercase_s_chk(dest, dmax, destbos)` -/
def strtouppercase_s (_cfg : Cfg) (dest dmax : Nat) (destbos : Bos) : Prog Nat :=
  if dest = 0 then failS ESNULLP
  else if dmax = 0 then failS ESZEROL
  else chkDmax dmax destbos RSIZE_MAX_STR <| do
    caseLoop 97 122 (fun c => c - 32) dmax dest
    pure EOK

/-- `while (dmax > 1) { if (*dest) { count++; dmax--; dest++; } else break; }`; the fuel is `dmax - 1` -/
def ntermLoop : Nat → Nat → Nat → Prog (Nat × Nat)
  | 0, dest, count => pure (dest, count)
  | k+1, dest, count => do
    let c ← load dest
    if c ≠ 0 then ntermLoop k (dest+1) (count+1) else pure (dest, count)

/-- `_strnterminate_s_chk(dest, dmax, destbos)`: returns the count; 0 after a handler call -/
def strnterminate_s (_cfg : Cfg) (dest dmax : Nat) (destbos : Bos) : Prog Nat :=
  if dest = 0 then do handlerS ESNULLP; pure 0
  else if dmax = 0 then do handlerS ESZEROL; pure 0
  else
    let body : Prog Nat := do
      let (d, count) ← ntermLoop (dmax - 1) dest 0
      store d 0
      pure count
    match destbos with
    | none => if dmax > RSIZE_MAX_STR then do handlerS ESLEMAX; pure 0 else body
    | some bos => if dmax > bos then do handlerS EOVERFLOW; pure 0 else body

/-- the "is it terminated" scan shared by `strljustify_s` and `strremovews_s`:
```
while (*dest) {
    if (unlikely(dmax == 0)) { while (orig_dmax) { *orig_dest++ = '\0'; orig_dmax--; }  handler(ESUNTERM); return ESUNTERM; }
    dmax--; dest++;
}
```
`*dest` is read before `dmax` is looked at, so cell `dest[dmax]` is read, and a NUL found there
ends the loop normally.  `some p` = the loop ended at the NUL at `p`; `none` = the ESUNTERM exit. -/
def termScan (origDest origDmax : Nat) : Nat → Nat → Prog (Option Nat)
  | 0, dest => do
    let c ← load dest
    if c = 0 then pure (some dest)
    else do
      zeroLoop origDmax origDest
      handlerS ESUNTERM
      pure none
  | dmax+1, dest => do
    let c ← load dest
    if c = 0 then pure (some dest) else termScan origDest origDmax dmax (dest+1)

/-- `while ((*dest == ' ') || (*dest == '\t')) dest++;` — no counter in the C; the fuel only makes
the recursion structural (the caller passes the distance to the NUL the scan found, +1). -/
def skipWs : Nat → Nat → Prog Nat
  | 0, dest => pure dest
  | fuel+1, dest => do
    let c ← load dest
    if c = 0x20 then skipWs fuel (dest+1)
    else do
      let c' ← load dest
      if c' = 0x09 then skipWs fuel (dest+1) else pure dest

/-- `while (*dest) { *orig_dest++ = *dest; *dest++ = ' '; }` — returns the final `(orig_dest, dest)` -/
def shiftLoop : Nat → Nat → Nat → Prog (Nat × Nat)
  | 0, od, dest => pure (od, dest)
  | fuel+1, od, dest => do
    let c ← load dest
    if c = 0 then pure (od, dest)
    else do
      let c' ← load dest
      store od c'
      store dest 0x20
      shiftLoop fuel (od+1) (dest+1)

/-- `_strljustify_s_chk(dest, dmax, destbos)` -/
def strljustify_s (_cfg : Cfg) (dest dmax : Nat) (destbos : Bos) : Prog Nat :=
  if dest = 0 then failS ESNULLP
  else if dmax = 0 then failS ESZEROL
  else chkDmax dmax destbos RSIZE_MAX_STR <|
    if dmax ≤ 1 then do store dest 0; pure EOK        -- dmax <= RSIZE_MIN_STR
    else do
      let c ← load dest
      if c = 0 then pure EOK
      else do
        match ← termScan dest dmax dmax dest with
        | none => pure ESUNTERM
        | some e => do
          let d ← skipWs (e - dest + 1) dest
          if dest ≠ d then do
            let (od, _) ← shiftLoop (e - d + 1) dest d
            store od 0
            pure EOK
          else pure EOK

/-- `dest = orig_end; while ((*dest == ' ') || (*dest == '\t')) { *dest = '\0'; dest--; }` — walks
downwards with no lower bound; the fuel is the address itself. -/
def stripTrailing : Nat → Nat → Prog Unit
  | 0, _ => pure ()
  | fuel+1, dest => do
    let c ← load dest
    if c = 0x20 then do store dest 0; stripTrailing fuel (dest-1)
    else do
      let c' ← load dest
      if c' = 0x09 then do store dest 0; stripTrailing fuel (dest-1) else pure ()

/-- `_strremovews_s_chk(dest, dmax, destbos)` -/
def strremovews_s (_cfg : Cfg) (dest dmax : Nat) (destbos : Bos) : Prog Nat :=
  if dest = 0 then failS ESNULLP
  else if dmax = 0 then failS ESZEROL
  else chkDmax dmax destbos RSIZE_MAX_STR <| do
    let c ← load dest                                  -- `*dest == '\0' || dmax <= RSIZE_MIN_STR`
    if c = 0 ∨ dmax ≤ 1 then do store dest 0; pure EOK
    else do
      match ← termScan dest dmax dmax dest with
      | none => pure ESUNTERM
      | some e => do
        let origEnd := e - 1
        let d ← skipWs (e - dest + 1) dest
        let c0 ← load d                                -- `if (*dest == '\0')`: only whitespace (fix: commit)
        if c0 = 0 then do store dest 0; pure EOK
        else do
          if dest ≠ d then do
            let c ← load d                             -- `orig_dest != dest && *dest`
            if c ≠ 0 then do
              let (_, d') ← shiftLoop (e - d + 1) dest d
              store d' 0
            else pure ()
          else pure ()
          stripTrailing (origEnd + 1) origEnd
          pure EOK

/-! ## wide: `wchar_t` is a signed 32-bit `int` here, `value > _UNICODE_MAX` is a signed compare -/

def wvalueTooBig (value : Nat) : Bool :=
  let v := arg32 value
  decide (v < 2^31 ∧ v > 0x10ffff)

/-- `_wcsset_s_chk(dest, dmax, value, destbos)` (destbos in bytes) -/
def wcsset_s (cfg : Cfg) (dest dmax value : Nat) (destbos : Bos) : Prog Nat :=
  if dest = 0 then failS ESNULLP
  else if dmax = 0 then failS ESZEROL
  else if wvalueTooBig value then failS ESLEMAX
  else chkDmaxClearW cfg dest dmax destbos <| do
    let (d, m) ← setLoop (arg32 value) dmax dest
    slackTail cfg d m
    pure EOK

/-- `_wcsnset_s_chk(dest, dmax, value, n, destbos)` (destbos in bytes) -/
def wcsnset_s (cfg : Cfg) (dest dmax value n : Nat) (destbos : Bos) : Prog Nat :=
  if dest = 0 then failS ESNULLP
  else if dmax = 0 then failS ESZEROL
  else if wvalueTooBig value then failS ESLEMAX
  else chkDmaxClearW cfg dest dmax destbos <|
    if n > dmax then do
      handleError cfg dest dmax ESNOSPC               -- handle_werror
      pure ESNOSPC
    else do
      let (d, _) ← setLoop (arg32 value) n dest
      slackTail cfg d (dmax - (d - dest))
      pure EOK

end SafeC

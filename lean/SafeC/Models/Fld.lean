import SafeC.Common
/-!
# F1b: the field copies `strcpyfld_s`, `strcpyfldin_s`, `strcpyfldout_s` (`src/extstr`)

Same bumper idea as the copy family, three different loop conditions:
* `strcpyfld_s`    `while (slen > 0)`          copies exactly slen cells, NULs included, then nulls the rest of the field
* `strcpyfldin_s`  `while (dmax > 0 && slen > 0 && *src)`  copies at most slen cells of the string, then nulls the rest
* `strcpyfldout_s` `while (dmax > 1 && slen)`  copies at most dmax-1 cells of the field, then nulls the rest
The trailing fill is the `dmax > 0x20 ? memset : byte loop` pair whatever the build configuration.
-/
namespace SafeC
open Gen

/-- `CHK_SLEN_MAX_NOSPC_CLEAR(func, slen, max)`: `slen > dmax` → ESLEMAX above the limit else ESNOSPC, after clearing
`strnlen_s(dest, dmax)` cells (inside the library dest's object size is unknown) -/
def chkSlenNospcClear (cfg : Cfg) (dest dmax slen max : Nat) (k : Prog Nat) : Prog Nat :=
  if slen > dmax then do
    let error := if slen > max then ESLEMAX else ESNOSPC
    let len ← strnlen_s dest dmax none
    handleError cfg dest len error
    pure error
  else k

inductive FldKind where
  | fld | fldin | fldout
  deriving Repr, DecidableEq, Inhabited

/-- one of the two twin loops; returns `inl code` on the overlap exit, `inr (dest, dmax)` when the loop is left.
`fuel` only makes the recursion structural: each iteration consumes one of `slen` (fld) or `dmax` (fldin, fldout). -/
def fldLoop (cfg : Cfg) (kind : FldKind) (onDest : Bool) (bumper origDest origDmax : Nat) :
    Nat → Nat → Nat → Nat → Nat → Prog (Nat ⊕ (Nat × Nat))
  | 0, dest, _, dmax, _ => pure (.inr (dest, dmax))
  | fuel+1, dest, src, dmax, slen =>
    let stopBefore : Prog Bool := match kind with
      | .fld => pure (decide (slen = 0))
      -- `while (dmax > 0 && slen > 0 && *src)` (fix: commit — before it slen was not looked at)
      | .fldin => if dmax = 0 ∨ slen = 0 then pure true else do let c ← load src; pure (decide (c = 0))
      | .fldout => pure (decide (¬ (dmax > 1 ∧ slen ≠ 0)))
    do
      if ← stopBefore then pure (.inr (dest, dmax))
      else if (if onDest then dest else src) = bumper then do
        handleError cfg origDest origDmax ESOVRLP
        pure (.inl ESOVRLP)
      else do
        let c ← load src
        store dest c
        -- `dmax--; slen--` in all three (dmax is a size_t: it would wrap below 0, which `slen <= dmax` excludes)
        let slen' := slen - 1
        fldLoop cfg kind onDest bumper origDest origDmax fuel (dest+1) (src+1) (dmax - 1) slen'

def fldG (kind : FldKind) (cfg : Cfg) (dest dmax src slen : Nat) (destbos : Bos) : Prog Nat :=
  if slen = 0 then pure EOK
  else if dest = 0 then failS ESNULLP
  else if dmax = 0 then failS ESZEROL
  else
    let body : Prog Nat :=
      if src = 0 then do handleError cfg dest dmax ESNULLP; pure ESNULLP
      else chkSlenNospcClear cfg dest dmax slen RSIZE_MAX_STR <| do
        -- fuel: each iteration consumes one of dmax (fldin, fldout) or slen (fld) — both ≤ the bound below here
        let fuel := (match kind with | .fld => slen | _ => dmax)
        let r ← (if dest < src then fldLoop cfg kind true src dest dmax fuel dest src dmax slen
                 else fldLoop cfg kind false dest dest dmax fuel dest src dmax slen)
        match r with
        | .inl code => pure code
        | .inr (d, m) => do
          nullSlack d m
          pure EOK
    match kind with
    | .fld => chkDmaxClear cfg dest dmax destbos RSIZE_MAX_STR body      -- CHK_DEST_OVR_CLEAR
    | _ => chkDmax dmax destbos RSIZE_MAX_STR body                       -- CHK_DEST_OVR

def strcpyfld_s := fldG .fld
def strcpyfldin_s := fldG .fldin
def strcpyfldout_s := fldG .fldout

end SafeC

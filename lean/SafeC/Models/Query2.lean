import SafeC.Common
/-!
# query2: read-only queries of `src/extstr`, `src/wchar`, `src/extwchar`

`strfirstchar_s strlastchar_s strfirstdiff_s strfirstsame_s strlastdiff_s strlastsame_s`,
the classification predicates `stris*_s`, and the wide queries
`wcsnlen_s wcscmp_s wcsncmp_s wcsstr_s wmemcmp_s`.

Every model follows its C function statement by statement: same order of the entry checks, same
order of the operands of every loop test (a loop written `while (*dest && dmax)` loads `*dest`
BEFORE it looks at `dmax`, and is modelled as doing exactly that), same re-reads after the loop.

The out-parameters (`firstp`, `resultp`, `diff`, `substringp`) live in the caller's frame, not in
modelled memory; the harness always passes a valid slot, so the `CHK_SRC_NULL(resultp)` exits are
not reachable here.  A model returns `(code, value of the out slot)`.
-/
namespace SafeC
open Gen

/-- handler, then return `(code, out)` -/
def failS2 (code out : Nat) : Prog (Nat × Nat) := do handlerS code; pure (code, out)

/-- `if (destbos == BOS_UNKNOWN) { CHK_DMAX_MAX(max) } else { CHK_DEST_OVR(destbos) }` for a
function whose failure value is `mk code` (`CHK_DEST_OVR` tests `RSIZE_MAX_STR`, whatever `max`) -/
def chkDmaxQ (mk : Nat → α) (dmax : Nat) (destbos : Bos) (max : Nat) (k : Prog α) : Prog α :=
  match destbos with
  | none => if dmax > max then do handlerS ESLEMAX; pure (mk ESLEMAX) else k
  | some bos =>
    if dmax > bos then
      if dmax > RSIZE_MAX_STR then do handlerS ESLEMAX; pure (mk ESLEMAX)
      else do handlerS EOVERFLOW; pure (mk EOVERFLOW)
    else k

/-! ## strfirstchar_s / strlastchar_s -/

/-- `while (*dest && dmax) { if (*dest == c) { *firstp = dest; return EOK; } dest++; dmax--; }` -/
def firstcharLoop (c : Nat) : Nat → Nat → Prog (Nat × Nat)
  | 0, dest => do
    let _ ← load dest          -- `*dest` is evaluated before `dmax`
    pure (ESNOTFND, 0)
  | dmax+1, dest => do
    let ch ← load dest
    if ch = 0 then pure (ESNOTFND, 0)
    else if ch = c then pure (EOK, dest)
    else firstcharLoop c dmax (dest+1)

/-- `_strfirstchar_s_chk(dest, dmax, c, firstp, destbos)`; `c` is a `char`: the low byte -/
def strfirstchar_s (dest dmax c : Nat) (destbos : Bos) : Prog (Nat × Nat) :=
  -- CHK_SRC_NULL(firstp); *firstp = NULL;
  if dest = 0 then failS2 ESNULLP 0
  else if dmax = 0 then failS2 ESZEROL 0
  else chkDmaxQ (fun e => (e, 0)) dmax destbos RSIZE_MAX_STR <|
    firstcharLoop (c % 256) dmax dest

/-- `while (*dest && dmax) { if (*dest == c) *lastp = dest; dest++; dmax--; }` -/
def lastcharLoop (c : Nat) : Nat → Nat → Nat → Prog Nat
  | 0, dest, last => do
    let _ ← load dest
    pure last
  | dmax+1, dest, last => do
    let ch ← load dest
    if ch = 0 then pure last
    else lastcharLoop c dmax (dest+1) (if ch = c then dest else last)

def strlastchar_s (dest dmax c : Nat) (destbos : Bos) : Prog (Nat × Nat) :=
  if dest = 0 then failS2 ESNULLP 0
  else if dmax = 0 then failS2 ESZEROL 0
  else chkDmaxQ (fun e => (e, 0)) dmax destbos RSIZE_MAX_STR <| do
    let last ← lastcharLoop (c % 256) dmax dest 0
    if last = 0 then pure (ESNOTFND, 0) else pure (EOK, last)

/-! ## strfirstdiff_s / strfirstsame_s / strlastdiff_s / strlastsame_s

One loop shape: `while (*dest && *src && dmax) { if (hit) {…} dest++; src++; dmax--; }` with
`hit` = `*dest == *src` (`same`) or `*dest != *src`; the `first` variants return at the first hit,
the `last` variants remember the index and go on. -/

def pairLoop (same first : Bool) (rp : Nat) : Nat → Nat → Nat → Option Nat → Prog (Option Nat)
  | 0, dest, src, last => do
    let d ← load dest
    if d = 0 then pure last
    else do
      let _ ← load src         -- `*src` is evaluated before `dmax` too
      pure last
  | dmax+1, dest, src, last => do
    let d ← load dest
    if d = 0 then pure last
    else do
      let s ← load src
      if s = 0 then pure last
      else
        let hit : Bool := if same then d == s else d != s
        if hit then
          if first then pure (some (dest - rp))
          else pairLoop same first rp dmax (dest+1) (src+1) (some (dest - rp))
        else pairLoop same first rp dmax (dest+1) (src+1) last

/-- the four entry points share the prologue: `CHK_SRC_NULL(resultp); *resultp = 0;
CHK_DEST_NULL; CHK_SRC_NULL(src); CHK_DMAX_ZERO; CHK_DMAX_MAX / CHK_DEST_OVR` -/
def pairFn (same first : Bool) (nohit : Nat) (dest dmax src : Nat) (destbos : Bos) : Prog (Nat × Nat) :=
  if dest = 0 then failS2 ESNULLP 0
  else if src = 0 then failS2 ESNULLP 0
  else if dmax = 0 then failS2 ESZEROL 0
  else chkDmaxQ (fun e => (e, 0)) dmax destbos RSIZE_MAX_STR <| do
    match ← pairLoop same first dest dmax dest src none with
    | some i => pure (EOK, i)
    | none => pure (nohit, 0)

def strfirstdiff_s := pairFn false true ESNODIFF
def strfirstsame_s := pairFn true true ESNOTFND
def strlastdiff_s := pairFn false false ESNODIFF
def strlastsame_s := pairFn true false ESNOTFND

/-! ## the `bool` predicates -/

/-- `CHK_DEST_DMAX_BOOL(func, max)`; `CHK_DEST_OVR_BOOL` tests `RSIZE_MAX_STR`, not `max` -/
def chkDestDmaxBool (dest dmax : Nat) (destbos : Bos) (max : Nat) (k : Prog Bool) : Prog Bool :=
  if dest = 0 then do handlerS ESNULLP; pure false
  else if dmax = 0 then do handlerS ESZEROL; pure false
  else chkDmaxQ (fun _ => false) dmax destbos max k

def isDigitC (c : Nat) : Bool := 48 ≤ c && c ≤ 57
def isLowerC (c : Nat) : Bool := 97 ≤ c && c ≤ 122
def isUpperC (c : Nat) : Bool := 65 ≤ c && c ≤ 90
def isAlnumC (c : Nat) : Bool := isDigitC c || isLowerC c || isUpperC c
def isHexC (c : Nat) : Bool := isDigitC c || (97 ≤ c && c ≤ 102) || (65 ≤ c && c ≤ 70)
def isAlphaC (c : Nat) : Bool := isLowerC c || isUpperC c

/-- `while (*dest && dmax) { if (ok(*dest)) { dest++; dmax--; } else return false; } return true;` -/
def classLoop (ok : Nat → Bool) : Nat → Nat → Prog Bool
  | 0, dest => do
    let _ ← load dest
    pure true
  | dmax+1, dest => do
    let c ← load dest
    if c = 0 then pure true
    else if ok c then classLoop ok dmax (dest+1)
    else pure false

/-- `while (*dest) { if (!ok(*dest)) return false; dest++; dmax--; } return true;` — `dmax` is
decremented but never tested: the scan is bounded by the terminator alone.  `fuel` is only the
termination argument of the model (larger than any mapped window of the harness). -/
def classLoopNoBound (ok : Nat → Bool) : Nat → Nat → Prog Bool
  | 0, _ => pure true
  | fuel+1, dest => do
    let c ← load dest
    if c = 0 then pure true
    else if ok c then classLoopNoBound ok fuel (dest+1)
    else pure false

def scanFuel2 : Nat := 1 <<< 20

/-- shape shared by all but `strisascii_s`: entry checks, `if (*dest == '\0') return false;`, loop -/
def predFn (ok : Nat → Bool) (bounded : Bool) (dest dmax : Nat) (destbos : Bos) : Prog Bool :=
  chkDestDmaxBool dest dmax destbos RSIZE_MAX_STR <| do
    let c0 ← load dest
    if c0 = 0 then pure false
    else if bounded then classLoop ok dmax dest
    else classLoopNoBound ok scanFuel2 dest

def strisalphanumeric_s := predFn isAlnumC true
def strishex_s := predFn isHexC true
def strislowercase_s := predFn isLowerC true
def strisdigit_s := predFn isDigitC false
def strismixedcase_s := predFn isAlphaC false
def strisuppercase_s := predFn isUpperC false

/-- no empty-string test: `while (*dest && dmax) { if ((unsigned char)*dest > 127) return false; … }` -/
def strisascii_s (dest dmax : Nat) (destbos : Bos) : Prog Bool :=
  chkDestDmaxBool dest dmax destbos RSIZE_MAX_STR <|
    classLoop (fun c => c ≤ 127) dmax dest

structure PwCnt where
  all : Nat := 0
  lower : Nat := 0
  upper : Nat := 0
  numbers : Nat := 0
  specials : Nat := 0

def pwFinal (n : PwCnt) : Bool :=
  n.all < SAFE_STR_PASSWORD_MAX_LENGTH && n.numbers ≥ SAFE_STR_MIN_NUMBERS &&
  n.lower ≥ SAFE_STR_MIN_LOWERCASE && n.upper ≥ SAFE_STR_MIN_UPPERCASE &&
  n.specials ≥ SAFE_STR_MIN_SPECIALS

/-- `while (*dest) { if (dmax == 0) { handler(ESUNTERM); return false; } dmax--; cnt_all++; classify; dest++; }` -/
def pwLoop : Nat → Nat → PwCnt → Prog Bool
  | 0, dest, n => do
    let c ← load dest
    if c = 0 then pure (pwFinal n)
    else do handlerS ESUNTERM; pure false
  | dmax+1, dest, n => do
    let c ← load dest
    if c = 0 then pure (pwFinal n)
    else
      let n := { n with all := n.all + 1 }
      if isDigitC c then pwLoop dmax (dest+1) { n with numbers := n.numbers + 1 }
      else if isLowerC c then pwLoop dmax (dest+1) { n with lower := n.lower + 1 }
      else if isUpperC c then pwLoop dmax (dest+1) { n with upper := n.upper + 1 }
      else if (33 ≤ c && c ≤ 47) || (58 ≤ c && c ≤ 64) || (91 ≤ c && c ≤ 94) || (95 ≤ c && c ≤ 96)
              || (123 ≤ c && c ≤ 126) then
        pwLoop dmax (dest+1) { n with specials := n.specials + 1 }
      else pure false

def strispassword_s (dest dmax : Nat) (destbos : Bos) : Prog Bool :=
  chkDestDmaxBool dest dmax destbos SAFE_STR_PASSWORD_MAX_LENGTH <|
    if dmax < SAFE_STR_PASSWORD_MIN_LENGTH then do handlerS ESLEMIN; pure false
    else do
      let c0 ← load dest
      if c0 = 0 then pure false
      else pwLoop dmax dest {}

/-! ## wide queries (`wchar_t` is a signed 32-bit `int`; object sizes arrive in BYTES) -/

def two64 : Nat := 2^64

/-- the `strbos != BOS_UNKNOWN` loop of `_wcsnlen_s_chk`:
`for (z = str; smax && *str != 0; smax--, str++) { strbos -= sizeof(wchar_t); if (strbos <= 0) return smax ? str - z : orig_smax; }`
(`strbos` is a `size_t`: `<= 0` is `== 0`, the subtraction wraps) -/
def wcsnlenBosLoop (orig : Nat) : Nat → Nat → Nat → Nat → Prog Nat
  | 0, _, _, _ => pure orig
  | smax+1, str, count, bos => do
    let c ← load str
    if c = 0 then pure count
    else
      let bos' := (bos + two64 - SIZEOF_WCHAR_T) % two64
      if bos' = 0 then pure count       -- `smax` is non-zero here; `str` not yet advanced
      else wcsnlenBosLoop orig smax (str+1) (count+1) bos'

/-- `_wcsnlen_s_chk(str, smax, strbos)`: a null `str` returns 0 WITHOUT the handler -/
def wcsnlen_s_chk (str smax : Nat) (strbos : Bos) : Prog Nat :=
  if str = 0 then pure 0
  else if smax = 0 then do handlerS ESZEROL; pure 0
  else if smax > RSIZE_MAX_WSTR then do handlerS ESLEMAX; pure 0
  else match strbos with
    | some b => wcsnlenBosLoop smax smax str 0 b
    | none => wcsnlenLoop smax str 0     -- returns `count` at a NUL, `orig_smax` (= count) at smax = 0

def toS32 (v : Nat) : Int := if v % 2^32 < 2^31 then ((v % 2^32 : Nat) : Int) else ((v % 2^32 : Nat) : Int) - 2^32

/-- `int` subtraction with wrap-around (the library is built with `-fno-strict-overflow`) -/
def subS32 (a b : Nat) : Int :=
  let d := (toS32 a - toS32 b) % (2^32 : Int)
  if d < 2^31 then d else d - 2^32

/-- `while (*dest && *src && dmax && smax [&& count]) { if (*dest != *src) break; dest++; src++; dmax--; smax--; [count--;] }`
returns the final `(dest, src)` -/
def wcscmpLoop (useCount : Bool) : Nat → Nat → Nat → Nat → Nat → Prog (Nat × Nat)
  | 0, _, _, dest, src => do
    let d ← load dest
    if d = 0 then pure (dest, src)
    else do
      let _ ← load src
      pure (dest, src)
  | dmax+1, smax, count, dest, src => do
    let d ← load dest
    if d = 0 then pure (dest, src)
    else do
      let s ← load src
      if s = 0 then pure (dest, src)
      else if smax = 0 then pure (dest, src)
      else if useCount && count == 0 then pure (dest, src)
      else if d ≠ s then pure (dest, src)
      else wcscmpLoop useCount dmax (smax-1) (count-1) (dest+1) (src+1)

/-- common body of `_wcscmp_s_chk` / `_wcsncmp_s_chk`; returns `(code, *resultp)` -/
def wcscmpG (useCount : Bool) (dest dmax src smax count : Nat) (destbos srcbos : Bos) : Prog (Nat × Int) :=
  let fail (e : Nat) : Prog (Nat × Int) := do handlerS e; pure (e, 0)
  -- CHK_SRC_NULL(resultp); *resultp = 0;
  if dest = 0 then fail ESNULLP
  else if src = 0 then fail ESNULLP
  else if dmax = 0 ∨ smax = 0 then fail ESZEROL
  else
    let rest : Prog (Nat × Int) :=
      if smax > RSIZE_MAX_WSTR then fail ESLEMAX
      else
        let body : Prog (Nat × Int) := do
          let (d, s) ← wcscmpLoop useCount dmax smax count dest src
          let a ← load d           -- `*resultp = *dest - *src;`
          let b ← load s
          pure (EOK, subS32 a b)
        match srcbos with
        | none => body
        | some sb => if smax * SIZEOF_WCHAR_T % two64 > sb then fail EOVERFLOW else body   -- `srcsz` is a size_t
    match destbos with
    | none =>
      -- CHK_DMAX_MAX(…, RSIZE_MAX_STR): the narrow limit, not RSIZE_MAX_WSTR
      if dmax > RSIZE_MAX_STR then fail ESLEMAX else rest
    | some db =>
      if dmax * SIZEOF_WCHAR_T % two64 > db then     -- `destsz` is a size_t: the product wraps
        if dmax > RSIZE_MAX_WSTR then fail ESLEMAX else fail EOVERFLOW
      else rest

def wcscmp_s (dest dmax src smax : Nat) (destbos srcbos : Bos) : Prog (Nat × Int) :=
  wcscmpG false dest dmax src smax 0 destbos srcbos

def wcsncmp_s (dest dmax src smax count : Nat) (destbos srcbos : Bos) : Prog (Nat × Int) :=
  wcscmpG true dest dmax src smax count destbos srcbos

/-- inner loop of `_wcsstr_s_chk`:
`while (src[i] && dlen) { if (dest[i] != src[i]) break; i++; len--; dlen--; if (src[i] == '\0' || !len) found; }` -/
def wcsstrInner (dest src : Nat) : Nat → Nat → Nat → Prog Bool
  | 0, i, _ => do
    let _ ← load (src + i)
    pure false
  | dlen+1, i, len => do
    let s ← load (src + i)
    if s = 0 then pure false
    else do
      let d ← load (dest + i)
      if d ≠ s then pure false
      else do
        let s2 ← load (src + (i+1))     -- read BEFORE `!len` is looked at
        if s2 = 0 ∨ len - 1 = 0 then pure true
        else wcsstrInner dest src dlen (i+1) (len-1)

/-- outer loop: `while (*dest && dmax) { …inner…; dest++; dmax--; }` -/
def wcsstrOuter (src slen : Nat) : Nat → Nat → Prog (Nat × Nat)
  | 0, dest => do
    let _ ← load dest
    pure (ESNOTFND, 0)
  | dmax+1, dest => do
    let d ← load dest
    if d = 0 then pure (ESNOTFND, 0)
    else do
      if ← wcsstrInner dest src (dmax+1) 0 slen then pure (EOK, dest)
      else wcsstrOuter src slen dmax (dest+1)

def wcsstr_s (dest dmax src slen : Nat) (destbos srcbos : Bos) : Prog (Nat × Nat) :=
  -- CHK_SRC_NULL(substringp); *substringp = NULL;
  if dest = 0 then failS2 ESNULLP 0
  else if src = 0 then failS2 ESNULLP 0
  else if dmax = 0 then failS2 ESZEROL 0
  else
    let rest : Prog (Nat × Nat) := do
      let s0 ← load src                       -- `*src == '\0' || dest == src`
      if s0 = 0 ∨ dest = src then pure (EOK, dest)
      else if slen = 0 then failS2 ESZEROL 0
      else if slen > RSIZE_MAX_WSTR then failS2 ESLEMAX 0
      else
        let body := wcsstrOuter src slen dmax dest
        match srcbos with
        | none => body
        | some sb => if slen * SIZEOF_WCHAR_T % two64 > sb then failS2 EOVERFLOW 0 else body
    match destbos with
    | none => if dmax > RSIZE_MAX_WSTR then failS2 ESLEMAX 0 else rest
    | some db =>
      if dmax * SIZEOF_WCHAR_T % two64 > db then
        if dmax > RSIZE_MAX_WSTR then failS2 ESLEMAX 0 else failS2 EOVERFLOW 0
      else rest

/-- `while (dlen > 0 && slen > 0) { if (*dp != *sp) { *diff = *dp < *sp ? -1 : 1; break; } … }` -/
def wmemcmpLoop : Nat → Nat → Nat → Nat → Prog Int
  | 0, _, _, _ => pure 0
  | dlen+1, slen, dp, sp =>
    if slen = 0 then pure 0
    else do
      let a ← load dp
      let b ← load sp
      if a ≠ b then pure (if toS32 a < toS32 b then -1 else 1)
      else wmemcmpLoop dlen (slen-1) (dp+1) (sp+1)

/-- `_wmemcmp_s_chk(dest, dlen, src, slen, diff, destbos, srcbos)`: mem handler; `*diff = -1` first -/
def wmemcmp_s (dest dlen src slen : Nat) (destbos srcbos : Bos) : Prog (Nat × Int) :=
  let fail (e : Nat) : Prog (Nat × Int) := do handlerM e; pure (e, -1)
  let dmax := dlen * SIZEOF_WCHAR_T % two64
  let smax := slen * SIZEOF_WCHAR_T % two64
  if dest = 0 then fail ESNULLP
  else if src = 0 then fail ESNULLP
  else if dmax = 0 then fail ESZEROL
  else
    let rest : Prog (Nat × Int) :=
      if slen = 0 then fail ESZEROL
      else
        let rest2 : Prog (Nat × Int) :=
          if slen > dlen then fail ESNOSPC
          else if dest = src then pure (EOK, 0)
          else do
            let r ← wmemcmpLoop dlen slen dest src
            pure (EOK, r)
        match srcbos with
        | none => if slen > RSIZE_MAX_WMEM then fail ESLEMAX else rest2
        | some sb => if smax > sb then fail ESLEMAX else rest2
    match destbos with
    | none => if dmax > RSIZE_MAX_MEM then fail ESLEMAX else rest
    | some db =>
      if dmax > db then
        if dmax > RSIZE_MAX_MEM then fail ESLEMAX else fail EOVERFLOW
      else rest

end SafeC

import SafeC.Gen.Consts
import SafeC.Gen.Printf
import SafeC.Models.Fmt
/-!
# The printf engine of safeclib (src/str/vsnprintf_s.c) — executable model for C11

`safec_vsnprintf_s` with its three sinks, the integer / character / string conversions complete
(`safec_atoi`, flag loop, `*` width and precision, length modifiers, `safec_ntoa_long[_long]`,
`safec_ntoa_format`, `safec_out_rev`, `%c`, `%lc`, `%s`, `%ls` in the C locale, `%p`, `%%`, the error exits),
and the wrappers `_vsnprintf_s_chk` (= `sprintf_s`, `snprintf_s`, `vsnprintf_s`), `_vsprintf_s_chk`,
`fprintf_s`/`vfprintf_s`, `printf_s`.  The floating conversions are NOT modelled (`Stop.unmodelled`).

The model mirrors the code that exists.  The defects this check found are kept, each behind one switch of
`Fixes` so that the repaired code is modelled too (`current` says which one /repo contains).

Representation.  A C string is a `List Char` of bytes (code < 256) without its terminator.  The digit buffer
`char buf[PRINTF_NTOA_BUFFER_SIZE]` with its fill count `len` is the list `buf[0..len)` (cells at and beyond
`len` are dead: every later store is at index `len`).  `dest` is the list of its `dmax` cells.
-/
namespace SafeC.Printf
open SafeC.Gen

abbrev Str := List Char

/-- `PRINTF_NTOA_BUFFER_SIZE`, regenerated from the tree -/
abbrev NTOA : Nat := PRINTF_NTOA_BUFFER_SIZE

/-- one variadic argument, typed as the caller passed it -/
inductive Arg
  | int (v : Int)                 -- int, unsigned int, and what promotes to them (char, short, wint_t): 32-bit slot
  | long (v : Int)                -- long, long long, size_t, intmax_t, ptrdiff_t and the unsigned twins: 64-bit slot
  | str (s : Option Str)          -- char *; `none` = NULL
  | wstr (s : Option (List Nat))  -- wchar_t *; `none` = NULL
  | dbl (bits : Nat)              -- double
  | ldbl (bits : Nat)             -- long double
  | ptr (v : Nat)                 -- void *
  deriving Repr, DecidableEq

/-- value of the low `bits` bits, unsigned -/
def wrapU (bits : Nat) (v : Int) : Nat := (v % ((2 ^ bits : Nat) : Int)).toNat
/-- value of the low `bits` bits, two's complement -/
def wrapS (bits : Nat) (v : Int) : Int :=
  if wrapU bits v < 2 ^ (bits - 1) then (wrapU bits v : Int) else (wrapU bits v : Int) - ((2 ^ bits : Nat) : Int)

/-- the repairs proposed in fixes/ (false = the code as it was found) -/
structure Fixes where
  minusPrec : Bool    -- fixes/printf-minus-precision.diff : precision zeros are written with the '-' flag too
  hash : Bool         -- fixes/printf-hash-prefix.diff     : only padding zeros make room for the 0x / 0 prefix, no second 0 for %#.No
  negStarPrec : Bool  -- fixes/printf-negative-star-precision.diff : a negative `.*` argument = no precision
  lcMemcpy : Bool     -- fixes/printf-lc-stray-memcpy.diff : %lc no longer copies the character to buffer[0]
  strPrec0 : Bool     -- fixes/printf-s-precision-zero.diff : %.0s measures 0 characters, not the whole string
  sprintfExact : Bool -- fixes/sprintf-exact-fit.diff      : sprintf_s reports a text of exactly dmax characters
  deriving Repr, DecidableEq

def Fixes.none : Fixes := ⟨false, false, false, false, false, false⟩
def Fixes.all : Fixes := ⟨true, true, true, true, true, true⟩
/-- the code /repo contains now -/
def current : Fixes := Fixes.all

/-- the `FLAGS_*` bits -/
structure Flags where
  zeropad : Bool := false
  left : Bool := false
  plus : Bool := false
  space : Bool := false
  hash : Bool := false
  upper : Bool := false
  char : Bool := false
  short : Bool := false
  long : Bool := false
  longlong : Bool := false
  precision : Bool := false
  adaptExp : Bool := false
  longDouble : Bool := false
  deriving Repr, DecidableEq

inductive Sink
  | buffer   -- safec_out_buffer
  | char     -- safec_out_char  (putchar; a NUL is dropped)
  | fchar    -- safec_out_fchar (fputc)
  deriving Repr, DecidableEq

/-- why the engine stopped -/
inductive Stop
  | ret (v : Int)     -- `return` of a negative value
  | fault             -- a store outside `dest` (the %lc memcpy)
  | stuck             -- the next argument has the wrong type / is missing (undefined behaviour in C)
  | unmodelled        -- a floating conversion
  deriving Repr, DecidableEq

structure St where
  idx : Nat
  cells : List Char     -- `dest` (buffer sink)
  stream : List Char    -- bytes handed to putchar / fputc
  deriving Repr, DecidableEq

abbrev M := Except Stop

def ESNOSPCi : Int := -(ESNOSPC : Int)

/-- `out(character, buffer, idx++, maxlen)` followed by `if (rc < 0) return rc;` -/
def out (sk : Sink) (maxlen : Nat) (c : Char) (s : St) : M St :=
  match sk with
  | .buffer => if s.idx < maxlen then .ok { s with cells := s.cells.set s.idx c, idx := s.idx + 1 } else .error (.ret ESNOSPCi)
  | .char => .ok { s with stream := if c = '\x00' then s.stream else s.stream ++ [c], idx := s.idx + 1 }
  | .fchar => .ok { s with stream := s.stream ++ [c], idx := s.idx + 1 }

/-- a loop of `out` calls over the characters `cs`, returning at the first failure -/
def emitAll (sk : Sink) (maxlen : Nat) : List Char → St → M St
  | [], s => .ok s
  | c :: cs, s => do
    let s' ← out sk maxlen c s
    emitAll sk maxlen cs s'

/-- a loop that writes the character `c` `n` times (`for (i = len; i < width; i++) out(' ')` and its relatives), returning at
    the first failure; equal to `emitAll (List.replicate n c)` (lemma `emitRep_eq`), but does not build the list -/
def emitRep (sk : Sink) (maxlen : Nat) (c : Char) : Nat → St → M St
  | 0, s => .ok s
  | n + 1, s => do
    let s' ← out sk maxlen c s
    emitRep sk maxlen c n s'

/-- `safec_out_rev`: `buf[0..len)` in reverse, padded to `width` -/
def outRev (sk : Sink) (maxlen : Nat) (buf : Str) (width : Nat) (fl : Flags) (s : St) : M St := do
  let start := s.idx
  -- for (i = len; i < width; i++) out(' ')
  let s ← if !fl.left && !fl.zeropad then emitRep sk maxlen ' ' (width - buf.length) s else pure s
  -- while (len) out(buf[--len])
  let s ← emitAll sk maxlen buf.reverse s
  -- while (idx - start_idx < width) out(' ')
  if fl.left then emitRep sk maxlen ' ' (width - (s.idx - start)) s else pure s

/-- `while ((len < limit) && (len < PRINTF_NTOA_BUFFER_SIZE)) buf[len++] = '0';` -/
def padZeros (limit : Nat) (buf : Str) : Str := buf ++ List.replicate (min limit NTOA - buf.length) '0'

/-- `if (len < PRINTF_NTOA_BUFFER_SIZE) buf[len++] = c;` -/
def push (buf : Str) (c : Char) : Str := if buf.length < NTOA then buf ++ [c] else buf

/-- `safec_ntoa_format` up to its last line: the final contents of `buf[0..len)`, the adjusted `width` and flags -/
def ntoaPrep (fx : Fixes) (buf : Str) (negative : Bool) (base prec width : Nat) (fl : Flags) : Str × Nat × Flags :=
  let unpadded := buf.length
  -- pad leading zeros
  let width1 := if !fl.left && width != 0 && fl.zeropad && (negative || fl.plus || fl.space) then width - 1 else width
  let buf1 := if !fl.left || fx.minusPrec then padZeros prec buf else buf
  -- (repaired code only) zeros written for the precision already give %#o its leading 0
  let fl := if fx.hash && base == 8 && buf1.length > unpadded then { fl with hash := false } else fl
  let buf2 := if !fl.left && fl.zeropad then padZeros width1 buf1 else buf1
  -- handle hash
  let buf3 :=
    if fl.hash then
      let b :=
        if !fl.precision && buf2.length != 0 && (buf2.length == prec || buf2.length == width1) then
          if fx.hash then
            let b1 := if unpadded < buf2.length then buf2.dropLast else buf2
            if b1.length != 0 && base == 16 && unpadded < b1.length then b1.dropLast else b1
          else
            let b1 := buf2.dropLast
            if b1.length != 0 && base == 16 then b1.dropLast else b1
        else buf2
      let b :=
        if base == 16 && !fl.upper && b.length < NTOA then b ++ ['x']
        else if base == 16 && fl.upper && b.length < NTOA then b ++ ['X']
        else if base == 2 && b.length < NTOA then b ++ ['b']
        else b
      push b '0'
    else buf2
  let buf4 :=
    if buf3.length < NTOA then
      if negative then buf3 ++ ['-'] else if fl.plus then buf3 ++ ['+'] else if fl.space then buf3 ++ [' '] else buf3
    else buf3
  (buf4, width1, fl)

/-- `safec_ntoa_format`: `ntoaPrep`, the `width > 2147483614` exit, `return safec_out_rev(…)` -/
def ntoaFormat (fx : Fixes) (sk : Sink) (maxlen : Nat) (buf : Str) (negative : Bool) (base prec width : Nat)
    (fl : Flags) (s : St) : M St :=
  let r := ntoaPrep fx buf negative base prec width fl
  if r.2.1 > 2147483614 then .error (.ret (-(ESLEMAX : Int)))
  else outRev sk maxlen r.1 r.2.1 r.2.2 s

/-- `digit < 10 ? '0' + digit : (flags & FLAGS_UPPERCASE ? 'A' : 'a') + digit - 10` -/
def digitChar (d : Nat) (upper : Bool) : Char :=
  if d < 10 then Char.ofNat (48 + d) else Char.ofNat ((if upper then 65 else 97) + d - 10)

/-- `do { buf[len++] = digit(value % base); value /= base; } while (value && (len < PRINTF_NTOA_BUFFER_SIZE));`
    (fuel: the loop body runs at most PRINTF_NTOA_BUFFER_SIZE times) -/
def ntoaDigits (base : Nat) (upper : Bool) : Nat → Nat → Str → Str
  | 0, _, buf => buf
  | fuel + 1, value, buf =>
    let buf := buf ++ [digitChar (value % base) upper]
    let value := value / base
    if value != 0 && buf.length < NTOA then ntoaDigits base upper fuel value buf else buf

/-- `safec_ntoa_long` / `safec_ntoa_long_long` (identical bodies; `unsigned long` = `unsigned long long` = 64 bits) -/
def ntoaLong (fx : Fixes) (sk : Sink) (maxlen : Nat) (value : Nat) (negative : Bool) (base prec width : Nat)
    (fl : Flags) (s : St) : M St :=
  -- no hash for 0 values (repaired code: %#.0o of 0 keeps it, so that the single 0 the standard asks for is written)
  let fl := if value == 0 && !(fx.hash && base == 8 && fl.precision) then { fl with hash := false } else fl
  let buf := if !fl.precision || value != 0 then ntoaDigits base fl.upper NTOA value [] else []
  ntoaFormat fx sk maxlen buf negative base prec width fl s

/-- `safec_atoi`: `i = i * 10U + (unsigned)(ch - '0')` in `unsigned int` -/
def atoi : Str → Nat → Nat × Str
  | [], i => (i, [])
  | c :: r, i => if c.isDigit then atoi r ((i * 10 + (c.toNat - 48)) % 2 ^ 32) else (i, c :: r)

/-- the flag loop -/
def parseFlags : Str → Flags → Flags × Str
  | [], fl => (fl, [])
  | c :: r, fl =>
    if c = '0' then parseFlags r { fl with zeropad := true }
    else if c = '-' then parseFlags r { fl with left := true }
    else if c = '+' then parseFlags r { fl with plus := true }
    else if c = ' ' then parseFlags r { fl with space := true }
    else if c = '#' then parseFlags r { fl with hash := true }
    else (fl, c :: r)

/-- `va_arg(va, int)` -/
def nextInt : List Arg → M (Int × List Arg)
  | .int v :: as => .ok (wrapS 32 v, as)
  | _ => .error .stuck
/-- `va_arg(va, long)` / `long long` / `unsigned long` … : the 64-bit word -/
def nextLong : List Arg → M (Nat × List Arg)
  | .long v :: as => .ok (wrapU 64 v, as)
  | _ => .error .stuck

/-- width field: digits, or `*` with `if (w < 0) { flags |= FLAGS_LEFT; width = (unsigned)-w; }` -/
def parseWidth (f : Str) (fl : Flags) (args : List Arg) : M (Flags × Nat × Str × List Arg) :=
  match f with
  | [] => .ok (fl, 0, [], args)
  | c :: r =>
    if c.isDigit then let (w, f') := atoi (c :: r) 0; .ok (fl, w, f', args)
    else if c = '*' then do
      let (w, as) ← nextInt args
      if w < 0 then .ok ({ fl with left := true }, wrapU 32 (-w), r, as) else .ok (fl, w.toNat, r, as)
    else .ok (fl, 0, c :: r, args)

/-- precision field -/
def parsePrec (fx : Fixes) (f : Str) (fl : Flags) (args : List Arg) : M (Flags × Nat × Str × List Arg) :=
  match f with
  | [] => .ok (fl, 0, [], args)
  | c :: r =>
    if c = '.' then
      let fl := { fl with precision := true }
      match r with
      | [] => .ok (fl, 0, [], args)
      | c' :: r' =>
        if c'.isDigit then let (p, f') := atoi (c' :: r') 0; .ok (fl, p, f', args)
        else if c' = '*' then do
          let (p, as) ← nextInt args
          if fx.negStarPrec && p < 0 then .ok ({ fl with precision := false }, 0, r', as)
          else .ok (fl, if p > 0 then p.toNat else 0, r', as)
        else .ok (fl, 0, c' :: r', args)
    else .ok (fl, 0, c :: r, args)

/-- length field (`t`, `j`, `z`: `sizeof == sizeof(long)` ⇒ FLAGS_LONG) -/
def parseLength : Str → Flags → Flags × Str
  | [], fl => (fl, [])
  | c :: r, fl =>
    if c = 'l' then
      match r with
      | 'l' :: r' => ({ fl with long := true, longlong := true }, r')
      | _ => ({ fl with long := true }, r)
    else if c = 'L' then ({ fl with longDouble := true }, r)
    else if c = 'h' then
      match r with
      | 'h' :: r' => ({ fl with short := true, char := true }, r')
      | _ => ({ fl with short := true }, r)
    else if c = 't' ∨ c = 'j' ∨ c = 'z' then ({ fl with long := true }, r)
    else (fl, c :: r)

def EINVALr : Stop := .ret (-1)

/-- the integer conversions `d i u x X o b` -/
def convInt (fx : Fixes) (sk : Sink) (maxlen : Nat) (c : Char) (fl : Flags) (width prec : Nat) (args : List Arg) (s : St) :
    M (St × List Arg) :=
  if fl.longDouble then .error EINVALr else
  let base := if c = 'x' ∨ c = 'X' then 16 else if c = 'o' then 8 else if c = 'b' then 2 else 10
  let fl := if base = 10 then { fl with hash := false } else fl
  let fl := if c = 'X' then { fl with upper := true } else fl
  let fl := if c ≠ 'i' ∧ c ≠ 'd' then { fl with plus := false, space := false } else fl
  let fl := if fl.precision then { fl with zeropad := false } else fl
  if c = 'i' ∨ c = 'd' then
    if fl.longlong ∨ fl.long then do
      let (w, as) ← nextLong args
      let v := wrapS 64 (w : Int)
      let s ← ntoaLong fx sk maxlen (wrapU 64 (if v > 0 then v else 0 - v)) (v < 0) base prec width fl s
      pure (s, as)
    else do
      let (a, as) ← nextInt args
      let v := if fl.char then wrapS 8 a else if fl.short then wrapS 16 a else a
      let s ← ntoaLong fx sk maxlen (wrapU 32 (if v > 0 then v else 0 - v)) (v < 0) base prec width fl s
      pure (s, as)
  else
    if fl.longlong ∨ fl.long then do
      let (w, as) ← nextLong args
      let s ← ntoaLong fx sk maxlen w false base prec width fl s
      pure (s, as)
    else do
      let (a, as) ← nextInt args
      let u := wrapU 32 a
      let v := if fl.char then u % 256 else if fl.short then u % 65536 else u
      let s ← ntoaLong fx sk maxlen v false base prec width fl s
      pure (s, as)

/-- `%c` and `%lc` (C locale: `wctomb` succeeds exactly for 0 … 0x7f) -/
def convChar (fx : Fixes) (sk : Sink) (maxlen : Nat) (fl : Flags) (width : Nat) (args : List Arg) (s : St) : M (St × List Arg) := do
  let pad := width - 1      -- l = 1; while (l++ < width) out(' ')
  if fl.long then do
    let (a, as) ← nextInt args
    if a < 0 ∨ a ≥ 128 then .error (.ret (-1)) else do
    let wstr : Str := if a = 0 then [] else [Char.ofNat a.toNat]        -- wstr[len] = 0 with len = 1; a NUL ends it at once
    -- memcpy(buffer, wstr, len + 1): two bytes at buffer[0], whatever idx and bufsize are
    let s ← if fx.lcMemcpy then pure s else
      match sk with
      | .buffer => if s.cells.length < 2 then .error .fault else pure { s with cells := (s.cells.set 0 (Char.ofNat a.toNat)).set 1 '\x00' }
      | .char => .error .fault     -- printf_s passes `char buffer[1]`: the two-byte copy overruns it
      | .fchar => pure s           -- fprintf_s / vfprintf_s pass their 16-byte `out_fct_wrap_type` (its unused `fct` member is overwritten)
    let s ← if !fl.left then emitRep sk maxlen ' ' pad s else pure s
    let s ← emitAll sk maxlen wstr s
    let s ← if fl.left then emitRep sk maxlen ' ' pad s else pure s
    pure (s, as)
  else do
    let s ← if !fl.left then emitRep sk maxlen ' ' pad s else pure s
    let (a, as) ← nextInt args
    let s ← out sk maxlen (Char.ofNat (wrapU 8 a)) s
    let s ← if fl.left then emitRep sk maxlen ' ' pad s else pure s
    pure (s, as)

/-- the common tail of `%s` and `%ls`: `p` is the (multibyte) string -/
def convStrTail (sk : Sink) (maxlen bufsize : Nat) (fl : Flags) (width prec : Nat) (p : Str) (l0 : Nat) (s : St) : M St :=
  if l0 + s.idx > bufsize then .error (.ret ESNOSPCi) else do
  let l := if fl.precision then min l0 prec else l0
  let s ← if !fl.left then emitRep sk maxlen ' ' (width - l) s else pure s
  let s ← emitAll sk maxlen (if fl.precision then p.take prec else p) s
  if fl.left then emitRep sk maxlen ' ' (width - l) s else pure s

/-- `%s` / `%ls` -/
def convStr (fx : Fixes) (sk : Sink) (maxlen bufsize : Nat) (fl : Flags) (width prec : Nat) (args : List Arg) (s : St) : M (St × List Arg) := do
  if fl.long then
    match args with
    | .wstr none :: _ => .error (.ret (-(ESNULLP : Int)))
    | .wstr (some w) :: as =>
      -- l = wcsnlen_s(lp, precision ? precision : RSIZE_MAX_WSTR)   (0 when the bound exceeds RSIZE_MAX_WSTR)
      let lim := if prec != 0 then prec else RSIZE_MAX_WSTR
      let l := if lim > RSIZE_MAX_WSTR then 0 else min w.length lim
      -- wcstombs_s(&len, p, l + 1, lp, l)
      if l + 1 > RSIZE_MAX_WSTR then .error (.ret (-(ESLEMAX : Int)))
      else if (w.take l).any (· ≥ 128) then .error (.ret (-(EILSEQ : Int)))
      else do           -- (an empty conversion is accepted since /repo 73ef752)
        let p : Str := (w.take l).map Char.ofNat
        let s ← convStrTail sk maxlen bufsize fl width prec p l s
        pure (s, as)
    | _ => .error .stuck
  else
    match args with
    | .str none :: _ => .error (.ret (-(ESNULLP : Int)))
    | .str (some p) :: as => do
      -- l = safec_strnlen_s(p, precision ? precision : (size_t)-1)
      let l := if (if fx.strPrec0 then fl.precision else prec != 0) then min p.length prec else p.length
      let s ← convStrTail sk maxlen bufsize fl width prec p l s
      pure (s, as)
    | _ => .error .stuck

/-- one conversion specification, `f` = the format behind the `%` -/
def directive (fx : Fixes) (sk : Sink) (bufsize : Nat) (f : Str) (args : List Arg) (s : St) : M (Str × List Arg × St) := do
  let (fl, f) := parseFlags f {}
  let (fl, width, f, args) ← parseWidth f fl args
  let (fl, prec, f, args) ← parsePrec fx f fl args
  let (fl, f) := parseLength f fl
  match f with
  | [] => .error EINVALr                       -- default: illegal format-specifier (the NUL)
  | c :: r =>
    if c = 'd' ∨ c = 'i' ∨ c = 'u' ∨ c = 'x' ∨ c = 'X' ∨ c = 'o' ∨ c = 'b' then do
      let (s, args) ← convInt fx sk bufsize c fl width prec args s
      pure (r, args, s)
    else if c = 'f' ∨ c = 'F' ∨ c = 'e' ∨ c = 'E' ∨ c = 'g' ∨ c = 'G' ∨ c = 'a' ∨ c = 'A' then .error .unmodelled
    else if c = 'c' then do
      let (s, args) ← convChar fx sk bufsize fl width args s
      pure (r, args, s)
    else if c = 's' then do
      let (s, args) ← convStr fx sk bufsize bufsize fl width prec args s
      pure (r, args, s)
    else if c = 'p' then
      match args with
      | .ptr v :: as => do
        let s ← ntoaLong fx sk bufsize (v % 2 ^ 64) false 16 prec 16 { fl with zeropad := true, upper := true } s
        pure (r, as, s)
      | _ => .error .stuck
    else if c = '%' then do
      let s ← out sk bufsize '%' s
      pure (r, args, s)
    else .error EINVALr                        -- 'n' and every other character: handler, return -1

/-- the `while (*format)` loop; fuel = one unit per iteration (every iteration consumes a character) -/
def engLoop (fx : Fixes) (sk : Sink) (bufsize : Nat) : Nat → Str → List Arg → St → M St
  | 0, _, _, s => .ok s
  | _ + 1, [], _, s => .ok s
  | k + 1, c :: r, args, s =>
    if c ≠ '%' then do
      let s ← out sk bufsize c s
      engLoop fx sk bufsize k r args s
    else do
      let (r', args', s') ← directive fx sk bufsize r args s
      engLoop fx sk bufsize k r' args' s'

/-- `safec_vsnprintf_s`: the loop, then for the buffer sink the terminator at `idx < bufsize ? idx : bufsize - 1`;
    returns `(int)idx` -/
def engine (fx : Fixes) (sk : Sink) (bufsize : Nat) (fmt : Str) (args : List Arg) (s : St) : M St := do
  let s ← engLoop fx sk bufsize fmt.length fmt args s
  match sk with
  | .buffer => pure { s with cells := s.cells.set (if s.idx < bufsize then s.idx else bufsize - 1) '\x00' }
  | _ => pure s

/-- what a call leaves behind -/
structure Result where
  ret : Option Int        -- `none`: the call did not return (fault) or the model does not say (stuck / unmodelled)
  why : String            -- "" | "fault" | "stuck" | "unmodelled"
  cells : List Char       -- dest after the call (buffer variants)
  stream : List Char      -- bytes written to the stream (stream variants)
  deriving Repr

def zeros (n : Nat) : List Char := List.replicate n '\x00'

/-- `_vsnprintf_s_chk` with a non-null `dest` of `init.length = dmax` cells, object size unknown -/
def vsnprintf_s (fx : Fixes) (slack : Bool) (dmax : Nat) (init : List Char) (fmt : Str) (args : List Arg) : Result :=
  if dmax = 0 then ⟨some (-(ESZEROL : Int)), "", init, []⟩
  else if dmax > RSIZE_MAX_STR then ⟨some (-(ESLEMAX : Int)), "", init, []⟩
  -- `handle_error(dest, dmax, "vsnprintf_s: illegal %n", EINVAL)` (fix: commit 334ee1c; before it dest was left as it was)
  else if SafeC.Fmt.prescan fmt then ⟨some (-(EINVAL : Int)), "", if slack then zeros dmax else init.set 0 '\x00', []⟩
  else
    match engine fx .buffer dmax fmt args ⟨0, init, []⟩ with
    | .ok s =>
      let ret : Int := s.idx
      let cells := if slack then (if s.idx > dmax then s.cells.set (dmax - 1) '\x00' else s.cells.take s.idx ++ zeros (dmax - s.idx))
                   else s.cells.set (dmax - 1) '\x00'
      ⟨some ret, "", cells, []⟩
    | .error (.ret v) => ⟨some v, "", if slack then zeros dmax else init.set 0 '\x00', []⟩
    | .error .fault => ⟨none, "fault", init, []⟩
    | .error .stuck => ⟨none, "stuck", init, []⟩
    | .error .unmodelled => ⟨none, "unmodelled", init, []⟩

/-- `_vsprintf_s_chk`: `if (dmax && ret >= (int)dmax) { handle_error(dest, dmax, …, ESNOSPC); return -ESNOSPC; }` -/
def vsprintf_s (fx : Fixes) (slack : Bool) (dmax : Nat) (init : List Char) (fmt : Str) (args : List Arg) : Result :=
  let r := vsnprintf_s fx slack dmax init fmt args
  match r.ret with
  | some v => if dmax ≠ 0 ∧ v ≥ (dmax : Int) then { r with ret := some ESNOSPCi, cells := if slack then zeros dmax else r.cells.set 0 '\x00' } else r
  | none => r

/-- `_sprintf_s_chk` = `_vsnprintf_s_chk` (repaired code: the exact-fit test of `_vsprintf_s_chk`) -/
def sprintf_s (fx : Fixes) (slack : Bool) (dmax : Nat) (init : List Char) (fmt : Str) (args : List Arg) : Result :=
  if fx.sprintfExact then vsprintf_s fx slack dmax init fmt args else vsnprintf_s fx slack dmax init fmt args

/-- `fprintf_s` / `vfprintf_s` (sink `fchar`) and `printf_s` (sink `char`): pre-scan, then the engine with bufsize = SIZE_MAX -/
def streamPrintf (fx : Fixes) (sk : Sink) (fmt : Str) (args : List Arg) : Result :=
  if SafeC.Fmt.prescan fmt then ⟨some (-(EINVAL : Int)), "", [], []⟩
  else
    match engine fx sk (2 ^ 64 - 1) fmt args ⟨0, [], []⟩ with
    | .ok s => ⟨some (s.idx : Int), "", [], s.stream⟩
    | .error (.ret v) => ⟨some v, "", [], []⟩
    | .error .fault => ⟨none, "fault", [], []⟩
    | .error .stuck => ⟨none, "stuck", [], []⟩
    | .error .unmodelled => ⟨none, "unmodelled", [], []⟩

end SafeC.Printf

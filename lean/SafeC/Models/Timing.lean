import SafeC.Common
/-!
# F12: `timingsafe_bcmp`, `timingsafe_memcmp` (`src/extmem/timingsafe_*.c`)

Every C conditional (`if`, loop test) emits an `Event.branch` so that the *trace* of a run — the
sequence of addresses accessed and branch decisions taken — is an observable of the model (C19).
The byte arithmetic is the C arithmetic on `int`: `(p1[i] - p2[i]) >> CHAR_BIT` is an arithmetic
shift of a value in [-255, 255].
-/
namespace SafeC
open Gen

/-- what an observer of control flow and addresses sees -/
inductive TItem where
  | rd (a : Nat)
  | wr (a : Nat)
  | br (b : Bool)
  | hd (k : Kind) (code : Nat)
  deriving Repr, DecidableEq

/-- total run (no faults: the C19 statements are about mapped operands) -/
def runT : Prog α → St → α × St
  | .ret x, s => (x, s)
  | .load a k, s => runT (k (s.data a)) s
  | .store a v k, s => runT k (s.upd a v)
  | .emit e k, s => runT k { s with events := s.events ++ [e] }

/-- trace of a run: addresses and branch decisions, in order -/
def trace : Prog α → St → List TItem
  | .ret _, _ => []
  | .load a k, s => .rd a :: trace (k (s.data a)) s
  | .store a v k, s => .wr a :: trace k (s.upd a v)
  | .emit (.branch b) k, s => .br b :: trace k s
  | .emit (.handler kd c) k, s => .hd kd c :: trace k s

def br (b : Bool) : Prog Unit := emit (.branch b)

/-- `for (; n > 0; n--) ret |= *p1++ ^ *p2++;` -/
def bcmpLoop : Nat → Nat → Nat → Nat → Prog Nat
  | 0, _, _, ret => do br false; pure ret
  | n+1, p1, p2, ret => do
    br true
    let a ← load p1
    let b ← load p2
    bcmpLoop n (p1+1) (p2+1) (ret ||| (a ^^^ b))

/-- the two `n > bos` / `n > RSIZE_MAX_MEM` entry checks shared by both functions; result `none` = passed -/
def tsChecks (n : Nat) (destbos srcbos : Bos) : Prog (Option Int) := do
  let c1 := match destbos with | none => decide (n > RSIZE_MAX_MEM) | some b => decide (n > b)
  br c1
  if c1 then do handlerM ESLEMAX; pure (some (-(ESLEMAX : Int)))
  else do
    let c2 := match srcbos with | none => false | some b => decide (n > b)
    match srcbos with
    | none => pure ()
    | some _ => br c2
    if c2 then do handlerM ESLEMAX; pure (some (-(ESLEMAX : Int)))
    else pure none

def timingsafe_bcmp (b1 b2 n : Nat) (destbos srcbos : Bos) : Prog Int := do
  match ← tsChecks n destbos srcbos with
  | some r => pure r
  | none => do
    let ret ← bcmpLoop n b1 b2 0
    pure (if ret ≠ 0 then 1 else 0)

/-- one iteration of the memcmp loop on the C `int`s (`Int32`) `res`, `done`; `>>>` on `Int32` is the arithmetic shift -/
def memcmpStep (a b : Nat) (res done : Int32) : Int32 × Int32 :=
  let lt : Int32 := (Int32.ofNat a - Int32.ofNat b) >>> 8
  let gt : Int32 := (Int32.ofNat b - Int32.ofNat a) >>> 8
  let cmp := lt - gt
  (res ||| (cmp &&& ~~~done), done ||| (lt ||| gt))

def memcmpLoop : Nat → Nat → Nat → Int32 → Int32 → Prog Int32
  | 0, _, _, res, _ => do br false; pure res
  | n+1, p1, p2, res, done => do
    br true
    let a ← load p1
    let b ← load p2
    let (res', done') := memcmpStep a b res done
    memcmpLoop n (p1+1) (p2+1) res' done'

def timingsafe_memcmp (b1 b2 len : Nat) (destbos srcbos : Bos) : Prog Int := do
  match ← tsChecks len destbos srcbos with
  | some r => pure r
  | none => do
    let r ← memcmpLoop len b1 b2 0 0
    pure r.toInt

end SafeC

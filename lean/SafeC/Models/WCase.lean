import SafeC.Common
import SafeC.Gen.WCase
/-!
# F4, wide case mappers: `wcslwr_s`, `wcsupr_s` (`src/extwchar/wcslwr_s.c`, `wcsupr_s.c`)

Both functions are the same text around one call:

```
const size_t srcsz = slen * sizeof(wchar_t);
if (slen == 0) return EOK;                                     /* no handler, src is not looked at */
CHK_SRC_NULL(..)                                               /* handler(ESNULLP); return ESNULLP */
if (slen > RSIZE_MAX_WSTR) { handler(ESLEMAX); return ESLEMAX; }
if (srcbos == BOS_UNKNOWN) { BND_CHK_PTR_BOUNDS(src, srcsz); } /* expands to nothing in this build */
else if (srcsz > srcbos) { handler(EOVERFLOW); return EOVERFLOW; }   /* srcbos in BYTES; nothing is cleared */
while (slen && *src) { *src = MAP(*src); src++; slen--; }      /* before 7997192 / c770409: `*src && slen` - the cell was
                                                                   read BEFORE the counter was tested (switch `rb`) */
return EOK;
```

`MAP` is libc's `towlower` for `wcslwr_s` (`HAVE_TOWLOWER` is defined) and the library's own `_towupper`
(`src/extwchar/towctrans.c`) for `wcsupr_s` (`HAVE_TOWUPPER_OK` is not defined).

* libc `towlower`: the harness never calls `setlocale`, so this is glibc's "C" locale, in which (measured by
  `tools/gen.py` over every cell value 0..0x110400 and a few above, among them negative `wchar_t`) `towlower`
  changes exactly the 26 ASCII capitals.  The measured list is `Gen.WCase.towlowerDiff`.
* `_towupper(wc) = wc < 128 ? toupper(wc) : _towcase(wc, 0)`: `toupper` is libc's ("C" locale, table
  `Gen.WCase.toupper128`); `_towcase` walks three static tables, which `tools/gen.py` dumps from the compiled
  translation unit into `Gen.WCase`.  `towcase0` below is `_towcase` specialised to `lower = 0`
  (`lmul = -1`, `lmask = -1`, every `if (lower && …) break;` dead), with the integer types of the C:
  `(unsigned)wc - base` is a 32-bit unsigned subtraction in the first loop (`base` is `int`) and a 64-bit one in
  the third (`base` is `unsigned long`).

A cell is a `wchar_t` seen as its 32-bit pattern (`Nat < 2^32`).
-/
namespace SafeC
open Gen

/-- unsigned 32-bit `a - b` -/
def usub32 (a b : Nat) : Nat := (a % 2^32 + 2^32 - b % 2^32) % 2^32
/-- unsigned 64-bit `a - b` -/
def usub64 (a b : Nat) : Nat := (a % 2^64 + 2^64 - b % 2^64) % 2^64
/-- `(uint32_t)(wc + k)` for a C `int` k -/
def uadd32 (wc : Nat) (k : Int) : Nat := (((wc : Int) + k) % (2^32 : Int)).toNat

/-- first loop of `_towcase(wc, 0)`:
`for (i = 0; casemaps[i].len; i++) { int base = upper + (lmask & lower); if ((unsigned)wc - base < len) { if (lower == 1) return wc + lower(=0) - ((wc - upper) & 1); return wc + lmul * lower; } }` -/
def scanCasemapsUp (wc : Nat) : List (Nat × Int × Nat) → Option Nat
  | [] => none
  | (upper, lower, len) :: rest =>
    let base := uadd32 upper lower                  -- int, converted to unsigned by the subtraction
    if usub32 wc base < len then
      if lower = 1 then some (usub32 wc (usub32 wc upper % 2))
      else some (uadd32 wc (-lower))
    else scanCasemapsUp wc rest

/-- second loop: `for (i = 0; pairs[i][1]; i++) if (pairs[i][1] == wc) return pairs[i][0];` — first match -/
def scanPairsUp (wc : Nat) : List (Nat × Nat) → Option Nat
  | [] => none
  | (upper, lower) :: rest => if lower = wc then some upper else scanPairsUp wc rest

/-- third loop: `casemapsl`; `unsigned long base = upper + (lmask & lower)` (32-bit sum, widened), 64-bit subtraction -/
def scanCasemapslUp (wc : Nat) : List (Nat × Int × Nat) → Option Nat
  | [] => none
  | (upper, lower, len) :: rest =>
    let base := uadd32 upper lower
    if usub64 wc base < len then
      if lower = 1 then some (usub32 wc (usub32 wc upper % 2))
      else some (uadd32 wc (-lower))
    else scanCasemapslUp wc rest

/-- `_towcase(wc, 0)` -/
def towcase0 (wc : Nat) : Nat :=
  if wc < 0x41 ∨ usub32 wc 0x0600 ≤ 0x0fff - 0x0600 ∨ usub32 wc 0x2e00 ≤ 0xa63f - 0x2e00 ∨
     usub32 wc 0xa800 ≤ 0xab69 - 0xa800 ∨ usub32 wc 0xabc0 ≤ 0xfeff - 0xabc0 then wc
  else if usub32 wc 0x2d00 < 0x26 then              -- `else if (!lower && (unsigned)wc - 0x2d00 < 0x26)`
    if wc > 0x2d25 ∧ wc ≠ 0x2d27 ∧ wc ≠ 0x2d2d then wc else uadd32 wc (0x10a0 - 0x2d00)
  else match scanCasemapsUp wc WCase.casemaps with
    | some r => r
    | none => match scanPairsUp wc WCase.pairs with
      | some r => r
      | none => match scanCasemapslUp wc WCase.casemapsl with
        | some r => r
        | none => wc

/-- `_towupper(wc)`: `wc < 128 ? (uint32_t)toupper(wc) : _towcase(wc, 0)` on the 32-bit pattern of the cell -/
def towupperLib (wc : Nat) : Nat :=
  if wc < 128 then WCase.toupper128.getD wc wc else towcase0 wc

/-- libc `towlower` in the "C" locale, as measured -/
def towlowerLibc (wc : Nat) : Nat :=
  match WCase.towlowerDiff.lookup wc with
  | some r => r
  | none => wc

/-- `while (*src && slen) { *src = f(*src); src++; slen--; }`: `*src` is read first, so when the counter has
run out the loop still reads `src[slen]` before it stops; the body reads the cell again for the call. -/
def wcaseLoop (rb : Bool) (f : Nat → Nat) : Nat → Nat → Prog Unit
  | 0, src =>
    -- rb (the tree before 7997192 / c770409): `*src && slen` with slen == 0 — the read happens, the result is unused;
    -- now `slen && *src`: the cell behind the last permitted one is not touched
    if rb then do let _ ← load src; pure () else pure ()
  | slen+1, src => do
    let c ← load src
    if c = 0 then pure ()
    else do
      let c1 ← load src
      store src (f c1 % 2^32)
      wcaseLoop rb f slen (src+1)

/-- the text shared by `_wcslwr_s_chk(src, slen, srcbos)` and `_wcsupr_s_chk(src, slen, srcbos)`; `srcbos` in bytes -/
def wcase_s (rb : Bool) (f : Nat → Nat) (src slen : Nat) (srcbos : Bos) : Prog Nat :=
  if slen = 0 then pure EOK
  else if src = 0 then failS ESNULLP
  else if slen > RSIZE_MAX_WSTR then failS ESLEMAX
  else
    let body : Prog Nat := do
      wcaseLoop rb f slen src
      pure EOK
    match srcbos with
    | none => body
    | some bos => if slen * SIZEOF_WCHAR_T > bos then failS EOVERFLOW else body

/-- `_wcslwr_s_chk(src, slen, srcbos)` -/
def wcslwr_s (cfg : Cfg) (src slen : Nat) (srcbos : Bos) : Prog Nat := wcase_s (!cfg.fixWcaseOrder) towlowerLibc src slen srcbos

/-- `_wcsupr_s_chk(src, slen, srcbos)` -/
def wcsupr_s (cfg : Cfg) (src slen : Nat) (srcbos : Bos) : Prog Nat := wcase_s (!cfg.fixWcaseOrder) towupperLib src slen srcbos

end SafeC

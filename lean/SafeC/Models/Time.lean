import SafeC.Models.Os
/-!
# F9b: `asctime_s` (`src/os/asctime_s.c`) and `ctime_s` (`src/os/ctime_s.c`)

libc's rendering (`asctime_r` / `ctime_r`: 26 bytes `"Www Mmm dd hh:mm:ss yyyy\n\0"`) is an ARGUMENT of the model: the string at
`text`; the harness shim checks that it is what libc produces for the same `tm` / `*timer`.  `struct tm` is read as 32-bit
cells (`tm_sec, tm_min, tm_hour, tm_mday, tm_mon, tm_year, tm_wday, tm_yday, tm_isdst`, padding, `tm_gmtoff` as two cells);
`*timer` as one 64-bit cell.  Both functions share everything after their argument checks:

* `dmax >= 120`: libc writes straight into dest; the common tail then does `strcpy_s(dest, dmax, dest)` — the same-pointer
  shortcut of strcpy_s returns EOK without nulling the slack;
* `dmax < 120`: libc writes into a 120-byte automatic buffer, `strcpy_s(dest, dmax, tmp)` copies it out (`text` stands for `tmp`);
* `text = 0` or `libcFails` stand for libc returning NULL (glibc's `ctime_r` from the year 10000 on, local time): `-1`, dest
  cleared; with `libcFails` the region at `text` holds the 25 characters glibc had formatted into its buffer before it gave
  up — with `dmax >= 120` that buffer is dest, and a build without null-slack leaves them behind `dest[0] = 0`.

The model is of the tree after the three repairs of session 4 (1e08d27, 9266e31, 7fabd4f, 93525f5): every violation met with a usable
`dest`/`dmax` clears dest, and `ctime_s` rejects the year 10000 (253402300800) and later.
-/
namespace SafeC
open Gen

/-- a 32-bit cell as a signed `int` -/
def cellInt (v : Nat) : Int := if v % 2^32 < 2^31 then ((v % 2^32 : Nat) : Int) else ((v % 2^32 : Nat) : Int) - 2^32

/-- `long tm_gmtoff` from its two 32-bit cells (little endian) -/
def cellLong (lo hi : Nat) : Int :=
  let u : Nat := (lo % 2^32) + (hi % 2^32) * 2^32
  if u < 2^63 then (u : Int) else (u : Int) - 2^64

/-- a 64-bit cell as a signed `time_t` -/
def cellI64 (v : Nat) : Int := if v % 2^64 < 2^63 then ((v % 2^64 : Nat) : Int) else ((v % 2^64 : Nat) : Int) - 2^64

/-- short-circuit `a || b || …` over tm fields: `(cell index, predicate)`; reads the fields in the order of the C expression -/
def anyField (tm : Nat) : List (Nat × (Int → Bool)) → Prog Bool
  | [] => pure false
  | (i, p) :: rest => do
    let v ← load (tm + i)
    if p (cellInt v) then pure true else anyField tm rest

/-- libc storing its text (terminator included) at `d`: ascending byte stores -/
def copyText : Nat → Nat → Nat → Prog Unit
  | 0, _, _ => pure ()
  | fuel+1, text, d => do
    let c ← load text
    store d c
    if c = 0 then pure () else copyText fuel (text+1) (d+1)

/-- everything after the argument checks -/
def timeTail (cfg : Cfg) (dest dmax : Nat) (destbos : Bos) (text : Nat) (libcFails : Bool := false) : Prog Nat :=
  let nospc : Prog Nat := do handlerS ESNOSPC; pure ESNOSPC
  if text = 0 ∨ libcFails then do                  -- libc returned NULL (glibc: the text would not fit its 26 bytes)
    -- glibc formats with snprintf(buf, 26, …) before it gives up: 25 characters and a NUL are in buf (= dest when dmax >= 120)
    (if text ≠ 0 ∧ dmax ≥ 120 then copyText 120 text dest else pure ())
    (if cfg.slack then memsetP 0 dmax dest else store dest 0); pure NEG1
  else if dmax ≥ 120 then do
    copyText 120 text dest                         -- asctime_r(tm, dest) / ctime_r(timer, dest)
    let len ← strlenP scanFuel dest 0
    if len < dmax then do let _ ← strcpy_s cfg dest dmax dest destbos; pure EOK   -- _strcpy_s_chk(dest, dmax, buf, destbos)
    else nospc
  else do
    let len ← strlenP scanFuel text 0              -- strlen(tmp)
    if len < dmax then do let _ ← strcpy_s cfg dest dmax text none; pure EOK
    else nospc

/-- the entry checks the two functions share: dest, `dmax < 26`, limit / object size -/
def timeEntry (dest dmax : Nat) (destbos : Bos) (k : Prog Nat) : Prog Nat :=
  if dest = 0 then failS ESNULLP
  else if dmax < 26 then do
    (if dmax > 0 then store dest 0 else pure ())
    failS ESLEMIN
  else match destbos with
    | none => if dmax > RSIZE_MAX_STR then failS ESLEMAX else k
    | some b =>
      if dmax > b then (if dmax > RSIZE_MAX_STR then failS ESLEMAX else failS EOVERFLOW)
      else if b < 26 then failS ESLEMIN
      else k

/-- `handle_error(dest, dmax, msg, code); return code;` -/
def failClr (cfg : Cfg) (dest dmax code : Nat) : Prog Nat := do handleError cfg dest dmax code; pure code

/-- `_asctime_s_chk(dest, dmax, tm, destbos)` -/
def asctime_s (cfg : Cfg) (dest dmax tm : Nat) (destbos : Bos) (text : Nat) : Prog Nat :=
  timeEntry dest dmax destbos <|
    if tm = 0 then failClr cfg dest dmax ESNULLP
    else do
      -- tm_year < 0 || tm_mon < 0 || tm_yday < 0 || tm_mday < 1 || tm_wday < 0 || tm_hour < 0 || tm_min < 0 || tm_sec < 0 || tm_isdst < 0
      let small ← anyField tm [(5, (· < 0)), (4, (· < 0)), (7, (· < 0)), (3, (· < 1)), (6, (· < 0)), (2, (· < 0)), (1, (· < 0)),
                               (0, (· < 0)), (8, (· < 0))]
      let small ← (if small then pure true else do
        let lo ← load (tm + 10); let hi ← load (tm + 11)
        pure (decide (cellLong lo hi < -1036800)) : Prog Bool)
      if small then failClr cfg dest dmax ESLEMIN
      else do
        -- tm_year > 8099 || tm_mon > 11 || tm_yday > 365 || tm_mday > 31 || tm_wday > 6 || tm_hour > 23 || tm_min > 59 || tm_sec > 60 || tm_isdst > 1
        let big ← anyField tm [(5, (· > 8099)), (4, (· > 11)), (7, (· > 365)), (3, (· > 31)), (6, (· > 6)), (2, (· > 23)), (1, (· > 59)),
                               (0, (· > 60)), (8, (· > 1))]
        let big ← (if big then pure true else do
          let lo ← load (tm + 10); let hi ← load (tm + 11)
          pure (decide (cellLong lo hi > 1036800)) : Prog Bool)
        if big then failClr cfg dest dmax ESLEMAX
        else timeTail cfg dest dmax destbos text

/-- 01.01.10000 00:00 UTC for a 64-bit `time_t` (src/os/ctime_s.c); `MAX_TIME_T_STR` (313360441200) is the year 11900 -/
def MAX_CTIME_T : Int := 253402300800

/-- `_ctime_s_chk(dest, dmax, timer, destbos)`; `*timer` is one 64-bit cell -/
def ctime_s (cfg : Cfg) (dest dmax timer : Nat) (destbos : Bos) (text : Nat) (libcFails : Bool := false) : Prog Nat :=
  timeEntry dest dmax destbos <|
    if timer = 0 then failClr cfg dest dmax ESNULLP
    else do
      let t ← load timer
      let tv : Int := cellI64 t
      if tv < 0 then failClr cfg dest dmax ESLEMIN
      else do
        let t2 ← load timer
        let tv2 : Int := cellI64 t2
        if tv2 ≥ MAX_CTIME_T then failClr cfg dest dmax ESLEMAX
        else timeTail cfg dest dmax destbos text libcFails

/-! ## gmtime_s / localtime_s (`src/os/gmtime_s.c`, `src/os/localtime_s.c`: the same code around `gmtime_r` / `localtime_r`)

libc's broken-down time is an ARGUMENT (`res`: the 14 32-bit cells of a `struct tm`, checked by the harness shim against
`gmtime_r` / `localtime_r`); `tm_zone` (cells 12, 13: an address inside libc) is stored as 0 (the shim clears it in dest).
Returned: EOK when the C returns dest, otherwise the value of `errno` — NOTE that for an out-of-range `*timer` the handler is
told ESLEMIN / ESLEMAX while `errno` is set to EOVERFLOW. -/

/-- `MAX_TIME_T_STR` (src/safeclib_private.h): the epoch of `tm_year` 10000 -/
def MAX_TIME_T_STR : Int := 313360441200

def copyTm : Nat → Nat → Nat → Nat → Prog Unit
  | 0, _, _, _ => pure ()
  | k+1, i, res, dest => do
    let v ← load (res + i)
    (if i = 9 then pure () else store (dest + i) (if i ≥ 12 then 0 else v))   -- cell 9 is padding: libc assigns the members only
    copyTm k (i+1) res dest

def tmConv (timer dest res : Nat) : Prog Nat :=
  if dest = 0 then failS ESNULLP
  else if timer = 0 then failS ESNULLP
  else do
    let t ← load timer
    if cellI64 t < 0 then do handlerS ESLEMIN; pure EOVERFLOW
    else do
      let t2 ← load timer
      if cellI64 t2 ≥ MAX_TIME_T_STR then do handlerS ESLEMAX; pure EOVERFLOW
      else if res = 0 then pure NEG1                     -- libc could not convert (not reachable below the year 11900)
      else do copyTm 14 0 res dest; pure EOK

def gmtime_s := tmConv
def localtime_s := tmConv

end SafeC

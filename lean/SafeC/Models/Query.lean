import SafeC.Common
/-!
# F3: the read-only comparison and search functions (narrow)

`src/extstr/{strcmp_s,strcasecmp_s,strcmpfld_s,strstr_s,strcasestr_s,strchr_s,strrchr_s,strpbrk_s,
strspn_s,strcspn_s,strprefix_s}.c`, `src/extmem/{memcmp_s,memcmp16_s,memcmp32_s,memchr_s,memrchr_s}.c`.

One model per entry point, in the order of the C text: same checks in the same sequence, same
loop tests in the same (short-circuit) order, the same libc calls.  What the C does wrong is
reproduced, not repaired:

* `while (*dest && … && dmax)` reads the cell **before** testing the counter (all the string
  loops), and the statement after the loop (`*resultp = *dest - *src`) reads once more;
* `strcmp_s` / `strcmpfld_s` subtract plain (signed) `char`s;
* `strchr_s` calls unbounded `strchr` and accepts a hit at index `dmax` (`>` instead of `>=`);
* `strstr_s` calls unbounded `strlen` on both operands when `slen > dmax`; the inner loops of
  `strstr_s` / `strcasestr_s` read `src[i]` before testing the remaining `len`;
* `strcasestr_s` invokes the handler with ESNOTFND for `slen > dmax`, ESLEMAX for `slen > srcbos`;
* `strpbrk_s` compares before testing `len` and gives up (ESNOTFND) when `len` runs out; it
  **clears dest** through `handle_str_bos_overflow` when `slen > srcbos`;
* `strcspn_s` reports `slen > srcbos` through the *mem* handler; `memchr_s` / `memrchr_s` report
  `ch > 255` through the *str* handler;
* `strprefix_s` returns EOK when `dmax` runs out before the prefix does;
* `memcmp16_s` compares the byte count with the element limit; `memcmp32_s` keeps the byte counts
  in `uint32_t` and subtracts `uint32_t`s into an `int`.

Every model returns the errno value and the final value of the out-parameter.
-/
namespace SafeC
open Gen

/-- an `int` argument as it arrives through the harness (`unsigned long` converted to `int`) -/
def toInt32 (n : Nat) : Int :=
  let m : Nat := n % 2^32
  if m < 2^31 then Int.ofNat m else Int.ofNat m - 2^32

/-- `(char)ch` / `(unsigned char)ch` as a cell value -/
def chCell (ch : Int) : Nat := (ch % 256).toNat

/-- more cells than any window has mapped: fuel of the unbounded libc scans (they fault first) -/
def scanFuel : Nat := 6 * 4096 * 4

/-! ## libc -/

/-- `strlen(s)`: ascending reads up to the first NUL -/
def strlenP : Nat → Nat → Nat → Prog Nat
  | 0, _, n => pure n
  | fuel+1, s, n => do
    let c ← load s
    if c = 0 then pure n else strlenP fuel (s+1) (n+1)

/-- `strchr(s, c)`: ascending reads up to the first `c` or NUL; 0 = NULL -/
def strchrP (c : Nat) : Nat → Nat → Prog Nat
  | 0, _ => pure 0
  | fuel+1, s => do
    let v ← load s
    if v = c then pure s
    else if v = 0 then pure 0
    else strchrP c fuel (s+1)

/-- `memchr(s, c, n)`: ascending reads, stops at the first hit -/
def memchrP (c : Nat) : Nat → Nat → Prog Nat
  | 0, _ => pure 0
  | n+1, s => do
    let v ← load s
    if v = c then pure s else memchrP c n (s+1)

/-- `memrchr(s, c, n)`: descending reads from `s[n-1]` -/
def memrchrP (c s : Nat) : Nat → Prog Nat
  | 0 => pure 0
  | n+1 => do
    let v ← load (s+n)
    if v = c then pure (s+n) else memrchrP c s n

/-! ## shared entry checks -/

def qFailS (code : Nat) : Prog (Option Nat) := do handlerS code; pure (some code)
def qFailM (code : Nat) : Prog (Option Nat) := do handlerM code; pure (some code)

/-- `CHK_DEST_NULL; [CHK_SRC_NULL(src);] CHK_DMAX_ZERO;
    if (destbos == BOS_UNKNOWN) CHK_DMAX_MAX(RSIZE_MAX_STR) else CHK_DEST_OVR(destbos)` -/
def qChkS (dest dmax : Nat) (destbos : Bos) (src : Option Nat) : Prog (Option Nat) :=
  if dest = 0 then qFailS ESNULLP
  else if src = some 0 then qFailS ESNULLP
  else if dmax = 0 then qFailS ESZEROL
  else match destbos with
    | none => if dmax > RSIZE_MAX_STR then qFailS ESLEMAX else pure none
    | some bos =>
      if dmax > bos then
        if dmax > RSIZE_MAX_STR then qFailS ESLEMAX else qFailS EOVERFLOW
      else pure none

/-- `CHK_DEST_MEM_NULL; CHK_DMAX_MEM_ZERO; CHK_DMAX_MEM_MAX / CHK_DEST_MEM_OVR` -/
def qChkM (dest dmax : Nat) (destbos : Bos) : Prog (Option Nat) :=
  if dest = 0 then qFailM ESNULLP
  else if dmax = 0 then qFailM ESZEROL
  else match destbos with
    | none => if dmax > RSIZE_MAX_MEM then qFailM ESLEMAX else pure none
    | some bos =>
      if dmax > bos then
        if dmax > RSIZE_MAX_MEM then qFailM ESLEMAX else qFailM EOVERFLOW
      else pure none

/-- the `srcbos` block of `strstr_s` / `strspn_s`: ESLEMAX above the limit, EOVERFLOW above a known size -/
def qChkSlenS (slen : Nat) (srcbos : Bos) : Prog (Option Nat) :=
  match srcbos with
  | none => if slen > RSIZE_MAX_STR then qFailS ESLEMAX else pure none
  | some sb =>
    if slen > sb then
      if slen > RSIZE_MAX_STR then qFailS ESLEMAX else qFailS EOVERFLOW
    else pure none

/-! ## `strcmp_s` -/

/-- `*resultp = *dest - *src;` on plain `char` -/
def strcmpTail (dest src : Nat) : Prog (Nat × Int) := do
  let a ← load dest
  let b ← load src
  pure (EOK, schar a - schar b)

/-- `while (*dest && *src && dmax) { if (*dest != *src) break; dest++; src++; dmax--; slen++;
     if (slen >= srcbos) { handler(ESUNTERM); return ESUNTERM; } }` -/
def strcmpLoop (srcbos : Bos) : Nat → Nat → Nat → Nat → Prog (Nat × Int)
  | dmax, dest, src, slen => do
    let a ← load dest
    if a = 0 then strcmpTail dest src
    else do
      let b ← load src
      if b = 0 then strcmpTail dest src
      else match dmax with
        | 0 => strcmpTail dest src
        | dmax'+1 => do
          let a ← load dest
          let b ← load src
          if a ≠ b then strcmpTail dest src
          else
            let slen' := slen + 1
            if (match srcbos with | none => false | some sb => decide (slen' ≥ sb)) then do
              handlerS ESUNTERM
              pure (ESUNTERM, 0)
            else strcmpLoop srcbos dmax' (dest+1) (src+1) slen'

def strcmp_s (dest dmax src : Nat) (destbos srcbos : Bos) : Prog (Nat × Int) := do
  -- CHK_SRC_NULL(resultp): the harness always passes a slot; *resultp = 0
  match ← qChkS dest dmax destbos (some src) with
  | some e => pure (e, 0)
  | none => strcmpLoop srcbos dmax dest src 0

/-! ## `strcasecmp_s` -/

def strcasecmpTail (dest src : Nat) : Prog (Nat × Int) := do
  let a ← load dest
  let b ← load src
  pure (EOK, (toUpperC a : Int) - (toUpperC b : Int))

/-- `while (*udest && *usrc && dmax) { result = toupper(*udest) - toupper(*usrc);
     if (result) { *resultp = result; return EOK; } udest++; usrc++; dmax--; }` -/
def strcasecmpLoop : Nat → Nat → Nat → Prog (Nat × Int)
  | dmax, dest, src => do
    let a ← load dest
    if a = 0 then strcasecmpTail dest src
    else do
      let b ← load src
      if b = 0 then strcasecmpTail dest src
      else match dmax with
        | 0 => strcasecmpTail dest src
        | dmax'+1 => do
          let a ← load dest
          let b ← load src
          let result : Int := (toUpperC a : Int) - (toUpperC b : Int)
          if result ≠ 0 then pure (EOK, result)
          else strcasecmpLoop dmax' (dest+1) (src+1)

def strcasecmp_s (dest dmax src : Nat) (destbos : Bos) : Prog (Nat × Int) := do
  match ← qChkS dest dmax destbos (some src) with
  | some e => pure (e, 0)
  | none => strcasecmpLoop dmax dest src

/-! ## `strcmpfld_s` -/

/-- `while (dmax) { if (*dest != *src) break; dest++; src++; dmax--; }  *resultp = *dest - *src;` -/
def strcmpfldLoop : Nat → Nat → Nat → Prog (Nat × Int)
  | 0, dest, src => strcmpTail dest src
  | dmax+1, dest, src => do
    let a ← load dest
    let b ← load src
    if a ≠ b then strcmpTail dest src
    else strcmpfldLoop dmax (dest+1) (src+1)

def strcmpfld_s (dest dmax src : Nat) (destbos : Bos) : Prog (Nat × Int) := do
  match ← qChkS dest dmax destbos (some src) with
  | some e => pure (e, 0)
  | none => strcmpfldLoop dmax dest src

/-! ## `strstr_s` -/

/-- inner `while (src[i] && dlen) { if (dest[i] != src[i]) break; i++; len--; dlen--;
     if (src[i] == '\0' || !len) { found } }`; `true` = found -/
def strstrInner (dest src : Nat) : Nat → Nat → Nat → Prog Bool
  | dlen, i, len => do
    let s ← load (src+i)
    if s = 0 then pure false
    else match dlen with
      | 0 => pure false
      | dlen'+1 => do
        let d ← load (dest+i)
        let s ← load (src+i)
        if d ≠ s then pure false
        else do
          let s2 ← load (src+i+1)
          if s2 = 0 ∨ len - 1 = 0 then pure true
          else strstrInner dest src dlen' (i+1) (len-1)

/-- outer `while (*dest && dmax) { …; dest++; dmax--; }` -/
def strstrOuter (src slen : Nat) : Nat → Nat → Prog (Nat × Nat)
  | dmax, dest => do
    let d ← load dest
    if d = 0 then pure (ESNOTFND, 0)
    else match dmax with
      | 0 => pure (ESNOTFND, 0)
      | dmax'+1 => do
        if ← strstrInner dest src (dmax'+1) 0 slen then pure (EOK, dest)
        else strstrOuter src slen dmax' (dest+1)

def strstr_s (dest dmax src slen : Nat) (destbos srcbos : Bos) : Prog (Nat × Nat) := do
  match ← qChkS dest dmax destbos (some src) with
  | some e => pure (e, 0)
  | none =>
  match ← qChkSlenS slen srcbos with
  | some e => pure (e, 0)
  | none => do
    -- if (slen > dmax) { len = strlen(src); dlen = strlen(dest); if (len > dmax || len > dlen) return ESNOTFND; }
    let early ← (if slen > dmax then do
        let len ← strlenP scanFuel src 0
        let dlen ← strlenP scanFuel dest 0
        pure (decide (len > dmax ∨ len > dlen))
      else pure false : Prog Bool)
    if early then pure (ESNOTFND, 0)
    else do
      let s0 ← load src
      if s0 = 0 ∨ dest = src then pure (EOK, dest)
      else if slen = 0 then do handlerS ESZEROL; pure (ESZEROL, 0)
      else strstrOuter src slen dmax dest

/-! ## `strcasestr_s` -/

/-- inner `while (dest[i] && dlen) { if (toupper(dest[i]) != toupper(src[i])) break; i++; len--; dlen--;
     if (src[i] == '\0' || !len) { found } }` -/
def strcasestrInner (dest src : Nat) : Nat → Nat → Nat → Prog Bool
  | dlen, i, len => do
    let d ← load (dest+i)
    if d = 0 then pure false
    else match dlen with
      | 0 => pure false
      | dlen'+1 => do
        let d ← load (dest+i)
        let s ← load (src+i)
        if toUpperC d ≠ toUpperC s then pure false
        else do
          let s2 ← load (src+i+1)
          if s2 = 0 ∨ len - 1 = 0 then pure true
          else strcasestrInner dest src dlen' (i+1) (len-1)

def strcasestrOuter (src slen : Nat) : Nat → Nat → Prog (Nat × Nat)
  | dmax, dest => do
    let d ← load dest
    if d = 0 then pure (ESNOTFND, 0)
    else match dmax with
      | 0 => pure (ESNOTFND, 0)
      | dmax'+1 => do
        if ← strcasestrInner dest src (dmax'+1) 0 slen then pure (EOK, dest)
        else strcasestrOuter src slen dmax' (dest+1)

def strcasestr_s (dest dmax src slen : Nat) (destbos srcbos : Bos) : Prog (Nat × Nat) := do
  match ← qChkS dest dmax destbos (some src) with
  | some e => pure (e, 0)
  | none =>
    if slen > dmax then do
      let rc := if slen > RSIZE_MAX_STR then ESLEMAX else ESNOTFND
      handlerS rc
      pure (rc, 0)
    else if (match srcbos with | none => false | some sb => decide (slen > sb)) then do
      handlerS ESLEMAX
      pure (ESLEMAX, 0)
    else if slen = 0 then do handlerS ESZEROL; pure (ESZEROL, 0)
    else do
      let s0 ← load src
      if s0 = 0 ∨ dest = src then pure (EOK, dest)
      else strcasestrOuter src slen dmax dest

/-! ## `strchr_s` -/

def strchr_s (dest dmax : Nat) (ch : Int) (destbos : Bos) : Prog (Nat × Nat) := do
  match ← qChkS dest dmax destbos none with
  | some e => pure (e, 0)
  | none =>
    if ch > 255 then do handlerS ESLEMAX; pure (ESLEMAX, 0)
    else do
      let r ← strchrP (chCell ch) scanFuel dest
      if r = 0 then pure (ESNOTFND, 0)
      else if r - dest > dmax then pure (ESNOTFND, 0)
      else pure (EOK, r)

/-! ## `memrchr_s`, `memchr_s` -/

def memrchr_s (dest dmax : Nat) (ch : Int) (destbos : Bos) : Prog (Nat × Nat) := do
  match ← qChkM dest dmax destbos with
  | some e => pure (e, 0)
  | none =>
    if ch > 255 then do handlerS ESLEMAX; pure (ESLEMAX, 0)
    else do
      let r ← memrchrP (chCell ch) dest dmax
      if r = 0 then pure (ESNOTFND, 0) else pure (EOK, r)

def memchr_s (dest dmax : Nat) (ch : Int) (destbos : Bos) : Prog (Nat × Nat) := do
  match ← qChkM dest dmax destbos with
  | some e => pure (e, 0)
  | none =>
    if ch > 255 then do handlerS ESLEMAX; pure (ESLEMAX, 0)
    else do
      let r ← memchrP (chCell ch) dmax dest
      if r = 0 then pure (ESNOTFND, 0) else pure (EOK, r)

/-! ## `strrchr_s` -/

def strrchr_s (dest dmax : Nat) (ch : Int) (destbos : Bos) : Prog (Nat × Nat) := do
  -- `else if (dmax > destbos) { CHK_DEST_OVR }` is CHK_DEST_OVR
  match ← qChkS dest dmax destbos none with
  | some e => pure (e, 0)
  | none =>
    -- `else { CHK_DEST_OVR; CHK_DMAX_MAX(RSIZE_MAX_STR) }` (fix: commit): a known object above the limit is rejected
    -- here, with the code the handler gets, instead of by the inner strnlen_s with another one
    if dmax > RSIZE_MAX_STR then do handlerS ESLEMAX; pure (ESLEMAX, 0)
    else if ch > 255 then do handlerS ESLEMAX; pure (ESLEMAX, 0)
    else do
      let len ← strnlen_s dest dmax none
      if len ≠ 0 then memrchr_s dest (if dmax = len then dmax else len + 1) ch none
      else pure (ESZEROL, 0)

/-! ## `strpbrk_s` -/

/-- inner `while (*ps) { if (*dest == *ps) found; if (!len) return ESNOTFND; ps++; len--; }`:
`some true` found, `some false` the ESNOTFND return, `none` fell out of the loop -/
def strpbrkInner (dest : Nat) : Nat → Nat → Prog (Option Bool)
  | len, ps => do
    let p ← load ps
    if p = 0 then pure none
    else do
      let d ← load dest
      let p ← load ps
      if d = p then pure (some true)
      else match len with
        | 0 => pure (some false)
        | len'+1 => strpbrkInner dest len' (ps+1)

def strpbrkOuter (src slen : Nat) : Nat → Nat → Prog (Nat × Nat)
  | dmax, dest => do
    let d ← load dest
    if d = 0 then pure (ESNOTFND, 0)
    else match dmax with
      | 0 => pure (ESNOTFND, 0)
      | dmax'+1 => do
        match ← strpbrkInner dest slen src with
        | some true => pure (EOK, dest)
        | some false => pure (ESNOTFND, 0)
        | none => strpbrkOuter src slen dmax' (dest+1)

def strpbrk_s (cfg : Cfg) (dest dmax src slen : Nat) (destbos srcbos : Bos) : Prog (Nat × Nat) := do
  match ← qChkS dest dmax destbos (some src) with
  | some e => pure (e, 0)
  | none =>
    let rest : Prog (Nat × Nat) :=
      if slen = 0 then do handlerS ESZEROL; pure (ESZEROL, 0)
      else strpbrkOuter src slen dmax dest
    match srcbos with
    | none => if slen > RSIZE_MAX_STR then do handlerS ESLEMAX; pure (ESLEMAX, 0) else rest
    | some sb =>
      if slen > sb then do
        -- return handle_str_bos_overflow("…", dest, destbos): clears dest
        let c ← handleStrBosOverflow cfg dest (destbos.getD (2^64 - 1))
        pure (c, 0)
      else rest

/-! ## `strspn_s`, `strcspn_s` -/

/-- inner `while (*scan2 && smax) { if (*dest == *scan2) match; scan2++; smax--; }` -/
def spanInner (dest : Nat) : Nat → Nat → Prog Bool
  | smax, scan2 => do
    let p ← load scan2
    if p = 0 then pure false
    else match smax with
      | 0 => pure false
      | smax'+1 => do
        let d ← load dest
        let p ← load scan2
        if d = p then pure true else spanInner dest smax' (scan2+1)

/-- `want = true`: strspn (count while the character is in the set); `false`: strcspn -/
def spanOuter (want : Bool) (src slen : Nat) : Nat → Nat → Nat → Prog Nat
  | dmax, dest, count => do
    let d ← load dest
    if d = 0 then pure count
    else match dmax with
      | 0 => pure count
      | dmax'+1 => do
        let hit ← spanInner dest slen src
        if hit = want then spanOuter want src slen dmax' (dest+1) (count+1)
        else pure count

def strspn_s (dest dmax src slen : Nat) (destbos srcbos : Bos) : Prog (Nat × Nat) := do
  match ← qChkS dest dmax destbos (some src) with
  | some e => pure (e, 0)
  | none =>
  match ← qChkSlenS slen srcbos with
  | some e => pure (e, 0)
  | none =>
    if slen = 0 then do handlerS ESZEROL; pure (ESZEROL, 0)
    else do
      let n ← spanOuter true src slen dmax dest 0
      pure (EOK, n)

def strcspn_s (dest dmax src slen : Nat) (destbos srcbos : Bos) : Prog (Nat × Nat) := do
  match ← qChkS dest dmax destbos (some src) with
  | some e => pure (e, 0)
  | none =>
    if slen = 0 then do handlerS ESZEROL; pure (ESZEROL, 0)
    else if slen > RSIZE_MAX_STR then do handlerS ESLEMAX; pure (ESLEMAX, 0)
    else if (match srcbos with | none => false | some sb => decide (slen > sb)) then do
      handlerM EOVERFLOW            -- invoke_safe_mem_constraint_handler in a string function
      pure (EOVERFLOW, 0)
    else do
      let n ← spanOuter false src slen dmax dest 0
      pure (EOK, n)

/-! ## `strprefix_s` -/

/-- `while (*src && dmax) { if (*dest != *src) return ESNOTFND; dmax--; dest++; src++; } return EOK;` -/
def strprefixLoop : Nat → Nat → Nat → Prog Nat
  | dmax, dest, src => do
    let s ← load src
    if s = 0 then pure EOK
    else match dmax with
      | 0 => pure EOK
      | dmax'+1 => do
        let d ← load dest
        let s ← load src
        if d ≠ s then pure ESNOTFND
        else strprefixLoop dmax' (dest+1) (src+1)

def strprefix_s (dest dmax src : Nat) (destbos : Bos) : Prog Nat := do
  match ← qChkS dest dmax destbos (some src) with
  | some e => pure e
  | none => do
    let s0 ← load src
    if s0 = 0 then pure ESNOTFND
    else strprefixLoop dmax dest src

/-! ## `memcmp_s`, `memcmp16_s`, `memcmp32_s` -/

/-- the compare loop `while (dmax > 0 && slen > 0) { if (*dp != *sp) { *diff = f(*dp, *sp); break; } … }` -/
def memcmpLoopQ (f : Nat → Nat → Int) : Nat → Nat → Nat → Nat → Prog Int
  | 0, _, _, _ => pure 0
  | _+1, 0, _, _ => pure 0
  | dmax+1, slen+1, dp, sp => do
    let a ← load dp
    let b ← load sp
    if a ≠ b then pure (f a b)
    else memcmpLoopQ f dmax slen (dp+1) (sp+1)

/-- the `destbos` / `slen == 0` / `srcbos` / `slen > dmax` blocks shared by the three functions.
`dB`, `sB`: the values compared with a known object size (bytes, as the C computes them);
`dL`: the value compared with the limit when the size is unknown, `dL'` when it is known. -/
def memcmpChecks (max : Nat) (dlen slen dB sB dL dL' : Nat) (destbos srcbos : Bos) : Prog (Option Nat) := do
  match ← (match destbos with
      | none => if dL > max then qFailM ESLEMAX else pure none
      | some bos =>
        if dB > bos then
          if dL' > max then qFailM ESLEMAX else qFailM EOVERFLOW
        else pure none : Prog (Option Nat)) with
  | some e => pure (some e)
  | none =>
    if slen = 0 then qFailM ESZEROL
    else do
      match ← (match srcbos with
          | none => if slen > max then qFailM ESLEMAX else pure none
          | some sb =>
            if sB > sb then
              if slen > max then qFailM ESLEMAX else qFailM EOVERFLOW
            else pure none : Prog (Option Nat)) with
      | some e => pure (some e)
      | none => if slen > dlen then qFailM ESNOSPC else pure none

def memcmpG (max : Nat) (f : Nat → Nat → Int) (dest dlen src slen dB sB dL dL' : Nat)
    (destbos srcbos : Bos) : Prog (Nat × Int) :=
  -- diff != NULL (the harness always passes a slot); *diff = -1
  if dest = 0 then do handlerM ESNULLP; pure (ESNULLP, -1)
  else if src = 0 then do handlerM ESNULLP; pure (ESNULLP, -1)
  else if dlen = 0 then do handlerM ESZEROL; pure (ESZEROL, -1)
  else do
    match ← memcmpChecks max dlen slen dB sB dL dL' destbos srcbos with
    | some e => pure (e, -1)
    | none =>
      if dest = src then pure (EOK, 0)
      else do
        let d ← memcmpLoopQ f dlen slen dest src
        pure (EOK, d)

/-- `*diff = *dp < *sp ? -1 : 1` -/
def memcmp_s (dest dmax src slen : Nat) (destbos srcbos : Bos) : Prog (Nat × Int) :=
  memcmpG RSIZE_MAX_MEM (fun a b => if a < b then -1 else 1) dest dmax src slen dmax slen dmax dmax destbos srcbos

/-- `dmax = dlen * 2` (bytes) is what is compared with RSIZE_MAX_MEM16 (elements);
`*diff = *dest - *src` on promoted `uint16_t` -/
def memcmp16_s (dest dlen src slen : Nat) (destbos srcbos : Bos) : Prog (Nat × Int) :=
  let dmax := (dlen * 2) % 2^64
  let smax := (slen * 2) % 2^64
  memcmpG RSIZE_MAX_MEM16 (fun a b => (a : Int) - (b : Int)) dest dlen src slen dmax smax dmax dmax destbos srcbos

/-- `uint32_t smax = slen * 4, dmax = dlen * 4`; `*diff = *dest - *src` is `uint32_t` arithmetic
converted to `int` -/
def memcmp32_s (dest dlen src slen : Nat) (destbos srcbos : Bos) : Prog (Nat × Int) :=
  let dmax := (dlen * 4) % 2^32
  let smax := (slen * 4) % 2^32
  memcmpG RSIZE_MAX_MEM32 (fun a b => toInt32 (a + 2^32 - b)) dest dlen src slen dmax smax dlen dlen destbos srcbos

end SafeC

import SafeC.Models.Norm
import SafeC.Gen.UniFold
/-!
# C17 — model of src/extwchar/towfc_s.c (`iswfc`, `_towfc_single`, `_towfc_s_chk`), `_towcase(wc, 1)` of towctrans.c and
`_wcsfc_s_chk` of wcsfc_s.c (locale neither Turkish/Azeri nor Lithuanian).

The hard-coded code points of `iswfc` / `_towfc_single` are written out as in the C; `tbl2`, `tbl3`, `casemaps`,
`casemapsl`, `pairs` come from the tree (tools/gen17.py), libc's `iswupper`, `iswspace`, `tolower` from the running glibc in
the locale the harness uses (C.UTF-8) — libc is trusted base, not modelled.
-/
namespace SafeC.Fold
open SafeC.Gen SafeC.Norm

/-- glibc `iswupper` (generated, paged bitmap) -/
def iswupper (wc : Nat) : Bool :=
  if wc < 0x110000 then
    let p := cell 16 UniFold.upIdx (wc / 256)
    if p = 0 then false else cell 1 UniFold.upPages ((p - 1) * 256 + wc % 256) == 1
  else false

/-- glibc `iswspace` (generated ranges) -/
def spaceRanges : List (Nat × Nat) :=
  (List.range UniFold.spaceN).map fun k => (cell 32 UniFold.space (2 * k), cell 32 UniFold.space (2 * k + 1))

def iswspace (wc : Nat) : Bool := spaceRanges.any fun r => r.1 ≤ wc && wc ≤ r.2

/-- `iswfc` -/
def iswfc (wc : Nat) : Nat :=
  let single := if iswupper wc then 1 else 0
  if wc < 0xdf ∨ (wc > 0x0587 ∧ wc < 0x1e96) ∨ (wc > 0x1FFC ∧ wc < 0xFB00) ∨ wc > 0xFB17 then
    if wc = 0x1cbb ∨ wc = 0x1cbc then 0 else single
  else if wc < 0x1e96 then
    if wc = 0xdf ∨ wc = 0x130 ∨ wc = 0x149 ∨ wc = 0x1f0 ∨ wc = 0x587 then 2
    else if wc = 0x390 ∨ wc = 0x3b0 then 3
    else single
  else if wc ≤ 0x1e9a ∨ wc = 0x1e9e ∨ wc = 0x1f50 then 2
  else if wc < 0x1f50 then single
  else if wc = 0x1f52 ∨ wc = 0x1f54 ∨ wc = 0x1f56 then 3
  else if wc < 0x1f80 then single
  else if wc ≤ 0x1faf ∨ (wc ≥ 0x1fb2 ∧ wc < 0x1fb6) then
    if wc = 0x1fb5 then single else 2
  else if wc = 0x1fb7 ∨ wc = 0x1fc7 ∨ wc = 0x1fd2 ∨ wc = 0x1fd3 ∨ wc = 0x1fd7 ∨ wc = 0x1fe2 ∨ wc = 0x1fe3 ∨ wc = 0x1fe7 ∨ wc = 0x1ff7 then 3
  else if wc = 0x1fb5 then single
  else if wc = 0x1fc5 then single
  else if wc = 0x1fb6 ∨ wc = 0x1fbc ∨ (wc ≥ 0x1fc2 ∧ wc ≤ 0x1fc6) ∨ wc = 0x1fcc ∨ wc = 0x1fd6 ∨ wc = 0x1fe4 ∨ wc = 0x1fe6 ∨
      (wc ≥ 0x1ff2 ∧ wc ≤ 0x1ff4) ∨ wc = 0x1ff6 ∨ wc = 0x1ffc then 2
  else if wc < 0xfb00 ∨ wc > 0xfb17 ∨ (wc > 0xfb06 ∧ wc < 0xfb13) then single
  else if wc = 0xfb03 ∨ wc = 0xfb04 then 3
  else 2

/-- two's complement decoding of a `w`-bit cell -/
def addSigned (w : Nat) (x v : Nat) : Nat := if v < 2 ^ (w - 1) then x + v else x + v - 2 ^ w

/-- `casemaps[]` before its terminator: (upper, lower as an 8-bit two's complement cell, len) -/
def casemapsL : List (Nat × Nat × Nat) :=
  (List.range UniFold.casemapsN).map fun i =>
    (cell 16 UniFold.casemaps (3 * i), cell 16 UniFold.casemaps (3 * i + 1), cell 16 UniFold.casemaps (3 * i + 2))

/-- `pairs[]`: (upper, lower) -/
def pairsL : List (Nat × Nat) :=
  (List.range UniFold.pairsN).map fun i => (cell 16 UniFold.pairs (2 * i), cell 16 UniFold.pairs (2 * i + 1))

/-- `casemapsl[]`: (upper, lower as a 32-bit two's complement cell, len, `casemaps[i].upper` — what its `break` tests, sic) -/
def casemapslL : List (Nat × Nat × Nat × Nat) :=
  (List.range UniFold.casemapslN).map fun i =>
    (cell 32 UniFold.casemapsl (3 * i), cell 32 UniFold.casemapsl (3 * i + 1), cell 32 UniFold.casemapsl (3 * i + 2),
     if i < UniFold.casemapsN then cell 16 UniFold.casemaps (3 * i) else 0)

/-- first loop of `_towcase(wc, 1)`: `none` = fell through (or `break`) -/
def scanCasemaps (wc : Nat) : List (Nat × Nat × Nat) → Option Nat
  | [] => none
  | (up, lo, len) :: rest =>
    if up ≤ wc ∧ wc - up < len then
      if lo = 1 then some (wc + 1 - (wc - up) % 2) else some (addSigned 8 wc lo)
    else if up > wc then none
    else scanCasemaps wc rest

/-- second loop: `pairs` -/
def scanPairs (wc : Nat) : List (Nat × Nat) → Option Nat
  | [] => none
  | (up, lo) :: rest =>
    if up = wc then some lo
    else if up > wc then none
    else scanPairs wc rest

/-- third loop: `casemapsl`; its `break` tests `casemaps[i].upper` -/
def scanCasemapsl (wc : Nat) : List (Nat × Nat × Nat × Nat) → Option Nat
  | [] => none
  | (up, lo, len, brk) :: rest =>
    if up ≤ wc ∧ wc - up < len then
      if lo = 1 then some (wc + 1 - (wc - up) % 2) else some (addSigned 32 wc lo)
    else if brk > wc then none
    else scanCasemapsl wc rest

/-- `_towcase(wc, 1)` -/
def towlowerC (wc : Nat) : Nat :=
  if wc < 0x41 ∨ (0x600 ≤ wc ∧ wc ≤ 0xfff) ∨ (0x2e00 ≤ wc ∧ wc ≤ 0xa63f) ∨ (0xa800 ≤ wc ∧ wc ≤ 0xab69) ∨ (0xabc0 ≤ wc ∧ wc ≤ 0xfeff) then wc
  else if 0x10a0 ≤ wc ∧ wc - 0x10a0 < 0x2e then
    if wc > 0x10c5 ∧ wc ≠ 0x10c7 ∧ wc ≠ 0x10cd then wc else wc + 0x2d00 - 0x10a0
  else match scanCasemaps wc casemapsL with
    | some r => r
    | none => match scanPairs wc pairsL with
      | some r => r
      | none => match scanCasemapsl wc casemapslL with
        | some r => r
        | none => wc

def ESNOTFND_neg : Int := -(ESNOTFND : Int)

/-- `_towfc_single(dest, src)`: (return value, dest[0]) -/
def towfcSingle (src : Nat) : Int × Nat :=
  let single : Int × Nat :=
    let d := if src < 128 then cell 8 UniFold.tolower128 src else towlowerC src
    (if d % 2 ^ 32 = src then ESNOTFND_neg else 1, d)
  if src < 0xb5 then single
  else if src ≤ 0x3f5 then
    if src = 0xb5 then (0, 0x3bc) else if src = 0x17f then (0, 0x73) else if src = 0x345 then (0, 0x3b9)
    else if src = 0x3c2 then (0, 0x3c3) else if src = 0x3d0 then (0, 0x3b2) else if src = 0x3d1 then (0, 0x3b8)
    else if src = 0x3d5 then (0, 0x3c6) else if src = 0x3d6 then (0, 0x3c0) else if src = 0x3f0 then (0, 0x3ba)
    else if src = 0x3f1 then (0, 0x3c1) else if src = 0x3f5 then (0, 0x3b5) else single
  else if 0x13a0 ≤ src ∧ src ≤ 0x13f5 then (0, src)
  else if 0x13f8 ≤ src ∧ src ≤ 0x13fd then (0, src - 8)
  else if src ≤ 0x1c88 then
    if src < 0x1c80 then single
    else if src = 0x1c80 then (0, 0x432) else if src = 0x1c81 then (0, 0x434) else if src = 0x1c82 then (0, 0x43e)
    else if src = 0x1c83 then (0, 0x441) else if src = 0x1c84 then (0, 0x442) else if src = 0x1c85 then (0, 0x442)
    else if src = 0x1c86 then (0, 0x44a) else if src = 0x1c87 then (0, 0x463) else (0, 0xa64b)
  else if src ≤ 0x1fbe then
    if src < 0x1e9b then single
    else if src = 0x1e9b then (0, 0x1e61)
    else if src = 0x1fbe then (0, 0x3b9)
    else single
  else if 0xab70 ≤ src ∧ src ≤ 0xabbf then (0, src - (0xab70 - 0x13a0))
  else single

/-- `tbl2[]` before its terminator: (upper, [lower1, lower2]) -/
def tbl2L : List (Nat × List Nat) :=
  (List.range UniFold.tbl2N).map fun i =>
    (cell 16 UniFold.tbl2 (3 * i), [cell 16 UniFold.tbl2 (3 * i + 1), cell 16 UniFold.tbl2 (3 * i + 2)])

/-- `tbl3[]`: (upper, [lower1, lower2, lower3]) -/
def tbl3L : List (Nat × List Nat) :=
  (List.range UniFold.tbl3N).map fun i =>
    (cell 16 UniFold.tbl3 (4 * i), [cell 16 UniFold.tbl3 (4 * i + 1), cell 16 UniFold.tbl3 (4 * i + 2), cell 16 UniFold.tbl3 (4 * i + 3)])

/-- the `tbl2` / `tbl3` loops of `towfc_s` (sorted tables, early `break`) -/
def scanTbl (src : Nat) : List (Nat × List Nat) → Option (List Nat)
  | [] => none
  | (up, l) :: rest =>
    if up = src then some l
    else if up > src then none
    else scanTbl src rest

/-- the part of `_towfc_s_chk` behind the argument checks: (return value, cells of dest before the terminator) -/
def towfcCore (src : Nat) : Int × List Nat :=
  if src < 128 then
    let d := cell 8 UniFold.tolower128 src
    (if d = src then ESNOTFND_neg else 1, [d])
  else match scanTbl src tbl2L with
    | some l => (2, l)
    | none => match scanTbl src tbl3L with
      | some l => (3, l)
      | none => let r := towfcSingle src; (r.1, [r.2])

/-- `_towfc_s_chk(dest, dmax, src, BOS_UNKNOWN)`, dest non-null; `none` = dest untouched -/
def towfcS (dmax src : Nat) : Int × Option (List Nat) :=
  if dmax < 4 then (-(ESLEMIN : Int), none)
  else if dmax > RSIZE_MAX_WSTR then (-(ESLEMAX : Int), some [])
  else let r := towfcCore src; (r.1, some r.2)

/-- `strlen` of a cell list as C sees it (stops at a 0 cell) -/
def cstr (l : List Nat) : List Nat := l.takeWhile (· ≠ 0)

/-- the loop of `_wcsfc_s_chk` (neither `is_tr_az` nor `is_lithuanian`); second component of `fail`: was `*lenp` stored -/
def fcLoop (fx : Fixes) : List Nat → Nat → Step
  | [], dmax => .ok [] dmax
  | cp :: rest, dmax =>
    if cp = 0 then .ok [] dmax
    else if dmax = 0 then .ok [] 0
    else if fx.rangeChk && UniCompos.unicodeMax < cp then .fail ESLEMAX 0
    else
      let c := iswfc cp
      let continue_ (w : List Nat) : Step :=
        if dmax < w.length then .overrun
        else match fcLoop fx rest (dmax - w.length) with
          | .ok out d => .ok (w ++ out) d
          | r => r
      if c > 1 then
        -- repaired (`fx.foldRoom`): `if (unlikely(dmax < 5)) goto too_small;` at the top of the branch; as is: no test at all
        if fx.foldRoom && decide (dmax < 5) then .fail ESNOSPC 2
        else
        let t := towfcCore cp
        if t.1 < 0 then .fail t.1.natAbs 1        -- `return rc` (negative), no handler, dest not terminated
        else if 0x1f80 ≤ cp ∧ cp ≤ 0x1ff4 then
          -- decompose the first c cells of tmp
          -- (the `_UNICODE_MAX < cp1` test in the C is dead: tbl2/tbl3 cells are 16-bit)
          let parts := (t.2.take c).map fun cp1 =>
            match decompS 8 cp1 with
              | .seq [] => some [cp1]
              | .seq l => some l
              | _ => none
          if parts.any Option.isNone then .oob else continue_ (parts.filterMap id).flatten
        else continue_ (t.2.take c)
      else if c = 0 ∧ (cp = 0x1cbb ∨ cp = 0x1cbc ∨ cp = 0x1057B ∨ cp = 0x1058B ∨ cp = 0x10593) then continue_ [cp]
      else if cp = 0x3a3 then
        continue_ [if iswspace (rest.headD 0) then 0x3c2 else 0x3c3]
      else if dmax < 5 then .fail ESNOSPC 2       -- goto too_small: `*lenp` keeps its initial 0
      else
        let t := (towfcSingle cp).2 % 2 ^ 32
        if t ≥ 0xc0 ∧ t < 2 ^ 31 then               -- `tmp[0] >= 0xc0` on a signed 32-bit wchar_t
          match decompS dmax t with
          | .oob => .oob
          | .err _ => .overrun
          | .seq [] => continue_ [t]
          | .seq l => continue_ l
        else continue_ [t]

/-- `_wcsfc_s_chk(dest, dmax, src, &len, BOS_UNKNOWN)`, dest and src non-null -/
def wcsfcS (fx : Fixes) (dmax : Nat) (src : List Nat) : Res :=
  if dmax = 0 then ⟨ESZEROL, 0, [], false, false⟩
  else if dmax > RSIZE_MAX_WSTR then ⟨ESLEMAX, 0, [], false, false⟩
  else match fcLoop fx src dmax with
    | .ok _ 0 => ⟨ESNOSPC, dmax, [], false, false⟩      -- `dmax <= 0` behind the loop: length written, dest cleared
    | .ok out d => ⟨0, dmax - d, out, false, false⟩
    | .fail r 1 => ⟨-(r : Int), 0, [], false, false⟩       -- towfc_s's negative code handed through
    | .fail r _ => ⟨r, 0, [], false, false⟩
    | .oob => ⟨0, 0, [], true, false⟩
    | .overrun => ⟨0, 0, [], false, true⟩

end SafeC.Fold

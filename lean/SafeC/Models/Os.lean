import SafeC.Models.Copy
import SafeC.Models.Query
import SafeC.Gen.Errmsgs
/-!
# F9: `getenv_s` (`src/os/getenv_s.c`), `strerror_s` / `strerrorlen_s` (`src/str/strerror_s.c`)

Process state the C reads is an ARGUMENT of the model: the environment value as a string in memory
(`value`, 0 = the variable is not set), libc's message for `errnum` as a string in memory (`msg`), the
literal `"..."` (`dots`).  The harness shims (`harness/shims.h`) check that these are the texts the C uses.

The library-internal calls `strcpy_s(dest, dmax, buf)`, `strncpy_s`, `strcat_s` are the models of
`Models/Copy.lean` with the object size unknown (inside the library `BOS(dest)` of a parameter is unknown).
-/
namespace SafeC
open Gen

/-- what `errno_t` -1 looks like in the `Nat` return slot (the driver prints it as `-1`) -/
def NEG1 : Nat := 2^32 - 1

/-- `_getenv_s_chk(len, dest, dmax, name, destbos)`; `hasLen`: `len != NULL`.  Returns (code, value stored in `*len`). -/
def getenv_s (cfg : Cfg) (hasLen : Bool) (dest dmax name : Nat) (destbos : Bos) (value : Nat) : Prog (Nat × Option Nat) :=
  let L (v : Nat) : Option Nat := if hasLen then some v else none
  let rest : Prog (Nat × Option Nat) :=
    if name = 0 then do
      -- `if (dest && dmax) handle_error(...) else handler(...)` (fix: commit; before it dest[0] was stored with dmax == 0)
      if dest ≠ 0 ∧ dmax ≠ 0 then handleError cfg dest dmax ESNULLP else handlerS ESNULLP
      pure (ESNULLP, L 0)
    else do
      let _ ← strlenP scanFuel name 0                 -- getenv() reads the name
      if value = 0 then do
        -- `if (dest && dmax)` (fix: commit 112e287; before it `*dest = 0` was stored with dmax == 0 in the no-slack build)
        if dest ≠ 0 ∧ dmax ≠ 0 then (if cfg.slack then memsetP 0 dmax dest else store dest 0) else pure ()
        pure (NEG1, L 0)
      else do
        let len1 ← strlenP scanFuel value 0
        if dmax ≠ 0 ∧ len1 ≥ dmax then do
          handleError cfg dest dmax ESNOSPC
          pure (ESNOSPC, L 0)
        else do
          -- `if (dest && dmax) strcpy_s(dest, dmax, buf);` — the result is ignored (fix: commit 18651b0; before it
          -- strcpy_s(dest, 0, buf) invoked the handler with ESZEROL and getenv_s returned EOK)
          if dest ≠ 0 ∧ dmax ≠ 0 then do let _ ← strcpy_s cfg dest dmax value (if cfg.fixInnerBos then destbos else none); pure () else pure ()
          pure (EOK, L len1)
  if dest ≠ 0 then
    let over : Bool := match destbos with
      | none => decide (dmax > RSIZE_MAX_STR)
      | some b => decide (dmax > b)
    if over then do handlerS ESLEMAX; pure (ESLEMAX, L 0)
    else rest
  else if dmax ≠ 0 then do handlerS ESNULLP; pure (ESNULLP, L 0)
  else rest

/-- `errno_t errnum` as a signed 32-bit value -/
def errnumInt (e : Nat) : Int := if e % 2^32 < 2^31 then ((e % 2^32 : Nat) : Int) else ((e % 2^32 : Nat) : Int) - 2^32

def isSafeclibErr (e : Nat) : Bool := decide ((ESNULLP : Int) ≤ errnumInt e ∧ errnumInt e ≤ (ESLAST : Int))

/-- `strerrorlen_s(errnum)`: the table `len_errmsgs_s` for the library's own codes, `strlen(strerror(errnum))` otherwise -/
def strerrorlen_s (errnum msg : Nat) : Prog Nat :=
  if isSafeclibErr errnum then pure (lenErrmsgs.getD (errnum % 2^32 - ESNULLP) 1 - 1)
  else strlenP scanFuel msg 0

/-- `_strerror_s_chk(dest, dmax, errnum, destbos)` -/
def strerror_s (cfg : Cfg) (dest dmax errnum : Nat) (destbos : Bos) (msg dots : Nat) : Prog Nat :=
  if dest = 0 then failS ESNULLP
  else if dmax = 0 then failS ESZEROL
  else chkDmax dmax destbos RSIZE_MAX_STR <| do
    let len ← strerrorlen_s errnum msg
    if len < dmax then do
      let _ ← strcpy_s cfg dest dmax msg (if cfg.fixInnerBos then destbos else none)   -- _strcpy_s_chk(dest, dmax, tmpbuf, destbos)
      pure EOK
    else if dmax > 3 then do
      let _ ← strncpy_s cfg dest dmax msg (dmax - 4) none none
      let _ ← strcat_s cfg dest dmax dots none
      pure EOK
    else do
      handleError cfg dest dmax ESLEMIN      -- fix: commit e12c64e (before it: handler only, dest left as it was)
      pure ESLEMIN

end SafeC

import SafeC.Models.Time
/-!
# F9c: `gets_s` (`src/io/gets_s.c`)

stdin is an ARGUMENT of the model: the `len` bytes at `inp` are what the stream still holds (the harness shim feeds exactly
these bytes to the C through a pipe).  glibc's `fgets(dest, n, stdin)` is modelled by `fgetsLoop`: it stores at most `n - 1`
bytes, stops behind a newline, and reports whether it ran into the end of the stream (`feof`); when it stored anything it
terminates.  gets_s calls it with `n = dmax` and tells a line of exactly `dmax - 1` bytes from a longer one by the next byte
of the stream (`getc`).  Before 27b40b4 it called `fgets(dest, dmax + 1, stdin)`: the terminator of every line of
`dmax - 1` or more bytes was stored at `dest[dmax]`, one cell behind the declared extent (the first run of this model
against the old code showed 387 such writes / faults in 3031 operations).

Returned: `EOK` when the C returns `dest`; otherwise the value of `errno` (`-1` for a NULL with `errno == 0`: end of file).
-/
namespace SafeC
open Gen

/-- `_IO_getline`: up to `k` bytes, stop behind '\n'; `(bytes stored, feof)`; `acc` = bytes stored so far -/
def fgetsLoop : Nat → Nat → Nat → Nat → Nat → Prog (Nat × Bool)
  | 0, _, _, _, acc => pure (acc, false)                 -- count reached: no further read is attempted
  | _+1, _, 0, _, acc => pure (acc, true)                -- the stream is exhausted: the EOF flag is set
  | k+1, inp, l+1, d, acc => do
    let c ← load inp
    store d c
    if c = 10 then pure (acc + 1, false) else fgetsLoop k (inp+1) l (d+1) (acc+1)

/-- `strnlen(s, n)` -/
def strnlenP : Nat → Nat → Nat → Prog Nat
  | 0, _, acc => pure acc
  | n+1, s, acc => do
    let c ← load s
    if c = 0 then pure acc else strnlenP n (s+1) (acc+1)

/-- what follows the entry checks: `fgets(dest, dmax, stdin)` and the inspection of what it stored -/
def getsBody (cfg : Cfg) (dest dmax inp len : Nat) : Prog Nat :=
  if inp = 0 ∧ dmax ≠ 1 then do
    -- a stream whose first read fails (the shim hands over a directory: EISDIR = 21): fgets returns NULL with errno set;
    -- dest[0] = 0 (d4eb0bb), nothing reported, NULL returned
    store dest 0
    pure 21
  else do
  let (m, eof) ← fgetsLoop (dmax - 1) inp len dest 0       -- at most dmax-1 bytes
  if m = 0 ∧ dmax ≠ 1 then do
    -- fgets returned NULL at end of file: nothing reported, errno 0; C11: dest[0] = 0 (d4eb0bb)
    store dest 0
    pure NEG1
  else do
    store (dest + m) 0                                      -- fgets terminates (n = 1: stores "" without reading)
    let n ← strnlenP dmax dest 0
    let done (k : Nat) : Prog Nat := do                     -- the successful exit nulls the slack (adf9f03)
      (if cfg.slack ∧ k < dmax then memsetP 0 (dmax - k) (dest + k) else pure ())
      pure EOK
    let last ← (if n > 0 then load (dest + n - 1) else pure 0 : Prog Nat)
    if n > 0 ∧ last = 10 then do store (dest + n - 1) 0; done (n - 1)
    else if n = dmax - 1 ∧ eof = false then
      -- dest is full: the line fits only if it ends right here; `getc(stdin)`
      if len - m = 0 then (if n = 0 then pure (if inp = 0 then 21 else NEG1) else done n)   -- EOF (or the read error)
      else do
        let c ← load (inp + m)
        if c = 10 then done n
        else do
          handleError cfg dest dmax ESNOSPC
          (if cfg.slack then memsetP 0 dmax dest else pure ())
          pure ESNOSPC
    else done n

/-- `_gets_s_chk(dest, dmax, destbos)` with the stream contents `inp[0..len)` (the tree after 27b40b4, adf9f03, d4eb0bb) -/
def gets_s (cfg : Cfg) (dest dmax : Nat) (destbos : Bos) (inp len : Nat) : Prog Nat :=
  if dest = 0 then failS ESNULLP
  else if dmax = 0 then failS ESZEROL
  else match destbos with
    | none => if dmax > RSIZE_MAX_STR then failS ESLEMAX else getsBody cfg dest dmax inp len
    | some b => if dmax > b then (if dmax > RSIZE_MAX_STR then failS ESLEMAX else failS EOVERFLOW) else getsBody cfg dest dmax inp len

end SafeC

/-!
# Format-string models for C09 (`%n` is never executed)

Three kinds of model, all over `List Char` (the C string without its terminator; the empty
list is the position of the NUL):

* (a) `prescan` — the `%n` pre-scan every printf_s / scanf_s entry point performs before it
  formats anything:  `p = strstr(fmt, "%n")` (`strnstr` is `#define`d to `strstr` in
  safeclib_private.h; `wcsstr(fmt, L"%n")` in src/wchar) followed by
  `if ((p - fmt == 0) || *(p - 1) != '%') reject`.  All 28 entry points are written this way in
  the configuration that is built (HAVE_STRSTR, HAVE_WCSSTR).  `prescanChr` is the dead
  `#elif defined(HAVE_STRCHR)` / `HAVE_WCSCHR` alternative found in the 20 libc-delegating
  files (it does not compile: `strchr(fmt, flen, 'n')`); it is modelled for the record only.
* (b) `engine` — the directive parser of `safec_vsnprintf_s` (src/str/vsnprintf_s.c), phase by
  phase in the order of the C: flags loop, width, precision, length, specifier switch.
* (c) `libcPrintfNs`, `libcScanfNs` — the directive grammar of C11 7.21.6.1 / 7.21.6.2 with
  glibc's extensions (`m$` positions, the `'` and `I` flags, `q Z m` modifiers), i.e. what the
  libc the delegating entry points hand the format to will do: the list of `n` conversions it
  stores through, each classified `bare` (written exactly `%n`) or `decorated`.
-/
namespace SafeC.Fmt

abbrev Str := List Char

/-- `safec_atoi` / `read_int`: advance over a run of digits -/
def skipDigits (f : Str) : Str := f.dropWhile Char.isDigit

/-! ## (a) the pre-scan -/

/-- `strstr(fmt, "%n")`: offset of the first occurrence -/
def strstrPctN : Str → Option Nat
  | [] => none
  | c :: r => if c = '%' ∧ r.head? = some 'n' then some 0 else (strstrPctN r).map (· + 1)

/-- `if ((p = strstr(fmt, "%n"))) { if ((p - fmt == 0) || *(p - 1) != '%') { handler; return error } }`
    — `true` = the format is rejected -/
def prescan (fmt : Str) : Bool :=
  match strstrPctN fmt with
  | none => false
  | some i => i == 0 || fmt.getD (i - 1) '\x00' != '%'

/-- `strchr(fmt, 'n')`: offset of the first `n` -/
def strchrN : Str → Option Nat
  | [] => none
  | c :: r => if c = 'n' then some 0 else (strchrN r).map (· + 1)

/-- the uncompiled alternative: `if ((p = strchr(fmt,'n'))) if (((p - fmt >= 1) && *(p - 1) == '%') &&
    ((p - fmt == 1) || *(p - 2) != '%')) reject` -/
def prescanChr (fmt : Str) : Bool :=
  match strchrN fmt with
  | none => false
  | some i => (decide (i ≥ 1) && fmt.getD (i - 1) '\x00' == '%') && (i == 1 || fmt.getD (i - 2) '\x00' != '%')

/-! ## (b) the engine's directive parser -/

/-- why `safec_vsnprintf_s` returned a negative value from its specifier switch -/
inductive EngStop
  | illegalN      -- case 'n': handler "illegal %n", return -1
  | illegalSpec   -- default: handler "illegal %<c> format-specifier", return -1  (also: format ends behind `%`)
  | illegalLInt   -- d i u x X o b with `L`: handler "illegal %L<c> format-specifier", return -1
  deriving DecidableEq, Repr

inductive EngStep
  | next (rest : Str)
  | stop (why : EngStop)

/-- `switch (*format) { case '0': case '-': case '+': case ' ': case '#': … n = 1 … default: n = 0 } while (n)` -/
def engIsFlag (c : Char) : Bool := c == '0' || c == '-' || c == '+' || c == ' ' || c == '#'

/-- `if (safec_is_digit(*format)) width = safec_atoi(&format); else if (*format == '*') { va_arg(int); format++; }` -/
def engWidth : Str → Str
  | [] => []
  | c :: r => if c.isDigit then skipDigits (c :: r) else if c = '*' then r else c :: r

/-- `if (*format == '.') { format++; if (digit) atoi else if ('*') { va_arg(int); format++; } }` -/
def engPrec : Str → Str
  | [] => []
  | c :: r => if c = '.' then engWidth r else c :: r

/-- the length switch: `l ll L h hh t j z`; the Boolean is FLAGS_LONG_DOUBLE -/
def engLength : Str → Bool × Str
  | [] => (false, [])
  | c :: r =>
    if c = 'l' then (false, if r.head? = some 'l' then r.tail else r)
    else if c = 'L' then (true, r)
    else if c = 'h' then (false, if r.head? = some 'h' then r.tail else r)
    else if c = 't' ∨ c = 'j' ∨ c = 'z' then (false, r)
    else (false, c :: r)

def engIsIntConv (c : Char) : Bool :=
  c == 'd' || c == 'i' || c == 'u' || c == 'x' || c == 'X' || c == 'o' || c == 'b'

/-- the conversions the specifier switch has a case for, other than the integers and `n` -/
def engIsOtherConv (c : Char) : Bool :=
  c == 'f' || c == 'F' || c == 'e' || c == 'E' || c == 'g' || c == 'G' || c == 'a' || c == 'A' ||
  c == 'c' || c == 's' || c == 'p' || c == '%'

/-- the specifier switch.  Run-time failures of an accepted conversion (a NULL `%s` argument, a full
    buffer, `wctomb` failing) also return a negative value; they only stop the engine earlier and
    are not modelled. -/
def engSpec (ld : Bool) : Str → EngStep
  | [] => .stop .illegalSpec
  | c :: r =>
    if engIsIntConv c then (if ld then .stop .illegalLInt else .next r)
    else if engIsOtherConv c then .next r
    else if c = 'n' then .stop .illegalN
    else .stop .illegalSpec

/-- everything between a `%` and the end of its directive -/
def engDirective (f : Str) : EngStep :=
  let (ld, g) := engLength (engPrec (engWidth (f.dropWhile engIsFlag)))
  engSpec ld g

/-- `while (*format) { if (*format != '%') { out(*format); format++; continue; } format++; … }`
    with fuel (one unit per iteration; `fmt.length` is enough because every iteration consumes a
    character).  `none`: the loop ran to the end of the format. -/
def engLoop : Nat → Str → Option EngStop
  | 0, _ => none
  | _ + 1, [] => none
  | k + 1, c :: r =>
    if c ≠ '%' then engLoop k r
    else match engDirective r with
      | .next r' => engLoop k r'
      | .stop w => some w

def engine (fmt : Str) : Option EngStop := engLoop fmt.length fmt

/-- the engine returns a negative value (after calling the constraint handler) because of the
    format alone -/
def engineRejects (fmt : Str) : Bool := (engine fmt).isSome

/-- the seven engine-based entry points: pre-scan, then the engine -/
def enginePrintfRejects (fmt : Str) : Bool := prescan fmt || engineRejects fmt

/-! ## (c) what libc does with a format -/

/-- how an `n` conversion that libc stores through is written -/
inductive NSpell
  | bare        -- exactly `%n`
  | decorated   -- anything between the `%` and the `n`: position, flags, width, precision, length
  deriving DecidableEq, Repr

/-- `digits $` with a non-zero number: the rest behind the `$` -/
def dollarArg (f : Str) : Option Str :=
  if (f.takeWhile Char.isDigit).any (· != '0') ∧ (skipDigits f).head? = some '$'
  then some (skipDigits f).tail else none

/-! ### printf (C11 7.21.6.1 §4; glibc `parse_one_spec`) -/

def libcPIsFlag (c : Char) : Bool :=
  c == '-' || c == '+' || c == ' ' || c == '#' || c == '0' || c == '\'' || c == 'I'

/-- field width: `*`, `*m$`, or a decimal integer -/
def libcPWidth : Str → Str
  | [] => []
  | c :: r => if c = '*' then (dollarArg r).getD r else if c.isDigit then skipDigits (c :: r) else c :: r

/-- precision: `.` followed by `*`, `*m$`, a decimal integer, or nothing -/
def libcPPrec : Str → Str
  | [] => []
  | c :: r => if c = '.' then libcPWidth r else c :: r

/-- length modifier: `hh h l ll L q j z t Z` -/
def libcPLength : Str → Str
  | [] => []
  | c :: r =>
    if c = 'h' ∨ c = 'l' then (if r.head? = some c then r.tail else r)
    else if c = 'L' ∨ c = 'q' ∨ c = 'j' ∨ c = 'z' ∨ c = 't' ∨ c = 'Z' then r
    else c :: r

/-- one conversion specification behind its `%`: (is it an `n` conversion, rest of the format).
    Any character is taken as the conversion character (`%%` is the conversion `%`); a conversion
    libc does not know is printed as text by glibc and formatting goes on. -/
def libcPDirective (f : Str) : Bool × Str :=
  match libcPLength (libcPPrec (libcPWidth (((dollarArg f).getD f).dropWhile libcPIsFlag))) with
  | [] => (false, [])
  | c :: r => (c == 'n', r)

def printfNs : Nat → Str → List NSpell
  | 0, _ => []
  | _ + 1, [] => []
  | k + 1, c :: r =>
    if c ≠ '%' then printfNs k r
    else match libcPDirective r with
      | (true, r') => (if r.head? = some 'n' then NSpell.bare else NSpell.decorated) :: printfNs k r'
      | (false, r') => printfNs k r'

/-- the `n` conversions libc's printf family performs for this format -/
def libcPrintfNs (fmt : Str) : List NSpell := printfNs fmt.length fmt
def libcPrintfStoresN (fmt : Str) : Bool := !(libcPrintfNs fmt).isEmpty

/-! ### scanf (C11 7.21.6.2 §3; glibc `__vfscanf_internal`) -/

def libcSIsFlag (c : Char) : Bool := c == '*' || c == '\'' || c == 'I'

/-- flags (`*` suppresses assignment) and maximum field width -/
def scanfFlagsWidth (f : Str) : Bool × Str :=
  ((f.takeWhile libcSIsFlag).contains '*', skipDigits (f.dropWhile libcSIsFlag))

/-- glibc: `if (ISDIGIT(*f)) { argpos = read_int(&f); if (*f == '$') ++f; else { width = argpos; goto got_width; } }`
    then flags, then width.  Result: (assignment suppressed, rest at the length modifier) -/
def scanfHead (f : Str) : Bool × Str :=
  if f.head?.any Char.isDigit then
    (if (skipDigits f).head? = some '$' then scanfFlagsWidth (skipDigits f).tail else (false, skipDigits f))
  else scanfFlagsWidth f

/-- length modifier: `hh h l ll L q j z t`, and POSIX `m` (optionally `ml`) -/
def libcSLength : Str → Str
  | [] => []
  | c :: r =>
    if c = 'h' ∨ c = 'l' then (if r.head? = some c then r.tail else r)
    else if c = 'm' then (if r.head? = some 'l' then r.tail else r)
    else if c = 'L' ∨ c = 'q' ∨ c = 'j' ∨ c = 'z' ∨ c = 't' then r
    else c :: r

/-- behind `[`: optional `^`, a `]` here is an ordinary member, then everything up to the closing `]`;
    an unterminated scan set ends the scan -/
def scanset (f : Str) : Str :=
  let f := if f.head? = some '^' then f.tail else f
  let f := if f.head? = some ']' then f.tail else f
  (f.dropWhile (· != ']')).tail

/-- one conversion specification behind its `%`: (is it an `n` conversion that stores, rest) -/
def libcSDirective (f : Str) : Bool × Str :=
  match libcSLength (scanfHead f).2 with
  | [] => (false, [])
  | c :: r => if c = '[' then (false, scanset r) else (c == 'n' && !(scanfHead f).1, r)

def scanfNs : Nat → Str → List NSpell
  | 0, _ => []
  | _ + 1, [] => []
  | k + 1, c :: r =>
    if c ≠ '%' then scanfNs k r
    else match libcSDirective r with
      | (true, r') => (if r.head? = some 'n' then NSpell.bare else NSpell.decorated) :: scanfNs k r'
      | (false, r') => scanfNs k r'

/-- the `n` conversions libc's scanf family stores through for this format (provided the input
    lets it get that far) -/
def libcScanfNs (fmt : Str) : List NSpell := scanfNs fmt.length fmt
def libcScanfStoresN (fmt : Str) : Bool := !(libcScanfNs fmt).isEmpty

/-! ## entry-point level predictions (used by the correspondence check) -/

/-- a libc-delegating entry point lets libc store through an argument for `%n` -/
def delegatingScanfStores (fmt : Str) : Bool := !prescan fmt && libcScanfStoresN fmt
def delegatingPrintfStores (fmt : Str) : Bool := !prescan fmt && libcPrintfStoresN fmt

end SafeC.Fmt

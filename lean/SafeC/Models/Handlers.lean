import SafeC.Machine
/-!
# F13: constraint-handler registration (`src/str/safe_str_constraint.c`, `src/mem/safe_mem_constraint.c`)

State: one process-wide slot and one thread-local slot per kind, each `NULL` (never registered)
or a handler.  `set_*`/`thrd_set_*` return the previous slot value and store the argument, with
`NULL` replaced by `sl_default_handler` (handler id 0).  `invoke_*`: thread-local slot, else global
slot, else the default.  A new thread starts with zeroed thread-local storage.
-/
namespace SafeC.Handlers
open SafeC

abbrev Hid := Nat      -- 0 = sl_default_handler (ignore_handler_s)
abbrev Tid := Nat

structure H where
  glob : Kind → Option Hid
  tl : Tid → Kind → Option Hid

def init : H := { glob := fun _ => none, tl := fun _ _ => none }

inductive Op where
  | set (t : Tid) (k : Kind) (h : Option Hid)       -- set_{str,mem}_constraint_handler_s(h) called on thread t
  | thrdSet (t : Tid) (k : Kind) (h : Option Hid)   -- thrd_set_{str,mem}_constraint_handler_s(h) on thread t
  | violate (t : Tid) (k : Kind)                    -- a violating call on thread t
  | spawn (parent child : Tid)                      -- thread `child` is created (by `parent`)
  deriving Repr, DecidableEq

inductive Out where
  | prev (h : Option Hid)
  | ran (h : Hid)
  | none
  deriving Repr, DecidableEq

/-- `NULL` selects the default handler -/
def reg (h : Option Hid) : Hid := h.getD 0

def invoked (s : H) (t : Tid) (k : Kind) : Hid :=
  match s.tl t k with
  | some h => h
  | Option.none => match s.glob k with
    | some h => h
    | Option.none => 0

def step (s : H) : Op → H × Out
  | .set _ k h =>
    ({ s with glob := fun k' => if k' = k then some (reg h) else s.glob k' }, .prev (s.glob k))
  | .thrdSet t k h =>
    ({ s with tl := fun t' k' => if t' = t ∧ k' = k then some (reg h) else s.tl t' k' }, .prev (s.tl t k))
  | .violate t k => (s, .ran (invoked s t k))
  | .spawn _ c => ({ s with tl := fun t' k' => if t' = c then Option.none else s.tl t' k' }, .none)

/-- state after a history given MOST RECENT FIRST -/
def runR : List Op → H
  | [] => init
  | op :: older => (step (runR older) op).1

/-- chronological execution with outputs (used by the driver) -/
def runOut (s : H) : List Op → List Out
  | [] => []
  | op :: rest => (step s op).2 :: runOut (step s op).1 rest

end SafeC.Handlers

import SafeC.Models.Alloc
/-! driver glue for C20: runs an allocation skeleton under a failing-index set (format: see tools/p20.py) -/
namespace SafeC.Driver
open SafeC SafeC.Alloc

private def get (m : List (String × String)) (k : String) : String :=
  ((m.find? (·.1 = k)).map (·.2)).getD ""
private def flag (m : List (String × String)) (k : String) : Bool := get m k = "1"
private def nat (m : List (String × String)) (k : String) : Nat := (get m k).toNat?.getD 0

def parseFails (s : String) : List Nat :=
  if s = "-" ∨ s = "" then [] else (s.splitOn ",").filterMap String.toNat?

def parseFixes (s : String) : Fixes :=
  match s.toList.map (· == '1') with
  | [a, b, c, d, e, f, g] => ⟨a, b, c, d, e, f, g⟩
  | _ => current

def parseSeg (s : String) : Option Seg :=
  match s with
  | "p" => some (.plain .none)
  | "pe" => some (.plain .handled)
  | "ps" => some (.plain .silent)
  | "f0" => some (.fl false false)
  | "f1" => some (.fl true false)
  | "f0e" => some (.fl false true)
  | "f1e" => some (.fl true true)
  | "l-" => some (.ls .none)
  | "ln" => some (.ls .argNull)
  | "lc" => some (.ls .conv)
  | "lt" => some (.ls .tooLong)
  | "lp" => some (.ls .prePad)
  | "lo" => some (.ls .out)
  | "lq" => some (.ls .postPad)
  | _ => none

def parseWrap (s : String) : Option Wrap :=
  match s with
  | "vsn" => some .vsn
  | "stream" => some .stream
  | "vs00" => some (.vs false false)
  | "vs01" => some (.vs false true)
  | "vs10" => some (.vs true false)
  | "vs11" => some (.vs true true)
  | _ => none

def parsePR (s : String) : PR :=
  match s with
  | "neg" => .neg
  | "zero" => .zero
  | "small" => .small
  | _ => .large

def parseWFn (s : String) : Option WFn :=
  match s with
  | "sw" => some .sw
  | "vsw" => some .vsw
  | "snw" => some .snw
  | "vsnw" => some .vsnw
  | _ => none

def parseMode (s : String) : NormMode :=
  match s with
  | "nfd" => .nfd
  | "fcd" => .fcd
  | "fcc" => .fcc
  | _ => .nfc

def parseCells (s : String) : List Bool := if s = "-" then [] else s.toList.map (· == '1')
/-- s = starter, m = mark, c = starter absorbed by composition, d = mark absorbed by composition -/
def parseCCells (s : String) : List CCell :=
  if s = "-" then [] else s.toList.map fun ch => ⟨ch == 'm' || ch == 'd', ch == 'c' || ch == 'd'⟩

def showEv : Ev → Option String
  | .malloc i ok => some s!"M{i}{if ok then "+" else "-"}"
  | .realloc i old ok => some s!"R{i}:{match old with | some b => toString b | none => "n"}{if ok then "+" else "-"}"
  | .free (some b) => some s!"F{b}"
  | .free none => some "Fn"
  | _ => none

def showFault : Fault → String
  | .nullDeref => "null"
  | .useAfterFree _ => "uaf"
  | .badFree _ => "badfree"
  | .badRealloc _ => "badrealloc"

/-- the skeleton named by an op line -/
def allocProg (kind : String) (m : List (String × String)) : Option (Prog Out) :=
  let fx := parseFixes (get m "fx")
  match kind with
  | "printf" => do
    let w ← parseWrap (get m "w")
    let segs ← (if get m "segs" = "-" then some [] else ((get m "segs").splitOn ",").mapM parseSeg)
    pure (printfProg fx w (flag m "entry") segs)
  | "wprobe" => do
    let f ← parseWFn (get m "f")
    pure (wprobeProg fx f ⟨flag m "entry", flag m "fits", flag m "dmax1", flag m "big", parsePR (get m "probe")⟩)
  | "fold" => some (foldProg ⟨flag m "entry", flag m "fold", flag m "fc1", flag m "fc2", flag m "final"⟩)
  | "reorder" => some (reorderProg fx .caller (nat m "dmax") (parseCells (get m "cells")))
  | "compose" => some (composeProg fx .caller .caller (nat m "dmax") (parseCCells (get m "cells")))
  | "norm" => some (normProg fx ⟨flag m "dec", parseMode (get m "mode"), nat m "dmax", nat m "len",
                                 parseCells (get m "rcells"), parseCCells (get m "ccells")⟩)
  | _ => none

/-- event-logging interpreter that keeps the state at the point of a fault (`exec` discards it) -/
def runTrace : Nat → List Nat → Prog Out → St → (Option Fault × Option Out × St)
  | 0, _, _, s => (none, none, s)
  | fuel + 1, fl, p, s =>
    match p with
    | .ret x => (none, some x, s)
    | .alloc k =>
      if fl.contains s.next then runTrace fuel fl (k none) (s.allocFail (.malloc s.next false))
      else runTrace fuel fl (k (some s.next)) (s.allocOk s.live (.malloc s.next true))
    | .realloc old k =>
      match old with
      | some b =>
        if b ∈ s.live then
          if fl.contains s.next then runTrace fuel fl (k none) (s.allocFail (.realloc s.next old false))
          else runTrace fuel fl (k (some s.next)) (s.allocOk (s.live.erase b) (.realloc s.next old true))
        else (some (.badRealloc b), none, s)
      | none =>
        if fl.contains s.next then runTrace fuel fl (k none) (s.allocFail (.realloc s.next none false))
        else runTrace fuel fl (k (some s.next)) (s.allocOk s.live (.realloc s.next none true))
    | .free b k =>
      match b with
      | none => runTrace fuel fl k { s with events := .free none :: s.events }
      | some b => if b ∈ s.live then runTrace fuel fl k { s with live := s.live.erase b, events := .free (some b) :: s.events }
                  else (some (.badFree b), none, s)
    | .deref b k =>
      match b with
      | none => (some .nullDeref, none, s)
      | some b => if b ∈ s.live then runTrace fuel fl k s else (some (.useAfterFree b), none, s)
    | .emit e k => runTrace fuel fl k (s.onEmit e)

def showFixes (f : Fixes) : String :=
  String.mk ([f.fmtcopy, f.lsconv, f.wprobe, f.vswrep, f.normtmp, f.reorder, f.compose].map fun b => if b then '1' else '0')

def allocLine (id kind : String) (m : List (String × String)) : String :=
  if kind = "fixes" then s!"id={id} fx={showFixes current}" else
  match allocProg kind m with
  | none => s!"id={id} err=badop"
  | some p =>
    let fl := parseFails (get m "fail")
    let (fault, out, s) := runTrace 1000000 fl p {}
    -- the verdict proper comes from `exec` (the function the theorems are about); `go` only adds the partial trace
    let viaExec := exec (fun i => fl.contains i) p {}
    let agree : Bool := match viaExec, fault, out with
      | .ok (o, s'), none, some o' => o == o' && s'.live == s.live && s'.events == s.events && s'.hn == s.hn
      | .error f, some f', _ => f == f'
      | _, _, _ => false
    let seq := ",".intercalate (s.events.reverse.filterMap showEv)
    let crash := match fault with | some f => showFault f | none => "-"
    let o := out.getD ⟨false, false⟩
    s!"id={id} crash={crash} failed={if o.failed then 1 else 0} handled={if s.hn > 0 then 1 else 0} hn={s.hn} cleared={if s.cleared then 1 else 0} out={s.live.length} n={s.next} nfail={s.nfail} wrap={if o.wrapped then 1 else 0} selfcheck={if agree then 1 else 0} seq={if seq.isEmpty then "-" else seq}"

end SafeC.Driver

import SafeC.Machine
import SafeC.Common
/-!
# Line-protocol support for the model driver (layout must match harness/hx.c)
-/
namespace SafeC.Driver
open SafeC

def PAGE : Nat := 4096
def WBASE : Nat := 0x200000000
def WSTRIDE : Nat := 0x100000
def MAPPED_PAGES : Nat := 4

structure Region where
  k : Nat
  w : Nat
  n : Nat
  flush : Char
  cells : Array Nat
  deriving Inhabited

def Region.win (r : Region) : Nat := WBASE + r.k * WSTRIDE
/-- byte address of cell 0 -/
def Region.baseB (r : Region) : Nat :=
  if r.flush = 'r' then r.win + (MAPPED_PAGES + 1) * PAGE - r.n * r.w else r.win + PAGE
/-- cell address of cell 0 -/
def Region.base (r : Region) : Nat := r.baseB / r.w
def Region.loCell (r : Region) : Nat := (r.win + PAGE) / r.w
def Region.hiCell (r : Region) : Nat := (r.win + (MAPPED_PAGES + 1) * PAGE) / r.w

def canaryByte (x : Nat) : Nat :=
  let c := (((x ^^^ (x >>> 8)) * 0x9E + 0x55) &&& 0xFF)
  if c = 0 then 0xA5 else c

def canaryCell (w a : Nat) : Nat := Id.run do
  let mut v := 0
  for i in [0:w] do
    v := v + canaryByte (a * w + i) <<< (8 * i)
  return v

def hexDigit (c : Char) : Option Nat :=
  if '0' ≤ c ∧ c ≤ '9' then some (c.toNat - '0'.toNat)
  else if 'a' ≤ c ∧ c ≤ 'f' then some (c.toNat - 'a'.toNat + 10)
  else if 'A' ≤ c ∧ c ≤ 'F' then some (c.toNat - 'A'.toNat + 10)
  else none

def parseHexCells (w : Nat) (s : String) : Array Nat := Id.run do
  let mut out : Array Nat := #[]
  let mut v := 0
  let mut cnt := 0
  for c in s.toList do
    match hexDigit c with
    | some d =>
      v := v * 16 + d
      cnt := cnt + 1
      if cnt = 2 * w then
        out := out.push v
        v := 0
        cnt := 0
    | none => pure ()
  return out

def parseRegion (k : Nat) (val : String) : Option Region :=
  match val.splitOn ":" with
  | [w, n, fl, hx] =>
    match w.toNat?, n.toNat? with
    | some w, some n =>
      let cells := parseHexCells w hx
      if cells.size = n ∧ w > 0 then some { k, w, n, flush := fl.front, cells } else none
    | _, _ => none
  | _ => none

/-- `Rk+off`, `Rk-off`, `null` → cell address -/
def parsePtr (regs : Array Region) (s : String) : Option Nat :=
  if s = "null" then some 0
  else if s.startsWith "R" then
    let body := (s.drop 1).toString
    let (ks, rest) := (body.takeWhile Char.isDigit |>.toString, body.dropWhile Char.isDigit |>.toString)
    match ks.toNat?, regs.find? (fun r => some r.k = ks.toNat?) with
    | some _, some r =>
      if rest.startsWith "+" then (rest.drop 1).toString.toNat?.map (r.base + ·)
      else if rest.startsWith "-" then (rest.drop 1).toString.toNat?.map (r.base - ·)
      else if rest = "" then some r.base else none
    | _, _ => none
  else none

def showPtr (regs : Array Region) (a : Nat) : String :=
  if a = 0 then "null"
  else
    match regs.find? (fun r => r.win / r.w ≤ a ∧ a < (r.win + (MAPPED_PAGES + 2) * PAGE) / r.w) with
    | some r =>
      if a ≥ r.base then s!"R{r.k}+{a - r.base}" else s!"R{r.k}-{r.base - a}"
    | none => s!"raw:{String.ofList (Nat.toDigits 16 a)}"

def parseNum (s : String) : Option Nat :=
  if s = "unk" then some (2^64 - 1)
  else if s.startsWith "-" then (s.drop 1).toString.toNat?.map (fun n => 2^64 - n)
  else s.toNat?

def parseBos (s : String) : Option Bos :=
  if s = "unk" then some none else s.toNat?.map some

/-- extents `Rk+off:len,…` → list of (cellLo, cellHi) -/
def parseExtents (regs : Array Region) (s : String) : List (Nat × Nat) :=
  (s.splitOn ",").filterMap fun e =>
    match e.splitOn ":" with
    | [p, l] =>
      match parsePtr regs p, l.toNat? with
      | some a, some n => some (a, a + n)
      | _, _ => none
    | _ => none

def inExt (xs : List (Nat × Nat)) (a : Nat) : Bool := xs.any fun (lo, hi) => lo ≤ a && a < hi

def mkState (regs : Array Region) (W Rd : List (Nat × Nat)) : St :=
  { data := fun a =>
      match regs.find? (fun r => r.loCell ≤ a ∧ a < r.hiCell) with
      | some r => if r.base ≤ a ∧ a < r.base + r.n then r.cells[a - r.base]! else canaryCell r.w a
      | none => 0
    mapped := fun a => regs.any fun r => r.loCell ≤ a && a < r.hiCell
    rd := inExt Rd
    wr := inExt W }

def hexCell (w v : Nat) : String :=
  let ds := Nat.toDigits 16 (v % 2^(8*w))
  String.ofList (List.replicate (2*w - ds.length) '0' ++ ds)

def showImage (regs : Array Region) (s : St) : String :=
  ";".intercalate (regs.toList.map fun r =>
    s!"R{r.k}:" ++ String.join ((List.range r.n).map fun i => hexCell r.w (s.data (r.base + i))))

def showEvents (es : List Event) : String :=
  ",".intercalate (es.filterMap fun
    | .handler .str c => some s!"S:{c}"
    | .handler .mem c => some s!"M:{c}"
    | .branch _ => none)

def showStrays (regs : Array Region) (xs : List Access) : String :=
  ",".intercalate (xs.map fun
    | .rd a => "r:" ++ showPtr regs a
    | .wr a => "w:" ++ showPtr regs a)

/-- what a model call produces for the observation line -/
structure Out where
  ret : String
  outs : List (Nat × String) := []   -- argument position ↦ value

def showOuts (nargs : Nat) (outs : List (Nat × String)) : String :=
  ",".intercalate ((List.range nargs).map fun i =>
    match outs.find? (·.1 = i) with
    | some (_, v) => v
    | none => "-")

def showInt (i : Int) : String := toString i

end SafeC.Driver

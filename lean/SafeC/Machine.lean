/-!
# The guarded-memory machine

Programs are data (`Prog`): a CPS free monad over `load`, `store` and `emit`.
Memory is cell-addressed (`Nat → Nat`); a cell is a `char`, a 16/32-bit element or a
`wchar_t` depending on the function that is modelled (the function model truncates what it
stores, the driver builds the memory with the element width of each region).

`exec` is the big-step interpreter used by the compiled driver and by the theorems:

* touching a cell that is not `mapped` is a `Fault` (the harness sees `SIGSEGV`);
* touching a mapped cell the caller did not declare (`rd` / `wr`) is performed and recorded in
  `strays` (on real hardware the access lands in slack and goes unnoticed);
* `emit` appends an event (constraint-handler invocations, `branch` decisions for C19).

Core Lean only: this file is linked into the `safec_model` executable.
-/
namespace SafeC

inductive Fault where
  | read (a : Nat)
  | write (a : Nat)
  deriving Repr, DecidableEq, Inhabited

inductive Kind where
  | str | mem
  deriving Repr, DecidableEq, Inhabited

inductive Event where
  | handler (kind : Kind) (code : Nat)
  | branch (b : Bool)
  deriving Repr, DecidableEq, Inhabited

inductive Access where
  | rd (a : Nat)
  | wr (a : Nat)
  deriving Repr, DecidableEq, Inhabited

def Access.isWrite : Access → Bool
  | .wr _ => true
  | .rd _ => false

def Access.isRead : Access → Bool
  | .rd _ => true
  | .wr _ => false

structure St where
  data : Nat → Nat
  mapped : Nat → Bool
  rd : Nat → Bool
  wr : Nat → Bool
  events : List Event := []
  strays : List Access := []

inductive Prog (α : Type) : Type where
  | ret : α → Prog α
  | load : Nat → (Nat → Prog α) → Prog α
  | store : Nat → Nat → Prog α → Prog α
  | emit : Event → Prog α → Prog α

namespace Prog

def bind : Prog α → (α → Prog β) → Prog β
  | .ret x, f => f x
  | .load a k, f => .load a (fun v => (k v).bind f)
  | .store a v k, f => .store a v (k.bind f)
  | .emit e k, f => .emit e (k.bind f)

instance : Monad Prog where
  pure := .ret
  bind := Prog.bind

end Prog

def load (a : Nat) : Prog Nat := .load a .ret
def store (a : Nat) (v : Nat) : Prog Unit := .store a v (.ret ())
def emit (e : Event) : Prog Unit := .emit e (.ret ())

def St.upd (s : St) (a : Nat) (v : Nat) : St :=
  { s with data := fun x => if x = a then v else s.data x }

def St.stray (s : St) (x : Access) : St :=
  { s with strays := s.strays ++ [x] }

def St.noteRd (s : St) (a : Nat) : St := if s.rd a then s else s.stray (.rd a)
def St.noteWr (s : St) (a : Nat) : St := if s.wr a then s else s.stray (.wr a)

def exec : Prog α → St → Except Fault (α × St)
  | .ret x, s => .ok (x, s)
  | .load a k, s =>
    if s.mapped a then exec (k (s.data a)) (s.noteRd a) else .error (.read a)
  | .store a v k, s =>
    if s.mapped a then exec k ((s.noteWr a).upd a v) else .error (.write a)
  | .emit e k, s => exec k { s with events := s.events ++ [e] }

/-! ## basic laws -/

theorem exec_bind (p : Prog α) (f : α → Prog β) (s : St) :
    exec (p >>= f) s = match exec p s with
      | .ok (a, s') => exec (f a) s'
      | .error e => .error e := by
  show exec (p.bind f) s = _
  induction p generalizing s with
  | ret x => simp [Prog.bind, exec]
  | load a k ih =>
    simp only [Prog.bind, exec]
    split
    · exact ih _ _
    · rfl
  | store a v k ih =>
    simp only [Prog.bind, exec]
    split
    · exact ih _
    · rfl
  | emit e k ih =>
    simp only [Prog.bind, exec]
    exact ih _

@[simp] theorem exec_pure (x : α) (s : St) : exec (pure x : Prog α) s = .ok (x, s) := rfl
@[simp] theorem exec_ret (x : α) (s : St) : exec (Prog.ret x) s = .ok (x, s) := rfl

theorem exec_load (a : Nat) (s : St) :
    exec (load a) s = if s.mapped a then .ok (s.data a, s.noteRd a) else .error (.read a) := by
  simp [load, exec]

theorem exec_store (a v : Nat) (s : St) :
    exec (store a v) s = if s.mapped a then .ok ((), (s.noteWr a).upd a v) else .error (.write a) := by
  simp [store, exec]

@[simp] theorem exec_emit (e : Event) (s : St) :
    exec (emit e) s = .ok ((), { s with events := s.events ++ [e] }) := by
  simp [emit, exec]

/-- a declared, mapped load leaves the state alone -/
@[simp] theorem exec_load_ok (a : Nat) (s : St) (hm : s.mapped a = true) (hr : s.rd a = true) :
    exec (load a) s = .ok (s.data a, s) := by
  simp [exec_load, hm, St.noteRd, hr]

/-- a declared, mapped store is a plain update -/
@[simp] theorem exec_store_ok (a v : Nat) (s : St) (hm : s.mapped a = true) (hw : s.wr a = true) :
    exec (store a v) s = .ok ((), s.upd a v) := by
  simp [exec_store, hm, St.noteWr, hw]

@[simp] theorem St.upd_mapped (s : St) (a v : Nat) : (s.upd a v).mapped = s.mapped := rfl
@[simp] theorem St.upd_rd (s : St) (a v : Nat) : (s.upd a v).rd = s.rd := rfl
@[simp] theorem St.upd_wr (s : St) (a v : Nat) : (s.upd a v).wr = s.wr := rfl
@[simp] theorem St.upd_events (s : St) (a v : Nat) : (s.upd a v).events = s.events := rfl
@[simp] theorem St.upd_strays (s : St) (a v : Nat) : (s.upd a v).strays = s.strays := rfl
theorem St.upd_data (s : St) (a v x : Nat) :
    (s.upd a v).data x = if x = a then v else s.data x := rfl
@[simp] theorem St.upd_data_same (s : St) (a v : Nat) : (s.upd a v).data a = v := by
  simp [St.upd]
theorem St.upd_data_ne (s : St) (a v x : Nat) (h : x ≠ a) : (s.upd a v).data x = s.data x := by
  simp [St.upd, h]

/-! ## generic meta-theorems, by induction on `Prog` -/

/-- permissions and the mapping never change -/
theorem exec_perm (p : Prog α) (s : St) {r : α} {s' : St} (h : exec p s = .ok (r, s')) :
    s'.mapped = s.mapped ∧ s'.rd = s.rd ∧ s'.wr = s.wr := by
  induction p generalizing s with
  | ret x => simp [exec] at h; obtain ⟨_, rfl⟩ := h; exact ⟨rfl, rfl, rfl⟩
  | load a k ih =>
    simp only [exec] at h
    split at h
    · have := ih _ _ h
      simp only [St.noteRd] at this
      split at this <;> simpa [St.stray] using this
    · cases h
  | store a v k ih =>
    simp only [exec] at h
    split at h
    · have := ih _ h
      simp only [St.noteWr, St.upd] at this
      split at this <;> simpa [St.stray] using this
    · cases h
  | emit e k ih =>
    simp only [exec] at h
    simpa using ih _ h

/-- strays only grow -/
theorem exec_strays_mono (p : Prog α) (s : St) {r : α} {s' : St} (h : exec p s = .ok (r, s')) :
    ∃ extra, s'.strays = s.strays ++ extra := by
  induction p generalizing s with
  | ret x => simp [exec] at h; obtain ⟨_, rfl⟩ := h; exact ⟨[], by simp⟩
  | load a k ih =>
    simp only [exec] at h
    split at h
    · obtain ⟨e, he⟩ := ih _ _ h
      simp only [St.noteRd] at he
      split at he
      · exact ⟨e, he⟩
      · exact ⟨[.rd a] ++ e, by simpa [St.stray, List.append_assoc] using he⟩
    · cases h
  | store a v k ih =>
    simp only [exec] at h
    split at h
    · obtain ⟨e, he⟩ := ih _ h
      simp only [St.noteWr, St.upd_strays] at he
      split at he
      · exact ⟨e, he⟩
      · exact ⟨[.wr a] ++ e, by simpa [St.stray, List.append_assoc] using he⟩
    · cases h
  | emit e k ih =>
    simp only [exec] at h
    simpa using ih _ h

/-- events only grow -/
theorem exec_events_mono (p : Prog α) (s : St) {r : α} {s' : St} (h : exec p s = .ok (r, s')) :
    ∃ extra, s'.events = s.events ++ extra := by
  induction p generalizing s with
  | ret x => simp [exec] at h; obtain ⟨_, rfl⟩ := h; exact ⟨[], by simp⟩
  | load a k ih =>
    simp only [exec] at h
    split at h
    · obtain ⟨e, he⟩ := ih _ _ h
      refine ⟨e, ?_⟩
      simp only [St.noteRd] at he
      split at he <;> simpa [St.stray] using he
    · cases h
  | store a v k ih =>
    simp only [exec] at h
    split at h
    · obtain ⟨e, he⟩ := ih _ h
      refine ⟨e, ?_⟩
      simp only [St.noteWr, St.upd_events] at he
      split at he <;> simpa [St.stray] using he
    · cases h
  | emit e k ih =>
    simp only [exec] at h
    obtain ⟨x, hx⟩ := ih _ h
    exact ⟨[e] ++ x, by simpa [List.append_assoc] using hx⟩

/-- **Frame lemma.** A run whose newly recorded strays contain no *write* leaves every cell
the caller did not declare writable exactly as it was. -/
theorem exec_frame (p : Prog α) (s : St) {r : α} {s' : St} (h : exec p s = .ok (r, s'))
    (extra : List Access) (he : s'.strays = s.strays ++ extra)
    (hs : ∀ x ∈ extra, x.isWrite = false) :
    ∀ a, s.wr a = false → s'.data a = s.data a := by
  induction p generalizing s extra with
  | ret x => simp [exec] at h; obtain ⟨_, rfl⟩ := h; intro a _; rfl
  | load a k ih =>
    simp only [exec] at h
    split at h
    · intro x hx
      have hwr : (s.noteRd a).wr = s.wr := by simp only [St.noteRd]; split <;> rfl
      have hdata : (s.noteRd a).data = s.data := by simp only [St.noteRd]; split <;> rfl
      obtain ⟨ex, hex⟩ := exec_strays_mono _ _ h
      have hsub : ∀ y ∈ ex, y ∈ extra := by
        intro y hy
        simp only [St.noteRd] at hex
        split at hex
        · have : s.strays ++ extra = s.strays ++ ex := by rw [← he, hex]
          have := List.append_cancel_left this
          rw [this]; exact hy
        · simp only [St.stray] at hex
          have : s.strays ++ extra = s.strays ++ ([Access.rd a] ++ ex) := by
            rw [← he, hex, List.append_assoc]
          have := List.append_cancel_left this
          rw [this]; simp [hy]
      have := ih _ (s.noteRd a) h ex hex (fun y hy => hs y (hsub y hy)) x (by rw [hwr]; exact hx)
      rw [this, hdata]
    · cases h
  | store a v k ih =>
    simp only [exec] at h
    split at h
    · intro x hx
      obtain ⟨ex, hex⟩ := exec_strays_mono _ _ h
      by_cases hw : s.wr a = true
      · have e : s.noteWr a = s := by simp [St.noteWr, hw]
        rw [e] at h hex
        simp only [St.upd_strays] at hex
        have hee : extra = ex := List.append_cancel_left (by rw [← he, hex])
        have := ih (s.upd a v) h ex (by simpa using hex) (by rw [← hee]; exact hs) x (by simpa using hx)
        rw [this]
        have : x ≠ a := by intro hxa; subst hxa; simp [hw] at hx
        exact St.upd_data_ne _ _ _ _ this
      · exfalso
        have e : s.noteWr a = s.stray (.wr a) := by simp [St.noteWr, hw]
        rw [e] at hex
        simp only [St.upd_strays, St.stray] at hex
        have hee : extra = [Access.wr a] ++ ex :=
          List.append_cancel_left (by rw [← he, hex, List.append_assoc])
        have := hs (.wr a) (by rw [hee]; simp)
        simp [Access.isWrite] at this
    · cases h
  | emit e k ih =>
    simp only [exec] at h
    intro x hx
    exact ih _ h extra (by simpa using he) hs x (by simpa using hx)

/-- corollary used by the C01 theorems: started with no strays and ended with none. -/
theorem exec_frame_clean (p : Prog α) (s : St) {r : α} {s' : St} (h : exec p s = .ok (r, s'))
    (h0 : s.strays = []) (h1 : s'.strays = []) :
    ∀ a, s.wr a = false → s'.data a = s.data a :=
  exec_frame p s h [] (by simp [h0, h1]) (by simp)

end SafeC

import SafeC.Dispatch
/-! chains the per-family dispatch tables (one `DispatchX.lean` per family) -/
namespace SafeC.Driver

def dispatch (fn : String) (c : Ctx) : Option (Prog Out) :=
  dispatchCore fn c

end SafeC.Driver

import SafeC.Dispatch
import SafeC.DispatchInplace
import SafeC.DispatchTok
import SafeC.DispatchQuery
import SafeC.DispatchMem
import SafeC.DispatchQuery2
import SafeC.DispatchOs
import SafeC.DispatchFld
/-! chains the per-family dispatch tables (one `DispatchX.lean` per family) -/
namespace SafeC.Driver

def dispatch (fn : String) (c : Ctx) : Option (Prog Out) :=
  dispatchCore fn c <|> dispatchInplace fn c <|> dispatchTok fn c <|> dispatchQuery fn c <|> dispatchMem fn c <|> dispatchQuery2 fn c <|> dispatchOs fn c <|> dispatchFld fn c

end SafeC.Driver

import SafeC.Models.Sort
/-! driver glue for C16: runs the qsort_s / bsearch_s models on an op line (format: see tools/p16.py, harness/hsort.c) -/
namespace SafeC.DriverSort
open SafeC SafeC.Sort

private def sget (m : List (String × String)) (k : String) : String :=
  ((m.find? (·.1 = k)).map (·.2)).getD ""
private def snat (m : List (String × String)) (k : String) (d : Nat := 0) : Nat := (sget m k).toNat?.getD d

/-- splitmix64 of `seed + k * golden`; the same function is in harness/hsort.c and tools/p16.py -/
def mix64 (seed k : UInt64) : UInt64 :=
  let z := seed + k * 0x9E3779B97F4A7C15
  let z := (z ^^^ (z >>> 30)) * 0xBF58476D1CE4E5B9
  let z := (z ^^^ (z >>> 27)) * 0x94D049BB133111EB
  z ^^^ (z >>> 31)

def cmp3 (x y : Nat) : Int := if x < y then -1 else if x > y then 1 else 0

def rnd3 (seed : UInt64) (k : Nat) : Int := ((mix64 seed k.toUInt64).toNat % 3 : Nat) - 1

/-- comparator of the sort, by name; elements are original positions, `keys[id]` their keys -/
def sortCmp (mode : String) (seed : UInt64) (keys : Array Nat) : Nat → Nat → Nat → Nat → Nat → Int :=
  let key (x : Nat) : Nat := keys.getD x 0
  match mode with
  | "asc" => fun _ _ _ x y => cmp3 (key x) (key y)
  | "desc" => fun _ _ _ x y => cmp3 (key y) (key x)
  | "zero" => fun _ _ _ _ _ => 0
  | "pos" => fun _ _ _ _ _ => 1
  | "neg" => fun _ _ _ _ _ => -1
  | "rnd" => fun k _ _ _ _ => rnd3 seed k
  | "mix" => fun k _ _ x y => if (mix64 (seed + 1) k.toUInt64).toNat % 4 = 0 then rnd3 seed k else cmp3 (key x) (key y)
  | "posn" => fun _ i j _ _ => cmp3 i j            -- compares the POSITIONS: as inconsistent as it gets
  | _ => fun _ _ _ x y => cmp3 (key x) (key y)

def parseKeys (s : String) : Array Nat :=
  match s.splitOn ":" with
  | ["ident", n] => Array.range (n.toNat?.getD 0)
  | ["rev", n] => let k := n.toNat?.getD 0; (Array.range k).map (k - 1 - ·)
  | ["rnd", n, sd, md] =>
    let sd := (sd.toNat?.getD 0).toUInt64
    let md := md.toNat?.getD 1
    (Array.range (n.toNat?.getD 0)).map fun i => (mix64 sd i.toUInt64).toNat % md
  | _ => if s = "-" ∨ s = "" then #[] else ((s.splitOn ",").filterMap String.toNat?).toArray

def fnv (h : UInt64) (v : UInt64) : UInt64 := (h ^^^ v) * 0x100000001b3

def logHash (log : List Ev) : UInt64 :=
  log.reverse.foldl (fun h e => fnv h (((e.i.toUInt64 : UInt64) <<< (32 : UInt64)) ||| (e.j.toUInt64 : UInt64))) 0xcbf29ce484222325

def permHash (a : Array Nat) : UInt64 := Id.run do
  let mut h : UInt64 := 0xcbf29ce484222325
  for x in a do
    h := fnv h x.toUInt64
  return h

def showFault : Fault → String
  | .idx i => s!"idx:{i}"
  | .neg => "neg"
  | .lpIdx i => s!"lp:{i}"
  | .arIdx => "ar"
  | .wrap => "wrap"
  | .fuel => "fuel"

def showEvs (l : List (HK × Nat)) : String :=
  if l.isEmpty then "-" else ",".intercalate (l.map fun (k, c) => (match k with | .str => "s:" | .mem => "m:") ++ toString c)

def parseFx (s : String) : Fixes :=
  match s.toList.map (· == '1') with
  | [a, b, c] => ⟨a, b, c⟩
  | _ => current

def parseArgs (m : List (String × String)) : Args :=
  { baseNull := sget m "base" = "0", cmpNull := sget m "fn" = "0", keyNull := sget m "keyp" = "0",
    nmemb := snat m "n", size := snat m "w",
    bos := if sget m "bos" = "u" ∨ sget m "bos" = "" then none else some (snat m "bos") }

def sortLine (id : String) (m : List (String × String)) : String := Id.run do
  let keys := parseKeys (sget m "keys")
  let g := parseArgs m
  let fx := parseFx (sget m "fx")
  let seed := (snat m "seed").toUInt64
  let full := sget m "full" != "0"
  let trace := sget m "trace" != "0"
  let c : Cmp Nat := ⟨sortCmp (sget m "cmp") seed keys, snat m "ctx", trace⟩
  let s0 : St Nat := ⟨Array.range keys.size, [], 0⟩
  match qsortChk fx c g s0 with
  | .error f => return s!"id={id} fault={showFault f}"
  | .ok o =>
    let ctxok := o.st.log.all (·.ctx == c.ctx)
    let lg := if full ∧ trace ∧ o.st.ncmp ≤ 4000 then ",".intercalate (o.st.log.reverse.map fun e => s!"{e.i}:{e.j}") else "-"
    let pm := if full ∧ o.st.a.size ≤ 4000 then ",".intercalate (o.st.a.toList.map toString) else "-"
    return s!"id={id} ret={o.ret} ev={showEvs o.events} nc={o.st.ncmp} lh={if trace then toString (logHash o.st.log) else "-"} ctxok={if ctxok then 1 else 0} ph={permHash o.st.a} perm={if pm.isEmpty then "-" else pm} log={if lg.isEmpty then "-" else lg}"

def bsLine (id : String) (m : List (String × String)) : String := Id.run do
  let keys := parseKeys (sget m "keys")
  let g := parseArgs m
  let fx := parseFx (sget m "fx")
  let seed := (snat m "seed").toUInt64
  let k := snat m "key"
  let key (x : Nat) : Nat := keys.getD x 0
  let cf : Nat → Nat → Nat → Int :=
    match sget m "cmp" with
    | "desc" => fun _ _ x => cmp3 (key x) k
    | "zero" => fun _ _ _ => 0
    | "pos" => fun _ _ _ => 1
    | "neg" => fun _ _ _ => -1
    | "rnd" => fun n _ _ => rnd3 seed n
    | _ => fun _ _ x => cmp3 k (key x)
  let c : BCmp Nat := ⟨cf, snat m "ctx", true⟩
  let s0 : St Nat := ⟨Array.range keys.size, [], 0⟩
  match bsearchChk fx c g s0 with
  | .error f => return s!"id={id} fault={showFault f}"
  | .ok o =>
    let ctxok := o.st.log.all (·.ctx == c.ctx)
    let lg := ",".intercalate (o.st.log.reverse.map fun e => toString e.i)
    let r := match o.ret with | some i => toString i | none => "null"
    let en := match o.errno with | some v => toString v | none => "-"
    return s!"id={id} ret={r} errno={en} ev={showEvs o.events} nc={o.st.ncmp} ctxok={if ctxok then 1 else 0} log={if lg.isEmpty then "-" else lg}"

/-- byte-level `cycle` against the element rotation, for the self-check op `cyc=` (width, n, positions) -/
def cycLine (id : String) (m : List (String × String)) : String := Id.run do
  let w := snat m "w"
  let n := snat m "n"
  let ar := ((sget m "ar").splitOn ",").filterMap String.toNat?
  let seed := (snat m "seed").toUInt64
  let mem : Array UInt8 := (Array.range (n * w)).map fun i => (mix64 seed i.toUInt64).toUInt8
  let elems : Array (List UInt8) := (Array.range n).map fun i => (List.range w).map fun k => mem.getD (i * w + k) 0
  let rb := cycleBytes (w / 256 + 1) mem w (ar.map (· * w))
  let re := cycle ⟨elems, [], 0⟩ ar
  match rb, re with
  | .ok mb, .ok se =>
    let flat : List UInt8 := se.a.toList.flatten
    return s!"id={id} cyc={if mb.toList == flat then "same" else "DIFF"}"
  | .error f, .error g => return s!"id={id} cyc=fault:{showFault f}:{showFault g}"
  | .error f, .ok _ => return s!"id={id} cyc=DIFF-bytefault:{showFault f}"
  | .ok _, .error g => return s!"id={id} cyc=DIFF-elemfault:{showFault g}"

/-- the model's `pntz` on the two words `lo`, `hi` (op `pntz=`; compared with the compiler's `pntz`, harness/hpntz.c) -/
def pntzLine (id : String) (m : List (String × String)) : String :=
  let fx := parseFx (sget m "fx")
  let p : PV := ⟨(snat m "lo").toUInt64, (snat m "hi").toUInt64⟩
  s!"id={id} r={pntz fx p}"

end SafeC.DriverSort

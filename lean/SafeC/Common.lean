import SafeC.Machine
import SafeC.Gen.Consts
/-!
# Combinators shared by the function models

Each mirrors one macro or helper of `src/safeclib_private.h`, `src/str/safe_str_constraint.{h,c}`,
`src/mem/safe_mem_constraint.{h,c}` — including what they do wrong.
-/
namespace SafeC
open Gen

/-- compile-time configuration of the library build -/
structure Cfg where
  slack : Bool := true      -- SAFECLIB_STR_NULL_SLACK
  /- repairs that landed after the models and their theorems were written are carried as switches, `true` = the current tree
     (the driver always runs with the defaults); theorems quantify over every `cfg`, witnesses of a repaired defect name the
     switch they turn off -/
  fixStpUnterm : Bool := true   -- e5bca6e: stpcpy_s / stpncpy_s clear dest on the "src unterminated" exit
  fixWcaseOrder : Bool := true  -- 7997192, c770409: wcslwr_s / wcsupr_s test the remaining length before they read the next cell
  fixInnerBos : Bool := true    -- abc5a20, 913acf6: getenv_s / strerror_s hand destbos on to their closing strcpy_s
  deriving Repr, DecidableEq, Inhabited

/-- `__builtin_object_size` as handed to a `_chk` entry point: `none` = BOS_UNKNOWN -/
abbrev Bos := Option Nat

/-- `invoke_safe_str_constraint_handler(msg, ptr, code)` -/
def handlerS (code : Nat) : Prog Unit := emit (.handler .str code)
/-- `invoke_safe_mem_constraint_handler(msg, ptr, code)` -/
def handlerM (code : Nat) : Prog Unit := emit (.handler .mem code)

/-- handler, then `return code` -/
def failS (code : Nat) : Prog Nat := do handlerS code; pure code
def failM (code : Nat) : Prog Nat := do handlerM code; pure code

/-- libc `memset(d, v, n)` seen as `n` cell stores in ascending order -/
def memsetP (v : Nat) : Nat → Nat → Prog Unit
  | 0, _ => pure ()
  | n+1, d => do store d v; memsetP v n (d+1)

/-- the hand-written `while (dmax) { *dest = '\0'; dmax--; dest++; }` -/
def zeroLoop : Nat → Nat → Prog Unit
  | 0, _ => pure ()
  | n+1, d => do store d 0; zeroLoop n (d+1)

/-- the `#ifdef SAFECLIB_STR_NULL_SLACK` block: `memset` above 0x20 cells, byte loop below -/
def nullSlack (dest dmax : Nat) : Prog Unit :=
  if dmax > 0x20 then memsetP 0 dmax dest else zeroLoop dmax dest

/-- `handle_error` / `handle_werror` (same shape, the cell is a `char` or a `wchar_t`) -/
def handleError (cfg : Cfg) (dest len code : Nat) : Prog Unit := do
  if cfg.slack then memsetP 0 len dest else store dest 0
  handlerS code

/-- `handle_mem_error`: `mem_prim_set(dest, len, 0)` then the mem handler -/
def handleMemError (dest len code : Nat) : Prog Unit := do
  memsetP 0 len dest
  handlerM code

/-- `_strnlen_s_chk` loop: `while (smax && *str)` (after the `fix:` commit that swapped the
operands; before it the cell was read first) -/
def strnlenLoop : Nat → Nat → Nat → Bos → Prog Nat
  | 0, _, count, _ => pure count
  | smax+1, str, count, bos => do
    let c ← load str
    if c = 0 then pure count
    else match bos with
      | none => strnlenLoop smax (str+1) (count+1) none
      | some b => if b - 1 = 0 then pure (count+1) else strnlenLoop smax (str+1) (count+1) (some (b-1))

/-- `_strnlen_s_chk(str, smax, strbos)` -/
def strnlen_s (str smax : Nat) (strbos : Bos) : Prog Nat :=
  if str = 0 then do handlerS ESNULLP; pure 0
  else if smax = 0 then do handlerS ESZEROL; pure 0
  else if smax > RSIZE_MAX_STR then do handlerS ESLEMAX; pure 0
  else strnlenLoop smax str 0 strbos

/-- `handle_str_bos_overflow(msg, dest, dmax)`: clears `strnlen_s(dest, dmax)` cells -/
def handleStrBosOverflow (cfg : Cfg) (dest dmax : Nat) : Prog Nat := do
  let len ← strnlen_s dest dmax none
  if len > RSIZE_MAX_STR then do
    handleError cfg dest 1 ESLEMAX
    pure ESLEMAX
  else do
    handleError cfg dest len EOVERFLOW
    pure EOVERFLOW

/-- the `if (destbos == BOS_UNKNOWN) { CHK_DMAX_MAX } else { CHK_DEST_OVR_CLEAR }` block;
`mk` turns the error code into the function's failure value -/
def chkDmaxClearG (mk : Nat → α) (cfg : Cfg) (dest dmax : Nat) (destbos : Bos) (max : Nat) (k : Prog α) : Prog α :=
  match destbos with
  | none => if dmax > max then do handlerS ESLEMAX; pure (mk ESLEMAX) else k
  | some bos =>
    if dmax > bos then
      if dmax > max then do handleError cfg dest bos ESLEMAX; pure (mk ESLEMAX)
      else do
        let c ← handleStrBosOverflow cfg dest bos
        pure (mk c)
    else k

def chkDmaxClear (cfg : Cfg) (dest dmax : Nat) (destbos : Bos) (max : Nat) (k : Prog Nat) : Prog Nat :=
  chkDmaxClearG id cfg dest dmax destbos max k

/-- `wcsnlen_s(str, smax)` as called inside the library (object size unknown there) -/
def wcsnlenLoop : Nat → Nat → Nat → Prog Nat
  | 0, _, count => pure count
  | smax+1, str, count => do
    let c ← load str
    if c = 0 then pure count else wcsnlenLoop smax (str+1) (count+1)

def wcsnlen_s (str smax : Nat) : Prog Nat :=
  if str = 0 then pure 0
  else if smax = 0 then do handlerS ESZEROL; pure 0
  else if smax > RSIZE_MAX_WSTR then do handlerS ESLEMAX; pure 0
  else wcsnlenLoop smax str 0

/-- wide: `CHK_DMAX_MAX(RSIZE_MAX_WSTR)` / `CHK_DESTW_OVR_CLEAR(destsz, destbos)`; `destbos` in bytes -/
def chkDmaxClearW (cfg : Cfg) (dest dmax : Nat) (destbos : Bos) (k : Prog Nat) : Prog Nat :=
  match destbos with
  | none => if dmax > RSIZE_MAX_WSTR then failS ESLEMAX else k
  | some bos =>
    if dmax * SIZEOF_WCHAR_T > bos then
      if dmax > RSIZE_MAX_WSTR then do handleError cfg dest (bos / SIZEOF_WCHAR_T) ESLEMAX; pure ESLEMAX
      else do handleError cfg dest (bos / SIZEOF_WCHAR_T) EOVERFLOW; pure EOVERFLOW
    else k

/-- wide, non-clearing: `CHK_DESTW_OVR` -/
def chkDmaxW (dmax : Nat) (destbos : Bos) (k : Prog Nat) : Prog Nat :=
  match destbos with
  | none => if dmax > RSIZE_MAX_WSTR then failS ESLEMAX else k
  | some bos =>
    if dmax * SIZEOF_WCHAR_T > bos then
      if dmax > RSIZE_MAX_WSTR then failS ESLEMAX else failS EOVERFLOW
    else k

/-- the non-clearing variant: `CHK_DMAX_MAX` / `CHK_DEST_OVR` -/
def chkDmax (dmax : Nat) (destbos : Bos) (max : Nat) (k : Prog Nat) : Prog Nat :=
  match destbos with
  | none => if dmax > max then failS ESLEMAX else k
  | some bos =>
    if dmax > bos then
      if dmax > max then failS ESLEMAX else failS EOVERFLOW
    else k

/-- `CHK_DEST_MEM_OVR` after `CHK_DMAX_MEM_MAX` for the mem family -/
def chkDmaxMem (dmax : Nat) (destbos : Bos) (max : Nat) (k : Prog Nat) : Prog Nat :=
  match destbos with
  | none => if dmax > max then failM ESLEMAX else k
  | some bos =>
    if dmax > bos then
      if dmax > max then failM ESLEMAX else failM EOVERFLOW
    else k

/-- `CHK_SLEN_MAX_CLEAR(func, slen, max)`: clears `strnlen_s(dest, dmax)` cells (dest's BOS is
unknown inside the library) -/
def chkSlenMaxClear (cfg : Cfg) (dest dmax slen max : Nat) (k : Prog Nat) : Prog Nat :=
  if slen > max then do
    let len ← strnlen_s dest dmax none
    handleError cfg dest len ESLEMAX
    pure ESLEMAX
  else k

/-- C `tolower`/`toupper` in the "C" locale on an `unsigned char` value -/
def toLowerC (c : Nat) : Nat := if 65 ≤ c ∧ c ≤ 90 then c + 32 else c
def toUpperC (c : Nat) : Nat := if 97 ≤ c ∧ c ≤ 122 then c - 32 else c

/-- value of a plain (signed) `char` cell as C `int` -/
def schar (c : Nat) : Int := if c < 128 then (c : Int) else (c : Int) - 256

end SafeC

import SafeC.Dispatch
import SafeC.Models.Query
/-!
# name → model dispatch for the query family (`tools/families/query.py`)

Argument positions follow `tools/fnspec.py`; the out-parameter (`int *resultp`, `char **`,
`rsize_t *countp`) is printed at its own argument position.
-/
namespace SafeC.Driver
open SafeC

/-- errno + `int` out-parameter at position `pos` -/
def intOut (pos : Nat) (p : Prog (Nat × Int)) : Prog Out := do
  let (r, v) ← p
  pure { ret := toString r, outs := [(pos, showInt v)] }

/-- errno + pointer out-parameter at position `pos` -/
def ptrOut (regs : Array Region) (pos : Nat) (p : Prog (Nat × Nat)) : Prog Out := do
  let (r, v) ← p
  pure { ret := toString r, outs := [(pos, showPtr regs v)] }

/-- errno + `rsize_t` out-parameter at position `pos` -/
def sizeOut (pos : Nat) (p : Prog (Nat × Nat)) : Prog Out := do
  let (r, v) ← p
  pure { ret := toString r, outs := [(pos, toString v)] }

def dispatchQuery (fn : String) (c : Ctx) : Option (Prog Out) :=
  match fn with
  | "strcmp_s" => do
    let d ← c.p 0; let m ← c.n 1; let s ← c.p 2; let b ← c.b 4; let sb ← c.b 5
    pure (intOut 3 (strcmp_s d m s b sb))
  | "strcasecmp_s" => do
    let d ← c.p 0; let m ← c.n 1; let s ← c.p 2; let b ← c.b 4
    pure (intOut 3 (strcasecmp_s d m s b))
  | "strcmpfld_s" => do
    let d ← c.p 0; let m ← c.n 1; let s ← c.p 2; let b ← c.b 4
    pure (intOut 3 (strcmpfld_s d m s b))
  | "strstr_s" => do
    let d ← c.p 0; let m ← c.n 1; let s ← c.p 2; let l ← c.n 3; let b ← c.b 5; let sb ← c.b 6
    pure (ptrOut c.regs 4 (strstr_s d m s l b sb))
  | "strcasestr_s" => do
    let d ← c.p 0; let m ← c.n 1; let s ← c.p 2; let l ← c.n 3; let b ← c.b 5; let sb ← c.b 6
    pure (ptrOut c.regs 4 (strcasestr_s d m s l b sb))
  | "strchr_s" => do
    let d ← c.p 0; let m ← c.n 1; let ch ← c.n 2; let b ← c.b 4
    pure (ptrOut c.regs 3 (strchr_s d m (toInt32 ch) b))
  | "strrchr_s" => do
    let d ← c.p 0; let m ← c.n 1; let ch ← c.n 2; let b ← c.b 4
    pure (ptrOut c.regs 3 (strrchr_s d m (toInt32 ch) b))
  | "strpbrk_s" => do
    let d ← c.p 0; let m ← c.n 1; let s ← c.p 2; let l ← c.n 3; let b ← c.b 5; let sb ← c.b 6
    pure (ptrOut c.regs 4 (strpbrk_s c.cfg d m s l b sb))
  | "strspn_s" => do
    let d ← c.p 0; let m ← c.n 1; let s ← c.p 2; let l ← c.n 3; let b ← c.b 5; let sb ← c.b 6
    pure (sizeOut 4 (strspn_s d m s l b sb))
  | "strcspn_s" => do
    let d ← c.p 0; let m ← c.n 1; let s ← c.p 2; let l ← c.n 3; let b ← c.b 5; let sb ← c.b 6
    pure (sizeOut 4 (strcspn_s d m s l b sb))
  | "strprefix_s" => do
    let d ← c.p 0; let m ← c.n 1; let s ← c.p 2; let b ← c.b 3
    pure (errOut (strprefix_s d m s b))
  | "memcmp_s" => do
    let d ← c.p 0; let m ← c.n 1; let s ← c.p 2; let l ← c.n 3; let b ← c.b 5; let sb ← c.b 6
    pure (intOut 4 (memcmp_s d m s l b sb))
  | "memcmp16_s" => do
    let d ← c.p 0; let m ← c.n 1; let s ← c.p 2; let l ← c.n 3; let b ← c.b 5; let sb ← c.b 6
    pure (intOut 4 (memcmp16_s d m s l b sb))
  | "memcmp32_s" => do
    let d ← c.p 0; let m ← c.n 1; let s ← c.p 2; let l ← c.n 3; let b ← c.b 5; let sb ← c.b 6
    pure (intOut 4 (memcmp32_s d m s l b sb))
  | "memchr_s" => do
    let d ← c.p 0; let m ← c.n 1; let ch ← c.n 2; let b ← c.b 4
    pure (ptrOut c.regs 3 (memchr_s d m (toInt32 ch) b))
  | "memrchr_s" => do
    let d ← c.p 0; let m ← c.n 1; let ch ← c.n 2; let b ← c.b 4
    pure (ptrOut c.regs 3 (memrchr_s d m (toInt32 ch) b))
  | _ => none

end SafeC.Driver

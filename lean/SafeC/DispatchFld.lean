import SafeC.Dispatch
import SafeC.Models.Fld
/-! # name → model dispatch, field-copy family -/
namespace SafeC.Driver
open SafeC

def dispatchFld (fn : String) (c : Ctx) : Option (Prog Out) :=
  let go (k : FldKind) : Option (Prog Out) := do
    let d ← c.p 0; let m ← c.n 1; let s ← c.p 2; let l ← c.n 3; let b ← c.b 4
    pure (errOut (fldG k c.cfg d m s l b))
  match fn with
  | "strcpyfld_s" => go .fld
  | "strcpyfldin_s" => go .fldin
  | "strcpyfldout_s" => go .fldout
  | _ => none

end SafeC.Driver

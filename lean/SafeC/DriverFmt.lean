import SafeC.Models.Fmt
/-! driver glue for C09: `id=<n> fmtq=<hex bytes of a format>` ↦ the models' answers for that format
    (`fmtq=-` is the empty format) -/
namespace SafeC.Driver
open SafeC.Fmt

def hexVal (c : Char) : Option Nat :=
  if c.isDigit then some (c.toNat - '0'.toNat)
  else if 'a' ≤ c ∧ c ≤ 'f' then some (c.toNat - 'a'.toNat + 10)
  else if 'A' ≤ c ∧ c ≤ 'F' then some (c.toNat - 'A'.toNat + 10)
  else none

def unhex : List Char → Option (List Char)
  | [] => some []
  | [_] => none
  | a :: b :: r => do
    let x ← hexVal a
    let y ← hexVal b
    let t ← unhex r
    pure (Char.ofNat (16 * x + y) :: t)

def b01 (b : Bool) : String := if b then "1" else "0"

def showStop : Option EngStop → String
  | none => "-"
  | some .illegalN => "n"
  | some .illegalSpec => "spec"
  | some .illegalLInt => "Lint"

def showNs (l : List NSpell) : String :=
  if l.isEmpty then "-" else String.ofList (l.map fun | .bare => 'b' | .decorated => 'd')

/-- ps: pre-scan rejects; pc: the uncompiled strchr pre-scan rejects; eng: why the engine stops (`-` runs through);
    pn / sn: the `n` conversions libc's printf / scanf would store through (b bare, d decorated) -/
def fmtLine (id hex : String) : String :=
  match unhex (if hex = "-" then [] else hex.toList) with
  | none => s!"id={id} err=badhex"
  | some f =>
    s!"id={id} ps={b01 (prescan f)} pc={b01 (prescanChr f)} eng={showStop (engine f)} pn={showNs (libcPrintfNs f)} sn={showNs (libcScanfNs f)}"

end SafeC.Driver

import SafeC.Proofs.SortSafe
/-!
# qsort_s model: the Leonardo table `lp[]`

Arithmetic of the Leonardo numbers, the table loop `mkLp` (no fault, holds `leo 0 .. leo K`, `leo K` the first
entry from index 2 on that reaches the element count), and `qsortMusl` unfolded when `nel * width` does not wrap.
-/
namespace SafeC.Sort

theorem leo_succ_succ (k : Nat) : leo (k + 2) = leo k + leo (k + 1) + 1 := by simp [leo]

theorem leo_le_succ (k : Nat) : leo k ≤ leo (k + 1) := by
  match k with
  | 0 => simp [leo]
  | k + 1 => rw [leo_succ_succ]; omega

theorem leo_mono {i j : Nat} (h : i ≤ j) : leo i ≤ leo j := by
  induction j with
  | zero => have : i = 0 := by omega
            subst this; exact Nat.le_refl _
  | succ j ih =>
    by_cases hij : i = j + 1
    · subst hij; exact Nat.le_refl _
    · exact Nat.le_trans (ih (by omega)) (leo_le_succ j)

theorem leo_lt_succ {k : Nat} (hk : 1 ≤ k) : leo k < leo (k + 1) := by
  obtain ⟨m, rfl⟩ : ∃ m, k = m + 1 := ⟨k - 1, by omega⟩
  rw [leo_succ_succ]
  have := leo_pos m
  omega

theorem leo_strict {i j : Nat} (hi : 1 ≤ i) (h : i < j) : leo i < leo j :=
  Nat.lt_of_lt_of_le (leo_lt_succ hi) (leo_mono h)

/-- with `n ≤ leo K`, `2 ≤ K`: every order whose tree fits into n elements is ≤ K -/
theorem leo_le_imp_le {n K o : Nat} (hK : 2 ≤ K) (hn : n ≤ leo K) (ho : leo o ≤ n) : o ≤ K := by
  apply Nat.le_of_not_lt
  intro hlt
  have := leo_strict (i := K) (j := o) (by omega) hlt
  omega

/-- `(leo k, leo (k + 1))`, computed linearly -/
def leoPair : Nat → Nat × Nat
  | 0 => (1, 1)
  | k + 1 => ((leoPair k).2, (leoPair k).1 + (leoPair k).2 + 1)

theorem leoPair_eq (k : Nat) : leoPair k = (leo k, leo (k + 1)) := by
  induction k with
  | zero => simp [leoPair, leo]
  | succ k ih => simp [leoPair, ih, leo_succ_succ]

theorem leo_34 : leo 34 = 18454929 := by
  have h : (leoPair 34).1 = 18454929 := by decide +kernel
  rw [leoPair_eq] at h; exact h

theorem leo_90 : leo 90 = 9320093220751060617 := by
  have h : (leoPair 90).1 = 9320093220751060617 := by decide +kernel
  rw [leoPair_eq] at h; exact h

theorem leo_90_gt : 2 ^ 63 < leo 90 := by rw [leo_90]; decide

theorem genLp_spec (width n : Nat) (hw : 0 < width) (h63 : n * width ≤ 2 ^ 63) (h3 : 3 * width < 2 ^ 64) :
    ∀ (room k a b : Nat) (acc : Array Nat), room + (k + 2) = 96 → acc.size = k + 2 →
      (∀ j, j < k + 2 → acc[j]? = some (leo j)) → a = leo k → b = leo (k + 1) →
      (∀ j, 2 ≤ j → j < k + 2 → leo j < n) →
      ∃ lp K, genLp width (n * width) room a b acc = .ok lp ∧ lp.size = K + 1 ∧ LpOk lp K ∧ k + 2 ≤ K ∧ K ≤ 95 ∧
        n ≤ leo K ∧ (∀ j, 2 ≤ j → j < K → leo j < n) := by
  have hn63 : n ≤ 2 ^ 63 := Nat.le_trans (Nat.le_mul_of_pos_right n hw) h63
  intro room
  induction room with
  | zero =>
    intro k a b acc hr hsz hacc ha hb hlt
    exfalso
    have h1 := hlt 95 (by omega) (by omega)
    have h2 := leo_mono (i := 90) (j := 95) (by omega)
    have h3 := leo_90_gt
    omega
  | succ room ih =>
    intro k a b acc hr hsz hacc ha hb hlt
    subst ha; subst hb
    unfold genLp
    have hc : leo k + leo (k + 1) + 1 = leo (k + 2) := (leo_succ_succ k).symm
    simp only [hc]
    have hnw : ¬ (leo (k + 2) * width ≥ 2 ^ 64) := by
      by_cases hk : k = 0
      · subst hk
        have : leo 2 = 3 := by simp [leo]
        rw [this]; omega
      · have h1 : leo (k + 1) < n := hlt (k + 1) (by omega) (by omega)
        have h2 : leo k < leo (k + 1) := leo_lt_succ (by omega)
        have h4 : leo (k + 2) + 2 ≤ 2 * n := by omega
        have h5 : (leo (k + 2) + 2) * width ≤ 2 * n * width := Nat.mul_le_mul_right _ h4
        rw [Nat.add_mul, Nat.mul_assoc] at h5
        omega
    simp only [hnw, if_false]
    have hpush : ∀ j, j < k + 3 → (acc.push (leo (k + 2)))[j]? = some (leo j) := by
      intro j hj
      rw [Array.getElem?_push]
      by_cases hjk : j = k + 2
      · subst hjk; simp [hsz]
      · have : ¬ j = acc.size := by omega
        simp only [this, if_false]
        exact hacc j (by omega)
    by_cases hlt2 : leo (k + 2) * width < n * width
    · simp only [hlt2, if_true]
      have hcn : leo (k + 2) < n := Nat.lt_of_mul_lt_mul_right hlt2
      obtain ⟨lp, K, e1, e2, e3, e4, e5, e6, e7⟩ := ih (k + 1) (leo (k + 1)) (leo (k + 2)) (acc.push (leo (k + 2)))
        (by omega) (by simp [hsz]) hpush rfl rfl
        (by intro j hj2 hj
            by_cases hjk : j = k + 2
            · subst hjk; exact hcn
            · exact hlt j hj2 (by omega))
      exact ⟨lp, K, e1, e2, e3, by omega, e5, e6, e7⟩
    · simp only [hlt2, if_false]
      refine ⟨_, k + 2, rfl, by simp [hsz], ?_, Nat.le_refl _, by omega, ?_, hlt⟩
      · intro j hj; exact hpush j (by omega)
      · exact Nat.le_of_mul_le_mul_right (Nat.le_of_not_lt hlt2) hw

set_option linter.unusedVariables false in
/-- the table loop: for `size = n * width` that does not wrap, the table is built without fault, holds the
    Leonardo numbers `leo 0 .. leo K`, and `leo K` is the first entry (from index 2 on) that reaches `n` -/
theorem mkLp_spec (width n : Nat) (hw : 0 < width) (hn : 0 < n) (h63 : n * width ≤ 2 ^ 63) (h3 : 3 * width < 2 ^ 64) :
    ∃ lp K, mkLp width (n * width) = .ok lp ∧ lp.size = K + 1 ∧ LpOk lp K ∧ 2 ≤ K ∧ K ≤ 95 ∧ n ≤ leo K ∧
      (∀ j, 2 ≤ j → j < K → leo j < n) := by
  unfold mkLp
  obtain ⟨lp, K, e1, e2, e3, e4, e5, e6, e7⟩ := genLp_spec width n hw h63 h3 94 0 1 1 #[1, 1] (by omega) (by simp)
    (by intro j hj
        have : j = 0 ∨ j = 1 := by omega
        rcases this with rfl | rfl <;> simp [leo])
    (by simp [leo]) (by simp [leo]) (by intro j h1 h2; omega)
  exact ⟨lp, K, e1, e2, e3, by omega, e5, e6, e7⟩

/-- `qsort_musl` when the product does not wrap: table, then the sort of exactly `nel` elements -/
theorem qsortMusl_eq (fx : Fixes) (c : Cmp α) (s : St α) (nel width : Nat) (hw : 0 < width) (hn : 0 < nel)
    (h : nel * width < 2 ^ 64) :
    qsortMusl fx c s nel width = (mkLp width (nel * width) >>= fun lp => smooth ⟨c.cmp, c.ctx, lp, fx, c.trace⟩ s nel) := by
  unfold qsortMusl
  have h1 : (width * nel) % 2 ^ 64 = nel * width := by
    rw [Nat.mul_comm width nel]; exact Nat.mod_eq_of_lt h
  have h2 : ¬ nel * width = 0 := Nat.ne_of_gt (Nat.mul_pos hn hw)
  have h3 : (nel * width + width - 1) / width = nel := by
    have : nel * width + width - 1 = (width - 1) + width * nel := by
      rw [Nat.mul_comm]; omega
    rw [this, Nat.add_mul_div_left _ _ hw, Nat.div_eq_of_lt (by omega)]; omega
  simp only [h1, h2, if_false, h3]

end SafeC.Sort

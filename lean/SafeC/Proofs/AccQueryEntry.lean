import SafeC.Proofs.AccQuery
/-!
# Read footprints of the query ENTRY POINTS (all arguments, object sizes known or not)

`R` is a parameter; each lemma asks for what the function can reach: `Str d dest (dmax+1)` (one cell more
than declared) where the C tests `*dest` before the counter, `Str d dest dmax` where it does not.
A null pointer is never dereferenced: the conditions on `R` are asked for non-null pointers only.
-/
namespace SafeC
open Gen

variable {d : Nat → Nat} {R : Nat → Prop}

theorem AccD_qChkS_then {β} {Q : β → Prop} {dest dmax : Nat} {b : Bos} {src : Option Nat} {f : Option Nat → Prog β}
    (hsome : ∀ e, AccD d R (f (some e)) Q)
    (hnone : dest ≠ 0 → src ≠ some 0 → dmax ≠ 0 → AccD d R (f none) Q) :
    AccD d R (qChkS dest dmax b src >>= f) Q := by
  refine AccD.bind (AccD_qChkS dest dmax b src) (fun x hx => ?_)
  cases x with
  | some e => exact hsome e
  | none => obtain ⟨h1, h2, h3⟩ := hx rfl; exact hnone h1 h2 h3

theorem AccD_qChkSlenS_then {β} {Q : β → Prop} {slen : Nat} {b : Bos} {f : Option Nat → Prog β}
    (hsome : ∀ e, AccD d R (f (some e)) Q) (hnone : AccD d R (f none) Q) :
    AccD d R (qChkSlenS slen b >>= f) Q := by
  refine AccD.bind (AccD_qChkSlenS slen b) (fun x _ => ?_)
  cases x with
  | some e => exact hsome e
  | none => exact hnone

theorem AccD_failS2 {Q : Nat × Nat → Prop} (c o : Nat) (h : Q (c, o)) : AccD d R (failS2 c o) Q := by
  unfold failS2; exact AccD.handlerSBind _ (AccD.pure _ h)

theorem AccD_chkDmaxQ {α} {Q : α → Prop} (mk : Nat → α) (dmax : Nat) (b : Bos) (max : Nat) {k : Prog α}
    (hk : AccD d R k Q) (hfail : ∀ e, Q (mk e)) : AccD d R (chkDmaxQ mk dmax b max k) Q := by
  unfold chkDmaxQ
  repeat (first | assumption | with_reducible refine AccD.handlerSBind _ ?_ | exact AccD.pure _ (hfail _) | split)

theorem AccD_chkDestDmaxBool (dest dmax : Nat) (b : Bos) (max : Nat) {k : Prog Bool}
    (hk : dest ≠ 0 → dmax ≠ 0 → AccD d R k (fun _ => True)) :
    AccD d R (chkDestDmaxBool dest dmax b max k) (fun _ => True) := by
  unfold chkDestDmaxBool
  split
  · exact AccD.handlerSBind _ (AccD.pure _ trivial)
  · split
    · exact AccD.handlerSBind _ (AccD.pure _ trivial)
    · exact AccD_chkDmaxQ _ _ _ _ (hk ‹_› ‹_›) (fun _ => trivial)

theorem ne_of_some_ne {src : Nat} (h : some src ≠ some 0) : src ≠ 0 := fun e => h (by rw [e])

/-! ## Query.lean -/

theorem strcmp_s_acc (dest dmax src : Nat) (db sb : Bos)
    (hd : dest ≠ 0 → ∀ a, Str d dest (dmax+1) a → R a) (hs : src ≠ 0 → ∀ a, Str d src (dmax+1) a → R a) :
    AccD d R (strcmp_s dest dmax src db sb) (fun _ => True) := by
  unfold strcmp_s
  exact AccD_qChkS_then (fun e => AccD.pure _ trivial)
    (fun h1 h2 _ => AccD_strcmpLoop sb dmax dest src 0 (hd h1) (hs (ne_of_some_ne h2)))

theorem strcasecmp_s_acc (dest dmax src : Nat) (db : Bos)
    (hd : dest ≠ 0 → ∀ a, Str d dest (dmax+1) a → R a) (hs : src ≠ 0 → ∀ a, Str d src (dmax+1) a → R a) :
    AccD d R (strcasecmp_s dest dmax src db) (fun _ => True) := by
  unfold strcasecmp_s
  exact AccD_qChkS_then (fun e => AccD.pure _ trivial)
    (fun h1 h2 _ => AccD_strcasecmpLoop dmax dest src (hd h1) (hs (ne_of_some_ne h2)))

theorem strcmpfld_s_acc (dest dmax src : Nat) (db : Bos)
    (h : dest ≠ 0 → src ≠ 0 → ∀ i, i ≤ dmax → (∀ j, j < i → d (dest+j) = d (src+j)) → R (dest+i) ∧ R (src+i)) :
    AccD d R (strcmpfld_s dest dmax src db) (fun _ => True) := by
  unfold strcmpfld_s
  exact AccD_qChkS_then (fun e => AccD.pure _ trivial)
    (fun h1 h2 _ => AccD_strcmpfldLoop dmax dest src (h h1 (ne_of_some_ne h2)))

/-- `slen > dmax` sends `strstr_s` through two unbounded `strlen` calls: then both STRINGS are read to their
terminators, whatever `dmax` and `slen` say (`hlong`) -/
theorem strstr_s_acc (dest dmax src slen : Nat) (db sb : Bos)
    (hd : dest ≠ 0 → ∀ a, Str d dest (dmax+1) a → R a) (hs : src ≠ 0 → ∀ a, Str d src (slen+1) a → R a)
    (hlong : dest ≠ 0 → src ≠ 0 → slen > dmax →
      (∀ a, Str d dest scanFuel a → R a) ∧ (∀ a, Str d src scanFuel a → R a)) :
    AccD d R (strstr_s dest dmax src slen db sb) (fun _ => True) := by
  unfold strstr_s
  refine AccD_qChkS_then (fun e => AccD.pure _ trivial) (fun h1 h2 _ => ?_)
  have h2' := ne_of_some_ne h2
  refine AccD_qChkSlenS_then (fun e => AccD.pure _ trivial) ?_
  dsimp only
  have hs0 : R src := hs h2' _ (Str.head (by omega))
  refine AccD.bind (Q := fun _ => True) ?_ (fun early _ => ?_)
  · split
    · rename_i hl
      obtain ⟨g1, g2⟩ := hlong h1 h2' hl
      exact AccD.bind (AccD_strlenP _ _ _ g2) (fun _ _ => AccD.bind (AccD_strlenP _ _ _ g1) (fun _ _ => AccD.pure _ trivial))
    · exact AccD.pure _ trivial
  · split
    · exact AccD.pure _ trivial
    · refine AccD.loadBind hs0 ?_
      split
      · exact AccD.pure _ trivial
      · split
        · exact AccD.handlerSBind _ (AccD.pure _ trivial)
        · exact AccD_strstrOuter src slen dmax dest (by omega) (hd h1) (hs h2')

theorem strcasestr_s_acc (dest dmax src slen : Nat) (db sb : Bos)
    (hd : dest ≠ 0 → ∀ a, Str d dest (dmax+1) a → R a) (hs : src ≠ 0 → ∀ a, Str d src (slen+1) a → R a) :
    AccD d R (strcasestr_s dest dmax src slen db sb) (fun _ => True) := by
  unfold strcasestr_s
  refine AccD_qChkS_then (fun e => AccD.pure _ trivial) (fun h1 h2 _ => ?_)
  have h2' := ne_of_some_ne h2
  have hs0 : R src := hs h2' _ (Str.head (by omega))
  dsimp only
  accd_walk [assumption] using AccD_strcasestrOuter src slen dmax dest (by omega) (by omega) (hd h1) (hs h2')

/-- `strchr_s` calls `strchr`: the scan is bounded by the terminator (or the hit) alone -/
theorem strchr_s_acc (dest dmax : Nat) (ch : Int) (db : Bos)
    (hd : dest ≠ 0 → ∀ a, Str d dest scanFuel a → R a) :
    AccD d R (strchr_s dest dmax ch db) (fun _ => True) := by
  unfold strchr_s
  refine AccD_qChkS_then (fun e => AccD.pure _ trivial) (fun h1 _ _ => ?_)
  dsimp only
  split
  · exact AccD.handlerSBind _ (AccD.pure _ trivial)
  · refine AccD.bind (AccD_strchrP _ _ _ (hd h1)) (fun r _ => ?_)
    accd_walk [assumption]

/-- `strpbrk_s` with `srcbos` unknown or not exceeded (the `slen > srcbos` exit CLEARS dest: not a read-only path) -/
theorem strpbrk_s_acc (cfg : Cfg) (dest dmax src slen : Nat) (db sb : Bos)
    (hsb : ∀ b, sb = some b → slen ≤ b)
    (hd : dest ≠ 0 → ∀ a, Str d dest (dmax+1) a → R a) (hs : src ≠ 0 → ∀ a, Str d src (slen+1) a → R a) :
    AccD d R (strpbrk_s cfg dest dmax src slen db sb) (fun _ => True) := by
  unfold strpbrk_s
  refine AccD_qChkS_then (fun e => AccD.pure _ trivial) (fun h1 h2 _ => ?_)
  have h2' := ne_of_some_ne h2
  have rest : AccD d R (if slen = 0 then do handlerS ESZEROL; pure (ESZEROL, 0) else strpbrkOuter src slen dmax dest)
      (fun _ => True) := by
    split
    · exact AccD.handlerSBind _ (AccD.pure _ trivial)
    · exact AccD_strpbrkOuter src slen dmax dest (hd h1) (hs h2')
  dsimp only
  split
  · split
    · exact AccD.handlerSBind _ (AccD.pure _ trivial)
    · exact rest
  · rename_i b
    have := hsb b rfl
    split
    · omega
    · exact rest

theorem strspn_s_acc (dest dmax src slen : Nat) (db sb : Bos)
    (hd : dest ≠ 0 → ∀ a, Str d dest (dmax+1) a → R a) (hs : src ≠ 0 → ∀ a, Str d src (slen+1) a → R a) :
    AccD d R (strspn_s dest dmax src slen db sb) (fun _ => True) := by
  unfold strspn_s
  refine AccD_qChkS_then (fun e => AccD.pure _ trivial) (fun h1 h2 _ => ?_)
  refine AccD_qChkSlenS_then (fun e => AccD.pure _ trivial) ?_
  dsimp only
  split
  · exact AccD.handlerSBind _ (AccD.pure _ trivial)
  · exact AccD.bind (AccD_spanOuter true src slen dmax dest 0 (hd h1) (hs (ne_of_some_ne h2))) (fun _ _ => AccD.pure _ trivial)

theorem strcspn_s_acc (dest dmax src slen : Nat) (db sb : Bos)
    (hd : dest ≠ 0 → ∀ a, Str d dest (dmax+1) a → R a) (hs : src ≠ 0 → ∀ a, Str d src (slen+1) a → R a) :
    AccD d R (strcspn_s dest dmax src slen db sb) (fun _ => True) := by
  unfold strcspn_s
  refine AccD_qChkS_then (fun e => AccD.pure _ trivial) (fun h1 h2 _ => ?_)
  dsimp only
  accd_walk [assumption] using
    AccD.bind (AccD_spanOuter false src slen dmax dest 0 (hd h1) (hs (ne_of_some_ne h2))) (fun _ _ => AccD.pure _ trivial)

/-- `strprefix_s`: dest inside its `dmax` cells -/
theorem strprefix_s_acc (dest dmax src : Nat) (db : Bos)
    (hd : dest ≠ 0 → ∀ a, Str d dest dmax a → R a) (hs : src ≠ 0 → ∀ a, Str d src (dmax+1) a → R a) :
    AccD d R (strprefix_s dest dmax src db) (fun _ => True) := by
  unfold strprefix_s
  refine AccD_qChkS_then (fun e => AccD.pure _ trivial) (fun h1 h2 _ => ?_)
  have h2' := ne_of_some_ne h2
  have hs0 : R src := hs h2' _ (Str.head (by omega))
  dsimp only
  refine AccD.loadBind hs0 ?_
  split
  · exact AccD.pure _ trivial
  · exact AccD_strprefixLoop dmax dest src (hd h1) (hs h2')

/-! ## Query2.lean -/

theorem strfirstchar_s_acc (dest dmax c : Nat) (db : Bos)
    (hd : dest ≠ 0 → ∀ a, Str d dest (dmax+1) a → R a) :
    AccD d R (strfirstchar_s dest dmax c db) (fun _ => True) := by
  unfold strfirstchar_s
  split
  · exact AccD_failS2 _ _ trivial
  · split
    · exact AccD_failS2 _ _ trivial
    · exact AccD_chkDmaxQ _ _ _ _ (AccD_firstcharLoop _ dmax dest (hd ‹_›)) (fun _ => trivial)

theorem strlastchar_s_acc (dest dmax c : Nat) (db : Bos)
    (hd : dest ≠ 0 → ∀ a, Str d dest (dmax+1) a → R a) :
    AccD d R (strlastchar_s dest dmax c db) (fun _ => True) := by
  unfold strlastchar_s
  split
  · exact AccD_failS2 _ _ trivial
  · split
    · exact AccD_failS2 _ _ trivial
    · refine AccD_chkDmaxQ _ _ _ _ (AccD.bind (AccD_lastcharLoop _ dmax dest 0 (hd ‹_›)) (fun r _ => ?_)) (fun _ => trivial)
      split <;> exact AccD.pure _ trivial

theorem pairFn_acc (same first : Bool) (nohit dest dmax src : Nat) (db : Bos)
    (hd : dest ≠ 0 → ∀ a, Str d dest (dmax+1) a → R a) (hs : src ≠ 0 → ∀ a, Str d src (dmax+1) a → R a) :
    AccD d R (pairFn same first nohit dest dmax src db) (fun _ => True) := by
  unfold pairFn
  split
  · exact AccD_failS2 _ _ trivial
  · split
    · exact AccD_failS2 _ _ trivial
    · split
      · exact AccD_failS2 _ _ trivial
      · refine AccD_chkDmaxQ _ _ _ _ (AccD.bind (AccD_pairLoop same first dest dmax dest src none (hd ‹_›) (hs ‹_›)) (fun r _ => ?_))
          (fun _ => trivial)
        split <;> exact AccD.pure _ trivial

/-- the predicates whose loop tests `*dest && dmax` -/
theorem predFn_bounded_acc (ok : Nat → Bool) (dest dmax : Nat) (db : Bos)
    (hd : dest ≠ 0 → ∀ a, Str d dest (dmax+1) a → R a) :
    AccD d R (predFn ok true dest dmax db) (fun _ => True) := by
  unfold predFn
  refine AccD_chkDestDmaxBool _ _ _ _ (fun h1 _ => ?_)
  have hd0 : R dest := hd h1 _ (Str.head (by omega))
  refine AccD.loadBind hd0 ?_
  split
  · exact AccD.pure _ trivial
  · simp only [if_true]
    exact AccD_classLoop ok dmax dest (hd h1)

/-- the predicates whose loop never looks at `dmax` (`strisdigit_s strisuppercase_s strismixedcase_s`) -/
theorem predFn_unbounded_acc (ok : Nat → Bool) (dest dmax : Nat) (db : Bos)
    (hd : dest ≠ 0 → ∀ a, Str d dest scanFuel2 a → R a) :
    AccD d R (predFn ok false dest dmax db) (fun _ => True) := by
  unfold predFn
  refine AccD_chkDestDmaxBool _ _ _ _ (fun h1 _ => ?_)
  have hd0 : R dest := hd h1 _ (Str.head (by decide))
  refine AccD.loadBind hd0 ?_
  split
  · exact AccD.pure _ trivial
  · simp only [Bool.false_eq_true, if_false]
    exact AccD_classLoopNoBound ok scanFuel2 dest (hd h1)

theorem strisascii_s_acc (dest dmax : Nat) (db : Bos)
    (hd : dest ≠ 0 → ∀ a, Str d dest (dmax+1) a → R a) :
    AccD d R (strisascii_s dest dmax db) (fun _ => True) := by
  unfold strisascii_s
  exact AccD_chkDestDmaxBool _ _ _ _ (fun h1 _ => AccD_classLoop _ dmax dest (hd h1))

theorem strispassword_s_acc (dest dmax : Nat) (db : Bos)
    (hd : dest ≠ 0 → ∀ a, Str d dest (dmax+1) a → R a) :
    AccD d R (strispassword_s dest dmax db) (fun _ => True) := by
  unfold strispassword_s
  refine AccD_chkDestDmaxBool _ _ _ _ (fun h1 _ => ?_)
  have hd0 : R dest := hd h1 _ (Str.head (by omega))
  split
  · exact AccD.handlerSBind _ (AccD.pure _ trivial)
  · refine AccD.loadBind hd0 ?_
    split
    · exact AccD.pure _ trivial
    · exact AccD_pwLoop dmax dest _ (hd h1)

theorem wcscmpG_acc (useCount : Bool) (dest dmax src smax count : Nat) (db sb : Bos)
    (hd : dest ≠ 0 → ∀ a, Str d dest (dmax+1) a → R a) (hs : src ≠ 0 → ∀ a, Str d src (smax+1) a → R a) :
    AccD d R (wcscmpG useCount dest dmax src smax count db sb) (fun _ => True) := by
  unfold wcscmpG
  have fail : ∀ e : Nat, AccD d R (do handlerS e; pure (e, (0 : Int)) : Prog (Nat × Int)) (fun _ => True) :=
    fun e => AccD.handlerSBind _ (AccD.pure _ trivial)
  dsimp only
  split
  · exact fail _
  · rename_i h1
    split
    · exact fail _
    · rename_i h2
      split
      · exact fail _
      · have body : AccD d R (do
            let (d', s') ← wcscmpLoop useCount dmax smax count dest src
            let a ← load d'
            let b ← load s'
            pure (EOK, subS32 a b) : Prog (Nat × Int)) (fun _ => True) := by
          refine AccD.bind (AccD_wcscmpLoop useCount dmax smax count dest src (hd h1) (hs h2)) (fun r hr => ?_)
          obtain ⟨r1, r2⟩ := r
          obtain ⟨g1, g2⟩ := hr
          exact AccD.loadBind g1 (AccD.loadBind g2 (AccD.pure _ trivial))
        repeat (first | exact fail _ | exact body | split)

theorem wcsstr_s_acc (dest dmax src slen : Nat) (db sb : Bos)
    (hd : dest ≠ 0 → ∀ a, Str d dest (dmax+1) a → R a) (hs : src ≠ 0 → ∀ a, Str d src (slen+1) a → R a) :
    AccD d R (wcsstr_s dest dmax src slen db sb) (fun _ => True) := by
  unfold wcsstr_s
  split
  · exact AccD_failS2 _ _ trivial
  · rename_i h1
    split
    · exact AccD_failS2 _ _ trivial
    · rename_i h2
      split
      · exact AccD_failS2 _ _ trivial
      · have hs0 : R src := hs h2 _ (Str.head (by omega))
        have rest : AccD d R (do
            let s0 ← load src
            if s0 = 0 ∨ dest = src then pure (EOK, dest)
            else if slen = 0 then failS2 ESZEROL 0
            else if slen > RSIZE_MAX_WSTR then failS2 ESLEMAX 0
            else
              let body := wcsstrOuter src slen dmax dest
              match sb with
              | none => body
              | some sb => if slen * SIZEOF_WCHAR_T % two64 > sb then failS2 EOVERFLOW 0 else body : Prog (Nat × Nat))
            (fun _ => True) := by
          refine AccD.loadBind hs0 ?_
          split
          · exact AccD.pure _ trivial
          · split
            · exact AccD_failS2 _ _ trivial
            · split
              · exact AccD_failS2 _ _ trivial
              · have body := AccD_wcsstrOuter (d := d) (R := R) src slen dmax dest (by omega) (hd h1) (hs h2)
                dsimp only
                repeat (first | exact AccD_failS2 _ _ trivial | exact body | split)
        dsimp only
        repeat (first | exact AccD_failS2 _ _ trivial | exact rest | split)

end SafeC

import SafeC.Lemmas
/-!
# `Acc R W p Q`: every load of `p` is at an address in `R`, every store at an address in `W`,
whatever values the loads return

The access-footprint judgement behind the C02 theorems of the counter-bounded functions: on a
memory in which ONLY `R ∪ W` is mapped (`R` readable, `W` writable), such a program cannot fault and
records no stray access — for every content of memory.
-/
namespace SafeC

inductive Acc (R W : Nat → Prop) : {α : Type} → Prog α → (α → Prop) → Prop where
  | ret {α} {Q : α → Prop} (x : α) : Q x → Acc R W (.ret x) Q
  | load {α} {Q : α → Prop} (a : Nat) (k : Nat → Prog α) : R a → (∀ v, Acc R W (k v) Q) → Acc R W (.load a k) Q
  | store {α} {Q : α → Prop} (a v : Nat) (k : Prog α) : W a → Acc R W k Q → Acc R W (.store a v k) Q
  | emit {α} {Q : α → Prop} (e : Event) (k : Prog α) : Acc R W k Q → Acc R W (.emit e k) Q

namespace Acc

theorem pure {R W : Nat → Prop} {α} {Q : α → Prop} (x : α) (h : Q x) : Acc R W (Pure.pure x : Prog α) Q := .ret x h

theorem bind {R W : Nat → Prop} {α β} {p : Prog α} {f : α → Prog β} {Q : α → Prop} {S : β → Prop}
    (hp : Acc R W p Q) (hf : ∀ x, Q x → Acc R W (f x) S) : Acc R W (p >>= f) S := by
  show Acc R W (p.bind f) S
  induction hp with
  | ret x hx => exact hf x hx
  | load a k ha _ ih => exact .load a _ ha (fun v => ih v hf)
  | store a v k ha _ ih => exact .store a v _ ha (ih hf)
  | emit e k _ ih => exact .emit e _ (ih hf)

theorem conseq {R W : Nat → Prop} {α} {p : Prog α} {Q Q' : α → Prop} (hp : Acc R W p Q) (h : ∀ x, Q x → Q' x) :
    Acc R W p Q' := by
  induction hp with
  | ret x hx => exact .ret x (h x hx)
  | load a k ha _ ih => exact .load a _ ha (fun v => ih v h)
  | store a v k ha _ ih => exact .store a v _ ha (ih h)
  | emit e k _ ih => exact .emit e _ (ih h)

theorem mono {R W R' W' : Nat → Prop} {α} {p : Prog α} {Q : α → Prop} (hp : Acc R W p Q)
    (hr : ∀ a, R a → R' a) (hw : ∀ a, W a → W' a) : Acc R' W' p Q := by
  induction hp with
  | ret x hx => exact .ret x hx
  | load a k ha _ ih => exact .load a _ (hr a ha) (fun v => ih v)
  | store a v k ha _ ih => exact .store a v _ (hw a ha) ih
  | emit e k _ ih => exact .emit e _ ih

theorem loadP {R W : Nat → Prop} (a : Nat) (h : R a) : Acc R W (SafeC.load a) (fun _ => True) :=
  .load a _ h (fun v => .ret v trivial)
theorem storeP {R W : Nat → Prop} (a v : Nat) (h : W a) : Acc R W (SafeC.store a v) (fun _ => True) :=
  .store a v _ h (.ret () trivial)
theorem emitP {R W : Nat → Prop} (e : Event) : Acc R W (SafeC.emit e) (fun _ => True) := .emit e _ (.ret () trivial)
theorem handlerS {R W : Nat → Prop} (c : Nat) : Acc R W (SafeC.handlerS c) (fun _ => True) := emitP _
theorem handlerM {R W : Nat → Prop} (c : Nat) : Acc R W (SafeC.handlerM c) (fun _ => True) := emitP _

/-- **Soundness**: only `R ∪ W` needs to be mapped. -/
theorem sound {R W : Nat → Prop} {α} {p : Prog α} {Q : α → Prop} (h : Acc R W p Q) (st : St)
    (hr : ∀ a, R a → st.mapped a = true ∧ st.rd a = true)
    (hw : ∀ a, W a → st.mapped a = true ∧ st.wr a = true) :
    ∃ r st', exec p st = .ok (r, st') ∧ Q r ∧ st'.strays = st.strays ∧
      (∀ a, ¬ W a → st'.data a = st.data a) := by
  induction h generalizing st with
  | ret x hx => exact ⟨x, st, rfl, hx, rfl, fun _ _ => rfl⟩
  | load a k ha _ ih =>
    obtain ⟨hm, hrd⟩ := hr a ha
    have e : st.noteRd a = st := by simp [St.noteRd, hrd]
    obtain ⟨r, st', he, hq, h1, h2⟩ := ih (st.data a) st hr hw
    exact ⟨r, st', by simp only [exec, hm, if_true, e]; exact he, hq, h1, h2⟩
  | store a v k ha _ ih =>
    obtain ⟨hm, hwr⟩ := hw a ha
    have e : st.noteWr a = st := by simp [St.noteWr, hwr]
    obtain ⟨r, st', he, hq, h1, h2⟩ := ih (st.upd a v) (by simpa using hr) (by simpa using hw)
    refine ⟨r, st', by simp only [exec, hm, if_true, e]; exact he, hq, by simpa using h1, ?_⟩
    intro b hb
    rw [h2 b hb]
    exact St.upd_data_ne _ _ _ _ (by intro hba; subst hba; exact hb ha)
  | emit e k _ ih =>
    obtain ⟨r, st', he, hq, h1, h2⟩ := ih { st with events := st.events ++ [e] } hr hw
    exact ⟨r, st', by simp only [exec]; exact he, hq, h1, h2⟩

end Acc
end SafeC

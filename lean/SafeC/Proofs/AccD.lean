import SafeC.Proofs.Acc
/-!
# `AccD d R p Q`: on the memory contents `d`, every load of the store-free program `p` is at an address in `R`

The value-AWARE companion of `Acc` (which quantifies over every loaded value): a `load a` continues with
the value `d a` only.  This is what the string scans need — which cells `while (*p && n)` reads depends
on where the terminator is — and it lets the footprint `R` itself depend on the contents
(`Str d p n`: the cells of the string at `p`, up to and including its terminator, cut at `n` cells).

`AccD.sound`: on a state whose data is `d` and in which ONLY `R` is mapped and readable the program
returns and records no stray access.
-/
namespace SafeC

inductive AccD (d : Nat → Nat) (R : Nat → Prop) : {α : Type} → Prog α → (α → Prop) → Prop where
  | ret {α} {Q : α → Prop} (x : α) : Q x → AccD d R (.ret x) Q
  | load {α} {Q : α → Prop} (a : Nat) (k : Nat → Prog α) : R a → AccD d R (k (d a)) Q → AccD d R (.load a k) Q
  | emit {α} {Q : α → Prop} (e : Event) (k : Prog α) : AccD d R k Q → AccD d R (.emit e k) Q

namespace AccD

variable {d : Nat → Nat} {R : Nat → Prop}

theorem pure {α} {Q : α → Prop} (x : α) (h : Q x) : AccD d R (Pure.pure x : Prog α) Q := .ret x h

theorem bind {α β} {p : Prog α} {f : α → Prog β} {Q : α → Prop} {S : β → Prop}
    (hp : AccD d R p Q) (hf : ∀ x, Q x → AccD d R (f x) S) : AccD d R (p >>= f) S := by
  show AccD d R (p.bind f) S
  induction hp with
  | ret x hx => exact hf x hx
  | load a k ha _ ih => exact .load a _ ha (ih hf)
  | emit e k _ ih => exact .emit e _ (ih hf)

theorem conseq {α} {p : Prog α} {Q Q' : α → Prop} (hp : AccD d R p Q) (h : ∀ x, Q x → Q' x) :
    AccD d R p Q' := by
  induction hp with
  | ret x hx => exact .ret x (h x hx)
  | load a k ha _ ih => exact .load a _ ha (ih h)
  | emit e k _ ih => exact .emit e _ (ih h)

theorem mono {R' : Nat → Prop} {α} {p : Prog α} {Q : α → Prop} (hp : AccD d R p Q)
    (hr : ∀ a, R a → R' a) : AccD d R' p Q := by
  induction hp with
  | ret x hx => exact .ret x hx
  | load a k ha _ ih => exact .load a _ (hr a ha) ih
  | emit e k _ ih => exact .emit e _ ih

/-- `let v ← load a; f v` continues with the value the memory holds -/
theorem loadBind {α} {f : Nat → Prog α} {Q : α → Prop} {a : Nat} (ha : R a) (h : AccD d R (f (d a)) Q) :
    AccD d R (SafeC.load a >>= f) Q := .load a _ ha h

theorem emitBind {α} {f : Unit → Prog α} {Q : α → Prop} (e : Event) (h : AccD d R (f ()) Q) :
    AccD d R (SafeC.emit e >>= f) Q := .emit e _ h
theorem handlerSBind {α} {f : Unit → Prog α} {Q : α → Prop} (c : Nat) (h : AccD d R (f ()) Q) :
    AccD d R (SafeC.handlerS c >>= f) Q := .emit _ _ h
theorem handlerMBind {α} {f : Unit → Prog α} {Q : α → Prop} (c : Nat) (h : AccD d R (f ()) Q) :
    AccD d R (SafeC.handlerM c >>= f) Q := .emit _ _ h

theorem loadP (a : Nat) (h : R a) : AccD d R (SafeC.load a) (fun v => v = d a) :=
  .load a _ h (.ret _ rfl)
theorem handlerS (c : Nat) : AccD d R (SafeC.handlerS c) (fun _ => True) := .emit _ _ (.ret () trivial)
theorem handlerM (c : Nat) : AccD d R (SafeC.handlerM c) (fun _ => True) := .emit _ _ (.ret () trivial)

/-- a value-independent footprint proof of a store-free program is a value-aware one -/
theorem of_Acc {α} {p : Prog α} {Q : α → Prop} (h : Acc R (fun _ => False) p Q) : AccD d R p Q := by
  induction h with
  | ret x hx => exact .ret x hx
  | load a k ha _ ih => exact .load a _ ha (ih _)
  | store a v k ha _ _ => exact ha.elim
  | emit e k _ ih => exact .emit e _ ih

/-- **Soundness**: only `R` needs to be mapped; the state changes in its events only. -/
theorem sound {α} {p : Prog α} {Q : α → Prop} (h : AccD d R p Q) (st : St) (hd : st.data = d)
    (hr : ∀ a, R a → st.mapped a = true ∧ st.rd a = true) :
    ∃ r st', exec p st = .ok (r, st') ∧ Q r ∧ st'.strays = st.strays ∧ st'.data = st.data := by
  induction h generalizing st with
  | ret x hx => exact ⟨x, st, rfl, hx, rfl, rfl⟩
  | load a k ha _ ih =>
    obtain ⟨hm, hrd⟩ := hr a ha
    have e : st.noteRd a = st := by simp [St.noteRd, hrd]
    obtain ⟨r, st', he, hq, h1, h2⟩ := ih st hd hr
    exact ⟨r, st', by simp only [exec, hm, if_true, e, hd]; exact he, hq, h1, h2⟩
  | emit e k _ ih =>
    obtain ⟨r, st', he, hq, h1, h2⟩ := ih { st with events := st.events ++ [e] } hd hr
    exact ⟨r, st', by simp only [exec]; exact he, hq, h1, h2⟩

end AccD

/-! ## the footprint of a C string -/

/-- `a` is one of the first `n` cells at `p` (as `Props.C02.In`, restated here for the lemma files) -/
def Cells (p n a : Nat) : Prop := p ≤ a ∧ a < p + n

/-- `a` is a cell of the string at `p` cut at `n` cells: one of the first `n` cells, with no terminator
strictly before it — i.e. the characters up to AND INCLUDING the terminator, or the first `n` cells,
whichever is less -/
def Str (d : Nat → Nat) (p n a : Nat) : Prop := p ≤ a ∧ a < p + n ∧ ∀ j, p ≤ j → j < a → ¬ d j = 0

namespace Str
variable {d : Nat → Nat} {p n m a : Nat}

theorem head (h : 0 < n) : Str d p n p := ⟨Nat.le_refl _, by omega, fun j h1 h2 => by omega⟩

theorem succ (h0 : ¬ d p = 0) (h : Str d (p+1) n a) : Str d p (n+1) a := by
  obtain ⟨h1, h2, h3⟩ := h
  refine ⟨by omega, by omega, fun j hj1 hj2 => ?_⟩
  by_cases e : j = p
  · subst e; exact h0
  · exact h3 j (by omega) hj2

/-- `succ` with the cut left open -/
theorem succ' (h0 : ¬ d p = 0) (hn : n + 1 ≤ m) (h : Str d (p+1) n a) : Str d p m a := by
  obtain ⟨h1, h2, h3⟩ := succ h0 h
  exact ⟨h1, by omega, h3⟩

theorem mono (h : n ≤ m) (hs : Str d p n a) : Str d p m a := ⟨hs.1, by have := hs.2.1; omega, hs.2.2⟩

theorem cells (hs : Str d p n a) : Cells p n a := ⟨hs.1, hs.2.1⟩

/-- index form: cell `p+i` belongs to the string when the `i` cells before it are non-NUL -/
theorem at_ (i : Nat) (hi : i < n) (hpre : ∀ j, j < i → ¬ d (p+j) = 0) : Str d p n (p+i) := by
  refine ⟨by omega, by omega, fun j h1 h2 => ?_⟩
  have := hpre (j - p) (by omega)
  rwa [show p + (j - p) = j by omega] at this

theorem at' (i : Nat) (ha : a = p + i) (hi : i < n) (hpre : ∀ j, j < i → ¬ d (p+j) = 0) : Str d p n a :=
  ha ▸ at_ i hi hpre

/-- a terminator at index `i` confines the string to its first `i+1` cells, whatever the cut -/
theorem of_term {i : Nat} (h0 : d (p+i) = 0) (hs : Str d p m a) : Cells p (i+1) a := by
  obtain ⟨h1, _, h3⟩ := hs
  refine ⟨h1, ?_⟩
  apply Classical.byContradiction
  intro hn
  exact h3 (p+i) (by omega) (by omega) h0

end Str

/-- extend a "no terminator among the first `i` cells" fact by one cell -/
theorem pre_succ {d : Nat → Nat} {p i : Nat} (h : ∀ j, j < i → ¬ d (p+j) = 0) (hi : ¬ d (p+i) = 0) :
    ∀ j, j < i+1 → ¬ d (p+j) = 0 := by
  intro j hj
  by_cases e : j = i
  · subst e; exact hi
  · exact h j (by omega)

/-- the cells of the string at `p` (cut at `n`) are mapped and declared readable: the DECLARED extent
of a string source with bound `n` -/
def StrRd (st : St) (p n : Nat) : Prop := ∀ a, Str st.data p n a → st.mapped a = true ∧ st.rd a = true

theorem StrRd.of_RD {st : St} {p n m : Nat} (h : RD st p n) (hm : m ≤ n) : StrRd st p m := by
  intro a ⟨h1, h2, _⟩
  have := h (a - p) (by omega)
  rwa [show p + (a - p) = a by omega] at this

/-- all `n` declared cells readable and a terminator among them: the string is readable at every cut -/
theorem StrRd.of_RD_term {st : St} {p n : Nat} (h : RD st p n) (ht : ∃ i, i < n ∧ st.data (p+i) = 0) (m : Nat) :
    StrRd st p m := by
  intro a hs
  obtain ⟨i, hi, h0⟩ := ht
  obtain ⟨h1, h2⟩ := hs.of_term h0
  have := h (a - p) (by omega)
  rwa [show p + (a - p) = a by omega] at this

theorem StrRd.mono {st : St} {p n m : Nat} (h : StrRd st p n) (hm : m ≤ n) : StrRd st p m :=
  fun a hs => h a (hs.mono hm)

end SafeC

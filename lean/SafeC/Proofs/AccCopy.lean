import SafeC.Proofs.AccFld
import SafeC.Proofs.AccS
import SafeC.Models.Copy
/-!
# Footprint of the bumper-loop copy family (`AccS`: value-aware, stores tracked)

`copyLoop` / `stpLoop` test `dmax`, the overlap bumper and (bounded variants) `slen` BEFORE they dereference `src`:
the source is read inside `Str d src (copyCut bounded dmax slen)` — its string up to and including the terminator, cut at
`min dmax slen` (bounded) / `dmax` cells.  `findEnd` (`while (*dest != '\0')` of the concatenations) decrements and tests
`dmax` before it advances: dest is read inside its `dmax` cells.  Every store lies in dest's `dmax` cells.

NOTHING is assumed about the placement of the two operands: the bumper keeps the loaded cells apart from the stored ones
(`dest < src`: stores stay below `src`; otherwise loads stay below `dest`), so the string at `src` the loop sees is the
one of the contents at the call (`Str.upd_off`).
-/
namespace SafeC
open Gen

variable {R W : Nat → Prop} {d : Nat → Nat}

/-- a store outside `[p, a)` does not change whether `a` is a cell of the string at `p` -/
theorem Str.upd_off {d : Nat → Nat} {p n a a0 v : Nat} (hoff : a0 < p ∨ a ≤ a0) (h : Str (updF d a0 v) p n a) :
    Str d p n a := by
  obtain ⟨h1, h2, h3⟩ := h
  refine ⟨h1, h2, fun j hj1 hj2 => ?_⟩
  have := h3 j hj1 hj2
  simpa [updF, show j ≠ a0 by omega] using this

theorem AccS_nullSlack (p n : Nat) (hw : ∀ a, Cells p n a → W a) : AccS R W d (nullSlack p n) (fun _ _ => True) := by
  unfold nullSlack
  split
  · exact AccS_memsetP 0 n p hw
  · exact AccS_zeroLoop n p hw

/-- `handle_error(dest, len, code); return x` -/
theorem AccS_errRet {α} (cfg : Cfg) (p len code : Nat) (x : α) (hw : ∀ a, Cells p len a → W a) (h0 : W p) :
    AccS R W d (do handleError cfg p len code; pure x : Prog α) (fun _ _ => True) :=
  AccS.bind (AccS_handleError cfg p len code hw h0) (fun _ _ _ => AccS.pure _ trivial)

/-- number of source cells the copy loop may look at: `dmax`, and `slen` when it is a bound -/
def copyCut (bounded : Bool) (dmax slen : Nat) : Nat := if bounded then min dmax slen else dmax

theorem copyCut_mono {b : Bool} {m n slen : Nat} (h : m ≤ n) : copyCut b m slen ≤ copyCut b n slen := by
  unfold copyCut; split <;> omega

/-- where the two pointers are relative to the bumper -/
def Sep (onDest : Bool) (bumper dest src : Nat) : Prop :=
  (onDest = true ∧ dest ≤ bumper ∧ bumper ≤ src) ∨ (onDest = false ∧ src ≤ bumper ∧ bumper ≤ dest)

/-- **the copy loop**: loads inside the string at `src` cut at `copyCut` cells (in the `src < dest` orientation: below
the bumper), stores inside the original dest -/
theorem AccS_copyLoop (cfg : Cfg) (onDest bounded : Bool) (bumper oD oM : Nat) :
    ∀ (dmax dest src slen : Nat) (d : Nat → Nat), Sep onDest bumper dest src →
    (∀ a, (onDest = false → a < bumper) → Str d src (copyCut bounded dmax slen) a → R a) →
    oD ≤ dest → dest + dmax ≤ oD + oM → (∀ a, Cells oD oM a → W a) → W oD →
    AccS R W d (copyLoop cfg onDest bounded bumper oD oM dmax dest src slen) (fun _ _ => True) := by
  intro dmax
  induction dmax with
  | zero =>
    intro dest src slen d _ _ _ _ hwo hw0
    unfold copyLoop
    exact AccS_errRet cfg oD oM _ _ hwo hw0
  | succ n ih =>
    intro dest src slen d hsep hr hlo hhi hwo hw0
    have hwd : ∀ a, Cells dest (n+1) a → W a := fun a ⟨h1, h2⟩ => hwo a ⟨by omega, by omega⟩
    unfold copyLoop
    by_cases hb : (if onDest = true then dest else src) = bumper
    · rw [if_pos hb]; exact AccS_errRet cfg oD oM _ _ hwo hw0
    rw [if_neg hb]
    by_cases hs : bounded = true ∧ slen = 0
    · rw [if_pos hs]
      dsimp only
      split
      · exact AccS.bind (AccS_nullSlack dest (n+1) hwd) (fun _ _ _ => AccS.pure _ trivial)
      · exact AccS.storeBind (hwd _ ⟨by omega, by omega⟩) (AccS.pure _ trivial)
    rw [if_neg hs]
    have hcut : 0 < copyCut bounded (n+1) slen := by
      unfold copyCut; split
      · rename_i hbd; have : slen ≠ 0 := fun e => hs ⟨hbd, e⟩; omega
      · omega
    have hcut' : copyCut bounded n (slen - 1) + 1 ≤ copyCut bounded (n+1) slen := by
      unfold copyCut; split
      · rename_i hbd; have : slen ≠ 0 := fun e => hs ⟨hbd, e⟩; omega
      · omega
    have hside : onDest = false → src < bumper := by
      intro ho
      rcases hsep with ⟨h1, _⟩ | ⟨_, h2, _⟩
      · rw [ho] at h1; cases h1
      · rw [ho] at hb; simp only [Bool.false_eq_true, if_false] at hb; omega
    refine AccS.loadBind (hr src hside (Str.head hcut)) ?_
    refine AccS.storeBind (hwd _ ⟨by omega, by omega⟩) ?_
    split
    · dsimp only
      split
      · exact AccS.bind (AccS_nullSlack dest (n+1) hwd) (fun _ _ _ => AccS.pure _ trivial)
      · exact AccS.pure _ trivial
    · rename_i hc
      refine ih (dest+1) (src+1) (slen-1) _ ?_ ?_ (by omega) (by omega) hwo hw0
      · rcases hsep with ⟨h1, h2, h3⟩ | ⟨h1, h2, h3⟩
        · refine Or.inl ⟨h1, ?_, by omega⟩
          rw [h1] at hb; simp only [if_true] at hb; omega
        · refine Or.inr ⟨h1, ?_, by omega⟩
          have := hside h1; omega
      · intro a ha hstr
        refine hr a ha (Str.succ' hc hcut' (Str.upd_off ?_ hstr))
        rcases hsep with ⟨h1, h2, h3⟩ | ⟨h1, h2, h3⟩
        · left
          rw [h1] at hb; simp only [if_true] at hb; omega
        · right
          have := ha h1; omega

/-- **`while (*dest != '\0')` of the concatenations**: reads inside dest's `dmax` cells; at the terminator the contents
are those at the call and the remaining room lies inside dest -/
theorem AccS_findEnd (cfg : Cfg) (chk : Bool) (bumper oD oM : Nat) :
    ∀ (dmax dest : Nat) (d : Nat → Nat), 0 < dmax → (chk = true → dest ≤ bumper) →
    (∀ a, Cells dest dmax a → R a) → (∀ a, Cells oD oM a → W a) → W oD →
    AccS R W d (findEnd cfg chk bumper oD oM dmax dest)
      (fun r d' => match r with
        | .inl _ => True
        | .inr (p, m) => d' = d ∧ dest ≤ p ∧ p + m = dest + dmax ∧ (chk = true → p ≤ bumper)) := by
  intro dmax
  induction dmax with
  | zero => intro _ _ h; omega
  | succ n ih =>
    intro dest d _ hb hr hwo hw0
    unfold findEnd
    refine AccS.loadBind (hr _ ⟨by omega, by omega⟩) ?_
    split
    · exact AccS.pure _ ⟨rfl, Nat.le_refl _, rfl, hb⟩
    · split
      · exact AccS.bind (AccS_handleError cfg oD oM _ hwo hw0) (fun _ _ _ => AccS.pure _ trivial)
      · rename_i hnb
        split
        · exact AccS.bind (AccS_handleError cfg oD oM _ hwo hw0) (fun _ _ _ => AccS.pure _ trivial)
        · rename_i hn
          refine (ih (dest+1) d (by omega) (fun hc => ?_) (fun a ⟨h1, h2⟩ => hr a ⟨by omega, by omega⟩) hwo hw0).conseq
            (fun r d' hq => ?_)
          · have := hb hc
            have : dest ≠ bumper := fun e => hnb ⟨hc, e⟩
            omega
          · cases r with
            | inl c => trivial
            | inr pm =>
              obtain ⟨p, m⟩ := pm
              obtain ⟨g1, g2, g3, g4⟩ := hq
              exact ⟨g1, by omega, by omega, g4⟩

/-- `findEnd` then `copyLoop`: the body of `strcat_s strncat_s wcscat_s wcsncat_s` in one orientation -/
theorem AccS_catBody (cfg : Cfg) (onDest bounded : Bool) (bumper dest dmax src slen : Nat) (hpos : 0 < dmax)
    (hsep : Sep onDest bumper dest src)
    (hrs : ∀ a, Str d src (copyCut bounded dmax slen) a → R a)
    (hrd : ∀ a, Cells dest dmax a → R a) (hw : ∀ a, Cells dest dmax a → W a) :
    AccS R W d (do
      match ← findEnd cfg onDest bumper dest dmax dmax dest with
      | .inl code => pure code
      | .inr (p, m) => copyLoop cfg onDest bounded bumper dest dmax m p src slen : Prog Nat) (fun _ _ => True) := by
  have hw0 : W dest := hw _ ⟨Nat.le_refl _, by omega⟩
  have hb : onDest = true → dest ≤ bumper := by
    intro ho
    rcases hsep with ⟨_, h, _⟩ | ⟨h, _⟩
    · exact h
    · rw [ho] at h; cases h
  refine AccS.bind (AccS_findEnd cfg onDest bumper dest dmax dmax dest d hpos hb hrd hw hw0) (fun r d' hq => ?_)
  cases r with
  | inl c => exact AccS.pure _ trivial
  | inr pm =>
    obtain ⟨p, m⟩ := pm
    obtain ⟨g1, g2, g3, g4⟩ := hq
    subst g1
    refine AccS_copyLoop cfg onDest bounded bumper dest dmax m p src slen _ ?_ ?_ g2 (by omega) hw hw0
    · rcases hsep with ⟨h1, h2, h3⟩ | ⟨h1, h2, h3⟩
      · exact Or.inl ⟨h1, g4 h1, h3⟩
      · exact Or.inr ⟨h1, h2, by omega⟩
    · intro a _ hs
      exact hrs a (hs.mono (copyCut_mono (by omega)))

/-! ## the entry checks -/

theorem AccS_strnlen_s_le (str smax : Nat) (b : Bos) (hr : str ≠ 0 → ∀ a, Cells str smax a → R a) :
    AccS R W d (strnlen_s str smax b) (fun r d' => d' = d ∧ r ≤ smax) := by
  have := AccD.of_Acc (d := d) (Acc_strnlen_s_le (R := R) str smax b hr)
  exact (AccS.of_AccD this)

theorem Acc_wcsnlenLoop_le (smax str count : Nat) (hr : ∀ a, Cells str smax a → R a) :
    Acc R (fun _ => False) (wcsnlenLoop smax str count) (fun r => r ≤ count + smax) := by
  induction smax generalizing str count with
  | zero => unfold wcsnlenLoop; exact Acc.pure _ (by omega)
  | succ n ih =>
    unfold wcsnlenLoop
    refine Acc.loadBind (hr _ ⟨by omega, by omega⟩) (fun c => ?_)
    split
    · exact Acc.pure _ (by omega)
    · exact (ih (str+1) (count+1) (fun a ⟨h1, h2⟩ => hr a ⟨by omega, by omega⟩)).conseq (fun r h => by omega)

theorem AccS_wcsnlen_s_le (str smax : Nat) (hr : str ≠ 0 → ∀ a, Cells str smax a → R a) :
    AccS R W d (wcsnlen_s str smax) (fun r d' => d' = d ∧ r ≤ smax) := by
  have h : Acc R (fun _ => False) (wcsnlen_s str smax) (fun r => r ≤ smax) := by
    unfold wcsnlen_s
    split
    · exact Acc.pure _ (by omega)
    · split
      · exact Acc.handlerSBind _ (Acc.pure _ (by omega))
      · split
        · exact Acc.handlerSBind _ (Acc.pure _ (by omega))
        · exact (Acc_wcsnlenLoop_le smax str 0 (hr ‹_›)).conseq (fun r h => by omega)
  exact AccS.of_AccD (AccD.of_Acc h)

/-- `len = strnlen_s(dest, dmax); handle_error(dest, len, code); return x` -/
theorem AccS_lenClear {α} (cfg : Cfg) (dest dmax code : Nat) (x : α) (hpos : dmax ≠ 0)
    (hr : ∀ a, Cells dest dmax a → R a) (hw : ∀ a, Cells dest dmax a → W a) :
    AccS R W d (do
      let l ← strnlen_s dest dmax none
      handleError cfg dest l code
      pure x : Prog α) (fun _ _ => True) := by
  refine AccS.bind (AccS_strnlen_s_le dest dmax none (fun _ => hr)) (fun l d' ⟨_, hl⟩ => ?_)
  exact AccS_errRet cfg dest l code x (fun a ⟨h1, h2⟩ => hw a ⟨h1, by omega⟩) (hw _ ⟨Nat.le_refl _, by omega⟩)

theorem AccS_wlenClear {α} (cfg : Cfg) (dest dmax code : Nat) (x : α) (hpos : dmax ≠ 0)
    (hr : ∀ a, Cells dest dmax a → R a) (hw : ∀ a, Cells dest dmax a → W a) :
    AccS R W d (do
      let l ← wcsnlen_s dest dmax
      handleError cfg dest l code
      pure x : Prog α) (fun _ _ => True) := by
  refine AccS.bind (AccS_wcsnlen_s_le dest dmax (fun _ => hr)) (fun l d' ⟨_, hl⟩ => ?_)
  exact AccS_errRet cfg dest l code x (fun a ⟨h1, h2⟩ => hw a ⟨h1, by omega⟩) (hw _ ⟨Nat.le_refl _, by omega⟩)

theorem AccS_handleStrBosOverflow (cfg : Cfg) (p n : Nat) (hr : ∀ a, Cells p n a → R a)
    (hw : ∀ a, Cells p (max n 1) a → W a) : AccS R W d (handleStrBosOverflow cfg p n) (fun _ _ => True) :=
  AccS.of_Acc (Acc_handleStrBosOverflow' cfg p n hr hw) d

/-- `CHK_DMAX_MAX` / `CHK_DEST_OVR_CLEAR`: with a known object size below `dmax` the first `destbos` cells are measured
and cleared; the continuation runs with `dmax ≤ destbos` -/
theorem AccS_chkDmaxClearG' {α} (mk : Nat → α) (cfg : Cfg) (dest dmax : Nat) (b : Bos) (max : Nat) {k : Prog α}
    (hpos : dmax ≠ 0) (hr : ∀ a, Cells dest dmax a → R a) (hw : ∀ a, Cells dest dmax a → W a)
    (hk : (∀ bos, b = some bos → dmax ≤ bos) → AccS R W d k (fun _ _ => True)) :
    AccS R W d (chkDmaxClearG mk cfg dest dmax b max k) (fun _ _ => True) := by
  unfold chkDmaxClearG
  have h0 : W dest := hw _ ⟨by omega, by omega⟩
  split
  · split
    · exact AccS.handlerSBind _ (AccS.pure _ trivial)
    · exact hk (fun _ h => by cases h)
  · rename_i bos
    split
    · rename_i hgt
      split
      · exact AccS_errRet cfg dest bos _ _ (fun a ⟨h1, h2⟩ => hw a ⟨h1, by omega⟩) h0
      · exact AccS.bind (AccS_handleStrBosOverflow cfg dest bos
            (fun a ⟨h1, h2⟩ => hr a ⟨h1, by omega⟩) (fun a ⟨h1, h2⟩ => hw a ⟨h1, by omega⟩)) (fun _ _ _ => AccS.pure _ trivial)
    · rename_i hle
      exact hk (fun b' h => by cases h; omega)

theorem AccS_chkDmaxClearG {α} (mk : Nat → α) (cfg : Cfg) (dest dmax : Nat) (b : Bos) (max : Nat) {k : Prog α}
    (hpos : dmax ≠ 0) (hr : ∀ a, Cells dest dmax a → R a) (hw : ∀ a, Cells dest dmax a → W a)
    (hk : AccS R W d k (fun _ _ => True)) :
    AccS R W d (chkDmaxClearG mk cfg dest dmax b max k) (fun _ _ => True) :=
  AccS_chkDmaxClearG' mk cfg dest dmax b max hpos hr hw (fun _ => hk)

theorem AccS_chkDmaxClear' (cfg : Cfg) (dest dmax : Nat) (b : Bos) (max : Nat) {k : Prog Nat}
    (hpos : dmax ≠ 0) (hr : ∀ a, Cells dest dmax a → R a) (hw : ∀ a, Cells dest dmax a → W a)
    (hk : (∀ bos, b = some bos → dmax ≤ bos) → AccS R W d k (fun _ _ => True)) :
    AccS R W d (chkDmaxClear cfg dest dmax b max k) (fun _ _ => True) := by
  unfold chkDmaxClear; exact AccS_chkDmaxClearG' id cfg dest dmax b max hpos hr hw hk

theorem AccS_chkDmaxClear (cfg : Cfg) (dest dmax : Nat) (b : Bos) (max : Nat) {k : Prog Nat}
    (hpos : dmax ≠ 0) (hr : ∀ a, Cells dest dmax a → R a) (hw : ∀ a, Cells dest dmax a → W a)
    (hk : AccS R W d k (fun _ _ => True)) :
    AccS R W d (chkDmaxClear cfg dest dmax b max k) (fun _ _ => True) :=
  AccS_chkDmaxClear' cfg dest dmax b max hpos hr hw (fun _ => hk)

theorem AccS_chkDmaxW (dmax : Nat) (b : Bos) {k : Prog Nat} (hk : AccS R W d k (fun _ _ => True)) :
    AccS R W d (chkDmaxW dmax b k) (fun _ _ => True) := by
  unfold chkDmaxW
  repeat (first | assumption | exact AccS_failS _ trivial | split)

theorem AccS_chkSlenMaxClear (cfg : Cfg) (dest dmax slen max : Nat) {k : Prog Nat} (hpos : dmax ≠ 0)
    (hr : ∀ a, Cells dest dmax a → R a) (hw : ∀ a, Cells dest dmax a → W a)
    (hk : AccS R W d k (fun _ _ => True)) :
    AccS R W d (chkSlenMaxClear cfg dest dmax slen max k) (fun _ _ => True) := by
  unfold chkSlenMaxClear
  split
  · exact AccS_lenClear cfg dest dmax _ _ hpos hr hw
  · exact hk

/-- the two orientations of a plain copy -/
theorem AccS_copyBody (cfg : Cfg) (bounded : Bool) (dest dmax src slen : Nat)
    (hrs : ∀ a, Str d src (copyCut bounded dmax slen) a → R a) (hw : ∀ a, Cells dest dmax a → W a) (hw0 : W dest) :
    AccS R W d (if dest < src then copyLoop cfg true bounded src dest dmax dmax dest src slen
      else copyLoop cfg false bounded dest dest dmax dmax dest src slen) (fun _ _ => True) := by
  split
  · exact AccS_copyLoop cfg true bounded src dest dmax dmax dest src slen d (Or.inl ⟨rfl, by omega, Nat.le_refl _⟩)
      (fun a _ h => hrs a h) (Nat.le_refl _) (Nat.le_refl _) hw hw0
  · exact AccS_copyLoop cfg false bounded dest dest dmax dmax dest src slen d (Or.inr ⟨rfl, by omega, Nat.le_refl _⟩)
      (fun a _ h => hrs a h) (Nat.le_refl _) (Nat.le_refl _) hw hw0

/-- the two orientations of a concatenation -/
theorem AccS_catBody2 (cfg : Cfg) (bounded : Bool) (dest dmax src slen : Nat) (hpos : 0 < dmax)
    (hrs : ∀ a, Str d src (copyCut bounded dmax slen) a → R a)
    (hrd : ∀ a, Cells dest dmax a → R a) (hw : ∀ a, Cells dest dmax a → W a) :
    AccS R W d (if dest < src then do
        match ← findEnd cfg true src dest dmax dmax dest with
        | .inl code => pure code
        | .inr (p, m) => copyLoop cfg true bounded src dest dmax m p src slen
      else do
        match ← findEnd cfg false dest dest dmax dmax dest with
        | .inl code => pure code
        | .inr (p, m) => copyLoop cfg false bounded dest dest dmax m p src slen : Prog Nat) (fun _ _ => True) := by
  split
  · exact AccS_catBody cfg true bounded src dest dmax src slen hpos (Or.inl ⟨rfl, by omega, Nat.le_refl _⟩) hrs hrd hw
  · exact AccS_catBody cfg false bounded dest dest dmax src slen hpos (Or.inr ⟨rfl, by omega, Nat.le_refl _⟩) hrs hrd hw

end SafeC

import SafeC.Proofs.NormTables
import SafeC.Proofs.UnicodeSpec
/-!
# C17 — the tree's tables against UCD 14.0, code point by code point (kernel-checked)

Only blocks of 256 code points in which one of the four paged tables (tree: canon / combin; reference: dm / ccc) has a page are
enumerated; for the other blocks both sides are trivially "no mapping, class 0" by the shape of the lookups.
-/
namespace SafeC.Norm
open SafeC.Gen

/-- `P` on every code point of every block that `I` selects -/
def allBlocks (I : Nat → Bool) (P : Nat → Bool) : Bool :=
  allBelow (fun b => !I b || allBelow (fun i => P (b * 256 + i)) 256) 0x1100

theorem allBlocks_spec {I P : Nat → Bool} (h : allBlocks I P = true) {c : Nat} (hc : c < 0x110000)
    (hi : I (c / 256) = true) : P c = true := by
  have hb : c / 256 < 0x1100 := by omega
  have h1 := allBelow_spec h _ hb
  simp only [hi, Bool.not_true, Bool.false_or] at h1
  have h2 := allBelow_spec h1 (c % 256) (Nat.mod_lt _ (by omega))
  have : c / 256 * 256 + c % 256 = c := by omega
  rwa [this] at h2

/-- the row reached for a code point depends on its block only -/
theorem rowId_block (mN m p c : Nat) : rowId mN m p c = rowId mN m p (c / 256 * 256) := by
  unfold rowId
  have h1 : c / 256 * 256 / 65536 = c / 65536 := by omega
  have h2 : c / 256 * 256 / 256 % 256 = c / 256 % 256 := by omega
  rw [h1, h2]

/-! ## combining classes -/

def cccBlock (b : Nat) : Bool :=
  rowId UniCombin.mainN UniCombin.main UniCombin.planes (b * 256) != some 0 || cell 16 UCD14.cccIdx b != 0

def cccOk (c : Nat) : Bool := !UCD.assigned c || combinClass c == some (UCD.ccc c)

set_option maxRecDepth 100000 in
theorem ccc_check : allBlocks cccBlock cccOk = true := by decide +kernel

/-! ## canonical decompositions -/

def dmBlock (b : Nat) : Bool :=
  rowId UniCanon.mainN UniCanon.main UniCanon.planes (b * 256) != some 0 || cell 16 UCD14.dmIdx b != 0

/-- the tree's stored (full) decomposition of `c` is the recursive expansion of UCD's single-step mappings; the expansion
contains only assigned code points that UCD does not decompose further.  U+037E is the one exception in the tree (finding) -/
def dmOk (c : Nat) : Bool :=
  (!UCD.assigned c || isS c || c == 0x37E || decompose1 c == UCD.fullDecomp 4 c) &&
  (isS c || (UCD.fullDecomp 4 c).all fun d => (UCD.dm d).isNone && !UCD.isHangulS d && (!UCD.assigned c || UCD.assigned d))

set_option maxRecDepth 100000 in
theorem dm_check : allBlocks dmBlock dmOk = true := by decide +kernel

/-- the one assigned code point whose decomposition the tree's lookup loses -/
theorem dm_37e_witness : UCD.assigned 0x37E = true ∧ decompose1 0x37E = [0x37E] ∧ UCD.fullDecomp 4 0x37E = [0x3B] := by decide +kernel

end SafeC.Norm

import SafeC.Proofs.StpSteps
/-!
# `stpcpy_s` / `stpncpy_s`: the complete outcome for EVERY placement of a readable source

`g` = distance between the two pointers, `m` = number of characters the call would copy (the length of the source
string, for `stpncpy_s` capped by `slen`).  `stpBody_cases`:
* `g ≤ m`, `g < dmax`  — the copy would run into the other operand: `(NULL, ESOVRLP)`, dest cleared;
* `m < dmax`, `m < g`  — `(dest + m, EOK)`, `dest[0..m) = src[0..m)`, `dest[m] = 0`, null-slack zeros behind;
* `dmax ≤ m`, `dmax ≤ g` — `(NULL, ESNOSPC)`, dest cleared.
The three cases are exhaustive and exclusive (`g ≥ 1`).  `stpSameWalk_exact`: the `src == dest` walk.
-/
namespace SafeC
open Gen

structure StpAll (cfg : Cfg) (dest dmax src m g : Nat) (st st' : St) (r : Nat × Nat) : Prop where
  hit : g ≤ m → g < dmax → r = (0, ESOVRLP) ∧ ClearedPost cfg dest dmax ESOVRLP st st'
  done : m < dmax → m < g → r = (dest + m, EOK) ∧ StpDone cfg dest dmax src m st st'
  full : dmax ≤ m → dmax ≤ g → r = (0, ESNOSPC) ∧ ClearedPost cfg dest dmax ESNOSPC st st'

theorem StpAll.of_hit {cfg : Cfg} {dest dmax src m g : Nat} {st st' : St}
    (h1 : g ≤ m) (h2 : g < dmax) (h : ClearedPost cfg dest dmax ESOVRLP st st') :
    StpAll cfg dest dmax src m g st st' (0, ESOVRLP) :=
  ⟨fun _ _ => ⟨rfl, h⟩, fun _ _ => by omega, fun _ _ => by omega⟩

theorem StpAll.of_done {cfg : Cfg} {dest dmax src m g : Nat} {st st' : St}
    (h1 : m < dmax) (h2 : m < g) (h : StpDone cfg dest dmax src m st st') :
    StpAll cfg dest dmax src m g st st' (dest + m, EOK) :=
  ⟨fun _ _ => by omega, fun _ _ => ⟨rfl, h⟩, fun _ _ => by omega⟩

theorem StpAll.of_full {cfg : Cfg} {dest dmax src m g : Nat} {st st' : St}
    (h1 : dmax ≤ m) (h2 : dmax ≤ g) (h : ClearedPost cfg dest dmax ESNOSPC st st') :
    StpAll cfg dest dmax src m g st st' (0, ESNOSPC) :=
  ⟨fun _ _ => by omega, fun _ _ => by omega, fun _ _ => ⟨rfl, h⟩⟩

/-- **the body shared by both entry points, any placement with `src ≠ dest`** -/
theorem stpBody_cases (cfg : Cfg) (isN : Bool) (dest dmax src m g slen : Nat) (srcbos : Bos) (st : St)
    (hall : ∀ a, st.mapped a = true ∧ st.rd a = true)
    (hpos : 0 < dmax) (hrw : RW st dest dmax)
    (hg : 0 < g ∧ ((dest < src ∧ src = dest + g) ∨ (src < dest ∧ dest = src + g)))
    (hnz : ∀ j, j < m → st.data (src+j) ≠ 0)
    (hfin : ((isN = true → m < slen) ∧ st.data (src+m) = 0) ∨ (isN = true ∧ slen = m))
    (hun : ∀ i, i < m → untermB srcbos (stpSlen isN slen (i+1)) = false) :
    ∃ r st', exec (stpBody cfg isN dest dmax src slen srcbos) st = .ok (r, st') ∧
      StpAll cfg dest dmax src m g st st' r := by
  have hsl : isN = true → m ≤ slen := by
    intro h; rcases hfin with h1 | h1
    · have := h1.1 h; omega
    · omega
  unfold stpBody
  have hne : dest ≠ src := by omega
  rw [if_neg hne]
  by_cases hA : g ≤ m ∧ g < dmax
  · -- the bumper is met after g iterations
    rcases hg.2 with ⟨hlt, he⟩ | ⟨hlt, he⟩
    · rw [if_pos hlt]
      obtain ⟨st', hx, hp⟩ := stpLoop_hit cfg isN true src dest dmax hpos srcbos dmax dest src g slen st hall hrw
        ⟨Nat.le_refl _, rfl⟩ hA.2 (fun j hj => hnz j (by omega)) (by intro i j _ _; omega)
        (by intro j hj; simp only [if_true]; omega) (by simp only [if_true]; omega)
        (fun h => by have := hsl h; omega) (fun i hi => hun i (by omega))
      exact ⟨_, st', hx, StpAll.of_hit hA.1 hA.2 hp⟩
    · rw [if_neg (by omega)]
      obtain ⟨st', hx, hp⟩ := stpLoop_hit cfg isN false dest dest dmax hpos srcbos dmax dest src g slen st hall hrw
        ⟨Nat.le_refl _, rfl⟩ hA.2 (fun j hj => hnz j (by omega)) (by intro i j _ _; omega)
        (by intro j hj; simp only [Bool.false_eq_true, if_false]; omega)
        (by simp only [Bool.false_eq_true, if_false]; omega)
        (fun h => by have := hsl h; omega) (fun i hi => hun i (by omega))
      exact ⟨_, st', hx, StpAll.of_hit hA.1 hA.2 hp⟩
  by_cases hB : m < dmax
  · have hmg : m < g := by omega
    rcases hg.2 with ⟨hlt, he⟩ | ⟨hlt, he⟩
    · rw [if_pos hlt]
      obtain ⟨st', hx, hp⟩ := stpLoop_done cfg isN true src dest dmax srcbos dmax dest src m slen st hall hrw hB hnz
        (by intro i j _ _; omega) (by intro j hj; simp only [if_true]; omega) hfin hun
      exact ⟨_, st', hx, StpAll.of_done hB hmg hp⟩
    · rw [if_neg (by omega)]
      obtain ⟨st', hx, hp⟩ := stpLoop_done cfg isN false dest dest dmax srcbos dmax dest src m slen st hall hrw hB hnz
        (by intro i j _ _; omega) (by intro j hj; simp only [Bool.false_eq_true, if_false]; omega) hfin hun
      exact ⟨_, st', hx, StpAll.of_done hB hmg hp⟩
  · have hC1 : dmax ≤ m := by omega
    have hC2 : dmax ≤ g := by omega
    rcases hg.2 with ⟨hlt, he⟩ | ⟨hlt, he⟩
    · rw [if_pos hlt]
      obtain ⟨st', hx, hp⟩ := stpLoop_full cfg isN true src dest dmax hpos srcbos dmax dest src slen st hall hrw
        ⟨Nat.le_refl _, rfl⟩ (fun j hj => hnz j (by omega)) (by intro i j _ _; omega)
        (by intro j hj; simp only [if_true]; omega)
        (fun h => by have := hsl h; omega) (fun i hi => hun i (by omega))
      exact ⟨_, st', hx, StpAll.of_full hC1 hC2 hp⟩
    · rw [if_neg (by omega)]
      obtain ⟨st', hx, hp⟩ := stpLoop_full cfg isN false dest dest dmax hpos srcbos dmax dest src slen st hall hrw
        ⟨Nat.le_refl _, rfl⟩ (fun j hj => hnz j (by omega)) (by intro i j _ _; omega)
        (by intro j hj; simp only [Bool.false_eq_true, if_false]; omega)
        (fun h => by have := hsl h; omega) (fun i hi => hun i (by omega))
      exact ⟨_, st', hx, StpAll.of_full hC1 hC2 hp⟩

/-- ESOVRLP exactly in the first case -/
theorem StpAll.ovrlp_iff {cfg : Cfg} {dest dmax src m g : Nat} {st st' : St} {r : Nat × Nat}
    (hg : 0 < g) (h : StpAll cfg dest dmax src m g st st' r) : r.2 = ESOVRLP ↔ g ≤ m ∧ g < dmax := by
  by_cases hA : g ≤ m ∧ g < dmax
  · rw [(h.hit hA.1 hA.2).1]; exact ⟨fun _ => hA, fun _ => rfl⟩
  by_cases hB : m < dmax
  · rw [(h.done hB (by omega)).1]
    exact ⟨fun hc => absurd (show EOK = ESOVRLP from hc) (by decide), fun hc => absurd hc hA⟩
  · rw [(h.full (by omega) (by omega)).1]; exact ⟨fun hc => absurd hc (by decide), fun hc => absurd hc hA⟩

/-- **the copy runs into the other operand** (source possibly unterminated): the first `g` characters are non-NUL,
the meeting point lies inside dest, `slen` (bounded variant) reaches it -/
theorem stpBody_overlap (cfg : Cfg) (isN : Bool) (dest dmax src g slen : Nat) (srcbos : Bos) (st : St)
    (hall : ∀ a, st.mapped a = true ∧ st.rd a = true)
    (hpos : 0 < dmax) (hrw : RW st dest dmax)
    (hg : 0 < g ∧ ((dest < src ∧ src = dest + g) ∨ (src < dest ∧ dest = src + g)))
    (hgd : g < dmax)
    (hnz : ∀ j, j < g → st.data (src+j) ≠ 0)
    (hsl : isN = true → g ≤ slen)
    (hun : ∀ i, i < g → untermB srcbos (stpSlen isN slen (i+1)) = false) :
    ∃ st', exec (stpBody cfg isN dest dmax src slen srcbos) st = .ok ((0, ESOVRLP), st') ∧
      ClearedPost cfg dest dmax ESOVRLP st st' := by
  unfold stpBody
  have hne : dest ≠ src := by omega
  rw [if_neg hne]
  rcases hg.2 with ⟨hlt, he⟩ | ⟨hlt, he⟩
  · rw [if_pos hlt]
    exact stpLoop_hit cfg isN true src dest dmax hpos srcbos dmax dest src g slen st hall hrw
      ⟨Nat.le_refl _, rfl⟩ hgd hnz (by intro i j _ _; omega)
      (by intro j hj; simp only [if_true]; omega) (by simp only [if_true]; omega) hsl hun
  · rw [if_neg (by omega)]
    exact stpLoop_hit cfg isN false dest dest dmax hpos srcbos dmax dest src g slen st hall hrw
      ⟨Nat.le_refl _, rfl⟩ hgd hnz (by intro i j _ _; omega)
      (by intro j hj; simp only [Bool.false_eq_true, if_false]; omega)
      (by simp only [Bool.false_eq_true, if_false]; omega) hsl hun

/-! ## the entry checks on usable arguments -/

theorem stpcpy_s_eq_body (cfg : Cfg) (dest dmax src : Nat) (destbos srcbos : Bos)
    (hd : dest ≠ 0) (hs : src ≠ 0) (hpos : 0 < dmax) (hle : dmax ≤ RSIZE_MAX_STR)
    (hb : ∀ b, destbos = some b → dmax ≤ b) :
    stpcpy_s cfg dest dmax src destbos srcbos = stpBody cfg false dest dmax src 0 srcbos := by
  unfold stpcpy_s
  have hz : dmax ≠ 0 := by omega
  rw [if_neg hd, if_neg hz]
  unfold chkDmaxClearG
  cases destbos with
  | none => simp only; rw [if_neg (by omega), if_neg hs]
  | some b => simp only; rw [if_neg (by have := hb b rfl; omega), if_neg hs]

theorem stpncpy_s_eq_body (cfg : Cfg) (dest dmax src slen : Nat) (destbos srcbos : Bos)
    (hd : dest ≠ 0) (hs : src ≠ 0) (hpos : 0 < dmax) (hle : dmax ≤ RSIZE_MAX_STR) (hslenle : slen ≤ RSIZE_MAX_STR)
    (hb : ∀ b, destbos = some b → dmax ≤ b) (hsb : ∀ sb, srcbos = some sb → slen ≤ sb) :
    stpncpy_s cfg dest dmax src slen destbos srcbos = stpBody cfg true dest dmax src slen srcbos := by
  unfold stpncpy_s
  have hz : dmax ≠ 0 := by omega
  have hsx : ¬ slen > RSIZE_MAX_STR := by omega
  rw [if_neg hd, if_neg hz]
  unfold chkDmaxClearG
  cases destbos with
  | none =>
    simp only
    rw [if_neg (by omega), if_neg hs, if_neg hsx]
    cases srcbos with
    | none => rfl
    | some sb => simp only; rw [if_neg (by have := hsb sb rfl; omega)]
  | some b =>
    simp only
    rw [if_neg (by have := hb b rfl; omega), if_neg hs, if_neg hsx]
    cases srcbos with
    | none => rfl
    | some sb => simp only; rw [if_neg (by have := hsb sb rfl; omega)]

/-! ## `src == dest` -/

/-- the success exit on a cell that already holds the terminator: with null-slack the `k` cells from it are
zeroed, otherwise (also when `stpncpy_s` stores its NUL over the NUL) the memory is unchanged -/
theorem stpEok_exact (cfg : Cfg) (isN : Bool) (d k : Nat) (st : St) (hw : RW st d k) (hk : 0 < k)
    (h0 : st.data d = 0) :
    ∃ st', exec (stpEok cfg isN d k) st = .ok ((d, EOK), st') ∧ SameMeta st' st ∧
      (∀ a, st'.data a = if cfg.slack = true ∧ d ≤ a ∧ a < d + k then 0 else st.data a) := by
  unfold stpEok
  cases hcs : cfg.slack with
  | true =>
    obtain ⟨st', he, hm, hd⟩ := nullSlack_ok d k st hw
    refine ⟨st', by simp [exec_bind, he], hm, fun a => ?_⟩
    rw [hd a]; simp
  | false =>
    have hh := hw 0 hk
    simp only [Nat.add_zero] at hh
    cases hn : isN with
    | true =>
      refine ⟨st.upd d 0, by simp [exec_bind, exec_store_ok _ _ _ hh.1 hh.2.1], SameMeta.upd _ _ _, fun a => ?_⟩
      simp only [Bool.false_eq_true, false_and, if_false]
      by_cases ha : a = d
      · subst ha; simp [h0]
      · exact St.upd_data_ne _ _ _ _ ha
    | false => exact ⟨st, by simp, SameMeta.refl _, fun a => by simp⟩

/-- **the `src == dest` walk, exactly**: dest holds `n` non-NUL cells followed by a NUL inside the `k` cells:
`(d + n, EOK)`, no event, memory unchanged but for the null-slack zeros behind the terminator; no NUL in the
`k` cells: `(NULL, ESNOSPC)`, dest cleared -/
theorem stpSameWalk_exact (cfg : Cfg) (isN : Bool) (oD oM : Nat) (hoM : 0 < oM) (n : Nat) :
    ∀ (k d : Nat) (st : St), RW st oD oM → (oD ≤ d ∧ d + k = oD + oM) →
    (∀ j, j < n → j < k → st.data (d+j) ≠ 0) → (n < k → st.data (d+n) = 0) →
    ∃ r st', exec (stpSameWalk cfg isN oD oM k d) st = .ok (r, st') ∧
      (n < k → r = (d + n, EOK) ∧ SameMeta st' st ∧
        ∀ a, st'.data a = if cfg.slack = true ∧ d + n ≤ a ∧ a < d + k then 0 else st.data a) ∧
      (k ≤ n → r = (0, ESNOSPC) ∧ ClearedPost cfg oD oM ESNOSPC st st') := by
  induction n with
  | zero =>
    intro k d st hrw hinv _ hz
    cases k with
    | zero =>
      unfold stpSameWalk
      obtain ⟨st', he, hp⟩ := stpFail_cleared cfg oD oM ESNOSPC st hrw hoM
      exact ⟨_, st', he, fun h => by omega, fun _ => ⟨rfl, hp⟩⟩
    | succ k =>
      have hsub : RW st d (k+1) := hrw.sub' (by omega)
      obtain ⟨hm, _, hr⟩ := hsub.head
      have h0 : st.data d = 0 := by simpa using hz (by omega)
      unfold stpSameWalk
      simp only [exec_bind, exec_load_ok _ _ hm hr, h0, if_true]
      obtain ⟨st', he, hmeta, hd⟩ := stpEok_exact cfg isN d (k+1) st hsub (by omega) h0
      exact ⟨_, st', he, fun _ => ⟨rfl, hmeta, by simpa using hd⟩, fun h => by omega⟩
  | succ n ih =>
    intro k d st hrw hinv hnz hz
    cases k with
    | zero =>
      unfold stpSameWalk
      obtain ⟨st', he, hp⟩ := stpFail_cleared cfg oD oM ESNOSPC st hrw hoM
      exact ⟨_, st', he, fun h => by omega, fun _ => ⟨rfl, hp⟩⟩
    | succ k =>
      have hsub : RW st d (k+1) := hrw.sub' (by omega)
      obtain ⟨hm, _, hr⟩ := hsub.head
      have hc : st.data d ≠ 0 := by simpa using hnz 0 (by omega) (by omega)
      unfold stpSameWalk
      simp only [exec_bind, exec_load_ok _ _ hm hr, hc, if_false]
      obtain ⟨r, st', he, hok, hfail⟩ := ih k (d+1) st hrw (by omega)
        (by
          intro j hj hjk
          have := hnz (j+1) (by omega) (by omega)
          have e : d + 1 + j = d + (j+1) := by omega
          rw [e]; exact this)
        (by
          intro h
          have := hz (by omega)
          have e : d + 1 + n = d + (n+1) := by omega
          rw [e]; exact this)
      refine ⟨r, st', he, fun h => ?_, fun h => hfail (by omega)⟩
      obtain ⟨c1, c2, c3⟩ := hok (by omega)
      have e1 : d + 1 + n = d + (n+1) := by omega
      have e2 : d + 1 + k = d + (k+1) := by omega
      rw [e1] at c1 c3
      rw [e2] at c3
      exact ⟨c1, c2, c3⟩

end SafeC

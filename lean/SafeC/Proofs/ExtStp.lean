import SafeC.Proofs.ExtWide
/-!
# `stpcpy_s` / `stpncpy_s`: every call, every placement, every content

They return `(pointer, *errp)`.  `stpLoop_ok` is the analogue of `copyLoop_safe` + `copyLoop_shape`
for the `stp` twin loops: an EOK exit returns the address of the terminator, every cell the loop
stored in front of it is non-zero, with null-slack everything from the terminator to the end of dest
is zero; ESOVRLP / ESNOSPC clear dest; the `src unterminated` exit (only with a known source size)
reports and returns without clearing.
-/
namespace SafeC
open Gen

/-- the EOK exit of a loop started at `d` with `k` cells left ended with the terminator at address `t` -/
def ShapeAt (cfg : Cfg) (d k t : Nat) (st st' : St) : Prop :=
  d ≤ t ∧ t < d + k ∧ (∀ a, a < d → st'.data a = st.data a) ∧
    (∀ a, d ≤ a → a < t → st'.data a ≠ 0) ∧ st'.data t = 0 ∧
    (cfg.slack = true → ∀ a, t ≤ a → a < d + k → st'.data a = 0)

theorem stpEok_ok (cfg : Cfg) (isN : Bool) (d k : Nat) (st : St) (hw : RW st d k) (hk : 0 < k)
    (h0 : cfg.slack = true ∨ isN = true ∨ st.data d = 0) :
    ∃ st', exec (stpEok cfg isN d k) st = .ok ((d, EOK), st') ∧ SameMeta st' st ∧
      st'.data d = 0 ∧ (∀ a, ¬ (d ≤ a ∧ a < d + k) → st'.data a = st.data a) ∧
      (cfg.slack = true → ∀ a, d ≤ a → a < d + k → st'.data a = 0) := by
  unfold stpEok
  cases hcs : cfg.slack with
  | true =>
    obtain ⟨st', he, hm, hd⟩ := nullSlack_ok d k st hw
    refine ⟨st', by simp [exec_bind, he], hm, ?_, ?_, ?_⟩
    · rw [hd d]; simp; omega
    · intro a ha; rw [hd a]; simp [ha]
    · intro _ a h1 h2; rw [hd a]; simp [h1, h2]
  | false =>
    have hh := hw 0 hk
    simp only [Nat.add_zero] at hh
    cases hn : isN with
    | true =>
      refine ⟨st.upd d 0, by simp [exec_bind, exec_store_ok _ _ _ hh.1 hh.2.1], SameMeta.upd _ _ _, by simp, ?_,
        fun h => by cases h⟩
      intro a ha; exact St.upd_data_ne _ _ _ _ (by omega)
    | false =>
      have hz : st.data d = 0 := by
        rcases h0 with h | h | h
        · rw [hcs] at h; cases h
        · rw [hn] at h; cases h
        · exact h
      exact ⟨st, by simp [exec_bind], SameMeta.refl _, hz, fun _ _ => rfl, fun h => by cases h⟩

/-- what every exit of the stp loops guarantees -/
structure StpPost (cfg : Cfg) (oD oM d k : Nat) (st st' : St) (r : Nat × Nat) : Prop where
  frame : FramePost oD oM st st'
  ok : r.2 = EOK → ShapeAt cfg d k r.1 st st'
  fail_ptr : r.2 ≠ EOK → r.1 = 0
  fail : r.2 ≠ EOK → (r.2 ≠ ESUNTERM ∨ cfg.fixStpUnterm = true) → StrPost cfg oD oM st' r.2

theorem stp_fail_post (cfg : Cfg) (oD oM d k code : Nat) (st : St) (hrw : RW st oD oM) (hoM : 0 < oM)
    (hne : code ≠ EOK) :
    ∃ st', exec (do handleError cfg oD oM code; pure (0, code) : Prog (Nat × Nat)) st = .ok ((0, code), st') ∧
      StpPost cfg oD oM d k st st' (0, code) := by
  obtain ⟨st', he, hf, hp⟩ := herr_clear cfg oD oM code st hrw hoM
  exact ⟨st', by simp [exec_bind, he], hf, fun h => absurd h hne, fun _ => rfl, fun _ _ => hp⟩

theorem upd_frame (oD oM d v : Nat) (st : St) (h : oD ≤ d ∧ d < oD + oM) : FramePost oD oM st (st.upd d v) :=
  ⟨rfl, rfl, rfl, rfl, fun a ha => St.upd_data_ne _ _ _ _ (by omega)⟩

theorem frame_of_eok {oD oM d k : Nat} {st st' : St} (hm : SameMeta st' st)
    (hinv : oD ≤ d ∧ d + k = oD + oM)
    (hfr : ∀ a, ¬ (d ≤ a ∧ a < d + k) → st'.data a = st.data a) : FramePost oD oM st st' :=
  ⟨hm.mapped, hm.rd, hm.wr, hm.strays, fun a ha => hfr a (by omega)⟩

theorem EOK_ne_ESUNTERM : EOK ≠ ESUNTERM := by decide

/-- the `slen >= srcbos` test of the stp loops (`srcbos` unknown: never true) -/
def untermB (srcbos : Bos) (n : Nat) : Bool :=
  match srcbos with
  | none => false
  | some sb => decide (n ≥ sb)

theorem untermB_iff (srcbos : Bos) (n : Nat) :
    untermB srcbos n = true ↔ ∃ sb, srcbos = some sb ∧ sb ≤ n := by
  cases srcbos <;> simp [untermB]

theorem stpLoop_succ (cfg : Cfg) (isN onDest : Bool) (B oD oM : Nat) (srcbos : Bos) (k d s slen : Nat) :
    stpLoop cfg isN onDest B oD oM srcbos (k+1) d s slen =
      (if (if onDest then d else s) = B then do
        handleError cfg oD oM ESOVRLP
        pure (0, ESOVRLP)
      else if isN ∧ slen = 0 then stpEok cfg isN d (k+1)
      else do
        let c ← load s
        store d c
        if c = 0 then stpEok cfg isN d (k+1)
        else
          if untermB srcbos (if isN then slen - 1 else slen + 1) then do
            (if cfg.fixStpUnterm then handleError cfg oD oM ESUNTERM else handlerS ESUNTERM)
            pure (0, ESUNTERM)
          else stpLoop cfg isN onDest B oD oM srcbos k (d+1) (s+1) (if isN then slen - 1 else slen + 1)) := by
  cases srcbos <;> rfl

/-- **The stp copy loops, for every placement, content, length and source-size knowledge.** -/
theorem stpLoop_ok (cfg : Cfg) (isN onDest : Bool) (B oD oM : Nat) (hoM : 0 < oM) (srcbos : Bos)
    (k d s slen : Nat) (st : St)
    (hall : ∀ a, st.mapped a = true ∧ st.rd a = true)
    (hrw : RW st oD oM) (hinv : oD ≤ d ∧ d + k = oD + oM) :
    ∃ r st', exec (stpLoop cfg isN onDest B oD oM srcbos k d s slen) st = .ok (r, st') ∧
      StpPost cfg oD oM d k st st' r ∧
      (r.2 = ESUNTERM → ∃ sb, srcbos = some sb ∧ (isN = true → sb < slen)) := by
  induction k generalizing d s slen st with
  | zero =>
    unfold stpLoop
    obtain ⟨st', he, hp⟩ := stp_fail_post cfg oD oM d 0 ESNOSPC st hrw hoM ESNOSPC_ne_EOK
    exact ⟨_, st', he, hp, fun h => absurd h (by decide)⟩
  | succ k ih =>
    rw [stpLoop_succ]
    by_cases hb : (if onDest then d else s) = B
    · simp only [hb, if_true]
      obtain ⟨st', he, hp⟩ := stp_fail_post cfg oD oM d (k+1) ESOVRLP st hrw hoM ESOVRLP_ne_EOK
      exact ⟨_, st', he, hp, fun h => absurd h (by decide)⟩
    · simp only [hb, if_false]
      have hsub : RW st d (k+1) := by
        intro i hi
        have := hrw (d - oD + i) (by omega)
        have e : oD + (d - oD + i) = d + i := by omega
        rwa [e] at this
      have hdm : st.mapped d = true ∧ st.wr d = true ∧ st.rd d = true := hsub.head
      by_cases hsl : isN = true ∧ slen = 0
      · rw [if_pos hsl]
        obtain ⟨st', he, hm, h0, hfr, hcl⟩ := stpEok_ok cfg isN d (k+1) st hsub (by omega) (Or.inr (Or.inl hsl.1))
        refine ⟨(d, EOK), st', he, ⟨frame_of_eok hm hinv hfr, fun _ => ?_, fun h => absurd rfl h, fun h => absurd rfl h⟩,
          fun h => absurd h EOK_ne_ESUNTERM⟩
        exact ⟨Nat.le_refl _, by omega, fun a ha => hfr a (by omega), fun a h1 h2 => by omega, h0, hcl⟩
      · rw [if_neg hsl]
        have hs_m := hall s
        simp only [exec_bind, exec_load_ok _ _ hs_m.1 hs_m.2, exec_store_ok _ _ _ hdm.1 hdm.2.1]
        by_cases hc : st.data s = 0
        · simp only [hc, if_true]
          obtain ⟨st', he, hm, h0, hfr, hcl⟩ := stpEok_ok cfg isN d (k+1) (st.upd d 0)
            (RW.of_sameMeta (SameMeta.upd _ _ _) hsub) (by omega) (Or.inr (Or.inr (by simp)))
          have hm' := hm.trans (SameMeta.upd st d 0)
          refine ⟨(d, EOK), st', he, ⟨?_, fun _ => ?_, fun h => absurd rfl h, fun h => absurd rfl h⟩,
            fun h => absurd h EOK_ne_ESUNTERM⟩
          · exact ⟨hm'.mapped, hm'.rd, hm'.wr, hm'.strays, fun a ha => by
              rw [hfr a (by omega)]; exact St.upd_data_ne _ _ _ _ (by omega)⟩
          · refine ⟨Nat.le_refl _, by omega, fun a ha => ?_, fun a h1 h2 => by omega, h0, hcl⟩
            rw [hfr a (by omega)]; exact St.upd_data_ne _ _ _ _ (by omega)
        · simp only [hc, if_false]
          by_cases hu : ∃ sb, srcbos = some sb ∧ sb ≤ (if isN = true then slen - 1 else slen + 1)
          · rw [if_pos ((untermB_iff _ _).2 hu)]
            have hun : ∃ sb, srcbos = some sb ∧ (isN = true → sb < slen) := by
              obtain ⟨sb, h1, h2⟩ := hu
              refine ⟨sb, h1, fun hn => ?_⟩
              simp only [hn, if_true] at h2
              have : slen ≠ 0 := fun h => hsl ⟨hn, h⟩
              omega
            cases hfx : cfg.fixStpUnterm with
            | false =>
              refine ⟨(0, ESUNTERM), { st.upd d (st.data s) with events := (st.upd d (st.data s)).events ++ [.handler .str ESUNTERM] },
                by simp [handlerS, exec_bind], ⟨?_, fun h => absurd h (by decide), fun _ => rfl,
                  fun _ h => by rcases h with h | h
                                · exact absurd rfl h
                                · rw [hfx] at h; cases h⟩, fun _ => hun⟩
              exact ⟨rfl, rfl, rfl, rfl, fun a ha => St.upd_data_ne _ _ _ _ (by omega)⟩
            | true =>
              obtain ⟨st', he, hp⟩ := stp_fail_post cfg oD oM d (k+1) ESUNTERM (st.upd d (st.data s))
                (RW.of_sameMeta (SameMeta.upd _ _ _) hrw) hoM (by decide)
              refine ⟨(0, ESUNTERM), st', ?_, ⟨(upd_frame oD oM d _ st (by omega)).trans hp.frame, fun h => absurd h (by decide),
                fun _ => rfl, fun _ _ => hp.fail (by decide) (Or.inr hfx)⟩, fun _ => hun⟩
              simp only [↓reduceIte]
              exact he
          · rw [if_neg (fun h => hu ((untermB_iff _ _).1 h))]
            obtain ⟨r, st', he, hp, hun⟩ := ih (d+1) (s+1) (if isN = true then slen - 1 else slen + 1)
              (st.upd d (st.data s)) (by intro a; exact hall a) (RW.of_sameMeta (SameMeta.upd _ _ _) hrw) (by omega)
            refine ⟨r, st', he, ⟨(upd_frame oD oM d _ st (by omega)).trans hp.frame, fun hr => ?_, hp.fail_ptr, hp.fail⟩, ?_⟩
            · obtain ⟨h1, h2, h3, h4, h5, h6⟩ := hp.ok hr
              refine ⟨by omega, by omega, ?_, ?_, h5, ?_⟩
              · intro a ha
                rw [h3 a (by omega)]
                exact St.upd_data_ne _ _ _ _ (by omega)
              · intro a ha1 ha2
                by_cases had : a = d
                · subst had
                  rw [h3 a (by omega)]
                  simpa using hc
                · exact h4 a (by omega) ha2
              · intro hs a ha1 ha2
                exact h6 hs a ha1 (by omega)
            · intro hr
              obtain ⟨sb, h1, h2⟩ := hun hr
              refine ⟨sb, h1, fun hn => ?_⟩
              have := h2 hn
              simp only [hn, if_true] at this
              omega

/-- the `dest == src` walk -/
theorem stpSameWalk_ok (cfg : Cfg) (isN : Bool) (oD oM : Nat) (hoM : 0 < oM)
    (k d : Nat) (st : St)
    (hall : ∀ a, st.mapped a = true ∧ st.rd a = true)
    (hrw : RW st oD oM) (hinv : oD ≤ d ∧ d + k = oD + oM) :
    ∃ r st', exec (stpSameWalk cfg isN oD oM k d) st = .ok (r, st') ∧
      StpPost cfg oD oM d k st st' r ∧ r.2 ≠ ESUNTERM := by
  induction k generalizing d with
  | zero =>
    unfold stpSameWalk
    obtain ⟨st', he, hp⟩ := stp_fail_post cfg oD oM d 0 ESNOSPC st hrw hoM ESNOSPC_ne_EOK
    exact ⟨_, st', he, hp, by decide⟩
  | succ k ih =>
    unfold stpSameWalk
    have hm := hall d
    simp only [exec_bind, exec_load_ok _ _ hm.1 hm.2]
    have hsub : RW st d (k+1) := by
      intro i hi
      have := hrw (d - oD + i) (by omega)
      have e : oD + (d - oD + i) = d + i := by omega
      rwa [e] at this
    by_cases hc : st.data d = 0
    · rw [if_pos hc]
      obtain ⟨st', he, hm', h0, hfr, hcl⟩ := stpEok_ok cfg isN d (k+1) st hsub (by omega) (Or.inr (Or.inr hc))
      refine ⟨(d, EOK), st', he, ⟨frame_of_eok hm' hinv hfr, fun _ => ?_, fun h => absurd rfl h, fun h => absurd rfl h⟩,
        EOK_ne_ESUNTERM⟩
      exact ⟨Nat.le_refl _, by omega, fun a ha => hfr a (by omega), fun a h1 h2 => by omega, h0, hcl⟩
    · rw [if_neg hc]
      obtain ⟨r, st', he, hp, hne⟩ := ih (d+1) (by omega)
      refine ⟨r, st', he, ⟨hp.frame, fun hr => ?_, hp.fail_ptr, hp.fail⟩, hne⟩
      obtain ⟨h1, h2, h3, h4, h5, h6⟩ := hp.ok hr
      refine ⟨by omega, by omega, fun a ha => h3 a (by omega), ?_, h5, fun hs a ha1 ha2 => h6 hs a ha1 (by omega)⟩
      intro a ha1 ha2
      by_cases had : a = d
      · subst had
        rw [h3 a (by omega)]; exact hc
      · exact h4 a (by omega) ha2

/-- outcome of a whole stp call -/
def OutcomeP (dest dmax : Nat) (st : St) (p : Prog (Nat × Nat)) (Q : Nat × Nat → St → Prop) : Prop :=
  ∃ r st', exec p st = .ok (r, st') ∧ FramePost dest dmax st st' ∧ Q r st'

/-- what `stpcpy_s` / `stpncpy_s` guarantee for a usable dest -/
structure StpQ (cfg : Cfg) (dest dmax : Nat) (st st' : St) (r : Nat × Nat) : Prop where
  ok : r.2 = EOK → ShapeAt cfg dest dmax r.1 st st'
  fail_ptr : r.2 ≠ EOK → r.1 = 0
  post : (r.2 ≠ ESUNTERM ∨ cfg.fixStpUnterm = true) → StrPost cfg dest dmax st' r.2

theorem StpQ.of_post {cfg : Cfg} {dest dmax : Nat} {st st' : St} {r : Nat × Nat}
    (h : StpPost cfg dest dmax dest dmax st st' r) : StpQ cfg dest dmax st st' r := by
  refine ⟨h.ok, h.fail_ptr, fun hne => ?_⟩
  by_cases hc : r.2 = EOK
  · obtain ⟨h1, h2, _, _, h5, _⟩ := h.ok hc
    refine ⟨⟨r.1 - dest, by omega, ?_⟩, fun hx => absurd hc hx, fun hx => ?_⟩
    · have e : dest + (r.1 - dest) = r.1 := by omega
      rw [e]; exact h5
    · rw [hc] at hx
      rcases hx with hx | hx | hx | hx <;> exact absurd hx (by decide)
  · exact h.fail hc hne

theorem stpBody_ok (cfg : Cfg) (isN : Bool) (dest dmax src slen : Nat) (srcbos : Bos) (st : St)
    (hall : ∀ a, st.mapped a = true ∧ st.rd a = true) (hrw : RW st dest dmax) (hpos : 0 < dmax) :
    OutcomeP dest dmax st (stpBody cfg isN dest dmax src slen srcbos)
      (fun r st' => StpQ cfg dest dmax st st' r ∧
        (r.2 = ESUNTERM → ∃ sb, srcbos = some sb ∧ (isN = true → sb < slen))) := by
  unfold stpBody
  by_cases hsame : dest = src
  · rw [if_pos hsame]
    obtain ⟨r, st', he, hp, hne⟩ := stpSameWalk_ok cfg isN dest dmax hpos dmax dest st hall hrw ⟨Nat.le_refl _, rfl⟩
    exact ⟨r, st', he, hp.frame, StpQ.of_post hp, fun h => absurd h hne⟩
  rw [if_neg hsame]
  by_cases hlt : dest < src
  · rw [if_pos hlt]
    obtain ⟨r, st', he, hp, hun⟩ :=
      stpLoop_ok cfg isN true src dest dmax hpos srcbos dmax dest src slen st hall hrw ⟨Nat.le_refl _, rfl⟩
    exact ⟨r, st', he, hp.frame, StpQ.of_post hp, hun⟩
  · rw [if_neg hlt]
    obtain ⟨r, st', he, hp, hun⟩ :=
      stpLoop_ok cfg isN false dest dest dmax hpos srcbos dmax dest src slen st hall hrw ⟨Nat.le_refl _, rfl⟩
    exact ⟨r, st', he, hp.frame, StpQ.of_post hp, hun⟩

/-- usable dest/dmax for a narrow entry point -/
def UsableN (dest dmax : Nat) : Prop := dest ≠ 0 ∧ 0 < dmax ∧ dmax ≤ RSIZE_MAX_STR

/-- a failing exit that only reports -/
theorem handlerP_outcome (dest dmax code : Nat) (st : St) (Q : Nat × Nat → St → Prop)
    (hq : ∀ st', Q (0, code) st') :
    OutcomeP dest dmax st (do handlerS code; pure (0, code) : Prog (Nat × Nat)) Q :=
  ⟨(0, code), { st with events := st.events ++ [.handler .str code] }, by simp [handlerS, exec_bind],
    ⟨rfl, rfl, rfl, rfl, fun _ _ => rfl⟩, hq _⟩

/-- the entry checks of the stp pair with the object size unknown, or known with `dmax` inside it -/
theorem entryStp (cfg : Cfg) (dest dmax : Nat) (destbos : Bos) (st : St) (k : Prog (Nat × Nat))
    (Q : Nat × Nat → St → Prop) (hb : ∀ b, destbos = some b → dmax ≤ b)
    (hk : dest ≠ 0 → 0 < dmax → OutcomeP dest dmax st k (fun r s => dmax ≤ RSIZE_MAX_STR → Q r s)) :
    OutcomeP dest dmax st
      (if dest = 0 then do handlerS ESNULLP; pure (0, ESNULLP)
       else if dmax = 0 then do handlerS ESZEROL; pure (0, ESZEROL)
       else chkDmaxClearG (fun c => (0, c)) cfg dest dmax destbos RSIZE_MAX_STR k)
      (fun r s => UsableN dest dmax → Q r s) := by
  by_cases hd : dest = 0
  · rw [if_pos hd]; exact handlerP_outcome _ _ _ _ _ (fun _ h => absurd hd h.1)
  rw [if_neg hd]
  by_cases hz : dmax = 0
  · rw [if_pos hz]; exact handlerP_outcome _ _ _ _ _ (fun _ h => by have := h.2.1; omega)
  rw [if_neg hz]
  have hpos : 0 < dmax := Nat.pos_of_ne_zero hz
  obtain ⟨r, st', he, hf, hq⟩ := hk hd hpos
  unfold chkDmaxClearG
  cases destbos with
  | none =>
    simp only
    by_cases hx : dmax > RSIZE_MAX_STR
    · rw [if_pos hx]; exact handlerP_outcome _ _ _ _ _ (fun _ h => by have := h.2.2; omega)
    · rw [if_neg hx]; exact ⟨r, st', he, hf, fun h => hq h.2.2⟩
  | some b =>
    simp only
    have : ¬ dmax > b := by have := hb b rfl; omega
    rw [if_neg this]; exact ⟨r, st', he, hf, fun h => hq h.2.2⟩

theorem nullSrcP_outcome (cfg : Cfg) (dest dmax : Nat) (st : St) (srcbos : Bos) (isN : Bool) (slen : Nat)
    (hrw : RW st dest dmax) (hpos : 0 < dmax) :
    OutcomeP dest dmax st (do handleError cfg dest dmax ESNULLP; pure (0, ESNULLP) : Prog (Nat × Nat))
      (fun r st' => dmax ≤ RSIZE_MAX_STR → StpQ cfg dest dmax st st' r ∧
        (r.2 = ESUNTERM → ∃ sb, srcbos = some sb ∧ (isN = true → sb < slen))) := by
  obtain ⟨st', he, hp⟩ := stp_fail_post cfg dest dmax dest dmax ESNULLP st hrw hpos ESNULLP_ne_EOK
  exact ⟨_, st', he, hp.frame, fun _ => ⟨StpQ.of_post hp, fun h => absurd h (by decide)⟩⟩

/-- **stpcpy_s: every call** (object size unknown, or known with dmax inside it; any srcbos). -/
theorem stpcpy_s_ext (cfg : Cfg) (dest dmax src : Nat) (destbos srcbos : Bos) (st : St)
    (hall : ∀ a, st.mapped a = true ∧ st.rd a = true) (hrw : dest ≠ 0 → RW st dest dmax)
    (hb : ∀ b, destbos = some b → dmax ≤ b) :
    OutcomeP dest dmax st (stpcpy_s cfg dest dmax src destbos srcbos)
      (fun r st' => UsableN dest dmax → StpQ cfg dest dmax st st' r ∧ (r.2 = ESUNTERM → srcbos ≠ none)) := by
  unfold stpcpy_s
  apply entryStp cfg dest dmax destbos st _ _ hb
  intro hd hpos
  have hrw' := hrw hd
  by_cases hs : src = 0
  · rw [if_pos hs]
    obtain ⟨r, st', he, hf, hq⟩ := nullSrcP_outcome cfg dest dmax st srcbos false 0 hrw' hpos
    exact ⟨r, st', he, hf, fun h => ⟨(hq h).1, fun hu => by obtain ⟨sb, h1, _⟩ := (hq h).2 hu; simp [h1]⟩⟩
  rw [if_neg hs]
  obtain ⟨r, st', he, hf, hq, hun⟩ := stpBody_ok cfg false dest dmax src 0 srcbos st hall hrw' hpos
  exact ⟨r, st', he, hf, fun _ => ⟨hq, fun hu => by obtain ⟨sb, h1, _⟩ := hun hu; simp [h1]⟩⟩

/-- `strnlen_s`, any arguments: returns a length `≤ smax`; memory, permissions, strays unchanged
(possibly one handler event); exact when the arguments pass its own checks -/
theorem strnlen_s_any (str smax : Nat) (st : St) (hall : ∀ a, st.mapped a = true ∧ st.rd a = true) :
    ∃ len st', exec (strnlen_s str smax none) st = .ok (len, st') ∧
      st'.data = st.data ∧ st'.mapped = st.mapped ∧ st'.rd = st.rd ∧ st'.wr = st.wr ∧ st'.strays = st.strays ∧
      len ≤ smax ∧
      (str ≠ 0 → 0 < smax → smax ≤ RSIZE_MAX_STR → st' = st ∧ (len < smax → st.data (str + len) = 0)) := by
  unfold strnlen_s
  by_cases hs : str = 0
  · rw [if_pos hs]
    exact ⟨0, { st with events := st.events ++ [.handler .str ESNULLP] }, by simp [handlerS, exec_bind],
      rfl, rfl, rfl, rfl, rfl, Nat.zero_le _, fun h => absurd hs h⟩
  rw [if_neg hs]
  by_cases hz : smax = 0
  · rw [if_pos hz]
    exact ⟨0, { st with events := st.events ++ [.handler .str ESZEROL] }, by simp [handlerS, exec_bind],
      rfl, rfl, rfl, rfl, rfl, Nat.zero_le _, fun _ h => by omega⟩
  rw [if_neg hz]
  by_cases hx : smax > RSIZE_MAX_STR
  · rw [if_pos hx]
    exact ⟨0, { st with events := st.events ++ [.handler .str ESLEMAX] }, by simp [handlerS, exec_bind],
      rfl, rfl, rfl, rfl, rfl, Nat.zero_le _, fun _ _ h => by omega⟩
  rw [if_neg hx]
  obtain ⟨len, he, hle, hz'⟩ := strnlenLoop_ok smax str 0 st hall
  exact ⟨len, st, by simpa using he, rfl, rfl, rfl, rfl, rfl, hle, fun _ _ _ => ⟨rfl, hz'⟩⟩

/-- the `slen > RSIZE_MAX_STR` exit of `stpncpy_s` -/
theorem slenExitP_ok (cfg : Cfg) (dest dmax : Nat) (st : St)
    (hall : ∀ a, st.mapped a = true ∧ st.rd a = true) (hrw : RW st dest dmax) (hpos : 0 < dmax) :
    ∃ st', exec (do let l ← strnlen_s dest dmax none
                    handleError cfg dest l ESLEMAX
                    pure (0, ESLEMAX) : Prog (Nat × Nat)) st = .ok ((0, ESLEMAX), st') ∧
      FramePost dest dmax st st' ∧
      (dest ≠ 0 → dmax ≤ RSIZE_MAX_STR → st'.data dest = 0) := by
  obtain ⟨len, s1, he1, hd, hm, hr, hw, hst, hle, hex⟩ := strnlen_s_any dest dmax st hall
  have hrw1 : RW s1 dest dmax := by
    intro i hi; rw [hm, hw, hr]; exact hrw i hi
  obtain ⟨st', he2, hf, h0⟩ := handleError_frame cfg dest len dmax ESLEMAX s1 hrw1 hpos hle
  refine ⟨st', by simp [exec_bind, he1, he2], ?_, ?_⟩
  · exact ⟨hf.mapped.trans hm, hf.rd.trans hr, hf.wr.trans hw, hf.strays.trans hst,
      fun a ha => (hf.frame a ha).trans (by rw [hd])⟩
  · intro hdz hmx
    obtain ⟨hs1, hz⟩ := hex hdz hpos hmx
    apply h0
    by_cases hl : 0 < len
    · exact Or.inl hl
    · have : len = 0 := by omega
      subst this
      right; right
      rw [hd]; simpa using hz hpos

/-- **stpncpy_s: every call** (object size unknown, or known with dmax inside it; source size
unknown, or known with slen inside it — the `slen > srcbos` exit is the recorded finding
`slen-exceeds-srcbos`).  The `src unterminated` exit is then unreachable. -/
theorem stpncpy_s_ext (cfg : Cfg) (dest dmax src slen : Nat) (destbos srcbos : Bos) (st : St)
    (hall : ∀ a, st.mapped a = true ∧ st.rd a = true) (hrw : dest ≠ 0 → RW st dest dmax)
    (hb : ∀ b, destbos = some b → dmax ≤ b) (hsb : ∀ sb, srcbos = some sb → slen ≤ sb) :
    OutcomeP dest dmax st (stpncpy_s cfg dest dmax src slen destbos srcbos)
      (fun r st' => UsableN dest dmax → StpQ cfg dest dmax st st' r ∧ r.2 ≠ ESUNTERM) := by
  unfold stpncpy_s
  apply entryStp cfg dest dmax destbos st _ _ hb
  intro hd hpos
  have hrw' := hrw hd
  by_cases hs : src = 0
  · rw [if_pos hs]
    obtain ⟨r, st', he, hf, hq⟩ := nullSrcP_outcome cfg dest dmax st srcbos true slen hrw' hpos
    refine ⟨r, st', he, hf, fun h => ⟨(hq h).1, fun hu => ?_⟩⟩
    obtain ⟨sb, h1, h2⟩ := (hq h).2 hu
    have := hsb sb h1; have := h2 rfl; omega
  rw [if_neg hs]
  by_cases hsl : slen > RSIZE_MAX_STR
  · rw [if_pos hsl]
    obtain ⟨st', he, hf, h0⟩ := slenExitP_ok cfg dest dmax st hall hrw' hpos
    refine ⟨_, st', he, hf, fun hmx => ⟨⟨fun h => absurd h ESLEMAX_ne_EOK, fun _ => rfl, fun _ => ?_⟩, by decide⟩⟩
    exact StrPost.of_first hpos (h0 hd hmx) (by decide)
  rw [if_neg hsl]
  have body : OutcomeP dest dmax st (stpBody cfg true dest dmax src slen srcbos)
      (fun r st' => dmax ≤ RSIZE_MAX_STR → StpQ cfg dest dmax st st' r ∧ r.2 ≠ ESUNTERM) := by
    obtain ⟨r, st', he, hf, hq, hun⟩ := stpBody_ok cfg true dest dmax src slen srcbos st hall hrw' hpos
    refine ⟨r, st', he, hf, fun _ => ⟨hq, fun hu => ?_⟩⟩
    obtain ⟨sb, h1, h2⟩ := hun hu
    have := hsb sb h1; have := h2 rfl; omega
  cases srcbos with
  | none => exact body
  | some sb =>
    simp only
    have : ¬ slen > sb := by have := hsb sb rfl; omega
    rw [if_neg this]; exact body

end SafeC

import SafeC.Proofs.ExtStp
/-!
# The narrow copy family `strcpy_s strncpy_s strcat_s strncat_s`: every call, every placement, every
content, object size of dest unknown or known, source size unknown or known

The twin of `Proofs/ExtWide.lean` for the narrow entry checks (`chkDmaxClear`, `chkSlenMaxClear`,
`handleStrBosOverflow`).  For ALL arguments the call returns and changes nothing outside
`dest[0..dmax)` (`Outcome`); for a usable dest (`UsableNB`: non-null, `0 < dmax ≤ RSIZE_MAX_STR`, `dmax`
inside the object when its size is known) `StrPost` (C03 + C04) and, where the function promises it,
`TermAt` (C08).  The bounded pair is stated for `slen ≤ srcbos` when the source size is known (the
`slen > srcbos` exit is the recorded finding `slen-exceeds-srcbos`).
-/
namespace SafeC
open Gen

theorem Outcome.imp {dest dmax : Nat} {st : St} {p : Prog Nat} {Q Q' : Nat → St → Prop}
    (h : Outcome dest dmax st p Q) (hq : ∀ c s, Q c s → Q' c s) : Outcome dest dmax st p Q' := by
  obtain ⟨c, s, he, hf, hq'⟩ := h
  exact ⟨c, s, he, hf, hq c s hq'⟩

/-- usable dest/dmax for a narrow entry point, object size known or not -/
def UsableNB (dest dmax : Nat) (destbos : Bos) : Prop :=
  dest ≠ 0 ∧ 0 < dmax ∧ dmax ≤ RSIZE_MAX_STR ∧ ∀ b, destbos = some b → dmax ≤ b

/-- `handle_str_bos_overflow(msg, dest, b)` with `b` inside an extent that may be written: EOVERFLOW,
writes inside the extent only (it clears `strnlen_s(dest, b) ≤ b` cells) -/
theorem bosOverflow_frame (cfg : Cfg) (dest b ext : Nat) (st : St)
    (hall : ∀ a, st.mapped a = true ∧ st.rd a = true) (hw : RW st dest ext) (hpos : 0 < ext)
    (hle : b ≤ ext) (hb : b ≤ RSIZE_MAX_STR) :
    ∃ st', exec (handleStrBosOverflow cfg dest b) st = .ok (EOVERFLOW, st') ∧ FramePost dest ext st st' := by
  obtain ⟨len, s1, he1, hd, hm, hr, hwr, hst, hlen, _⟩ := strnlen_s_any dest b st hall
  have hrw1 : RW s1 dest ext := by
    intro i hi; rw [hm, hwr, hr]; exact hw i hi
  obtain ⟨st', he2, hf, _⟩ := handleError_frame cfg dest len ext EOVERFLOW s1 hrw1 hpos (by omega)
  have hn : ¬ len > RSIZE_MAX_STR := by omega
  refine ⟨st', ?_, ?_⟩
  · unfold handleStrBosOverflow
    simp [exec_bind, he1, hn, he2]
  · exact ⟨hf.mapped.trans hm, hf.rd.trans hr, hf.wr.trans hwr, hf.strays.trans hst,
      fun a ha => (hf.frame a ha).trans (by rw [hd])⟩

/-- `CHK_DEST_OVR_CLEAR` with `dmax` beyond a known object size `b` (ANY `b`, also 0), all `dmax` cells writable:
returns `mk code` and writes inside `dest[0..dmax)` only -/
theorem chkDmaxClearG_over_frame {α : Type} (mk : Nat → α) (cfg : Cfg) (dest dmax b : Nat) (k : Prog α) (st : St)
    (hall : ∀ a, st.mapped a = true ∧ st.rd a = true) (hrw : RW st dest dmax) (hbd : b < dmax) :
    ∃ code st', exec (chkDmaxClearG mk cfg dest dmax (some b) RSIZE_MAX_STR k) st = .ok (mk code, st') ∧
      FramePost dest dmax st st' := by
  have hpos : 0 < dmax := by omega
  unfold chkDmaxClearG
  simp only
  rw [if_pos hbd]
  by_cases hx : dmax > RSIZE_MAX_STR
  · rw [if_pos hx]
    obtain ⟨s1, he1, hf1, _⟩ := handleError_frame cfg dest b dmax ESLEMAX st hrw hpos (by omega)
    exact ⟨ESLEMAX, s1, by simp [exec_bind, he1], hf1⟩
  · rw [if_neg hx]
    obtain ⟨s1, he1, hf1⟩ := bosOverflow_frame cfg dest b dmax st hall hrw hpos (by omega) (by omega)
    exact ⟨EOVERFLOW, s1, by simp [exec_bind, he1], hf1⟩
/-- `CHK_DEST_NULL; CHK_DMAX_ZERO; CHK_DMAX_MAX / CHK_DEST_OVR_CLEAR` in front of a body -/
theorem entryN (cfg : Cfg) (dest dmax : Nat) (destbos : Bos) (st : St) (k : Prog Nat)
    (Q : Nat → St → Prop) (hall : ∀ a, st.mapped a = true ∧ st.rd a = true)
    (hrw : dest ≠ 0 → RW st dest dmax)
    (hk : dest ≠ 0 → 0 < dmax → Outcome dest dmax st k (fun c s => dmax ≤ RSIZE_MAX_STR → Q c s)) :
    Outcome dest dmax st
      (if dest = 0 then failS ESNULLP else if dmax = 0 then failS ESZEROL
       else chkDmaxClear cfg dest dmax destbos RSIZE_MAX_STR k)
      (fun c s => UsableNB dest dmax destbos → Q c s) := by
  by_cases hd : dest = 0
  · rw [if_pos hd]; exact failS_outcome _ _ _ _ _ (fun _ h => absurd hd h.1)
  rw [if_neg hd]
  by_cases hz : dmax = 0
  · rw [if_pos hz]; exact failS_outcome _ _ _ _ _ (fun _ h => by have := h.2.1; omega)
  rw [if_neg hz]
  have hpos : 0 < dmax := Nat.pos_of_ne_zero hz
  obtain ⟨code, st', he, hf, hq⟩ := hk hd hpos
  unfold chkDmaxClear chkDmaxClearG
  cases destbos with
  | none =>
    simp only
    by_cases hx : dmax > RSIZE_MAX_STR
    · rw [if_pos hx]
      exact ⟨ESLEMAX, { st with events := st.events ++ [.handler .str ESLEMAX] },
        by simp [handlerS, exec_bind], ⟨rfl, rfl, rfl, rfl, fun _ _ => rfl⟩,
        fun h => by have := h.2.2.1; omega⟩
    · rw [if_neg hx]; exact ⟨code, st', he, hf, fun h => hq h.2.2.1⟩
  | some b =>
    simp only
    by_cases hb : dmax > b
    · rw [if_pos hb]
      have hq' : ∀ c s, UsableNB dest dmax (some b) → Q c s := by
        intro c s h; have := h.2.2.2 b rfl; omega
      by_cases hx : dmax > RSIZE_MAX_STR
      · rw [if_pos hx]
        obtain ⟨s1, he1, hf1, _⟩ := handleError_frame cfg dest b dmax ESLEMAX st (hrw hd) hpos (by omega)
        exact ⟨ESLEMAX, s1, by simp [exec_bind, he1], hf1, hq' _ _⟩
      · rw [if_neg hx]
        obtain ⟨s1, he1, hf1⟩ := bosOverflow_frame cfg dest b dmax st hall (hrw hd) hpos (by omega) (by omega)
        exact ⟨EOVERFLOW, s1, by simp [exec_bind, he1], hf1, hq' _ _⟩
    · rw [if_neg hb]; exact ⟨code, st', he, hf, fun h => hq h.2.2.1⟩

/-- the copy loop started at the beginning of dest, as an `Outcome` -/
theorem copy_outcomeN (cfg : Cfg) (onDest bounded : Bool) (B dest dmax src slen : Nat) (shape : Prop) (st : St)
    (hall : ∀ a, st.mapped a = true ∧ st.rd a = true) (hrw : RW st dest dmax) (hpos : 0 < dmax) :
    Outcome dest dmax st (copyLoop cfg onDest bounded B dest dmax dmax dest src slen)
      (fun c s => dmax ≤ RSIZE_MAX_STR → WQ cfg dest dmax shape c s) := by
  obtain ⟨code, st', he, hf, hp, hsh⟩ := copy_body cfg onDest bounded B dest dmax src slen st hall hrw hpos
  exact ⟨code, st', he, hf, fun _ => ⟨hp, fun _ => hsh⟩⟩

/-- `findEnd` then the copy loop, as an `Outcome` -/
theorem cat_outcomeN (cfg : Cfg) (chk onDest bounded : Bool) (B dest dmax src slen : Nat) (st : St)
    (hall : ∀ a, st.mapped a = true ∧ st.rd a = true)
    (hrw : RW st dest dmax) (hpos : 0 < dmax)
    (f : Nat ⊕ (Nat × Nat) → Prog Nat) (hf1 : ∀ c, f (.inl c) = pure c)
    (hf2 : ∀ d m, f (.inr (d, m)) = copyLoop cfg onDest bounded B dest dmax m d src slen) :
    Outcome dest dmax st (findEnd cfg chk B dest dmax dmax dest >>= f)
      (fun c s => dmax ≤ RSIZE_MAX_STR → WQ cfg dest dmax True c s) := by
  obtain ⟨code, st', he, hf, hp, hsh⟩ :=
    cat_body cfg chk onDest bounded B dest dmax src slen st hall hrw hpos f hf1 hf2
  exact ⟨code, st', he, hf, fun _ => ⟨hp, fun _ => hsh⟩⟩

theorem nullSrc_outcomeN (cfg : Cfg) (dest dmax : Nat) (shape : Prop) (st : St)
    (hrw : RW st dest dmax) (hpos : 0 < dmax) :
    Outcome dest dmax st (do handleError cfg dest dmax ESNULLP; pure ESNULLP : Prog Nat)
      (fun c s => dmax ≤ RSIZE_MAX_STR → WQ cfg dest dmax shape c s) := by
  obtain ⟨st', he, hf, hp⟩ := herr_clear cfg dest dmax ESNULLP st hrw hpos
  exact ⟨ESNULLP, st', by simp [exec_bind, he], hf, fun _ => WQ.of_fail hp ESNULLP_ne_EOK⟩

/-- the `slen > RSIZE_MAX_STR` exit (`CHK_SLEN_MAX_CLEAR`): `handle_error(dest, strnlen_s(dest, dmax), ESLEMAX)` -/
theorem slenExitN_outcome (cfg : Cfg) (dest dmax : Nat) (shape : Prop) (st : St)
    (hall : ∀ a, st.mapped a = true ∧ st.rd a = true) (hrw : RW st dest dmax) (hd : dest ≠ 0) (hpos : 0 < dmax) :
    Outcome dest dmax st (do let l ← strnlen_s dest dmax none
                             handleError cfg dest l ESLEMAX
                             pure ESLEMAX : Prog Nat)
      (fun c s => dmax ≤ RSIZE_MAX_STR → WQ cfg dest dmax shape c s) := by
  obtain ⟨len, s1, he1, hdat, hm, hr, hw, hst, hle, hex⟩ := strnlen_s_any dest dmax st hall
  have hrw1 : RW s1 dest dmax := by
    intro i hi; rw [hm, hw, hr]; exact hrw i hi
  obtain ⟨st', he2, hf, h0⟩ := handleError_frame cfg dest len dmax ESLEMAX s1 hrw1 hpos hle
  refine ⟨ESLEMAX, st', by simp [exec_bind, he1, he2], ?_, fun hmx => ?_⟩
  · exact ⟨hf.mapped.trans hm, hf.rd.trans hr, hf.wr.trans hw, hf.strays.trans hst,
      fun a ha => (hf.frame a ha).trans (by rw [hdat])⟩
  · refine WQ.of_fail (StrPost.of_first hpos ?_ (by decide)) ESLEMAX_ne_EOK
    obtain ⟨_, hz⟩ := hex hd hpos hmx
    apply h0
    by_cases hl : 0 < len
    · exact Or.inl hl
    · have : len = 0 := by omega
      subst this
      right; right
      rw [hdat]; simpa using hz hpos

/-- **strcpy_s: every call.**  `dest == src` is the recorded `same-pointer-shortcut` (EOK, untouched). -/
theorem strcpy_s_ext (cfg : Cfg) (dest dmax src : Nat) (destbos : Bos) (st : St)
    (hall : ∀ a, st.mapped a = true ∧ st.rd a = true) (hrw : dest ≠ 0 → RW st dest dmax) :
    Outcome dest dmax st (strcpy_s cfg dest dmax src destbos)
      (fun code st' => UsableNB dest dmax destbos →
        (dest ≠ src → WQ cfg dest dmax True code st') ∧ (dest = src → code = EOK ∧ st' = st)) := by
  unfold strcpy_s strcpyG
  apply entryN cfg dest dmax destbos st _ _ hall hrw
  intro hd hpos
  have hrw' := hrw hd
  by_cases hs : src = 0
  · rw [if_pos hs]
    exact (nullSrc_outcomeN cfg dest dmax True st hrw' hpos).imp
      (fun c s h hmx => ⟨fun _ => h hmx, fun he => absurd (he.trans hs) hd⟩)
  rw [if_neg hs]
  by_cases hsame : dest = src
  · rw [if_pos hsame]
    exact ⟨EOK, st, rfl, FramePost.refl _ _ _, fun _ => ⟨fun h => absurd hsame h, fun _ => ⟨rfl, rfl⟩⟩⟩
  rw [if_neg hsame]
  by_cases hlt : dest < src
  · rw [if_pos hlt]
    exact (copy_outcomeN cfg true false src dest dmax src 0 True st hall hrw' hpos).imp
      (fun c s h hmx => ⟨fun _ => h hmx, fun he => absurd he hsame⟩)
  · rw [if_neg hlt]
    exact (copy_outcomeN cfg false false dest dest dmax src 0 True st hall hrw' hpos).imp
      (fun c s h hmx => ⟨fun _ => h hmx, fun he => absurd he hsame⟩)

/-- **strncpy_s: every call** with `slen` inside a known source object.  `slen == 0` is the recorded
`strncpy-slen0-shortcut` (EOK, only dest[0] zeroed). -/
theorem strncpy_s_ext (cfg : Cfg) (dest dmax src slen : Nat) (destbos srcbos : Bos) (st : St)
    (hall : ∀ a, st.mapped a = true ∧ st.rd a = true) (hrw : dest ≠ 0 → RW st dest dmax)
    (hsb : ∀ sb, srcbos = some sb → slen ≤ sb) :
    Outcome dest dmax st (strncpy_s cfg dest dmax src slen destbos srcbos)
      (fun code st' => UsableNB dest dmax destbos → WQ cfg dest dmax (slen ≠ 0) code st') := by
  unfold strncpy_s strncpyG
  by_cases h0 : slen = 0 ∧ dest ≠ 0 ∧ dmax ≠ 0
  · rw [if_pos h0]
    obtain ⟨hs0, hd, hz⟩ := h0
    have hpos : 0 < dmax := Nat.pos_of_ne_zero hz
    have hh := hrw hd 0 hpos
    simp only [Nat.add_zero] at hh
    refine ⟨EOK, st.upd dest 0, by simp [exec_bind, exec_store_ok _ _ _ hh.1 hh.2.1], ?_, ?_⟩
    · exact ⟨rfl, rfl, rfl, rfl, fun a ha => St.upd_data_ne _ _ _ _ (by omega)⟩
    · intro _
      refine ⟨⟨⟨0, hpos, by simp⟩, fun h => absurd rfl h, fun h => ?_⟩, fun h => absurd hs0 h⟩
      rcases h with h | h | h | h <;> exact absurd h (by decide)
  rw [if_neg h0]
  apply entryN cfg dest dmax destbos st _ _ hall hrw
  intro hd hpos
  have hrw' := hrw hd
  by_cases hs : src = 0
  · rw [if_pos hs]; exact nullSrc_outcomeN cfg dest dmax _ st hrw' hpos
  rw [if_neg hs]
  unfold chkSlenMaxClear
  by_cases hsl : slen > RSIZE_MAX_STR
  · rw [if_pos hsl]; exact slenExitN_outcome cfg dest dmax _ st hall hrw' hd hpos
  rw [if_neg hsl]
  have body' : Outcome dest dmax st
      (if dest < src then copyLoop cfg true true src dest dmax dmax dest src slen
       else copyLoop cfg false true dest dest dmax dmax dest src slen)
      (fun c s => dmax ≤ RSIZE_MAX_STR → WQ cfg dest dmax (slen ≠ 0) c s) := by
    by_cases hlt : dest < src
    · rw [if_pos hlt]; exact copy_outcomeN cfg true true src dest dmax src slen _ st hall hrw' hpos
    · rw [if_neg hlt]; exact copy_outcomeN cfg false true dest dest dmax src slen _ st hall hrw' hpos
  cases srcbos with
  | none => exact body'
  | some sb =>
    simp only
    have : ¬ slen > sb := by have := hsb sb rfl; omega
    rw [if_neg this]; exact body'

/-- **strcat_s: every call.** -/
theorem strcat_s_ext (cfg : Cfg) (dest dmax src : Nat) (destbos : Bos) (st : St)
    (hall : ∀ a, st.mapped a = true ∧ st.rd a = true) (hrw : dest ≠ 0 → RW st dest dmax) :
    Outcome dest dmax st (strcat_s cfg dest dmax src destbos)
      (fun code st' => UsableNB dest dmax destbos → WQ cfg dest dmax True code st') := by
  unfold strcat_s strcatG
  apply entryN cfg dest dmax destbos st _ _ hall hrw
  intro hd hpos
  have hrw' := hrw hd
  by_cases hs : src = 0
  · rw [if_pos hs]; exact nullSrc_outcomeN cfg dest dmax _ st hrw' hpos
  rw [if_neg hs]
  by_cases hlt : dest < src
  · rw [if_pos hlt]
    refine cat_outcomeN cfg true true false src dest dmax src 0 st hall hrw' hpos _ ?_ ?_
    · intro c; rfl
    · intro d m; rfl
  · rw [if_neg hlt]
    refine cat_outcomeN cfg false false false dest dest dmax src 0 st hall hrw' hpos _ ?_ ?_
    · intro c; rfl
    · intro d m; rfl

/-- the `slen == 0` branch of `strncat_s`: `handle_error(dest, dmax, …, l < dmax ? EOK : ESZEROL)` -/
theorem strncat_slen0_outcome (cfg : Cfg) (dest dmax : Nat) (st : St)
    (hall : ∀ a, st.mapped a = true ∧ st.rd a = true) (hrw : RW st dest dmax) (hpos : 0 < dmax) :
    Outcome dest dmax st (do
        let l ← strnlen_s dest dmax none
        let error := if l < dmax then EOK else ESZEROL
        handleError cfg dest dmax error
        pure error : Prog Nat)
      (fun c s => dmax ≤ RSIZE_MAX_STR → WQ cfg dest dmax True c s) := by
  obtain ⟨len, s1, he1, hd, hm, hr, hw, hst, hle, _⟩ := strnlen_s_any dest dmax st hall
  have hrw1 : RW s1 dest dmax := by
    intro i hi; rw [hm, hw, hr]; exact hrw i hi
  obtain ⟨st', he2, hm2, hr2, hw2, hst2, _, h00, hcl, hns⟩ :=
    handleError_ok cfg dest dmax (if len < dmax then EOK else ESZEROL) s1 hrw1 hpos
  have hall0 : cfg.slack = true → ∀ i, i < dmax → st'.data (dest + i) = 0 := by
    intro hsl i hi
    rw [hcl hsl (dest+i)]
    have : dest ≤ dest + i ∧ dest + i < dest + dmax := by omega
    simp [this]
  refine ⟨(if len < dmax then EOK else ESZEROL), st', by simp [exec_bind, he1, he2], ?_, fun _ => ⟨StrPost.of_clear hpos h00 hall0,
    fun _ _ => ⟨0, hpos, fun i hi => by omega, by simpa using h00, fun hsl i _ hi => hall0 hsl i hi⟩⟩⟩
  refine ⟨hm2.trans hm, hr2.trans hr, hw2.trans hw, hst2.trans hst, fun a ha => ?_⟩
  rw [← hd]
  cases hcs : cfg.slack with
  | true => rw [hcl hcs a]; simp [ha]
  | false => exact hns hcs a (by intro h; subst h; exact ha ⟨Nat.le_refl _, by omega⟩)

/-- **strncat_s: every call** with `slen` inside a known source object. -/
theorem strncat_s_ext (cfg : Cfg) (dest dmax src slen : Nat) (destbos srcbos : Bos) (st : St)
    (hall : ∀ a, st.mapped a = true ∧ st.rd a = true) (hrw : dest ≠ 0 → RW st dest dmax)
    (hsb : ∀ sb, srcbos = some sb → slen ≤ sb) :
    Outcome dest dmax st (strncat_s cfg dest dmax src slen destbos srcbos)
      (fun code st' => UsableNB dest dmax destbos → WQ cfg dest dmax True code st') := by
  unfold strncat_s strncatG
  by_cases h0 : slen = 0 ∧ dest = 0 ∧ dmax = 0
  · rw [if_pos h0]
    exact ⟨EOK, st, rfl, FramePost.refl _ _ _, fun h => absurd h0.2.1 h.1⟩
  rw [if_neg h0]
  apply entryN cfg dest dmax destbos st _ _ hall hrw
  intro hd hpos
  have hrw' := hrw hd
  by_cases hs : src = 0
  · rw [if_pos hs]; exact nullSrc_outcomeN cfg dest dmax _ st hrw' hpos
  rw [if_neg hs]
  unfold chkSlenMaxClear
  by_cases hsl : slen > RSIZE_MAX_STR
  · rw [if_pos hsl]; exact slenExitN_outcome cfg dest dmax _ st hall hrw' hd hpos
  rw [if_neg hsl]
  by_cases hz : slen = 0
  · rw [if_pos hz]; exact strncat_slen0_outcome cfg dest dmax st hall hrw' hpos
  rw [if_neg hz]
  have body' : Outcome dest dmax st
      (if dest < src then do
          match ← findEnd cfg true src dest dmax dmax dest with
          | .inl code => pure code
          | .inr (d, m) => copyLoop cfg true true src dest dmax m d src slen
        else do
          match ← findEnd cfg false dest dest dmax dmax dest with
          | .inl code => pure code
          | .inr (d, m) => copyLoop cfg false true dest dest dmax m d src slen : Prog Nat)
      (fun c s => dmax ≤ RSIZE_MAX_STR → WQ cfg dest dmax True c s) := by
    by_cases hlt : dest < src
    · rw [if_pos hlt]
      refine cat_outcomeN cfg true true true src dest dmax src slen st hall hrw' hpos _ ?_ ?_
      · intro c; rfl
      · intro d m; rfl
    · rw [if_neg hlt]
      refine cat_outcomeN cfg false false true dest dest dmax src slen st hall hrw' hpos _ ?_ ?_
      · intro c; rfl
      · intro d m; rfl
  cases srcbos with
  | none => exact body'
  | some sb =>
    simp only
    have : ¬ slen > sb := by have := hsb sb rfl; omega
    rw [if_neg this]; exact body'

end SafeC

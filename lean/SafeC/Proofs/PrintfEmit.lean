import SafeC.Models.PrintfSpec
/-!
# C11: the sinks and the `idx` / `maxlen` discipline

`emitAll` (a loop of `out(c, buffer, idx++, maxlen)` calls that returns at the first failure) characterised completely for
the three sinks, and `safec_out_rev` reduced to one `emitAll` of its text.
-/
namespace SafeC.Printf

theorem emitRep_eq (sk : Sink) (m : Nat) (c : Char) : ∀ (n : Nat) (s : St), emitRep sk m c n s = emitAll sk m (List.replicate n c) s := by
  intro n
  induction n with
  | zero => intro s; rfl
  | succ n ih =>
    intro s
    simp only [emitRep, List.replicate_succ, emitAll]
    cases out sk m c s with
    | error e => rfl
    | ok s' => exact ih s'

theorem emitAll_append (sk : Sink) (m : Nat) : ∀ (a b : List Char) (s : St),
    emitAll sk m (a ++ b) s = (emitAll sk m a s >>= emitAll sk m b) := by
  intro a
  induction a with
  | nil => intro b s; rfl
  | cons c a ih =>
    intro b s
    simp only [List.cons_append, emitAll]
    cases out sk m c s with
    | error e => rfl
    | ok s' => exact ih b s'

/-- `safec_out_fchar`: every character reaches the stream, in order -/
theorem emitAll_fchar (m : Nat) : ∀ (cs : List Char) (s : St),
    emitAll .fchar m cs s = .ok { s with stream := s.stream ++ cs, idx := s.idx + cs.length } := by
  intro cs
  induction cs with
  | nil => intro s; simp [emitAll]
  | cons c cs ih =>
    intro s
    simp only [emitAll, out, bind, Except.bind, ih]
    simp [Nat.add_assoc, Nat.add_comm 1]

/-- `safec_out_char`: every character except NUL reaches stdout; `idx` counts the NULs too -/
theorem emitAll_char (m : Nat) : ∀ (cs : List Char) (s : St),
    emitAll .char m cs s = .ok { s with stream := s.stream ++ cs.filter (· ≠ '\x00'), idx := s.idx + cs.length } := by
  intro cs
  induction cs with
  | nil => intro s; simp [emitAll]
  | cons c cs ih =>
    intro s
    simp only [emitAll, out, bind, Except.bind, ih]
    by_cases hc : c = '\x00'
    · subst hc; simp [Nat.add_assoc, Nat.add_comm 1]
    · simp [hc, Nat.add_assoc, Nat.add_comm 1]

/-- `safec_out_buffer`, room for everything: the characters are stored at `dest[idx ..]`, nothing else changes -/
theorem emitAll_buffer_fits (m : Nat) : ∀ (cs : List Char) (s : St), s.idx + cs.length ≤ m → s.cells.length = m →
    ∃ s', emitAll .buffer m cs s = .ok s' ∧ s'.idx = s.idx + cs.length ∧ s'.stream = s.stream ∧ s'.cells.length = m ∧
      s'.cells.take s'.idx = s.cells.take s.idx ++ cs ∧ s'.cells.drop s'.idx = s.cells.drop (s.idx + cs.length) := by
  intro cs
  induction cs with
  | nil => intro s _ hl; exact ⟨s, rfl, by simp, rfl, hl, by simp, by simp⟩
  | cons c cs ih =>
    intro s hfit hl
    simp only [List.length_cons] at hfit
    have hlt : s.idx < m := by omega
    simp only [emitAll, out, hlt, if_true, bind, Except.bind]
    obtain ⟨s', h1, h2, h3, h4, h5, h6⟩ := ih { s with cells := s.cells.set s.idx c, idx := s.idx + 1 } (by simp; omega) (by simp [hl])
    refine ⟨s', h1, by simp only [List.length_cons] at h2 ⊢; omega, by simpa using h3, h4, ?_, ?_⟩
    · rw [h5]
      simp only
      rw [List.take_add_one]
      have hi : s.idx < s.cells.length := by omega
      simp [List.take_set_of_le, hi, List.getElem?_set_self]
    · rw [h6]
      simp only [List.length_cons]
      rw [List.drop_set_of_lt (by omega)]
      congr 1; omega

/-- `safec_out_buffer`, not enough room: the loop returns `-ESNOSPC` (the wrapper then clears `dest`) -/
theorem emitAll_buffer_overflow (m : Nat) : ∀ (cs : List Char) (s : St), s.idx ≤ m → m < s.idx + cs.length →
    emitAll .buffer m cs s = .error (.ret ESNOSPCi) := by
  intro cs
  induction cs with
  | nil => intro s h1 h2; simp at h2; omega
  | cons c cs ih =>
    intro s h1 h2
    simp only [List.length_cons] at h2
    by_cases hlt : s.idx < m
    · simp only [emitAll, out, hlt, if_true, bind, Except.bind]
      exact ih _ (by simp; omega) (by simp; omega)
    · simp [emitAll, out, hlt, bind, Except.bind]

/-- after a successful `emitAll` the index has advanced by the number of characters, whatever the sink -/
theorem emitAll_idx (sk : Sink) (m : Nat) : ∀ (cs : List Char) (s s' : St), emitAll sk m cs s = .ok s' → s'.idx = s.idx + cs.length := by
  intro cs
  induction cs with
  | nil => intro s s' h; simp [emitAll] at h; subst h; simp
  | cons c cs ih =>
    intro s s' h
    simp only [emitAll, bind, Except.bind] at h
    cases ho : out sk m c s with
    | error e => rw [ho] at h; simp at h
    | ok s1 =>
      rw [ho] at h
      have := ih s1 s' h
      have h1 : s1.idx = s.idx + 1 := by
        cases sk <;> simp only [out] at ho
        · split at ho
          · cases ho; rfl
          · cases ho
        · cases ho; rfl
        · cases ho; rfl
      simp only [List.length_cons]; omega

/-- the characters `safec_out_rev` writes: left padding, the buffer reversed, right padding -/
def outRevText (buf : Str) (width : Nat) (fl : Flags) : Str :=
  (if !fl.left && !fl.zeropad then List.replicate (width - buf.length) ' ' else []) ++ buf.reverse ++
  (if fl.left then List.replicate (width - buf.length) ' ' else [])

/-- `safec_out_rev` is one `emitAll` of `outRevText` -/
theorem outRev_eq (sk : Sink) (m : Nat) (buf : Str) (width : Nat) (fl : Flags) (s : St) :
    outRev sk m buf width fl s = emitAll sk m (outRevText buf width fl) s := by
  unfold outRev outRevText
  have hL : ∀ (t : St), emitAll sk m buf.reverse s = .ok t → t.idx - s.idx = buf.length := by
    intro t ht; have := emitAll_idx sk m _ _ _ ht; simp at this; omega
  by_cases h1 : fl.left <;> by_cases h2 : fl.zeropad <;>
    simp only [h1, h2, Bool.not_true, Bool.not_false, Bool.and_true, Bool.and_false, Bool.false_and, Bool.true_and, if_true, if_false,
      Bool.false_eq_true, List.nil_append, List.append_nil, emitAll_append, emitRep_eq, pure, Except.pure, bind, Except.bind]
  · cases h : emitAll sk m buf.reverse s with
    | error e => rfl
    | ok t => simp only; rw [hL t h]
  · cases h : emitAll sk m buf.reverse s with
    | error e => rfl
    | ok t => simp only; rw [hL t h]
  · cases emitAll sk m buf.reverse s <;> rfl
  · cases h0 : emitAll sk m (List.replicate (width - buf.length) ' ') s with
    | error e => rfl
    | ok t0 => simp only; cases emitAll sk m buf.reverse t0 <;> rfl

end SafeC.Printf

import SafeC.Proofs.CopyFunctional
import SafeC.Proofs.Strcpy
/-!
# Entry points of the copy family on valid, non-overlapping operands

Only the declared extents are mapped/readable here (no "everything readable" hypothesis):
`exec … = .ok …` says that nothing faulted, `st'.strays = st.strays` that nothing outside the
declared extents was touched.
-/
namespace SafeC
open Gen

/-- operands do not overlap: the whole dest extent lies below src, or the source string
(including its NUL) lies below dest -/
def Disjoint (dest dmax src n : Nat) : Prop := dest + dmax ≤ src ∨ src + n < dest

/-- In the `dest < src` loop the bumper is compared with the `k` dest cells that the loop can
visit; two bumpers that are both outside these cells give the same program.  (Needed because
`copyLoop_disjoint` asks for `d + i ≠ B` for every `i ≤ n`, also for `i ≥ k`, which a source
starting exactly at `dest + dmax` does not satisfy.) -/
theorem copyLoop_bumper_irrel (cfg : Cfg) (bounded : Bool) (B B' oD oM : Nat) :
    ∀ (k d s slen : Nat), (∀ i, i < k → d + i ≠ B) → (∀ i, i < k → d + i ≠ B') →
      copyLoop cfg true bounded B oD oM k d s slen = copyLoop cfg true bounded B' oD oM k d s slen := by
  intro k
  induction k with
  | zero => intro d s slen _ _; unfold copyLoop; rfl
  | succ k ih =>
    intro d s slen h1 h2
    have e1 : d ≠ B := by simpa using h1 0 (by omega)
    have e2 : d ≠ B' := by simpa using h2 0 (by omega)
    have hrec := ih (d+1) (s+1) (slen-1)
      (by intro i hi; have := h1 (i+1) (by omega); omega)
      (by intro i hi; have := h2 (i+1) (by omega); omega)
    unfold copyLoop
    simp only [if_true, e1, e2, if_false]
    rw [hrec]

/-- `findEnd` on a dest that holds a string of length `dl < k`: stops at the terminator, reads
declared cells only, changes nothing -/
theorem findEnd_str (cfg : Cfg) (chk : Bool) (B oD oM : Nat) (k d dl : Nat) (st : St)
    (hrw : RW st d k) (hdl : dl < k)
    (hnz : ∀ j, j < dl → st.data (d+j) ≠ 0) (hnul : st.data (d+dl) = 0)
    (hb : chk = true → ∀ j, j < dl → d + j ≠ B) :
    exec (findEnd cfg chk B oD oM k d) st = .ok (.inr (d+dl, k-dl), st) := by
  induction k generalizing d dl with
  | zero => omega
  | succ k ih =>
    unfold findEnd
    obtain ⟨hm, _, hr⟩ := hrw.head
    simp only [exec_bind, exec_load_ok _ _ hm hr]
    by_cases h0 : dl = 0
    · subst h0
      have : st.data d = 0 := by simpa using hnul
      simp [this]
    · have hc : st.data d ≠ 0 := by simpa using hnz 0 (by omega)
      have hbb : ¬ (chk = true ∧ d = B) := by
        intro ⟨h1, h2⟩
        have := hb h1 0 (by omega)
        exact this (by simpa using h2)
      have hk : k ≠ 0 := by omega
      simp only [hc, if_false, hbb, hk]
      have := ih (d+1) (dl-1) hrw.tail (by omega)
        (by
          intro j hj
          have e : d + 1 + j = d + (j+1) := by omega
          rw [e]; exact hnz (j+1) (by omega))
        (by
          have e : d + 1 + (dl-1) = d + dl := by omega
          rw [e]; exact hnul)
        (by
          intro h j hj
          have e : d + 1 + j = d + (j+1) := by omega
          rw [e]; exact hb h (j+1) (by omega))
      rw [this]
      have e1 : d + 1 + (dl-1) = d + dl := by omega
      have e2 : k - (dl-1) = k + 1 - dl := by omega
      rw [e1, e2]

/-- strcpy_s / wcscpy_s (via `max`), object size unknown, valid non-overlapping operands -/
theorem strcpyG_disjoint (max : Nat) (cfg : Cfg) (dest dmax src n : Nat) (st : St)
    (hd : dest ≠ 0) (hs : src ≠ 0) (hpos : 0 < dmax) (hle : dmax ≤ max)
    (hrw : RW st dest dmax) (hsrc : SrcStr st src n) (hdisj : Disjoint dest dmax src n) :
    ∃ code st', exec (strcpyG max cfg dest dmax src none) st = .ok (code, st') ∧
      st'.mapped = st.mapped ∧ st'.rd = st.rd ∧ st'.wr = st.wr ∧ st'.strays = st.strays ∧
      (∀ a, ¬ (dest ≤ a ∧ a < dest + dmax) → st'.data a = st.data a) ∧
      (n < dmax → code = EOK ∧ st'.events = st.events ∧
        (∀ i, i < n → st'.data (dest+i) = st.data (src+i)) ∧ st'.data (dest+n) = 0 ∧
        (cfg.slack = true → ∀ i, n ≤ i → i < dmax → st'.data (dest+i) = 0)) ∧
      (dmax ≤ n → code = ESNOSPC ∧ st'.events = st.events ++ [.handler .str ESNOSPC] ∧ st'.data dest = 0 ∧
        (cfg.slack = true → ∀ i, i < dmax → st'.data (dest+i) = 0)) := by
  unfold Disjoint at hdisj
  unfold strcpyG
  have hz : dmax ≠ 0 := by omega
  have hmx : ¬ dmax > max := by omega
  rw [if_neg hd, if_neg hz]
  simp only [chkDmaxClear, chkDmaxClearG]
  rw [if_neg hmx, if_neg hs]
  have hsame : dest ≠ src := by
    intro h; rcases hdisj with h1 | h1 <;> omega
  rw [if_neg hsame]
  have hdj : ∀ j, j ≤ n → ¬ (dest ≤ src + j ∧ src + j < dest + dmax) := by
    intro j hj; rcases hdisj with h1 | h1 <;> omega
  by_cases hlt : dest < src
  · rw [if_pos hlt]
    have hle' : dest + dmax ≤ src := by rcases hdisj with h1 | h1 <;> omega
    rw [copyLoop_bumper_irrel cfg false src 0 dest dmax dmax dest src 0
      (by intro i hi; omega) (by intro i hi; omega)]
    obtain ⟨code, st', he, pm, pr, pw, ps, pf, pok, pfail⟩ :=
      copyLoop_disjoint cfg true 0 dest dmax hpos dmax dest src n 0 st hrw ⟨Nat.le_refl _, rfl⟩ hsrc hdj
        (by intro i hi; simp only [if_true]; omega)
    refine ⟨code, st', he, pm, pr, pw, ps, pf, ?_, pfail⟩
    intro h
    obtain ⟨c1, c2, c3, c4, c5, _⟩ := pok h
    exact ⟨c1, c2, c3, c4, c5⟩
  · rw [if_neg hlt]
    have hlt' : src + n < dest := by rcases hdisj with h1 | h1 <;> omega
    obtain ⟨code, st', he, pm, pr, pw, ps, pf, pok, pfail⟩ :=
      copyLoop_disjoint cfg false dest dest dmax hpos dmax dest src n 0 st hrw ⟨Nat.le_refl _, rfl⟩ hsrc hdj
        (by intro i hi; simp only [Bool.false_eq_true, if_false]; omega)
    refine ⟨code, st', he, pm, pr, pw, ps, pf, ?_, pfail⟩
    intro h
    obtain ⟨c1, c2, c3, c4, c5, _⟩ := pok h
    exact ⟨c1, c2, c3, c4, c5⟩

/-- strncpy_s / (the narrow instance; wcsncpy_s has different entry checks), object sizes unknown,
`0 < slen ≤ max`; `m` = number of characters that get copied: either the source string is shorter
than `slen` (`m = n`, NUL read at `src+n`) or `slen` runs out first (`m = slen ≤ n`), and then the
cell `src+slen` is never read. For the second case disjointness is required for one more cell
(`src + m < dest` rather than `src + m ≤ dest`): the loop tests the bumper before `slen == 0`
(recorded finding `bounded-copy-src-ends-at-dest`). -/
theorem strncpyG_disjoint (max : Nat) (cfg : Cfg) (dest dmax src slen m : Nat) (st : St)
    (hd : dest ≠ 0) (hs : src ≠ 0) (hpos : 0 < dmax) (hle : dmax ≤ max) (hmax : max ≤ RSIZE_MAX_STR)
    (hslen : 0 < slen) (hslenle : slen ≤ max)
    (hrw : RW st dest dmax)
    (hnz : ∀ j, j < m → st.data (src+j) ≠ 0)
    (hrd : ∀ j, j < m → st.mapped (src+j) = true ∧ st.rd (src+j) = true)
    (hfin : (m < slen ∧ st.data (src+m) = 0 ∧ st.mapped (src+m) = true ∧ st.rd (src+m) = true) ∨ slen = m)
    (hdisj : dest + dmax ≤ src ∨ src + m < dest) :
    ∃ code st', exec (strncpyG max cfg dest dmax src slen none none) st = .ok (code, st') ∧
      st'.mapped = st.mapped ∧ st'.rd = st.rd ∧ st'.wr = st.wr ∧ st'.strays = st.strays ∧
      (∀ a, ¬ (dest ≤ a ∧ a < dest + dmax) → st'.data a = st.data a) ∧
      (m < dmax → code = EOK ∧ st'.events = st.events ∧
        (∀ i, i < m → st'.data (dest+i) = st.data (src+i)) ∧ st'.data (dest+m) = 0 ∧
        (cfg.slack = true → ∀ i, m ≤ i → i < dmax → st'.data (dest+i) = 0)) ∧
      (dmax ≤ m → code = ESNOSPC ∧ st'.events = st.events ++ [.handler .str ESNOSPC] ∧ st'.data dest = 0 ∧
        (cfg.slack = true → ∀ i, i < dmax → st'.data (dest+i) = 0)) := by
  unfold strncpyG
  have h0 : ¬ (slen = 0 ∧ dest ≠ 0 ∧ dmax ≠ 0) := by omega
  have hz : dmax ≠ 0 := by omega
  have hmx : ¬ dmax > max := by omega
  have hsx : ¬ slen > max := by omega
  rw [if_neg h0, if_neg hd, if_neg hz]
  simp only [chkDmaxClear, chkDmaxClearG, chkSlenMaxClear]
  rw [if_neg hmx, if_neg hs, if_neg hsx]
  have hdj : ∀ j, j ≤ m → ¬ (dest ≤ src + j ∧ src + j < dest + dmax) := by
    intro j hj; rcases hdisj with h1 | h1 <;> omega
  by_cases hlt : dest < src
  · rw [if_pos hlt]
    have hle' : dest + dmax ≤ src := by rcases hdisj with h1 | h1 <;> omega
    rw [copyLoop_bumper_irrel cfg true src 0 dest dmax dmax dest src slen
      (by intro i hi; omega) (by intro i hi; omega)]
    obtain ⟨code, st', he, pm, pr, pw, ps, pf, pok, pfail⟩ :=
      copyLoop_disjoint_bounded cfg true 0 dest dmax hpos dmax dest src m slen st hrw
        ⟨Nat.le_refl _, rfl⟩ hnz hrd hfin hdj
        (by intro i hi; simp only [if_true]; omega)
    refine ⟨code, st', he, pm, pr, pw, ps, pf, ?_, pfail⟩
    intro h
    obtain ⟨c1, c2, c3, c4, c5, _⟩ := pok h
    exact ⟨c1, c2, c3, c4, c5⟩
  · rw [if_neg hlt]
    have hlt' : src + m < dest := by rcases hdisj with h1 | h1 <;> omega
    obtain ⟨code, st', he, pm, pr, pw, ps, pf, pok, pfail⟩ :=
      copyLoop_disjoint_bounded cfg false dest dest dmax hpos dmax dest src m slen st hrw
        ⟨Nat.le_refl _, rfl⟩ hnz hrd hfin hdj
        (by intro i hi; simp only [Bool.false_eq_true, if_false]; omega)
    refine ⟨code, st', he, pm, pr, pw, ps, pf, ?_, pfail⟩
    intro h
    obtain ⟨c1, c2, c3, c4, c5, _⟩ := pok h
    exact ⟨c1, c2, c3, c4, c5⟩

/-- strcat_s / wcscat_s: dest holds a string of length `dl < dmax`; the source string does not
overlap dest's extent -/
theorem strcatG_disjoint (max : Nat) (cfg : Cfg) (dest dmax src dl n : Nat) (st : St)
    (hd : dest ≠ 0) (hs : src ≠ 0) (hpos : 0 < dmax) (hle : dmax ≤ max)
    (hrw : RW st dest dmax) (hsrc : SrcStr st src n) (hdisj : Disjoint dest dmax src n)
    (hdl : dl < dmax) (hdnz : ∀ j, j < dl → st.data (dest+j) ≠ 0) (hdnul : st.data (dest+dl) = 0) :
    ∃ code st', exec (strcatG max cfg dest dmax src none) st = .ok (code, st') ∧
      st'.mapped = st.mapped ∧ st'.rd = st.rd ∧ st'.wr = st.wr ∧ st'.strays = st.strays ∧
      (∀ a, ¬ (dest ≤ a ∧ a < dest + dmax) → st'.data a = st.data a) ∧
      (dl + n < dmax → code = EOK ∧ st'.events = st.events ∧
        (∀ i, i < dl → st'.data (dest+i) = st.data (dest+i)) ∧
        (∀ i, i < n → st'.data (dest+dl+i) = st.data (src+i)) ∧ st'.data (dest+dl+n) = 0 ∧
        (cfg.slack = true → ∀ i, dl + n ≤ i → i < dmax → st'.data (dest+i) = 0)) ∧
      (dmax ≤ dl + n → code = ESNOSPC ∧ st'.events = st.events ++ [.handler .str ESNOSPC] ∧ st'.data dest = 0 ∧
        (cfg.slack = true → ∀ i, i < dmax → st'.data (dest+i) = 0)) := by
  unfold Disjoint at hdisj
  unfold strcatG
  have hz : dmax ≠ 0 := by omega
  have hmx : ¬ dmax > max := by omega
  rw [if_neg hd, if_neg hz]
  simp only [chkDmaxClear, chkDmaxClearG]
  rw [if_neg hmx, if_neg hs]
  have hdj : ∀ j, j ≤ n → ¬ (dest ≤ src + j ∧ src + j < dest + dmax) := by
    intro j hj; rcases hdisj with h1 | h1 <;> omega
  -- what both branches deliver once the loop lemma has been applied
  have fin : ∀ (p : Prog Nat),
      (∃ code st', exec p st = .ok (code, st') ∧
        st'.mapped = st.mapped ∧ st'.rd = st.rd ∧ st'.wr = st.wr ∧ st'.strays = st.strays ∧
        (∀ a, ¬ (dest ≤ a ∧ a < dest + dmax) → st'.data a = st.data a) ∧
        (n < dmax - dl → code = EOK ∧ st'.events = st.events ∧
          (∀ i, i < n → st'.data (dest+dl+i) = st.data (src+i)) ∧ st'.data (dest+dl+n) = 0 ∧
          (cfg.slack = true → ∀ i, n ≤ i → i < dmax - dl → st'.data (dest+dl+i) = 0) ∧
          (∀ a, dest ≤ a → a < dest + dl → st'.data a = st.data a)) ∧
        (dmax - dl ≤ n → code = ESNOSPC ∧ st'.events = st.events ++ [.handler .str ESNOSPC] ∧
          st'.data dest = 0 ∧ (cfg.slack = true → ∀ i, i < dmax → st'.data (dest+i) = 0))) →
      ∃ code st', exec p st = .ok (code, st') ∧
        st'.mapped = st.mapped ∧ st'.rd = st.rd ∧ st'.wr = st.wr ∧ st'.strays = st.strays ∧
        (∀ a, ¬ (dest ≤ a ∧ a < dest + dmax) → st'.data a = st.data a) ∧
        (dl + n < dmax → code = EOK ∧ st'.events = st.events ∧
          (∀ i, i < dl → st'.data (dest+i) = st.data (dest+i)) ∧
          (∀ i, i < n → st'.data (dest+dl+i) = st.data (src+i)) ∧ st'.data (dest+dl+n) = 0 ∧
          (cfg.slack = true → ∀ i, dl + n ≤ i → i < dmax → st'.data (dest+i) = 0)) ∧
        (dmax ≤ dl + n → code = ESNOSPC ∧ st'.events = st.events ++ [.handler .str ESNOSPC] ∧
          st'.data dest = 0 ∧ (cfg.slack = true → ∀ i, i < dmax → st'.data (dest+i) = 0)) := by
    intro p ⟨code, st', he, pm, pr, pw, ps, pf, pok, pfail⟩
    refine ⟨code, st', he, pm, pr, pw, ps, pf, ?_, ?_⟩
    · intro h
      obtain ⟨c1, c2, c3, c4, c5, c6⟩ := pok (by omega)
      refine ⟨c1, c2, ?_, c3, c4, ?_⟩
      · intro i hi; exact c6 (dest+i) (by omega) (by omega)
      · intro hsl i h1 h2
        have := c5 hsl (i - dl) (by omega) (by omega)
        have e : dest + dl + (i - dl) = dest + i := by omega
        rw [e] at this; exact this
    · intro h; exact pfail (by omega)
  by_cases hlt : dest < src
  · rw [if_pos hlt]
    have hle' : dest + dmax ≤ src := by rcases hdisj with h1 | h1 <;> omega
    have hfe := findEnd_str cfg true src dest dmax dmax dest dl st hrw hdl hdnz hdnul
      (by intro _ j hj; omega)
    apply fin
    simp only [exec_bind, hfe]
    rw [copyLoop_bumper_irrel cfg false src 0 dest dmax (dmax - dl) (dest + dl) src 0
      (by intro i hi; omega) (by intro i hi; omega)]
    exact copyLoop_disjoint cfg true 0 dest dmax hpos (dmax - dl) (dest + dl) src n 0 st hrw
      ⟨by omega, by omega⟩ hsrc hdj (by intro i hi; simp only [if_true]; omega)
  · rw [if_neg hlt]
    have hlt' : src + n < dest := by rcases hdisj with h1 | h1 <;> omega
    have hfe := findEnd_str cfg false dest dest dmax dmax dest dl st hrw hdl hdnz hdnul
      (by intro h; cases h)
    apply fin
    simp only [exec_bind, hfe]
    exact copyLoop_disjoint cfg false dest dest dmax hpos (dmax - dl) (dest + dl) src n 0 st hrw
      ⟨by omega, by omega⟩ hsrc hdj
      (by intro i hi; simp only [Bool.false_eq_true, if_false]; omega)

end SafeC

import SafeC.Proofs.Footprint
import SafeC.Proofs.AccFld
import SafeC.Proofs.AccS
import SafeC.Proofs.AccQuery
import SafeC.Props.C05Time
/-!
# Footprint of `asctime_s` / `ctime_s` (C12)

The argument checks are walked with `Acc` (value-independent: the `struct tm` fields / `*timer`, dest on the
clearing exits); the common tail `timeTail` is value-aware (it measures and copies libc's text) and is taken
from the guarded semantics (`timeTail_small`, the `dmax < 120` path — the one that stages libc's result in a
120-byte buffer, `static` before 7910d7f) or walked with `Acc` (libc returned NULL).  `within2_bind_acc`
glues an `Acc` prefix to a `Within2` continuation.
-/
namespace SafeC
open Gen

/-- an `Acc` prefix followed by a continuation whose footprint is known on every memory that differs from
the present one only on writable cells -/
theorem within2_bind_acc {R W : Nat → Prop} {α β} {p : Prog α} {f : α → Prog β} {Q : α → Prop}
    (hp : Acc R W p Q) (s : St)
    (hf : ∀ x s', Q x → (∀ a, ¬ W a → s'.data a = s.data a) → Within2 R W (f x) s') :
    Within2 R W (p >>= f) s := by
  show Within2 R W (p.bind f) s
  induction hp generalizing s with
  | ret x hx => exact hf x s hx (fun _ _ => rfl)
  | load a k ha _ ih => exact ⟨ha, ih _ s hf⟩
  | store a v k ha _ ih =>
    refine ⟨ha, ih (s.upd a v) (fun x s' hx hs' => hf x s' hx (fun b hb => ?_))⟩
    rw [hs' b hb]
    exact St.upd_data_ne _ _ _ _ (fun e => hb (e ▸ ha))
  | emit e k _ ih => exact ih _ (fun x s' hx hs' => hf x s' hx hs')

variable {R W : Nat → Prop}

theorem Acc_anyField (tm : Nat) (l : List (Nat × (Int → Bool))) (hr : ∀ x ∈ l, R (tm + x.1)) :
    Acc R W (anyField tm l) (fun _ => True) := by
  induction l with
  | nil => exact Acc.pure _ trivial
  | cons x rest ih =>
    obtain ⟨i, p⟩ := x
    unfold anyField
    refine Acc.loadBind (hr (i, p) List.mem_cons_self) (fun v => ?_)
    split
    · exact Acc.pure _ trivial
    · exact ih (fun y hy => hr y (List.mem_cons_of_mem _ hy))

theorem Acc_failClr (cfg : Cfg) (dest dmax code : Nat) (hw : ∀ a, Cells dest dmax a → W a) (h0 : W dest) :
    Acc R W (failClr cfg dest dmax code) (fun _ => True) := by
  unfold failClr
  exact Acc.bind (Acc_handleError' cfg dest dmax code hw h0) (fun _ _ => Acc.pure _ trivial)

theorem within2_timeEntry (dest dmax : Nat) (db : Bos) (k : Prog Nat) (s : St)
    (hw0 : dest ≠ 0 → 0 < dmax → W dest) (hk : dest ≠ 0 → 26 ≤ dmax → Within2 R W k s) :
    Within2 R W (timeEntry dest dmax db k) s := by
  unfold timeEntry
  split
  · exact (Acc_failS' (Q := fun _ => True) _ trivial).within2 s
  rename_i hd
  split
  · refine Acc.within2 (Q := fun _ => True) (Acc.bind (Q := fun _ => True) ?_ (fun _ _ => Acc_failS' _ trivial)) s
    split
    · rename_i hp
      exact Acc.storeP _ _ (hw0 hd hp)
    · exact Acc.pure _ trivial
  rename_i h26
  split
  · split
    · exact (Acc_failS' (Q := fun _ => True) _ trivial).within2 s
    · exact hk hd (by omega)
  · split
    · split
      · exact (Acc_failS' (Q := fun _ => True) _ trivial).within2 s
      · exact (Acc_failS' (Q := fun _ => True) _ trivial).within2 s
    · split
      · exact (Acc_failS' (Q := fun _ => True) _ trivial).within2 s
      · exact hk hd (by omega)

/-- `asctime_s`: the checks read the twelve cells of `*tm`, the clearing exits store to dest; the tail's
footprint is a parameter -/
theorem within2_asctime_s (cfg : Cfg) (dest dmax tm : Nat) (db : Bos) (text : Nat) (s : St)
    (hw : dest ≠ 0 → ∀ a, Cells dest dmax a → W a) (hr : tm ≠ 0 → ∀ a, Cells tm 12 a → R a)
    (htail : dest ≠ 0 → 26 ≤ dmax → tm ≠ 0 → ∀ s', (∀ a, ¬ W a → s'.data a = s.data a) →
      Within2 R W (timeTail cfg dest dmax db text) s') :
    Within2 R W (asctime_s cfg dest dmax tm db text) s := by
  unfold asctime_s
  refine within2_timeEntry dest dmax db _ s (fun hd hp => hw hd dest ⟨Nat.le_refl _, by omega⟩) (fun hd h26 => ?_)
  have hw' := hw hd
  have h0 : W dest := hw' dest ⟨Nat.le_refl _, by omega⟩
  split
  · exact (Acc_failClr cfg dest dmax _ hw' h0).within2 s
  rename_i htm
  have hr' := hr htm
  have hfld : ∀ l : List (Nat × (Int → Bool)), (∀ x ∈ l, x.1 < 12) → Acc R W (anyField tm l) (fun _ => True) :=
    fun l hl => Acc_anyField tm l (fun x hx => hr' _ ⟨by omega, by have := hl x hx; omega⟩)
  have hoff : ∀ (c : Bool) (g : Nat → Nat → Bool),
      Acc R W (if c then pure true else do let lo ← load (tm + 10); let hi ← load (tm + 11); pure (g lo hi) : Prog Bool)
        (fun _ => True) := by
    intro c g
    split
    · exact Acc.pure _ trivial
    · exact Acc.loadBind (hr' _ ⟨by omega, by omega⟩) (fun _ => Acc.loadBind (hr' _ ⟨by omega, by omega⟩)
        (fun _ => Acc.pure _ trivial))
  refine within2_bind_acc (hfld _ (by decide)) s (fun small s1 _ h1 => ?_)
  refine within2_bind_acc (hoff small _) s1 (fun small' s2 _ h2 => ?_)
  split
  · exact (Acc_failClr cfg dest dmax _ hw' h0).within2 s2
  refine within2_bind_acc (hfld _ (by decide)) s2 (fun big s3 _ h3 => ?_)
  refine within2_bind_acc (hoff big _) s3 (fun big' s4 _ h4 => ?_)
  split
  · exact (Acc_failClr cfg dest dmax _ hw' h0).within2 s4
  · exact htail hd h26 htm s4 (fun a ha => by rw [h4 a ha, h3 a ha, h2 a ha, h1 a ha])

/-- `ctime_s`: the checks read `*timer` (twice), the clearing exits store to dest -/
theorem within2_ctime_s (cfg : Cfg) (dest dmax timer : Nat) (db : Bos) (text : Nat) (s : St)
    (hw : dest ≠ 0 → ∀ a, Cells dest dmax a → W a) (hr : timer ≠ 0 → R timer)
    (htail : dest ≠ 0 → 26 ≤ dmax → timer ≠ 0 → ∀ s', (∀ a, ¬ W a → s'.data a = s.data a) →
      Within2 R W (timeTail cfg dest dmax db text) s') :
    Within2 R W (ctime_s cfg dest dmax timer db text) s := by
  unfold ctime_s
  refine within2_timeEntry dest dmax db _ s (fun hd hp => hw hd dest ⟨Nat.le_refl _, by omega⟩) (fun hd h26 => ?_)
  have hw' := hw hd
  have h0 : W dest := hw' dest ⟨Nat.le_refl _, by omega⟩
  split
  · exact (Acc_failClr cfg dest dmax _ hw' h0).within2 s
  rename_i htm
  refine within2_bind_acc (Acc.loadP timer (hr htm)) s (fun t s1 _ h1 => ?_)
  dsimp only
  split
  · exact (Acc_failClr cfg dest dmax _ hw' h0).within2 s1
  refine within2_bind_acc (Acc.loadP timer (hr htm)) s1 (fun t2 s2 _ h2 => ?_)
  split
  · exact (Acc_failClr cfg dest dmax _ hw' h0).within2 s2
  · exact htail hd h26 htm s2 (fun a ha => by rw [h2 a ha, h1 a ha])

/-- the tail when libc returned NULL (`text = 0`): dest is cleared, nothing is read -/
theorem within2_timeTail_null (cfg : Cfg) (dest dmax : Nat) (db : Bos) (s : St) (hpos : 0 < dmax)
    (hw : ∀ a, Cells dest dmax a → W a) : Within2 R W (timeTail cfg dest dmax db 0) s := by
  unfold timeTail
  dsimp only
  rw [if_pos (Or.inl rfl), if_neg (fun h => h.1 rfl)]
  show Within2 R W (do (if cfg.slack = true then memsetP 0 dmax dest else store dest 0); pure NEG1 : Prog Nat) s
  refine Acc.within2 (Q := fun _ => True) (Acc.bind (Q := fun _ => True) ?_ (fun _ _ => Acc.pure _ trivial)) s
  split
  · exact Acc_memsetP' 0 dmax dest hw
  · exact Acc.storeP _ _ (hw dest ⟨Nat.le_refl _, by omega⟩)

/-- the tail on the staging path (`dmax < 120`), libc's text a string of `n` characters disjoint from dest:
loads from dest and the text, stores to dest -/
theorem within2_timeTail_small (cfg : Cfg) (dest dmax : Nat) (db : Bos) (text n : Nat) (s : St) (h120 : dmax < 120)
    (hd : dest ≠ 0) (ht : text ≠ 0) (hpos : 0 < dmax)
    (hnz : ∀ j, j < n → s.data (text + j) ≠ 0) (hnul : s.data (text + n) = 0) (hn : n < scanFuel)
    (hdisj : Disjoint dest dmax text n) :
    Within2 (fun a => Cells dest dmax a ∨ (text ≤ a ∧ a ≤ text + n)) (Cells dest dmax)
      (timeTail cfg dest dmax db text) s := by
  let Rb : Nat → Bool := fun a => decide ((dest ≤ a ∧ a < dest + dmax) ∨ (text ≤ a ∧ a ≤ text + n))
  let Wb : Nat → Bool := fun a => decide (dest ≤ a ∧ a < dest + dmax)
  have hrw : RW (privRW s Rb Wb) dest dmax := by
    intro i hi
    have hc : dest ≤ dest + i ∧ dest + i < dest + dmax := ⟨by omega, by omega⟩
    refine ⟨?_, ?_, ?_⟩
    · simp [privRW, Rb, Wb, hc]
    · simp [privRW, Wb, hc]
    · simp [privRW, Rb, hc]
  have hsrc : SrcStr (privRW s Rb Wb) text n := by
    refine ⟨hnz, hnul, fun j hj => ?_⟩
    have hc : text ≤ text + j ∧ text + j ≤ text + n := ⟨by omega, by omega⟩
    constructor
    · simp [privRW, Rb, hc]
    · simp [privRW, Rb, hc]
  obtain ⟨code, st', he, hst, _⟩ :=
    Props.C05Time.timeTail_small cfg dest dmax db text n (privRW s Rb Wb) h120 hd ht hpos hrw hsrc hn hdisj
  have := (within2_of_guarded _ s Rb Wb he hst).1
  refine within2_mono ?_ ?_ _ s this
  · intro a ha; simpa [Rb, Cells] using ha
  · intro a ha; simpa [Wb, Cells] using ha

/-! ## the direct path (`dmax ≥ 120`): libc writes its text into dest, the tail measures dest and calls
`strcpy_s(dest, dmax, dest)` -/

/-- libc storing a string of `n` characters (at `text`, apart from the target) at `dst`: loads the string,
stores `dst[0..n]`, which then holds the string -/
theorem AccS_copyText (n : Nat) : ∀ (fuel text dst : Nat) (d : Nat → Nat), n < fuel →
    (∀ j, j < n → d (text + j) ≠ 0) → d (text + n) = 0 → (dst + n < text ∨ text + n < dst) →
    (∀ j, j ≤ n → R (text + j)) → (∀ j, j ≤ n → W (dst + j)) →
    AccS R W d (copyText fuel text dst)
      (fun _ d' => (∀ j, j ≤ n → d' (dst + j) = d (text + j)) ∧ ∀ a, ¬ (dst ≤ a ∧ a ≤ dst + n) → d' a = d a) := by
  induction n with
  | zero =>
    intro fuel text dst d hf _ hnul _ hr hw
    obtain ⟨f, rfl⟩ : ∃ f, fuel = f + 1 := ⟨fuel - 1, by omega⟩
    unfold copyText
    refine AccS.loadBind (by simpa using hr 0 (Nat.le_refl _)) ?_
    refine AccS.storeBind (by simpa using hw 0 (Nat.le_refl _)) ?_
    have h0 : d text = 0 := by simpa using hnul
    rw [if_pos h0]
    refine AccS.pure _ ⟨?_, ?_⟩
    · intro j hj
      have : j = 0 := by omega
      subst this
      simp [updF]
    · intro a ha
      have : a ≠ dst := fun e => ha ⟨by omega, by omega⟩
      simp [updF, this]
  | succ n ih =>
    intro fuel text dst d hf hnz hnul hdisj hr hw
    obtain ⟨f, rfl⟩ : ∃ f, fuel = f + 1 := ⟨fuel - 1, by omega⟩
    unfold copyText
    refine AccS.loadBind (by simpa using hr 0 (by omega)) ?_
    refine AccS.storeBind (by simpa using hw 0 (by omega)) ?_
    have h0 : ¬ d text = 0 := by simpa using hnz 0 (by omega)
    rw [if_neg h0]
    have hd1 : ∀ j, j ≤ n + 1 → updF d dst (d text) (text + j) = d (text + j) := by
      intro j hj
      have : text + j ≠ dst := by omega
      simp [updF, this]
    have := ih f (text + 1) (dst + 1) (updF d dst (d text)) (by omega)
      (fun j hj => by
        have e := hd1 (1 + j) (by omega)
        rw [show text + 1 + j = text + (1 + j) by omega, e]
        exact hnz (1 + j) (by omega))
      (by
        have e := hd1 (n + 1) (Nat.le_refl _)
        rw [show text + 1 + n = text + (n + 1) by omega, e]
        exact hnul)
      (by omega)
      (fun j hj => by have := hr (j + 1) (by omega); rwa [show text + (j + 1) = text + 1 + j by omega] at this)
      (fun j hj => by have := hw (j + 1) (by omega); rwa [show dst + (j + 1) = dst + 1 + j by omega] at this)
    refine AccS.conseq this (fun _ d' ⟨p1, p2⟩ => ⟨?_, ?_⟩)
    · intro j hj
      cases j with
      | zero =>
        have := p2 dst (fun h => by omega)
        simp only [Nat.add_zero]
        rw [this]; simp [updF]
      | succ j =>
        have := p1 j (by omega)
        rw [show dst + (j + 1) = dst + 1 + j by omega, this, show text + 1 + j = text + (1 + j) by omega,
          hd1 (1 + j) (by omega)]
        congr 1; omega
    · intro a ha
      rw [p2 a (fun h => ha ⟨by omega, by omega⟩)]
      have : a ≠ dst := fun e => ha ⟨by omega, by omega⟩
      simp [updF, this]

/-- `strcpy_s(dest, dmax, dest, destbos)`: the entry checks (which may clear dest), then the same-pointer exit -/
theorem Acc_strcpy_s_same (cfg : Cfg) (dest dmax : Nat) (b : Bos) (hd : dest ≠ 0) (hpos : dmax ≠ 0)
    (hr : ∀ a, Cells dest dmax a → R a) (hw : ∀ a, Cells dest dmax a → W a) :
    Acc R W (strcpy_s cfg dest dmax dest b) (fun _ => True) := by
  unfold strcpy_s strcpyG
  rw [if_neg hd, if_neg hpos]
  refine Acc_chkDmaxClear' cfg dest dmax b _ hd hpos hr hw ?_
  rw [if_neg hd, if_pos rfl]
  exact Acc.pure _ trivial

/-- the tail on the direct path, libc's text a string of `n < 120` characters apart from dest -/
theorem within2_timeTail_big (cfg : Cfg) (dest dmax : Nat) (db : Bos) (text n : Nat) (s : St) (h120 : 120 ≤ dmax)
    (hd : dest ≠ 0) (ht : text ≠ 0)
    (hnz : ∀ j, j < n → s.data (text + j) ≠ 0) (hnul : s.data (text + n) = 0) (hn : n < 120)
    (hdisj : Disjoint dest dmax text n) :
    Within2 (fun a => Cells dest dmax a ∨ (text ≤ a ∧ a ≤ text + n)) (Cells dest dmax)
      (timeTail cfg dest dmax db text) s := by
  refine AccS.within2 (Q := fun _ _ => True) ?_ s rfl
  unfold timeTail
  dsimp only
  rw [if_neg (by simp [ht]), if_pos (show dmax ≥ 120 from h120)]
  unfold Disjoint at hdisj
  refine AccS.bind (AccS_copyText n 120 text dest s.data hn hnz hnul (by omega)
    (fun j hj => Or.inr ⟨by omega, by omega⟩) (fun j hj => ⟨by omega, by omega⟩)) (fun _ d' ⟨p1, _⟩ => ?_)
  have hterm : d' (dest + n) = 0 := by rw [p1 n (Nat.le_refl _)]; exact hnul
  refine AccS.bind (AccS.of_AccD (AccD_strlenP scanFuel dest 0 (fun a ha => ?_))) (fun len d'' ⟨e, _⟩ => ?_)
  · have := Str.of_term hterm ha
    exact Or.inl ⟨this.1, by have := this.2; omega⟩
  · subst e
    split
    · exact AccS.bind (AccS.of_Acc (Acc_strcpy_s_same cfg dest dmax db hd (by omega)
        (fun a ha => Or.inl ha) (fun a ha => ha)) _) (fun _ _ _ => AccS.pure _ trivial)
    · exact AccS.handlerSBind _ (AccS.pure _ trivial)

end SafeC

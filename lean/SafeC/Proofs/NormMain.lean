import SafeC.Proofs.NormNFD
import SafeC.Proofs.NormUCDLift
/-! C17 — `wcsnorm_s` in NFD mode: what it returns, for all inputs -/
namespace SafeC.Norm
open SafeC.Gen

attribute [local irreducible] cell UniCanon.main UniCanon.planes UniCanon.rows UniCombin.main UniCombin.planes UniCombin.rows
  UniCanon.tbl1 UniCanon.tbl2 UniCanon.tbl3 UniCanon.tbl4

/-- the tree's combining class as a total function (0 where the lookup would be out of bounds) -/
def kcc (c : Nat) : Nat := (combinClass c).getD 0

/-- NFD as the model computes it, sizes aside: decompose every cell, then canonical ordering by the tree's classes -/
def nfdPure (xs : List Nat) : List Nat := reorderPure kcc (xs.flatMap decompose1)

theorem kcc_spec {c : Nat} (h : c ≤ UniCompos.unicodeMax) : combinClass c = some (kcc c) := by
  unfold kcc
  cases hc : combinClass c with
  | none => exact absurd hc (combinClass_ne_none h)
  | some k => rfl

theorem flatMap_decompose1_le {xs : List Nat} (h : ∀ c ∈ xs, c ≤ UniCompos.unicodeMax ∧ c ≠ 0) :
    ∀ d ∈ xs.flatMap decompose1, d ≤ UniCompos.unicodeMax ∧ d ≠ 0 := by
  intro d hd
  simp only [List.mem_flatMap] at hd
  obtain ⟨c, hc, hdc⟩ := hd
  exact decompose1_le (h c hc).1 (h c hc).2 hdc

theorem flatMap_decompose1_fixed {xs : List Nat} : ∀ d ∈ xs.flatMap decompose1, decompose1 d = [d] := by
  intro d hd
  simp only [List.mem_flatMap] at hd
  obtain ⟨c, _, hdc⟩ := hd
  exact decompose1_fixed hdc

theorem flatMap_id_of_fixed : ∀ (ys : List Nat), (∀ d ∈ ys, decompose1 d = [d]) → ys.flatMap decompose1 = ys := by
  intro ys
  induction ys with
  | nil => intro _; rfl
  | cons y ys ih =>
    intro h
    simp only [List.flatMap_cons]
    rw [h y (by simp), ih (fun d hd => h d (by simp [hd]))]
    rfl

/-- **NFD is idempotent, for every string** (model level, any cells) -/
theorem nfdPure_idem (xs : List Nat) : nfdPure (nfdPure xs) = nfdPure xs := by
  unfold nfdPure
  have hfix : ∀ d ∈ reorderPure kcc (xs.flatMap decompose1), decompose1 d = [d] := by
    intro d hd
    exact flatMap_decompose1_fixed d (reorderPure_mem.mp hd)
  rw [flatMap_id_of_fixed _ hfix, reorderPure_idem]

/-- the decomposition entry point -/
theorem decomposeS_spec (dmax : Nat) (src : List Nat) (h0 : ∀ c ∈ src, c ≠ 0) :
    (decomposeS dmax src false).oob = false ∧ (decomposeS dmax src false).overrun = false ∧
    ((decomposeS dmax src false).ret = 0 →
      (decomposeS dmax src false).out = src.flatMap decompose1 ∧
      (decomposeS dmax src false).len = (src.flatMap decompose1).length ∧
      (src.flatMap decompose1).length < dmax ∧ dmax ≤ RSIZE_MAX_WSTR ∧ ∀ c ∈ src, c ≤ UniCompos.unicodeMax) := by
  unfold decomposeS
  by_cases h1 : dmax = 0
  · simp [h1, ESZEROL]
  · by_cases h2 : dmax < 5
    · simp [h1, h2, ESLEMIN]
    · by_cases h3 : dmax > RSIZE_MAX_WSTR
      · simp [h1, h2, h3, ESLEMAX]
      · simp only [h1, h2, h3, ↓reduceIte, Bool.false_eq_true]
        obtain ⟨n1, n2, n3⟩ := decLoop_spec dmax src dmax h0
        cases hl : decLoop dmax src dmax with
        | ok out d =>
          obtain ⟨e1, e2, e3, e4⟩ := n3 out d hl
          simp only [Res.ofStep, true_and]
          intro _
          refine ⟨e1, ?_, ?_, Nat.le_of_not_lt h3, e4⟩
          · rw [← e1]; omega
          · rw [← e1]; omega
        | fail r l =>
          simp only [Res.ofStep, true_and]
          intro hr
          -- a failing pass has a non-zero code
          exact absurd (by exact_mod_cast hr) (decLoop_fail_ne_zero dmax src dmax r l hl)
        | oob => exact absurd hl n1
        | overrun => exact absurd hl n2

/-- **`wcsnorm_s(…, WCSNORM_NFD, …)`: for every input (any cells, any dmax), no table index is out of bounds and no unsigned
wrap occurs; whenever it returns EOK, dest holds NFD of the source as computed from the tree's tables and `*lenp` is its length;
and it returns EOK only if every source cell was a code point** -/
theorem wcsnormS_nfd_spec (fx : Fixes) (dmax : Nat) (src : List Nat) (h0 : ∀ c ∈ src, c ≠ 0) :
    (wcsnormS fx 0 dmax src).oob = false ∧ (wcsnormS fx 0 dmax src).overrun = false ∧
    ((wcsnormS fx 0 dmax src).ret = 0 →
      (wcsnormS fx 0 dmax src).out = nfdPure src ∧ (wcsnormS fx 0 dmax src).len = (nfdPure src).length ∧
      (nfdPure src).length < dmax ∧ ∀ c ∈ src, c ≤ UniCompos.unicodeMax) := by
  obtain ⟨d1, d2, d3⟩ := decomposeS_spec dmax src h0
  unfold wcsnormS
  have h02 : ((0 : Nat) = 2) = False := by simp
  have h00 : ((0 : Nat) = 0) = True := by simp
  simp only [show (0 / 4 % 2 == 1) = false from rfl, d1, d2, Bool.or_self, Bool.false_or, h02, h00, ↓reduceIte, true_or]
  by_cases hret : (decomposeS dmax src false).ret = 0
  · obtain ⟨e1, e2, e3, e4, e5⟩ := d3 hret
    simp only [hret, ne_eq, not_true_eq_false, decide_false, Bool.false_eq_true, ↓reduceIte]
    -- the reorder step on the decomposed cells, with two cells of slack
    have hle := flatMap_decompose1_le (xs := src) (fun c hc => ⟨e5 c hc, h0 c hc⟩)
    have hk : ∀ c ∈ (decomposeS dmax src false).out, combinClass c = some (kcc c) := by
      rw [e1]; intro c hc; exact kcc_spec (hle c hc).1
    have hr : fx.rangeChk = true → ∀ c ∈ (decomposeS dmax src false).out, c ≤ UniCompos.unicodeMax := by
      rw [e1]; intro _ c hc; exact (hle c hc).1
    have hlen : (decomposeS dmax src false).out.length < (decomposeS dmax src false).len + 2 := by
      rw [e1, e2]; omega
    have hpure := reorderLoop_eq_pure fx kcc _ _ hk hr hlen
    unfold reorderS
    by_cases hbig : (decomposeS dmax src false).len + 2 > RSIZE_MAX_WSTR
    · simp [hbig, ESLEMAX]
    · simp only [hbig, ↓reduceIte, hpure, Res.ofStep, Bool.or_self, Bool.false_eq_true, ne_eq, not_true_eq_false,
        decide_false]
      refine ⟨trivial, trivial, fun _ => ?_⟩
      unfold nfdPure
      rw [← e1]
      refine ⟨rfl, ?_, ?_, e5⟩
      · rw [reorderPure_length, e2, e1]
      · rw [reorderPure_length, e1]; exact e3
  · simp only [hret, ne_eq, not_false_eq_true, decide_true, ↓reduceIte, d1, d2, true_and]
    intro h; exact absurd h (by simp [hret])

/-- **a cell above U+10FFFF is rejected (and never used as a table index — `wcsnormS_nfd_spec` says `oob = false`)** -/
theorem wcsnormS_nfd_rejects (fx : Fixes) (dmax : Nat) (src : List Nat) (h0 : ∀ c ∈ src, c ≠ 0)
    (hbad : ∃ c ∈ src, UniCompos.unicodeMax < c) : (wcsnormS fx 0 dmax src).ret ≠ 0 := by
  intro h
  obtain ⟨c, hc, hlt⟩ := hbad
  have := (wcsnormS_nfd_spec fx dmax src h0).2.2 h
  have := this.2.2.2 c hc
  omega

/-- normalizing twice gives the same result as once (two successful calls, any sizes) -/
theorem wcsnormS_nfd_twice (fx : Fixes) (dmax dmax' : Nat) (src : List Nat) (h0 : ∀ c ∈ src, c ≠ 0)
    (h1 : (wcsnormS fx 0 dmax src).ret = 0) (h2 : (wcsnormS fx 0 dmax' (wcsnormS fx 0 dmax src).out).ret = 0) :
    (wcsnormS fx 0 dmax' (wcsnormS fx 0 dmax src).out).out = (wcsnormS fx 0 dmax src).out := by
  have s1 := (wcsnormS_nfd_spec fx dmax src h0).2.2 h1
  have hz : ∀ c ∈ (wcsnormS fx 0 dmax src).out, c ≠ 0 := by
    rw [s1.1]
    intro c hc
    unfold nfdPure at hc
    exact (flatMap_decompose1_le (xs := src) (fun c hc => ⟨s1.2.2.2 c hc, h0 c hc⟩) c (reorderPure_mem.mp hc)).2
  have s2 := (wcsnormS_nfd_spec fx dmax' _ hz).2.2 h2
  rw [s2.1, s1.1, nfdPure_idem]

end SafeC.Norm

import SafeC.Proofs.CopyWrappers
import SafeC.Proofs.Erase
import SafeC.Models.Inplace
/-!
# The in-place string producers `strnterminate_s`, `strzero_s`, `strljustify_s`, `strremovews_s`:
what is left in dest after the call (helper lemmas; the C03 statements are in
`SafeC/Props/C03ExtInplace.lean`)

Setting of C03: every cell mapped and readable (`AllRdI`), ARBITRARY contents.  Under `AllRdI` no access
faults: a load returns the cell, a store is the update `St.put` (which also records a stray when the
cell was not declared writable).  The lemmas about `strljustify_s` / `strremovews_s` follow the data
only: they hold wherever the stores land (the downward walk of `stripTrailing` has no lower bound),
because all that is needed is that one NUL cell of dest is never overwritten with a non-zero value.
-/
namespace SafeC
open Gen

/-- every cell mapped and declared readable -/
def AllRdI (st : St) : Prop := ∀ a, st.mapped a = true ∧ st.rd a = true

/-- what a store does to the state when the cell is mapped -/
def St.put (st : St) (a v : Nat) : St := (st.noteWr a).upd a v

theorem St.put_data (st : St) (a v x : Nat) : (st.put a v).data x = if x = a then v else st.data x := by
  unfold St.put St.noteWr
  split <;> simp [St.upd, St.stray]

theorem St.put_data_same (st : St) (a v : Nat) : (st.put a v).data a = v := by
  rw [St.put_data, if_pos rfl]

theorem St.put_data_ne (st : St) (a v x : Nat) (h : x ≠ a) : (st.put a v).data x = st.data x := by
  rw [St.put_data, if_neg h]

theorem St.put_mapped (st : St) (a v : Nat) : (st.put a v).mapped = st.mapped := by
  unfold St.put St.noteWr
  split <;> simp [St.stray]

theorem St.put_rd (st : St) (a v : Nat) : (st.put a v).rd = st.rd := by
  unfold St.put St.noteWr
  split <;> simp [St.stray]

theorem AllRdI.put {st : St} (h : AllRdI st) (a v : Nat) : AllRdI (st.put a v) := by
  intro x; rw [St.put_mapped, St.put_rd]; exact h x

/-- storing a zero anywhere cannot destroy a NUL -/
theorem St.put_zero_keeps (st : St) (a z : Nat) (hz : st.data z = 0) : (st.put a 0).data z = 0 := by
  rw [St.put_data]; split
  · rfl
  · exact hz

theorem exec_load_allI {st : St} (h : AllRdI st) (a : Nat) : exec (load a) st = .ok (st.data a, st) :=
  exec_load_ok a st (h a).1 (h a).2

theorem exec_store_allI {st : St} (h : AllRdI st) (a v : Nat) : exec (store a v) st = .ok ((), st.put a v) := by
  rw [exec_store, if_pos (h a).1]; rfl

/-- a declared store is the plain update -/
theorem St.put_eq_upd (st : St) (a v : Nat) (hw : st.wr a = true) : st.put a v = st.upd a v := by
  simp [St.put, St.noteWr, hw]

/-- the `dmax` checks pass: limit respected and, when the object size is known, `dmax` within it -/
theorem chkDmax_pass (dmax : Nat) (destbos : Bos) (k : Prog Nat) (hle : dmax ≤ RSIZE_MAX_STR)
    (hb : ∀ b, destbos = some b → dmax ≤ b) : chkDmax dmax destbos RSIZE_MAX_STR k = k := by
  cases destbos with
  | none => simp only [chkDmax]; rw [if_neg (by omega)]
  | some b => have := hb b rfl; simp only [chkDmax]; rw [if_neg (by omega)]

theorem strDmaxOk_of (dmax : Nat) (destbos : Bos) (hle : dmax ≤ RSIZE_MAX_STR)
    (hb : ∀ b, destbos = some b → dmax ≤ b) : strDmaxOk dmax destbos := by
  cases destbos with
  | none => exact hle
  | some b => exact hb b rfl

/-- the first NUL among `K` cells (or `K` when there is none) -/
theorem firstNul (f : Nat → Nat) (K : Nat) :
    ∃ m, m ≤ K ∧ (∀ j, j < m → f j ≠ 0) ∧ (m < K → f m = 0) := by
  induction K with
  | zero => exact ⟨0, Nat.le_refl _, fun j hj => absurd hj (Nat.not_lt_zero _), fun h => absurd h (Nat.lt_irrefl _)⟩
  | succ K ih =>
    obtain ⟨m, hm, hnz, hz⟩ := ih
    by_cases h : m < K
    · exact ⟨m, by omega, hnz, fun _ => hz h⟩
    · have e : m = K := by omega
      subst e
      by_cases h0 : f m = 0
      · exact ⟨m, by omega, hnz, fun _ => h0⟩
      · refine ⟨m+1, by omega, fun j hj => ?_, fun h => by omega⟩
        by_cases hj' : j < m
        · exact hnz j hj'
        · have : j = m := by omega
          subst this; exact h0

/-! ## `strnterminate_s` -/

/-- `while (dmax > 1) { if (*dest) … else break; }`: a pure scan; stops at the first NUL or after
`k` cells -/
theorem ntermLoop_ok (k dest count : Nat) (st : St) (hall : AllRdI st) :
    ∃ n, exec (ntermLoop k dest count) st = .ok ((dest + n, count + n), st) ∧ n ≤ k ∧
      (∀ j, j < n → st.data (dest + j) ≠ 0) ∧ (n < k → st.data (dest + n) = 0) := by
  induction k generalizing dest count with
  | zero => exact ⟨0, rfl, Nat.le_refl _, fun j hj => absurd hj (Nat.not_lt_zero _), fun h => absurd h (Nat.lt_irrefl _)⟩
  | succ k ih =>
    unfold ntermLoop
    simp only [exec_bind, exec_load_allI hall]
    by_cases hc : st.data dest = 0
    · refine ⟨0, ?_, by omega, fun j hj => absurd hj (Nat.not_lt_zero _), fun _ => by simpa using hc⟩
      simp [hc]
    · obtain ⟨n, he, hle, hnz, hz⟩ := ih (dest+1) (count+1)
      refine ⟨n+1, ?_, by omega, ?_, ?_⟩
      · simp only [ne_eq, hc, not_false_eq_true, if_true]
        rw [show dest + (n+1) = dest + 1 + n by omega, show count + (n+1) = count + 1 + n by omega]
        exact he
      · intro j hj
        cases j with
        | zero => simpa using hc
        | succ j =>
          have := hnz j (by omega)
          rwa [show dest + 1 + j = dest + (j+1) by omega] at this
      · intro h
        have := hz (by omega)
        rwa [show dest + 1 + n = dest + (n+1) by omega] at this

/-- complete outcome of `strnterminate_s` on a usable dest: the returned count `n` is below `dmax`,
exactly the cell `dest[n]` was written (with 0), the `n` cells before it are non-NUL -/
theorem strnterminate_s_ok (cfg : Cfg) (dest dmax : Nat) (destbos : Bos) (st : St) (hall : AllRdI st)
    (hrw : RW st dest dmax) (hd : dest ≠ 0) (hpos : 0 < dmax) (hle : dmax ≤ RSIZE_MAX_STR)
    (hb : ∀ b, destbos = some b → dmax ≤ b) :
    ∃ n, exec (strnterminate_s cfg dest dmax destbos) st = .ok (n, st.upd (dest + n) 0) ∧ n < dmax ∧
      (∀ j, j < n → st.data (dest + j) ≠ 0) ∧ (n + 1 < dmax → st.data (dest + n) = 0) := by
  obtain ⟨n, he, hn, hnz, hz⟩ := ntermLoop_ok (dmax - 1) dest 0 st hall
  have hcell := hrw n (by omega)
  have hbody : exec (do
      let (d, count) ← ntermLoop (dmax - 1) dest 0
      store d 0
      pure count) st = .ok (n, st.upd (dest + n) 0) := by
    simp only [exec_bind, he, exec_store_ok _ _ _ hcell.1 hcell.2.1, Nat.zero_add]
    rfl
  refine ⟨n, ?_, by omega, hnz, fun h => hz (by omega)⟩
  unfold strnterminate_s
  rw [if_neg hd, if_neg (by omega)]
  cases destbos with
  | none => simp only []; rw [if_neg (by omega)]; exact hbody
  | some b => have := hb b rfl; simp only []; rw [if_neg (by omega)]; exact hbody

/-! ## `strzero_s` -/

/-- `strzero_s` on a usable dest with arbitrary contents: returns EOK, `dest[0]` is NUL afterwards, with
null-slack all `dmax` cells are zero, nothing outside dest changed -/
theorem strzero_s_ok (cfg : Cfg) (dest dmax : Nat) (destbos : Bos) (st : St) (hall : AllRdI st)
    (hrw : RW st dest dmax) (hd : dest ≠ 0) (hpos : 0 < dmax) (hle : dmax ≤ RSIZE_MAX_STR)
    (hb : ∀ b, destbos = some b → dmax ≤ b) :
    ∃ st', exec (strzero_s cfg dest dmax destbos) st = .ok (EOK, st') ∧ st'.data dest = 0 ∧
      (cfg.slack = true → ∀ i, i < dmax → st'.data (dest + i) = 0) ∧
      (∀ a, ¬ (dest ≤ a ∧ a < dest + dmax) → st'.data a = st.data a) ∧ SameMeta st' st := by
  obtain ⟨m, hm, hnz, hz⟩ := firstNul (fun j => st.data (dest + j)) dmax
  obtain ⟨code, st', he, hok, _, hiff⟩ := strzero_s_spec cfg dest dmax m destbos st hrw hm hnz
    (by
      by_cases h : m < dmax
      · exact Or.inl ⟨h, hz h⟩
      · exact Or.inr ⟨by omega, fun _ => hall _⟩)
  have hc : code = EOK := hiff.2 ⟨hd, by omega, strDmaxOk_of dmax destbos hle hb⟩
  subst hc
  have hf := hok rfl
  refine ⟨st', he, ?_, ?_, ?_, hf.same⟩
  · cases hs : cfg.slack with
    | true =>
      rw [hs] at hf
      have := hf.inside 0 (by simpa using hpos)
      simpa using this
    | false =>
      rw [hs] at hf
      by_cases h0 : 0 < m
      · have := hf.inside 0 (by simpa using h0)
        simpa using this
      · have e : m = 0 := by omega
        subst e
        rw [hf.outside dest (by simp)]
        simpa using hz hpos
  · intro hs i hi
    rw [hs] at hf
    exact hf.inside i (by simpa using hi)
  · intro a ha
    apply hf.outside a
    intro ⟨h1, h2⟩
    apply ha
    refine ⟨h1, ?_⟩
    have : (if cfg.slack = true then dmax else m) ≤ dmax := by split <;> omega
    omega

/-! ## the loops of `strljustify_s` / `strremovews_s` -/

/-- the hand-written clearing loop, wherever it lands -/
theorem zeroLoop_all (n d : Nat) (st : St) (hall : AllRdI st) :
    ∃ st', exec (zeroLoop n d) st = .ok ((), st') ∧ AllRdI st' ∧
      (∀ a, st'.data a = if d ≤ a ∧ a < d + n then 0 else st.data a) := by
  induction n generalizing d st with
  | zero => exact ⟨st, rfl, hall, fun a => by rw [if_neg]; omega⟩
  | succ n ih =>
    obtain ⟨st', he, ha', hd⟩ := ih (d+1) (st.put d 0) (hall.put _ _)
    refine ⟨st', ?_, ha', fun a => ?_⟩
    · simp only [zeroLoop, exec_bind, exec_store_allI hall]; exact he
    · rw [hd a, St.put_data]
      by_cases h1 : d + 1 ≤ a ∧ a < d + 1 + n
      · rw [if_pos h1, if_pos (by omega)]
      · rw [if_neg h1]
        by_cases h2 : a = d
        · rw [if_pos h2, if_pos (by omega)]
        · rw [if_neg h2, if_neg (by omega)]

/-- the termination scan: it looks at the `k+1` cells `cur[0..k]` (one more than its counter).  Either
the first NUL among them is at `cur[n]`, `n ≤ k` — nothing is written — or none of them is NUL and the
ESUNTERM exit has cleared `origDest[0..origDmax)`. -/
theorem termScan_ok (origDest origDmax k cur : Nat) (st : St) (hall : AllRdI st) :
    (∃ n, n ≤ k ∧ exec (termScan origDest origDmax k cur) st = .ok (some (cur + n), st) ∧
      st.data (cur + n) = 0 ∧ ∀ j, j < n → st.data (cur + j) ≠ 0) ∨
    ((∀ j, j ≤ k → st.data (cur + j) ≠ 0) ∧
      ∃ st', exec (termScan origDest origDmax k cur) st = .ok (none, st') ∧ AllRdI st' ∧
        (∀ a, st'.data a = if origDest ≤ a ∧ a < origDest + origDmax then 0 else st.data a)) := by
  induction k generalizing cur with
  | zero =>
    unfold termScan
    simp only [exec_bind, exec_load_allI hall]
    by_cases hc : st.data cur = 0
    · left
      exact ⟨0, Nat.le_refl _, by simp [hc], by simpa using hc, fun j hj => absurd hj (Nat.not_lt_zero _)⟩
    · right
      obtain ⟨s1, he, ha1, hd1⟩ := zeroLoop_all origDmax origDest st hall
      have h0 : ∀ j, j ≤ 0 → st.data (cur + j) ≠ 0 := by
        intro j hj
        have : j = 0 := by omega
        subst this; simpa using hc
      refine ⟨h0, { s1 with events := s1.events ++ [.handler .str ESUNTERM] }, ?_, ha1, hd1⟩
      simp [hc, exec_bind, he, handlerS]
  | succ k ih =>
    unfold termScan
    simp only [exec_bind, exec_load_allI hall]
    by_cases hc : st.data cur = 0
    · left
      exact ⟨0, Nat.zero_le _, by simp [hc], by simpa using hc, fun j hj => absurd hj (Nat.not_lt_zero _)⟩
    · simp only [hc, if_false]
      rcases ih (cur+1) with ⟨n, hn, he, hz, hnz⟩ | ⟨hnz, st', he, ha', hd⟩
      · left
        refine ⟨n+1, by omega, ?_, ?_, ?_⟩
        · rw [show cur + (n+1) = cur + 1 + n by omega]; exact he
        · rw [show cur + (n+1) = cur + 1 + n by omega]; exact hz
        · intro j hj
          cases j with
          | zero => simpa using hc
          | succ j =>
            have := hnz j (by omega)
            rwa [show cur + 1 + j = cur + (j+1) by omega] at this
      · right
        refine ⟨fun j hj => ?_, st', he, ha', hd⟩
        cases j with
        | zero => simpa using hc
        | succ j =>
          have := hnz j (by omega)
          rwa [show cur + 1 + j = cur + (j+1) by omega] at this

/-- the leading-whitespace skip: a pure scan; every cell it steps over is non-NUL -/
theorem skipWs_ok (fuel cur : Nat) (st : St) (hall : AllRdI st) :
    ∃ w, w ≤ fuel ∧ exec (skipWs fuel cur) st = .ok (cur + w, st) ∧
      ∀ j, j < w → st.data (cur + j) = 0x20 ∨ st.data (cur + j) = 0x09 := by
  induction fuel generalizing cur with
  | zero => exact ⟨0, Nat.le_refl _, rfl, fun j hj => absurd hj (Nat.not_lt_zero _)⟩
  | succ fuel ih =>
    obtain ⟨w, hw, he, hws⟩ := ih (cur+1)
    have hstep : ∀ j, j < w + 1 → (st.data cur = 0x20 ∨ st.data cur = 0x09) →
        st.data (cur + j) = 0x20 ∨ st.data (cur + j) = 0x09 := by
      intro j hj h0
      cases j with
      | zero => simpa using h0
      | succ j =>
        have := hws j (by omega)
        rwa [show cur + 1 + j = cur + (j+1) by omega] at this
    unfold skipWs
    simp only [exec_bind, exec_load_allI hall]
    by_cases h1 : st.data cur = 0x20
    · refine ⟨w+1, by omega, ?_, fun j hj => hstep j hj (Or.inl h1)⟩
      rw [if_pos h1, show cur + (w+1) = cur + 1 + w by omega]; exact he
    · rw [if_neg h1]
      simp only [exec_bind, exec_load_allI hall]
      by_cases h2 : st.data cur = 0x09
      · refine ⟨w+1, by omega, ?_, fun j hj => hstep j hj (Or.inr h2)⟩
        rw [if_pos h2, show cur + (w+1) = cur + 1 + w by omega]; exact he
      · refine ⟨0, Nat.zero_le _, ?_, fun j hj => absurd hj (Nat.not_lt_zero _)⟩
        rw [if_neg h2]; rfl

/-- the shift loop `while (*dest) { *orig_dest++ = *dest; *dest++ = ' '; }` never overwrites a NUL cell
`z` at or above its read pointer while its write pointer is below the read pointer: it stops when it
reads `z`, and before that it writes below `z` only -/
theorem shiftLoop_keeps (fuel od cur z : Nat) (st : St) (hall : AllRdI st) (h1 : od < cur) (h2 : cur ≤ z)
    (hz : st.data z = 0) :
    ∃ od' cur' st', exec (shiftLoop fuel od cur) st = .ok ((od', cur'), st') ∧ AllRdI st' ∧
      st'.data z = 0 ∧ od' < cur' ∧ cur' ≤ z ∧ (∀ a, z < a → st'.data a = st.data a) := by
  induction fuel generalizing od cur st with
  | zero => exact ⟨od, cur, st, rfl, hall, hz, h1, h2, fun _ _ => rfl⟩
  | succ fuel ih =>
    unfold shiftLoop
    simp only [exec_bind, exec_load_allI hall]
    by_cases hc : st.data cur = 0
    · refine ⟨od, cur, st, ?_, hall, hz, h1, h2, fun _ _ => rfl⟩
      rw [if_pos hc]; rfl
    · have hne : cur ≠ z := by intro h; subst h; exact hc hz
      rw [if_neg hc]
      simp only [exec_bind, exec_load_allI hall, exec_store_allI hall, exec_store_allI (hall.put _ _)]
      obtain ⟨od', cur', st', he, ha', hz', h1', h2', hfr⟩ :=
        ih (od+1) (cur+1) ((st.put od (st.data cur)).put cur 0x20) ((hall.put _ _).put _ _) (by omega) (by omega)
          (by rw [St.put_data_ne _ _ _ _ (by omega), St.put_data_ne _ _ _ _ (by omega)]; exact hz)
      refine ⟨od', cur', st', he, ha', hz', h1', h2', fun a ha => ?_⟩
      rw [hfr a ha, St.put_data_ne _ _ _ _ (by omega), St.put_data_ne _ _ _ _ (by omega)]

/-- the trailing-whitespace strip stores zeros only (wherever its downward walk takes it): a NUL cell
stays NUL -/
theorem stripTrailing_keeps (fuel cur z : Nat) (st : St) (hall : AllRdI st) (hz : st.data z = 0) :
    ∃ st', exec (stripTrailing fuel cur) st = .ok ((), st') ∧ AllRdI st' ∧ st'.data z = 0 := by
  induction fuel generalizing cur st with
  | zero => exact ⟨st, rfl, hall, hz⟩
  | succ fuel ih =>
    obtain ⟨st', he, ha', hz'⟩ := ih (cur-1) (st.put cur 0) (hall.put _ _) (St.put_zero_keeps _ _ _ hz)
    unfold stripTrailing
    simp only [exec_bind, exec_load_allI hall]
    by_cases h1 : st.data cur = 0x20
    · rw [if_pos h1]
      simp only [exec_bind, exec_store_allI hall]
      exact ⟨st', he, ha', hz'⟩
    · rw [if_neg h1]
      simp only [exec_bind, exec_load_allI hall]
      by_cases h2 : st.data cur = 0x09
      · rw [if_pos h2]
        simp only [exec_bind, exec_store_allI hall]
        exact ⟨st', he, ha', hz'⟩
      · rw [if_neg h2]
        exact ⟨st, rfl, hall, hz⟩

/-- the strip stops at once on a cell that is neither blank nor tab -/
theorem stripTrailing_stop (fuel cur : Nat) (st : St) (hall : AllRdI st)
    (h1 : st.data cur ≠ 0x20) (h2 : st.data cur ≠ 0x09) :
    exec (stripTrailing (fuel+1) cur) st = .ok ((), st) := by
  unfold stripTrailing
  simp only [exec_bind, exec_load_allI hall]
  rw [if_neg h1]
  simp only [exec_bind, exec_load_allI hall]
  rw [if_neg h2]
  rfl

/-! ## `strljustify_s` and `strremovews_s` -/

/-- the scan result under the hypothesis of the partial statements: the first NUL the termination scan
finds lies inside `dmax` -/
theorem scan_within {st : St} {dest dmax n : Nat} (hn : n ≤ dmax)
    (H : (∃ i, i < dmax ∧ st.data (dest + i) = 0) ∨ st.data (dest + dmax) ≠ 0)
    (hz : st.data (dest + n) = 0) (hnz : ∀ j, j < n → st.data (dest + j) ≠ 0) : n < dmax := by
  rcases H with ⟨i, hi, h0⟩ | h
  · apply Classical.byContradiction
    intro hge
    exact hnz i (by omega) h0
  · apply Classical.byContradiction
    intro hge
    have : n = dmax := by omega
    subst this
    exact h hz

/-- `strljustify_s` on a usable dest that holds a NUL within `dmax`, or holds none in `dest[0..dmax]`:
returns EOK or ESUNTERM (then all of `dest[0..dmax)` is zero) and a NUL exists in `dest[0..dmax)`
afterwards -/
theorem strljustify_s_nul (cfg : Cfg) (dest dmax : Nat) (destbos : Bos) (st : St) (hall : AllRdI st)
    (hd : dest ≠ 0) (hpos : 0 < dmax) (hle : dmax ≤ RSIZE_MAX_STR)
    (hb : ∀ b, destbos = some b → dmax ≤ b)
    (H : (∃ i, i < dmax ∧ st.data (dest + i) = 0) ∨ st.data (dest + dmax) ≠ 0) :
    ∃ r st', exec (strljustify_s cfg dest dmax destbos) st = .ok (r, st') ∧ (r = EOK ∨ r = ESUNTERM) ∧
      (r = ESUNTERM → ∀ i, i < dmax → st'.data (dest + i) = 0) ∧ AllRdI st' ∧ ∃ i, i < dmax ∧ st'.data (dest + i) = 0 := by
  unfold strljustify_s
  rw [if_neg hd, if_neg (by omega), chkDmax_pass _ _ _ hle hb]
  by_cases h1 : dmax ≤ 1
  · rw [if_pos h1]
    simp only [exec_bind, exec_store_allI hall]
    exact ⟨EOK, _, rfl, Or.inl rfl, fun h => absurd h (by decide), hall.put _ _, 0, hpos, by simpa using St.put_data_same st dest 0⟩
  rw [if_neg h1]
  simp only [exec_bind, exec_load_allI hall]
  by_cases hc : st.data dest = 0
  · rw [if_pos hc]
    exact ⟨EOK, st, rfl, Or.inl rfl, fun h => absurd h (by decide), hall, 0, hpos, by simpa using hc⟩
  rw [if_neg hc]
  simp only [exec_bind]
  rcases termScan_ok dest dmax dmax dest st hall with ⟨n, hn, he, hz, hnz⟩ | ⟨_, s1, he, ha1, hd1⟩
  · have hlt : n < dmax := scan_within hn H hz hnz
    simp only [he]
    obtain ⟨w, hw, hes, hws⟩ := skipWs_ok (dest + n - dest + 1) dest st hall
    have hwn : w ≤ n := by
      apply Classical.byContradiction
      intro h
      have := hws n (by omega)
      rw [hz] at this
      simp at this
    simp only [exec_bind, hes]
    by_cases hdw : dest ≠ dest + w
    · rw [if_pos hdw]
      obtain ⟨od', cur', s2, he2, ha2, hz2, _, _, _⟩ :=
        shiftLoop_keeps (dest + n - (dest + w) + 1) dest (dest + w) (dest + n) st hall (by omega) (by omega) hz
      simp only [exec_bind, he2, exec_store_allI ha2]
      exact ⟨EOK, _, rfl, Or.inl rfl, fun h => absurd h (by decide), ha2.put _ _, n, hlt, St.put_zero_keeps _ _ _ hz2⟩
    · rw [if_neg hdw]
      exact ⟨EOK, st, rfl, Or.inl rfl, fun h => absurd h (by decide), hall, n, hlt, hz⟩
  · simp only [he]
    refine ⟨ESUNTERM, s1, rfl, Or.inr rfl, fun _ i hi => ?_, ha1, 0, hpos, ?_⟩
    · rw [hd1, if_pos (by omega)]
    · rw [hd1, if_pos (by omega)]

/-- `strremovews_s`, same hypothesis and conclusion -/
theorem strremovews_s_nul (cfg : Cfg) (dest dmax : Nat) (destbos : Bos) (st : St) (hall : AllRdI st)
    (hd : dest ≠ 0) (hpos : 0 < dmax) (hle : dmax ≤ RSIZE_MAX_STR)
    (hb : ∀ b, destbos = some b → dmax ≤ b)
    (H : (∃ i, i < dmax ∧ st.data (dest + i) = 0) ∨ st.data (dest + dmax) ≠ 0) :
    ∃ r st', exec (strremovews_s cfg dest dmax destbos) st = .ok (r, st') ∧ (r = EOK ∨ r = ESUNTERM) ∧
      (r = ESUNTERM → ∀ i, i < dmax → st'.data (dest + i) = 0) ∧ AllRdI st' ∧ ∃ i, i < dmax ∧ st'.data (dest + i) = 0 := by
  unfold strremovews_s
  rw [if_neg hd, if_neg (by omega), chkDmax_pass _ _ _ hle hb]
  simp only [exec_bind, exec_load_allI hall]
  by_cases h1 : st.data dest = 0 ∨ dmax ≤ 1
  · rw [if_pos h1]
    simp only [exec_bind, exec_store_allI hall]
    exact ⟨EOK, _, rfl, Or.inl rfl, fun h => absurd h (by decide), hall.put _ _, 0, hpos, by simpa using St.put_data_same st dest 0⟩
  rw [if_neg h1]
  simp only [exec_bind]
  rcases termScan_ok dest dmax dmax dest st hall with ⟨n, hn, he, hz, hnz⟩ | ⟨_, s1, he, ha1, hd1⟩
  · have hlt : n < dmax := scan_within hn H hz hnz
    simp only [he]
    obtain ⟨w, hw, hes, hws⟩ := skipWs_ok (dest + n - dest + 1) dest st hall
    have hwn : w ≤ n := by
      apply Classical.byContradiction
      intro h
      have := hws n (by omega)
      rw [hz] at this
      simp at this
    simp only [exec_bind, hes, exec_load_allI hall]
    by_cases hc0 : st.data (dest + w) = 0
    · rw [if_pos hc0]
      simp only [exec_bind, exec_store_allI hall]
      exact ⟨EOK, _, rfl, Or.inl rfl, fun h => absurd h (by decide), hall.put _ _, 0, hpos, by simpa using St.put_data_same st dest 0⟩
    rw [if_neg hc0]
    -- the NUL at `dest[n]` survives the optional shift and the trailing strip
    by_cases hdw : dest ≠ dest + w
    · rw [if_pos hdw]
      simp only [exec_bind, exec_load_allI hall]
      rw [if_pos hc0]
      obtain ⟨od', cur', s2, he2, ha2, hz2, _, _, _⟩ :=
        shiftLoop_keeps (dest + n - (dest + w) + 1) dest (dest + w) (dest + n) st hall (by omega) (by omega) hz
      obtain ⟨s3, he3, ha3, hz3⟩ := stripTrailing_keeps (dest + n - 1 + 1) (dest + n - 1) (dest + n)
        (s2.put cur' 0) (ha2.put _ _) (St.put_zero_keeps _ _ _ hz2)
      simp only [exec_bind, he2, exec_store_allI ha2, he3]
      exact ⟨EOK, s3, rfl, Or.inl rfl, fun h => absurd h (by decide), ha3, n, hlt, hz3⟩
    · rw [if_neg hdw]
      obtain ⟨s3, he3, ha3, hz3⟩ := stripTrailing_keeps (dest + n - 1 + 1) (dest + n - 1) (dest + n) st hall hz
      simp only [exec_bind, he3]
      exact ⟨EOK, s3, rfl, Or.inl rfl, fun h => absurd h (by decide), ha3, n, hlt, hz3⟩
  · simp only [he]
    refine ⟨ESUNTERM, s1, rfl, Or.inr rfl, fun _ i hi => ?_, ha1, 0, hpos, ?_⟩
    · rw [hd1, if_pos (by omega)]
    · rw [hd1, if_pos (by omega)]

/-! ## the class the partial statements exclude: no NUL within `dmax`, a NUL AT `dest[dmax]` -/

/-- on a dest with no NUL in its `dmax` cells and a NUL right behind them the termination scan ends
normally, at `dest[dmax]`, and writes nothing -/
theorem termScan_at_dmax (dest dmax : Nat) (st : St) (hall : AllRdI st)
    (hnz : ∀ j, j < dmax → st.data (dest + j) ≠ 0) (hz : st.data (dest + dmax) = 0) :
    exec (termScan dest dmax dmax dest) st = .ok (some (dest + dmax), st) := by
  rcases termScan_ok dest dmax dmax dest st hall with ⟨n, hn, he, hzn, _⟩ | ⟨h, _⟩
  · have : n = dmax := by
      apply Classical.byContradiction
      intro hne
      exact hnz n (by omega) hzn
    subst this
    exact he
  · exact absurd hz (h dmax (Nat.le_refl _))

/-- the skip stops at once on a cell that is neither blank nor tab -/
theorem skipWs_stop (fuel cur : Nat) (st : St) (hall : AllRdI st)
    (h1 : st.data cur ≠ 0x20) (h2 : st.data cur ≠ 0x09) :
    exec (skipWs fuel cur) st = .ok (cur, st) := by
  obtain ⟨w, _, he, hws⟩ := skipWs_ok fuel cur st hall
  cases w with
  | zero => exact he
  | succ w =>
    have := hws 0 (by omega)
    rcases this with h | h
    · exact absurd (by simpa using h) h1
    · exact absurd (by simpa using h) h2

/-- `strljustify_s` on the excluded class (`dmax ≥ 2`, no NUL in `dest[0..dmax)`, `dest[dmax] = 0`, first
cell neither blank nor tab): returns EOK and touches nothing — dest is left unterminated within `dmax` -/
theorem strljustify_s_unterminated (cfg : Cfg) (dest dmax : Nat) (destbos : Bos) (st : St) (hall : AllRdI st)
    (hd : dest ≠ 0) (h2 : 2 ≤ dmax) (hle : dmax ≤ RSIZE_MAX_STR)
    (hb : ∀ b, destbos = some b → dmax ≤ b)
    (hnz : ∀ j, j < dmax → st.data (dest + j) ≠ 0) (hz : st.data (dest + dmax) = 0)
    (hfirst : st.data dest ≠ 0x20 ∧ st.data dest ≠ 0x09) :
    exec (strljustify_s cfg dest dmax destbos) st = .ok (EOK, st) := by
  have h0 : st.data dest ≠ 0 := by simpa using hnz 0 (by omega)
  unfold strljustify_s
  rw [if_neg hd, if_neg (by omega), chkDmax_pass _ _ _ hle hb, if_neg (by omega)]
  simp only [exec_bind, exec_load_allI hall]
  rw [if_neg h0]
  simp only [exec_bind, termScan_at_dmax dest dmax st hall hnz hz,
    skipWs_stop _ dest st hall hfirst.1 hfirst.2]
  simp

/-- `strremovews_s` on the excluded class (`dmax ≥ 2`, no NUL in `dest[0..dmax)`, `dest[dmax] = 0`, first
and last cell neither blank nor tab): returns EOK and touches nothing -/
theorem strremovews_s_unterminated (cfg : Cfg) (dest dmax : Nat) (destbos : Bos) (st : St) (hall : AllRdI st)
    (hd : dest ≠ 0) (h2 : 2 ≤ dmax) (hle : dmax ≤ RSIZE_MAX_STR)
    (hb : ∀ b, destbos = some b → dmax ≤ b)
    (hnz : ∀ j, j < dmax → st.data (dest + j) ≠ 0) (hz : st.data (dest + dmax) = 0)
    (hfirst : st.data dest ≠ 0x20 ∧ st.data dest ≠ 0x09)
    (hlast : st.data (dest + (dmax - 1)) ≠ 0x20 ∧ st.data (dest + (dmax - 1)) ≠ 0x09) :
    exec (strremovews_s cfg dest dmax destbos) st = .ok (EOK, st) := by
  have h0 : st.data dest ≠ 0 := by simpa using hnz 0 (by omega)
  have e : dest + dmax - 1 = dest + (dmax - 1) := by omega
  have hstrip := stripTrailing_stop (dest + dmax - 1) (dest + dmax - 1) st hall
    (by rw [e]; exact hlast.1) (by rw [e]; exact hlast.2)
  unfold strremovews_s
  rw [if_neg hd, if_neg (by omega), chkDmax_pass _ _ _ hle hb]
  simp only [exec_bind, exec_load_allI hall]
  rw [if_neg (by omega)]
  simp only [exec_bind, termScan_at_dmax dest dmax st hall hnz hz,
    skipWs_stop _ dest st hall hfirst.1 hfirst.2, exec_load_allI hall]
  rw [if_neg h0]
  simp [exec_bind, hstrip]

end SafeC

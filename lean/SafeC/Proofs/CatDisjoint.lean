import SafeC.Proofs.CopyDisjoint
/-!
# `strncat_s` (and, via `max`, the shape of `wcsncat_s`) on valid, non-overlapping operands; the wide twins as instances
-/
namespace SafeC
open Gen

/-- strncat_s: dest holds a string of length `dl < dmax`; `m` = number of source characters appended (the source
string is shorter than `slen`, or `slen = m` runs out first and the cell `src+m` is not read) -/
theorem strncatG_disjoint (max : Nat) (cfg : Cfg) (dest dmax src slen dl m : Nat) (st : St)
    (hd : dest ≠ 0) (hs : src ≠ 0) (hpos : 0 < dmax) (hle : dmax ≤ max)
    (hslen : 0 < slen) (hslenle : slen ≤ max)
    (hrw : RW st dest dmax)
    (hnz : ∀ j, j < m → st.data (src+j) ≠ 0)
    (hrd : ∀ j, j < m → st.mapped (src+j) = true ∧ st.rd (src+j) = true)
    (hfin : (m < slen ∧ st.data (src+m) = 0 ∧ st.mapped (src+m) = true ∧ st.rd (src+m) = true) ∨ slen = m)
    (hdisj : dest + dmax ≤ src ∨ src + m < dest)
    (hdl : dl < dmax) (hdnz : ∀ j, j < dl → st.data (dest+j) ≠ 0) (hdnul : st.data (dest+dl) = 0) :
    ∃ code st', exec (strncatG max cfg dest dmax src slen none none) st = .ok (code, st') ∧
      st'.mapped = st.mapped ∧ st'.rd = st.rd ∧ st'.wr = st.wr ∧ st'.strays = st.strays ∧
      (∀ a, ¬ (dest ≤ a ∧ a < dest + dmax) → st'.data a = st.data a) ∧
      (dl + m < dmax → code = EOK ∧ st'.events = st.events ∧
        (∀ i, i < dl → st'.data (dest+i) = st.data (dest+i)) ∧
        (∀ i, i < m → st'.data (dest+dl+i) = st.data (src+i)) ∧ st'.data (dest+dl+m) = 0 ∧
        (cfg.slack = true → ∀ i, dl + m ≤ i → i < dmax → st'.data (dest+i) = 0)) ∧
      (dmax ≤ dl + m → code = ESNOSPC ∧ st'.events = st.events ++ [.handler .str ESNOSPC] ∧ st'.data dest = 0 ∧
        (cfg.slack = true → ∀ i, i < dmax → st'.data (dest+i) = 0)) := by
  unfold strncatG
  have h0 : ¬ (slen = 0 ∧ dest = 0 ∧ dmax = 0) := by omega
  have hz : dmax ≠ 0 := by omega
  have hmx : ¬ dmax > max := by omega
  have hsx : ¬ slen > max := by omega
  have hs0 : slen ≠ 0 := by omega
  rw [if_neg h0, if_neg hd, if_neg hz]
  simp only [chkDmaxClear, chkDmaxClearG, chkSlenMaxClear]
  rw [if_neg hmx, if_neg hs, if_neg hsx, if_neg hs0]
  have hdj : ∀ j, j ≤ m → ¬ (dest ≤ src + j ∧ src + j < dest + dmax) := by
    intro j hj; rcases hdisj with h1 | h1 <;> omega
  have fin : ∀ (p : Prog Nat),
      (∃ code st', exec p st = .ok (code, st') ∧
        st'.mapped = st.mapped ∧ st'.rd = st.rd ∧ st'.wr = st.wr ∧ st'.strays = st.strays ∧
        (∀ a, ¬ (dest ≤ a ∧ a < dest + dmax) → st'.data a = st.data a) ∧
        (m < dmax - dl → code = EOK ∧ st'.events = st.events ∧
          (∀ i, i < m → st'.data (dest+dl+i) = st.data (src+i)) ∧ st'.data (dest+dl+m) = 0 ∧
          (cfg.slack = true → ∀ i, m ≤ i → i < dmax - dl → st'.data (dest+dl+i) = 0) ∧
          (∀ a, dest ≤ a → a < dest + dl → st'.data a = st.data a)) ∧
        (dmax - dl ≤ m → code = ESNOSPC ∧ st'.events = st.events ++ [.handler .str ESNOSPC] ∧
          st'.data dest = 0 ∧ (cfg.slack = true → ∀ i, i < dmax → st'.data (dest+i) = 0))) →
      ∃ code st', exec p st = .ok (code, st') ∧
        st'.mapped = st.mapped ∧ st'.rd = st.rd ∧ st'.wr = st.wr ∧ st'.strays = st.strays ∧
        (∀ a, ¬ (dest ≤ a ∧ a < dest + dmax) → st'.data a = st.data a) ∧
        (dl + m < dmax → code = EOK ∧ st'.events = st.events ∧
          (∀ i, i < dl → st'.data (dest+i) = st.data (dest+i)) ∧
          (∀ i, i < m → st'.data (dest+dl+i) = st.data (src+i)) ∧ st'.data (dest+dl+m) = 0 ∧
          (cfg.slack = true → ∀ i, dl + m ≤ i → i < dmax → st'.data (dest+i) = 0)) ∧
        (dmax ≤ dl + m → code = ESNOSPC ∧ st'.events = st.events ++ [.handler .str ESNOSPC] ∧
          st'.data dest = 0 ∧ (cfg.slack = true → ∀ i, i < dmax → st'.data (dest+i) = 0)) := by
    intro p ⟨code, st', he, pm, pr, pw, ps, pf, pok, pfail⟩
    refine ⟨code, st', he, pm, pr, pw, ps, pf, ?_, ?_⟩
    · intro h
      obtain ⟨c1, c2, c3, c4, c5, c6⟩ := pok (by omega)
      refine ⟨c1, c2, ?_, c3, c4, ?_⟩
      · intro i hi; exact c6 (dest+i) (by omega) (by omega)
      · intro hsl i h1 h2
        have := c5 hsl (i - dl) (by omega) (by omega)
        have e : dest + dl + (i - dl) = dest + i := by omega
        rw [e] at this; exact this
    · intro h; exact pfail (by omega)
  by_cases hlt : dest < src
  · rw [if_pos hlt]
    have hle' : dest + dmax ≤ src := by rcases hdisj with h1 | h1 <;> omega
    have hfe := findEnd_str cfg true src dest dmax dmax dest dl st hrw hdl hdnz hdnul
      (by intro _ j hj; omega)
    apply fin
    simp only [exec_bind, hfe]
    rw [copyLoop_bumper_irrel cfg true src 0 dest dmax (dmax - dl) (dest + dl) src slen
      (by intro i hi; omega) (by intro i hi; omega)]
    exact copyLoop_disjoint_bounded cfg true 0 dest dmax hpos (dmax - dl) (dest + dl) src m slen st hrw
      ⟨by omega, by omega⟩ hnz hrd hfin hdj (by intro i hi; simp only [if_true]; omega)
  · rw [if_neg hlt]
    have hlt' : src + m < dest := by rcases hdisj with h1 | h1 <;> omega
    have hfe := findEnd_str cfg false dest dest dmax dmax dest dl st hrw hdl hdnz hdnul
      (by intro h; cases h)
    apply fin
    simp only [exec_bind, hfe]
    exact copyLoop_disjoint_bounded cfg false dest dest dmax hpos (dmax - dl) (dest + dl) src m slen st hrw
      ⟨by omega, by omega⟩ hnz hrd hfin hdj
      (by intro i hi; simp only [Bool.false_eq_true, if_false]; omega)

/-- on valid sizes `wcsncat_s` is the generic bounded concatenation with the wide limit -/
theorem wcsncat_s_eq (cfg : Cfg) (dest dmax src slen : Nat) (hle : dmax ≤ RSIZE_MAX_WSTR) (hsl : slen ≤ RSIZE_MAX_WSTR)
    (hs0 : slen ≠ 0) :
    wcsncat_s cfg dest dmax src slen none none = strncatG RSIZE_MAX_WSTR cfg dest dmax src slen none none := by
  have hmx : ¬ dmax > RSIZE_MAX_WSTR := by omega
  have hsx : ¬ slen > RSIZE_MAX_WSTR := by omega
  unfold wcsncat_s strncatG chkDmaxW chkDmaxClear chkDmaxClearG chkSlenMaxClear
  simp only [hmx, hsx, hs0, if_false]

theorem wcscat_s_eq (cfg : Cfg) (dest dmax src : Nat) :
    wcscat_s cfg dest dmax src none = strcatG RSIZE_MAX_WSTR cfg dest dmax src none := by
  unfold wcscat_s strcatG chkDmaxW chkDmaxClear chkDmaxClearG failS
  rfl

end SafeC

import SafeC.Proofs.AccOs
/-!
# The exact stream footprint of `gets_s` (value-aware)

`Line d p n a`: `a` is one of the first `n` cells at `p` with no newline strictly before it — the bytes of the first line,
its newline included, cut at `n`.  `fgets(dest, dmax, stdin)` consumes cells of `Line d inp (min (dmax-1) len)` only; the
`getc` that tells a line of exactly `dmax - 1` bytes from a longer one looks at `inp[dmax-1]`, and only when dest is full
and holds no newline: a cell of `Line d inp (min dmax len)` again.  So a stream whose first line is shorter than `dmax` is
never read behind that line.  The stream lies apart from dest (it is not memory in the C).
-/
namespace SafeC
open Gen

variable {R W : Nat → Prop} {d : Nat → Nat}

/-- the first line at `p` (newline included), cut at `n` cells -/
def Line (d : Nat → Nat) (p n a : Nat) : Prop := p ≤ a ∧ a < p + n ∧ ∀ j, p ≤ j → j < a → ¬ d j = 10

theorem Line.mono {p n m a : Nat} (h : n ≤ m) (hl : Line d p n a) : Line d p m a :=
  ⟨hl.1, by have := hl.2.1; omega, hl.2.2⟩

/-- `fgets`: `c ≤ min k len` bytes consumed, no newline among the first `c - 1`, copied to `dst`, nothing else changed -/
theorem AccS_fgetsLoop : ∀ (k inp len dst acc : Nat) (d : Nat → Nat),
    (dst + min k len ≤ inp ∨ inp + min k len ≤ dst) →
    (∀ a, Line d inp (min k len) a → R a) → (∀ a, Cells dst (min k len) a → W a) →
    AccS R W d (fgetsLoop k inp len dst acc) (fun r d' => ∃ c, r.1 = acc + c ∧ c ≤ min k len ∧
      (∀ j, j + 1 < c → ¬ d (inp + j) = 10) ∧ (∀ j, j < c → d' (dst + j) = d (inp + j)) ∧
      (∀ a, ¬ Cells dst c a → d' a = d a)) := by
  intro k
  induction k with
  | zero =>
    intro inp len dst acc d _ _ _
    unfold fgetsLoop
    exact AccS.pure _ ⟨0, rfl, by omega, fun j hj => by omega, fun j hj => by omega, fun _ _ => rfl⟩
  | succ k ih =>
    intro inp len dst acc d hdis hr hw
    cases len with
    | zero =>
      unfold fgetsLoop
      exact AccS.pure _ ⟨0, rfl, by omega, fun j hj => by omega, fun j hj => by omega, fun _ _ => rfl⟩
    | succ l =>
      have e : min (k+1) (l+1) = min k l + 1 := by omega
      rw [e] at hdis hr hw
      unfold fgetsLoop
      refine AccS.loadBind (hr _ ⟨Nat.le_refl _, by omega, fun j h1 h2 => by omega⟩) ?_
      refine AccS.storeBind (hw _ ⟨Nat.le_refl _, by omega⟩) ?_
      split
      · refine AccS.pure _ ⟨1, rfl, by omega, fun j hj => by omega, fun j hj => ?_, fun a ha => ?_⟩
        · have : j = 0 := by omega
          subst this; simp [updF]
        · have : a ≠ dst := fun e => ha ⟨by omega, by omega⟩
          simp [updF, this]
      · rename_i hc
        have hoff : ∀ j, j < min k l + 1 → inp + j ≠ dst := fun j hj => by omega
        refine (ih (inp+1) l (dst+1) (acc+1) _ (by omega) (fun a ha => hr a ?_)
          (fun a ⟨h1, h2⟩ => hw a ⟨by omega, by omega⟩)).conseq (fun r d' ⟨c, g1, g2, g3, g4, g5⟩ => ?_)
        · obtain ⟨h1, h2, h3⟩ := ha
          refine ⟨by omega, by omega, fun j hj1 hj2 => ?_⟩
          by_cases ej : j = inp
          · subst ej; exact hc
          · have := h3 j (by omega) hj2
            have hne : j ≠ dst := by have := hoff (j - inp) (by omega); omega
            simpa [updF, hne] using this
        · refine ⟨c + 1, by omega, by omega, fun j hj => ?_, fun j hj => ?_, fun a ha => ?_⟩
          · cases j with
            | zero => simpa using hc
            | succ j =>
              have := g3 j (by omega)
              have hne : inp + 1 + j ≠ dst := by have := hoff (j+1) (by omega); omega
              rw [show inp + (j + 1) = inp + 1 + j by omega]
              simpa [updF, hne] using this
          · cases j with
            | zero =>
              rw [g5 (dst + 0) (fun ⟨h1, h2⟩ => by omega)]
              simp [updF]
            | succ j =>
              have := g4 j (by omega)
              have hne : inp + 1 + j ≠ dst := by have := hoff (j+1) (by omega); omega
              rw [show dst + (j + 1) = dst + 1 + j by omega, this, show inp + (j + 1) = inp + 1 + j by omega]
              simp [updF, hne]
          · rw [g5 a (fun ⟨h1, h2⟩ => ha ⟨by omega, by omega⟩)]
            have : a ≠ dst := fun e => ha ⟨by omega, by omega⟩
            simp [updF, this]

/-- `strnlen`: the result locates the first terminator among the `n` cells -/
theorem AccD_strnlenP_spec (n s acc : Nat) (hr : ∀ a, Cells s n a → R a) :
    AccD d R (strnlenP n s acc) (fun r => acc ≤ r ∧ r ≤ acc + n ∧ ∀ j, j < r - acc → ¬ d (s + j) = 0) := by
  induction n generalizing s acc with
  | zero => unfold strnlenP; exact AccD.pure _ ⟨Nat.le_refl _, by omega, fun j hj => by omega⟩
  | succ n ih =>
    unfold strnlenP
    refine AccD.loadBind (hr _ ⟨by omega, by omega⟩) ?_
    split
    · exact AccD.pure _ ⟨Nat.le_refl _, by omega, fun j hj => by omega⟩
    · rename_i hne
      refine (ih (s+1) (acc+1) (fun a ⟨h1, h2⟩ => hr a ⟨by omega, by omega⟩)).conseq (fun r ⟨g1, g2, g3⟩ => ⟨by omega, by omega, ?_⟩)
      intro j hj
      cases j with
      | zero => simpa using hne
      | succ j =>
        have := g3 j (by omega)
        rwa [show s + 1 + j = s + (j + 1) by omega] at this

theorem AccS_getsBody (cfg : Cfg) (dest dmax inp len : Nat) (hpos : dmax ≠ 0)
    (hdis : dest + dmax ≤ inp ∨ inp + min dmax len ≤ dest)
    (hri : ∀ a, Line d inp (min dmax len) a → R a)
    (hrd : ∀ a, Cells dest dmax a → R a) (hw : ∀ a, Cells dest dmax a → W a) :
    AccS R W d (getsBody cfg dest dmax inp len) (fun _ _ => True) := by
  have hw0 : W dest := hw _ ⟨Nat.le_refl _, by omega⟩
  unfold getsBody
  split
  · exact AccS.storeBind hw0 (AccS.pure _ trivial)
  refine AccS.bind (AccS_fgetsLoop (dmax-1) inp len dest 0 d (by omega) (fun a ha => hri a (ha.mono (by omega)))
    (fun a ⟨h1, h2⟩ => hw a ⟨h1, by omega⟩)) (fun r d1 hq => ?_)
  obtain ⟨m, eof⟩ := r
  obtain ⟨c, hc, hm, hnl, hcopy, hframe⟩ := hq
  simp only [Nat.zero_add] at hc
  subst hc
  dsimp only
  split
  · exact AccS.storeBind hw0 (AccS.pure _ trivial)
  refine AccS.storeBind (hw _ ⟨by omega, by omega⟩) ?_
  refine AccS.bind (AccS.of_AccD (AccD_strnlenP_spec dmax dest 0 hrd)) (fun n d2 ⟨e2, _, hn, hnz⟩ => ?_)
  subst e2
  simp only [Nat.zero_add, Nat.sub_zero] at hn hnz
  have hnm : n ≤ m := by
    apply Classical.byContradiction
    intro h
    exact hnz m (by omega) (by simp [updF])
  have hdone : ∀ (k : Nat) (d3 : Nat → Nat), k ≤ dmax → AccS R W d3 (do
      (if cfg.slack = true ∧ k < dmax then memsetP 0 (dmax - k) (dest + k) else pure ())
      pure EOK : Prog Nat) (fun _ _ => True) := by
    intro k d3 hk
    refine AccS.bind (Q := fun _ _ => True) (S := fun _ _ => True) ?_ (fun _ _ _ => AccS.pure _ trivial)
    split
    · exact AccS_memsetP 0 _ _ (fun a ⟨h1, h2⟩ => hw a ⟨by omega, by omega⟩)
    · exact AccS.pure _ trivial
  refine AccS.bind (Q := fun last d3 => d3 = updF d1 (dest + m) 0 ∧ (0 < n → last = updF d1 (dest + m) 0 (dest + n - 1))) ?_
    (fun last d3 ⟨e3, hlast⟩ => ?_)
  · split
    · exact AccS.loadBind (hrd _ ⟨by omega, by omega⟩) (AccS.pure _ ⟨rfl, fun _ => rfl⟩)
    · rename_i h0
      exact AccS.pure _ ⟨rfl, fun h => absurd h h0⟩
  subst e3
  split
  · exact AccS.storeBind (hw _ ⟨by omega, by omega⟩) (hdone _ _ (by omega))
  rename_i hnotnl
  split
  · rename_i hfull
    split
    · split
      · exact AccS.pure _ trivial
      · exact hdone _ _ hn
    · rename_i hrest
      have hmn : m = n := by omega
      have hpeek : R (inp + m) := by
        refine hri _ ⟨by omega, by omega, fun j hj1 hj2 => ?_⟩
        obtain ⟨i, rfl⟩ : ∃ i, j = inp + i := ⟨j - inp, by omega⟩
        by_cases hi : i + 1 < m
        · exact hnl i hi
        · have him : i = m - 1 := by omega
          have hpos' : 0 < n := by omega
          have hl := hlast hpos'
          have hne : last ≠ 10 := fun e => hnotnl ⟨hpos', e⟩
          have e1 : updF d1 (dest + m) 0 (dest + n - 1) = d1 (dest + (m - 1)) := by
            have : dest + n - 1 ≠ dest + m := by omega
            simp only [updF, this, if_false]
            congr 1; omega
          rw [hl, e1, hcopy (m-1) (by omega)] at hne
          rw [him]; exact hne
      refine AccS.loadBind hpeek ?_
      split
      · exact hdone _ _ hn
      · refine AccS.bind (AccS_handleError cfg dest dmax _ hw hw0) (fun _ _ _ => ?_)
        refine AccS.bind (Q := fun _ _ => True) (S := fun _ _ => True) ?_ (fun _ _ _ => AccS.pure _ trivial)
        split
        · exact AccS_memsetP 0 dmax dest hw
        · exact AccS.pure _ trivial
  · exact hdone _ _ hn

/-- **gets_s**, exact stream footprint -/
theorem gets_s_accs (cfg : Cfg) (dest dmax : Nat) (db : Bos) (inp len : Nat)
    (hdis : dest ≠ 0 → dest + dmax ≤ inp ∨ inp + min dmax len ≤ dest)
    (hri : ∀ a, Line d inp (min dmax len) a → R a)
    (hrd : dest ≠ 0 → ∀ a, Cells dest dmax a → R a) (hw : dest ≠ 0 → ∀ a, Cells dest dmax a → W a) :
    AccS R W d (gets_s cfg dest dmax db inp len) (fun _ _ => True) := by
  unfold gets_s
  split
  · exact AccS_failS _ trivial
  rename_i hd
  split
  · exact AccS_failS _ trivial
  rename_i hm
  have body := AccS_getsBody (R := R) (W := W) (d := d) cfg dest dmax inp len hm (hdis hd) hri (hrd hd) (hw hd)
  repeat (first | exact body | exact AccS_failS _ trivial | split)

end SafeC

import SafeC.Proofs.Query
/-!
# Every query model is a `NoStore` program

One lemma per loop (induction on the loop counter) and one per entry point.  Together with
`exec_noStore` this gives "they never modify their operands" for EVERY input, valid or not.
(`strpbrk_s` is the exception in the C: its `slen > srcbos` exit clears `dest` through
`handle_str_bos_overflow` — known finding `strpbrk-clears-dest`; it is `NoStore` only with `srcbos`
unknown or not exceeded.)
-/
namespace SafeC
open Gen

/-- zeta-reduce `have`/`let` bindings and `match` on constructors; fails when nothing changes -/
macro "progress_dsimp" : tactic => `(tactic| dsimp only)

set_option maxRecDepth 4000

/-- one structural step of a `NoStore` proof -/
macro "nostore_step" : tactic => `(tactic| first
  | with_reducible exact NoStore.ret _
  | with_reducible exact NoStore.pure _
  | with_reducible exact NoStore.loadP _
  | with_reducible exact NoStore.handlerS _
  | with_reducible exact NoStore.handlerM _
  | assumption
  | with_reducible apply NoStore.bind
  | intro _
  | contradiction
  | progress_dsimp
  | split)

macro "nostore" : tactic => `(tactic| repeat nostore_step)

theorem NoStore.qFailS (c : Nat) : NoStore (SafeC.qFailS c) := by unfold SafeC.qFailS; nostore
theorem NoStore.qFailM (c : Nat) : NoStore (SafeC.qFailM c) := by unfold SafeC.qFailM; nostore
theorem NoStore.failS (c : Nat) : NoStore (SafeC.failS c) := by unfold SafeC.failS; nostore
theorem NoStore.failM (c : Nat) : NoStore (SafeC.failM c) := by unfold SafeC.failM; nostore
theorem NoStore.failS2 (c o : Nat) : NoStore (SafeC.failS2 c o) := by unfold SafeC.failS2; nostore

theorem NoStore.qChkS (dest dmax : Nat) (b : Bos) (src : Option Nat) : NoStore (SafeC.qChkS dest dmax b src) := by
  unfold SafeC.qChkS
  repeat (first | with_reducible exact NoStore.qFailS _ | nostore_step)

theorem NoStore.qChkM (dest dmax : Nat) (b : Bos) : NoStore (SafeC.qChkM dest dmax b) := by
  unfold SafeC.qChkM
  repeat (first | with_reducible exact NoStore.qFailM _ | nostore_step)

theorem NoStore.qChkSlenS (slen : Nat) (b : Bos) : NoStore (SafeC.qChkSlenS slen b) := by
  unfold SafeC.qChkSlenS
  repeat (first | with_reducible exact NoStore.qFailS _ | nostore_step)

theorem NoStore.chkDmaxQ {α} (mk : Nat → α) (dmax : Nat) (b : Bos) (max : Nat) {k : Prog α} (hk : NoStore k) :
    NoStore (SafeC.chkDmaxQ mk dmax b max k) := by
  unfold SafeC.chkDmaxQ; nostore

/-! ### lengths -/

theorem NoStore.strnlenLoop (smax str count : Nat) (b : Bos) : NoStore (SafeC.strnlenLoop smax str count b) := by
  induction smax generalizing str count b with
  | zero => unfold SafeC.strnlenLoop; nostore
  | succ n ih =>
    unfold SafeC.strnlenLoop
    repeat (first | with_reducible exact ih _ _ _ | nostore_step)

theorem strnlen_s_readonly (str smax : Nat) (b : Bos) : NoStore (strnlen_s str smax b) := by
  unfold strnlen_s
  repeat (first | with_reducible exact NoStore.strnlenLoop _ _ _ _ | nostore_step)

theorem NoStore.wcsnlenLoop (smax str count : Nat) : NoStore (SafeC.wcsnlenLoop smax str count) := by
  induction smax generalizing str count with
  | zero => unfold SafeC.wcsnlenLoop; nostore
  | succ n ih =>
    unfold SafeC.wcsnlenLoop
    repeat (first | with_reducible exact ih _ _ | nostore_step)

theorem NoStore.wcsnlenBosLoop (orig smax str count b : Nat) : NoStore (SafeC.wcsnlenBosLoop orig smax str count b) := by
  induction smax generalizing str count b with
  | zero => unfold SafeC.wcsnlenBosLoop; nostore
  | succ n ih =>
    unfold SafeC.wcsnlenBosLoop
    repeat (first | with_reducible exact ih _ _ _ | nostore_step)

theorem wcsnlen_s_readonly (str smax : Nat) (b : Bos) : NoStore (wcsnlen_s_chk str smax b) := by
  unfold wcsnlen_s_chk
  repeat (first | with_reducible exact NoStore.wcsnlenLoop _ _ _ | with_reducible exact NoStore.wcsnlenBosLoop _ _ _ _ _ | nostore_step)

/-! ### libc scans -/

theorem NoStore.strlenP (fuel s n : Nat) : NoStore (SafeC.strlenP fuel s n) := by
  induction fuel generalizing s n with
  | zero => unfold SafeC.strlenP; nostore
  | succ f ih => unfold SafeC.strlenP; repeat (first | with_reducible exact ih _ _ | nostore_step)

theorem NoStore.strchrP (c fuel s : Nat) : NoStore (SafeC.strchrP c fuel s) := by
  induction fuel generalizing s with
  | zero => unfold SafeC.strchrP; nostore
  | succ f ih => unfold SafeC.strchrP; repeat (first | with_reducible exact ih _ | nostore_step)

theorem NoStore.memchrP (c n s : Nat) : NoStore (SafeC.memchrP c n s) := by
  induction n generalizing s with
  | zero => unfold SafeC.memchrP; nostore
  | succ f ih => unfold SafeC.memchrP; repeat (first | with_reducible exact ih _ | nostore_step)

theorem NoStore.memrchrP (c s n : Nat) : NoStore (SafeC.memrchrP c s n) := by
  induction n with
  | zero => unfold SafeC.memrchrP; nostore
  | succ f ih => unfold SafeC.memrchrP; repeat (first | with_reducible exact ih | nostore_step)

/-! ### compare -/

theorem NoStore.strcmpTail (d s : Nat) : NoStore (SafeC.strcmpTail d s) := by unfold SafeC.strcmpTail; nostore

theorem NoStore.strcmpLoop (sb : Bos) (dmax dest src slen : Nat) : NoStore (SafeC.strcmpLoop sb dmax dest src slen) := by
  induction dmax generalizing dest src slen with
  | zero => unfold SafeC.strcmpLoop; repeat (first | with_reducible exact NoStore.strcmpTail _ _ | nostore_step)
  | succ n ih =>
    unfold SafeC.strcmpLoop
    repeat (first | with_reducible exact NoStore.strcmpTail _ _ | with_reducible exact ih _ _ _ | nostore_step)

theorem strcmp_s_readonly (dest dmax src : Nat) (db sb : Bos) : NoStore (strcmp_s dest dmax src db sb) := by
  unfold strcmp_s
  repeat (first | with_reducible exact NoStore.qChkS _ _ _ _ | with_reducible exact NoStore.strcmpLoop _ _ _ _ _ | nostore_step)

theorem NoStore.strcasecmpTail (d s : Nat) : NoStore (SafeC.strcasecmpTail d s) := by unfold SafeC.strcasecmpTail; nostore

theorem NoStore.strcasecmpLoop (dmax dest src : Nat) : NoStore (SafeC.strcasecmpLoop dmax dest src) := by
  induction dmax generalizing dest src with
  | zero => unfold SafeC.strcasecmpLoop; repeat (first | with_reducible exact NoStore.strcasecmpTail _ _ | nostore_step)
  | succ n ih =>
    unfold SafeC.strcasecmpLoop
    repeat (first | with_reducible exact NoStore.strcasecmpTail _ _ | with_reducible exact ih _ _ | nostore_step)

theorem strcasecmp_s_readonly (dest dmax src : Nat) (db : Bos) : NoStore (strcasecmp_s dest dmax src db) := by
  unfold strcasecmp_s
  repeat (first | with_reducible exact NoStore.qChkS _ _ _ _ | with_reducible exact NoStore.strcasecmpLoop _ _ _ | nostore_step)

theorem NoStore.strcmpfldLoop (dmax dest src : Nat) : NoStore (SafeC.strcmpfldLoop dmax dest src) := by
  induction dmax generalizing dest src with
  | zero => unfold SafeC.strcmpfldLoop; exact NoStore.strcmpTail _ _
  | succ n ih =>
    unfold SafeC.strcmpfldLoop
    repeat (first | with_reducible exact NoStore.strcmpTail _ _ | with_reducible exact ih _ _ | nostore_step)

theorem strcmpfld_s_readonly (dest dmax src : Nat) (db : Bos) : NoStore (strcmpfld_s dest dmax src db) := by
  unfold strcmpfld_s
  repeat (first | with_reducible exact NoStore.qChkS _ _ _ _ | with_reducible exact NoStore.strcmpfldLoop _ _ _ | nostore_step)

theorem NoStore.memcmpLoopQ (f : Nat → Nat → Int) (dmax slen dp sp : Nat) : NoStore (SafeC.memcmpLoopQ f dmax slen dp sp) := by
  induction dmax generalizing slen dp sp with
  | zero => unfold SafeC.memcmpLoopQ; nostore
  | succ n ih =>
    cases slen with
    | zero => unfold SafeC.memcmpLoopQ; nostore
    | succ m => unfold SafeC.memcmpLoopQ; repeat (first | with_reducible exact ih _ _ _ | nostore_step)

theorem NoStore.memcmpChecks (max dlen slen dB sB dL dL' : Nat) (db sb : Bos) :
    NoStore (SafeC.memcmpChecks max dlen slen dB sB dL dL' db sb) := by
  unfold SafeC.memcmpChecks
  repeat (first | with_reducible exact NoStore.qFailM _ | nostore_step)

theorem NoStore.memcmpG (max : Nat) (f : Nat → Nat → Int) (dest dlen src slen dB sB dL dL' : Nat) (db sb : Bos) :
    NoStore (SafeC.memcmpG max f dest dlen src slen dB sB dL dL' db sb) := by
  unfold SafeC.memcmpG
  repeat (first | with_reducible exact NoStore.memcmpChecks _ _ _ _ _ _ _ _ _ | with_reducible exact NoStore.memcmpLoopQ _ _ _ _ _ | nostore_step)

theorem memcmp_s_readonly (dest dmax src slen : Nat) (db sb : Bos) : NoStore (memcmp_s dest dmax src slen db sb) :=
  NoStore.memcmpG _ _ _ _ _ _ _ _ _ _ _ _
theorem memcmp16_s_readonly (dest dmax src slen : Nat) (db sb : Bos) : NoStore (memcmp16_s dest dmax src slen db sb) :=
  NoStore.memcmpG _ _ _ _ _ _ _ _ _ _ _ _
theorem memcmp32_s_readonly (dest dmax src slen : Nat) (db sb : Bos) : NoStore (memcmp32_s dest dmax src slen db sb) :=
  NoStore.memcmpG _ _ _ _ _ _ _ _ _ _ _ _

theorem NoStore.wmemcmpLoop (dlen slen dp sp : Nat) : NoStore (SafeC.wmemcmpLoop dlen slen dp sp) := by
  induction dlen generalizing slen dp sp with
  | zero => unfold SafeC.wmemcmpLoop; nostore
  | succ n ih => unfold SafeC.wmemcmpLoop; repeat (first | with_reducible exact ih _ _ _ | nostore_step)

theorem wmemcmp_s_readonly (dest dlen src slen : Nat) (db sb : Bos) : NoStore (wmemcmp_s dest dlen src slen db sb) := by
  unfold wmemcmp_s
  repeat (first | with_reducible exact NoStore.wmemcmpLoop _ _ _ _ | nostore_step)

/-! ### search -/

theorem memchr_s_readonly (dest dmax : Nat) (ch : Int) (db : Bos) : NoStore (memchr_s dest dmax ch db) := by
  unfold memchr_s
  repeat (first | with_reducible exact NoStore.qChkM _ _ _ | with_reducible exact NoStore.memchrP _ _ _ | nostore_step)

theorem memrchr_s_readonly (dest dmax : Nat) (ch : Int) (db : Bos) : NoStore (memrchr_s dest dmax ch db) := by
  unfold memrchr_s
  repeat (first | with_reducible exact NoStore.qChkM _ _ _ | with_reducible exact NoStore.memrchrP _ _ _ | nostore_step)

theorem strchr_s_readonly (dest dmax : Nat) (ch : Int) (db : Bos) : NoStore (strchr_s dest dmax ch db) := by
  unfold strchr_s
  repeat (first | with_reducible exact NoStore.qChkS _ _ _ _ | with_reducible exact NoStore.strchrP _ _ _ | nostore_step)

theorem strrchr_s_readonly (dest dmax : Nat) (ch : Int) (db : Bos) : NoStore (strrchr_s dest dmax ch db) := by
  unfold strrchr_s
  repeat (first | with_reducible exact NoStore.qChkS _ _ _ _ | with_reducible exact strnlen_s_readonly _ _ _ | with_reducible exact memrchr_s_readonly _ _ _ _ | nostore_step)

theorem NoStore.strstrInner (dest src dlen i len : Nat) : NoStore (SafeC.strstrInner dest src dlen i len) := by
  induction dlen generalizing i len with
  | zero => unfold SafeC.strstrInner; nostore
  | succ n ih => unfold SafeC.strstrInner; repeat (first | with_reducible exact ih _ _ | nostore_step)

theorem NoStore.strstrOuter (src slen dmax dest : Nat) : NoStore (SafeC.strstrOuter src slen dmax dest) := by
  induction dmax generalizing dest with
  | zero => unfold SafeC.strstrOuter; nostore
  | succ n ih => unfold SafeC.strstrOuter; repeat (first | with_reducible exact NoStore.strstrInner _ _ _ _ _ | with_reducible exact ih _ | nostore_step)

theorem strstr_s_readonly (dest dmax src slen : Nat) (db sb : Bos) : NoStore (strstr_s dest dmax src slen db sb) := by
  unfold strstr_s
  repeat (first | with_reducible exact NoStore.qChkS _ _ _ _ | with_reducible exact NoStore.qChkSlenS _ _ | with_reducible exact NoStore.strlenP _ _ _ | with_reducible exact NoStore.strstrOuter _ _ _ _ | nostore_step)

theorem NoStore.strcasestrInner (dest src dlen i len : Nat) : NoStore (SafeC.strcasestrInner dest src dlen i len) := by
  induction dlen generalizing i len with
  | zero => unfold SafeC.strcasestrInner; nostore
  | succ n ih => unfold SafeC.strcasestrInner; repeat (first | with_reducible exact ih _ _ | nostore_step)

theorem NoStore.strcasestrOuter (src slen dmax dest : Nat) : NoStore (SafeC.strcasestrOuter src slen dmax dest) := by
  induction dmax generalizing dest with
  | zero => unfold SafeC.strcasestrOuter; nostore
  | succ n ih => unfold SafeC.strcasestrOuter; repeat (first | with_reducible exact NoStore.strcasestrInner _ _ _ _ _ | with_reducible exact ih _ | nostore_step)

theorem strcasestr_s_readonly (dest dmax src slen : Nat) (db sb : Bos) : NoStore (strcasestr_s dest dmax src slen db sb) := by
  unfold strcasestr_s
  repeat (first | with_reducible exact NoStore.qChkS _ _ _ _ | with_reducible exact NoStore.strcasestrOuter _ _ _ _ | nostore_step)

theorem NoStore.spanInner (dest smax scan2 : Nat) : NoStore (SafeC.spanInner dest smax scan2) := by
  induction smax generalizing scan2 with
  | zero => unfold SafeC.spanInner; nostore
  | succ n ih => unfold SafeC.spanInner; repeat (first | with_reducible exact ih _ | nostore_step)

theorem NoStore.spanOuter (want : Bool) (src slen dmax dest count : Nat) : NoStore (SafeC.spanOuter want src slen dmax dest count) := by
  induction dmax generalizing dest count with
  | zero => unfold SafeC.spanOuter; nostore
  | succ n ih => unfold SafeC.spanOuter; repeat (first | with_reducible exact NoStore.spanInner _ _ _ | with_reducible exact ih _ _ | nostore_step)

theorem strspn_s_readonly (dest dmax src slen : Nat) (db sb : Bos) : NoStore (strspn_s dest dmax src slen db sb) := by
  unfold strspn_s
  repeat (first | with_reducible exact NoStore.qChkS _ _ _ _ | with_reducible exact NoStore.qChkSlenS _ _ | with_reducible exact NoStore.spanOuter _ _ _ _ _ _ | nostore_step)

theorem strcspn_s_readonly (dest dmax src slen : Nat) (db sb : Bos) : NoStore (strcspn_s dest dmax src slen db sb) := by
  unfold strcspn_s
  repeat (first | with_reducible exact NoStore.qChkS _ _ _ _ | with_reducible exact NoStore.spanOuter _ _ _ _ _ _ | nostore_step)

theorem NoStore.strprefixLoop (dmax dest src : Nat) : NoStore (SafeC.strprefixLoop dmax dest src) := by
  induction dmax generalizing dest src with
  | zero => unfold SafeC.strprefixLoop; nostore
  | succ n ih => unfold SafeC.strprefixLoop; repeat (first | with_reducible exact ih _ _ | nostore_step)

theorem strprefix_s_readonly (dest dmax src : Nat) (db : Bos) : NoStore (strprefix_s dest dmax src db) := by
  unfold strprefix_s
  repeat (first | with_reducible exact NoStore.qChkS _ _ _ _ | with_reducible exact NoStore.strprefixLoop _ _ _ | nostore_step)

theorem NoStore.strpbrkInner (dest len ps : Nat) : NoStore (SafeC.strpbrkInner dest len ps) := by
  induction len generalizing ps with
  | zero => unfold SafeC.strpbrkInner; nostore
  | succ n ih => unfold SafeC.strpbrkInner; repeat (first | with_reducible exact ih _ | nostore_step)

theorem NoStore.strpbrkOuter (src slen dmax dest : Nat) : NoStore (SafeC.strpbrkOuter src slen dmax dest) := by
  induction dmax generalizing dest with
  | zero => unfold SafeC.strpbrkOuter; nostore
  | succ n ih => unfold SafeC.strpbrkOuter; repeat (first | with_reducible exact NoStore.strpbrkInner _ _ _ | with_reducible exact ih _ | nostore_step)

/-- `strpbrk_s` with the source's object size unknown (the known-size overflow exit clears dest) -/
theorem strpbrk_s_readonly_partial (cfg : Cfg) (dest dmax src slen : Nat) (db : Bos) :
    NoStore (strpbrk_s cfg dest dmax src slen db none) := by
  unfold strpbrk_s
  repeat (first | with_reducible exact NoStore.qChkS _ _ _ _ | with_reducible exact NoStore.strpbrkOuter _ _ _ _ | nostore_step)

/-! ### first / last -/

theorem NoStore.firstcharLoop (c dmax dest : Nat) : NoStore (SafeC.firstcharLoop c dmax dest) := by
  induction dmax generalizing dest with
  | zero => unfold SafeC.firstcharLoop; nostore
  | succ n ih => unfold SafeC.firstcharLoop; repeat (first | with_reducible exact ih _ | nostore_step)

theorem strfirstchar_s_readonly (dest dmax c : Nat) (db : Bos) : NoStore (strfirstchar_s dest dmax c db) := by
  unfold strfirstchar_s
  repeat (first | with_reducible exact NoStore.failS2 _ _ | with_reducible exact NoStore.chkDmaxQ _ _ _ _ (NoStore.firstcharLoop _ _ _) | nostore_step)

theorem NoStore.lastcharLoop (c dmax dest last : Nat) : NoStore (SafeC.lastcharLoop c dmax dest last) := by
  induction dmax generalizing dest last with
  | zero => unfold SafeC.lastcharLoop; nostore
  | succ n ih => unfold SafeC.lastcharLoop; repeat (first | with_reducible exact ih _ _ | nostore_step)

theorem strlastchar_s_readonly (dest dmax c : Nat) (db : Bos) : NoStore (strlastchar_s dest dmax c db) := by
  unfold strlastchar_s
  repeat (first | with_reducible exact NoStore.failS2 _ _ | with_reducible apply NoStore.chkDmaxQ | with_reducible exact NoStore.lastcharLoop _ _ _ _ | nostore_step)

theorem NoStore.pairLoop (same first : Bool) (rp dmax dest src : Nat) (last : Option Nat) :
    NoStore (SafeC.pairLoop same first rp dmax dest src last) := by
  induction dmax generalizing dest src last with
  | zero => unfold SafeC.pairLoop; nostore
  | succ n ih => unfold SafeC.pairLoop; repeat (first | with_reducible exact ih _ _ _ | nostore_step)

theorem pairFn_readonly (same first : Bool) (nohit dest dmax src : Nat) (db : Bos) :
    NoStore (pairFn same first nohit dest dmax src db) := by
  unfold pairFn
  repeat (first | with_reducible exact NoStore.failS2 _ _ | with_reducible apply NoStore.chkDmaxQ | with_reducible exact NoStore.pairLoop _ _ _ _ _ _ _ | nostore_step)

/-! ### classification predicates -/

theorem NoStore.classLoop (ok : Nat → Bool) (dmax dest : Nat) : NoStore (SafeC.classLoop ok dmax dest) := by
  induction dmax generalizing dest with
  | zero => unfold SafeC.classLoop; nostore
  | succ n ih => unfold SafeC.classLoop; repeat (first | with_reducible exact ih _ | nostore_step)

theorem NoStore.classLoopNoBound (ok : Nat → Bool) (fuel dest : Nat) : NoStore (SafeC.classLoopNoBound ok fuel dest) := by
  induction fuel generalizing dest with
  | zero => unfold SafeC.classLoopNoBound; nostore
  | succ n ih => unfold SafeC.classLoopNoBound; repeat (first | with_reducible exact ih _ | nostore_step)

theorem NoStore.chkDestDmaxBool (dest dmax : Nat) (b : Bos) (max : Nat) {k : Prog Bool} (hk : NoStore k) :
    NoStore (SafeC.chkDestDmaxBool dest dmax b max k) := by
  unfold SafeC.chkDestDmaxBool
  repeat (first | with_reducible exact NoStore.chkDmaxQ _ _ _ _ hk | nostore_step)

theorem predFn_readonly (ok : Nat → Bool) (bounded : Bool) (dest dmax : Nat) (db : Bos) :
    NoStore (predFn ok bounded dest dmax db) := by
  unfold predFn
  apply NoStore.chkDestDmaxBool
  repeat (first | with_reducible exact NoStore.classLoop _ _ _ | with_reducible exact NoStore.classLoopNoBound _ _ _ | nostore_step)

theorem strisascii_s_readonly (dest dmax : Nat) (db : Bos) : NoStore (strisascii_s dest dmax db) := by
  unfold strisascii_s
  apply NoStore.chkDestDmaxBool
  repeat (first | with_reducible exact NoStore.classLoop _ _ _ | nostore_step)

end SafeC

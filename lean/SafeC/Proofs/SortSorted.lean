import SafeC.Proofs.SortTrinkle
import SafeC.Proofs.SortWhole
/-!
# qsort_s model: the result is ordered (consistent comparator)

Main loop: every tree but the smallest is heap-ordered, the smallest has heap-ordered subtrees (`MInv`), and a tree whose
stepson comparison was made final — the tree was decided by `trinkle` because `lp[pshift-1] >= high - head`, a static
condition on its order and root position — has a root at least its stepson's (`RootsFin`).  When `trinkle` is called on
a final tree, all trees to its left are final too (`fin_step`: orders at least 2 apart), so their roots ascend (`RootsFin.roots`).
Dismantling loop: all trees heap-ordered, all roots ascending, and everything right of `head` is in its final place (`Dom`).
-/
namespace SafeC.Sort
variable {α : Type}

def RootsFin (le : α → α → Prop) (g : Nat → α) (n : Nat) : List Nat → Nat → Prop
  | o :: o' :: os, r => (n - 1 - r ≤ leo (o - 1) → le (g (r - leo o)) (g r)) ∧ RootsFin le g n (o' :: os) (r - leo o)
  | _, _ => True

theorem RootsFin.congr_le {le : α → α → Prop} {g g' : Nat → α} {n : Nat} : ∀ {os : List Nat} {r : Nat},
    (∀ j, j ≤ r → g' j = g j) → RootsFin le g n os r → RootsFin le g' n os r
  | [], _, _, _ => trivial
  | [_], _, _, _ => trivial
  | _ :: _ :: _, _, hg, h => by
    refine ⟨fun hf => ?_, RootsFin.congr_le (fun j hj => hg j (by omega)) h.2⟩
    rw [hg _ (by omega), hg _ (Nat.le_refl _)]; exact h.1 hf

theorem Roots.fin {le : α → α → Prop} {g : Nat → α} {n : Nat} : ∀ {os : List Nat} {r : Nat}, Roots le g os r → RootsFin le g n os r
  | [], _, _ => trivial
  | [_], _, _ => trivial
  | _ :: _ :: _, _, h => ⟨fun _ => h.1, Roots.fin h.2⟩

/-- a final tree of order `o ≥ 1` at `r`: the next tree to the left, at least 2 orders up, is final too -/
theorem fin_step {n o o' r : Nat} (ho : 1 ≤ o) (hoo : o + 2 ≤ o') (hr : leo o ≤ r) (hf : n - 1 - r ≤ leo (o - 1)) :
    n - 1 - (r - leo o) ≤ leo (o' - 1) := by
  obtain ⟨k, rfl⟩ : ∃ k, o = k + 1 := ⟨o - 1, by omega⟩
  have h1 := leo_succ_succ k
  have h2 : leo (k + 2) ≤ leo (o' - 1) := leo_mono (by omega)
  simp only [Nat.add_sub_cancel] at hf
  omega

/-- the first tree is final, orders at least 2 apart and ≥ 1: `RootsFin` is `Roots` -/
theorem RootsFin.roots {le : α → α → Prop} {g : Nat → α} {n : Nat} : ∀ (o : Nat) (os : List Nat) (r : Nat),
    (o :: os).Pairwise (fun a b => a + 2 ≤ b) → 1 ≤ o → ((o :: os).map leo).sum = r + 1 →
    n - 1 - r ≤ leo (o - 1) → RootsFin le g n (o :: os) r → Roots le g (o :: os) r
  | _, [], _, _, _, _, _, _ => trivial
  | o, o' :: os, r, hp, ho, hs, hf, h => by
    rw [List.pairwise_cons] at hp
    simp only [List.map_cons, List.sum_cons] at hs
    have := leo_pos o'
    have hoo := hp.1 o' (by simp)
    exact ⟨h.1 hf, RootsFin.roots o' os (r - leo o) hp.2 (by omega) (by simp only [List.map_cons, List.sum_cons]; omega)
      (fin_step ho hoo (by omega) hf) h.2⟩

/-- invariant of the main loop on the contents (besides `Shape`) -/
structure MInv (le : α → α → Prop) (g : Nat → α) (n : Nat) (os : List Nat) (pshift head : Nat) : Prop where
  sub : SubHeaps le g pshift head
  heaps : Heaps le g os.tail (head - leo pshift)
  fin : RootsFin le g n os.tail (head - leo pshift)

/-- `g'` differs from `g` only by a rearrangement inside `[0, b]` -/
def Frame (g g' : Nat → α) (b : Nat) : Prop :=
  (∀ j, b < j → g' j = g j) ∧ (∀ j, j ≤ b → ∃ j', j' ≤ b ∧ g' j = g j')

theorem Frame.weaken {g g' : Nat → α} {b b' : Nat} (h : Frame g g' b) (hb : b ≤ b') : Frame g g' b' := by
  refine ⟨fun j hj => h.1 j (by omega), fun j hj => ?_⟩
  by_cases hjb : j ≤ b
  · obtain ⟨j', h1, h2⟩ := h.2 j hjb
    exact ⟨j', by omega, h2⟩
  · exact ⟨j, hj, h.1 j (by omega)⟩

theorem Frame.trans {g g1 g2 : Nat → α} {b : Nat} (h1 : Frame g g1 b) (h2 : Frame g1 g2 b) : Frame g g2 b := by
  refine ⟨fun j hj => by rw [h2.1 j hj, h1.1 j hj], fun j hj => ?_⟩
  obtain ⟨j1, q1, q2⟩ := h2.2 j hj
  obtain ⟨j2, q3, q4⟩ := h1.2 j1 q1
  exact ⟨j2, q3, by rw [q2, q4]⟩

/-- everything right of `head` is in its final place: it dominates all that is left of it -/
def Dom (le : α → α → Prop) (g : Nat → α) (n head : Nat) : Prop := ∀ i, head < i → i < n → ∀ j, j ≤ i → le (g j) (g i)

theorem Dom.step {le : α → α → Prop} {g g' : Nat → α} {n head : Nat}
    (hd : Dom le g n head) (hmax : ∀ j, j ≤ head → le (g j) (g head)) (h1 : 1 ≤ head) (hf : Frame g g' (head - 1)) :
    Dom le g' n (head - 1) := by
  intro i hi hin j hj
  have key : ∀ j, j ≤ i → le (g j) (g i) := by
    intro j hj
    by_cases hih : i = head
    · subst hih; exact hmax j hj
    · exact hd i (by omega) hin j hj
  rw [hf.1 i hi]
  by_cases hjb : j ≤ head - 1
  · obtain ⟨j', q1, q2⟩ := hf.2 j hjb
    rw [q2]; exact key j' (by omega)
  · rw [hf.1 j (by omega)]; exact key j hj


/-! ## main loop -/

theorem mainStep_sorted [Inhabited α] (e : Env α) {le : α → α → Prop} (hc : Consistent e.cmp le) {n K G : Nat} (C : Ctx e n K G)
    (k : Nat) (s : St α) (os : List Nat) (head : Nat) (p : PV) (pshift : Nat) (hs : s.a.size = n) (hk : head + k + 2 = n)
    (hS : Shape os p pshift head) (hI : MInv le s.g n os pshift head) :
    Tot (mainStep e k s head p pshift) (fun r => r.1.a.size = n ∧
      ∃ os', Shape os' r.2.1 r.2.2 (head + 1) ∧ MInv le r.1.g n os' r.2.2 (head + 1)) := by
  unfold mainStep
  have hK95 := C.K95
  have hh : head < n := by omega
  have hpK := hS.toForest.le_K C hh hS.toForest.mem_pshift
  have hfit := hS.toForest.fits
  have hsift := sift_spec e hc C.lp hK95 s head pshift hs hh hfit hpK hI.sub
  refine Tot.bind (fun r => r.1.a.size = n ∧ ∃ os', Shape os' ⟨r.2.1.lo ||| 1, r.2.1.hi⟩ r.2.2 (head + 1) ∧
      MInv le r.1.g n os' r.2.2 (head + 1)) ?_ (fun ⟨s1, p1, ps1⟩ h1 => Tot.pure h1)
  refine Tot.ite (fun h3 => ?_) (fun h3 => ?_)
  · -- merge
    rw [and3_iff] at h3
    obtain ⟨rest, rfl⟩ := Shape.two_of_bit1 hS.toForest h3.2
    refine Tot.bind _ hsift (fun s1 h1 => Tot.pure ?_)
    obtain ⟨hs1, hheap, hout, _, _⟩ := h1
    have hsum := hS.sum
    simp only [List.map_cons, List.sum_cons] at hsum
    have hleo := leo_succ_succ pshift
    have q0 := leo_pos pshift
    have q1 := leo_pos (pshift + 1)
    have hcg : ∀ j, j ≤ head - leo pshift → s1.g j = s.g j := fun j hj => hout j (by unfold InTree; omega)
    have hheaps := hI.heaps
    have hfin := hI.fin
    simp only [List.tail_cons, Heaps] at hheaps
    refine ⟨hs1, _, hS.merge_cons, ⟨?_, ?_, ?_⟩⟩
    · show Heap le s1.g pshift (head + 1 - 1) ∧ Heap le s1.g (pshift + 1) (head + 1 - 1 - leo pshift)
      simp only [Nat.add_sub_cancel]
      exact ⟨hheap, Heap.congr_le hcg hheaps.1⟩
    · simp only [List.tail_cons]
      have e1 : head + 1 - leo (pshift + 2) = head - leo pshift - leo (pshift + 1) := by omega
      rw [e1]
      exact Heaps.congr_le (fun j hj => hcg j (by omega)) hheaps.2
    · simp only [List.tail_cons] at hfin ⊢
      have e1 : head + 1 - leo (pshift + 2) = head - leo pshift - leo (pshift + 1) := by omega
      rw [e1]
      cases rest with
      | nil => trivial
      | cons o2 rest2 => exact RootsFin.congr_le (fun j hj => hcg j (by omega)) hfin.2
  · -- new tree of one element
    have hb1 : p.bit 1 = false := by
      rw [and3_iff] at h3
      have := hS.toForest.bit0
      cases hb : p.bit 1 with
      | false => rfl
      | true => exact absurd ⟨this, hb⟩ h3
    obtain ⟨hp0, _⟩ := Shape.of_not_bit1 hS.toForest hb1
    have hgap := hS.gap_all hb1
    obtain ⟨tl, rfl⟩ := Shape.cons_of hS.toForest
    have hsum := hS.sum
    simp only [List.map_cons, List.sum_cons] at hsum
    have q0 := leo_pos pshift
    refine Tot.bind _ (sub_mapError_tot (by omega) _) (fun i hi => ?_)
    subst hi
    refine Tot.bind _ (lpAt_tot C.lp (by omega)) (fun l hl => ?_)
    subst hl
    -- what both branches establish: all trees heap-ordered, `RootsFin` for the whole forest
    have hmid : Tot (if leo (pshift - 1) ≥ k + 1 then trinkle e s head p pshift false else sift e s head pshift)
        (fun (r : St α) => r.a.size = n ∧ Heaps le r.g (pshift :: tl) head ∧ RootsFin le r.g n (pshift :: tl) head) := by
      refine Tot.ite (fun hfin => ?_) (fun hnf => ?_)
      · have hroots : Roots le s.g tl (head - leo pshift) := by
          cases tl with
          | nil => trivial
          | cons o1 tl2 =>
            rw [List.pairwise_cons] at hgap
            simp only [List.map_cons, List.sum_cons] at hsum
            have := leo_pos o1
            have hasc := hS.asc
            rw [List.pairwise_cons] at hasc
            have h01 := hasc.1 o1 (by simp)
            exact RootsFin.roots o1 tl2 _ hgap.2 (by omega) (by simp only [List.map_cons, List.sum_cons]; omega)
              (fin_step (by omega) (hgap.1 o1 (by simp)) (by omega) (by omega)) hI.fin
        have := trinkle_spec e hc C s (pshift :: tl) head p pshift false hs hh hS.toForest
          (by simpa using hI.sub) hI.heaps hroots
        exact this.imp (fun r hr => ⟨hr.1, hr.2.1, hr.2.2.1, hr.2.2.2.1.fin⟩)
      · refine hsift.imp (fun r hr => ⟨hr.1, ?_⟩)
        obtain ⟨hs1, hheap, hout, _, _⟩ := hr.2
        cases tl with
        | nil => exact ⟨hs1, ⟨hheap, trivial⟩, trivial⟩
        | cons o1 tl2 =>
          simp only [List.map_cons, List.sum_cons] at hsum
          have := leo_pos o1
          have hcg : ∀ j, j ≤ head - leo pshift → r.g j = s.g j := fun j hj => hout j (by unfold InTree; omega)
          exact ⟨hs1, ⟨hheap, Heaps.congr_le hcg hI.heaps⟩,
            fun hf => absurd (show leo (pshift - 1) ≥ k + 1 by omega) hnf, RootsFin.congr_le hcg hI.fin⟩
    have hjp : ∀ s1 : St α, (s1.a.size = n ∧ Heaps le s1.g (pshift :: tl) head ∧ RootsFin le s1.g n (pshift :: tl) head) →
        Tot (if pshift = 1 then pure (s1, shl p 1, 0) else pure (s1, shl p (pshift - 1), 1) : M (St α × PV × Nat))
          (fun r => r.1.a.size = n ∧ ∃ os', Shape os' ⟨r.2.1.lo ||| 1, r.2.1.hi⟩ r.2.2 (head + 1) ∧
            MInv le r.1.g n os' r.2.2 (head + 1)) := by
      intro s1 ⟨h1, h2, h3'⟩
      have hI0 : MInv le s1.g n (0 :: pshift :: tl) 0 (head + 1) :=
        ⟨trivial, by simpa [leo] using h2, by simpa [leo] using h3'⟩
      have hI1 : MInv le s1.g n (1 :: pshift :: tl) 1 (head + 1) :=
        ⟨trivial, by simpa [leo] using h2, by simpa [leo] using h3'⟩
      refine Tot.ite (fun hp1 => ?_) (fun hp1 => ?_)
      · subst hp1
        exact Tot.pure ⟨h1, _, hS.single C (by omega) hb1 0 (by omega) (by omega) (fun _ => rfl), hI0⟩
      · exact Tot.pure ⟨h1, _, hS.single C (by omega) hb1 1 (by omega) (by omega) (fun h => by omega), hI1⟩
    dsimp only
    by_cases hcnd : leo (pshift - 1) ≥ k + 1
    · rw [if_pos hcnd] at hmid ⊢
      exact Tot.bind _ hmid hjp
    · rw [if_neg hcnd] at hmid ⊢
      exact Tot.bind _ hmid hjp


theorem mainLoop_sorted [Inhabited α] (e : Env α) {le : α → α → Prop} (hc : Consistent e.cmp le) {n K G : Nat} (C : Ctx e n K G) :
    ∀ (k : Nat) (s : St α) (os : List Nat) (head : Nat) (p : PV) (pshift : Nat), s.a.size = n → head + k + 1 = n →
    Shape os p pshift head → MInv le s.g n os pshift head →
    Tot (mainLoop e k s head p pshift) (fun r => r.1.a.size = n ∧
      ∃ os', Shape os' r.2.1 r.2.2 (n - 1) ∧ MInv le r.1.g n os' r.2.2 (n - 1)) := by
  intro k
  induction k with
  | zero =>
    intro s os head p pshift hs hk hS hI
    unfold mainLoop
    have : n - 1 = head := by omega
    rw [this]
    exact Tot.ok ⟨hs, os, hS, hI⟩
  | succ k ih =>
    intro s os head p pshift hs hk hS hI
    unfold mainLoop
    refine Tot.bind _ (mainStep_sorted e hc C k s os head p pshift hs (by omega) hS hI) (fun ⟨s1, p1, ps1⟩ h1 => ?_)
    obtain ⟨hs1, os1, hS1, hI1⟩ := h1
    exact ih s1 os1 (head + 1) p1 ps1 hs1 (by omega) hS1 hI1

/-! ## dismantling loop -/

/-- invariant of the dismantling loop on the contents (besides `Shape`) -/
structure DInv (le : α → α → Prop) (g : Nat → α) (n : Nat) (os : List Nat) (head : Nat) : Prop where
  heaps : Heaps le g os head
  roots : Roots le g os head
  dom : Dom le g n head

theorem dismantleStep_sorted [Inhabited α] (e : Env α) {le : α → α → Prop} (hc : Consistent e.cmp le) {n K G : Nat}
    (C : Ctx e n K G) (s : St α) (os : List Nat) (head : Nat) (p : PV) (pshift : Nat) (hs : s.a.size = n) (hh : head < n)
    (hS : Shape os p pshift head) (hD : DInv le s.g n os head) (hne : ¬(pshift = 1 ∧ p = PV.one)) :
    Tot (dismantleStep e s head p pshift) (fun r => r.1.a.size = n ∧
      ∃ os', Shape os' r.2.1 r.2.2 (head - 1) ∧ DInv le r.1.g n os' (head - 1)) := by
  have hmax : ∀ j, j ≤ head → le (s.g j) (s.g head) :=
    forest_max hc.refl hc.trans os head hS.sum hD.heaps hD.roots
  unfold dismantleStep
  by_cases hp : pshift ≤ 1
  · obtain ⟨o1, rest, rfl⟩ := hS.two_of_small hp hne
    obtain ⟨hpn, hlt, hle, hS'⟩ := hS.drop C hh
    have hl1 : leo pshift = 1 := by
      have : pshift = 0 ∨ pshift = 1 := by omega
      rcases this with rfl | rfl <;> simp [leo]
    simp only [hp, if_true]
    refine Tot.ok ⟨hs, o1 :: rest, ?_, ?_⟩
    · show Shape (o1 :: rest) (shr p (pntz e.fx p)) (pshift + pntz e.fx p) (head - 1)
      rw [hpn]
      have e1 : pshift + (o1 - pshift) = o1 := by omega
      rw [e1, ← hl1]
      exact hS'
    · show DInv le s.g n (o1 :: rest) (head - 1)
      have h1 := hD.heaps
      have h2 := hD.roots
      rw [← hl1]
      exact ⟨h1.2, h2.2, by rw [hl1]; exact hD.dom.step hmax (by omega) ⟨fun _ _ => rfl, fun j hj => ⟨j, hj, rfl⟩⟩⟩
  · simp only [hp, if_false]
    obtain ⟨k, rfl⟩ : ∃ k, pshift = k + 2 := ⟨pshift - 2, by omega⟩
    obtain ⟨rest, rfl⟩ : ∃ rest, os = (k + 2) :: rest := Shape.cons_of hS.toForest
    obtain ⟨hle, hF1, hS2⟩ := hS.split C hh
    have hkK : k + 2 ≤ K := hS.toForest.le_K C hh (by simp)
    have hleo := leo_succ_succ k
    have q0 := leo_pos k
    have q1 := leo_pos (k + 1)
    have hsum := hS.sum
    simp only [List.map_cons, List.sum_cons] at hsum
    obtain ⟨⟨_, _, hHk, hHk1⟩, hHrest⟩ := hD.heaps
    have hRrest : Roots le s.g rest (head - leo (k + 2)) := by
      cases rest with
      | nil => trivial
      | cons o' rest' => exact hD.roots.2
    simp only [Nat.add_sub_cancel]
    refine Tot.bind _ (lpAt_tot C.lp (by omega)) (fun l hl => ?_)
    subst hl
    refine Tot.bind _ (sub_tot (by omega)) (fun h1 hh1 => ?_)
    subst hh1
    refine Tot.bind _ (sub_tot (by omega)) (fun h1 hh1 => ?_)
    subst hh1
    have e1 : head - leo k - 1 - leo (k + 1) = head - leo (k + 2) := by omega
    have e2 : head - 1 - leo k = head - leo k - 1 := by omega
    refine Tot.bind _ (trinkle_spec e hc C s ((k + 1) :: rest) (head - leo k - 1) _ (k + 1) true hs (by omega) hF1
      (by simpa [e2] using hHk1) (by simpa [e1] using hHrest) (by simpa [e1] using hRrest)) (fun s1 hs1 => ?_)
    obtain ⟨hsz1, hH1, hR1, hfr1a, hfr1b⟩ := hs1
    have hF1' : Frame s.g s1.g (head - leo k - 1) := ⟨hfr1a, hfr1b⟩
    refine Tot.bind _ (sub_tot (by omega)) (fun h2 hh2 => ?_)
    subst hh2
    have hHk' : Heap le s1.g k (head - 1) :=
      Heap.congr_tree (by omega) (fun j hj => hfr1a j (by unfold InTree at hj; omega)) hHk
    refine Tot.bind _ (trinkle_spec e hc C s1 (k :: (k + 1) :: rest) (head - 1) _ k true hsz1 (by omega) hS2.toForest
      (by simpa using hHk') (by simpa [e2] using hH1) (by simpa [e2] using hR1)) (fun s2 hs2 => ?_)
    obtain ⟨hsz2, hH2, hR2, hfr2a, hfr2b⟩ := hs2
    have hF2 : Frame s.g s2.g (head - 1) := (hF1'.weaken (by omega)).trans ⟨hfr2a, hfr2b⟩
    exact Tot.pure ⟨hsz2, _, hS2, hH2, hR2, hD.dom.step hmax (by omega) hF2⟩

theorem dismantle_sorted [Inhabited α] (e : Env α) {le : α → α → Prop} (hc : Consistent e.cmp le) {n K G : Nat} (C : Ctx e n K G) :
    ∀ (head : Nat) (s : St α) (os : List Nat) (p : PV) (pshift : Nat), s.a.size = n → head < n → Shape os p pshift head →
    DInv le s.g n os head →
    Tot (dismantle e head s p pshift) (fun r => r.a.size = n ∧ ∀ i j, j ≤ i → i < n → le (r.g j) (r.g i)) := by
  intro head
  induction head with
  | zero =>
    intro s os p pshift hs _ hS hD
    unfold dismantle
    simp only [hS.done_of_zero, and_self, if_true]
    refine Tot.ok ⟨hs, fun i j hj hi => ?_⟩
    by_cases h0 : i = 0
    · have : j = 0 := by omega
      subst h0; subst this; exact hc.refl _
    · exact hD.dom i (by omega) hi j hj
  | succ hd ih =>
    intro s os p pshift hs hh hS hD
    unfold dismantle
    refine Tot.ite (fun hfin => ?_) (fun hne => ?_)
    · exfalso
      obtain ⟨hp1, hpone⟩ := hfin
      subst hp1
      obtain ⟨tl, rfl⟩ := Shape.cons_of hS.toForest
      cases tl with
      | nil =>
        have := hS.sum
        simp [leo] at this
      | cons o1 rest => exact (hS.toForest.next C hh).2.1 hpone
    · refine Tot.bind _ (dismantleStep_sorted e hc C s os (hd + 1) p pshift hs hh hS hD hne) (fun ⟨s1, p1, ps1⟩ h1 => ?_)
      obtain ⟨hs1, os1, hS1, hD1⟩ := h1
      exact ih s1 os1 p1 ps1 hs1 (by omega) hS1 hD1


/-- the whole smoothsort, consistent comparator: the result is ordered -/
theorem smooth_sorted [Inhabited α] (e : Env α) {le : α → α → Prop} (hc : Consistent e.cmp le) {n K G : Nat} (C : Ctx e n K G)
    (s : St α) (hs : s.a.size = n) (hn : 0 < n) :
    Tot (smooth e s n) (fun r => r.a.size = n ∧ ∀ i j, j ≤ i → i < n → le (r.g j) (r.g i)) := by
  unfold smooth
  refine Tot.bind _ (mainLoop_sorted e hc C (n - 1) s [1] 0 PV.one 1 hs (by omega) Shape.init ⟨trivial, trivial, trivial⟩)
    (fun ⟨s1, p1, ps1⟩ h1 => ?_)
  obtain ⟨hs1, os1, hS1, hI1⟩ := h1
  dsimp only at hs1 hS1 hI1
  have hroots : Roots le s1.g os1.tail (n - 1 - leo ps1) := by
    obtain ⟨tl, rfl⟩ := Shape.cons_of hS1.toForest
    cases tl with
    | nil => trivial
    | cons o1 tl2 =>
      have hsum := hS1.sum
      simp only [List.map_cons, List.sum_cons] at hsum
      have := leo_pos o1
      have := leo_pos ps1
      have hasc := hS1.asc
      rw [List.pairwise_cons] at hasc
      have h01 := hasc.1 o1 (by simp)
      have hmono : leo ps1 ≤ leo (o1 - 1) := leo_mono (by omega)
      exact RootsFin.roots o1 tl2 _ (by simpa using hS1.gap) (by omega)
        (by simp only [List.map_cons, List.sum_cons]; omega) (by omega) hI1.fin
  refine Tot.bind _ (trinkle_spec e hc C s1 os1 (n - 1) p1 ps1 false hs1 (by omega) hS1.toForest (by simpa using hI1.sub)
    hI1.heaps hroots) (fun s2 hs2 => ?_)
  obtain ⟨hsz2, hH2, hR2, _, _⟩ := hs2
  exact dismantle_sorted e hc C (n - 1) s2 os1 p1 ps1 hsz2 (by omega) hS1 ⟨hH2, hR2, fun i hi hin => by omega⟩


/-- `qsort_musl` on an array of exactly `nel` elements of `width > 0` bytes, consistent comparator, given the standing facts
    for whatever table `mkLp` builds: the result is ordered -/
theorem qsortMusl_sorted_gen [Inhabited α] (fx : Fixes) (c : Cmp α) {le : α → α → Prop} (hc : Consistent c.cmp le) (s : St α)
    (nel width : Nat) (hn : nel = s.a.size) (hw : 0 < width) (h63 : nel * width ≤ 2 ^ 63) (h3 : 3 * width < 2 ^ 64)
    (hC : ∀ lp K, LpOk lp K → 2 ≤ K → K ≤ 95 → nel ≤ leo K → ∃ G, Ctx (⟨c.cmp, c.ctx, lp, fx, c.trace⟩ : Env α) nel K G) :
    Tot (qsortMusl fx c s nel width) (fun r => r.a.size = s.a.size ∧ ∀ i j, j ≤ i → i < nel → le (r.g j) (r.g i)) := by
  by_cases h0 : nel = 0
  · unfold qsortMusl
    have : (width * nel) % 2 ^ 64 = 0 := by simp [h0]
    simp only [this, if_true]
    exact Tot.ok ⟨rfl, fun i j _ hi => by omega⟩
  · have hnel : 0 < nel := by omega
    rw [qsortMusl_eq fx c s nel width hw hnel (by omega)]
    obtain ⟨lp, K, hmk, _, hlp, hK2, hK95, hnK, _⟩ := mkLp_spec width nel hw hnel h63 h3
    refine Tot.bind (fun r => r = lp) ⟨lp, hmk, rfl⟩ (fun lp' hlp' => ?_)
    subst hlp'
    obtain ⟨G, hCtx⟩ := hC lp' K hlp hK2 hK95 hnK
    have := smooth_sorted (⟨c.cmp, c.ctx, lp', fx, c.trace⟩ : Env α) hc hCtx s hn.symm hnel
    exact this.imp (fun r hr => ⟨hr.1, by show r.a.size = s.a.size; rw [← hn]; exact hr.2.1, hr.2.2⟩)

/-- code without the `pntz` repair (either `ntz`): up to `safeBound fx` elements -/
theorem qsortMusl_sorted_partial [Inhabited α] (fx : Fixes) (c : Cmp α) {le : α → α → Prop} (hc : Consistent c.cmp le) (s : St α)
    (nel width : Nat) (hn : nel = s.a.size) (hw : 0 < width) (h63 : nel * width ≤ 2 ^ 63) (h3 : 3 * width < 2 ^ 64)
    (hb : nel ≤ safeBound fx) :
    Tot (qsortMusl fx c s nel width) (fun r => r.a.size = s.a.size ∧ ∀ i j, j ≤ i → i < nel → le (r.g j) (r.g i)) :=
  qsortMusl_sorted_gen fx c hc s nel width hn hw h63 h3
    (fun lp K hlp hK2 hK95 hnK => ⟨_, ctx_of fx c lp nel K hlp hK2 hK95 hnK hb⟩)

/-- both repairs: EVERY element count -/
theorem qsortMusl_sorted [Inhabited α] (fx : Fixes) (hfx : fx.ctz64 = true) (hgap : fx.pntzGap = true) (c : Cmp α)
    {le : α → α → Prop} (hc : Consistent c.cmp le) (s : St α)
    (nel width : Nat) (hn : nel = s.a.size) (hw : 0 < width) (h63 : nel * width ≤ 2 ^ 63) (h3 : 3 * width < 2 ^ 64) :
    Tot (qsortMusl fx c s nel width) (fun r => r.a.size = s.a.size ∧ ∀ i j, j ≤ i → i < nel → le (r.g j) (r.g i)) :=
  qsortMusl_sorted_gen fx c hc s nel width hn hw h63 h3
    (fun lp K hlp hK2 hK95 hnK => ⟨_, ctx_of_fixed fx hfx hgap c lp nel K hlp hK2 hK95 hnK⟩)

/-! ## from `qsort_musl` to `_qsort_s_chk` (used by Props/C16) -/

open SafeC.Gen in
/-- what the entry checks and the sort do for a call that runs the sort: `qsortChk` is a rejection or exactly this -/
theorem qsortChk_cases (fx : Fixes) (c : Cmp α) (g : Args) (s : St α) :
    (∃ code, code ≠ EOK ∧ qsortChk fx c g s = .ok ⟨code, none, [(.str, code)], s⟩) ∨
    qsortChk fx c g s = (do let s' ← qsortMusl fx c s g.nmemb g.size; pure (⟨EOK, none, [], s'⟩ : Out α Nat)) := by
  unfold qsortChk
  split
  · exact Or.inl ⟨_, by decide, rfl⟩
  · split
    · split
      · exact Or.inl ⟨_, by decide, rfl⟩
      · exact Or.inr rfl
    · split
      · split
        · exact Or.inl ⟨_, by decide, rfl⟩
        · exact Or.inr rfl
      · split
        · exact Or.inl ⟨_, by decide, rfl⟩
        · exact Or.inr rfl

theorem eq_wrap_of_match {β : Type} (x : M β) (h : (match x with | .error .wrap => true | _ => false) = true) :
    x = .error .wrap := by
  cases x with
  | error e => cases e <;> simp at h ⊢
  | ok _ => simp at h

open SafeC.Gen in
/-- a comparator whose sign depends on the two elements only (`f`), antisymmetric and transitive, is `Consistent` -/
theorem consistent_of (c : Cmp α) (f : α → α → Int) (hcmp : ∀ k i j x y, c.cmp k i j x y = f x y)
    (hanti : ∀ x y, 0 ≤ f x y ↔ f y x ≤ 0) (htrans : ∀ x y z, f x y ≤ 0 → f y z ≤ 0 → f x z ≤ 0) :
    Consistent c.cmp (fun x y => f x y ≤ 0) := by
  refine ⟨fun x y => ?_, fun {x y z} => htrans x y z, fun k i j x y => by rw [hcmp]; exact hanti x y,
    fun k i j x y => by rw [hcmp]⟩
  by_cases hxy : f x y ≤ 0
  · exact Or.inl hxy
  · exact Or.inr ((hanti x y).mp (by omega))

open SafeC.Gen in
/-- from "the sort returns an ordered array" to the statement about `_qsort_s_chk` returning EOK -/
theorem sorted_of_musl [Inhabited α] (fx : Fixes) (c : Cmp α) (f : α → α → Int) (g : Args) (s : St α)
    (hm : Tot (qsortMusl fx c s g.nmemb g.size)
      (fun r => r.a.size = s.a.size ∧ ∀ i j, j ≤ i → i < g.nmemb → f (r.g j) (r.g i) ≤ 0))
    (hn : g.nmemb = s.a.size) (o : Out α Nat) (h : qsortChk fx c g s = .ok o) (hok : o.ret = EOK) :
    ∀ (i j : Nat) (hi : i < o.st.a.size) (hij : j ≤ i), f (o.st.a[j]'(by omega)) o.st.a[i] ≤ 0 := by
  intro i j hi hij
  obtain ⟨r, hr, hsz, hsorted⟩ := hm
  have hst : o.st = r := by
    rcases qsortChk_cases fx c g s with ⟨code, hne, h'⟩ | h'
    · rw [h'] at h; cases h; exact absurd hok hne
    · rw [h', hr] at h; cases h; rfl
  subst hst
  have := hsorted i j hij (by omega)
  simp only [St.g] at this
  rw [getElem!_pos o.st.a j (by omega), getElem!_pos o.st.a i hi] at this
  exact this

end SafeC.Sort

import SafeC.Lemmas
import SafeC.Models.Copy
/-!
# The bumper copy loop: what every exit guarantees

`copyLoop_safe` is stated for *any* placement of `src` relative to `dest`, *any* memory contents
and any `slen`: it is the shared core of the C01 / C03 / C04 / C05 theorems of the eight
`str*cpy/cat_s`, `wcs*cpy/cat_s` entry points.
-/
namespace SafeC
open Gen

/-- what every exit of the copy loop guarantees -/
structure CopyPost (cfg : Cfg) (oD oM : Nat) (st st' : St) (code : Nat) : Prop where
  mapped : st'.mapped = st.mapped
  rd : st'.rd = st.rd
  wr : st'.wr = st.wr
  strays : st'.strays = st.strays
  frame : ∀ a, ¬ (oD ≤ a ∧ a < oD + oM) → st'.data a = st.data a
  code_cases : code = EOK ∨ code = ESOVRLP ∨ code = ESNOSPC
  ok_events : code = EOK → st'.events = st.events
  ok_term : code = EOK → ∃ i, i < oM ∧ st'.data (oD + i) = 0
  fail_events : code ≠ EOK → st'.events = st.events ++ [.handler .str code]
  fail_first : code ≠ EOK → st'.data oD = 0
  fail_clear : code ≠ EOK → cfg.slack = true → ∀ i, i < oM → st'.data (oD + i) = 0

theorem ESOVRLP_ne_EOK : ESOVRLP ≠ EOK := by decide
theorem ESNOSPC_ne_EOK : ESNOSPC ≠ EOK := by decide
theorem ESOVRLP_ne_ESNOSPC : ESOVRLP ≠ ESNOSPC := by decide

/-- the two failing exits -/
theorem copy_fail_post (cfg : Cfg) (oD oM code : Nat) (st : St) (hrw : RW st oD oM) (hoM : 0 < oM)
    (hc : code = ESOVRLP ∨ code = ESNOSPC) :
    ∃ st', exec (do handleError cfg oD oM code; pure code : Prog Nat) st = .ok (code, st') ∧
      CopyPost cfg oD oM st st' code := by
  obtain ⟨st', he, hm, hr, hw, hs, hev, h0, hsl, hns⟩ := handleError_ok cfg oD oM code st hrw hoM
  have hne : code ≠ EOK := by
    rcases hc with h | h <;> subst h
    · exact ESOVRLP_ne_EOK
    · exact ESNOSPC_ne_EOK
  refine ⟨st', by simp [exec_bind, he], ?_⟩
  refine ⟨hm, hr, hw, hs, ?_, ?_, fun h => absurd h hne, fun h => absurd h hne, fun _ => hev, fun _ => h0, ?_⟩
  · intro a ha
    cases hsl' : cfg.slack with
    | true => rw [hsl hsl' a]; simp [ha]
    | false => exact hns hsl' a (by intro h; subst h; exact ha ⟨Nat.le_refl _, by omega⟩)
  · rcases hc with h | h
    · exact Or.inr (Or.inl h)
    · exact Or.inr (Or.inr h)
  · intro _ hs' i hi
    rw [hsl hs' (oD+i)]
    have : oD ≤ oD + i ∧ oD + i < oD + oM := by omega
    simp [this]

/-- **Safety of the copy loop, for every placement, content and length.**  With the `oM` cells of
`dest` declared (and everything readable, as in the C01 setting): no fault, no stray access, nothing
outside `[oD, oD+oM)` changes; the loop ends in EOK with a terminator inside dest and no handler call,
or in ESOVRLP / ESNOSPC with exactly one handler call carrying that code and dest cleared. -/
theorem copyLoop_safe (cfg : Cfg) (onDest bounded : Bool) (B oD oM : Nat) (hoM : 0 < oM)
    (k d s slen : Nat) (st : St)
    (hall : ∀ a, st.mapped a = true ∧ st.rd a = true)
    (hrw : RW st oD oM) (hinv : oD ≤ d ∧ d + k = oD + oM) :
    ∃ code st', exec (copyLoop cfg onDest bounded B oD oM k d s slen) st = .ok (code, st') ∧
      CopyPost cfg oD oM st st' code := by
  induction k generalizing d s slen st with
  | zero =>
    unfold copyLoop
    obtain ⟨st', he, hp⟩ := copy_fail_post cfg oD oM ESNOSPC st hrw hoM (Or.inr rfl)
    exact ⟨ESNOSPC, st', he, hp⟩
  | succ k ih =>
    unfold copyLoop
    by_cases hb : (if onDest then d else s) = B
    · simp only [hb, if_true]
      obtain ⟨st', he, hp⟩ := copy_fail_post cfg oD oM ESOVRLP st hrw hoM (Or.inl rfl)
      exact ⟨ESOVRLP, st', he, hp⟩
    · simp only [hb, if_false]
      -- the remaining cells [d, d+k+1) are inside dest
      have hsub : RW st d (k+1) := by
        intro i hi
        have := hrw (d - oD + i) (by omega)
        have e : oD + (d - oD + i) = d + i := by omega
        rwa [e] at this
      have hdm : st.mapped d = true ∧ st.wr d = true ∧ st.rd d = true := hsub.head
      by_cases hsl : bounded = true ∧ slen = 0
      · -- truncation exit
        simp only [hsl, and_self, if_true]
        cases hcs : cfg.slack with
        | true =>
          obtain ⟨st', he, hm, hd⟩ := nullSlack_ok d (k+1) st hsub
          refine ⟨EOK, st', by simp [exec_bind, he], ?_⟩
          refine ⟨hm.mapped, hm.rd, hm.wr, hm.strays, ?_, Or.inl rfl, fun _ => hm.events, ?_, fun h => absurd rfl h, fun h => absurd rfl h, fun h => absurd rfl h⟩
          · intro a ha; rw [hd a]
            have : ¬ (d ≤ a ∧ a < d + (k+1)) := by omega
            simp [this]
          · intro _
            refine ⟨d - oD, by omega, ?_⟩
            have e : oD + (d - oD) = d := by omega
            rw [e, hd d]; simp
        | false =>
          refine ⟨EOK, st.upd d 0, by simp [exec_bind, exec_store_ok _ _ _ hdm.1 hdm.2.1], ?_⟩
          refine ⟨rfl, rfl, rfl, rfl, ?_, Or.inl rfl, fun _ => rfl, ?_, fun h => absurd rfl h, fun h => absurd rfl h, fun h => absurd rfl h⟩
          · intro a ha
            exact St.upd_data_ne _ _ _ _ (by omega)
          · intro _
            refine ⟨d - oD, by omega, ?_⟩
            have e : oD + (d - oD) = d := by omega
            rw [e]; simp
      · simp only [hsl, if_false]
        have hs_m := hall s
        simp only [exec_bind, exec_load_ok _ _ hs_m.1 hs_m.2, exec_store_ok _ _ _ hdm.1 hdm.2.1]
        by_cases hc : st.data s = 0
        · -- the terminator was copied
          simp only [hc, if_true]
          cases hcs : cfg.slack with
          | true =>
            simp only [if_true]
            obtain ⟨st', he, hm, hd⟩ := nullSlack_ok d (k+1) (st.upd d 0) (RW.of_sameMeta (SameMeta.upd _ _ _) hsub)
            refine ⟨EOK, st', by simp [exec_bind, he], ?_⟩
            have hm' := hm.trans (SameMeta.upd st d 0)
            refine ⟨hm'.mapped, hm'.rd, hm'.wr, hm'.strays, ?_, Or.inl rfl, fun _ => hm'.events, ?_, fun h => absurd rfl h, fun h => absurd rfl h, fun h => absurd rfl h⟩
            · intro a ha; rw [hd a]
              have : ¬ (d ≤ a ∧ a < d + (k+1)) := by omega
              simp only [this, if_false]
              exact St.upd_data_ne _ _ _ _ (by omega)
            · intro _
              refine ⟨d - oD, by omega, ?_⟩
              have e : oD + (d - oD) = d := by omega
              rw [e, hd d]; simp
          | false =>
            refine ⟨EOK, st.upd d 0, by simp [exec_bind], ?_⟩
            refine ⟨rfl, rfl, rfl, rfl, ?_, Or.inl rfl, fun _ => rfl, ?_, fun h => absurd rfl h, fun h => absurd rfl h, fun h => absurd rfl h⟩
            · intro a ha
              exact St.upd_data_ne _ _ _ _ (by omega)
            · intro _
              refine ⟨d - oD, by omega, ?_⟩
              have e : oD + (d - oD) = d := by omega
              rw [e]; simp
        · simp only [hc, if_false]
          obtain ⟨code, st', he, hp⟩ := ih (d+1) (s+1) (slen-1) (st.upd d (st.data s))
            (by intro a; exact hall a) (RW.of_sameMeta (SameMeta.upd _ _ _) hrw) (by omega)
          refine ⟨code, st', he, ?_⟩
          refine ⟨hp.mapped, hp.rd, hp.wr, hp.strays, ?_, hp.code_cases, hp.ok_events, hp.ok_term, hp.fail_events, hp.fail_first, hp.fail_clear⟩
          intro a ha
          rw [hp.frame a ha]
          exact St.upd_data_ne _ _ _ _ (by omega)

end SafeC

import SafeC.Proofs.ExtStp
import SafeC.Proofs.CopyDisjoint
/-!
# Exact results on valid, non-overlapping operands: `wcsncat_s`, `stpcpy_s`, `stpncpy_s`

Setting of `Proofs/CopyDisjoint.lean`: only the declared extents are mapped / readable / writable;
`exec … = .ok …` says nothing faulted, `st'.strays = st.strays` that nothing undeclared was touched.
-/
namespace SafeC
open Gen

/-- with `slen` inside the limit `wcsncpy_s` is the generic `strncpyG` at the wide limit -/
theorem wcsncpy_eq_G (cfg : Cfg) (dest dmax src slen : Nat) (h : slen ≤ RSIZE_MAX_WSTR) :
    wcsncpy_s cfg dest dmax src slen none none = strncpyG RSIZE_MAX_WSTR cfg dest dmax src slen none none := by
  have h' : ¬ slen > RSIZE_MAX_WSTR := by omega
  unfold wcsncpy_s strncpyG chkDmaxClearW chkDmaxClear chkDmaxClearG chkSlenMaxClear failS
  simp only [h', if_false]
  rfl

/-- wcsncat_s, object sizes unknown, `0 < slen ≤ RSIZE_MAX_WSTR`: dest holds a string of length `dl`,
`m` = number of source characters appended (the source string is shorter than slen and `m` its length,
or `m = slen`) -/
theorem wcsncat_s_disjoint (cfg : Cfg) (dest dmax src slen dl m : Nat) (st : St)
    (hd : dest ≠ 0) (hs : src ≠ 0) (hpos : 0 < dmax) (hle : dmax ≤ RSIZE_MAX_WSTR)
    (hslen : 0 < slen) (hslenle : slen ≤ RSIZE_MAX_WSTR)
    (hrw : RW st dest dmax)
    (hnz : ∀ j, j < m → st.data (src+j) ≠ 0)
    (hrd : ∀ j, j < m → st.mapped (src+j) = true ∧ st.rd (src+j) = true)
    (hfin : (m < slen ∧ st.data (src+m) = 0 ∧ st.mapped (src+m) = true ∧ st.rd (src+m) = true) ∨ slen = m)
    (hdisj : dest + dmax ≤ src ∨ src + m < dest)
    (hdl : dl < dmax) (hdnz : ∀ j, j < dl → st.data (dest+j) ≠ 0) (hdnul : st.data (dest+dl) = 0) :
    ∃ code st', exec (wcsncat_s cfg dest dmax src slen none none) st = .ok (code, st') ∧
      st'.mapped = st.mapped ∧ st'.rd = st.rd ∧ st'.wr = st.wr ∧ st'.strays = st.strays ∧
      (∀ a, ¬ (dest ≤ a ∧ a < dest + dmax) → st'.data a = st.data a) ∧
      (dl + m < dmax → code = EOK ∧ st'.events = st.events ∧
        (∀ i, i < dl → st'.data (dest+i) = st.data (dest+i)) ∧
        (∀ i, i < m → st'.data (dest+dl+i) = st.data (src+i)) ∧ st'.data (dest+dl+m) = 0 ∧
        (cfg.slack = true → ∀ i, dl + m ≤ i → i < dmax → st'.data (dest+i) = 0)) ∧
      (dmax ≤ dl + m → code = ESNOSPC ∧ st'.events = st.events ++ [.handler .str ESNOSPC] ∧ st'.data dest = 0 ∧
        (cfg.slack = true → ∀ i, i < dmax → st'.data (dest+i) = 0)) := by
  unfold wcsncat_s
  have h0 : ¬ (slen = 0 ∧ dest = 0 ∧ dmax = 0) := by omega
  have hz : dmax ≠ 0 := by omega
  have hmx : ¬ dmax > RSIZE_MAX_WSTR := by omega
  have hsx : ¬ slen > RSIZE_MAX_WSTR := by omega
  have hs0 : slen ≠ 0 := by omega
  rw [if_neg h0, if_neg hd, if_neg hz]
  simp only [chkDmaxW]
  rw [if_neg hmx, if_neg hs, if_neg hsx, if_neg hs0]
  have hdj : ∀ j, j ≤ m → ¬ (dest ≤ src + j ∧ src + j < dest + dmax) := by
    intro j hj; rcases hdisj with h1 | h1 <;> omega
  have fin : ∀ (p : Prog Nat),
      (∃ code st', exec p st = .ok (code, st') ∧
        st'.mapped = st.mapped ∧ st'.rd = st.rd ∧ st'.wr = st.wr ∧ st'.strays = st.strays ∧
        (∀ a, ¬ (dest ≤ a ∧ a < dest + dmax) → st'.data a = st.data a) ∧
        (m < dmax - dl → code = EOK ∧ st'.events = st.events ∧
          (∀ i, i < m → st'.data (dest+dl+i) = st.data (src+i)) ∧ st'.data (dest+dl+m) = 0 ∧
          (cfg.slack = true → ∀ i, m ≤ i → i < dmax - dl → st'.data (dest+dl+i) = 0) ∧
          (∀ a, dest ≤ a → a < dest + dl → st'.data a = st.data a)) ∧
        (dmax - dl ≤ m → code = ESNOSPC ∧ st'.events = st.events ++ [.handler .str ESNOSPC] ∧
          st'.data dest = 0 ∧ (cfg.slack = true → ∀ i, i < dmax → st'.data (dest+i) = 0))) →
      ∃ code st', exec p st = .ok (code, st') ∧
        st'.mapped = st.mapped ∧ st'.rd = st.rd ∧ st'.wr = st.wr ∧ st'.strays = st.strays ∧
        (∀ a, ¬ (dest ≤ a ∧ a < dest + dmax) → st'.data a = st.data a) ∧
        (dl + m < dmax → code = EOK ∧ st'.events = st.events ∧
          (∀ i, i < dl → st'.data (dest+i) = st.data (dest+i)) ∧
          (∀ i, i < m → st'.data (dest+dl+i) = st.data (src+i)) ∧ st'.data (dest+dl+m) = 0 ∧
          (cfg.slack = true → ∀ i, dl + m ≤ i → i < dmax → st'.data (dest+i) = 0)) ∧
        (dmax ≤ dl + m → code = ESNOSPC ∧ st'.events = st.events ++ [.handler .str ESNOSPC] ∧
          st'.data dest = 0 ∧ (cfg.slack = true → ∀ i, i < dmax → st'.data (dest+i) = 0)) := by
    intro p ⟨code, st', he, pm, pr, pw, ps, pf, pok, pfail⟩
    refine ⟨code, st', he, pm, pr, pw, ps, pf, ?_, ?_⟩
    · intro h
      obtain ⟨c1, c2, c3, c4, c5, c6⟩ := pok (by omega)
      refine ⟨c1, c2, ?_, c3, c4, ?_⟩
      · intro i hi; exact c6 (dest+i) (by omega) (by omega)
      · intro hsl i h1 h2
        have := c5 hsl (i - dl) (by omega) (by omega)
        have e : dest + dl + (i - dl) = dest + i := by omega
        rw [e] at this; exact this
    · intro h; exact pfail (by omega)
  by_cases hlt : dest < src
  · rw [if_pos hlt]
    have hle' : dest + dmax ≤ src := by rcases hdisj with h1 | h1 <;> omega
    have hfe := findEnd_str cfg true src dest dmax dmax dest dl st hrw hdl hdnz hdnul
      (by intro _ j hj; omega)
    apply fin
    simp only [exec_bind, hfe]
    rw [copyLoop_bumper_irrel cfg true src 0 dest dmax (dmax - dl) (dest + dl) src slen
      (by intro i hi; omega) (by intro i hi; omega)]
    exact copyLoop_disjoint_bounded cfg true 0 dest dmax hpos (dmax - dl) (dest + dl) src m slen st hrw
      ⟨by omega, by omega⟩ hnz hrd hfin hdj (by intro i hi; simp only [if_true]; omega)
  · rw [if_neg hlt]
    have hlt' : src + m < dest := by rcases hdisj with h1 | h1 <;> omega
    have hfe := findEnd_str cfg false dest dest dmax dmax dest dl st hrw hdl hdnz hdnul
      (by intro h; cases h)
    apply fin
    simp only [exec_bind, hfe]
    exact copyLoop_disjoint_bounded cfg false dest dest dmax hpos (dmax - dl) (dest + dl) src m slen st hrw
      ⟨by omega, by omega⟩ hnz hrd hfin hdj
      (by intro i hi; simp only [Bool.false_eq_true, if_false]; omega)

/-! ## the stp loops on a source that does not overlap dest -/

/-- what the disjoint stp loop guarantees (`m` = number of non-NUL characters copied); `r` = (pointer, code) -/
def StpDisjPost (cfg : Cfg) (oD oM k d s m : Nat) (st st' : St) (r : Nat × Nat) : Prop :=
  st'.mapped = st.mapped ∧ st'.rd = st.rd ∧ st'.wr = st.wr ∧ st'.strays = st.strays ∧
  (∀ a, ¬ (oD ≤ a ∧ a < oD + oM) → st'.data a = st.data a) ∧
  (m < k → r = (d + m, EOK) ∧ st'.events = st.events ∧
    (∀ i, i < m → st'.data (d+i) = st.data (s+i)) ∧ st'.data (d+m) = 0 ∧
    (cfg.slack = true → ∀ i, m ≤ i → i < k → st'.data (d+i) = 0) ∧
    (∀ a, oD ≤ a → a < d → st'.data a = st.data a)) ∧
  (k ≤ m → r = (0, ESNOSPC) ∧ st'.events = st.events ++ [.handler .str ESNOSPC] ∧ st'.data oD = 0 ∧
    (cfg.slack = true → ∀ i, i < oM → st'.data (oD+i) = 0))

theorem stpDisjPost_term (cfg : Cfg) (oD oM k d s : Nat) (st st' : St)
    (hinv : oD ≤ d ∧ d + (k+1) = oD + oM)
    (hmeta : SameMeta st' st)
    (h0 : st'.data d = 0)
    (hout : ∀ a, ¬ (d ≤ a ∧ a < d + (k+1)) → st'.data a = st.data a)
    (hslack : cfg.slack = true → ∀ a, d ≤ a → a < d + (k+1) → st'.data a = 0) :
    StpDisjPost cfg oD oM (k+1) d s 0 st st' (d, EOK) := by
  refine ⟨hmeta.mapped, hmeta.rd, hmeta.wr, hmeta.strays, ?_, ?_, ?_⟩
  · intro a ha; exact hout a (by omega)
  · intro _
    refine ⟨rfl, hmeta.events, ?_, ?_, ?_, ?_⟩
    · intro i hi; omega
    · simpa using h0
    · intro hs i _ hi; exact hslack hs (d+i) (by omega) (by omega)
    · intro a _ h2; exact hout a (by omega)
  · intro h; omega

/-- the stp loop on valid non-overlapping operands.  `hfin`: the characters end with a readable NUL
(and, for the bounded variant, before `slen` runs out), or the bounded variant runs out of `slen`
exactly after `m` characters.  `hun`: the `src unterminated` test never fires (source size unknown, or
the string / `slen` lies inside the source object). -/
theorem stpLoop_disjoint (cfg : Cfg) (isN onDest : Bool) (B oD oM : Nat) (hoM : 0 < oM) (srcbos : Bos)
    (k d s m slen : Nat) (st : St)
    (hrw : RW st oD oM) (hinv : oD ≤ d ∧ d + k = oD + oM)
    (hnz : ∀ j, j < m → st.data (s+j) ≠ 0)
    (hrd : ∀ j, j < m → st.mapped (s+j) = true ∧ st.rd (s+j) = true)
    (hfin : ((isN = true → m < slen) ∧ st.data (s+m) = 0 ∧ st.mapped (s+m) = true ∧
              st.rd (s+m) = true) ∨ (isN = true ∧ slen = m))
    (hdisj : ∀ j, j ≤ m → ¬ (oD ≤ s + j ∧ s + j < oD + oM))
    (hbump : ∀ i, i ≤ m → i < k → (if onDest then d + i else s + i) ≠ B)
    (hun : ∀ i, i < m → untermB srcbos (if isN then slen - (i+1) else slen + (i+1)) = false) :
    ∃ r st', exec (stpLoop cfg isN onDest B oD oM srcbos k d s slen) st = .ok (r, st') ∧
      StpDisjPost cfg oD oM k d s m st st' r := by
  induction k generalizing d s m slen st with
  | zero =>
    unfold stpLoop
    obtain ⟨st', he, hm, hr, hw, hst, hev, h0, hsl, hns⟩ := handleError_ok cfg oD oM ESNOSPC st hrw hoM
    refine ⟨(0, ESNOSPC), st', by simp [exec_bind, he], hm, hr, hw, hst, ?_, fun h => by omega, fun _ => ⟨rfl, hev, h0, ?_⟩⟩
    · intro a ha
      cases hcs : cfg.slack with
      | true => rw [hsl hcs a]; simp [ha]
      | false => exact hns hcs a (by intro h; subst h; exact ha ⟨Nat.le_refl _, by omega⟩)
    · intro hcs i hi
      rw [hsl hcs (oD+i)]
      have : oD ≤ oD + i ∧ oD + i < oD + oM := by omega
      simp [this]
  | succ k ih =>
    rw [stpLoop_succ]
    have hb : ¬ (if onDest then d else s) = B := by
      have := hbump 0 (Nat.zero_le _) (by omega)
      simpa using this
    rw [if_neg hb]
    have hsub : RW st d (k+1) := by
      intro i hi
      have := hrw (d - oD + i) (by omega)
      have e : oD + (d - oD + i) = d + i := by omega
      rwa [e] at this
    have hdm : st.mapped d = true ∧ st.wr d = true ∧ st.rd d = true := hsub.head
    by_cases hsl : isN = true ∧ slen = 0
    · have hm0 : m = 0 := by
        rcases hfin with ⟨h, _⟩ | ⟨_, h⟩
        · have := h hsl.1; omega
        · omega
      subst hm0
      rw [if_pos hsl]
      obtain ⟨st', he, hm, h0, hfr, hcl⟩ := stpEok_ok cfg isN d (k+1) st hsub (by omega) (Or.inr (Or.inl hsl.1))
      exact ⟨(d, EOK), st', he, stpDisjPost_term cfg oD oM k d s st st' hinv hm h0 hfr hcl⟩
    · rw [if_neg hsl]
      have hs_m : st.mapped s = true ∧ st.rd s = true := by
        by_cases hm0 : m = 0
        · subst hm0
          rcases hfin with ⟨_, _, h2, h3⟩ | ⟨h1, h2⟩
          · exact ⟨by simpa using h2, by simpa using h3⟩
          · exact absurd ⟨h1, h2⟩ hsl
        · simpa using hrd 0 (by omega)
      simp only [exec_bind, exec_load_ok _ _ hs_m.1 hs_m.2, exec_store_ok _ _ _ hdm.1 hdm.2.1]
      by_cases hc : st.data s = 0
      · have hm0 : m = 0 := by
          by_cases hm0 : m = 0
          · exact hm0
          · exact absurd hc (by simpa using hnz 0 (by omega))
        subst hm0
        simp only [hc, if_true]
        obtain ⟨st', he, hm, h0, hfr, hcl⟩ := stpEok_ok cfg isN d (k+1) (st.upd d 0)
          (RW.of_sameMeta (SameMeta.upd _ _ _) hsub) (by omega) (Or.inr (Or.inr (by simp)))
        refine ⟨(d, EOK), st', he, stpDisjPost_term cfg oD oM k d s st st' hinv (hm.trans (SameMeta.upd st d 0)) h0 ?_ hcl⟩
        intro a ha; rw [hfr a ha]; exact St.upd_data_ne _ _ _ _ (by omega)
      · simp only [hc, if_false]
        have hmpos : 0 < m := by
          apply Nat.pos_of_ne_zero
          intro hm0; subst hm0
          rcases hfin with ⟨_, h1, _, _⟩ | ⟨h1, h2⟩
          · exact hc (by simpa using h1)
          · exact hsl ⟨h1, h2⟩
        have hu0 := hun 0 hmpos
        simp only [Nat.zero_add] at hu0
        rw [if_neg (by rw [hu0]; simp)]
        have hsd : ∀ j, j ≤ m → s + j ≠ d := by
          intro j hj h
          have := hdisj j hj
          omega
        have hdata : ∀ j, j ≤ m - 1 → (st.upd d (st.data s)).data (s+1+j) = st.data (s+(j+1)) := by
          intro j hj
          have e : s + 1 + j = s + (j+1) := by omega
          rw [e]
          exact St.upd_data_ne _ _ _ _ (hsd (j+1) (by omega))
        obtain ⟨r, st', he, hp⟩ := ih (d+1) (s+1) (m-1) (if isN then slen - 1 else slen + 1) (st.upd d (st.data s))
          (RW.of_sameMeta (SameMeta.upd _ _ _) hrw) (by omega)
          (by intro j hj; rw [hdata j (by omega)]; exact hnz (j+1) (by omega))
          (by
            intro j hj
            have e : s + 1 + j = s + (j+1) := by omega
            rw [e]; exact hrd (j+1) (by omega))
          (by
            have e : s + 1 + (m-1) = s + m := by omega
            rcases hfin with ⟨h1, h2, h3, h4⟩ | ⟨h1, h2⟩
            · left
              refine ⟨fun hb => ?_, ?_, ?_, ?_⟩
              · have := h1 hb; simp only [hb, if_true]; omega
              · rw [hdata (m-1) (Nat.le_refl _)]
                have e' : s + (m - 1 + 1) = s + m := by omega
                rw [e']; exact h2
              · rw [e]; exact h3
              · rw [e]; exact h4
            · right; refine ⟨h1, ?_⟩; simp only [h1, if_true]; omega)
          (by
            intro j hj
            have e : s + 1 + j = s + (j+1) := by omega
            rw [e]; exact hdisj (j+1) (by omega))
          (by
            intro i hi hik
            have e1 : d + 1 + i = d + (i+1) := by omega
            have e2 : s + 1 + i = s + (i+1) := by omega
            rw [e1, e2]; exact hbump (i+1) (by omega) (by omega))
          (by
            intro i hi
            have := hun (i+1) (by omega)
            cases hN : isN with
            | true =>
              simp only [hN, if_true] at this ⊢
              have e : slen - 1 - (i + 1) = slen - (i + 1 + 1) := by omega
              rw [e]; exact this
            | false =>
              simp only [hN, Bool.false_eq_true, if_false] at this ⊢
              have e : slen + 1 + (i + 1) = slen + (i + 1 + 1) := by omega
              rw [e]; exact this)
        obtain ⟨pm, pr, pw, ps, pframe, pok, pfail⟩ := hp
        refine ⟨r, st', he, pm, pr, pw, ps, ?_, ?_, ?_⟩
        · intro a ha
          rw [pframe a ha]
          exact St.upd_data_ne _ _ _ _ (by omega)
        · intro hmk
          obtain ⟨c1, c2, c3, c4, c5, c6⟩ := pok (by omega)
          refine ⟨?_, c2, ?_, ?_, ?_, ?_⟩
          · rw [c1]
            have e1 : d + 1 + (m-1) = d + m := by omega
            rw [e1]
          · intro i hi
            by_cases hi0 : i = 0
            · subst hi0
              rw [Nat.add_zero, Nat.add_zero, c6 d hinv.1 (by omega)]
              simp
            · have := c3 (i-1) (by omega)
              have e1 : d + 1 + (i-1) = d + i := by omega
              rw [e1, hdata (i-1) (by omega)] at this
              have e2 : s + (i - 1 + 1) = s + i := by omega
              rw [e2] at this
              exact this
          · have e1 : d + 1 + (m-1) = d + m := by omega
            rw [e1] at c4; exact c4
          · intro hs i h1 h2
            have := c5 hs (i-1) (by omega) (by omega)
            have e1 : d + 1 + (i-1) = d + i := by omega
            rw [e1] at this; exact this
          · intro a h1 h2
            rw [c6 a h1 (by omega)]
            exact St.upd_data_ne _ _ _ _ (by omega)
        · intro hkm
          obtain ⟨c1, c2, c3, c4⟩ := pfail (by omega)
          exact ⟨c1, c2, c3, c4⟩

theorem untermB_false (srcbos : Bos) (x : Nat) (h : ∀ sb, srcbos = some sb → x < sb) :
    untermB srcbos x = false := by
  cases hb : untermB srcbos x with
  | false => rfl
  | true =>
    obtain ⟨sb, h1, h2⟩ := (untermB_iff _ _).1 hb
    have := h sb h1; omega

/-- the whole-call result on valid non-overlapping operands -/
def StpExact (cfg : Cfg) (dest dmax src m : Nat) (st st' : St) (r : Nat × Nat) : Prop :=
  st'.mapped = st.mapped ∧ st'.rd = st.rd ∧ st'.wr = st.wr ∧ st'.strays = st.strays ∧
  (∀ a, ¬ (dest ≤ a ∧ a < dest + dmax) → st'.data a = st.data a) ∧
  (m < dmax → r = (dest + m, EOK) ∧ st'.events = st.events ∧
    (∀ i, i < m → st'.data (dest+i) = st.data (src+i)) ∧ st'.data (dest+m) = 0 ∧
    (cfg.slack = true → ∀ i, m ≤ i → i < dmax → st'.data (dest+i) = 0)) ∧
  (dmax ≤ m → r = (0, ESNOSPC) ∧ st'.events = st.events ++ [.handler .str ESNOSPC] ∧ st'.data dest = 0 ∧
    (cfg.slack = true → ∀ i, i < dmax → st'.data (dest+i) = 0))

theorem StpExact.of_post {cfg : Cfg} {dest dmax src m : Nat} {st st' : St} {r : Nat × Nat}
    (h : StpDisjPost cfg dest dmax dmax dest src m st st' r) : StpExact cfg dest dmax src m st st' r := by
  obtain ⟨pm, pr, pw, ps, pf, pok, pfail⟩ := h
  refine ⟨pm, pr, pw, ps, pf, fun hm => ?_, pfail⟩
  obtain ⟨c1, c2, c3, c4, c5, _⟩ := pok hm
  exact ⟨c1, c2, c3, c4, c5⟩

/-- the body shared by both entry points, on non-overlapping operands -/
theorem stpBody_disjoint (cfg : Cfg) (isN : Bool) (dest dmax src m slen : Nat) (srcbos : Bos) (st : St)
    (hpos : 0 < dmax) (hrw : RW st dest dmax)
    (hnz : ∀ j, j < m → st.data (src+j) ≠ 0)
    (hrd : ∀ j, j < m → st.mapped (src+j) = true ∧ st.rd (src+j) = true)
    (hfin : ((isN = true → m < slen) ∧ st.data (src+m) = 0 ∧ st.mapped (src+m) = true ∧
              st.rd (src+m) = true) ∨ (isN = true ∧ slen = m))
    (hdisj : dest + dmax ≤ src ∨ src + m < dest)
    (hun : ∀ i, i < m → untermB srcbos (if isN then slen - (i+1) else slen + (i+1)) = false) :
    ∃ r st', exec (stpBody cfg isN dest dmax src slen srcbos) st = .ok (r, st') ∧
      StpExact cfg dest dmax src m st st' r := by
  unfold stpBody
  have hsame : dest ≠ src := by
    intro h; rcases hdisj with h1 | h1 <;> omega
  rw [if_neg hsame]
  have hdj : ∀ j, j ≤ m → ¬ (dest ≤ src + j ∧ src + j < dest + dmax) := by
    intro j hj; rcases hdisj with h1 | h1 <;> omega
  by_cases hlt : dest < src
  · rw [if_pos hlt]
    have hle' : dest + dmax ≤ src := by rcases hdisj with h1 | h1 <;> omega
    obtain ⟨r, st', he, hp⟩ := stpLoop_disjoint cfg isN true src dest dmax hpos srcbos dmax dest src m slen st hrw
      ⟨Nat.le_refl _, rfl⟩ hnz hrd hfin hdj (by intro i _ hi; simp only [if_true]; omega) hun
    exact ⟨r, st', he, StpExact.of_post hp⟩
  · rw [if_neg hlt]
    have hlt' : src + m < dest := by rcases hdisj with h1 | h1 <;> omega
    obtain ⟨r, st', he, hp⟩ := stpLoop_disjoint cfg isN false dest dest dmax hpos srcbos dmax dest src m slen st hrw
      ⟨Nat.le_refl _, rfl⟩ hnz hrd hfin hdj
      (by intro i hi _; simp only [Bool.false_eq_true, if_false]; omega) hun
    exact ⟨r, st', he, StpExact.of_post hp⟩

/-- **stpcpy_s on valid non-overlapping operands** (object sizes unknown, or known with dmax inside dest's
and the source string inside the source's): `n` = length of the source string -/
theorem stpcpy_s_disjoint (cfg : Cfg) (dest dmax src n : Nat) (destbos srcbos : Bos) (st : St)
    (hd : dest ≠ 0) (hs : src ≠ 0) (hpos : 0 < dmax) (hle : dmax ≤ RSIZE_MAX_STR)
    (hb : ∀ b, destbos = some b → dmax ≤ b) (hsb : ∀ sb, srcbos = some sb → n < sb)
    (hrw : RW st dest dmax) (hsrc : SrcStr st src n) (hdisj : Disjoint dest dmax src n) :
    ∃ r st', exec (stpcpy_s cfg dest dmax src destbos srcbos) st = .ok (r, st') ∧
      StpExact cfg dest dmax src n st st' r := by
  unfold stpcpy_s
  have hz : dmax ≠ 0 := by omega
  rw [if_neg hd, if_neg hz]
  have hk : chkDmaxClearG (fun c => (0, c)) cfg dest dmax destbos RSIZE_MAX_STR
      (if src = 0 then do handleError cfg dest dmax ESNULLP; pure (0, ESNULLP)
       else stpBody cfg false dest dmax src 0 srcbos) = stpBody cfg false dest dmax src 0 srcbos := by
    unfold chkDmaxClearG
    cases destbos with
    | none => simp only; rw [if_neg (by omega), if_neg hs]
    | some b => simp only; rw [if_neg (by have := hb b rfl; omega), if_neg hs]
  rw [hk]
  exact stpBody_disjoint cfg false dest dmax src n 0 srcbos st hpos hrw hsrc.nz
    (fun j hj => hsrc.rd j (by omega))
    (Or.inl ⟨fun h => absurd h (by decide), hsrc.nul, (hsrc.rd n (Nat.le_refl _)).1, (hsrc.rd n (Nat.le_refl _)).2⟩)
    hdisj
    (by
      intro i hi
      simp only [Bool.false_eq_true, if_false]
      exact untermB_false _ _ (fun sb h => by have := hsb sb h; omega))

/-- **stpncpy_s on valid non-overlapping operands** (`slen ≤ RSIZE_MAX_STR`, object sizes unknown, or
known with dmax / slen inside them): `m` = characters copied (the source string is shorter than slen and
`m` its length, or `m = slen`) -/
theorem stpncpy_s_disjoint (cfg : Cfg) (dest dmax src slen m : Nat) (destbos srcbos : Bos) (st : St)
    (hd : dest ≠ 0) (hs : src ≠ 0) (hpos : 0 < dmax) (hle : dmax ≤ RSIZE_MAX_STR)
    (hslenle : slen ≤ RSIZE_MAX_STR)
    (hb : ∀ b, destbos = some b → dmax ≤ b) (hsb : ∀ sb, srcbos = some sb → slen ≤ sb)
    (hrw : RW st dest dmax)
    (hnz : ∀ j, j < m → st.data (src+j) ≠ 0)
    (hrd : ∀ j, j < m → st.mapped (src+j) = true ∧ st.rd (src+j) = true)
    (hfin : (m < slen ∧ st.data (src+m) = 0 ∧ st.mapped (src+m) = true ∧ st.rd (src+m) = true) ∨ slen = m)
    (hdisj : dest + dmax ≤ src ∨ src + m < dest) :
    ∃ r st', exec (stpncpy_s cfg dest dmax src slen destbos srcbos) st = .ok (r, st') ∧
      StpExact cfg dest dmax src m st st' r := by
  unfold stpncpy_s
  have hz : dmax ≠ 0 := by omega
  rw [if_neg hd, if_neg hz]
  have hbody := stpBody_disjoint cfg true dest dmax src m slen srcbos st hpos hrw hnz hrd
    (hfin.elim (fun h => Or.inl ⟨fun _ => h.1, h.2⟩) (fun h => Or.inr ⟨rfl, h⟩)) hdisj
    (by
      intro i hi
      simp only [if_true]
      have hm : m ≤ slen := by rcases hfin with h | h <;> omega
      exact untermB_false _ _ (fun sb h => by have := hsb sb h; omega))
  have hsx : ¬ slen > RSIZE_MAX_STR := by omega
  unfold chkDmaxClearG
  cases destbos with
  | none =>
    simp only
    rw [if_neg (by omega), if_neg hs, if_neg hsx]
    cases srcbos with
    | none => exact hbody
    | some sb => simp only; rw [if_neg (by have := hsb sb rfl; omega)]; exact hbody
  | some b =>
    simp only
    rw [if_neg (by have := hb b rfl; omega), if_neg hs, if_neg hsx]
    cases srcbos with
    | none => exact hbody
    | some sb => simp only; rw [if_neg (by have := hsb sb rfl; omega)]; exact hbody

end SafeC

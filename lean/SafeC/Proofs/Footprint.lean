import SafeC.Proofs.InterleaveN
import SafeC.Proofs.AccS
/-!
# Footprints: from the access judgements to `Within2`, and locality of `exec` (C12)

* `Acc.within2`, `AccD.within2`, `AccS.within2`: a program with an access-footprint proof (`Acc`: for all
  loaded values; `AccD` / `AccS`: for the contents `d` at the call) has that footprint as a `Within2`
  footprint of its total run, from every state (`Acc`) / every state with contents `d` (`AccD`, `AccS`);
  `*.runT_post`: the postcondition of the judgement holds of the total run.
* `within2_of_clean`: a guarded run that neither faults nor records a stray access loads from readable and
  stores to writable cells only (the split form of `within_of_clean`).
* `exec_local_ok`, `exec_local_err`: **`exec p st` depends only on `st` restricted to the footprint**: two
  states that agree — contents, mapping, permissions — on the cells of `F ⊇ footprint` and carry the same
  logs give the same outcome (same fault, or same result, same logs, contents agreeing on `F`).  Together
  with `runT_frame` (nothing outside the footprint changes) this is the checkable form of "a model keeps no
  state of its own": a `Prog` is a value; everything a run can observe or change is a cell of the memory
  it is given, and only the cells of its footprint.
-/
namespace SafeC

/-! ## the access judgements give `Within2` footprints -/

theorem Acc.within2 {R W : Nat → Prop} {α} {p : Prog α} {Q : α → Prop} (h : Acc R W p Q) (s : St) :
    Within2 R W p s := by
  induction h generalizing s with
  | ret x _ => trivial
  | load a k ha _ ih => exact ⟨ha, ih _ s⟩
  | store a v k ha _ ih => exact ⟨ha, ih _⟩
  | emit e k _ ih => exact ih _

theorem Acc.runT_post {R W : Nat → Prop} {α} {p : Prog α} {Q : α → Prop} (h : Acc R W p Q) (s : St) :
    Q (runT p s).1 := by
  induction h generalizing s with
  | ret x hx => exact hx
  | load a k _ _ ih => exact ih _ s
  | store a v k _ _ ih => exact ih _
  | emit e k _ ih => exact ih _

theorem AccD.within2 {d : Nat → Nat} {R : Nat → Prop} {α} {p : Prog α} {Q : α → Prop} (h : AccD d R p Q)
    (s : St) (hd : s.data = d) : Within2 R (fun _ => False) p s := by
  induction h generalizing s with
  | ret x _ => trivial
  | load a k ha _ ih =>
    have e := congrFun hd a
    exact ⟨ha, by rw [e]; exact ih s hd⟩
  | emit e k _ ih => exact ih _ hd

theorem AccD.runT_post {d : Nat → Nat} {R : Nat → Prop} {α} {p : Prog α} {Q : α → Prop} (h : AccD d R p Q)
    (s : St) (hd : s.data = d) : Q (runT p s).1 ∧ (runT p s).2.data = s.data := by
  induction h generalizing s with
  | ret x hx => exact ⟨hx, rfl⟩
  | load a k _ _ ih =>
    simp only [runT]
    have e := congrFun hd a
    rw [e]; exact ih s hd
  | emit e k _ ih => exact ih _ hd

theorem AccS.within2 {R W : Nat → Prop} {α} {p : Prog α} {Q : α → (Nat → Nat) → Prop} {d : Nat → Nat}
    (h : AccS R W d p Q) (s : St) (hd : s.data = d) : Within2 R W p s := by
  induction h generalizing s with
  | ret x _ => trivial
  | load a k ha _ ih =>
    have e := congrFun hd a
    exact ⟨ha, by rw [e]; exact ih s hd⟩
  | store a v k ha _ ih => exact ⟨ha, ih (s.upd a v) (by rw [← hd]; rfl)⟩
  | emit e k _ ih => exact ih _ hd

theorem AccS.runT_post {R W : Nat → Prop} {α} {p : Prog α} {Q : α → (Nat → Nat) → Prop} {d : Nat → Nat}
    (h : AccS R W d p Q) (s : St) (hd : s.data = d) : Q (runT p s).1 (runT p s).2.data := by
  induction h generalizing s with
  | ret x hx => exact hd ▸ hx
  | load a k _ _ ih =>
    simp only [runT]
    have e := congrFun hd a
    rw [e]; exact ih s hd
  | store a v k _ _ ih => exact ih (s.upd a v) (by rw [← hd]; rfl)
  | emit e k _ ih => exact ih _ hd

/-! ## from the guarded semantics -/

theorem within2_of_clean_aux (rd wr : Nat → Bool) (p : Prog α) (s : St) {r : α} {s' : St}
    (hrd : s.rd = rd) (hwr : s.wr = wr)
    (h : exec p s = .ok (r, s')) (hs : s'.strays = s.strays) :
    Within2 (fun a => rd a = true) (fun a => wr a = true) p s := by
  induction p generalizing s with
  | ret x => trivial
  | load a k ih =>
    simp only [exec] at h
    split at h
    · by_cases hr : s.rd a = true
      · have e : s.noteRd a = s := by simp [St.noteRd, hr]
        rw [e] at h
        exact ⟨by rw [← hrd]; exact hr, ih _ s hrd hwr h hs⟩
      · exfalso
        have e : s.noteRd a = s.stray (.rd a) := by simp [St.noteRd, hr]
        rw [e] at h
        obtain ⟨ex, hex⟩ := exec_strays_mono _ _ h
        simp only [St.stray] at hex
        rw [hs] at hex
        exact strays_grow_absurd hex.symm
    · cases h
  | store a v k ih =>
    simp only [exec] at h
    split at h
    · by_cases hw : s.wr a = true
      · have e : s.noteWr a = s := by simp [St.noteWr, hw]
        rw [e] at h
        exact ⟨by rw [← hwr]; exact hw, ih (s.upd a v) hrd hwr h hs⟩
      · exfalso
        have e : s.noteWr a = s.stray (.wr a) := by simp [St.noteWr, hw]
        rw [e] at h
        obtain ⟨ex, hex⟩ := exec_strays_mono _ _ h
        simp only [St.stray, St.upd_strays] at hex
        rw [hs] at hex
        exact strays_grow_absurd hex.symm
    · cases h
  | emit e k ih =>
    simp only [exec] at h
    exact ih _ hrd hwr h hs

/-- a guarded run that faults nowhere and records no new stray access loads from cells the caller
declared readable and stores to cells the caller declared writable -/
theorem within2_of_clean (p : Prog α) (s : St) {r : α} {s' : St}
    (h : exec p s = .ok (r, s')) (hs : s'.strays = s.strays) :
    Within2 (fun a => s.rd a = true) (fun a => s.wr a = true) p s :=
  within2_of_clean_aux s.rd s.wr p s rfl rfl h hs

/-! ## `exec` is local to the footprint -/

/-- the two states are indistinguishable on `F`: same contents, mapping and permissions on the cells of
`F`, same logs -/
structure Sim (F : Nat → Prop) (s s' : St) : Prop where
  data : ∀ a, F a → s.data a = s'.data a
  mapped : ∀ a, F a → s.mapped a = s'.mapped a
  rd : ∀ a, F a → s.rd a = s'.rd a
  wr : ∀ a, F a → s.wr a = s'.wr a
  events : s.events = s'.events
  strays : s.strays = s'.strays

theorem Sim.symm {F : Nat → Prop} {s s' : St} (h : Sim F s s') : Sim F s' s :=
  ⟨fun a ha => (h.data a ha).symm, fun a ha => (h.mapped a ha).symm, fun a ha => (h.rd a ha).symm,
   fun a ha => (h.wr a ha).symm, h.events.symm, h.strays.symm⟩

theorem Sim.noteRd {F : Nat → Prop} {s s' : St} (h : Sim F s s') (a : Nat) (ha : F a) :
    Sim F (s.noteRd a) (s'.noteRd a) := by
  have e := h.rd a ha
  simp only [St.noteRd]
  rw [← e]
  split
  · exact h
  · exact ⟨h.data, h.mapped, h.rd, h.wr, h.events, by simp only [St.stray]; rw [h.strays]⟩

theorem Sim.noteWr {F : Nat → Prop} {s s' : St} (h : Sim F s s') (a : Nat) (ha : F a) :
    Sim F (s.noteWr a) (s'.noteWr a) := by
  have e := h.wr a ha
  simp only [St.noteWr]
  rw [← e]
  split
  · exact h
  · exact ⟨h.data, h.mapped, h.rd, h.wr, h.events, by simp only [St.stray]; rw [h.strays]⟩

theorem Sim.upd {F : Nat → Prop} {s s' : St} (h : Sim F s s') (a v : Nat) : Sim F (s.upd a v) (s'.upd a v) :=
  ⟨fun x hx => by simp only [St.upd_data]; split; rfl; exact h.data x hx,
   h.mapped, h.rd, h.wr, h.events, h.strays⟩

theorem Sim.emit {F : Nat → Prop} {s s' : St} (h : Sim F s s') (e : Event) :
    Sim F { s with events := s.events ++ [e] } { s' with events := s'.events ++ [e] } :=
  ⟨h.data, h.mapped, h.rd, h.wr, by simp only []; rw [h.events], h.strays⟩

/-- **locality, normal return**: if the run from `s` stays inside `F` and returns, the run from any state
indistinguishable on `F` returns the same value, with the same logs and contents that agree on `F` -/
theorem exec_local_ok {F : Nat → Prop} (p : Prog α) (s s' : St) (hsim : Sim F s s') (hw : Within F p s)
    {r : α} {t : St} (h : exec p s = .ok (r, t)) :
    ∃ t', exec p s' = .ok (r, t') ∧ Sim F t t' := by
  induction p generalizing s s' with
  | ret x =>
    simp only [exec_ret, Except.ok.injEq, Prod.mk.injEq] at h
    obtain ⟨rfl, rfl⟩ := h
    exact ⟨s', rfl, hsim⟩
  | load a k ih =>
    simp only [exec] at h ⊢
    rw [← hsim.mapped a hw.1, ← hsim.data a hw.1]
    split at h
    · next hm =>
      simp only [hm, if_true]
      refine ih _ (s.noteRd a) (s'.noteRd a) (hsim.noteRd a hw.1) ?_ h
      exact within_data_congr _ s _ (St.noteRd_data s a).symm hw.2
    · cases h
  | store a v k ih =>
    simp only [exec] at h ⊢
    rw [← hsim.mapped a hw.1]
    split at h
    · next hm =>
      simp only [hm, if_true]
      refine ih ((s.noteWr a).upd a v) ((s'.noteWr a).upd a v) ((hsim.noteWr a hw.1).upd a v) ?_ h
      refine within_data_congr _ (s.upd a v) _ ?_ hw.2
      funext x; simp only [St.upd_data, St.noteWr_data]
    · cases h
  | emit e k ih =>
    simp only [exec] at h ⊢
    exact ih _ _ (hsim.emit e) hw h

/-- **locality, fault**: if the run from `s` stays inside `F` (as a total run) and the guarded run faults,
the run from any state indistinguishable on `F` faults at the same access -/
theorem exec_local_err {F : Nat → Prop} (p : Prog α) (s s' : St) (hsim : Sim F s s') (hw : Within F p s)
    {e : Fault} (h : exec p s = .error e) : exec p s' = .error e := by
  induction p generalizing s s' with
  | ret x => simp [exec] at h
  | load a k ih =>
    simp only [exec] at h ⊢
    rw [← hsim.mapped a hw.1, ← hsim.data a hw.1]
    split at h
    · next hm =>
      simp only [hm, if_true]
      refine ih _ (s.noteRd a) (s'.noteRd a) (hsim.noteRd a hw.1) ?_ h
      exact within_data_congr _ s _ (St.noteRd_data s a).symm hw.2
    · next hm =>
      simp only [hm]
      exact h
  | store a v k ih =>
    simp only [exec] at h ⊢
    rw [← hsim.mapped a hw.1]
    split at h
    · next hm =>
      simp only [hm, if_true]
      refine ih ((s.noteWr a).upd a v) ((s'.noteWr a).upd a v) ((hsim.noteWr a hw.1).upd a v) ?_ h
      refine within_data_congr _ (s.upd a v) _ ?_ hw.2
      funext x; simp only [St.upd_data, St.noteWr_data]
    · next hm =>
      simp only [hm]
      exact h
  | emit e k ih =>
    simp only [exec] at h ⊢
    exact ih _ _ (hsim.emit e) hw h

/-! ## a call seen with ONLY its operands mapped -/

/-- `st` as ONE call is entitled to see it: readable = `R`, writable = `W`, mapped = `R ∪ W`; the
contents are those of `st` -/
def privRW (st : St) (R W : Nat → Bool) : St :=
  { st with mapped := fun a => R a || W a, rd := R, wr := W }

@[simp] theorem privRW_data (st : St) (R W : Nat → Bool) : (privRW st R W).data = st.data := rfl
@[simp] theorem privRW_strays (st : St) (R W : Nat → Bool) : (privRW st R W).strays = st.strays := rfl

/-- a guarded run from `privRW st R W` that neither faults nor strays: the total run from `st` (whatever
`st` maps or permits) loads from `R`, stores to `W`, and is that run -/
theorem within2_of_guarded (p : Prog α) (st : St) (R W : Nat → Bool) {r : α} {st' : St}
    (h : exec p (privRW st R W) = .ok (r, st')) (hs : st'.strays = st.strays) :
    Within2 (fun a => R a = true) (fun a => W a = true) p st ∧
    (runT p st).1 = r ∧ (runT p st).2.data = st'.data := by
  have hw := within2_of_clean p (privRW st R W) h hs
  exact ⟨within2_congr p (privRW st R W) st (fun _ _ => rfl) hw, exec_eq_runT_aux p (privRW st R W) st rfl h⟩

end SafeC

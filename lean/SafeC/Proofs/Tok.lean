import SafeC.Proofs.Query
import SafeC.Models.Tok
/-!
# Helper lemmas for the tokenizers (C14)

Pure description of one `strtok_s` / `wcstok_s` call on the memory contents:

* `isDelim m dl c`  — `c` occurs in the delimiter string at `dl`;
* `skipD m dl n p`  — first position at or after `p` (looking at no more than `n` cells) holding a
  NUL or a non-delimiter: where the token starts;
* `findE m dl n p`  — first position at or after `p` holding a NUL or a delimiter: where it ends.

and the loop lemmas relating the two C loops (`scan1`, `scan2` in `Models/Tok.lean`) to them, on a
memory where the string is terminated inside the remaining length and the delimiter string has
between 1 and `STRTOK_DELIM_MAX_LEN` characters.
-/
namespace SafeC
open Gen

/-- `c` is one of the delimiters (string at `dl`, at most `STRTOK_DELIM_MAX_LEN` looked at) -/
def isDelim (m : Nat → Nat) (dl c : Nat) : Bool := inSet m c dl STRTOK_DELIM_MAX_LEN

/-- the delimiter string at `dl` has `k` characters, `1 ≤ k ≤ STRTOK_DELIM_MAX_LEN` -/
def DelimOK (m : Nat → Nat) (dl : Nat) : Prop :=
  0 < scanLen m dl (STRTOK_DELIM_MAX_LEN + 1) ∧ scanLen m dl (STRTOK_DELIM_MAX_LEN + 1) ≤ STRTOK_DELIM_MAX_LEN

def skipD (m : Nat → Nat) (dl : Nat) : Nat → Nat → Nat
  | 0, p => p
  | n+1, p => if m p = 0 then p else if isDelim m dl (m p) then skipD m dl n (p+1) else p

def findE (m : Nat → Nat) (dl : Nat) : Nat → Nat → Nat
  | 0, p => p
  | n+1, p => if m p = 0 then p else if isDelim m dl (m p) then p else findE m dl n (p+1)

theorem skipD_bounds (m : Nat → Nat) (dl n p : Nat) : p ≤ skipD m dl n p ∧ skipD m dl n p ≤ p + n := by
  induction n generalizing p with
  | zero => simp [skipD]
  | succ n ih =>
    simp only [skipD]
    split
    · omega
    · split
      · have := ih (p+1); omega
      · omega

theorem findE_bounds (m : Nat → Nat) (dl n p : Nat) : p ≤ findE m dl n p ∧ findE m dl n p ≤ p + n := by
  induction n generalizing p with
  | zero => simp [findE]
  | succ n ih =>
    simp only [findE]
    split
    · omega
    · split
      · omega
      · have := ih (p+1); omega

/-- every cell skipped is a (non-NUL) delimiter -/
theorem skipD_skipped (m : Nat → Nat) (dl n p j : Nat) (h1 : p ≤ j) (h2 : j < skipD m dl n p) :
    m j ≠ 0 ∧ isDelim m dl (m j) = true := by
  induction n generalizing p with
  | zero => simp [skipD] at h2; omega
  | succ n ih =>
    simp only [skipD] at h2
    split at h2
    · omega
    · rename_i h0
      split at h2
      · rename_i hd
        by_cases hj : j = p
        · subst hj; exact ⟨h0, hd⟩
        · exact ih (p+1) (by omega) h2
      · omega

/-- every cell of the token is a non-NUL non-delimiter -/
theorem findE_inside (m : Nat → Nat) (dl n p j : Nat) (h1 : p ≤ j) (h2 : j < findE m dl n p) :
    m j ≠ 0 ∧ isDelim m dl (m j) = false := by
  induction n generalizing p with
  | zero => simp [findE] at h2; omega
  | succ n ih =>
    simp only [findE] at h2
    split at h2
    · omega
    · rename_i h0
      split at h2
      · omega
      · rename_i hd
        by_cases hj : j = p
        · subst hj; exact ⟨h0, by simpa using hd⟩
        · exact ih (p+1) (by omega) h2

/-- a NUL among the next `n` cells: the skip stops at a NUL or at a non-delimiter, strictly inside -/
theorem skipD_stop (m : Nat → Nat) (dl n p : Nat) (hz : scanLen m p n < n) :
    skipD m dl n p < p + n ∧ (m (skipD m dl n p) = 0 ∨ isDelim m dl (m (skipD m dl n p)) = false) := by
  induction n generalizing p with
  | zero => omega
  | succ n ih =>
    simp only [scanLen] at hz
    simp only [skipD]
    by_cases h0 : m p = 0
    · simp [h0]
    · simp only [h0, if_false] at hz ⊢
      by_cases hd : isDelim m dl (m p) = true
      · rw [if_pos hd]
        have := ih (p+1) (by omega)
        exact ⟨by omega, this.2⟩
      · rw [if_neg hd]
        exact ⟨by omega, Or.inr (by simpa using hd)⟩

theorem findE_stop (m : Nat → Nat) (dl n p : Nat) (hz : scanLen m p n < n) :
    findE m dl n p < p + n ∧ (m (findE m dl n p) = 0 ∨ isDelim m dl (m (findE m dl n p)) = true) := by
  induction n generalizing p with
  | zero => omega
  | succ n ih =>
    simp only [scanLen] at hz
    simp only [findE]
    by_cases h0 : m p = 0
    · simp [h0]
    · simp only [h0, if_false] at hz ⊢
      by_cases hd : isDelim m dl (m p) = true
      · rw [if_pos hd]
        exact ⟨by omega, Or.inr hd⟩
      · rw [if_neg hd]
        have := ih (p+1) (by omega)
        exact ⟨by omega, this.2⟩

/-- the NUL bound moves along: if a NUL lies within `n+1` cells of `p` and `p` is not it, one lies within `n` of `p+1` -/
theorem scanLen_tail (m : Nat → Nat) (p n : Nat) (hz : scanLen m p (n+1) < n+1) (h0 : m p ≠ 0) :
    scanLen m (p+1) n < n := by
  simp only [scanLen, h0, if_false] at hz; omega

/-! ## the delimiter-list passes -/

/-- generalisation for the induction: `tok` is already true, or will be after the first miss -/
theorem delimScan1_gen {st : St} (h : AllRd st) (dest : Nat) (slen pt : Nat) (tok : Bool)
    (hlen : scanLen st.data pt (slen+1) ≤ slen) :
    exec (delimScan1 dest slen pt tok) st =
      .ok (.done (if inSet st.data (st.data dest) pt slen then false
                  else (tok || decide (0 < scanLen st.data pt (slen+1)))), st) := by
  induction slen generalizing pt tok with
  | zero =>
    have hz : st.data pt = 0 := by
      simp only [scanLen] at hlen
      by_cases h0 : st.data pt = 0
      · exact h0
      · simp [h0] at hlen
    simp [delimScan1, exec_bind, exec_load_all h, hz, inSet, scanLen]
  | succ n ih =>
    simp only [delimScan1, exec_bind, exec_load_all h]
    by_cases h0 : st.data pt = 0
    · simp [h0, inSet, scanLen]
    · simp only [h0, if_false, exec_bind, exec_load_all h]
      by_cases hc : st.data dest = st.data pt
      · simp [hc, inSet, h0]
      · simp only [hc, if_false]
        have hlen' : scanLen st.data (pt+1) (n+1) ≤ n := by
          have : scanLen st.data pt (n+1+1) = 1 + scanLen st.data (pt+1) (n+1) := by
            conv => lhs; unfold scanLen
            simp [h0]
          omega
        rw [ih (pt+1) true hlen']
        have e1 : inSet st.data (st.data dest) pt (n+1) = inSet st.data (st.data dest) (pt+1) n := by
          conv => lhs; unfold inSet
          simp [h0, hc]
        have e2 : 0 < scanLen st.data pt (n+1+1) := by
          have : scanLen st.data pt (n+1+1) = 1 + scanLen st.data (pt+1) (n+1) := by
            conv => lhs; unfold scanLen
            simp [h0]
          omega
        simp [e1, e2]

theorem delimScan1_eq {st : St} (h : AllRd st) (dest dl : Nat) (hd : DelimOK st.data dl) :
    exec (delimScan1 dest STRTOK_DELIM_MAX_LEN dl false) st =
      .ok (.done (!isDelim st.data dl (st.data dest)), st) := by
  rw [delimScan1_gen h dest _ _ _ hd.2]
  have : decide (0 < scanLen st.data dl (STRTOK_DELIM_MAX_LEN+1)) = true := by simpa using hd.1
  unfold isDelim
  cases inSet st.data (st.data dest) dl STRTOK_DELIM_MAX_LEN <;> simp [this]

theorem delimScan2_gen {st : St} (h : AllRd st) (dest : Nat) (slen pt : Nat)
    (hlen : scanLen st.data pt (slen+1) ≤ slen) :
    exec (delimScan2 dest slen pt) st =
      .ok ((if inSet st.data (st.data dest) pt slen then Delim2.hit else Delim2.miss), st) := by
  induction slen generalizing pt with
  | zero =>
    have hz : st.data pt = 0 := by
      simp only [scanLen] at hlen
      by_cases h0 : st.data pt = 0
      · exact h0
      · simp [h0] at hlen
    simp [delimScan2, exec_bind, exec_load_all h, hz, inSet]
  | succ n ih =>
    simp only [delimScan2, exec_bind, exec_load_all h]
    by_cases h0 : st.data pt = 0
    · simp [h0, inSet]
    · simp only [h0, if_false, exec_bind, exec_load_all h]
      by_cases hc : st.data dest = st.data pt
      · simp [hc, inSet, h0]
      · simp only [hc, if_false]
        have hlen' : scanLen st.data (pt+1) (n+1) ≤ n := by
          have : scanLen st.data pt (n+1+1) = 1 + scanLen st.data (pt+1) (n+1) := by
            conv => lhs; unfold scanLen
            simp [h0]
          omega
        rw [ih (pt+1) hlen']
        have e1 : inSet st.data (st.data dest) pt (n+1) = inSet st.data (st.data dest) (pt+1) n := by
          conv => lhs; unfold inSet
          simp [h0, hc]
        simp [e1]

theorem delimScan2_eq {st : St} (h : AllRd st) (dest dl : Nat) (hd : DelimOK st.data dl) :
    exec (delimScan2 dest STRTOK_DELIM_MAX_LEN dl) st =
      .ok ((if isDelim st.data dl (st.data dest) then Delim2.hit else Delim2.miss), st) := by
  rw [delimScan2_gen h dest _ _ hd.2]; rfl

/-! ## the two loops -/

/-- first loop: skips delimiters; leaves at the NUL (no token) or one past the first token character -/
theorem scan1_eq {st : St} (h : AllRd st) (wide : Bool) (dl dlen dest : Nat) (hd : DelimOK st.data dl)
    (hz : scanLen st.data dest dlen < dlen) :
    exec (scan1 wide dl dlen dest) st =
      .ok ((let a := skipD st.data dl dlen dest
            if st.data a = 0 then Scan1.exit 0 a (dlen - (a - dest))
            else Scan1.exit a (a+1) (dlen - (a - dest) - 1)), st) := by
  induction dlen generalizing dest with
  | zero => omega
  | succ n ih =>
    simp only [scan1, exec_bind, exec_load_all h, skipD]
    by_cases h0 : st.data dest = 0
    · simp [h0]
    · simp only [h0, if_false, exec_bind, delimScan1_eq h dest dl hd]
      by_cases hdl : isDelim st.data dl (st.data dest) = true
      · simp only [hdl, Bool.not_true, if_true]
        have hz' := scanLen_tail st.data dest n hz h0
        rw [ih (dest+1) hz']
        have hb := skipD_bounds st.data dl n (dest+1)
        have e1 : n + 1 - (skipD st.data dl n (dest+1) - dest) = n - (skipD st.data dl n (dest+1) - (dest+1)) := by omega
        simp only [e1]
      · have hdl' : isDelim st.data dl (st.data dest) = false := by simpa using hdl
        simp [hdl', h0, exec_bind, exec_load_all h]

/-- second loop, a NUL inside the remaining length: ends the token at the NUL (`*ptr` at the NUL)
or at the first delimiter, which is overwritten with NUL (`*ptr` one past it). `WR`: the cell that
may be overwritten is writable. -/
theorem scan2_eq {st : St} (h : AllRd st) (dl ptoken dlen dest : Nat) (hd : DelimOK st.data dl)
    (hz : scanLen st.data dest dlen < dlen)
    (hw : ∀ a, dest ≤ a → a < dest + dlen → st.wr a = true) :
    exec (scan2 dl ptoken dlen dest) st =
      (let b := findE st.data dl dlen dest
       if st.data b = 0 then .ok ({ ret := ptoken, dmaxv := some (dlen - (b - dest)), ptrv := some b }, st)
       else .ok ({ ret := ptoken, dmaxv := some (dlen - (b - dest) - 1), ptrv := some (b+1) }, st.upd b 0)) := by
  induction dlen generalizing dest with
  | zero => omega
  | succ n ih =>
    simp only [scan2, exec_bind, exec_load_all h, findE]
    by_cases h0 : st.data dest = 0
    · simp [h0]
    · simp only [h0, if_false, exec_bind, delimScan2_eq h dest dl hd]
      by_cases hdl : isDelim st.data dl (st.data dest) = true
      · have hwd : st.wr dest = true := hw dest (by omega) (by omega)
        simp [hdl, h0, exec_bind, exec_store_ok _ _ _ (h dest).1 hwd]
      · have hdl' : isDelim st.data dl (st.data dest) = false := by simpa using hdl
        simp only [hdl', Bool.false_eq_true, if_false]
        have hz' := scanLen_tail st.data dest n hz h0
        rw [ih (dest+1) hz' (fun a h1 h2 => hw a (by omega) (by omega))]
        have hb := findE_bounds st.data dl n (dest+1)
        have e1 : n + 1 - (findE st.data dl n (dest+1) - dest) = n - (findE st.data dl n (dest+1) - (dest+1)) := by omega
        simp only [e1]

end SafeC

import SafeC.Props.C05Ev
import SafeC.Models.Mem
/-!
# Event-judgement lemmas for the memory family: every primitive is `Quiet`, shapes of the reporting exits,
and the `once` walking tactic (helper lemmas for `Props/C05Mem.lean`)
-/
namespace SafeC.Props.C05Mem
open SafeC Gen Mem SafeC.Props.C05Ev

/-! ## the primitives emit nothing -/

theorem q_storeByte (w v a r : Nat) : Quiet (storeByte w v a r) := by unfold storeByte; quiet
theorem q_memsetBytes (w v d n : Nat) : Quiet (memsetBytes w v d n) := by unfold memsetBytes; quiet
theorem q_setPrologue (w v n d : Nat) : Quiet (setPrologue w v n d) := by
  induction n generalizing d with
  | zero => unfold setPrologue; quiet
  | succ n ih => unfold setPrologue; quiet using ih, q_storeByte
theorem q_setWords (w v k lp : Nat) : Quiet (setWords w v k lp) := by
  induction k generalizing lp with
  | zero => unfold setWords; quiet
  | succ k ih => unfold setWords; quiet using ih
theorem q_setBlocks (w v q lp : Nat) : Quiet (setBlocks w v q lp) := by
  induction q generalizing lp with
  | zero => unfold setBlocks; quiet
  | succ q ih => unfold setBlocks; quiet using ih, q_setWords
theorem q_setTail (w v n d : Nat) : Quiet (setTail w v n d) := by
  induction n generalizing d with
  | zero => unfold setTail; quiet
  | succ n ih => unfold setTail; quiet using ih, q_storeByte
theorem q_mem_prim_set (w d len v : Nat) : Quiet (mem_prim_set w d len v) := by
  unfold mem_prim_set; quiet using q_setPrologue, q_setBlocks, q_setWords, q_setTail
theorem q_setElems (v k d : Nat) : Quiet (setElems v k d) := by
  induction k generalizing d with
  | zero => unfold setElems; quiet
  | succ k ih => unfold setElems; quiet using ih
theorem q_setElemBlocks (v q d : Nat) : Quiet (setElemBlocks v q d) := by
  induction q generalizing d with
  | zero => unfold setElemBlocks; quiet
  | succ q ih => unfold setElemBlocks; quiet using ih, q_setElems
theorem q_primSetElems (d len v : Nat) : Quiet (primSetElems d len v) := by
  unfold primSetElems; quiet using q_setElemBlocks, q_setElems
theorem q_mem_prim_set16 (d len v : Nat) : Quiet (mem_prim_set16 d len v) := q_primSetElems _ _ _
theorem q_mem_prim_set32 (d len v : Nat) : Quiet (mem_prim_set32 d len v) := q_primSetElems _ _ _
theorem q_copyFwd (n d s : Nat) : Quiet (copyFwd n d s) := by
  induction n generalizing d s with
  | zero => unfold copyFwd; quiet
  | succ n ih => unfold copyFwd; quiet using ih
theorem q_copyBwd (n d s : Nat) : Quiet (copyBwd n d s) := by
  induction n generalizing d s with
  | zero => unfold copyBwd; quiet
  | succ n ih => unfold copyBwd; quiet using ih
theorem q_loadCells (n a : Nat) : Quiet (loadCells n a) := by
  induction n generalizing a with
  | zero => unfold loadCells; quiet
  | succ n ih => unfold loadCells; quiet using ih
theorem q_storeCells (cs : List Nat) (a : Nat) : Quiet (storeCells cs a) := by
  induction cs generalizing a with
  | nil => unfold storeCells; quiet
  | cons c cs ih => unfold storeCells; quiet using ih
theorem q_copyWord (d s : Nat) : Quiet (copyWord d s) := by
  unfold copyWord; quiet using q_loadCells, q_storeCells
theorem q_wordsFwd (n d s : Nat) : Quiet (wordsFwd n d s) := by
  induction n generalizing d s with
  | zero => unfold wordsFwd; quiet
  | succ n ih => unfold wordsFwd; exact Quiet.bind (q_copyWord _ _) (fun _ => ih _ _)
theorem q_wordsBwd (n d s : Nat) : Quiet (wordsBwd n d s) := by
  induction n generalizing d s with
  | zero => unfold wordsBwd; quiet
  | succ n ih => unfold wordsBwd; exact Quiet.bind (q_copyWord _ _) (fun _ => ih _ _)
theorem q_moveFwdAlign (d s len : Nat) : Quiet (moveFwdAlign d s len) := by
  unfold moveFwdAlign; quiet using q_copyFwd
theorem q_moveBwdAlign (d s len : Nat) : Quiet (moveBwdAlign d s len) := by
  unfold moveBwdAlign; quiet using q_copyBwd
theorem q_mem_prim_move (d s len : Nat) : Quiet (mem_prim_move d s len) := by
  unfold mem_prim_move
  quiet using q_moveFwdAlign, q_moveBwdAlign, q_wordsFwd, q_wordsBwd, q_copyFwd, q_copyBwd
theorem q_moveBlocksFwd (q d s : Nat) : Quiet (moveBlocksFwd q d s) := by
  induction q generalizing d s with
  | zero => unfold moveBlocksFwd; quiet
  | succ q ih => unfold moveBlocksFwd; quiet using ih, q_copyFwd
theorem q_moveBlocksBwd (q d s : Nat) : Quiet (moveBlocksBwd q d s) := by
  induction q generalizing d s with
  | zero => unfold moveBlocksBwd; quiet
  | succ q ih => unfold moveBlocksBwd; quiet using ih, q_copyBwd
theorem q_primMoveElems (d s len : Nat) : Quiet (primMoveElems d s len) := by
  unfold primMoveElems
  quiet using q_moveBlocksFwd, q_moveBlocksBwd, q_copyFwd, q_copyBwd
theorem q_mem_prim_move16 (d s len : Nat) : Quiet (mem_prim_move16 d s len) := q_primMoveElems _ _ _
theorem q_mem_prim_move32 (d s len : Nat) : Quiet (mem_prim_move32 d s len) := q_primMoveElems _ _ _

/-! ## building blocks for the entry points -/

/-- `handle_mem_error(dest, len, msg, code); return code;` -/
theorem handleMemErrorB_ret_once (w d len code : Nat) (hc : code ≠ EOK) :
    EV (do handleMemErrorB w d len code; pure code : Prog Nat) (Once .mem) := by
  unfold handleMemErrorB
  refine EV.bind (Q := fun _ es => es = [.handler .mem code]) ?_
    (fun _ es he => by subst he; exact EV.pure _ (Or.inr ⟨hc, by simp⟩))
  exact Quiet.then_ (q_memsetBytes _ _ _ _) (fun _ => EV.handlerM code)

/-- `<quiet clearing>; handler(code); return code;` -/
theorem clear_report_once {p : Prog Unit} (hp : Quiet p) (code : Nat) (hc : code ≠ EOK) :
    EV (do p; handlerM code; pure code : Prog Nat) (Once .mem) :=
  Quiet.then_ hp (fun _ => EV.bind (EV.handlerM code)
    (fun _ es he => by subst he; exact EV.pure _ (Or.inr ⟨hc, by simp⟩)))

/-- `handler(code); <quiet work>; return code;` (memset_s reports first, then fills what fits) -/
theorem report_work_once {p : Prog Unit} (hp : Quiet p) (code : Nat) (hc : code ≠ EOK) :
    EV (do handlerM code; p; pure code : Prog Nat) (Once .mem) :=
  EV.bind (EV.handlerM code) (fun _ es he => by
    subst he
    exact Quiet.then_ hp (fun _ => EV.pure _ (Or.inr ⟨hc, by simp⟩)))

theorem work_eok {k : Kind} {p : Prog Unit} (hp : Quiet p) : EV (do p; pure EOK : Prog Nat) (Once k) :=
  Quiet.then_ hp (fun _ => eok_once)

theorem chkDmaxMemB_once (dmax : Nat) (destbos : Bos) (max : Nat) {k : Option Nat → Prog Nat}
    (hk : ∀ b, EV (k b) (Once .mem)) : EV (chkDmaxMemB dmax destbos max k) (Once .mem) := by
  unfold chkDmaxMemB
  split
  · split
    · exact failM_once _ (by decide)
    · exact hk _
  · split
    · split
      · exact failM_once _ (by decide)
      · exact failM_once _ (by decide)
    · exact hk _

/-- one step through an entry point whose exits all have one of the shapes above -/
macro "once_step" : tactic => `(tactic| first
  | exact failM_once _ (by decide)
  | exact failS_once _ (by decide)
  | exact eok_once
  | exact handleMemErrorB_ret_once _ _ _ _ (by decide)
  | exact clear_report_once (q_mem_prim_set _ _ _ _) _ (by decide)
  | exact clear_report_once (q_mem_prim_set32 _ _ _) _ (by decide)
  | exact report_work_once (q_mem_prim_set _ _ _ _) _ (by decide)
  | exact report_work_once (q_mem_prim_set16 _ _ _) _ (by decide)
  | exact report_work_once (q_mem_prim_set32 _ _ _) _ (by decide)
  | exact work_eok (q_mem_prim_move _ _ _)
  | exact work_eok (q_mem_prim_move16 _ _ _)
  | exact work_eok (q_mem_prim_move32 _ _ _)
  | exact work_eok (q_mem_prim_set _ _ _ _)
  | exact work_eok (q_mem_prim_set16 _ _ _)
  | exact work_eok (q_mem_prim_set32 _ _ _)
  | exact work_eok (q_memsetBytes _ _ _ _)
  | (apply chkDmaxMemB_once; intro _)
  | split
  | dsimp only)
macro "once" : tactic => `(tactic| repeat once_step)

end SafeC.Props.C05Mem

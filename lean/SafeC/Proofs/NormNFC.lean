import SafeC.Proofs.NormComposeSpec
import SafeC.Proofs.NormCompose2
import SafeC.Proofs.NormSpec
/-! C17 — `wcsnorm_s` in NFC mode = the Canonical Composition Algorithm (D117) applied to the NFD, for all inputs -/
namespace SafeC.Norm
open SafeC.Gen

attribute [local irreducible] cell UniCanon.main UniCanon.planes UniCanon.rows UniCombin.main UniCombin.planes UniCombin.rows
  UniCanon.tbl1 UniCanon.tbl2 UniCanon.tbl3 UniCanon.tbl4 UniCompos.main UniCompos.planes UniCompos.rows UniCompos.pairs

/-- whatever the pair map yields is a starter, by the tree's classes and by UCD 14.0's -/
theorem pcOf_class0 {fx : Fixes} {a b c : Nat} (h : pcOf fx a b = some c) : kcc c = 0 ∧ UCD.ccc c = 0 := by
  unfold pcOf at h
  dsimp only at h
  split at h
  · rename_i hc
    have e : compositeCp fx a b = c := by injection h
    rw [← e]
    exact compositeCp_class0 fx a b hc.1
  · cases h

/-- NFC as the model computes it, sizes aside: D117 over the tree's classes and pair map, on the model's NFD -/
def nfcPure (fx : Fixes) (xs : List Nat) : List Nat := d117 kcc (pcOf fx) (nfdPure xs)

/-- **`wcsnorm_s(…, WCSNORM_NFC, …)`, every input (any cells, any dmax), as it is and repaired: whenever it returns EOK, dest holds
the Canonical Composition (D117: last starter, not blocked, primary composite ⇒ replace and delete) of the NFD, with the tree's
classes and pair map, and `*lenp` is its length** -/
theorem wcsnormS_nfc_spec (fx : Fixes) (dmax : Nat) (src : List Nat) (h0 : ∀ c ∈ src, c ≠ 0)
    (hret : (wcsnormS fx 1 dmax src).ret = 0) :
    (wcsnormS fx 1 dmax src).out = nfcPure fx src ∧ (wcsnormS fx 1 dmax src).len = (nfcPure fx src).length ∧
    (nfcPure fx src).length < dmax ∧ ∀ c ∈ src, c ≤ UniCompos.unicodeMax := by
  obtain ⟨d1, d2, d3⟩ := decomposeS_spec dmax src h0
  unfold wcsnormS at hret ⊢
  have hm : (1 / 4 % 2 == 1) = false := rfl
  simp only [hm, d1, d2, Bool.or_self, Bool.false_or] at hret ⊢
  by_cases hdret : (decomposeS dmax src false).ret = 0
  · obtain ⟨e1, e2, e3, e4, e5⟩ := d3 hdret
    have hle := flatMap_decompose1_le (xs := src) (fun c hc => ⟨e5 c hc, h0 c hc⟩)
    have hst := reorderS_stage fx (decomposeS dmax src false).out (decomposeS dmax src false).len
      (by rw [e1]; exact fun c hc => (hle c hc).1) (by rw [e1, e2])
    have h12 : ((1 : Nat) = 2) = False := by simp
    have h10 : ((1 : Nat) = 0 ∨ (1 : Nat) = 4) = False := by simp
    simp only [hdret, ne_eq, not_true_eq_false, decide_false, Bool.false_eq_true, ↓reduceIte, h12, hst] at hret ⊢
    by_cases hbig : (decomposeS dmax src false).len + 2 > RSIZE_MAX_WSTR
    · have e3' : ¬ ESLEMAX = 0 := by decide
      simp [hbig, e3'] at hret
    · simp only [hbig, ↓reduceIte, Bool.or_self, Bool.false_eq_true, not_true_eq_false, decide_false, h10] at hret ⊢
      have hnfd : reorderPure kcc (decomposeS dmax src false).out = nfdPure src := by unfold nfdPure; rw [e1]
      rw [hnfd] at hret ⊢
      have hmem : ∀ c ∈ nfdPure src, c ≤ UniCompos.unicodeMax := by
        intro c hc
        unfold nfdPure at hc
        exact (hle c (reorderPure_mem.mp hc)).1
      have hlen : (nfdPure src).length < dmax := by unfold nfdPure; rw [reorderPure_length]; exact e3
      have hcs := composeS_eq_pure_kcc fx (nfdPure src) dmax hmem hlen e4
      have hcan : CanonOrdered kcc (nfdPure src) := by unfold nfdPure; exact reorderPure_canonOrdered _ _
      have hd117 : composePure kcc (pcOf fx) (nfdPure src) = d117 kcc (pcOf fx) (nfdPure src) :=
        composePure_eq_d117 (fun a b c h _ => (pcOf_class0 h).1) hcan
      have h13 : ((1 : Nat) == 3) = false := rfl
      rw [h13, hcs, hd117] at hret ⊢
      simp only [Bool.or_self, Bool.false_eq_true, ↓reduceIte, ne_eq, not_true_eq_false, decide_false]
      unfold nfcPure
      refine ⟨rfl, rfl, ?_, e5⟩
      have := d117_length_le kcc (pcOf fx) (nfdPure src)
      omega
  · have : decide ((decomposeS dmax src false).ret ≠ 0) = true := by simp [hdret]
    simp only [this, ↓reduceIte] at hret
    exact absurd hret hdret

/-- **NFC of the model = UAX #15 NFC over UCD 14.0's classes** — D117 run with `Canonical_Combining_Class` of UCD 14.0 on the
standard's NFD (D68 + D109 over UCD 14.0) — for every string of code points assigned in Unicode 14.0 other than U+037E.  The pair
map is still the tree's (`pcOf`); `nfc_pairs_table` is its entry-by-entry equality with UCD 14.0's primary composites. -/
theorem nfcPure_is_uax15 (fx : Fixes) (xs : List Nat) (h : ∀ c ∈ xs, UCD.assigned c = true ∧ c ≠ 0x37E) :
    nfcPure fx xs = d117 UCD.ccc (pcOf fx) (reorderPure UCD.ccc (UCD.decompose xs)) := by
  obtain ⟨h1, _⟩ := nfdPure_is_uax15 xs h
  unfold nfcPure
  rw [h1]
  apply d117_congr_k
  · intro d hd
    have hd' := reorderPure_mem.mp hd
    unfold UCD.decompose at hd'
    simp only [List.mem_flatMap] at hd'
    obtain ⟨c, hc, hdc⟩ := hd'
    have := ccc_matches_ucd (fullDecomp_assigned (h c hc).1 hdc)
    unfold kcc
    rw [this]; rfl
  · intro a b c hp
    have := pcOf_class0 hp
    rw [this.1, this.2]

end SafeC.Norm

import SafeC.Proofs.PrintfConv
/-!
# C11: `%c` and `%s` of the engine = `Spec.render`; the NULL-string exit
-/
namespace SafeC.Printf
open SafeC.Printf.Spec

theorem out_eq_emitAll (sk : Sink) (m : Nat) (c : Char) (s : St) : out sk m c s = emitAll sk m [c] s := by
  simp only [emitAll, bind, Except.bind]
  cases out sk m c s <;> rfl

theorem cfl_long_none (d : Dir) (h : d.len = .none) : (cfl d).long = false := by simp [h]

/-- **`%c`.**  Any flags `-`, any width, any `int` argument: the engine writes the padded character the standard prescribes. -/
theorem convChar_eq (fx : Fixes) (sk : Sink) (m : Nat) (d : Dir) (hlen : d.len = .none) (v : Int) (as : List Arg) (s : St) :
    convChar fx sk m (cfl d) d.width (.int v :: as) s =
      (emitAll sk m (padField d [Char.ofNat (wrapU 8 v)]) s).map (fun s' => (s', as)) := by
  unfold convChar padField
  simp only [cfl_long_none d hlen, Bool.false_eq_true, if_false, cfl_left, nextInt, emitRep_eq, out_eq_emitAll,
    List.length_singleton, bind, Except.bind, pure, Except.pure, wrapU8_wrapS32']
  cases hm : d.minus
  · simp only [Bool.not_false, if_true, Bool.false_eq_true, if_false, emitAll_append, bind, Except.bind]
    cases h1 : emitAll sk m (List.replicate (d.width - 1) ' ') s with
    | error e => simp [Except.map]
    | ok s1 => cases h2 : emitAll sk m [Char.ofNat (wrapU 8 v)] s1 <;> simp [h2, Except.map]
  · simp only [Bool.not_true, Bool.false_eq_true, if_false, if_true, emitAll_append, bind, Except.bind]
    cases h1 : emitAll sk m [Char.ofNat (wrapU 8 v)] s with
    | error e => simp [Except.map]
    | ok s1 => cases h2 : emitAll sk m (List.replicate (d.width - 1) ' ') s1 <;> simp [h2, Except.map]

/-- the characters `%s` writes for the string `p` -/
def strCore (d : Dir) (p : Str) : Str := match d.prec with | some n => p.take n | Option.none => p

/-- **`%s`.**  Any flags `-`, width, precision, any string: the engine writes the standard's text; when the string part does
    not fit the room left (`l + idx > bufsize`) the buffer sink fails with `-ESNOSPC`, which is what writing the text
    would have done. -/
theorem convStr_eq (fx : Fixes) (hs0 : fx.strPrec0 = true) (sk : Sink) (m : Nat) (d : Dir) (hlen : d.len = .none)
    (p : Str) (as : List Arg) (s : St)
    (hroom : (sk = .buffer ∧ s.idx ≤ m) ∨ s.idx + (padField d (strCore d p)).length ≤ m) :
    convStr fx sk m m (cfl d) d.width (d.prec.getD 0) (.str (some p) :: as) s =
      (emitAll sk m (padField d (strCore d p)) s).map (fun s' => (s', as)) := by
  unfold convStr
  simp only [cfl_long_none d hlen, Bool.false_eq_true, if_false, hs0, if_true, cfl_precision]
  have hl : (if d.prec.isSome = true then min p.length (d.prec.getD 0) else p.length) = (strCore d p).length := by
    unfold strCore; cases d.prec <;> simp [List.length_take, Nat.min_comm]
  have hcore : (if d.prec.isSome = true then p.take (d.prec.getD 0) else p) = strCore d p := by
    unfold strCore; cases d.prec <;> simp
  rw [hl]
  unfold convStrTail
  simp only [cfl_precision, cfl_left, hcore, emitRep_eq]
  have hl2 : (if d.prec.isSome = true then min (strCore d p).length (d.prec.getD 0) else (strCore d p).length) = (strCore d p).length := by
    unfold strCore; cases d.prec <;> simp [List.length_take]
  rw [hl2]
  have hge : (strCore d p).length ≤ (padField d (strCore d p)).length := by
    unfold padField; split <;> simp
  by_cases hpre : (strCore d p).length + s.idx > m
  · rw [if_pos hpre]
    rcases hroom with ⟨rfl, hi⟩ | h
    · rw [emitAll_buffer_overflow m _ s hi (by omega)]; rfl
    · omega
  · rw [if_neg hpre]
    unfold padField
    cases hm : d.minus
    · simp only [Bool.not_false, if_true, Bool.false_eq_true, if_false, emitAll_append, bind, Except.bind, pure, Except.pure]
      cases h1 : emitAll sk m (List.replicate (d.width - (strCore d p).length) ' ') s with
      | error e => simp [Except.map]
      | ok s1 => cases h2 : emitAll sk m (strCore d p) s1 <;> simp [h2, Except.map]
    · simp only [Bool.not_true, Bool.false_eq_true, if_false, if_true, emitAll_append, bind, Except.bind, pure, Except.pure]
      cases h1 : emitAll sk m (strCore d p) s with
      | error e => simp [Except.map]
      | ok s1 => cases h2 : emitAll sk m (List.replicate (d.width - (strCore d p).length) ' ') s1 <;> simp [h2, Except.map]

/-- `%s` with a NULL argument: `-ESNULLP`, whatever flags, width, precision, state and sink -/
theorem convStr_null (fx : Fixes) (sk : Sink) (m bufsize : Nat) (fl : Flags) (hl : fl.long = false) (width prec : Nat) (as : List Arg) (s : St) :
    convStr fx sk m bufsize fl width prec (.str none :: as) s = .error (.ret (-(SafeC.Gen.ESNULLP : Int))) := by
  unfold convStr; simp [hl]

end SafeC.Printf

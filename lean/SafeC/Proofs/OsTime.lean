import SafeC.Proofs.OsGets
import SafeC.Props.C05Time
/-!
# `asctime_s` / `ctime_s` (`Models/Time.lean`): the exact result of every exit on a usable dest

Setting of `Proofs/ExtOs.lean` (`RW st dest dmax`, arbitrary prior content); the `struct tm` (12 cells) resp. `*timer` are
readable; libc's text — when there is one — is a readable string of `n` characters that does not overlap dest
(`SrcStr`, `Disjoint`).  With `dmax ≥ 120` libc writes straight into dest; the model of that write is `copyText 120`
(libc's contract: 26 bytes), so for `dmax ≥ 120` the text is assumed shorter than 120 characters — a longer one is outside
what the model says about libc (`strlen(dest)` would then run on into whatever follows).
-/
namespace SafeC
open Gen

/-! ## pieces -/

theorem anyField_runs (tm : Nat) (l : List (Nat × (Int → Bool))) (st : St)
    (hrd : ∀ x, x ∈ l → st.mapped (tm + x.1) = true ∧ st.rd (tm + x.1) = true) :
    Runs (anyField tm l) st (fun _ s => s = st) := by
  induction l with
  | nil => exact Runs.pure _ rfl
  | cons x xs ih =>
    obtain ⟨i, p⟩ := x
    unfold anyField
    have h := hrd (i, p) (by simp)
    refine Runs.bind ((Runs.loadP _ h.1 h.2).conseq (fun v s ⟨_, hs⟩ => ?_))
    subst hs
    split
    · exact Runs.pure _ rfl
    · exact ih (fun x hx => hrd x (List.mem_cons_of_mem _ hx))

/-- the `tm_gmtoff` comparison that closes each of the two range checks -/
theorem gmtoff_runs (tm : Nat) (b : Bool) (f : Int → Bool) (st : St)
    (hrd : ∀ i, i < 12 → st.mapped (tm + i) = true ∧ st.rd (tm + i) = true) :
    Runs (if b then pure true else do
        let lo ← load (tm + 10); let hi ← load (tm + 11)
        pure (f (cellLong lo hi)) : Prog Bool) st (fun _ s => s = st) := by
  cases b with
  | true => exact Runs.pure _ rfl
  | false =>
    simp only [Bool.false_eq_true, if_false]
    refine Runs.bind ((Runs.loadP _ (hrd 10 (by omega)).1 (hrd 10 (by omega)).2).conseq (fun v s ⟨_, hs⟩ => ?_))
    subst hs
    refine Runs.bind ((Runs.loadP _ (hrd 11 (by omega)).1 (hrd 11 (by omega)).2).conseq (fun v s ⟨_, hs⟩ => ?_))
    subst hs
    exact Runs.pure _ rfl

/-- libc storing a readable string of `n < fuel` characters (terminator included) at `d`, away from it -/
theorem copyText_runs (fuel text d n : Nat) (st : St) (hsrc : SrcStr st text n) (hn : n < fuel) (hrw : RW st d (n+1))
    (hdisj : d + (n+1) ≤ text ∨ text + n < d) :
    ∃ st', exec (copyText fuel text d) st = .ok ((), st') ∧ SameMeta st' st ∧
      (∀ j, j ≤ n → st'.data (d+j) = st.data (text+j)) ∧
      (∀ a, ¬ (d ≤ a ∧ a < d + (n+1)) → st'.data a = st.data a) := by
  induction n generalizing fuel text d st with
  | zero =>
    obtain ⟨f, rfl⟩ : ∃ f, fuel = f + 1 := ⟨fuel - 1, by omega⟩
    have hr := hsrc.rd 0 (by omega)
    have h0 := hsrc.nul
    simp only [Nat.add_zero] at hr h0
    obtain ⟨hm, hw, _⟩ := hrw.head
    refine ⟨st.upd d 0, ?_, SameMeta.upd _ _ _, ?_, ?_⟩
    · unfold copyText
      simp [exec_bind, exec_load_ok _ _ hr.1 hr.2, h0, exec_store_ok _ _ _ hm hw]
    · intro j hj
      have : j = 0 := by omega
      subst this; simp [h0]
    · intro a ha
      exact St.upd_data_ne _ _ _ _ (by intro h; subst h; exact ha ⟨Nat.le_refl _, by omega⟩)
  | succ n ih =>
    obtain ⟨f, rfl⟩ : ∃ f, fuel = f + 1 := ⟨fuel - 1, by omega⟩
    have hr := hsrc.rd 0 (by omega)
    have h0 := hsrc.nz 0 (by omega)
    simp only [Nat.add_zero] at hr h0
    obtain ⟨hm, hw, _⟩ := hrw.head
    have hsrc' : SrcStr (st.upd d (st.data text)) (text+1) n := by
      have ht := SrcStr.tail hsrc
      refine ⟨fun j hj => ?_, ?_, fun j hj => ht.rd j hj⟩
      · rw [St.upd_data_ne _ _ _ _ (by omega)]; exact ht.nz j hj
      · rw [St.upd_data_ne _ _ _ _ (by omega)]; exact ht.nul
    obtain ⟨st', he, hmeta, hcp, hfr⟩ := ih f (text+1) (d+1) (st.upd d (st.data text)) hsrc' (by omega)
      (RW.of_sameMeta (SameMeta.upd _ _ _) hrw.tail) (by omega)
    refine ⟨st', ?_, hmeta.trans (SameMeta.upd _ _ _), ?_, ?_⟩
    · unfold copyText
      simp only [exec_bind, exec_load_ok _ _ hr.1 hr.2, exec_store_ok _ _ _ hm hw, if_neg h0]
      exact he
    · intro j hj
      cases j with
      | zero =>
        rw [Nat.add_zero, Nat.add_zero, hfr d (by omega)]
        simp
      | succ j =>
        have := hcp j (by omega)
        rw [show d + (j+1) = d + 1 + j by omega, this, St.upd_data_ne _ _ _ _ (by omega)]
        congr 1; omega
    · intro a ha
      rw [hfr a (by omega)]
      exact St.upd_data_ne _ _ _ _ (by intro h; subst h; exact ha ⟨Nat.le_refl _, by omega⟩)

/-- `handle_error(dest, dmax, msg, code); return code` on a usable dest -/
theorem failClr_runs (cfg : Cfg) (dest dmax code : Nat) (st : St) (hrw : RW st dest dmax) (hpos : 0 < dmax) :
    Runs (failClr cfg dest dmax code) st (fun r s => r = code ∧ GetsFrame dest dmax st s ∧
      s.events = st.events ++ [.handler .str code] ∧ s.data dest = 0 ∧
      (cfg.slack = true → ∀ i, i < dmax → s.data (dest+i) = 0)) := by
  obtain ⟨s, he, pm, pr, pw, ps, pf, pe, pz, psl⟩ := herr_dest cfg dest dmax code st hrw hpos
  unfold failClr
  exact Runs.bind (Runs.of_exec he (Runs.pure _ ⟨rfl, ⟨pm, pr, pw, ps, pf⟩, pe, pz, psl⟩))

/-! ## posts -/

/-- a reported violation of asctime_s / ctime_s on a usable dest: dest[0] = 0; when `dmax` itself is acceptable (`26 ≤ dmax`)
and null-slack is on, all `dmax` cells are zero -/
def TimeViol (cfg : Cfg) (dest dmax : Nat) (st : St) (r : Nat) (s : St) : Prop :=
  (r = ESNULLP ∨ r = ESLEMIN ∨ r = ESLEMAX) ∧ s.events = st.events ++ [.handler .str r] ∧ s.data dest = 0 ∧
  (26 ≤ dmax → cfg.slack = true → ∀ i, i < dmax → s.data (dest+i) = 0)

/-- what `timeTail` leaves: libc gave up (-1, dest cleared, silent); the text (n characters) fits: EOK, silent, dest = text,
terminator, and behind it zeros (`dmax < 120`: the copy out of `tmp[120]` through strcpy_s, null-slack) resp. the prior
content (`dmax ≥ 120`: libc wrote into dest, the closing `strcpy_s(dest, dmax, dest)` is the same-pointer shortcut); the text
does not fit (`dmax < 120` only): ESNOSPC reported once and dest NOT touched -/
def TimeTailPost (cfg : Cfg) (dest dmax text n : Nat) (lf : Bool) (st : St) (r : Nat) (s : St) : Prop :=
  ((text = 0 ∨ lf = true) ∧ r = NEG1 ∧ s.events = st.events ∧ s.data dest = 0 ∧
     (cfg.slack = true → ∀ i, i < dmax → s.data (dest+i) = 0)) ∨
  (text ≠ 0 ∧ lf = false ∧ n < dmax ∧ r = EOK ∧ s.events = st.events ∧
     (∀ i, i < n → s.data (dest+i) = st.data (text+i)) ∧ s.data (dest+n) = 0 ∧
     (dmax < 120 → cfg.slack = true → ∀ i, n ≤ i → i < dmax → s.data (dest+i) = 0) ∧
     (120 ≤ dmax → ∀ i, n < i → i < dmax → s.data (dest+i) = st.data (dest+i))) ∨
  (text ≠ 0 ∧ lf = false ∧ dmax ≤ n ∧ r = ESNOSPC ∧ s.events = st.events ++ [.handler .str ESNOSPC] ∧ s.data = st.data)

/-- hypothesis on libc's text: none (`text = 0`), or a readable string of `n` characters away from dest — shorter than 120
when libc writes it into dest itself -/
def TextOk (st : St) (dest dmax text n : Nat) : Prop :=
  text ≠ 0 → SrcStr st text n ∧ Disjoint dest dmax text n ∧ (120 ≤ dmax → n < 120)

theorem SrcStr.congr {st st' : St} {s n : Nat} (h : SrcStr st s n) (hm : st'.mapped = st.mapped) (hr : st'.rd = st.rd)
    (hd : ∀ j, j ≤ n → st'.data (s+j) = st.data (s+j)) : SrcStr st' s n :=
  ⟨fun j hj => by rw [hd j (by omega)]; exact h.nz j hj, by rw [hd n (Nat.le_refl _)]; exact h.nul,
   fun j hj => by rw [hm, hr]; exact h.rd j hj⟩

/-- **everything after the argument checks**, usable dest with `26 ≤ dmax` -/
theorem timeTail_runs (cfg : Cfg) (dest dmax : Nat) (db : Bos) (text n : Nat) (lf : Bool) (st : St)
    (hd : dest ≠ 0) (h26 : 26 ≤ dmax) (hb : ∀ b, db = some b → dmax ≤ b) (hnone : db = none → dmax ≤ RSIZE_MAX_STR)
    (hrw : RW st dest dmax) (htext : TextOk st dest dmax text n) :
    Runs (timeTail cfg dest dmax db text lf) st (fun r s => GetsFrame dest dmax st s ∧
      TimeTailPost cfg dest dmax text n lf st r s) := by
  have hpos : 0 < dmax := by omega
  unfold timeTail
  dsimp only
  by_cases hfail : text = 0 ∨ lf = true
  · rw [if_pos hfail]
    -- libc gave up; with dmax ≥ 120 its buffer was dest
    have hcp : Runs (if text ≠ 0 ∧ dmax ≥ 120 then copyText 120 text dest else pure ()) st
        (fun _ s => SameMeta s st ∧ ∀ a, ¬ (dest ≤ a ∧ a < dest + dmax) → s.data a = st.data a) := by
      by_cases hc : text ≠ 0 ∧ dmax ≥ 120
      · rw [if_pos hc]
        obtain ⟨hsrc, hdj, hn⟩ := htext hc.1
        unfold Disjoint at hdj
        obtain ⟨s, he, hm, _, hf⟩ := copyText_runs 120 text dest n st hsrc (hn hc.2) (fun i hi => hrw i (by have := hn hc.2; omega))
          (by have := hn hc.2; omega)
        exact Runs.of_exec he ⟨hm, fun a ha => hf a (by have := hn hc.2; omega)⟩
      · rw [if_neg hc]; exact Runs.pure _ ⟨SameMeta.refl _, fun _ _ => rfl⟩
    refine Runs.bind (hcp.conseq (fun _ s1 ⟨hm1, hf1⟩ => ?_))
    obtain ⟨s2, he2, pm, pr, pw, ps, pf, pe, pz, psl⟩ := clear_dest cfg dest dmax s1 (RW.of_sameMeta hm1 hrw) hpos
    refine Runs.bind (Runs.of_exec he2 (Runs.pure _ ⟨⟨?_, ?_, ?_, ?_, fun a ha => ?_⟩, Or.inl ⟨hfail, rfl, ?_, pz, psl⟩⟩))
    · rw [pm, hm1.mapped]
    · rw [pr, hm1.rd]
    · rw [pw, hm1.wr]
    · rw [ps, hm1.strays]
    · rw [pf a ha, hf1 a ha]
    · rw [pe, hm1.events]
  rw [if_neg hfail]
  have ht : text ≠ 0 := fun h => hfail (Or.inl h)
  have hlf : lf = false := by cases lf <;> simp_all
  obtain ⟨hsrc, hdj, hn⟩ := htext ht
  by_cases h120 : dmax ≥ 120
  · rw [if_pos h120]
    have hn' := hn h120
    have hdj' := hdj
    unfold Disjoint at hdj'
    obtain ⟨s1, he1, hm1, hc1, hf1⟩ := copyText_runs 120 text dest n st hsrc hn' (fun i hi => hrw i (by omega)) (by omega)
    refine Runs.bind (Runs.of_exec he1 ?_)
    have hs1 : SrcStr s1 dest n := by
      refine ⟨fun j hj => ?_, ?_, fun j hj => ?_⟩
      · rw [hc1 j (by omega)]; exact hsrc.nz j hj
      · rw [hc1 n (Nat.le_refl _)]; exact hsrc.nul
      · have := (RW.of_sameMeta hm1 hrw) j (by omega)
        exact ⟨this.1, this.2.2⟩
    have hfuel : n < scanFuel := by have := RSIZE_lt_scanFuel; have : (120:Nat) ≤ RSIZE_MAX_STR := by decide
                                    omega
    refine Runs.bind (Runs.of_exec (strlen_ok dest n s1 hs1 hfuel) ?_)
    rw [if_pos (by omega), SafeC.Props.C05Time.strcpy_same cfg dest dmax db hd (by omega) hb hnone]
    refine Runs.bind (Runs.pure _ (Runs.pure _ ⟨⟨hm1.mapped, hm1.rd, hm1.wr, hm1.strays, fun a ha => hf1 a (by omega)⟩,
      Or.inr (Or.inl ⟨ht, hlf, by omega, rfl, hm1.events, fun i hi => hc1 i (by omega), ?_, fun h => by omega,
        fun _ i h1 h2 => hf1 _ (by omega)⟩)⟩))
    rw [hc1 n (Nat.le_refl _)]; exact hsrc.nul
  · rw [if_neg h120]
    obtain ⟨l, hl, hlv⟩ := strlen_ok' text n st hsrc
    refine Runs.bind (Runs.of_exec hl ?_)
    by_cases hfit : n < dmax
    · have hln : l = n := by
        have := RSIZE_lt_scanFuel
        have : (120:Nat) ≤ RSIZE_MAX_STR := by decide
        rcases hlv with h | h <;> omega
      subst hln
      rw [if_pos hfit]
      obtain ⟨code, s1, he, pm, pr, pw, ps, pf, hok, _⟩ :=
        strcpyG_disjoint RSIZE_MAX_STR cfg dest dmax text l st hd ht hpos (by have : (120:Nat) ≤ RSIZE_MAX_STR := by decide
                                                                              omega) hrw hsrc hdj
      obtain ⟨_, hev, hcp, hnul, hsl⟩ := hok hfit
      have he' : exec (strcpy_s cfg dest dmax text none) st = .ok (code, s1) := he
      exact Runs.bind (Runs.of_exec he' (Runs.pure _ ⟨⟨pm, pr, pw, ps, pf⟩,
        Or.inr (Or.inl ⟨ht, hlf, hfit, rfl, hev, hcp, hnul, fun _ => hsl, fun h => by omega⟩)⟩))
    · have hge : ¬ l < dmax := by
        have := RSIZE_lt_scanFuel
        have : (120:Nat) ≤ RSIZE_MAX_STR := by decide
        rcases hlv with h | h <;> omega
      rw [if_neg hge]
      refine Runs.bind ⟨(), { st with events := st.events ++ [.handler .str ESNOSPC] }, by simp [handlerS], ?_⟩
      exact Runs.pure _ ⟨⟨rfl, rfl, rfl, rfl, fun _ _ => rfl⟩, Or.inr (Or.inr ⟨ht, hlf, by omega, rfl, rfl, rfl⟩)⟩

/-- the entry checks on a usable dest: `dmax < 26` is reported as ESLEMIN with `dest[0] = 0`, otherwise the body runs -/
theorem timeEntry_runs (cfg : Cfg) (dest dmax : Nat) (db : Bos) (k : Prog Nat) (st : St) (Q : Nat → St → Prop)
    (hd : dest ≠ 0) (hpos : 0 < dmax) (hb : ∀ b, db = some b → dmax ≤ b) (hnone : db = none → dmax ≤ RSIZE_MAX_STR)
    (hrw : RW st dest dmax) (hk : 26 ≤ dmax → Runs k st Q) :
    Runs (timeEntry dest dmax db k) st (fun r s => (GetsFrame dest dmax st s ∧ TimeViol cfg dest dmax st r s) ∨ Q r s) := by
  unfold timeEntry
  rw [if_neg hd]
  by_cases h26 : dmax < 26
  · rw [if_pos h26, if_pos hpos]
    have h0 := hrw 0 hpos
    simp only [Nat.add_zero] at h0
    refine Runs.bind ((Runs.storeP dest 0 h0.1 h0.2.1).conseq (fun _ s hs => ?_))
    subst hs
    refine ⟨ESLEMIN, { st.upd dest 0 with events := st.events ++ [.handler .str ESLEMIN] }, by simp [failS, handlerS, exec_bind], ?_⟩
    refine Or.inl ⟨⟨rfl, rfl, rfl, rfl, fun a ha => ?_⟩, Or.inr (Or.inl rfl), rfl, by simp, fun h => by omega⟩
    exact St.upd_data_ne _ _ _ _ (by intro h; subst h; exact ha ⟨Nat.le_refl _, by omega⟩)
  · rw [if_neg h26]
    have hk' := (hk (by omega)).conseq (fun r s h => (Or.inr h : (GetsFrame dest dmax st s ∧ TimeViol cfg dest dmax st r s) ∨ Q r s))
    cases db with
    | none =>
      have : ¬ dmax > RSIZE_MAX_STR := by have := hnone rfl; omega
      simp only [this, if_false]
      exact hk'
    | some b =>
      have h1 : ¬ dmax > b := by have := hb b rfl; omega
      have h2 : ¬ b < 26 := by have := hb b rfl; omega
      simp only [h1, h2, if_false]
      exact hk'

/-! ## the two functions -/

/-- outcome of asctime_s / ctime_s on a usable dest: a reported violation with dest cleared, or what `timeTail` leaves -/
def TimePost (cfg : Cfg) (dest dmax text n : Nat) (lf : Bool) (st : St) (r : Nat) (s : St) : Prop :=
  GetsFrame dest dmax st s ∧ (TimeViol cfg dest dmax st r s ∨ TimeTailPost cfg dest dmax text n lf st r s)

theorem viol_of_failClr {cfg : Cfg} {dest dmax code text n : Nat} {lf : Bool} {st : St} (hc : code = ESNULLP ∨ code = ESLEMIN ∨ code = ESLEMAX)
    (r : Nat) (s : St)
    (h : r = code ∧ GetsFrame dest dmax st s ∧ s.events = st.events ++ [.handler .str code] ∧ s.data dest = 0 ∧
      (cfg.slack = true → ∀ i, i < dmax → s.data (dest+i) = 0)) : TimePost cfg dest dmax text n lf st r s := by
  obtain ⟨hr, hf, he, hz, hs⟩ := h
  subst hr
  exact ⟨hf, Or.inl ⟨hc, he, hz, fun _ => hs⟩⟩

/-- **asctime_s, every exit on a usable dest**: `tm` null or 12 readable cells of ANY content -/
theorem asctime_s_runs (cfg : Cfg) (dest dmax tm : Nat) (db : Bos) (text n : Nat) (st : St)
    (hd : dest ≠ 0) (hpos : 0 < dmax) (hb : ∀ b, db = some b → dmax ≤ b) (hnone : db = none → dmax ≤ RSIZE_MAX_STR)
    (hrw : RW st dest dmax) (htm : tm ≠ 0 → ∀ i, i < 12 → st.mapped (tm + i) = true ∧ st.rd (tm + i) = true)
    (htext : TextOk st dest dmax text n) :
    Runs (asctime_s cfg dest dmax tm db text) st (TimePost cfg dest dmax text n false st) := by
  unfold asctime_s
  refine (timeEntry_runs cfg dest dmax db _ st (TimePost cfg dest dmax text n false st) hd hpos hb hnone hrw (fun h26 => ?_)).conseq
    (fun r s h => by
      rcases h with ⟨h1, h2⟩ | h
      · exact ⟨h1, Or.inl h2⟩
      · exact h)
  by_cases htm0 : tm = 0
  · rw [if_pos htm0]
    exact (failClr_runs cfg dest dmax ESNULLP st hrw hpos).conseq (viol_of_failClr (Or.inl rfl))
  rw [if_neg htm0]
  have hrd := htm htm0
  have hfld : ∀ (l : List (Nat × (Int → Bool))), (∀ x, x ∈ l → x.1 < 12) → Runs (anyField tm l) st (fun _ s => s = st) :=
    fun l hl => anyField_runs tm l st (fun x hx => hrd x.1 (hl x hx))
  refine Runs.bind ((hfld _ (by decide)).conseq (fun s1 s hs => ?_))
  subst hs
  refine Runs.bind ((gmtoff_runs tm s1 (fun x => decide (x < -1036800)) s hrd).conseq (fun s2 s' hs => ?_))
  subst hs
  by_cases hs2 : s2 = true
  · rw [if_pos hs2]
    exact (failClr_runs cfg dest dmax ESLEMIN s' hrw hpos).conseq (viol_of_failClr (Or.inr (Or.inl rfl)))
  rw [if_neg hs2]
  refine Runs.bind ((hfld _ (by decide)).conseq (fun b1 s hs => ?_))
  subst hs
  refine Runs.bind ((gmtoff_runs tm b1 (fun x => decide (x > 1036800)) s hrd).conseq (fun b2 s'' hs => ?_))
  subst hs
  by_cases hb2 : b2 = true
  · rw [if_pos hb2]
    exact (failClr_runs cfg dest dmax ESLEMAX s'' hrw hpos).conseq (viol_of_failClr (Or.inr (Or.inr rfl)))
  rw [if_neg hb2]
  exact (timeTail_runs cfg dest dmax db text n false s'' hd h26 hb hnone hrw htext).conseq
    (fun r s ⟨h1, h2⟩ => ⟨h1, Or.inr h2⟩)

/-- **ctime_s, every exit on a usable dest**: `timer` null or one readable cell of ANY content; `lf`: libc gave up -/
theorem ctime_s_runs (cfg : Cfg) (dest dmax timer : Nat) (db : Bos) (text n : Nat) (lf : Bool) (st : St)
    (hd : dest ≠ 0) (hpos : 0 < dmax) (hb : ∀ b, db = some b → dmax ≤ b) (hnone : db = none → dmax ≤ RSIZE_MAX_STR)
    (hrw : RW st dest dmax) (htm : timer ≠ 0 → st.mapped timer = true ∧ st.rd timer = true)
    (htext : TextOk st dest dmax text n) :
    Runs (ctime_s cfg dest dmax timer db text lf) st (TimePost cfg dest dmax text n lf st) := by
  unfold ctime_s
  refine (timeEntry_runs cfg dest dmax db _ st (TimePost cfg dest dmax text n lf st) hd hpos hb hnone hrw (fun h26 => ?_)).conseq
    (fun r s h => by
      rcases h with ⟨h1, h2⟩ | h
      · exact ⟨h1, Or.inl h2⟩
      · exact h)
  by_cases htm0 : timer = 0
  · rw [if_pos htm0]
    exact (failClr_runs cfg dest dmax ESNULLP st hrw hpos).conseq (viol_of_failClr (Or.inl rfl))
  rw [if_neg htm0]
  have hrd := htm htm0
  refine Runs.bind ((Runs.loadP _ hrd.1 hrd.2).conseq (fun t s ⟨_, hs⟩ => ?_))
  subst hs
  dsimp only
  split
  · exact (failClr_runs cfg dest dmax ESLEMIN s hrw hpos).conseq (viol_of_failClr (Or.inr (Or.inl rfl)))
  refine Runs.bind ((Runs.loadP _ hrd.1 hrd.2).conseq (fun t2 s' ⟨_, hs⟩ => ?_))
  subst hs
  split
  · exact (failClr_runs cfg dest dmax ESLEMAX s' hrw hpos).conseq (viol_of_failClr (Or.inr (Or.inr rfl)))
  · exact (timeTail_runs cfg dest dmax db text n lf s' hd h26 hb hnone hrw htext).conseq
      (fun r s ⟨h1, h2⟩ => ⟨h1, Or.inr h2⟩)

/-! ## concrete states: the excluded point (a text of `dmax` characters) and a non-vacuity example -/

/-- dest = 100 (26 cells holding 7, no NUL), libc's "text" = 26 `A`s at 200 (terminated at 226), a valid `struct tm` at 300
(`tm_mday = 1`, everything else 0), `*timer = 0` at 400; everything mapped and readable, only dest writable -/
def timeWSt : St :=
  { data := fun a => if 100 ≤ a ∧ a < 126 then 7 else if 200 ≤ a ∧ a < 226 then 65 else if a = 303 then 1 else 0
    mapped := fun _ => true, rd := fun _ => true
    wr := fun a => decide (100 ≤ a ∧ a < 126) }

theorem timeWSt_rw : RW timeWSt 100 26 := by
  intro i hi
  refine ⟨rfl, ?_, rfl⟩
  simp only [timeWSt, decide_eq_true_eq]
  omega

/-- the text of the excluded point: 26 characters, readable, away from dest -/
theorem timeWSt_text : TextOk timeWSt 100 26 200 26 := by
  intro _
  refine ⟨⟨fun j hj => ?_, by simp [timeWSt], fun _ _ => ⟨rfl, rfl⟩⟩, Or.inl (by decide), fun h => by omega⟩
  have h1 : ¬ (100 ≤ 200 + j ∧ 200 + j < 126) := by omega
  have h2 : 200 ≤ 200 + j ∧ 200 + j < 226 := by omega
  simp [timeWSt, h1, h2]

/-- state of the non-vacuity examples: dest = 100 (26 cells holding 7), the 3-character text `"AAA"` at 200, a valid
`struct tm` at 300 (`tm_mday = 1`), `*timer = 0` at 400; only these extents are mapped and readable, only dest is writable -/
def osTimeExSt : St :=
  { data := fun a => if 100 ≤ a ∧ a < 126 then 7 else if 200 ≤ a ∧ a < 203 then 65 else if a = 303 then 1 else 0
    mapped := fun a => decide (100 ≤ a ∧ a < 126 ∨ 200 ≤ a ∧ a < 204 ∨ 300 ≤ a ∧ a < 312 ∨ a = 400)
    rd := fun a => decide (100 ≤ a ∧ a < 126 ∨ 200 ≤ a ∧ a < 204 ∨ 300 ≤ a ∧ a < 312 ∨ a = 400)
    wr := fun a => decide (100 ≤ a ∧ a < 126) }

theorem osTimeExSt_rw : RW osTimeExSt 100 26 := by
  intro i hi
  simp only [osTimeExSt, decide_eq_true_eq]
  omega

theorem osTimeExSt_text : TextOk osTimeExSt 100 26 200 3 := by
  intro _
  refine ⟨⟨fun j hj => ?_, by simp [osTimeExSt], fun j hj => ?_⟩, Or.inl (by decide), fun h => by omega⟩
  · have h1 : ¬ (100 ≤ 200 + j ∧ 200 + j < 126) := by omega
    have h2 : 200 ≤ 200 + j ∧ 200 + j < 203 := by omega
    simp [osTimeExSt, h1, h2]
  · simp only [osTimeExSt, decide_eq_true_eq]; omega

theorem osTimeExSt_tm : ∀ i, i < 12 → osTimeExSt.mapped (300 + i) = true ∧ osTimeExSt.rd (300 + i) = true := by
  intro i hi
  simp only [osTimeExSt, decide_eq_true_eq]; omega

theorem osTimeExSt_timer : osTimeExSt.mapped 400 = true ∧ osTimeExSt.rd 400 = true := by
  simp [osTimeExSt]

/-- the excluded point, asctime_s: a valid `tm`, `dmax = 26`, a text of 26 characters: ESNOSPC is reported and dest is left
exactly as it was — no NUL in `dest[0..26)`, `dest[0] ≠ 0` -/
theorem asctime_s_nospc_point :
    ∃ st', exec (asctime_s {} 100 26 300 none 200) timeWSt = .ok (ESNOSPC, st') ∧
      st'.events = [.handler .str ESNOSPC] ∧ st'.data = timeWSt.data := ⟨_, rfl, rfl, rfl⟩

theorem ctime_s_nospc_point :
    ∃ st', exec (ctime_s {} 100 26 400 none 200) timeWSt = .ok (ESNOSPC, st') ∧
      st'.events = [.handler .str ESNOSPC] ∧ st'.data = timeWSt.data := ⟨_, rfl, rfl, rfl⟩

theorem timeWSt_no_nul : ¬ ∃ i, i < 26 ∧ timeWSt.data (100 + i) = 0 := by
  intro ⟨i, hi, h⟩
  have : 100 ≤ 100 + i ∧ 100 + i < 126 := by omega
  simp [timeWSt, this] at h

end SafeC

import SafeC.Proofs.SortSift
/-!
# qsort_s model: what `trinkle` computes (consistent comparator)

`trinkle_spec`: on a forest whose trees are heap-ordered (the first one possibly except for its root) and whose roots, from the
second tree on, ascend, `trinkle` makes every tree heap-ordered and all roots ascending; it touches only `[0, head]`.
-/
namespace SafeC.Sort.Trk
variable {α : Type}

/-! ### `rotF` on a list of distinct positions -/

theorem upd_comm (f : Nat → α) {h x : Nat} (hne : h ≠ x) (v w : α) :
    Cyc.upd (Cyc.upd f h v) x w = Cyc.upd (Cyc.upd f x w) h v := by
  funext i
  simp only [Cyc.upd]
  by_cases h1 : i = x
  · by_cases h2 : i = h
    · exact absurd (h2.symm.trans h1) hne
    · simp only [h1, if_true]
      have : ¬ x = h := fun e => hne e.symm
      simp only [this, if_false]
  · simp only [h1, if_false]

theorem rotF_upd (tmp : α) {h : Nat} (v : α) : ∀ (ar : List Nat) (f : Nat → α), h ∉ ar →
    Cyc.rotF (Cyc.upd f h v) tmp ar = Cyc.upd (Cyc.rotF f tmp ar) h v
  | [], _, _ => rfl
  | [x], f, hn => by
    simp only [Cyc.rotF]
    exact upd_comm f (fun e => hn (by simp [e])) v tmp
  | x :: y :: rest, f, hn => by
    simp only [Cyc.rotF]
    have hy : Cyc.upd f h v y = f y := by
      have : ¬ y = h := fun e => hn (by simp [e])
      simp only [Cyc.upd, this, if_false]
    rw [hy, upd_comm f (fun e => hn (by simp [e])) v (f y)]
    exact rotF_upd tmp v (y :: rest) _ (fun hm => hn (List.mem_cons_of_mem _ hm))

theorem rotF_cons (tmp : α) (f : Nat → α) {h q : Nat} {rest : List Nat} (hn : h ∉ q :: rest) :
    Cyc.rotF f tmp (h :: q :: rest) = Cyc.upd (Cyc.rotF f tmp (q :: rest)) h (f q) := by
  show Cyc.rotF (Cyc.upd f h (f q)) tmp (q :: rest) = _
  exact rotF_upd tmp (f q) (q :: rest) f hn

theorem rotF_notin (tmp : α) : ∀ (ar : List Nat) (f : Nat → α) (j : Nat), j ∉ ar → Cyc.rotF f tmp ar j = f j
  | [], _, _, _ => rfl
  | [x], f, j, hn => by
    have : ¬ j = x := fun e => hn (by simp [e])
    simp only [Cyc.rotF, Cyc.upd, this, if_false]
  | x :: y :: rest, f, j, hn => by
    simp only [Cyc.rotF]
    rw [rotF_notin tmp (y :: rest) _ j (fun hm => hn (List.mem_cons_of_mem _ hm))]
    have : ¬ j = x := fun e => hn (by simp [e])
    simp only [Cyc.upd, this, if_false]

theorem rotF_val (tmp : α) : ∀ (ar : List Nat) (f : Nat → α) (j : Nat),
    Cyc.rotF f tmp ar j = f j ∨ Cyc.rotF f tmp ar j = tmp ∨ ∃ y ∈ ar, Cyc.rotF f tmp ar j = f y
  | [], _, _ => Or.inl rfl
  | [x], f, j => by
    by_cases h : j = x
    · exact Or.inr (Or.inl (by simp only [Cyc.rotF, Cyc.upd, h, if_true]))
    · exact Or.inl (by simp only [Cyc.rotF, Cyc.upd, h, if_false])
  | x :: y :: rest, f, j => by
    simp only [Cyc.rotF]
    rcases rotF_val tmp (y :: rest) (Cyc.upd f x (f y)) j with h | h | ⟨z, hz, h⟩
    · rw [h]
      by_cases hj : j = x
      · right; right; exact ⟨y, by simp, by simp only [Cyc.upd, hj, if_true]⟩
      · left; simp only [Cyc.upd, hj, if_false]
    · exact Or.inr (Or.inl h)
    · rw [h]
      right; right
      by_cases hzx : z = x
      · exact ⟨y, by simp, by simp only [Cyc.upd, hzx, if_true]⟩
      · exact ⟨z, List.mem_cons_of_mem _ hz, by simp only [Cyc.upd, hzx, if_false]⟩

theorem rot_eq_rotF (g : Nat → α) {x : α} {head : Nat} (hx : g head = x) (Q : List Nat) :
    rot g (head :: Q) = Cyc.rotF g x (head :: Q) := by
  cases Q with
  | nil =>
    funext j
    simp only [rot, Cyc.rotF, Cyc.upd]
    by_cases h : j = head
    · simp only [h, if_true]; exact hx
    · simp only [h, if_false]
  | cons q Q => rw [← hx]; rfl

theorem rot_notin (g : Nat → α) (ar : List Nat) (j : Nat) (hn : j ∉ ar) : rot g ar j = g j := by
  match ar, hn with
  | [], _ => rfl
  | [_], _ => rfl
  | x :: y :: rest, hn => exact rotF_notin (g x) (x :: y :: rest) g j hn

theorem rot_val (g : Nat → α) (ar : List Nat) (j : Nat) : rot g ar j = g j ∨ ∃ y ∈ ar, rot g ar j = g y := by
  match ar with
  | [] => exact Or.inl rfl
  | [_] => exact Or.inl rfl
  | x :: y :: rest =>
    rcases rotF_val (g x) (x :: y :: rest) g j with h | h | h
    · exact Or.inl h
    · exact Or.inr ⟨x, by simp, h⟩
    · exact Or.inr h


/-! ### the walk over the stepsons, as recorded facts -/

/-- why the loop stopped at the tree of order `o0` rooted at `head` (first tree of `os`) -/
def StopCond (le : α → α → Prop) (g : Nat → α) (x : α) : List Nat → Nat → Prop
  | [], _ => False
  | [_], _ => True
  | o0 :: _ :: _, head => leo o0 ≤ head ∧ (le (g (head - leo o0)) x ∨
      ∃ k, o0 = k + 2 ∧ (le (g (head - leo o0)) (g (head - 1)) ∨ le (g (head - leo o0)) (g (head - 1 - leo k))))

/-- the stepsons `Q` taken from the forest `os` rooted at `head`, with what each step and the stop established -/
def Steps (le : α → α → Prop) (g : Nat → α) (x : α) : List Nat → Nat → List Nat → Prop
  | os, head, [] => StopCond le g x os head
  | os, head, q :: Q =>
    match os with
    | o0 :: o1 :: rest => q = head - leo o0 ∧ leo o0 ≤ head ∧ ¬ le (g q) x ∧
        (∀ k, o0 = k + 2 → le (g (head - 1)) (g q) ∧ le (g (head - 1 - leo k)) (g q)) ∧ Steps le g x (o1 :: rest) q Q
    | _ => False

/-- order and root of the tree the walk ends in -/
def lastTree : List Nat → Nat → List Nat → Nat × Nat
  | os, head, [] => (os.headD 0, head)
  | os, _, q :: Q => lastTree os.tail q Q

theorem steps_facts {le : α → α → Prop} {g : Nat → α} {x : α} : ∀ (Q os : List Nat) (head : Nat), Steps le g x os head Q →
    (lastTree os head Q).2 ≤ head ∧ (∀ y ∈ Q, (lastTree os head Q).2 ≤ y ∧ y < head) ∧ Q.length + 1 ≤ os.length
  | [], os, head, h => by
    refine ⟨Nat.le_refl _, by simp, ?_⟩
    cases os with
    | nil => exact False.elim h
    | cons _ _ => simp
  | q :: Q, os, head, h => by
    match os, h with
    | o0 :: o1 :: rest, h =>
      obtain ⟨hq, hle, _, _, hS⟩ := h
      obtain ⟨h1, h2, h3⟩ := steps_facts Q (o1 :: rest) q hS
      have := leo_pos o0
      show (lastTree (o1 :: rest) q Q).2 ≤ head ∧ (∀ y ∈ q :: Q, (lastTree (o1 :: rest) q Q).2 ≤ y ∧ y < head) ∧ _
      refine ⟨by omega, ?_, by simp at h3 ⊢; omega⟩
      intro y hy
      rcases List.mem_cons.mp hy with rfl | hy
      · omega
      · have := h2 y hy; omega
    | [], h => exact False.elim h
    | [_], h => exact False.elim h

/-- the last tree has heap-ordered subtrees -/
theorem last_sub {le : α → α → Prop} {g : Nat → α} {x : α} : ∀ (Q : List Nat) (o0 : Nat) (tl : List Nat) (head : Nat),
    Steps le g x (o0 :: tl) head Q → SubHeaps le g o0 head → Heaps le g tl (head - leo o0) →
    SubHeaps le g (lastTree (o0 :: tl) head Q).1 (lastTree (o0 :: tl) head Q).2
  | [], _, _, _, _, hsub, _ => hsub
  | q :: Q, o0, tl, head, h, _, hH => by
    match tl, h, hH with
    | o1 :: rest, h, hH =>
      obtain ⟨hq, _, _, _, hS⟩ := h
      subst hq
      exact last_sub Q o1 rest _ hS (Heap.of_sub hH.1) hH.2
    | [], h, _ => exact False.elim h

theorem Roots_tail {le : α → α → Prop} {g : Nat → α} : ∀ {os : List Nat} {o r : Nat}, Roots le g (o :: os) r →
    Roots le g os (r - leo o)
  | [], _, _, _ => trivial
  | _ :: _, _, _, h => h.2

/-- a tree whose subtrees are untouched and whose new root dominates both children -/
theorem heap_first {le : α → α → Prop} {g gf : Nat → α} {o0 head : Nat} {v : α} (hsub : SubHeaps le g o0 head)
    (hle : leo o0 ≤ head) (hmid : ∀ j, head - leo o0 < j → j < head → gf j = g j)
    (hch : ∀ k, o0 = k + 2 → le (g (head - 1)) v ∧ le (g (head - 1 - leo k)) v) (hv : gf head = v) : Heap le gf o0 head := by
  match o0, hsub, hle, hmid, hch with
  | 0, _, _, _, _ => trivial
  | 1, _, _, _, _ => trivial
  | k + 2, hsub, hle, hmid, hch =>
    have h1 := leo_succ_succ k
    have h2 := leo_pos k
    have h3 := leo_pos (k + 1)
    obtain ⟨c1, c2⟩ := hch k rfl
    refine ⟨?_, ?_, Heap.congr_tree (by omega) (fun j hj => hmid j ?_ ?_) hsub.1,
      Heap.congr_tree (by omega) (fun j hj => hmid j ?_ ?_) hsub.2⟩
    · rw [hmid _ (by omega) (by omega), hv]; exact c1
    · rw [hmid _ (by omega) (by omega), hv]; exact c2
    · unfold InTree at hj; omega
    · unfold InTree at hj; omega
    · unfold InTree at hj; omega
    · unfold InTree at hj; omega

/-- the tree the walk stopped in, after `sift`: the whole forest from there on is heap-ordered with ascending roots -/
theorem lastL {le : α → α → Prop} {g gc gf : Nat → α} {x : α}
    {o0 : Nat} {tl : List Nat} {head : Nat} (hst : StopCond le g x (o0 :: tl) head)
    (hH : Heaps le g tl (head - leo o0)) (hR : Roots le g tl (head - leo o0))
    (hlt : ∀ j, j < head → gc j = g j) (hx : gc head = x) (heap : Heap le gf o0 head)
    (out : ∀ j, j ≤ head → ¬ InTree o0 head j → gf j = gc j)
    (dom : ∀ y j, InTree o0 head j → le y (gc j) → le y (gf head)) :
    Heaps le gf (o0 :: tl) head ∧ Roots le gf (o0 :: tl) head := by
  have p0 := leo_pos o0
  match tl, hst, hH, hR with
  | [], _, _, _ => exact ⟨⟨heap, trivial⟩, trivial⟩
  | o1 :: rest, hst, hH, hR =>
    obtain ⟨hle, hstop⟩ := hst
    have hlow : ∀ j, j ≤ head - leo o0 → gf j = g j := by
      intro j hj
      rw [out j (by omega) (by unfold InTree; omega), hlt j (by omega)]
    refine ⟨⟨heap, Heaps.congr_le hlow hH⟩, ?_, Roots.congr_le hlow hR⟩
    rw [hlow _ (Nat.le_refl _)]
    rcases hstop with h | ⟨k, rfl, h⟩
    · exact dom _ head (by unfold InTree; omega) (by rw [hx]; exact h)
    · have h1 := leo_succ_succ k
      have h2 := leo_pos k
      have h3 := leo_pos (k + 1)
      rcases h with h | h
      · exact dom _ (head - 1) (by unfold InTree; omega) (by rw [hlt _ (by omega)]; exact h)
      · exact dom _ (head - 1 - leo k) (by unfold InTree; omega) (by rw [hlt _ (by omega)]; exact h)

/-- MAIN pure lemma: `gc` = the array after the rotation along `head :: Q`, `gf` = after the `sift` in the last tree -/
theorem tailL {cmp : Nat → Nat → Nat → α → α → Int} {le : α → α → Prop} (hc : Consistent cmp le) (g gc gf : Nat → α) (x : α)
    (om rm : Nat) (heap : Heap le gf om rm)
    (perm : ∀ j, InTree om rm j → ∃ j', InTree om rm j' ∧ gf j = gc j')
    (dom : ∀ y j, InTree om rm j → le y (gc j) → le y (gf rm)) :
    ∀ (Q : List Nat) (o0 : Nat) (tl : List Nat) (head : Nat), Steps le g x (o0 :: tl) head Q →
    ((o0 :: tl).map leo).sum ≤ head + 1 → SubHeaps le g o0 head → Heaps le g tl (head - leo o0) →
    Roots le g tl (head - leo o0) → lastTree (o0 :: tl) head Q = (om, rm) →
    (∀ j, j ≤ head → gc j = Cyc.rotF g x (head :: Q) j) →
    (∀ j, j ≤ head → ¬ InTree om rm j → gf j = gc j) →
    Heaps le gf (o0 :: tl) head ∧ Roots le gf (o0 :: tl) head ∧
      (Heap le g o0 head → le x (g head) → Roots le g (o0 :: tl) head → le (gf head) (g head))
  | [], o0, tl, head, hS, hsum, hsub, hH, hR, hlast, hagree, out => by
    have p0 := leo_pos o0
    have hom : o0 = om := congrArg Prod.fst hlast
    have hrm : head = rm := congrArg Prod.snd hlast
    subst hom; subst hrm
    have hlt : ∀ j, j < head → gc j = g j := by
      intro j hj
      rw [hagree j (by omega)]
      have : ¬ j = head := by omega
      simp only [Cyc.rotF, Cyc.upd, this, if_false]
    have hx : gc head = x := by
      rw [hagree head (Nat.le_refl _)]
      simp only [Cyc.rotF, Cyc.upd, if_true]
    obtain ⟨r1, r2⟩ := lastL hS hH hR hlt hx heap out dom
    refine ⟨r1, r2, fun hHp hxle _ => ?_⟩
    obtain ⟨j', hj', e⟩ := perm head (by unfold InTree; omega)
    rw [e]
    by_cases hjh : j' = head
    · rw [hjh, hx]; exact hxle
    · rw [hlt j' (by unfold InTree at hj'; omega)]
      simp only [List.map_cons, List.sum_cons] at hsum
      exact Heap.root_max hc.refl hc.trans (by omega) hHp hj'
  | q :: Q, o0, tl, head, hS, hsum, hsub, hH, hR, hlast, hagree, out => by
    match tl, hS, hsum, hH, hR, hlast with
    | [], hS, _, _, _, _ => exact False.elim hS
    | o1 :: rest, hS, hsum, hH, hR, hlast =>
      obtain ⟨hq, hle, hnle, hch, hS'⟩ := hS
      subst hq
      have p0 := leo_pos o0
      simp only [List.map_cons, List.sum_cons] at hsum
      obtain ⟨f1, f2, _⟩ := steps_facts Q (o1 :: rest) _ hS'
      have hlast' : lastTree (o1 :: rest) (head - leo o0) Q = (om, rm) := hlast
      rw [hlast'] at f1 f2
      simp only at f1 f2
      have hnot : head ∉ (head - leo o0) :: Q := by
        intro hm
        rcases List.mem_cons.mp hm with h | h
        · omega
        · have := f2 _ h; omega
      have hxq : le x (g (head - leo o0)) := by
        rcases hc.total x (g (head - leo o0)) with h | h
        · exact h
        · exact absurd h hnle
      have hagree' : ∀ j, j ≤ head - leo o0 → gc j = Cyc.rotF g x ((head - leo o0) :: Q) j := by
        intro j hj
        rw [hagree j (by omega), rotF_cons x g hnot]
        have : ¬ j = head := by omega
        simp only [Cyc.upd, this, if_false]
      obtain ⟨r1, r2, r3⟩ := tailL hc g gc gf x om rm heap perm dom Q o1 rest (head - leo o0) hS'
        (by simp only [List.map_cons, List.sum_cons]; omega) (Heap.of_sub hH.1) hH.2 (Roots_tail hR) hlast' hagree'
        (fun j hj => out j (by omega))
      have hhead : gf head = g (head - leo o0) := by
        rw [out head (Nat.le_refl _) (by unfold InTree; omega), hagree head (Nat.le_refl _), rotF_cons x g hnot]
        simp only [Cyc.upd, if_true]
      have hmid : ∀ j, head - leo o0 < j → j < head → gf j = g j := by
        intro j h1 h2
        rw [out j (by omega) (by unfold InTree; omega), hagree j (by omega)]
        apply rotF_notin
        intro hm
        rcases List.mem_cons.mp hm with h | h
        · omega
        · rcases List.mem_cons.mp h with h | h
          · omega
          · have := f2 _ h; omega
      refine ⟨⟨heap_first hsub hle hmid hch hhead, r1⟩, ⟨?_, r2⟩, fun _ _ hRg => ?_⟩
      · rw [hhead]; exact r3 hH.1 hxq hR
      · rw [hhead]; exact hRg.1

/-- all of it, for the forest `trinkle` is called on -/
theorem assemble {cmp : Nat → Nat → Nat → α → α → Int} {le : α → α → Prop} (hc : Consistent cmp le) (g gf : Nat → α) {x : α}
    {o0 : Nat} {tl : List Nat} {head : Nat} {Q : List Nat} {om rm : Nat} (hx : g head = x)
    (hS : Steps le g x (o0 :: tl) head Q) (hsum : ((o0 :: tl).map leo).sum ≤ head + 1) (hsub : SubHeaps le g o0 head)
    (hH : Heaps le g tl (head - leo o0)) (hR : Roots le g tl (head - leo o0))
    (hlast : lastTree (o0 :: tl) head Q = (om, rm)) (heap : Heap le gf om rm)
    (out : ∀ j, ¬ InTree om rm j → gf j = rot g (head :: Q) j)
    (perm : ∀ j, InTree om rm j → ∃ j', InTree om rm j' ∧ gf j = rot g (head :: Q) j')
    (dom : ∀ y j, InTree om rm j → le y (rot g (head :: Q) j) → le y (gf rm)) :
    Heaps le gf (o0 :: tl) head ∧ Roots le gf (o0 :: tl) head ∧ (∀ j, head < j → gf j = g j) ∧
      (∀ j, j ≤ head → ∃ j', j' ≤ head ∧ gf j = g j') := by
  obtain ⟨r1, r2, _⟩ := tailL hc g (rot g (head :: Q)) gf x om rm heap perm dom Q o0 tl head hS hsum hsub hH hR hlast
    (fun j _ => by rw [rot_eq_rotF g hx]) (fun j _ => out j)
  obtain ⟨f1, f2, _⟩ := steps_facts Q _ _ hS
  rw [hlast] at f1 f2
  simp only at f1 f2
  have hval : ∀ j, j ≤ head → ∃ j', j' ≤ head ∧ rot g (head :: Q) j = g j' := by
    intro j hj
    rcases rot_val g (head :: Q) j with h | ⟨y, hy, h⟩
    · exact ⟨j, hj, h⟩
    · refine ⟨y, ?_, h⟩
      rcases List.mem_cons.mp hy with h' | h'
      · omega
      · have := f2 _ h'; omega
  refine ⟨r1, r2, fun j hj => ?_, fun j hj => ?_⟩
  · rw [out j (by unfold InTree; omega)]
    apply rot_notin
    intro hm
    rcases List.mem_cons.mp hm with h | h
    · omega
    · have := f2 _ h; omega
  · by_cases hin : InTree om rm j
    · obtain ⟨j', hj', e⟩ := perm j hin
      rw [e]
      exact hval j' (by unfold InTree at hj'; omega)
    · rw [out j hin]
      exact hval j hj

/-- the rotation leaves the subtrees of the last tree alone -/
theorem sub_after_rot {le : α → α → Prop} {g : Nat → α} {x : α} {o0 : Nat} {tl : List Nat} {head : Nat} {Q : List Nat}
    {om rm : Nat} (hS : Steps le g x (o0 :: tl) head Q) (hsub : SubHeaps le g o0 head) (hH : Heaps le g tl (head - leo o0))
    (hlast : lastTree (o0 :: tl) head Q = (om, rm)) (hfit : leo om ≤ rm + 1) : SubHeaps le (rot g (head :: Q)) om rm := by
  have h := last_sub Q o0 tl head hS hsub hH
  obtain ⟨f1, f2, _⟩ := steps_facts Q _ _ hS
  rw [hlast] at h f1 f2
  simp only at h f1 f2
  refine SubHeaps.congr_lt hfit (fun j hj => ?_) h
  apply rot_notin
  intro hm
  rcases List.mem_cons.mp hm with h' | h'
  · omega
  · have := f2 _ h'; omega

/-! ### the loop -/

theorem g_congr [Inhabited α] {s s0 : St α} (h : s.a = s0.a) : s.g = s0.g := by
  show (fun i => s.a[i]!) = (fun i => s0.a[i]!)
  rw [h]

/-- one round: either a stop fact, or the step to the stepson with what the comparisons established -/
theorem iter_spec [Inhabited α] (e : Env α) {le : α → α → Prop} (hc : Consistent e.cmp le) {n K : Nat} (hlp : LpOk e.lp K)
    (s0 s : St α) (ar0 head pshift : Nat) (trusty : Bool) (hs0 : s0.a.size = n) (hs : s.a = s0.a) (h0 : ar0 < n) (hh : head < n)
    (hpK : pshift ≤ K) (hl : leo pshift ≤ head) :
    Tot (trinkleIter e s ar0 head pshift trusty) (fun r => r.1.a = s0.a ∧
      ((r.2 = none ∧ (le (s0.g (head - leo pshift)) (s0.g ar0) ∨ ∃ k, pshift = k + 2 ∧
          (le (s0.g (head - leo pshift)) (s0.g (head - 1)) ∨ le (s0.g (head - leo pshift)) (s0.g (head - 1 - leo k))))) ∨
       (r.2 = some (head - leo pshift) ∧ ¬ le (s0.g (head - leo pshift)) (s0.g ar0) ∧
          (trusty = false → ∀ k, pshift = k + 2 →
            le (s0.g (head - 1)) (s0.g (head - leo pshift)) ∧ le (s0.g (head - 1 - leo k)) (s0.g (head - leo pshift)))))) := by
  unfold trinkleIter
  refine Tot.bind _ (lpAt_tot hlp hpK) (fun l hl1 => ?_)
  subst hl1
  refine Tot.bind _ (sub_tot hl) (fun st hst => ?_)
  subst hst
  have p0 := leo_pos pshift
  have hsz : s.a.size = n := by rw [hs]; exact hs0
  refine Tot.bind _ (cmpAt_val e s (i := head - leo pshift) (j := ar0) (by omega) (by omega)) (fun ⟨c, s1⟩ h1 => ?_)
  obtain ⟨h1a, h1c⟩ := h1
  have h1' : s1.a = s0.a := (show s1.a = s.a from h1a).trans hs
  have hc0 : c = e.cmp s.ncmp (head - leo pshift) ar0 (s0.g (head - leo pshift)) (s0.g ar0) := by
    rw [← g_congr hs]; exact h1c
  refine Tot.ite (fun hle => Tot.ok ⟨h1', Or.inl ⟨rfl, Or.inl ?_⟩⟩) (fun hnle => ?_)
  · rw [hc0] at hle
    exact (hc.nonpos _ _ _ _ _).mp hle
  have hnle' : ¬ le (s0.g (head - leo pshift)) (s0.g ar0) := by
    intro h
    apply hnle
    rw [hc0]
    exact (hc.nonpos _ _ _ _ _).mpr h
  refine Tot.bind (fun r => r.2.a = s0.a ∧
      (r.1 = true → ∃ k, pshift = k + 2 ∧
          (le (s0.g (head - leo pshift)) (s0.g (head - 1)) ∨ le (s0.g (head - leo pshift)) (s0.g (head - 1 - leo k)))) ∧
      (r.1 = false → trusty = false → ∀ k, pshift = k + 2 →
            le (s0.g (head - 1)) (s0.g (head - leo pshift)) ∧ le (s0.g (head - 1 - leo k)) (s0.g (head - leo pshift))))
    ?_ (fun ⟨brk, s2⟩ h2 => ?_)
  · refine Tot.ite (fun hcnd => ?_) (fun hcnd => Tot.pure ⟨h1', (fun h => by cases h), fun _ htr k hk => ?_⟩)
    · obtain ⟨k, rfl⟩ : ∃ k, pshift = k + 2 := ⟨pshift - 2, by omega⟩
      have hleo := leo_succ_succ k
      have q0 := leo_pos k
      have q1 := leo_pos (k + 1)
      refine Tot.bind _ (sub_tot (by omega)) (fun rt hrt => ?_)
      subst hrt
      refine Tot.bind _ (lpAt_tot hlp (by omega : k + 2 - 2 ≤ K)) (fun l2 hl2 => ?_)
      have hl2' : l2 = leo k := by simpa using hl2
      subst hl2'
      refine Tot.bind _ (sub_tot (by omega)) (fun lf hlf => ?_)
      subst hlf
      refine Tot.bind _ (cmpAt_val e s1 (i := head - 1) (j := head - leo (k + 2)) (by rw [h1']; omega) (by rw [h1']; omega))
        (fun ⟨c1, s'⟩ h' => ?_)
      obtain ⟨h'a, h'c⟩ := h'
      have h'' : s'.a = s0.a := (show s'.a = s1.a from h'a).trans h1'
      have hc1 : c1 = e.cmp s1.ncmp (head - 1) (head - leo (k + 2)) (s0.g (head - 1)) (s0.g (head - leo (k + 2))) := by
        rw [← g_congr h1']; exact h'c
      refine Tot.ite (fun hge => Tot.pure ⟨h'', fun _ => ⟨k, rfl, Or.inl ?_⟩, (fun h => by cases h)⟩) (fun hnge => ?_)
      · rw [hc1] at hge
        exact (hc.nonneg _ _ _ _ _).mp hge
      have hrt : le (s0.g (head - 1)) (s0.g (head - leo (k + 2))) := by
        rcases hc.total (s0.g (head - 1)) (s0.g (head - leo (k + 2))) with h | h
        · exact h
        · exfalso; apply hnge; rw [hc1]; exact (hc.nonneg _ _ _ _ _).mpr h
      refine Tot.bind _ (cmpAt_val e s' (i := head - 1 - leo k) (j := head - leo (k + 2)) (by rw [h'']; omega) (by rw [h'']; omega))
        (fun ⟨c2, s''⟩ h3 => ?_)
      obtain ⟨h3a, h3c⟩ := h3
      have hc2 : c2 = e.cmp s'.ncmp (head - 1 - leo k) (head - leo (k + 2)) (s0.g (head - 1 - leo k)) (s0.g (head - leo (k + 2))) := by
        rw [← g_congr h'']; exact h3c
      refine Tot.pure ⟨(show s''.a = s'.a from h3a).trans h'', fun hd => ⟨k, rfl, Or.inr ?_⟩, fun hd _ k' hk' => ?_⟩
      · have hge : c2 ≥ 0 := of_decide_eq_true hd
        rw [hc2] at hge
        exact (hc.nonneg _ _ _ _ _).mp hge
      · have hk : k' = k := by omega
        subst hk
        have hnge : ¬ c2 ≥ 0 := of_decide_eq_false hd
        refine ⟨hrt, ?_⟩
        rcases hc.total (s0.g (head - 1 - leo k')) (s0.g (head - leo (k' + 2))) with h | h
        · exact h
        · exfalso; apply hnge; rw [hc2]; exact (hc.nonneg _ _ _ _ _).mpr h
    · exfalso
      apply hcnd
      subst hk
      exact ⟨by rw [htr]; rfl, by omega⟩
  · obtain ⟨h2a, h2t, h2f⟩ := h2
    have h2' : s2.a = s0.a := h2a
    refine Tot.ite (fun hb => Tot.ok ⟨h2', Or.inl ⟨rfl, Or.inr (h2t hb)⟩⟩) (fun hb => Tot.ok ⟨h2', Or.inr ⟨rfl, hnle', h2f ?_⟩⟩)
    cases brk with
    | true => exact absurd rfl hb
    | false => rfl

/-- the loop: the array is not written, `acc` grows by the stepsons `Q` taken, and `Steps` records what was learnt -/
theorem loop_spec [Inhabited α] (e : Env α) {le : α → α → Prop} (hc : Consistent e.cmp le) {n K G : Nat} (C : Ctx e n K G)
    (s0 : St α) (hs0 : s0.a.size = n) (ar0 : Nat) (h0 : ar0 < n) :
    ∀ (room : Nat) (os : List Nat) (s : St α) (head : Nat) (p : PV) (pshift : Nat) (trusty : Bool) (acc : List Nat),
    s.a = s0.a → head < n → Forest os p pshift head → os.length ≤ room + 1 →
    (trusty = true → ∀ k, pshift = k + 2 → le (s0.g (head - 1)) (s0.g ar0) ∧ le (s0.g (head - 1 - leo k)) (s0.g ar0)) →
    Tot (trinkleLoop e room s ar0 head p pshift trusty acc) (fun r =>
      r.1.a = s0.a ∧ r.2.1 < n ∧ leo r.2.2.1 ≤ r.2.1 + 1 ∧ r.2.2.1 ≤ K ∧
      ∃ Q, r.2.2.2.2 = Q.reverse ++ acc ∧ Steps le s0.g (s0.g ar0) os head Q ∧ lastTree os head Q = (r.2.2.1, r.2.1) ∧
        (r.2.2.2.1 = true → Q = [] ∧ trusty = true)) := by
  intro room
  induction room with
  | zero =>
    intro os s head p pshift trusty acc hs hh hF hlen htr
    obtain ⟨tl, rfl⟩ := Shape.cons_of hF
    have : tl = [] := by
      cases tl with
      | nil => rfl
      | cons _ _ => simp at hlen
    subst this
    unfold trinkleLoop
    simp only [hF.single, if_true]
    exact Tot.ok ⟨hs, hh, hF.fits, hF.le_K C hh (by simp), [], rfl, trivial, rfl, fun h => ⟨rfl, h⟩⟩
  | succ room ih =>
    intro os s head p pshift trusty acc hs hh hF hlen htr
    obtain ⟨tl, rfl⟩ := Shape.cons_of hF
    unfold trinkleLoop
    cases tl with
    | nil =>
      simp only [hF.single, if_true]
      exact Tot.ok ⟨hs, hh, hF.fits, hF.le_K C hh (by simp), [], rfl, trivial, rfl, fun h => ⟨rfl, h⟩⟩
    | cons o1 rest =>
      obtain ⟨hlt, hne, hpn, hle, ho1, hF'⟩ := hF.next C hh
      simp only [hne, if_false]
      refine Tot.bind _ (iter_spec e hc C.lp s0 s ar0 head pshift trusty hs0 hs h0 hh (hF.le_K C hh (by simp)) hle)
        (fun ⟨s1, step⟩ h1 => ?_)
      obtain ⟨hs1, hstep⟩ := h1
      rcases hstep with ⟨hstep, hstop⟩ | ⟨hstep, hnle, hch⟩
      · have : step = none := hstep
        subst this
        exact Tot.ok ⟨hs1, hh, hF.fits, hF.le_K C hh (by simp), [], rfl, ⟨hle, hstop⟩, rfl, fun h => ⟨rfl, h⟩⟩
      · have : step = some (head - leo pshift) := hstep
        subst this
        show Tot (trinkleLoop e room s1 ar0 (head - leo pshift) (shr p (pntz e.fx p)) (pshift + pntz e.fx p) false
          ((head - leo pshift) :: acc)) _
        rw [hpn]
        have e1 : pshift + (o1 - pshift) = o1 := by omega
        rw [e1]
        have hxq : le (s0.g ar0) (s0.g (head - leo pshift)) := by
          rcases hc.total (s0.g ar0) (s0.g (head - leo pshift)) with h | h
          · exact h
          · exact absurd h hnle
        have hch' : ∀ k, pshift = k + 2 → le (s0.g (head - 1)) (s0.g (head - leo pshift)) ∧
            le (s0.g (head - 1 - leo k)) (s0.g (head - leo pshift)) := by
          cases htrv : trusty with
          | false => exact hch htrv
          | true =>
            intro k hk
            obtain ⟨c1, c2⟩ := htr htrv k hk
            exact ⟨hc.trans c1 hxq, hc.trans c2 hxq⟩
        have p0 := leo_pos pshift
        obtain ⟨r, hr, q1, q2, q3, q4, Q, q5, q6, q7, q8⟩ := ih (o1 :: rest) s1 (head - leo pshift) (shr p (o1 - pshift)) o1 false
          ((head - leo pshift) :: acc) hs1 (by omega) hF' (by simp at hlen ⊢; omega) (fun h => by cases h)
        refine ⟨r, hr, q1, q2, q3, q4, (head - leo pshift) :: Q, by rw [q5]; simp, ⟨rfl, hle, hnle, hch', q6⟩, q7, fun h => ?_⟩
        have := (q8 h).2
        cases this

end SafeC.Sort.Trk

namespace SafeC.Sort
variable {α : Type}

theorem trinkle_spec [Inhabited α] (e : Env α) {le : α → α → Prop} (hc : Consistent e.cmp le) {n K G : Nat} (C : Ctx e n K G)
    (s : St α) (os : List Nat) (head : Nat) (p : PV) (pshift : Nat) (trusty : Bool) (hs : s.a.size = n) (hh : head < n)
    (hF : Forest os p pshift head)
    (hfirst : if trusty then Heap le s.g pshift head else SubHeaps le s.g pshift head)
    (hrest : Heaps le s.g os.tail (head - leo pshift)) (hroots : Roots le s.g os.tail (head - leo pshift)) :
    Tot (trinkle e s head p pshift trusty) (fun r => r.a.size = n ∧ Heaps le r.g os head ∧ Roots le r.g os head ∧
      (∀ j, head < j → r.g j = s.g j) ∧ (∀ j, j ≤ head → ∃ j', j' ≤ head ∧ r.g j = s.g j')) := by
  unfold trinkle
  have hK95 := C.K95
  have hlen := hF.length_le C hh
  obtain ⟨tl, rfl⟩ := Shape.cons_of hF
  simp only [List.tail_cons] at hrest hroots
  have hsub : SubHeaps le s.g pshift head := by
    cases trusty with
    | true => exact Heap.of_sub hfirst
    | false => exact hfirst
  have hsum : ((pshift :: tl).map leo).sum ≤ head + 1 := Nat.le_of_eq hF.sum
  have htr : trusty = true → ∀ k, pshift = k + 2 → le (s.g (head - 1)) (s.g head) ∧ le (s.g (head - 1 - leo k)) (s.g head) := by
    intro ht k hk
    subst ht; subst hk
    exact ⟨hfirst.1, hfirst.2.1⟩
  refine Tot.bind _ (Trk.loop_spec e hc C s hs head hh 112 _ s head p pshift trusty [head] rfl hh hF (by omega) htr)
    (fun ⟨s1, hd1, ps1, tr1, acc1⟩ h1 => ?_)
  obtain ⟨q1, q2, q3, q4, Q, q5, q6, q7, q8⟩ := h1
  simp only at q1 q2 q3 q4 q5 q6 q7 q8
  have hg1 : s1.g = s.g := Trk.g_congr q1
  obtain ⟨f1, f2, f3⟩ := Trk.steps_facts Q _ _ q6
  rw [q7] at f1 f2
  simp only at f1 f2
  cases tr1 with
  | true =>
    obtain ⟨hQ, htt⟩ := q8 rfl
    subst hQ; subst htt
    have hom : pshift = ps1 := congrArg Prod.fst q7
    have hrm : head = hd1 := congrArg Prod.snd q7
    subst hom; subst hrm
    have hheap : Heap le s.g pshift head := hfirst
    refine Tot.pure ⟨by rw [q1]; exact hs, ?_⟩
    rw [hg1]
    exact Trk.assemble hc s.g s.g rfl q6 hsum hsub hrest hroots q7 hheap (fun _ _ => rfl) (fun j hj => ⟨j, hj, rfl⟩)
      (fun y j hj hy => hc.trans hy (Heap.root_max hc.refl hc.trans q3 hheap hj))
  | false =>
    have hrev : acc1.reverse = head :: Q := by rw [q5]; simp
    have hs1 : s1.a.size = n := by rw [q1]; exact hs
    refine Tot.bind _ (cycle_fn s1 acc1.reverse (by
        rw [hrev, hs1]
        intro y hy
        rcases List.mem_cons.mp hy with h | h
        · omega
        · have := f2 _ h; omega) (by rw [hrev]; simp at f3 hlen ⊢; omega)) (fun s2 h2 => ?_)
    obtain ⟨h2s, h2g⟩ := h2
    rw [hrev, hg1] at h2g
    have hsub2 : SubHeaps le s2.g ps1 hd1 := by
      rw [h2g]
      exact Trk.sub_after_rot q6 hsub hrest q7 q3
    refine (sift_spec e hc C.lp hK95 s2 hd1 ps1 (by rw [h2s]; exact hs1) q2 q3 q4 hsub2).imp ?_
    intro r ⟨hr, r1, r2, r3, r4, r5⟩
    rw [h2g] at r3 r4 r5
    exact ⟨hr, r1, Trk.assemble hc s.g r.g rfl q6 hsum hsub hrest hroots q7 r2 r3 r4 r5⟩

end SafeC.Sort

import SafeC.Models.Fold
/-!
# C17 — `towfc_s` writes as many cells as `iswfc` announces (`fold_cells`), and where `iswfc = 0` means "unchanged"
-/
namespace SafeC.Fold
open SafeC.Gen SafeC.Norm

/-! ## bounded iteration for `decide +kernel` -/

def allBelow (f : Nat → Bool) : Nat → Bool
  | 0 => true
  | n + 1 => f n && allBelow f n

theorem allBelow_spec (f : Nat → Bool) (n : Nat) : allBelow f n = true ↔ ∀ i, i < n → f i = true := by
  induction n with
  | zero => simp [allBelow]
  | succ n ih =>
    simp only [allBelow, Bool.and_eq_true, ih]
    constructor
    · rintro ⟨h0, h1⟩ i hi
      rcases Nat.lt_succ_iff_lt_or_eq.mp hi with h | h
      · exact h1 i h
      · exact h ▸ h0
    · intro h
      exact ⟨h n (Nat.lt_succ_self n), fun i hi => h i (Nat.lt_succ_of_lt hi)⟩

/-- closed range form: `f` holds on `[lo, hi]` -/
theorem allBelow_range {f : Nat → Bool} {lo hi : Nat} (h : allBelow (fun i => f (lo + i)) (hi - lo + 1) = true)
    {c : Nat} (h1 : lo ≤ c) (h2 : c ≤ hi) : f c = true := by
  have := (allBelow_spec _ _).mp h (c - lo) (by omega)
  simpa [Nat.add_sub_cancel' h1] using this

/-! ## `scanTbl` -/

theorem scanTbl_none (src : Nat) (l : List (Nat × List Nat)) (h : ∀ e ∈ l, e.1 ≠ src) : scanTbl src l = none := by
  induction l with
  | nil => rfl
  | cons e rest ih =>
    obtain ⟨up, x⟩ := e
    have h0 : up ≠ src := h (up, x) (by simp)
    simp only [scanTbl, h0, if_false]
    split
    · rfl
    · exact ih fun e he => h e (by simp [he])

theorem scanTbl_mem (src : Nat) (l : List (Nat × List Nat)) (x : List Nat) (h : scanTbl src l = some x) : (src, x) ∈ l := by
  induction l with
  | nil => simp [scanTbl] at h
  | cons e rest ih =>
    obtain ⟨up, y⟩ := e
    simp only [scanTbl] at h
    split at h
    · next hu => simp_all
    · split at h
      · simp at h
      · simp [ih h]

/-! ## the three windows of `iswfc` -/

def inWin (c : Nat) : Bool := (0xdf ≤ c && c ≤ 0x587) || (0x1e96 ≤ c && c ≤ 0x1ffc) || (0xfb00 ≤ c && c ≤ 0xfb17)

theorem inWin_false_iff (c : Nat) :
    inWin c = false ↔ (c < 0xdf ∨ (c > 0x0587 ∧ c < 0x1e96) ∨ (c > 0x1FFC ∧ c < 0xFB00) ∨ c > 0xFB17) := by
  simp only [inWin, Bool.or_eq_false_iff, Bool.and_eq_false_iff, decide_eq_false_iff_not]
  omega

theorem iswfc_outside (c : Nat) (h : inWin c = false) :
    iswfc c = if c = 0x1cbb ∨ c = 0x1cbc then 0 else if iswupper c then 1 else 0 := by
  rw [inWin_false_iff] at h
  unfold iswfc
  simp only [if_pos h]

theorem iswfc_outside_le (c : Nat) (h : inWin c = false) : iswfc c ≤ 1 := by
  rw [iswfc_outside c h]
  split
  · omega
  · split <;> omega

theorem tbl_facts :
    (tbl2L.all fun e => e.2.length == 2 && inWin e.1) = true ∧ (tbl3L.all fun e => e.2.length == 3 && inWin e.1) = true := by
  decide +kernel

theorem scan2_outside (c : Nat) (h : inWin c = false) : scanTbl c tbl2L = none := by
  apply scanTbl_none
  intro e he heq
  have := List.all_eq_true.mp tbl_facts.1 e he
  simp only [Bool.and_eq_true] at this
  rw [heq, h] at this
  simp at this

theorem scan3_outside (c : Nat) (h : inWin c = false) : scanTbl c tbl3L = none := by
  apply scanTbl_none
  intro e he heq
  have := List.all_eq_true.mp tbl_facts.2 e he
  simp only [Bool.and_eq_true] at this
  rw [heq, h] at this
  simp at this

/-- outside the windows `towfc_s` is `_towfc_single` -/
theorem towfcCore_outside (c : Nat) (h128 : 128 ≤ c) (h : inWin c = false) :
    towfcCore c = ((towfcSingle c).1, [(towfcSingle c).2]) := by
  unfold towfcCore
  rw [if_neg (by omega), scan2_outside c h, scan3_outside c h]

def cellsOk (c : Nat) : Bool := (towfcCore c).2.length == max 1 (iswfc c)

set_option maxRecDepth 100000 in
theorem cells_win1 : allBelow (fun i => cellsOk (0xdf + i)) (0x587 - 0xdf + 1) = true := by decide +kernel
set_option maxRecDepth 100000 in
theorem cells_win2 : allBelow (fun i => cellsOk (0x1e96 + i)) (0x1ffc - 0x1e96 + 1) = true := by decide +kernel
theorem cells_win3 : allBelow (fun i => cellsOk (0xfb00 + i)) (0xfb17 - 0xfb00 + 1) = true := by decide +kernel

/-- `towfc_s` writes exactly as many cells as `iswfc` announces (0 announced: the character itself, one cell) -/
theorem fold_cells (c : Nat) : (towfcCore c).2.length = max 1 (iswfc c) := by
  cases h : inWin c with
  | false =>
    have h1 := iswfc_outside_le c h
    have : (towfcCore c).2.length = 1 := by
      by_cases h128 : c < 128
      · unfold towfcCore
        simp [h128]
      · rw [towfcCore_outside c (by omega) h]; rfl
    omega
  | true =>
    have : cellsOk c = true := by
      simp only [inWin, Bool.or_eq_true, Bool.and_eq_true, decide_eq_true_eq] at h
      rcases h with (⟨a, b⟩ | ⟨a, b⟩) | ⟨a, b⟩
      · exact allBelow_range (f := cellsOk) cells_win1 a b
      · exact allBelow_range (f := cellsOk) cells_win2 a b
      · exact allBelow_range (f := cellsOk) cells_win3 a b
    simpa [cellsOk] using this


/-! ## `iswfc = 0` against "unchanged": fast copies of the `_towcase` scans on literal tables -/

def inRanges (rs : List (Nat × Nat)) (c : Nat) : Bool := rs.any fun r => r.1 ≤ c && c ≤ r.2

theorem inRanges_iff (rs : List (Nat × Nat)) (c : Nat) : inRanges rs c = true ↔ ∃ r ∈ rs, r.1 ≤ c ∧ c ≤ r.2 := by
  simp [inRanges]

/-- `iswfc` announces 0 but `towfc_s` folds (113 code points) -/
def announcesZeroButFolds : List (Nat × Nat) :=
  [(0xb5, 0xb5), (0x17f, 0x17f), (0x345, 0x345), (0x3c2, 0x3c2), (0x3d0, 0x3d1), (0x3d5, 0x3d6), (0x3f0, 0x3f1), (0x3f5, 0x3f5),
   (0x13f8, 0x13fd), (0x1c80, 0x1c88), (0x1cbb, 0x1cbc), (0x1e9b, 0x1e9b), (0x1fbe, 0x1fbe), (0xab70, 0xabbf),
   (0x1057b, 0x1057b), (0x1058b, 0x1058b), (0x10593, 0x10593)]

/-- `iswfc` announces 1 but `towfc_s` leaves the character unchanged (635 code points) -/
def announcesOneButUnchanged : List (Nat × Nat) :=
  [(0x3d2, 0x3d4), (0x13a0, 0x13f5), (0x2102, 0x2102), (0x2107, 0x2107), (0x210b, 0x210d), (0x2110, 0x2112), (0x2115, 0x2115),
   (0x2119, 0x211d), (0x2124, 0x2124), (0x2128, 0x2128), (0x212c, 0x212d), (0x2130, 0x2131), (0x2133, 0x2133), (0x213e, 0x213f),
   (0x2145, 0x2145), (0x1d400, 0x1d419), (0x1d434, 0x1d44d), (0x1d468, 0x1d481), (0x1d49c, 0x1d49c), (0x1d49e, 0x1d49f),
   (0x1d4a2, 0x1d4a2), (0x1d4a5, 0x1d4a6), (0x1d4a9, 0x1d4ac), (0x1d4ae, 0x1d4b5), (0x1d4d0, 0x1d4e9), (0x1d504, 0x1d505),
   (0x1d507, 0x1d50a), (0x1d50d, 0x1d514), (0x1d516, 0x1d51c), (0x1d538, 0x1d539), (0x1d53b, 0x1d53e), (0x1d540, 0x1d544),
   (0x1d546, 0x1d546), (0x1d54a, 0x1d550), (0x1d56c, 0x1d585), (0x1d5a0, 0x1d5b9), (0x1d5d4, 0x1d5ed), (0x1d608, 0x1d621),
   (0x1d63c, 0x1d655), (0x1d670, 0x1d689), (0x1d6a8, 0x1d6c0), (0x1d6e2, 0x1d6fa), (0x1d71c, 0x1d734), (0x1d756, 0x1d76e),
   (0x1d790, 0x1d7a8), (0x1d7ca, 0x1d7ca), (0x1f130, 0x1f149), (0x1f150, 0x1f169), (0x1f170, 0x1f189)]

/-- the generated tables, written out (checked against the packed literals below) -/
def casemapsLit : List (Nat × Nat × Nat) :=
  [(192, 32, 23), (216, 32, 7), (256, 1, 47), (306, 1, 5), (313, 1, 15), (330, 1, 45), (377, 1, 5), (416, 1, 5),
   (435, 1, 3), (461, 1, 15), (478, 1, 17), (504, 1, 39), (546, 1, 17), (582, 1, 9), (880, 1, 3), (904, 37, 3),
   (915, 32, 13), (935, 32, 5), (984, 1, 23), (1024, 80, 16), (1040, 32, 32), (1120, 1, 33), (1162, 1, 53),
   (1217, 1, 13), (1232, 1, 63), (1296, 1, 3), (1300, 1, 19), (1329, 48, 38), (5104, 8, 6), (5112, 248, 6),
   (7680, 1, 149), (7840, 1, 95), (7944, 248, 8), (7960, 248, 6), (7976, 248, 8), (7992, 248, 8), (8008, 248, 6),
   (8040, 248, 8), (8072, 248, 8), (8088, 248, 8), (8104, 248, 8), (8120, 248, 2), (8122, 182, 2), (8136, 170, 4),
   (8152, 248, 2), (8154, 156, 2), (8168, 248, 2), (8170, 144, 2), (8184, 128, 2), (8186, 130, 2), (8544, 16, 16),
   (9398, 26, 26), (11264, 48, 48), (11367, 1, 5), (11392, 1, 99), (11499, 1, 3), (42560, 1, 45), (42624, 1, 23),
   (42648, 1, 3), (42786, 1, 13), (42802, 1, 61), (42873, 1, 3), (42878, 1, 9), (42896, 1, 3), (42902, 1, 9),
   (42912, 1, 9), (42932, 1, 11), (42944, 1, 2), (42946, 1, 2), (42951, 1, 2), (42953, 1, 2), (42960, 1, 2),
   (42966, 1, 2), (42968, 1, 2), (42997, 1, 2), (65313, 32, 26)]

def pairsLit : List (Nat × Nat) :=
  [(73, 305), (83, 383), (181, 956), (257, 256), (304, 105), (376, 255), (383, 115), (385, 595), (386, 387),
   (388, 389), (390, 596), (391, 392), (393, 598), (394, 599), (395, 396), (398, 477), (399, 601), (400, 603),
   (401, 402), (403, 608), (404, 611), (406, 617), (407, 616), (408, 409), (412, 623), (413, 626), (415, 629),
   (422, 640), (423, 424), (425, 643), (428, 429), (430, 648), (431, 432), (433, 650), (434, 651), (435, 436),
   (437, 438), (439, 658), (440, 441), (444, 445), (452, 454), (453, 454), (455, 457), (456, 457), (458, 460),
   (459, 460), (497, 499), (498, 499), (500, 501), (502, 405), (503, 447), (544, 414), (570, 11365), (571, 572),
   (573, 410), (574, 11366), (577, 578), (579, 384), (580, 649), (581, 652), (837, 953), (886, 887), (895, 1011),
   (902, 940), (908, 972), (910, 973), (911, 974), (913, 945), (914, 946), (914, 976), (917, 1013), (920, 977),
   (921, 8126), (922, 1008), (928, 960), (928, 982), (929, 961), (929, 1009), (931, 963), (931, 962), (932, 964),
   (933, 965), (934, 966), (934, 981), (962, 963), (975, 983), (976, 946), (977, 952), (981, 966), (982, 960),
   (1008, 954), (1009, 961), (1012, 952), (1013, 949), (1015, 1016), (1017, 1010), (1018, 1019), (1021, 891),
   (1022, 892), (1023, 893), (1042, 7296), (1044, 7297), (1054, 7298), (1057, 7299), (1058, 7300), (1058, 7301),
   (1066, 7302), (1122, 1123), (1122, 7303), (1216, 1231), (1320, 1321), (1322, 1323), (1324, 1325), (1326, 1327),
   (4295, 11559), (4301, 11565), (7296, 1074), (7297, 1076), (7298, 1086), (7299, 1089), (7300, 1090), (7301, 1090),
   (7302, 1098), (7303, 1123), (7304, 42571), (7776, 7835), (7835, 7777), (7838, 223), (8025, 8017), (8027, 8019),
   (8029, 8021), (8031, 8023), (8124, 8115), (8126, 953), (8140, 8131), (8172, 8165), (8188, 8179), (8486, 969),
   (8490, 107), (8491, 229), (8498, 8526), (8579, 8580), (11360, 11361), (11362, 619), (11363, 7549), (11364, 637),
   (11373, 593), (11374, 625), (11375, 592), (11376, 594), (11378, 11379), (11381, 11382), (11390, 575), (11391, 576),
   (11506, 11507), (42570, 42571), (42570, 7304), (42877, 7545), (42891, 42892), (42893, 613), (42922, 614),
   (42923, 604), (42924, 609), (42925, 620), (42926, 618), (42928, 670), (42929, 647), (42930, 669), (42931, 43859),
   (42948, 42900), (42949, 642), (42950, 7566)]

def casemapslLit : List (Nat × Nat × Nat × Nat) :=
  [(5024, 38864, 80, 192), (7312, 4294964288, 48, 216), (43888, 4294928432, 80, 256), (66560, 40, 40, 306),
   (66736, 40, 36, 313), (66928, 39, 38, 330), (68736, 64, 51, 377), (71840, 32, 32, 416), (93760, 32, 32, 435),
   (125184, 34, 34, 461)]

theorem tables_lit : casemapsL = casemapsLit ∧ pairsL = pairsLit ∧ casemapslL = casemapslLit := by decide +kernel

/-- downward iteration over `[lo, hi)` with the code point itself as the recursion variable (a literal for the kernel) -/
noncomputable def allDown (f : Nat → Bool) (lo hi : Nat) : Bool :=
  @Nat.rec (fun _ => Bool) true (fun c ih => f c && (Nat.ble c lo || ih)) hi

theorem allDown_spec (f : Nat → Bool) (lo hi : Nat) (h : allDown f lo hi = true) (c : Nat) (h1 : lo ≤ c) (h2 : c < hi) :
    f c = true := by
  induction hi with
  | zero => omega
  | succ n ih =>
    have e : allDown f lo (n + 1) = (f n && (Nat.ble n lo || allDown f lo n)) := rfl
    rw [e] at h
    simp only [Bool.and_eq_true, Bool.or_eq_true, Nat.ble_eq] at h
    rcases Nat.lt_succ_iff_lt_or_eq.mp h2 with h3 | h3
    · rcases h.2 with h4 | h4
      · omega
      · exact ih h4 h3
    · exact h3 ▸ h.1

noncomputable def scanCasemapsF (wc : Nat) (l : List (Nat × Nat × Nat)) : Option Nat :=
  @List.rec _ (fun _ => Option Nat) none (fun e _ ih =>
    bif Nat.ble e.1 wc && Nat.blt (wc - e.1) e.2.2 then
      (bif e.2.1 == 1 then some (wc + 1 - (wc - e.1) % 2) else some (addSigned 8 wc e.2.1))
    else bif Nat.blt wc e.1 then none else ih) l

noncomputable def scanPairsF (wc : Nat) (l : List (Nat × Nat)) : Option Nat :=
  @List.rec _ (fun _ => Option Nat) none (fun e _ ih =>
    bif Nat.beq e.1 wc then some e.2 else bif Nat.blt wc e.1 then none else ih) l

noncomputable def scanCasemapslF (wc : Nat) (l : List (Nat × Nat × Nat × Nat)) : Option Nat :=
  @List.rec _ (fun _ => Option Nat) none (fun e _ ih =>
    bif Nat.ble e.1 wc && Nat.blt (wc - e.1) e.2.2.1 then
      (bif e.2.1 == 1 then some (wc + 1 - (wc - e.1) % 2) else some (addSigned 32 wc e.2.1))
    else bif Nat.blt wc e.2.2.2 then none else ih) l

theorem scanCasemapsF_eq (wc : Nat) (l : List (Nat × Nat × Nat)) : scanCasemapsF wc l = scanCasemaps wc l := by
  induction l with
  | nil => rfl
  | cons e rest ih =>
    obtain ⟨up, lo, len⟩ := e
    have e1 : scanCasemapsF wc ((up, lo, len) :: rest) =
        (bif Nat.ble up wc && Nat.blt (wc - up) len then
          (bif lo == 1 then some (wc + 1 - (wc - up) % 2) else some (addSigned 8 wc lo))
        else bif Nat.blt wc up then none else scanCasemapsF wc rest) := rfl
    rw [e1, ih]
    simp only [scanCasemaps, cond_eq_ite, Bool.and_eq_true, Nat.ble_eq, Nat.blt_eq, beq_iff_eq, gt_iff_lt]

theorem scanPairsF_eq (wc : Nat) (l : List (Nat × Nat)) : scanPairsF wc l = scanPairs wc l := by
  induction l with
  | nil => rfl
  | cons e rest ih =>
    obtain ⟨up, lo⟩ := e
    have e1 : scanPairsF wc ((up, lo) :: rest) =
        (bif Nat.beq up wc then some lo else bif Nat.blt wc up then none else scanPairsF wc rest) := rfl
    rw [e1, ih]
    simp only [scanPairs, cond_eq_ite, Nat.beq_eq, Nat.blt_eq, gt_iff_lt]

theorem scanCasemapslF_eq (wc : Nat) (l : List (Nat × Nat × Nat × Nat)) : scanCasemapslF wc l = scanCasemapsl wc l := by
  induction l with
  | nil => rfl
  | cons e rest ih =>
    obtain ⟨up, lo, len, brk⟩ := e
    have e1 : scanCasemapslF wc ((up, lo, len, brk) :: rest) =
        (bif Nat.ble up wc && Nat.blt (wc - up) len then
          (bif lo == 1 then some (wc + 1 - (wc - up) % 2) else some (addSigned 32 wc lo))
        else bif Nat.blt wc brk then none else scanCasemapslF wc rest) := rfl
    rw [e1, ih]
    simp only [scanCasemapsl, cond_eq_ite, Bool.and_eq_true, Nat.ble_eq, Nat.blt_eq, beq_iff_eq, gt_iff_lt]


/-! ### when the scans find nothing -/

theorem scanCasemaps_none (wc : Nat) (l : List (Nat × Nat × Nat)) (h : ∀ e ∈ l, ¬(e.1 ≤ wc ∧ wc - e.1 < e.2.2)) :
    scanCasemaps wc l = none := by
  induction l with
  | nil => rfl
  | cons e rest ih =>
    obtain ⟨up, lo, len⟩ := e
    have h0 := h (up, lo, len) (by simp)
    simp only [scanCasemaps, if_neg h0]
    split
    · rfl
    · exact ih fun e he => h e (by simp [he])

theorem scanPairs_none (wc : Nat) (l : List (Nat × Nat)) (h : ∀ e ∈ l, e.1 ≠ wc) : scanPairs wc l = none := by
  induction l with
  | nil => rfl
  | cons e rest ih =>
    obtain ⟨up, lo⟩ := e
    have h0 : up ≠ wc := h (up, lo) (by simp)
    simp only [scanPairs, if_neg h0]
    split
    · rfl
    · exact ih fun e he => h e (by simp [he])

theorem scanCasemapsl_none (wc : Nat) (l : List (Nat × Nat × Nat × Nat)) (h : ∀ e ∈ l, ¬(e.1 ≤ wc ∧ wc - e.1 < e.2.2.1)) :
    scanCasemapsl wc l = none := by
  induction l with
  | nil => rfl
  | cons e rest ih =>
    obtain ⟨up, lo, len, brk⟩ := e
    have h0 := h (up, lo, len, brk) (by simp)
    simp only [scanCasemapsl, if_neg h0]
    split
    · rfl
    · exact ih fun e he => h e (by simp [he])

/-! ### the fast `_towcase(wc, 1)` -/

theorem tables_bmp : (casemapsLit.all fun e => e.1 + e.2.2 ≤ 0x10000) = true ∧ (pairsLit.all fun e => e.1 < 0x10000) = true := by
  decide +kernel

noncomputable def towlowerF (wc : Nat) : Nat :=
  if wc < 0x41 ∨ (0x600 ≤ wc ∧ wc ≤ 0xfff) ∨ (0x2e00 ≤ wc ∧ wc ≤ 0xa63f) ∨ (0xa800 ≤ wc ∧ wc ≤ 0xab69) ∨ (0xabc0 ≤ wc ∧ wc ≤ 0xfeff) then wc
  else if 0x10a0 ≤ wc ∧ wc - 0x10a0 < 0x2e then
    if wc > 0x10c5 ∧ wc ≠ 0x10c7 ∧ wc ≠ 0x10cd then wc else wc + 0x2d00 - 0x10a0
  else if 0x10000 ≤ wc then
    match scanCasemapslF wc casemapslLit with
    | some r => r
    | none => wc
  else match scanCasemapsF wc casemapsLit with
    | some r => r
    | none => match scanPairsF wc pairsLit with
      | some r => r
      | none => match scanCasemapslF wc casemapslLit with
        | some r => r
        | none => wc

theorem towlowerC_eq_F (wc : Nat) : towlowerC wc = towlowerF wc := by
  unfold towlowerC towlowerF
  rw [scanCasemapsF_eq, scanPairsF_eq, scanCasemapslF_eq, ← tables_lit.1, ← tables_lit.2.1, ← tables_lit.2.2]
  split
  · rfl
  · split
    · rfl
    · by_cases hhi : 0x10000 ≤ wc
      · have e1 : scanCasemaps wc casemapsL = none := by
          apply scanCasemaps_none
          intro e he
          have := List.all_eq_true.mp tables_bmp.1 e (tables_lit.1 ▸ he)
          simp only [decide_eq_true_eq] at this
          omega
        have e2 : scanPairs wc pairsL = none := by
          apply scanPairs_none
          intro e he
          have := List.all_eq_true.mp tables_bmp.2 e (tables_lit.2.1 ▸ he)
          simp only [decide_eq_true_eq] at this
          omega
        rw [if_pos hhi, e1, e2]
        rfl
      · rw [if_neg hhi]
        rfl

/-- `_towfc_single` on the fast `_towcase` -/
noncomputable def towfcSingleF (src : Nat) : Int × Nat :=
  let single : Int × Nat :=
    let d := if src < 128 then cell 8 UniFold.tolower128 src else towlowerF src
    (if d % 2 ^ 32 = src then ESNOTFND_neg else 1, d)
  if src < 0xb5 then single
  else if src ≤ 0x3f5 then
    if src = 0xb5 then (0, 0x3bc) else if src = 0x17f then (0, 0x73) else if src = 0x345 then (0, 0x3b9)
    else if src = 0x3c2 then (0, 0x3c3) else if src = 0x3d0 then (0, 0x3b2) else if src = 0x3d1 then (0, 0x3b8)
    else if src = 0x3d5 then (0, 0x3c6) else if src = 0x3d6 then (0, 0x3c0) else if src = 0x3f0 then (0, 0x3ba)
    else if src = 0x3f1 then (0, 0x3c1) else if src = 0x3f5 then (0, 0x3b5) else single
  else if 0x13a0 ≤ src ∧ src ≤ 0x13f5 then (0, src)
  else if 0x13f8 ≤ src ∧ src ≤ 0x13fd then (0, src - 8)
  else if src ≤ 0x1c88 then
    if src < 0x1c80 then single
    else if src = 0x1c80 then (0, 0x432) else if src = 0x1c81 then (0, 0x434) else if src = 0x1c82 then (0, 0x43e)
    else if src = 0x1c83 then (0, 0x441) else if src = 0x1c84 then (0, 0x442) else if src = 0x1c85 then (0, 0x442)
    else if src = 0x1c86 then (0, 0x44a) else if src = 0x1c87 then (0, 0x463) else (0, 0xa64b)
  else if src ≤ 0x1fbe then
    if src < 0x1e9b then single
    else if src = 0x1e9b then (0, 0x1e61)
    else if src = 0x1fbe then (0, 0x3b9)
    else single
  else if 0xab70 ≤ src ∧ src ≤ 0xabbf then (0, src - (0xab70 - 0x13a0))
  else single

theorem towfcSingle_eq_F (src : Nat) : towfcSingle src = towfcSingleF src := by
  unfold towfcSingle towfcSingleF
  rw [towlowerC_eq_F]


/-! ### the fast `towfc_s` -/

def tbl2Lit : List (Nat × List Nat) :=
  [(223, [115, 115]), (304, [105, 775]), (329, [700, 110]), (496, [106, 780]), (1415, [1381, 1410]),
   (7830, [104, 817]), (7831, [116, 776]), (7832, [119, 778]), (7833, [121, 778]), (7834, [97, 702]),
   (7838, [115, 115]), (8016, [965, 787]), (8064, [7936, 953]), (8065, [7937, 953]), (8066, [7938, 953]),
   (8067, [7939, 953]), (8068, [7940, 953]), (8069, [7941, 953]), (8070, [7942, 953]), (8071, [7943, 953]),
   (8072, [7936, 953]), (8073, [7937, 953]), (8074, [7938, 953]), (8075, [7939, 953]), (8076, [7940, 953]),
   (8077, [7941, 953]), (8078, [7942, 953]), (8079, [7943, 953]), (8080, [7968, 953]), (8081, [7969, 953]),
   (8082, [7970, 953]), (8083, [7971, 953]), (8084, [7972, 953]), (8085, [7973, 953]), (8086, [7974, 953]),
   (8087, [7975, 953]), (8088, [7968, 953]), (8089, [7969, 953]), (8090, [7970, 953]), (8091, [7971, 953]),
   (8092, [7972, 953]), (8093, [7973, 953]), (8094, [7974, 953]), (8095, [7975, 953]), (8096, [8032, 953]),
   (8097, [8033, 953]), (8098, [8034, 953]), (8099, [8035, 953]), (8100, [8036, 953]), (8101, [8037, 953]),
   (8102, [8038, 953]), (8103, [8039, 953]), (8104, [8032, 953]), (8105, [8033, 953]), (8106, [8034, 953]),
   (8107, [8035, 953]), (8108, [8036, 953]), (8109, [8037, 953]), (8110, [8038, 953]), (8111, [8039, 953]),
   (8114, [8048, 953]), (8115, [945, 953]), (8116, [940, 953]), (8118, [945, 834]), (8124, [945, 953]),
   (8130, [8052, 953]), (8131, [951, 953]), (8132, [942, 953]), (8134, [951, 834]), (8140, [951, 953]),
   (8150, [953, 834]), (8164, [961, 787]), (8166, [965, 834]), (8178, [8060, 953]), (8179, [969, 953]),
   (8180, [974, 953]), (8182, [969, 834]), (8188, [969, 953]), (64256, [102, 102]), (64257, [102, 105]),
   (64258, [102, 108]), (64261, [115, 116]), (64262, [115, 116]), (64275, [1396, 1398]), (64276, [1396, 1381]),
   (64277, [1396, 1387]), (64278, [1406, 1398]), (64279, [1396, 1389])]

def tbl3Lit : List (Nat × List Nat) :=
  [(912, [953, 776, 769]), (944, [965, 776, 769]), (8018, [965, 787, 768]), (8020, [965, 787, 769]),
   (8022, [965, 787, 834]), (8119, [945, 834, 953]), (8135, [951, 834, 953]), (8146, [953, 776, 768]),
   (8147, [953, 776, 769]), (8151, [953, 776, 834]), (8162, [965, 776, 768]), (8163, [965, 776, 769]),
   (8167, [965, 776, 834]), (8183, [969, 834, 953]), (64259, [102, 102, 105]), (64260, [102, 102, 108])]

theorem tbl_lit : tbl2L = tbl2Lit ∧ tbl3L = tbl3Lit := by decide +kernel

noncomputable def scanTblF (src : Nat) (l : List (Nat × List Nat)) : Option (List Nat) :=
  @List.rec _ (fun _ => Option (List Nat)) none (fun e _ ih =>
    bif Nat.beq e.1 src then some e.2 else bif Nat.blt src e.1 then none else ih) l

theorem scanTblF_eq (src : Nat) (l : List (Nat × List Nat)) : scanTblF src l = scanTbl src l := by
  induction l with
  | nil => rfl
  | cons e rest ih =>
    obtain ⟨up, x⟩ := e
    have e1 : scanTblF src ((up, x) :: rest) =
        (bif Nat.beq up src then some x else bif Nat.blt src up then none else scanTblF src rest) := rfl
    rw [e1, ih]
    simp only [scanTbl, cond_eq_ite, Nat.beq_eq, Nat.blt_eq, gt_iff_lt]

noncomputable def towfcCoreF (src : Nat) : Int × List Nat :=
  if src < 128 then
    let d := cell 8 UniFold.tolower128 src
    (if d = src then ESNOTFND_neg else 1, [d])
  else match scanTblF src tbl2Lit with
    | some l => (2, l)
    | none => match scanTblF src tbl3Lit with
      | some l => (3, l)
      | none => let r := towfcSingleF src; (r.1, [r.2])

theorem towfcCore_eq_F (src : Nat) : towfcCore src = towfcCoreF src := by
  unfold towfcCore towfcCoreF
  rw [scanTblF_eq, scanTblF_eq, ← tbl_lit.1, ← tbl_lit.2, towfcSingle_eq_F]
  rfl

/-! ### the check -/

noncomputable def inRangesF (rs : List (Nat × Nat)) (c : Nat) : Bool :=
  @List.rec _ (fun _ => Bool) false (fun r _ ih => (Nat.ble r.1 c && Nat.ble c r.2) || ih) rs

theorem inRangesF_eq (rs : List (Nat × Nat)) (c : Nat) : inRangesF rs c = inRanges rs c := by
  induction rs with
  | nil => rfl
  | cons r rest ih =>
    have e1 : inRangesF (r :: rest) c = ((Nat.ble r.1 c && Nat.ble c r.2) || inRangesF rest c) := rfl
    rw [e1, ih]
    have e2 : ∀ a b, Nat.ble a b = decide (a ≤ b) := fun a b => by rw [Bool.eq_iff_iff]; simp [Nat.ble_eq]
    simp [inRanges, e2]

/-- code point ranges that are looked at one by one; everything else is shown to be untouched in general -/
def hot : List (Nat × Nat) :=
  [(0x0, 0x587), (0x10a0, 0x10cd), (0x13a0, 0x13fd), (0x1c80, 0x1cbf), (0x1e00, 0x1ffc), (0x2102, 0x2145), (0x2160, 0x216f),
   (0x2183, 0x2183), (0x24b6, 0x24cf), (0x2c00, 0x2c2f), (0x2c60, 0x2cf2), (0xa640, 0xa66c), (0xa680, 0xa69a),
   (0xa722, 0xa7d9), (0xa7f5, 0xa7f6), (0xab70, 0xabbf), (0xfb00, 0xfb17), (0xff21, 0xff3a), (0x10400, 0x10427),
   (0x104b0, 0x104d3), (0x10570, 0x10595), (0x10c80, 0x10cb2), (0x118a0, 0x118bf), (0x16e40, 0x16e5f), (0x1d400, 0x1d7ca),
   (0x1e900, 0x1e921), (0x1f130, 0x1f189)]

noncomputable def okF (c : Nat) : Bool :=
  (bif inWin c || Nat.blt c 128 then (iswfc c == 0) == ((towfcCoreF c).2 == [c])
   else (!iswupper c) == ((towfcSingleF c).2 == c))
  || inRangesF announcesZeroButFolds c || inRangesF announcesOneButUnchanged c

theorem okF_sound (c : Nat) (h : okF c = true) (hz : inRanges announcesZeroButFolds c = false)
    (ho : inRanges announcesOneButUnchanged c = false) : iswfc c = 0 ↔ (towfcCore c).2 = [c] := by
  unfold okF at h
  rw [inRangesF_eq, inRangesF_eq, hz, ho, Bool.or_false, Bool.or_false] at h
  cases hb : (inWin c || Nat.blt c 128) with
  | true =>
    rw [hb, cond_true, ← towfcCore_eq_F] at h
    have h2 : (iswfc c == 0) = ((towfcCore c).2 == [c]) := by simpa using h
    rw [Bool.eq_iff_iff] at h2
    simpa using h2
  | false =>
    rw [hb, cond_false, ← towfcSingle_eq_F] at h
    simp only [Bool.or_eq_false_iff] at hb
    have h128 : 128 ≤ c := by
      have := hb.2
      rw [← Bool.not_eq_true, Nat.blt_eq] at this
      omega
    have hne : ¬(c = 0x1cbb ∨ c = 0x1cbc) := by
      intro hh
      have : inRanges announcesZeroButFolds c = true := by
        rw [inRanges_iff]
        exact ⟨(0x1cbb, 0x1cbc), by simp [announcesZeroButFolds], by rcases hh with hh | hh <;> simp [hh]⟩
      rw [hz] at this
      exact absurd this (by decide)
    rw [towfcCore_outside c h128 hb.1, iswfc_outside c hb.1, if_neg hne]
    cases hu : iswupper c <;> simp_all

/-! ### what is not `hot` is untouched -/

theorem hot_tables :
    (casemapsLit.all fun e => hot.any fun r => r.1 ≤ e.1 && e.1 + e.2.2 ≤ r.2 + 1) = true ∧
    (pairsLit.all fun e => inRanges hot e.1) = true ∧
    (casemapslLit.all fun e => hot.any fun r => r.1 ≤ e.1 && e.1 + e.2.2.1 ≤ r.2 + 1) = true := by
  decide +kernel

set_option maxRecDepth 100000 in
theorem hot_upper :
    allBelow (fun b => cell 16 UniFold.upIdx b == 0 ||
      allBelow (fun i => !iswupper (b * 256 + i) || inRangesF hot (b * 256 + i)) 256) 4352 = true := by
  decide +kernel

theorem iswupper_cold (c : Nat) (h : inRanges hot c = false) : iswupper c = false := by
  unfold iswupper
  split
  · next hc =>
    have h1 := (allBelow_spec _ _).mp hot_upper (c / 256) (by omega)
    simp only [Bool.or_eq_true, beq_iff_eq] at h1
    rcases h1 with h1 | h1
    · simp [h1]
    · have h2 := (allBelow_spec _ _).mp h1 (c % 256) (by omega)
      have e : c / 256 * 256 + c % 256 = c := by omega
      rw [e, inRangesF_eq, h] at h2
      have h3 : iswupper c = false := by simpa using h2
      unfold iswupper at h3
      rw [if_pos hc] at h3
      exact h3
  · rfl

theorem towlowerC_cold (c : Nat) (h : inRanges hot c = false) : towlowerC c = c := by
  have hnot : ∀ r ∈ hot, ¬(r.1 ≤ c ∧ c ≤ r.2) := by
    intro r hr hh
    have : inRanges hot c = true := (inRanges_iff _ _).mpr ⟨r, hr, hh⟩
    rw [h] at this
    exact absurd this (by decide)
  have h10 := hnot (0x10a0, 0x10cd) (by simp [hot])
  simp only at h10
  unfold towlowerC
  split
  · rfl
  · split
    · omega
    · have e1 : scanCasemaps c casemapsL = none := by
        apply scanCasemaps_none
        intro e he hcov
        have := List.all_eq_true.mp hot_tables.1 e (tables_lit.1 ▸ he)
        obtain ⟨r, hr, hin⟩ := List.any_eq_true.mp this
        simp only [Bool.and_eq_true, decide_eq_true_eq] at hin
        exact hnot r hr (by omega)
      have e2 : scanPairs c pairsL = none := by
        apply scanPairs_none
        intro e he heq
        have := List.all_eq_true.mp hot_tables.2.1 e (tables_lit.2.1 ▸ he)
        rw [heq, h] at this
        exact absurd this (by decide)
      have e3 : scanCasemapsl c casemapslL = none := by
        apply scanCasemapsl_none
        intro e he hcov
        have := List.all_eq_true.mp hot_tables.2.2 e (tables_lit.2.2 ▸ he)
        obtain ⟨r, hr, hin⟩ := List.any_eq_true.mp this
        simp only [Bool.and_eq_true, decide_eq_true_eq] at hin
        exact hnot r hr (by omega)
      rw [e1, e2, e3]

/-- the hard-coded code points of `iswfc`, `_towfc_single`, `_towcase` -/
def special : List (Nat × Nat) :=
  [(0, 0x587), (0x10a0, 0x10cd), (0x13a0, 0x13fd), (0x1c80, 0x1c88), (0x1e96, 0x1ffc), (0xab70, 0xabbf), (0xfb00, 0xfb17)]

theorem special_hot : (special.all fun s => hot.any fun r => r.1 ≤ s.1 && s.2 ≤ r.2) = true := by decide +kernel

theorem special_cold (c : Nat) (h : inRanges hot c = false) : inRanges special c = false := by
  cases hs : inRanges special c with
  | false => rfl
  | true =>
    obtain ⟨s, hs1, hs2⟩ := (inRanges_iff _ _).mp hs
    have := List.all_eq_true.mp special_hot s hs1
    obtain ⟨r, hr, hin⟩ := List.any_eq_true.mp this
    simp only [Bool.and_eq_true, decide_eq_true_eq] at hin
    have : inRanges hot c = true := (inRanges_iff _ _).mpr ⟨r, hr, by omega⟩
    rw [h] at this
    exact absurd this (by decide)

theorem towfcSingle_cold (c : Nat) (h : inRanges hot c = false) : (towfcSingle c).2 = c := by
  have hs := special_cold c h
  simp only [inRanges, special, List.any_cons, List.any_nil, Bool.or_false, Bool.or_eq_false_iff, Bool.and_eq_false_iff,
    decide_eq_false_iff_not] at hs
  have hl := towlowerC_cold c h
  unfold towfcSingle
  simp only [hl, if_neg (show ¬c < 128 by omega), if_neg (show ¬c < 0xb5 by omega), if_neg (show ¬c ≤ 0x3f5 by omega),
    if_neg (show ¬(0x13a0 ≤ c ∧ c ≤ 0x13f5) by omega), if_neg (show ¬(0x13f8 ≤ c ∧ c ≤ 0x13fd) by omega),
    if_neg (show ¬(0xab70 ≤ c ∧ c ≤ 0xabbf) by omega)]
  by_cases h1 : c ≤ 0x1c88
  · simp only [if_pos h1, if_pos (show c < 0x1c80 by omega)]
  · by_cases h2 : c ≤ 0x1fbe
    · simp only [if_neg h1, if_pos h2, if_pos (show c < 0x1e9b by omega)]
    · simp only [if_neg h1, if_neg h2]

/-! ### the hot ranges, code point by code point -/

set_option maxRecDepth 100000 in
theorem hot_ok : (hot.all fun r => allDown okF r.1 (r.2 + 1)) = true := by decide +kernel

/-- `iswfc` announces 0 exactly when `towfc_s` hands the character back unchanged — outside the two exception sets, for every
cell value (no bound needed) -/
theorem fold_announce_all (c : Nat) (hz : inRanges announcesZeroButFolds c = false)
    (ho : inRanges announcesOneButUnchanged c = false) : iswfc c = 0 ↔ (towfcCore c).2 = [c] := by
  cases hh : inRanges hot c with
  | true =>
    obtain ⟨r, hr, h1, h2⟩ := (inRanges_iff _ _).mp hh
    have := List.all_eq_true.mp hot_ok r hr
    exact okF_sound c (allDown_spec _ _ _ this c h1 (by omega)) hz ho
  | false =>
    have hs := special_cold c hh
    simp only [inRanges, special, List.any_cons, List.any_nil, Bool.or_false, Bool.or_eq_false_iff, Bool.and_eq_false_iff,
      decide_eq_false_iff_not] at hs
    have hw : inWin c = false := by rw [inWin_false_iff]; omega
    rw [towfcCore_outside c (by omega) hw, iswfc_outside c hw, iswupper_cold c hh, towfcSingle_cold c hh]
    simp

theorem fold_announce_partial (c : Nat) (hz : inRanges announcesZeroButFolds c = false)
    (ho : inRanges announcesOneButUnchanged c = false) (_hc : c ≤ 0x10FFFF) : iswfc c = 0 ↔ (towfcCore c).2 = [c] :=
  fold_announce_all c hz ho

/-! ### the exception sets are real: every member disagrees -/

noncomputable def excZ (c : Nat) : Bool := (iswfc c == 0) && !((towfcCoreF c).2 == [c])
noncomputable def excO (c : Nat) : Bool := (iswfc c == 1) && ((towfcCoreF c).2 == [c])

theorem exc_ok :
    (announcesZeroButFolds.all fun r => allDown excZ r.1 (r.2 + 1)) = true ∧
    (announcesOneButUnchanged.all fun r => allDown excO r.1 (r.2 + 1)) = true := by decide +kernel

theorem fold_announce_exceptions (c : Nat) :
    (inRanges announcesZeroButFolds c = true → iswfc c = 0 ∧ (towfcCore c).2 ≠ [c]) ∧
    (inRanges announcesOneButUnchanged c = true → iswfc c = 1 ∧ (towfcCore c).2 = [c]) := by
  constructor
  · intro h
    obtain ⟨r, hr, h1, h2⟩ := (inRanges_iff _ _).mp h
    have := allDown_spec _ _ _ (List.all_eq_true.mp exc_ok.1 r hr) c h1 (by omega)
    rw [towfcCore_eq_F]
    simpa [excZ] using this
  · intro h
    obtain ⟨r, hr, h1, h2⟩ := (inRanges_iff _ _).mp h
    have := allDown_spec _ _ _ (List.all_eq_true.mp exc_ok.2 r hr) c h1 (by omega)
    rw [towfcCore_eq_F]
    simpa [excO] using this

theorem fold_announce_witness_b5 : iswfc 0xb5 = 0 ∧ (towfcCore 0xb5).2 = [0x3bc] := by decide +kernel
theorem fold_announce_witness_3d2 : iswfc 0x3d2 = 1 ∧ (towfcCore 0x3d2).2 = [0x3d2] := by decide +kernel

example : (towfcCore 0xdf).2.length = max 1 (iswfc 0xdf) ∧ iswfc 0xdf = 2 := by decide +kernel
example : (towfcCore 0xfb03).2.length = max 1 (iswfc 0xfb03) ∧ iswfc 0xfb03 = 3 := by decide +kernel
example : (towfcCore 0x41).2.length = max 1 (iswfc 0x41) ∧ iswfc 0x41 = 1 := by decide +kernel

#print axioms fold_cells
#print axioms fold_announce_all
#print axioms fold_announce_partial
#print axioms fold_announce_exceptions
#print axioms fold_announce_witness_b5
#print axioms fold_announce_witness_3d2

end SafeC.Fold

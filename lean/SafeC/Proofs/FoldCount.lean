import SafeC.Models.Fold
/-!
# C17 — `towfc_s` writes as many cells as `iswfc` announces (`fold_cells`), and where `iswfc = 0` means "unchanged"
-/
namespace SafeC.Fold
open SafeC.Gen SafeC.Norm

/-! ## bounded iteration for `decide +kernel` -/

def allBelow (f : Nat → Bool) : Nat → Bool
  | 0 => true
  | n + 1 => f n && allBelow f n

theorem allBelow_spec (f : Nat → Bool) (n : Nat) : allBelow f n = true ↔ ∀ i, i < n → f i = true := by
  induction n with
  | zero => simp [allBelow]
  | succ n ih =>
    simp only [allBelow, Bool.and_eq_true, ih]
    constructor
    · rintro ⟨h0, h1⟩ i hi
      rcases Nat.lt_succ_iff_lt_or_eq.mp hi with h | h
      · exact h1 i h
      · exact h ▸ h0
    · intro h
      exact ⟨h n (Nat.lt_succ_self n), fun i hi => h i (Nat.lt_succ_of_lt hi)⟩

/-- closed range form: `f` holds on `[lo, hi]` -/
theorem allBelow_range {f : Nat → Bool} {lo hi : Nat} (h : allBelow (fun i => f (lo + i)) (hi - lo + 1) = true)
    {c : Nat} (h1 : lo ≤ c) (h2 : c ≤ hi) : f c = true := by
  have := (allBelow_spec _ _).mp h (c - lo) (by omega)
  simpa [Nat.add_sub_cancel' h1] using this

/-! ## `scanTbl` -/

theorem scanTbl_none (src : Nat) (l : List (Nat × List Nat)) (h : ∀ e ∈ l, e.1 ≠ src) : scanTbl src l = none := by
  induction l with
  | nil => rfl
  | cons e rest ih =>
    obtain ⟨up, x⟩ := e
    have h0 : up ≠ src := h (up, x) (by simp)
    simp only [scanTbl, h0, if_false]
    split
    · rfl
    · exact ih fun e he => h e (by simp [he])

theorem scanTbl_mem (src : Nat) (l : List (Nat × List Nat)) (x : List Nat) (h : scanTbl src l = some x) : (src, x) ∈ l := by
  induction l with
  | nil => simp [scanTbl] at h
  | cons e rest ih =>
    obtain ⟨up, y⟩ := e
    simp only [scanTbl] at h
    split at h
    · next hu => simp_all
    · split at h
      · simp at h
      · simp [ih h]

/-! ## the three windows of `iswfc` -/

def inWin (c : Nat) : Bool := (0xdf ≤ c && c ≤ 0x587) || (0x1e96 ≤ c && c ≤ 0x1ffc) || (0xfb00 ≤ c && c ≤ 0xfb17)

theorem inWin_false_iff (c : Nat) :
    inWin c = false ↔ (c < 0xdf ∨ (c > 0x0587 ∧ c < 0x1e96) ∨ (c > 0x1FFC ∧ c < 0xFB00) ∨ c > 0xFB17) := by
  simp only [inWin, Bool.or_eq_false_iff, Bool.and_eq_false_iff, decide_eq_false_iff_not]
  omega

theorem iswfc_outside (c : Nat) (h : inWin c = false) :
    iswfc c = if c = 0x1cbb ∨ c = 0x1cbc then 0 else if iswupper c then 1 else 0 := by
  rw [inWin_false_iff] at h
  unfold iswfc
  simp only [if_pos h]

theorem iswfc_outside_le (c : Nat) (h : inWin c = false) : iswfc c ≤ 1 := by
  rw [iswfc_outside c h]
  split
  · omega
  · split <;> omega

theorem tbl_facts :
    (tbl2L.all fun e => e.2.length == 2 && inWin e.1) = true ∧ (tbl3L.all fun e => e.2.length == 3 && inWin e.1) = true := by
  decide +kernel

theorem scan2_outside (c : Nat) (h : inWin c = false) : scanTbl c tbl2L = none := by
  apply scanTbl_none
  intro e he heq
  have := List.all_eq_true.mp tbl_facts.1 e he
  simp only [Bool.and_eq_true] at this
  rw [heq, h] at this
  simp at this

theorem scan3_outside (c : Nat) (h : inWin c = false) : scanTbl c tbl3L = none := by
  apply scanTbl_none
  intro e he heq
  have := List.all_eq_true.mp tbl_facts.2 e he
  simp only [Bool.and_eq_true] at this
  rw [heq, h] at this
  simp at this

/-- outside the windows `towfc_s` is `_towfc_single` -/
theorem towfcCore_outside (c : Nat) (h128 : 128 ≤ c) (h : inWin c = false) :
    towfcCore c = ((towfcSingle c).1, [(towfcSingle c).2]) := by
  unfold towfcCore
  rw [if_neg (by omega), scan2_outside c h, scan3_outside c h]

def cellsOk (c : Nat) : Bool := (towfcCore c).2.length == max 1 (iswfc c)

set_option maxRecDepth 100000 in
theorem cells_win1 : allBelow (fun i => cellsOk (0xdf + i)) (0x587 - 0xdf + 1) = true := by decide +kernel
set_option maxRecDepth 100000 in
theorem cells_win2 : allBelow (fun i => cellsOk (0x1e96 + i)) (0x1ffc - 0x1e96 + 1) = true := by decide +kernel
theorem cells_win3 : allBelow (fun i => cellsOk (0xfb00 + i)) (0xfb17 - 0xfb00 + 1) = true := by decide +kernel

/-- `towfc_s` writes exactly as many cells as `iswfc` announces (0 announced: the character itself, one cell) -/
theorem fold_cells (c : Nat) : (towfcCore c).2.length = max 1 (iswfc c) := by
  cases h : inWin c with
  | false =>
    have h1 := iswfc_outside_le c h
    have : (towfcCore c).2.length = 1 := by
      by_cases h128 : c < 128
      · unfold towfcCore
        simp [h128]
      · rw [towfcCore_outside c (by omega) h]; rfl
    omega
  | true =>
    have : cellsOk c = true := by
      simp only [inWin, Bool.or_eq_true, Bool.and_eq_true, decide_eq_true_eq] at h
      rcases h with (⟨a, b⟩ | ⟨a, b⟩) | ⟨a, b⟩
      · exact allBelow_range (f := cellsOk) cells_win1 a b
      · exact allBelow_range (f := cellsOk) cells_win2 a b
      · exact allBelow_range (f := cellsOk) cells_win3 a b
    simpa [cellsOk] using this

#print axioms fold_cells

end SafeC.Fold

import SafeC.Proofs.Fmt
/-!
# The format grammar of the C standard as a specification (C09)

`PParse fmt b` — "`fmt` is a printf format of the grammar

    literal* ( %% | % flags* width? (.prec)? length? conv )*          (C11 7.21.6.1 §3–§8)

and `b` says whether one of its conversion specifications is an `n` conversion".  `SParse` is the same
for scanf formats (C11 7.21.6.2: `%`, `*`, width, length, conversion, scan sets).  The grammar is stated
on its own, as an inductive relation on the characters of the format; nothing here mentions the pre-scan,
the engine or the libc models.  Meaning lemmas:

* `PParse.append` — text before and after: formats concatenate, the `n` flags are or-ed;
* `PParse.unique` — the grammar is unambiguous: a format has at most one reading (`true` xor `false`);
* `pparse_n_anywhere` — every spelling `% flags width .prec length n`, anywhere between two formats of the
  grammar, is an `n` conversion;
* `decor_chars` — what can stand between a `%` and its conversion character.
-/
namespace SafeC.Fmt.Gram
open SafeC.Fmt

/-! ## the pieces of a conversion specification -/

/-- flag characters (C11 7.21.6.1 §6) -/
def isFlag (c : Char) : Bool := c == '-' || c == '+' || c == ' ' || c == '#' || c == '0'

/-- a decimal integer that does not start with `0` (a leading `0` is a flag) -/
def isNum (w : Str) : Bool := w.all Char.isDigit && w.head?.any (· != '0')

/-- field width: nothing, `*`, or a decimal integer -/
def isWidth (w : Str) : Bool := w == [] || w == ['*'] || isNum w

/-- precision: nothing, or `.` followed by nothing, `*`, or digits -/
def isPrec (p : Str) : Bool := p == [] || (p.head? == some '.' && (p.tail == ['*'] || p.tail.all Char.isDigit))

/-- length modifiers (C11 7.21.6.1 §7) -/
def lengths : List Str := [[], ['h', 'h'], ['h'], ['l'], ['l', 'l'], ['j'], ['z'], ['t'], ['L']]

/-- conversion specifiers (C11 7.21.6.1 §8) other than `%` -/
def convs : Str := ['d', 'i', 'o', 'u', 'x', 'X', 'f', 'F', 'e', 'E', 'g', 'G', 'a', 'A', 'c', 's', 'p', 'n']

/-- what stands between the `%` and the conversion character -/
structure Decor where
  fl : Str
  w : Str
  p : Str
  l : Str
  deriving DecidableEq, Repr

def Decor.ok (d : Decor) : Bool := d.fl.all isFlag && isWidth d.w && isPrec d.p && lengths.contains d.l
def Decor.text (d : Decor) : Str := d.fl ++ (d.w ++ (d.p ++ d.l))
/-- the undecorated specification -/
def Decor.none : Decor := ⟨[], [], [], []⟩

/-- **the printf grammar** -/
inductive PParse : Str → Bool → Prop
  | nil : PParse [] false
  | lit {c : Char} {r : Str} {b : Bool} : c ≠ '%' → PParse r b → PParse (c :: r) b
  | esc {r : Str} {b : Bool} : PParse r b → PParse ('%' :: '%' :: r) b
  | conv {d : Decor} {c : Char} {r : Str} {b : Bool} :
      d.ok = true → c ∈ convs → PParse r b → PParse ('%' :: (d.text ++ c :: r)) (c == 'n' || b)

/-- `fmt` is a format of the grammar -/
def PWf (fmt : Str) : Prop := ∃ b, PParse fmt b
/-- `fmt` is a format of the grammar and contains an `n` conversion -/
abbrev PHasN (fmt : Str) : Prop := PParse fmt true

/-! ## characters of a decoration -/

/-- the characters that can occur between `%` and the conversion character -/
def isDecorChar (c : Char) : Bool :=
  isFlag c || c.isDigit || c == '*' || c == '.' || c == 'h' || c == 'l' || c == 'j' || c == 'z' || c == 't' || c == 'L'

theorem all_mem {p : Char → Bool} {l : Str} (h : l.all p = true) : ∀ x ∈ l, p x = true := by
  simpa using h

theorem isNum_chars {w : Str} (h : isNum w = true) : ∀ x ∈ w, x.isDigit = true := by
  simp only [isNum, Bool.and_eq_true] at h
  exact all_mem h.1

theorem isWidth_chars {w : Str} (h : isWidth w = true) : ∀ x ∈ w, isDecorChar x = true := by
  simp only [isWidth, Bool.or_eq_true, beq_iff_eq] at h
  rcases h with (h | h) | h
  · subst h; simp
  · subst h; intro x hx; simp at hx; subst hx; decide
  · intro x hx; simp [isDecorChar, isNum_chars h x hx]

theorem isPrec_chars {p : Str} (h : isPrec p = true) : ∀ x ∈ p, isDecorChar x = true := by
  cases p with
  | nil => simp
  | cons a t =>
    simp only [isPrec, Bool.or_eq_true, Bool.and_eq_true, beq_iff_eq, List.head?_cons, List.tail_cons] at h
    rcases h with h | ⟨ha, h⟩
    · cases h
    · have ha : a = '.' := by simpa using ha
      subst ha
      intro x hx
      rcases List.mem_cons.mp hx with rfl | hx
      · decide
      · rcases h with h | h
        · subst h; simp at hx; subst hx; decide
        · simp [isDecorChar, all_mem h x hx]

theorem length_chars : ∀ l ∈ lengths, ∀ x ∈ l, isDecorChar x = true := by decide

theorem flag_decor {c : Char} (h : isFlag c = true) : isDecorChar c = true := by simp [isDecorChar, h]

/-- every character of a decoration is a decoration character -/
theorem decor_chars {d : Decor} (h : d.ok = true) : ∀ x ∈ d.text, isDecorChar x = true := by
  simp only [Decor.ok, Bool.and_eq_true, List.contains_iff_mem] at h
  obtain ⟨⟨⟨hf, hw⟩, hp⟩, hl⟩ := h
  intro x hx
  simp only [Decor.text, List.mem_append] at hx
  rcases hx with hx | hx | hx | hx
  · exact flag_decor (all_mem hf x hx)
  · exact isWidth_chars hw x hx
  · exact isPrec_chars hp x hx
  · exact length_chars _ (by simpa using hl) x hx

theorem flag_cases {c : Char} (h : isFlag c = true) : c = '-' ∨ c = '+' ∨ c = ' ' ∨ c = '#' ∨ c = '0' := by
  simpa [isFlag, or_assoc] using h

theorem decorChar_cases {c : Char} (h : isDecorChar c = true) :
    c.isDigit = true ∨ c ∈ ['-', '+', ' ', '#', '*', '.', 'h', 'l', 'j', 'z', 't', 'L'] := by
  simp only [isDecorChar, Bool.or_eq_true, beq_iff_eq] at h
  rcases h with ((((((((h | h) | h) | h) | h) | h) | h) | h) | h) | h
  · rcases flag_cases h with h | h | h | h | h <;> subst h <;> simp
  all_goals first | exact Or.inl h | (subst h; simp)

theorem decorChar_ne_pct {c : Char} (h : isDecorChar c = true) : c ≠ '%' := by
  intro e; subst e; revert h; decide

theorem decorChar_not_conv {c : Char} (h : isDecorChar c = true) : c ∉ convs := by
  intro hm
  rcases decorChar_cases h with hd | hd
  · have : ∀ y ∈ convs, y.isDigit = false := by decide
    rw [this c hm] at hd; cases hd
  · have : ∀ y ∈ ['-', '+', ' ', '#', '*', '.', 'h', 'l', 'j', 'z', 't', 'L'], y ∉ convs := by decide
    exact this c hd hm

theorem decorChar_ne_n {c : Char} (h : isDecorChar c = true) : c ≠ 'n' := by
  intro e; subst e; revert h; decide

theorem conv_ne_pct {c : Char} (h : c ∈ convs) : c ≠ '%' := by
  intro e; subst e; revert h; decide

theorem conv_not_decor {c : Char} (h : c ∈ convs) : isDecorChar c = false := by
  cases hd : isDecorChar c with
  | false => rfl
  | true => exact absurd h (decorChar_not_conv hd)

/-! ## text before and after -/

theorem PParse.append {f g : Str} {a b : Bool} (hf : PParse f a) (hg : PParse g b) : PParse (f ++ g) (a || b) := by
  induction hf with
  | nil => simpa using hg
  | lit hc _ ih => exact PParse.lit hc ih
  | esc _ ih => exact PParse.esc ih
  | @conv d c r b' hd hc _ ih =>
    have : ('%' :: (d.text ++ c :: r)) ++ g = '%' :: (d.text ++ c :: (r ++ g)) := by simp
    rw [this, Bool.or_assoc]
    exact PParse.conv hd hc ih

/-- every spelling of an `n` conversion, anywhere: `pre % flags width .prec length n post` -/
theorem pparse_n_anywhere {pre post : Str} {a b : Bool} (d : Decor) (hd : d.ok = true)
    (hpre : PParse pre a) (hpost : PParse post b) : PHasN (pre ++ '%' :: (d.text ++ 'n' :: post)) := by
  have h := PParse.append hpre (PParse.conv (c := 'n') hd (by decide) hpost)
  simpa using h

/-! ## the grammar is unambiguous -/

/-- splitting at the first character with property `P` is unique -/
theorem split_unique {P : Char → Bool} : ∀ {l1 l2 : Str} {c1 c2 : Char} {r1 r2 : Str},
    (∀ x ∈ l1, P x = false) → (∀ x ∈ l2, P x = false) → P c1 = true → P c2 = true →
    l1 ++ c1 :: r1 = l2 ++ c2 :: r2 → c1 = c2 ∧ r1 = r2 := by
  intro l1
  induction l1 with
  | nil =>
    intro l2 c1 c2 r1 r2 _ h2 hc1 _ he
    cases l2 with
    | nil => simpa using he
    | cons a t =>
      simp at he
      have := h2 a (by simp)
      rw [← he.1, hc1] at this; cases this
  | cons a t ih =>
    intro l2 c1 c2 r1 r2 h1 h2 hc1 hc2 he
    cases l2 with
    | nil =>
      simp at he
      have := h1 a (by simp)
      rw [he.1, hc2] at this; cases this
    | cons a' t' =>
      simp at he
      exact ih (fun x hx => h1 x (by simp [hx])) (fun x hx => h2 x (by simp [hx])) hc1 hc2 he.2

def isConvChar (c : Char) : Bool := convs.contains c

theorem conv_isConvChar {c : Char} (h : c ∈ convs) : isConvChar c = true := by simpa [isConvChar] using h

theorem decor_not_convChar {d : Decor} (h : d.ok = true) : ∀ x ∈ d.text, isConvChar x = false := by
  intro x hx
  cases hc : isConvChar x with
  | false => rfl
  | true =>
    exact absurd (by simpa [isConvChar] using hc) (decorChar_not_conv (decor_chars h x hx))

/-- a directive does not start with `%` behind its `%` -/
theorem decor_conv_head_ne_pct {d : Decor} (hd : d.ok = true) {c : Char} (hc : c ∈ convs) (r : Str) :
    (d.text ++ c :: r).head? ≠ some '%' := by
  cases ht : d.text with
  | nil => simpa using conv_ne_pct hc
  | cons a t =>
    have := decorChar_ne_pct (decor_chars hd a (by rw [ht]; simp))
    simpa using this

theorem PParse.unique : ∀ {f : Str} {a b : Bool}, PParse f a → PParse f b → a = b := by
  intro f a b h1
  induction h1 generalizing b with
  | nil => intro h2; cases h2; rfl
  | lit hc _ ih =>
    intro h2
    cases h2 with
    | lit _ h => exact ih h
    | esc _ => exact absurd rfl hc
    | conv _ _ _ => exact absurd rfl hc
  | esc _ ih =>
    intro h2
    generalize hf : ('%' :: '%' :: _ : Str) = f at h2
    cases h2 with
    | nil => cases hf
    | lit hc _ => simp at hf; exact absurd hf.1.symm hc
    | esc h => simp at hf; subst hf; exact ih h
    | @conv d c r b' hd hc h =>
      exfalso
      simp at hf
      exact decor_conv_head_ne_pct hd hc r (by rw [← hf]; rfl)
  | @conv d c r b' hd hc _ ih =>
    intro h2
    generalize hf : ('%' :: (d.text ++ c :: r) : Str) = f at h2
    cases h2 with
    | nil => cases hf
    | lit hc' _ => simp at hf; exact absurd hf.1.symm hc'
    | esc h =>
      exfalso
      simp at hf
      exact decor_conv_head_ne_pct hd hc r (by rw [hf]; rfl)
    | @conv d2 c2 r2 b2 hd2 hc2 h =>
      simp at hf
      obtain ⟨e1, e2⟩ := split_unique (P := isConvChar) (decor_not_convChar hd) (decor_not_convChar hd2)
        (conv_isConvChar hc) (conv_isConvChar hc2) hf
      subst e1; subst e2
      rw [ih h]

/-- a format of the grammar either contains an `n` conversion or does not -/
theorem PParse.not_both {f : Str} (h1 : PParse f true) (h2 : PParse f false) : False := by
  cases PParse.unique h1 h2

/-! ## the scanf grammar (C11 7.21.6.2 §3, §12) -/

/-- scanf conversion specifiers other than `[` and `%` -/
def sconvs : Str := ['d', 'i', 'o', 'u', 'x', 'X', 'f', 'F', 'e', 'E', 'g', 'G', 'a', 'A', 'c', 's', 'p', 'n']

/-- the text of a scan set between `[` and the closing `]`: optional `^`, then a first member that may be `]`,
    then members other than `]` -/
structure SetBody where
  neg : Bool
  first : Char
  rest : Str
  deriving DecidableEq, Repr

def SetBody.ok (s : SetBody) : Bool := (s.neg || s.first != '^') && !s.rest.contains ']'
def SetBody.text (s : SetBody) : Str := (if s.neg then ['^'] else []) ++ s.first :: s.rest

/-- assignment suppression, maximum field width, length modifier -/
structure SDecor where
  sup : Bool
  w : Str
  l : Str
  deriving DecidableEq, Repr

def SDecor.ok (d : SDecor) : Bool := (d.w == [] || isNum d.w) && lengths.contains d.l
def SDecor.text (d : SDecor) : Str := (if d.sup then ['*'] else []) ++ (d.w ++ d.l)

/-- **the scanf grammar**; the Boolean: some `n` conversion stores (is not suppressed by `*`).
    `okSet` restricts the scan sets that may occur (`fun _ => True`: all of them). -/
inductive SParse (okSet : SetBody → Prop) : Str → Bool → Prop
  | nil : SParse okSet [] false
  | lit {c : Char} {r : Str} {b : Bool} : c ≠ '%' → SParse okSet r b → SParse okSet (c :: r) b
  | esc {r : Str} {b : Bool} : SParse okSet r b → SParse okSet ('%' :: '%' :: r) b
  | conv {d : SDecor} {c : Char} {r : Str} {b : Bool} :
      d.ok = true → c ∈ sconvs → SParse okSet r b →
      SParse okSet ('%' :: (d.text ++ c :: r)) ((c == 'n' && !d.sup) || b)
  | set {d : SDecor} {s : SetBody} {r : Str} {b : Bool} :
      d.ok = true → s.ok = true → okSet s → SParse okSet r b →
      SParse okSet ('%' :: (d.text ++ '[' :: (s.text ++ ']' :: r))) b

/-- every scan set allowed -/
abbrev SParseAll := SParse (fun _ => True)
/-- scan sets without a `%` member -/
abbrev SParseNoPct := SParse (fun s => s.first ≠ '%' ∧ '%' ∉ s.rest)

theorem SParse.mono {P Q : SetBody → Prop} (hPQ : ∀ s, P s → Q s) {f : Str} {b : Bool} (h : SParse P f b) : SParse Q f b := by
  induction h with
  | nil => exact SParse.nil
  | lit hc _ ih => exact SParse.lit hc ih
  | esc _ ih => exact SParse.esc ih
  | conv hd hc _ ih => exact SParse.conv hd hc ih
  | set hd hs hP _ ih => exact SParse.set hd hs (hPQ _ hP) ih

theorem sdecor_chars {d : SDecor} (h : d.ok = true) : ∀ x ∈ d.text, isDecorChar x = true := by
  simp only [SDecor.ok, Bool.and_eq_true, Bool.or_eq_true, beq_iff_eq, List.contains_iff_mem] at h
  obtain ⟨hw, hl⟩ := h
  intro x hx
  simp only [SDecor.text, List.mem_append] at hx
  rcases hx with hx | hx | hx
  · split at hx
    · simp at hx; subst hx; decide
    · simp at hx
  · rcases hw with hw | hw
    · rw [hw] at hx; simp at hx
    · simp [isDecorChar, isNum_chars hw x hx]
  · exact length_chars _ (by simpa using hl) x hx

theorem SParse.append {P : SetBody → Prop} {f g : Str} {a b : Bool} (hf : SParse P f a) (hg : SParse P g b) :
    SParse P (f ++ g) (a || b) := by
  induction hf with
  | nil => simpa using hg
  | lit hc _ ih => exact SParse.lit hc ih
  | esc _ ih => exact SParse.esc ih
  | @conv d c r b' hd hc _ ih =>
    have : ('%' :: (d.text ++ c :: r)) ++ g = '%' :: (d.text ++ c :: (r ++ g)) := by simp
    rw [this, Bool.or_assoc]
    exact SParse.conv hd hc ih
  | @set d s r b' hd hs hP _ ih =>
    have : ('%' :: (d.text ++ '[' :: (s.text ++ ']' :: r))) ++ g = '%' :: (d.text ++ '[' :: (s.text ++ ']' :: (r ++ g))) := by simp
    rw [this]
    exact SParse.set hd hs hP ih

/-! ## the grammars are inhabited by non-trivial formats -/

example : PHasN "ab%5.3lld%%%-08.*hhn x".toList :=
  PParse.lit (by decide) <| PParse.lit (by decide) <|
  PParse.conv (d := ⟨[], ['5'], ['.', '3'], ['l', 'l']⟩) (by decide) (by decide) <|
  PParse.esc <|
  PParse.conv (d := ⟨['-', '0'], ['8'], ['.', '*'], ['h', 'h']⟩) (c := 'n') (by decide) (by decide) <|
  PParse.lit (by decide) <| PParse.lit (by decide) PParse.nil

example : PParse "100%% of %s".toList false :=
  PParse.lit (by decide) <| PParse.lit (by decide) <| PParse.lit (by decide) <| PParse.esc <|
  PParse.lit (by decide) <| PParse.lit (by decide) <| PParse.lit (by decide) <| PParse.lit (by decide) <|
  PParse.conv (d := Decor.none) (c := 's') (by decide) (by decide) PParse.nil

example : SParseAll "%d %*5ln%[^]%n]%hhn".toList true :=
  SParse.conv (d := ⟨false, [], []⟩) (c := 'd') (by decide) (by decide) <|
  SParse.lit (by decide) <|
  SParse.conv (d := ⟨true, ['5'], ['l']⟩) (c := 'n') (by decide) (by decide) <|
  SParse.set (d := ⟨false, [], []⟩) (s := ⟨true, ']', ['%', 'n']⟩) (by decide) (by decide) trivial <|
  SParse.conv (d := ⟨false, [], ['h', 'h']⟩) (c := 'n') (by decide) (by decide) SParse.nil

end SafeC.Fmt.Gram

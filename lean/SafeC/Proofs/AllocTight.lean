import SafeC.Proofs.AllocNorm
/-!
# C20 — tightness of the `NoFail` hypothesis for the unrepaired reorder / compose loops

* `exec_oracle_congr`: a run depends on the failure oracle only through its answers to the requests
  the run makes (meta-theorem, induction on `Prog`).
* `Keeps p`: no surviving run of `p` has a failed allocation in it.  Shown for the unrepaired
  `reorderProg` / `composeProg` under EVERY oracle: a failed malloc is dereferenced at once (memcpy), a
  failed realloc at the next store — so every run in which a request fails faults.
* consequently what was proved for `NoFail` oracles transfers to every surviving run under any oracle.
-/
namespace SafeC.Alloc
variable {α β : Type}

theorem exec_bind_ok {fails : Nat → Bool} {p : Prog α} {f : α → Prog β} {s s2 : St} {b : β}
    (h : exec fails (p >>= f) s = .ok (b, s2)) :
    ∃ a s1, exec fails p s = .ok (a, s1) ∧ exec fails (f a) s1 = .ok (b, s2) := by
  rw [exec_bind] at h
  cases hp : exec fails p s with
  | error e => rw [hp] at h; cases h
  | ok v => rcases v with ⟨a, s1⟩; rw [hp] at h; exact ⟨a, s1, rfl, h⟩

/-- a run depends on the oracle only through the requests it makes -/
theorem exec_oracle_congr {fails fails' : Nat → Bool} (p : Prog α) (s : St) {a : α} {s' : St}
    (h : exec fails p s = .ok (a, s'))
    (hag : ∀ i, s.next ≤ i → i < s'.next → fails' i = fails i) : exec fails' p s = .ok (a, s') := by
  induction p generalizing s with
  | ret x => simpa [exec] using h
  | alloc k ih =>
    simp only [exec] at h ⊢
    have step : ∀ (r : Option Blk) (st : St), st.next = s.next + 1 → exec fails (k r) st = .ok (a, s') →
        exec fails' (k r) st = .ok (a, s') ∧ s.next < s'.next := by
      intro r st hn hk
      have m := (exec_mono _ _ hk).1
      exact ⟨ih r st hk (fun i h1 h2 => hag i (by omega) h2), by omega⟩
    by_cases hf : fails s.next = true
    · rw [if_pos hf] at h
      obtain ⟨h1, h2⟩ := step _ _ (by simp [St.allocFail]) h
      rw [if_pos (by rw [hag s.next (Nat.le_refl _) h2]; exact hf)]; exact h1
    · rw [if_neg hf] at h
      obtain ⟨h1, h2⟩ := step _ _ (by simp [St.allocOk]) h
      rw [if_neg (by rw [hag s.next (Nat.le_refl _) h2]; exact hf)]; exact h1
  | realloc old k ih =>
    have step : ∀ (r : Option Blk) (st : St), st.next = s.next + 1 → exec fails (k r) st = .ok (a, s') →
        exec fails' (k r) st = .ok (a, s') ∧ s.next < s'.next := by
      intro r st hn hk
      have m := (exec_mono _ _ hk).1
      exact ⟨ih r st hk (fun i h1 h2 => hag i (by omega) h2), by omega⟩
    cases old with
    | none =>
      simp only [exec] at h ⊢
      by_cases hf : fails s.next = true
      · rw [if_pos hf] at h
        obtain ⟨h1, h2⟩ := step _ _ (by simp [St.allocFail]) h
        rw [if_pos (by rw [hag s.next (Nat.le_refl _) h2]; exact hf)]; exact h1
      · rw [if_neg hf] at h
        obtain ⟨h1, h2⟩ := step _ _ (by simp [St.allocOk]) h
        rw [if_neg (by rw [hag s.next (Nat.le_refl _) h2]; exact hf)]; exact h1
    | some b =>
      simp only [exec] at h ⊢
      by_cases hb : b ∈ s.live
      · rw [if_pos hb] at h ⊢
        by_cases hf : fails s.next = true
        · rw [if_pos hf] at h
          obtain ⟨h1, h2⟩ := step _ _ (by simp [St.allocFail]) h
          rw [if_pos (by rw [hag s.next (Nat.le_refl _) h2]; exact hf)]; exact h1
        · rw [if_neg hf] at h
          obtain ⟨h1, h2⟩ := step _ _ (by simp [St.allocOk]) h
          rw [if_neg (by rw [hag s.next (Nat.le_refl _) h2]; exact hf)]; exact h1
      · rw [if_neg hb] at h; cases h
  | free b k ih =>
    cases b with
    | none => simp only [exec] at h ⊢; exact ih _ h (fun i h1 h2 => hag i h1 h2)
    | some b =>
      simp only [exec] at h ⊢
      by_cases hb : b ∈ s.live
      · rw [if_pos hb] at h ⊢; exact ih _ h (fun i h1 h2 => hag i h1 h2)
      · rw [if_neg hb] at h; cases h
  | deref b k ih =>
    cases b with
    | none => simp only [exec] at h; cases h
    | some b =>
      simp only [exec] at h ⊢
      by_cases hb : b ∈ s.live
      · rw [if_pos hb] at h ⊢; exact ih _ h hag
      · rw [if_neg hb] at h; cases h
  | emit e k ih =>
    simp only [exec] at h ⊢
    exact ih _ h (fun i h1 h2 => hag i (by cases e <;> simpa [St.onEmit] using h1) h2)

/-- no surviving run of `p` contains a failed allocation request -/
def Keeps (p : Prog α) : Prop :=
  ∀ (fails : Nat → Bool) (s : St) (a : α) (s' : St), exec fails p s = .ok (a, s') → s'.nfail = s.nfail

theorem keeps_pure (x : α) : Keeps (pure x : Prog α) := by
  intro fails s a s' h; simp at h; rw [h.2]

theorem keeps_bind {p : Prog α} {f : α → Prog β} (hp : Keeps p) (hf : ∀ a, Keeps (f a)) : Keeps (p >>= f) := by
  intro fails s b s2 h
  obtain ⟨a, s1, h1, h2⟩ := exec_bind_ok h
  rw [hf a fails s1 b s2 h2, hp fails s a s1 h1]

theorem keeps_free (b : Option Blk) : Keeps (free b) := by
  intro fails s a s' h
  cases b with
  | none => simp at h; rw [← h]
  | some b =>
    rw [exec_free_some] at h
    split at h
    · simp at h; rw [← h]
    · cases h

theorem keeps_deref (b : Option Blk) : Keeps (deref b) := by
  intro fails s a s' h
  cases b with
  | none => simp at h
  | some b =>
    rw [exec_deref_some] at h
    split at h
    · simp at h; rw [h]
    · cases h

theorem keeps_handler : Keeps handler := by
  intro fails s a s' h; simp at h; rw [← h]; simp [St.onEmit]
theorem keeps_clear : Keeps clear := by
  intro fails s a s' h; simp at h; rw [← h]; simp [St.onEmit]

theorem keeps_ite {c : Prop} [Decidable c] {p q : Prog α} (hp : Keeps p) (hq : Keeps q) : Keeps (if c then p else q) := by
  split <;> assumption

theorem keeps_freeIf (b : Option Blk) : Keeps (freeIf b) := keeps_ite (keeps_free b) (keeps_pure ())
theorem keeps_touch (d : Ptr) : Keeps (touch d) := by
  cases d with
  | caller => exact keeps_pure ()
  | heap b => exact keeps_deref b
theorem keeps_useSeq (q : Seq) : Keeps (useSeq q) := keeps_ite (keeps_deref _) (keeps_pure ())

theorem keeps_bail (fixed : Bool) (q : Seq) : Keeps (bail fixed q) := by
  unfold bail
  refine keeps_bind keeps_clear fun _ => keeps_bind keeps_handler fun _ => ?_
  cases fixed with
  | false => simp only [Bool.false_eq_true, if_false]; exact keeps_bind (keeps_pure _) fun _ => keeps_pure _
  | true => simp only [if_true]; exact keeps_bind (keeps_freeIf _) fun _ => keeps_pure _
theorem keeps_bailNoMem (q : Seq) : Keeps (bailNoMem q) :=
  keeps_bind keeps_clear fun _ => keeps_bind keeps_handler fun _ => keeps_pure _
theorem keeps_checkRoom (fixed : Bool) (q : Seq) (v : Bool) : Keeps (checkRoom fixed q v) :=
  keeps_ite (keeps_bail _ _) (keeps_pure _)

theorem keeps_reorderFlush (fixed : Bool) (dest : Ptr) (m : Bool) (q : Seq) : Keeps (reorderFlush fixed dest m q) := by
  unfold reorderFlush
  simp only []
  have starter : ∀ q1 : Seq, Keeps (if (!m) = true then (do touch dest; checkRoom fixed (q1.wrote 1) true) else checkRoom fixed q1 true) :=
    fun q1 => keeps_ite (keeps_bind (keeps_touch _) fun _ => keeps_checkRoom _ _ _) (keeps_checkRoom _ _ _)
  exact keeps_ite (keeps_ite (keeps_bail _ _) (keeps_bind (keeps_useSeq _) fun _ => keeps_bind (keeps_touch _) fun _ => starter _)) (starter _)

theorem keeps_composeOut (fixed : Bool) (dest : Ptr) (q : Seq) : Keeps (composeOut fixed dest q) := by
  unfold composeOut
  refine keeps_bind (keeps_touch _) fun _ => ?_
  simp only []
  exact keeps_ite (keeps_bail _ _) (keeps_ite (keeps_bind (keeps_useSeq _) fun _ => keeps_bind (keeps_touch _) fun _ => keeps_pure _) (keeps_pure _))

/-- the unrepaired growth step: a surviving run either had no failure, or (failed realloc) hands back
`seq_ptr = seq_ext = NULL` -/
theorem grow_unrepaired_ok {fails : Nat → Bool} (q : Seq) (s : St) (r : Option Seq) (s' : St)
    (h : exec fails (grow false q) s = .ok (r, s')) :
    s'.nfail = s.nfail ∨ ∃ q', r = some q' ∧ q'.ext = none ∧ q'.useExt = true := by
  unfold grow at h
  by_cases hg : q.seqMax < q.ccPos + 1
  · simp only [hg, if_true] at h
    by_cases h10 : (q.ccPos == CC_SEQ_SIZE) = true
    · simp only [h10, if_true, Bool.false_and, Bool.false_eq_true, if_false] at h
      obtain ⟨e, s1, h1, h2⟩ := exec_bind_ok h
      rw [exec_malloc] at h1
      by_cases hf : fails s.next = true
      · rw [if_pos hf] at h1; cases h1
        obtain ⟨u, s2, h3, _⟩ := exec_bind_ok h2
        simp at h3
      · rw [if_neg hf] at h1; cases h1
        obtain ⟨u, s2, h3, h4⟩ := exec_bind_ok h2
        left
        have k1 := keeps_deref _ fails _ _ _ h3
        simp at h4
        rw [← h4.2, k1]; simp [St.allocOk]
    · simp only [h10, Bool.false_eq_true, if_false, Bool.false_and] at h
      obtain ⟨e, s1, h1, h2⟩ := exec_bind_ok h
      simp at h2
      obtain ⟨rfl, rfl⟩ := h2
      have hm := exec_nfail_iff _ _ h1
      have mono := exec_mono _ _ h1
      cases e with
      | some b =>
        left
        -- a successful realloc: the failure counter did not move
        cases hq : q.ext with
        | none =>
          rw [hq] at h1; simp only [realloc, exec] at h1
          split at h1 <;> simp [St.allocFail, St.allocOk] at h1
          rw [← h1.2]
        | some b0 =>
          rw [hq] at h1; simp only [realloc, exec] at h1
          split at h1
          · split at h1 <;> simp [St.allocFail, St.allocOk] at h1
            rw [← h1.2]
          · cases h1
      | none => right; exact ⟨_, rfl, rfl, rfl⟩
  · simp only [hg, if_false] at h
    simp at h
    left; rw [h.2]

theorem keeps_collect_unrepaired (q : Seq) : Keeps (collect false q) := by
  intro fails s r s' h
  unfold collect at h
  obtain ⟨g, s1, h1, h2⟩ := exec_bind_ok h
  rcases grow_unrepaired_ok q s g s1 h1 with hk | ⟨q', rfl, he, hu⟩
  · cases g with
    | none => simp at h2; rw [← h2.2, hk]
    | some q' =>
      simp only [] at h2
      have := keeps_bind (keeps_useSeq q') (fun _ => keeps_pure (some { q' with ccPos := q'.ccPos + 1 })) fails s1 r s' h2
      rw [this, hk]
  · simp only [] at h2
    obtain ⟨u, s2, h3, _⟩ := exec_bind_ok h2
    simp [useSeq, hu, he] at h3

theorem keeps_reorderStep (dest : Ptr) (m last : Bool) (q : Seq) : Keeps (reorderStep false dest m last q) := by
  unfold reorderStep
  refine keeps_ite (keeps_bind (keeps_collect_unrepaired q) fun r => ?_) (keeps_reorderFlush _ _ _ _)
  cases r with
  | none => exact keeps_bailNoMem _
  | some q' => exact keeps_ite (keeps_pure _) (keeps_reorderFlush _ _ _ _)

theorem keeps_reorderLoop (dest : Ptr) (cells : List Bool) (q : Seq) : Keeps (reorderLoop false dest cells q) := by
  induction cells generalizing q with
  | nil =>
    unfold reorderLoop
    exact keeps_bind (keeps_freeIf _) fun _ => keeps_bind (keeps_touch _) fun _ => keeps_pure _
  | cons m rest ih =>
    unfold reorderLoop
    refine keeps_bind (keeps_reorderStep dest m rest.isEmpty q) fun st => ?_
    cases st with
    | done o => exact keeps_pure _
    | next q' v => exact ih q'

theorem keeps_failH : Keeps failH := keeps_bind keeps_handler fun _ => keeps_pure _
theorem keeps_failCH : Keeps failCH := keeps_bind keeps_clear fun _ => keeps_bind keeps_handler fun _ => keeps_pure _

/-- unrepaired wcsnorm_reorder_s: every run in which an allocation request fails faults -/
theorem keeps_reorderProg (fx : Fixes) (h : fx.reorder = false) (dest : Ptr) (dmax : Nat) (cells : List Bool) :
    Keeps (reorderProg fx dest dmax cells) := by
  unfold reorderProg
  rw [h]
  exact keeps_ite keeps_failH (keeps_reorderLoop _ _ _)

theorem keeps_composeStep (dest src : Ptr) (c : CCell) (last valid : Bool) (q : Seq) :
    Keeps (composeStep false dest src c last valid q) := by
  unfold composeStep
  refine keeps_bind (keeps_touch _) fun _ => ?_
  have col : ∀ b : Bool, Keeps (do
      match ← collect false q with
      | none => bailNoMem q
      | some q' => if b = true then pure (.next q' true) else composeOut false dest q') := by
    intro b
    refine keeps_bind (keeps_collect_unrepaired q) fun r => ?_
    cases r with
    | none => exact keeps_bailNoMem _
    | some q' => exact keeps_ite (keeps_pure _) (keeps_composeOut _ _ _)
  refine keeps_ite (keeps_ite (keeps_ite (keeps_pure _) (keeps_composeOut _ _ _)) (keeps_bind (keeps_touch _) fun _ => keeps_checkRoom _ _ _)) ?_
  refine keeps_ite (keeps_ite (keeps_pure _) (keeps_composeOut _ _ _)) ?_
  refine keeps_ite ?_ (keeps_composeOut _ _ _)
  exact col _

theorem keeps_composeLoop (dest src : Ptr) (cells : List CCell) (valid : Bool) (q : Seq) :
    Keeps (composeLoop false dest src cells valid q) := by
  induction cells generalizing q valid with
  | nil =>
    unfold composeLoop
    exact keeps_bind (keeps_freeIf _) fun _ => keeps_bind (keeps_touch _) fun _ => keeps_pure _
  | cons c rest ih =>
    unfold composeLoop
    refine keeps_bind (keeps_composeStep dest src c rest.isEmpty valid q) fun st => ?_
    cases st with
    | done o => exact keeps_pure _
    | next q' v => exact ih v q'

/-- unrepaired wcsnorm_compose_s: every run in which an allocation request fails faults -/
theorem keeps_composeProg (fx : Fixes) (h : fx.compose = false) (dest src : Ptr) (dmax : Nat) (cells : List CCell) :
    Keeps (composeProg fx dest src dmax cells) := by
  unfold composeProg
  rw [h]
  exact keeps_ite keeps_failCH (keeps_composeLoop _ _ _ _ _)

/-- transfer: what holds of a program's runs under the never-failing oracle holds of every surviving run of a
`Keeps` program under any oracle (the run is literally the same) -/
theorem keeps_transfer {p : Prog α} (hk : Keeps p) {fails : Nat → Bool} {s : St} {a : α} {s' : St}
    (h : exec fails p s = .ok (a, s')) : exec (fun _ => false) p s = .ok (a, s') := by
  have hn := hk fails s a s' h
  have hiff := exec_nfail_iff p s h
  refine exec_oracle_congr p s h (fun i h1 h2 => ?_)
  by_cases hf : fails i = true
  · have : s.nfail < s'.nfail := hiff.2 ⟨i, h1, h2, hf⟩
    omega
  · simpa using hf

end SafeC.Alloc

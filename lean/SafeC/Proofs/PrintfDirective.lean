import SafeC.Proofs.PrintfParse
/-!
# C11: one conversion specification end to end — `directive` (parser + conversion) = `Spec.parseDir` + `Spec.render`
-/
namespace SafeC.Printf
open SafeC.Printf.Spec

/-- what the end-to-end theorem asks of one conversion specification: width and precision numerals below 2^32 (the
    engine's `unsigned int` accumulator), and for the numeric conversions the 32-byte digit buffer bound `IntOK` -/
def DirOK (d : Dir) : Prop :=
  d.width < 2 ^ 32 ∧ d.prec.getD 0 < 2 ^ 32 ∧
  ((d.conv = 'd' ∨ d.conv = 'i' ∨ d.conv = 'u' ∨ d.conv = 'o' ∨ d.conv = 'x' ∨ d.conv = 'X') → IntOK d)

instance (d : Dir) : Decidable (DirOK d) := by unfold DirOK; infer_instance

theorem render_conv (d : Dir) (a : List Arg) (t : Str) (a' : List Arg) (h : render d a = some (t, a')) :
    (d.conv = 'd' ∨ d.conv = 'i' ∨ d.conv = 'u' ∨ d.conv = 'o' ∨ d.conv = 'x' ∨ d.conv = 'X') ∨
    (d.conv = 'c' ∧ d.len = .none ∧ ∃ v, a = .int v :: a' ∧ t = padField d [Char.ofNat (wrapU 8 v)]) ∨
    (d.conv = 's' ∧ d.len = .none ∧ ∃ p, a = .str (some p) :: a' ∧ t = padField d (strCore d p)) := by
  unfold render at h
  by_cases h1 : d.conv = 'd' ∨ d.conv = 'i'
  · left; rcases h1 with h1 | h1 <;> simp [h1]
  · by_cases h2 : d.conv = 'u'
    · left; simp [h2]
    · by_cases h3 : d.conv = 'o'
      · left; simp [h3]
      · by_cases h4 : d.conv = 'x' ∨ d.conv = 'X'
        · left; rcases h4 with h4 | h4 <;> simp [h4]
        · right
          simp only [h1, h2, h3, h4, if_false] at h
          by_cases h5 : d.conv = 'c'
          · left
            simp only [h5, if_true] at h
            split at h
            · cases h
            · rename_i hc
              split at h
              · simp only [Option.some.injEq, Prod.mk.injEq] at h
                obtain ⟨rfl, rfl⟩ := h
                refine ⟨h5, ?_, _, rfl, rfl⟩
                simp at hc; exact hc.2.2.2
              · cases h
          · right
            simp only [h5, if_false] at h
            by_cases h6 : d.conv = 's'
            · simp only [h6, if_true] at h
              split at h
              · cases h
              · rename_i hc
                split at h
                · simp only [Option.some.injEq, Prod.mk.injEq] at h
                  obtain ⟨rfl, rfl⟩ := h
                  refine ⟨h6, ?_, _, rfl, rfl⟩
                  simp at hc; exact hc.2.2
                · cases h
            · simp [h6] at h

/-- the repairs the end-to-end theorems are stated for (all but `lcMemcpy`/`sprintfExact`, which these directives do not reach) -/
def Repaired (fx : Fixes) : Prop := fx.minusPrec = true ∧ fx.hash = true ∧ fx.negStarPrec = true ∧ fx.strPrec0 = true

theorem option_bind_some {α β : Type} (x : Option α) (f : α → Option β) (y : β) (h : x >>= f = some y) : ∃ a, x = some a ∧ f a = some y := by
  cases x with
  | none => cases h
  | some a => exact ⟨a, rfl, h⟩

theorem sLen_pres (d : Dir) (f : Str) : (sLen d f).1.width = d.width ∧ (sLen d f).1.prec = d.prec := by
  unfold sLen; split <;> exact ⟨rfl, rfl⟩

/-- **one conversion specification, parser included.**  If `Spec.parseDir` reads a specification `d` at `f` and
    `Spec.render` defines its text, the repaired engine's `directive` emits exactly that text, leaves the same rest of the
    format and the same remaining arguments. -/
theorem directive_eq (fx : Fixes) (hfx : Repaired fx) (sk : Sink) (m : Nat) (f : Str) (args : List Arg) (s : St)
    (d : Dir) (r' : Str) (a0 : List Arg) (text : Str) (a' : List Arg)
    (hp : parseDir f args = some (d, r', a0)) (hr : render d a0 = some (text, a')) (hok : DirOK d)
    (hroom : (sk = .buffer ∧ s.idx ≤ m) ∨ s.idx + text.length ≤ m) :
    directive fx sk m f args s = (emitAll sk m text s).map (fun s' => (r', a', s')) := by
  obtain ⟨hm, hx, hn, hs0⟩ := hfx
  rw [parseDir_stages] at hp
  obtain ⟨⟨d1, f1, a1⟩, hw, hp⟩ := option_bind_some _ _ _ hp
  simp only [stage2] at hp
  obtain ⟨⟨d2, f2, a2⟩, hpr, hp⟩ := option_bind_some _ _ _ hp
  simp only [stage3] at hp
  -- the flag word
  have hd0 : (setFlags {} (f.takeWhile isFlag)).len = .none ∧ (setFlags {} (f.takeWhile isFlag)).prec = Option.none :=
    ⟨(setFlags_len _ _).1, (setFlags_len _ _).2.1⟩
  have hf := parseFlags_eq f {} rfl
  have hcfl0 : cfl ({} : Dir) = ({} : Flags) := rfl
  rw [hcfl0] at hf
  cases hl3 : sLen d2 f2 with
  | mk d3 f3 =>
    rw [hl3] at hp
    simp only at hp
    cases f3 with
    | nil => cases hp
    | cons c r3 =>
      simp only [Option.pure_def, Option.some.injEq, Prod.mk.injEq] at hp
      obtain ⟨hd, rfl, rfl⟩ := hp
      have hconv : d.conv = c := by rw [← hd]
      have hrc := render_conv d a2 text a' hr
      -- no `L` in front of the conversion character
      have hL : f2.head? ≠ some 'L' := by
        intro hh
        cases f2 with
        | nil => cases hh
        | cons c2 t =>
          simp only [List.head?_cons, Option.some.injEq] at hh
          subst hh
          have : sLen d2 ('L' :: t) = (d2, 'L' :: t) := rfl
          rw [this] at hl3
          simp only [Prod.mk.injEq, List.cons.injEq] at hl3
          have hcL : d.conv = 'L' := by rw [hconv, ← hl3.2.1]
          rcases hrc with h | h | h
          · rcases h with h | h | h | h | h | h <;> rw [hcL] at h <;> exact absurd h (by decide)
          · rw [hcL] at h; exact absurd h.1 (by decide)
          · rw [hcL] at h; exact absurd h.1 (by decide)
      obtain ⟨hok1, hok2, hok3⟩ := hok
      -- widths and precisions along the stages
      have hd1 := parseWidth_eq _ hd0.1 _ args d1 f1 a1 hw
      have hlen1 : d1.len = .none ∧ d1.prec = Option.none := by
        unfold sWidth at hw
        split at hw
        · cases hs : starArg args with
          | none => simp [hs] at hw
          | some p =>
            simp only [hs, Option.bind_eq_bind, Option.bind_some, Option.pure_def, Option.some.injEq, Prod.mk.injEq] at hw
            rw [← hw.1]; split <;> exact hd0
        · simp only [Option.pure_def, Option.some.injEq, Prod.mk.injEq] at hw
          rw [← hw.1]; exact hd0
      have h3 := sLen_pres d2 f2
      rw [hl3] at h3
      have hdw : d.width = d3.width := by rw [← hd]
      have hdp : d.prec = d3.prec := by rw [← hd]
      have hP := parsePrec_eq fx hn d1 hlen1.1 hlen1.2 f1 a1 d2 f2 a2 hpr (by rw [← h3.2, ← hdp]; exact hok2)
      obtain ⟨hP1, hP2, hP3⟩ := hP
      obtain ⟨hW1, _, _⟩ := hd1 (by rw [← hP3, ← h3.1, ← hdw]; exact hok1)
      have hLn := parseLength_eq d2 (by rw [hP2]; exact hlen1.1) f2 hL
      rw [hl3] at hLn
      have hcfl : cfl d3 = cfl d := by rw [← hd]; rfl
      -- run the engine's parser
      unfold directive
      simp only [hf, hW1, hP1, hLn.1, bind, Except.bind, hcfl]
      rw [show d1.width = d.width by rw [← hP3, ← h3.1, ← hdw], show d2.prec.getD 0 = d.prec.getD 0 by rw [← h3.2, ← hdp]]
      rw [← hconv]
      rcases hrc with h6 | ⟨hc, hln, v, rfl, rfl⟩ | ⟨hc, hln, p, rfl, rfl⟩
      · have hif : d.conv = 'd' ∨ d.conv = 'i' ∨ d.conv = 'u' ∨ d.conv = 'x' ∨ d.conv = 'X' ∨ d.conv = 'o' ∨ d.conv = 'b' := by
          rcases h6 with h | h | h | h | h | h <;> simp [h]
        rw [if_pos hif, convInt_eq fx hm hx sk m d h6 a2 s text a' hr (hok3 h6)]
        cases emitAll sk m text s <;> rfl
      · simp only [hc, show ¬ (('c' : Char) = 'd' ∨ ('c' : Char) = 'i' ∨ ('c' : Char) = 'u' ∨ ('c' : Char) = 'x' ∨ ('c' : Char) = 'X' ∨ ('c' : Char) = 'o' ∨ ('c' : Char) = 'b') by decide,
          show ¬ (('c' : Char) = 'f' ∨ ('c' : Char) = 'F' ∨ ('c' : Char) = 'e' ∨ ('c' : Char) = 'E' ∨ ('c' : Char) = 'g' ∨ ('c' : Char) = 'G' ∨ ('c' : Char) = 'a' ∨ ('c' : Char) = 'A') by decide,
          if_false, if_true]
        rw [convChar_eq fx sk m d hln v a' s]
        cases emitAll sk m _ s <;> rfl
      · simp only [hc, show ¬ (('s' : Char) = 'd' ∨ ('s' : Char) = 'i' ∨ ('s' : Char) = 'u' ∨ ('s' : Char) = 'x' ∨ ('s' : Char) = 'X' ∨ ('s' : Char) = 'o' ∨ ('s' : Char) = 'b') by decide,
          show ¬ (('s' : Char) = 'f' ∨ ('s' : Char) = 'F' ∨ ('s' : Char) = 'e' ∨ ('s' : Char) = 'E' ∨ ('s' : Char) = 'g' ∨ ('s' : Char) = 'G' ∨ ('s' : Char) = 'a' ∨ ('s' : Char) = 'A') by decide,
          show ¬ (('s' : Char) = 'c') by decide, if_false, if_true]
        rw [convStr_eq fx hs0 sk m d hln p a' s hroom]
        cases emitAll sk m _ s <;> rfl

end SafeC.Printf

import SafeC.Proofs.Interleave
/-!
# Reentrancy for N threads, with shared read-only data (C12)

`Interleave.lean` proves the two-thread theorem for footprints `Within F` that do not distinguish
loads from stores.  Here:

* `Within2 R W p s`: every load of the run of `p` from `s` is at a cell of `R`, every store at a cell of `W`;
* a POOL of threads `ι → Thread` over an arbitrary index type (any number of threads, each with its own
  result type: `Thread = Σ α, Prog α`), run under an arbitrary schedule `List ι` (`runPool`);
* non-interference: no thread stores into a cell another thread loads or stores
  (`∀ i ≠ j, W i ∩ (R j ∪ W j) = ∅`) — cells that are only READ may be shared by any number of threads;
* `pool_invariant` (induction over the schedule, no bound on its length, no assumption that anything
  finishes): at EVERY point of EVERY schedule, each thread's remaining program, run alone from the
  current memory, returns what the whole thread returns when run alone from the initial memory and leaves
  the same contents in the thread's cells; cells nobody writes are untouched;
* `pool_finished`: hence a thread that has finished has returned its run-alone result and its cells hold
  its run-alone contents — whatever the other threads did in between and whether or not they have finished;
* `seq_char`, `interleave_eq_seq`: running the threads one after the other in ANY order gives the same
  results and, when all have finished, the same memory as any interleaving;
* `runSched_pool`, `interleave_shared`: the two-thread scheduler of `Interleave.lean` is the pool over
  `Bool`; the two-thread theorem with shared read-only cells.

Handler events: `emit` steps are allowed and interleave in `St.events` in schedule order; results and
memory contents do not depend on them (the theorems say nothing about the order of events).
-/
namespace SafeC

/-- every load of the run of `p` from `s` is at a cell of `R`, every store at a cell of `W` -/
def Within2 (R W : Nat → Prop) : Prog α → St → Prop
  | .ret _, _ => True
  | .load a k, s => R a ∧ Within2 R W (k (s.data a)) s
  | .store a v k, s => W a ∧ Within2 R W k (s.upd a v)
  | .emit e k, s => Within2 R W k { s with events := s.events ++ [e] }

theorem Within2.within {R W : Nat → Prop} (p : Prog α) (s : St) :
    Within2 R W p s → Within (fun a => R a ∨ W a) p s := by
  induction p generalizing s with
  | ret x => intro _; trivial
  | load a k ih => intro ⟨hf, hw⟩; exact ⟨Or.inl hf, ih _ s hw⟩
  | store a v k ih => intro ⟨hf, hw⟩; exact ⟨Or.inr hf, ih _ hw⟩
  | emit e k ih => intro hw; exact ih _ hw

theorem within2_of_within {F : Nat → Prop} (p : Prog α) (s : St) : Within F p s → Within2 F F p s := by
  induction p generalizing s with
  | ret x => intro _; trivial
  | load a k ih => intro ⟨hf, hw⟩; exact ⟨hf, ih _ s hw⟩
  | store a v k ih => intro ⟨hf, hw⟩; exact ⟨hf, ih _ hw⟩
  | emit e k ih => intro hw; exact ih _ hw

theorem within2_mono {R W R' W' : Nat → Prop} (hr : ∀ a, R a → R' a) (hw : ∀ a, W a → W' a)
    (p : Prog α) (s : St) : Within2 R W p s → Within2 R' W' p s := by
  induction p generalizing s with
  | ret x => intro _; trivial
  | load a k ih => intro ⟨hf, h⟩; exact ⟨hr a hf, ih _ s h⟩
  | store a v k ih => intro ⟨hf, h⟩; exact ⟨hw a hf, ih _ h⟩
  | emit e k ih => intro h; exact ih _ h

/-- the footprint of a run depends only on the cells it LOADS -/
theorem within2_congr {R W : Nat → Prop} (p : Prog α) (s s' : St) (h : AgreeOn R s s') :
    Within2 R W p s → Within2 R W p s' := by
  induction p generalizing s s' with
  | ret x => intro _; trivial
  | load a k ih =>
    intro ⟨hf, hw⟩
    refine ⟨hf, ?_⟩
    rw [← h a hf]
    exact ih (s.data a) s s' h hw
  | store a v k ih =>
    intro ⟨hf, hw⟩
    exact ⟨hf, ih _ _ (h.upd a v) hw⟩
  | emit e k ih =>
    intro hw
    exact ih { s with events := s.events ++ [e] } { s' with events := s'.events ++ [e] }
      (fun a ha => h a ha) hw

/-- a run leaves every cell it is not entitled to STORE to alone (cells it only reads included) -/
theorem runT_frame2 {R W : Nat → Prop} (p : Prog α) (s : St) (hw : Within2 R W p s) :
    ∀ a, ¬ W a → (runT p s).2.data a = s.data a := by
  induction p generalizing s with
  | ret x => intro a _; rfl
  | load a k ih => intro x hx; exact ih (s.data a) s hw.2 x hx
  | store a v k ih =>
    intro x hx
    have := ih (s.upd a v) hw.2 x hx
    simp only [runT]
    rw [this]
    exact AgreeOn.upd_left (F := fun y => ¬ W y) s a v (fun h => h hw.1) x hx
  | emit e k ih => intro x hx; exact ih _ hw x hx

/-! ## threads and pools -/

/-- a thread: a program together with its result type -/
abbrev Thread := Σ α : Type, Prog α

namespace Thread

/-- one atomic step -/
def step (th : Thread) (s : St) : Thread × St := (⟨th.1, (SafeC.step th.2 s).1⟩, (SafeC.step th.2 s).2)

/-- the thread after running to completion ALONE from `s` -/
def finish (th : Thread) (s : St) : Thread := ⟨th.1, .ret (runT th.2 s).1⟩

/-- the memory contents after running to completion ALONE from `s` -/
def final (th : Thread) (s : St) : Nat → Nat := (runT th.2 s).2.data

def isDone (th : Thread) : Bool := SafeC.done th.2

/-- footprint of the (remaining) run from `s` -/
def Fp (R W : Nat → Prop) (th : Thread) (s : St) : Prop := Within2 R W th.2 s

theorem finish_of_done (th : Thread) (s : St) (h : th.isDone = true) : th.finish s = th ∧ th.final s = s.data := by
  obtain ⟨α, p⟩ := th
  cases p with
  | ret x => exact ⟨rfl, rfl⟩
  | load _ _ => simp [isDone, done] at h
  | store _ _ _ => simp [isDone, done] at h
  | emit _ _ => simp [isDone, done] at h

/-- the stepping thread: its remaining footprint, its run-alone result and final contents are unchanged
by its own step; the step changes at most one cell, one it may store to -/
theorem step_own {R W : Nat → Prop} (th : Thread) (s : St) (h : th.Fp R W s) :
    (th.step s).1.Fp R W (th.step s).2 ∧ (th.step s).1.finish (th.step s).2 = th.finish s ∧
    (th.step s).1.final (th.step s).2 = th.final s ∧ (∀ a, ¬ W a → (th.step s).2.data a = s.data a) := by
  obtain ⟨α, p⟩ := th
  cases p with
  | ret x => exact ⟨h, rfl, rfl, fun _ _ => rfl⟩
  | load a k => exact ⟨h.2, rfl, rfl, fun _ _ => rfl⟩
  | store a v k =>
    refine ⟨h.2, rfl, rfl, ?_⟩
    intro x hx
    exact AgreeOn.upd_left (F := fun y => ¬ W y) s a v (fun hh => hh h.1) x hx
  | emit e k => exact ⟨h, rfl, rfl, fun _ _ => rfl⟩

/-- any other thread: a change of the memory outside its cells is invisible to it -/
theorem other {R W : Nat → Prop} (u : Thread) (s s' : St) (hag : AgreeOn (fun a => R a ∨ W a) s' s)
    (h : u.Fp R W s) :
    u.Fp R W s' ∧ u.finish s' = u.finish s ∧ ∀ a, R a ∨ W a → u.final s' a = u.final s a := by
  have hag' : AgreeOn (fun a => R a ∨ W a) s s' := fun a ha => (hag a ha).symm
  have h' : u.Fp R W s' := within2_congr u.2 s s' (fun a ha => hag' a (Or.inl ha)) h
  have hc := runT_congr u.2 s s' hag' (Within2.within u.2 s h)
  refine ⟨h', ?_, ?_⟩
  · simp only [finish]; rw [hc.1]
  · intro a ha; exact (hc.2 a ha).symm

end Thread

variable {ι : Type} [DecidableEq ι]

/-- run a pool of threads under a schedule: the scheduled thread takes one atomic step -/
def runPool : List ι → (ι → Thread) → St → (ι → Thread) × St
  | [], ps, s => (ps, s)
  | i :: sch, ps, s => runPool sch (fun j => if j = i then ((ps i).step s).1 else ps j) ((ps i).step s).2

/-- no thread stores into a cell that another thread loads or stores -/
def NonInterf (R W : ι → Nat → Prop) : Prop := ∀ i j, i ≠ j → ∀ a, W i a → ¬ R j a ∧ ¬ W j a

/-- **The invariant of every schedule.**  At every point of every schedule, for every thread `i`: the
remaining program stays inside the thread's footprint; run alone from the CURRENT memory it returns what
the whole thread returns run alone from the INITIAL memory, and leaves the same contents in the thread's
cells.  Cells that no thread may store to are unchanged. -/
theorem pool_invariant {R W : ι → Nat → Prop} (hni : NonInterf R W) (sch : List ι) (ps : ι → Thread) (s : St)
    (hw : ∀ i, (ps i).Fp (R i) (W i) s) :
    (∀ i, ((runPool sch ps s).1 i).Fp (R i) (W i) (runPool sch ps s).2) ∧
    (∀ i, ((runPool sch ps s).1 i).finish (runPool sch ps s).2 = (ps i).finish s) ∧
    (∀ i a, R i a ∨ W i a → ((runPool sch ps s).1 i).final (runPool sch ps s).2 a = (ps i).final s a) ∧
    (∀ a, (∀ i, ¬ W i a) → (runPool sch ps s).2.data a = s.data a) := by
  induction sch generalizing ps s with
  | nil => exact ⟨hw, fun _ => rfl, fun _ _ _ => rfl, fun _ _ => rfl⟩
  | cons i sch ih =>
    simp only [runPool]
    have own := Thread.step_own (ps i) s (hw i)
    -- the step of thread `i` is invisible on the cells of every other thread
    have hag : ∀ j, j ≠ i → AgreeOn (fun a => R j a ∨ W j a) ((ps i).step s).2 s := by
      intro j hj a ha
      apply own.2.2.2
      intro hwi
      have := hni i j (fun e => hj e.symm) a hwi
      rcases ha with ha | ha
      · exact this.1 ha
      · exact this.2 ha
    have hw1 : ∀ j, (if j = i then ((ps i).step s).1 else ps j).Fp (R j) (W j) ((ps i).step s).2 := by
      intro j
      by_cases hj : j = i
      · subst hj; simp only [if_true]; exact own.1
      · simp only [hj, if_false]
        exact (Thread.other (ps j) s _ (hag j hj) (hw j)).1
    obtain ⟨c1, c2, c3, c4⟩ := ih (fun j => if j = i then ((ps i).step s).1 else ps j) ((ps i).step s).2 hw1
    refine ⟨c1, ?_, ?_, ?_⟩
    · intro j
      rw [c2 j]
      by_cases hj : j = i
      · subst hj; simp only [if_true]; exact own.2.1
      · simp only [hj, if_false]
        exact (Thread.other (ps j) s _ (hag j hj) (hw j)).2.1
    · intro j a ha
      rw [c3 j a ha]
      by_cases hj : j = i
      · subst hj; simp only [if_true]; rw [own.2.2.1]
      · simp only [hj, if_false]
        exact (Thread.other (ps j) s _ (hag j hj) (hw j)).2.2 a ha
    · intro a ha
      rw [c4 a ha]
      exact own.2.2.2 a (ha i)

/-- **Reentrancy, N threads.**  A thread that has finished — under any schedule, whatever the other
threads have done so far — has returned its run-alone result, and every cell of its footprint holds its
run-alone contents. -/
theorem pool_finished {R W : ι → Nat → Prop} (hni : NonInterf R W) (sch : List ι) (ps : ι → Thread) (s : St)
    (hw : ∀ i, (ps i).Fp (R i) (W i) s) (i : ι) (hd : ((runPool sch ps s).1 i).isDone = true) :
    (runPool sch ps s).1 i = (ps i).finish s ∧
    ∀ a, R i a ∨ W i a → (runPool sch ps s).2.data a = (ps i).final s a := by
  obtain ⟨_, c2, c3, _⟩ := pool_invariant hni sch ps s hw
  obtain ⟨e1, e2⟩ := Thread.finish_of_done _ (runPool sch ps s).2 hd
  refine ⟨?_, ?_⟩
  · rw [← c2 i, e1]
  · intro a ha
    rw [← c3 i a ha, e2]

/-! ## one after the other, in any order -/

/-- run the threads of a list to completion one after the other -/
def seqRun : List Thread → St → St
  | [], s => s
  | th :: rest, s => seqRun rest (runT th.2 s).2

/-- … and what each of them returned -/
def seqResults : List Thread → St → List Thread
  | [], _ => []
  | th :: rest, s => th.finish s :: seqResults rest (runT th.2 s).2

omit [DecidableEq ι] in
/-- **Sequential composition of non-interfering calls.**  Run in the order of ANY duplicate-free list `l`,
each call returns its run-alone result, its cells hold its run-alone contents, cells nobody stores to are
untouched: an earlier call leaves nothing behind that a later one could see. -/
theorem seq_char {R W : ι → Nat → Prop} (hni : NonInterf R W) (ps : ι → Thread) (l : List ι) (hl : l.Nodup)
    (s : St) (hw : ∀ i ∈ l, (ps i).Fp (R i) (W i) s) :
    seqResults (l.map ps) s = l.map (fun i => (ps i).finish s) ∧
    (∀ i ∈ l, ∀ a, R i a ∨ W i a → (seqRun (l.map ps) s).data a = (ps i).final s a) ∧
    (∀ a, (∀ i ∈ l, ¬ W i a) → (seqRun (l.map ps) s).data a = s.data a) := by
  induction l generalizing s with
  | nil => exact ⟨rfl, fun _ h => absurd h (List.not_mem_nil), fun _ _ => rfl⟩
  | cons i rest ih =>
    have hnd := List.nodup_cons.1 hl
    have hwi := hw i List.mem_cons_self
    have hfr := runT_frame2 (ps i).2 s hwi
    -- the whole run of call `i` is invisible on the cells of the later calls
    have hag : ∀ j ∈ rest, AgreeOn (fun a => R j a ∨ W j a) (runT (ps i).2 s).2 s := by
      intro j hj a ha
      apply hfr
      intro hwi'
      have hne : i ≠ j := fun e => hnd.1 (e ▸ hj)
      have := hni i j hne a hwi'
      rcases ha with ha | ha
      · exact this.1 ha
      · exact this.2 ha
    have hw1 : ∀ j ∈ rest, (ps j).Fp (R j) (W j) (runT (ps i).2 s).2 := fun j hj =>
      (Thread.other (ps j) s _ (hag j hj) (hw j (List.mem_cons_of_mem _ hj))).1
    obtain ⟨c1, c2, c3⟩ := ih hnd.2 (runT (ps i).2 s).2 hw1
    simp only [List.map_cons, seqResults, seqRun]
    refine ⟨?_, ?_, ?_⟩
    · rw [c1]
      congr 1
      apply List.map_congr_left
      intro j hj
      exact (Thread.other (ps j) s _ (hag j hj) (hw j (List.mem_cons_of_mem _ hj))).2.1
    · intro j hj a ha
      rcases List.mem_cons.1 hj with rfl | hj'
      · -- cells of the first call: no later call stores there
        rw [c3 a]
        · rfl
        · intro m hm hwm
          have hne : m ≠ j := fun e => hnd.1 (e ▸ hm)
          have := hni m j hne a hwm
          rcases ha with ha | ha
          · exact this.1 ha
          · exact this.2 ha
      · rw [c2 j hj' a ha]
        exact (Thread.other (ps j) s _ (hag j hj') (hw j (List.mem_cons_of_mem _ hj'))).2.2 a ha
    · intro a ha
      rw [c3 a (fun m hm => ha m (List.mem_cons_of_mem _ hm))]
      exact hfr a (ha i List.mem_cons_self)

/-- **Every interleaving = one after the other in any order.**  `l` enumerates the threads (in any
order).  If a schedule lets all threads finish, each has returned what it returns in the sequential run
in the order `l`, and the whole final memory is that of the sequential run. -/
theorem interleave_eq_seq {R W : ι → Nat → Prop} (hni : NonInterf R W) (sch : List ι) (ps : ι → Thread) (s : St)
    (hw : ∀ i, (ps i).Fp (R i) (W i) s) (l : List ι) (hl : l.Nodup) (hall : ∀ i, i ∈ l)
    (hfin : ∀ i, ((runPool sch ps s).1 i).isDone = true) :
    l.map (runPool sch ps s).1 = seqResults (l.map ps) s ∧
    (runPool sch ps s).2.data = (seqRun (l.map ps) s).data := by
  obtain ⟨q1, q2, q3⟩ := seq_char hni ps l hl s (fun i _ => hw i)
  refine ⟨?_, ?_⟩
  · rw [q1]
    apply List.map_congr_left
    intro i _
    exact (pool_finished hni sch ps s hw i (hfin i)).1
  · funext a
    by_cases h : ∃ i, W i a
    · obtain ⟨i, hi⟩ := h
      rw [(pool_finished hni sch ps s hw i (hfin i)).2 a (Or.inr hi), q2 i (hall i) a (Or.inr hi)]
    · have hno : ∀ i, ¬ W i a := fun i hi => h ⟨i, hi⟩
      rw [(pool_invariant hni sch ps s hw).2.2.2 a hno, q3 a (fun i _ => hno i)]

/-! ## two threads: the scheduler of `Interleave.lean` is the pool over `Bool` -/

/-- the pool of two threads: `true` = thread A -/
def pair (pa : Prog α) (pb : Prog β) : Bool → Thread := fun b => if b then ⟨α, pa⟩ else ⟨β, pb⟩

theorem runSched_pool (sch : List Bool) (pa : Prog α) (pb : Prog β) (s : St) :
    runPool sch (pair pa pb) s =
      (pair (runSched sch pa pb s).1 (runSched sch pa pb s).2.1, (runSched sch pa pb s).2.2) := by
  induction sch generalizing pa pb s with
  | nil => rfl
  | cons b sch ih =>
    cases b with
    | true =>
      simp only [runPool, runSched]
      have : (fun j => if j = true then ((pair pa pb true).step s).1 else pair pa pb j) =
          pair (step pa s).1 pb := by
        funext j; cases j <;> rfl
      rw [this]
      exact ih _ _ _
    | false =>
      simp only [runPool, runSched]
      have : (fun j => if j = false then ((pair pa pb false).step s).1 else pair pa pb j) =
          pair pa (step pb s).1 := by
        funext j; cases j <;> rfl
      rw [this]
      exact ih _ _ _

/-- **Reentrancy, two threads, shared read-only cells allowed.**  Thread A loads from `RA` and stores to
`WA`, thread B loads from `RB` and stores to `WB`; neither stores into a cell the other loads or stores
(`RA` and `RB` may overlap arbitrarily).  Under ANY schedule that lets both finish each returns its
run-alone result and its cells hold its run-alone contents; cells outside `WA ∪ WB` are untouched. -/
theorem interleave_shared {RA WA RB WB : Nat → Prop}
    (hab : ∀ a, WA a → ¬ RB a ∧ ¬ WB a) (hba : ∀ a, WB a → ¬ RA a ∧ ¬ WA a)
    (sch : List Bool) (pa : Prog α) (pb : Prog β) (s : St)
    (ha : Within2 RA WA pa s) (hb : Within2 RB WB pb s)
    (hfin : done (runSched sch pa pb s).1 = true ∧ done (runSched sch pa pb s).2.1 = true) :
    (runSched sch pa pb s).1 = .ret (runT pa s).1 ∧ (runSched sch pa pb s).2.1 = .ret (runT pb s).1 ∧
    (∀ a, RA a ∨ WA a → (runSched sch pa pb s).2.2.data a = (runT pa s).2.data a) ∧
    (∀ a, RB a ∨ WB a → (runSched sch pa pb s).2.2.data a = (runT pb s).2.data a) ∧
    (∀ a, ¬ WA a → ¬ WB a → (runSched sch pa pb s).2.2.data a = s.data a) := by
  let R : Bool → Nat → Prop := fun b => if b then RA else RB
  let W : Bool → Nat → Prop := fun b => if b then WA else WB
  have hni : NonInterf R W := by
    intro i j hij a hw
    cases i <;> cases j
    · exact absurd rfl hij
    · exact hba a hw
    · exact hab a hw
    · exact absurd rfl hij
  have hw : ∀ i, (pair pa pb i).Fp (R i) (W i) s := by
    intro i; cases i
    · exact hb
    · exact ha
  have ht := pool_finished hni sch (pair pa pb) s hw true
    (by rw [runSched_pool]; exact hfin.1)
  have hf := pool_finished hni sch (pair pa pb) s hw false
    (by rw [runSched_pool]; exact hfin.2)
  have hinv := (pool_invariant hni sch (pair pa pb) s hw).2.2.2
  rw [runSched_pool] at ht hf hinv
  refine ⟨?_, ?_, ht.2, hf.2, ?_⟩
  · have := ht.1
    simp only [pair, if_true, Thread.finish] at this
    exact eq_of_heq (Sigma.mk.inj this).2
  · have := hf.1
    simp only [pair, Bool.false_eq_true, if_false, Thread.finish] at this
    exact eq_of_heq (Sigma.mk.inj this).2
  · intro a h1 h2
    apply hinv a
    intro i; cases i
    · exact h2
    · exact h1

/-- both sequential orders of two calls give the interleaved memory (two-thread form of `interleave_eq_seq`) -/
theorem interleave_eq_either_order {RA WA RB WB : Nat → Prop}
    (hab : ∀ a, WA a → ¬ RB a ∧ ¬ WB a) (hba : ∀ a, WB a → ¬ RA a ∧ ¬ WA a)
    (sch : List Bool) (pa : Prog α) (pb : Prog β) (s : St)
    (ha : Within2 RA WA pa s) (hb : Within2 RB WB pb s)
    (hfin : done (runSched sch pa pb s).1 = true ∧ done (runSched sch pa pb s).2.1 = true) :
    (runSched sch pa pb s).2.2.data = (runT pb (runT pa s).2).2.data ∧
    (runSched sch pa pb s).2.2.data = (runT pa (runT pb s).2).2.data ∧
    (runT pb (runT pa s).2).1 = (runT pb s).1 ∧ (runT pa (runT pb s).2).1 = (runT pa s).1 := by
  obtain ⟨_, _, e3, e4, e5⟩ := interleave_shared hab hba sch pa pb s ha hb hfin
  -- A then B
  have fa := runT_frame2 pa s ha
  have fb := runT_frame2 pb s hb
  have agB : AgreeOn (fun a => RB a ∨ WB a) s (runT pa s).2 := by
    intro a h
    symm; apply fa; intro hwa
    rcases h with h | h
    · exact (hab a hwa).1 h
    · exact (hab a hwa).2 h
  have agA : AgreeOn (fun a => RA a ∨ WA a) s (runT pb s).2 := by
    intro a h
    symm; apply fb; intro hwb
    rcases h with h | h
    · exact (hba a hwb).1 h
    · exact (hba a hwb).2 h
  have cB := runT_congr pb s _ agB (Within2.within pb s hb)
  have cA := runT_congr pa s _ agA (Within2.within pa s ha)
  have hb' : Within2 RB WB pb (runT pa s).2 := within2_congr pb s _ (fun a h => agB a (Or.inl h)) hb
  have ha' : Within2 RA WA pa (runT pb s).2 := within2_congr pa s _ (fun a h => agA a (Or.inl h)) ha
  refine ⟨?_, ?_, cB.1.symm, cA.1.symm⟩
  · funext a
    by_cases h2 : WB a
    · rw [e4 a (Or.inr h2)]; exact cB.2 a (Or.inr h2)
    · rw [runT_frame2 pb _ hb' a h2]
      by_cases h1 : WA a
      · exact e3 a (Or.inr h1)
      · rw [e5 a h1 h2, fa a h1]
  · funext a
    by_cases h1 : WA a
    · rw [e3 a (Or.inr h1)]; exact cA.2 a (Or.inr h1)
    · rw [runT_frame2 pa _ ha' a h1]
      by_cases h2 : WB a
      · exact e4 a (Or.inr h2)
      · rw [e5 a h1 h2, fb a h2]

end SafeC

import SafeC.Proofs.TokBridge
/-!
# A C caller's tokenizing loop through the entry points, and its reference (helper lemmas for `Props/C14Full`)

* `tokFn wide` — the entry point (`strtok_s` / `wcstok_s`); `tokFn_first` / `tokFn_next`: with valid arguments both the
  first call (string given) and a continuation call (`dest == NULL`, saved pointer and remaining length) are `tokBody`;
* `callerLoop` / `nextCalls` — what a C caller does: the first call with the string, every later call with NULL and
  the pointer / remaining length the previous call stored (left as they were when a call stored nothing);
* `outOf`, `cutsMem` — the outputs and the final memory predicted by the list-level reference `TokSpec.refSeq`;
* `nextCalls_eq_ref` — the induction over the call sequence.
-/
namespace SafeC.Props.C14
open SafeC Gen SafeC.TokSpec

/-- the entry point -/
def tokFn (wide : Bool) : Nat → Option Nat → Nat → Option Nat → Bos → Prog TokOut :=
  if wide then wcstok_s else strtok_s

/-- `RSIZE_MAX_STR` / `RSIZE_MAX_WSTR` -/
def tokLimit (wide : Bool) : Nat := if wide then RSIZE_MAX_WSTR else RSIZE_MAX_STR

/-- cell size in bytes (the object size handed to `_chk` is in bytes) -/
def cellSize (wide : Bool) : Nat := if wide then SIZEOF_WCHAR_T else 1

/-- continuation call: `tok(NULL, &rem, delim, &ptr)`; the object-size argument is ignored -/
theorem tokFn_next (wide : Bool) (rem dl pv : Nat) (db : Bos) (hpv : pv ≠ 0) (hdl : dl ≠ 0) (hpos : 0 < rem)
    (hle : rem ≤ tokLimit wide) :
    tokFn wide 0 (some rem) dl (some pv) db = tokBody wide dl pv rem := by
  cases wide
  · exact strtok_s_next rem dl pv db hpv hdl hpos hle
  · exact wcstok_s_next rem dl pv db hpv hdl hpos hle

/-- first call: `tok(dest, &dmax, delim, &ptr)`, object size unknown or at least `dmax` cells -/
theorem tokFn_first (wide : Bool) (dest dmax dl pv : Nat) (bos : Bos) (hd : dest ≠ 0) (hdl : dl ≠ 0) (hpos : 0 < dmax)
    (hle : dmax ≤ tokLimit wide) (hbos : ∀ b, bos = some b → dmax * cellSize wide ≤ b) :
    tokFn wide dest (some dmax) dl (some pv) bos = tokBody wide dl dest dmax := by
  have h1 : ¬ dmax = 0 := by omega
  cases wide
  · simp only [tokLimit, Bool.false_eq_true, if_false] at hle
    have h2 : ¬ dmax > RSIZE_MAX_STR := by omega
    cases bos with
    | none => simp [tokFn, strtok_s, h1, h2, hd, hdl]
    | some b =>
      have := hbos b rfl
      simp only [cellSize, Bool.false_eq_true, if_false, Nat.mul_one] at this
      have h3 : ¬ dmax > b := by omega
      simp [tokFn, strtok_s, h1, h3, hd, hdl]
  · simp only [tokLimit, if_true] at hle
    have h2 : ¬ dmax > RSIZE_MAX_WSTR := by omega
    cases bos with
    | none => simp [tokFn, wcstok_s, h1, h2, hd, hdl]
    | some b =>
      have := hbos b rfl
      simp only [cellSize, if_true] at this
      have h3 : ¬ dmax * SIZEOF_WCHAR_T > b := by omega
      simp [tokFn, wcstok_s, h1, h2, h3, hd, hdl]

/-- the continuation calls of a C caller: `dest == NULL`, `*ptr` and `*dmaxp` as the previous call left them -/
def nextCalls (wide : Bool) (db : Bos) : List Nat → Nat → Nat → Prog (List TokOut)
  | [], _, _ => pure []
  | dl :: rest, pv, rem => do
    let o ← tokFn wide 0 (some rem) dl (some pv) db
    let os ← nextCalls wide db rest (o.ptrv.getD pv) (o.dmaxv.getD rem)
    pure (o :: os)

/-- **a C caller's tokenizing loop**: one call per delimiter string of `dls`; the first with the string `dest`, its
length bound `dmax`, an uninitialised `*ptr` (`pv0`) and the object size `bos`; all later ones with NULL. Returns what
every call handed back. -/
def callerLoop (wide : Bool) (db : Bos) : List Nat → Nat → Nat → Nat → Bos → Prog (List TokOut)
  | [], _, _, _, _ => pure []
  | dl :: rest, dest, dmax, pv0, bos => do
    let o ← tokFn wide dest (some dmax) dl (some pv0) bos
    let os ← nextCalls wide db rest (o.ptrv.getD pv0) (o.dmaxv.getD dmax)
    pure (o :: os)

/-- what a call hands back according to the reference: `base` = address of the string, `lim = base + dmax` -/
def outOf (base lim : Nat) (r : RefCall) : TokOut :=
  { ret := (refCallSpec base lim r).ret, dmaxv := some (refCallSpec base lim r).rem,
    ptrv := some (refCallSpec base lim r).ptr }

/-- the memory after one reference call: the cut cell holds NUL, every other cell its old value -/
def cutMem (base : Nat) (r : RefCall) (m : Nat → Nat) : Nat → Nat :=
  match r.cut with
  | none => m
  | some c => fun x => if x = base + c then 0 else m x

/-- the memory after a sequence of reference calls -/
def cutsMem (base : Nat) : List RefCall → (Nat → Nat) → (Nat → Nat)
  | [], m => m
  | r :: rs, m => cutsMem base rs (cutMem base r m)

theorem afterCall_ref (m : Nat → Nat) (base lim : Nat) (r : RefCall) :
    afterCall m (refCallSpec base lim r) = cutMem base r m := by
  unfold afterCall cutMem refCallSpec
  cases r.cut <;> rfl

/-- the final memory, cell by cell: NUL where some call cut, the original value everywhere else -/
theorem cutsMem_apply (base : Nat) (rs : List RefCall) (m : Nat → Nat) (x : Nat) :
    cutsMem base rs m x = if ∃ r ∈ rs, ∃ c, r.cut = some c ∧ x = base + c then 0 else m x := by
  induction rs generalizing m with
  | nil => simp [cutsMem]
  | cons r rs ih =>
    simp only [cutsMem, ih]
    by_cases h : ∃ r' ∈ rs, ∃ c, r'.cut = some c ∧ x = base + c
    · have h' : ∃ r' ∈ r :: rs, ∃ c, r'.cut = some c ∧ x = base + c := by
        obtain ⟨r', hr', hc⟩ := h; exact ⟨r', List.mem_cons_of_mem _ hr', hc⟩
      rw [if_pos h, if_pos h']
    · rw [if_neg h]
      unfold cutMem
      cases hc : r.cut with
      | none =>
        have h' : ¬ ∃ r' ∈ r :: rs, ∃ c, r'.cut = some c ∧ x = base + c := by
          rintro ⟨r', hr', c, hc', hx⟩
          rcases List.mem_cons.mp hr' with rfl | hr'
          · rw [hc] at hc'; cases hc'
          · exact h ⟨r', hr', c, hc', hx⟩
        rw [if_neg h']
      | some c =>
        by_cases hx : x = base + c
        · have h' : ∃ r' ∈ r :: rs, ∃ c, r'.cut = some c ∧ x = base + c := ⟨r, List.mem_cons_self, c, hc, hx⟩
          rw [if_pos h']
          simp only [hx, if_true]
        · have h' : ¬ ∃ r' ∈ r :: rs, ∃ c, r'.cut = some c ∧ x = base + c := by
            rintro ⟨r', hr', c', hc', hx'⟩
            rcases List.mem_cons.mp hr' with rfl | hr'
            · rw [hc] at hc'; cases hc'; exact hx hx'
            · exact h ⟨r', hr', c', hc', hx'⟩
          rw [if_neg h']
          simp only [hx, if_false]

/-- **the induction over the call sequence**: continuation calls on a state satisfying the loop invariant, standing at
offset `off` of the string at `base` whose declared extent ends at `lim`, hand back exactly what the reference says for
the rest of the string, and leave the memory the reference says. -/
theorem nextCalls_eq_ref (wide : Bool) (db : Bos) (dls : List Nat) (base lim off : Nat) (st : St)
    (hI : Inv st dls (base + off) (lim - (base + off)))
    (hdl0 : ∀ dl ∈ dls, dl ≠ 0) (hlim : lim - base ≤ tokLimit wide) :
    ∃ st', exec (nextCalls wide db dls (base + off) (lim - (base + off))) st =
        .ok ((refSeq (dls.map (fun dl => isDelim st.data dl)) off
                (cstr st.data (base + off) (lim - (base + off)))).map (outOf base lim), st') ∧
      st'.data = cutsMem base (refSeq (dls.map (fun dl => isDelim st.data dl)) off
                (cstr st.data (base + off) (lim - (base + off)))) st.data ∧
      st'.mapped = st.mapped ∧ st'.rd = st.rd ∧ st'.wr = st.wr := by
  induction dls generalizing st off with
  | nil => exact ⟨st, rfl, rfl, rfl, rfl, rfl⟩
  | cons dl rest ih =>
    have hterm := hI.term
    have hpos : 0 < lim - (base + off) := by omega
    have hlt : base + off < lim := by omega
    obtain ⟨st1, he, hdata, hI'⟩ := hI.step wide
    obtain ⟨hm1, hr1, hw1⟩ := exec_perm _ _ he
    -- the call in list terms
    obtain ⟨hc, hrest⟩ := callSpec_eq_ref st.data dl (base + off) (lim - (base + off)) base off hterm rfl
    have hlimeq : base + off + (lim - (base + off)) = lim := by omega
    rw [hlimeq] at hc
    generalize hr0 : refHead (isDelim st.data dl) off (cstr st.data (base + off) (lim - (base + off))) = r0 at hc
    rw [← hdata] at hrest
    rw [hc] at hI' he hrest
    simp only [refCallSpec] at hI' hrest
    -- the delimiter strings of the remaining calls are untouched
    have hdelims : rest.map (fun dl' => isDelim st1.data dl') = rest.map (fun dl' => isDelim st.data dl') := by
      apply List.map_congr_left
      intro d hd
      funext c
      rw [hdata]
      exact (isDelim_congr st.data _ d c
        (afterCall_agree_delim st.data d dl _ _ hterm (hI.apart d (by simp [hd])))).symm
    obtain ⟨st2, he2, hd2, hm2, hr2, hw2⟩ := ih r0.next st1 hI' (fun d hd => hdl0 d (by simp [hd]))
    rw [hdelims, hrest] at he2 hd2
    refine ⟨st2, ?_, ?_, by rw [hm2, hm1], by rw [hr2, hr1], by rw [hw2, hw1]⟩
    · have hentry := tokFn_next wide (lim - (base + off)) dl (base + off) db hI.pne (hdl0 dl (by simp)) hpos (by omega)
      simp only [nextCalls, exec_bind, hentry, he, Option.getD_some, refCallSpec, he2, List.map_cons, refSeq_cons, hr0]
      rfl
    · rw [hd2, hdata, hc, afterCall_ref]
      simp only [List.map_cons, refSeq_cons, hr0, cutsMem]

end SafeC.Props.C14

import SafeC.Proofs.NormCompose2
/-! C17 — the tree's pair map (`_composite_cp` + `isExclusion`, repaired) = D114 primary composites of UCD 14.0, as functions on
assigned code points -/
namespace SafeC.Norm
open SafeC.Gen

/-- forward: every UCD primary composite (pair order) is what the repaired lookup returns, is not excluded, non-zero, assigned -/
def fwd2Ok (i : Nat) : Bool :=
  let t := UCD.compEntry i
  compositeCp allFixed t.1 t.2.1 == t.2.2 && !isExcl t.2.2 && t.2.2 != 0 && UCD.assigned t.2.2

set_option maxRecDepth 100000 in
theorem fwd2_check : allBelow fwd2Ok UCD14.compN = true := by decide +kernel

/-- backward: every stored pair whose composite is not excluded has an assigned composite and is UCD's composite of that pair -/
def bwd2Ok (i : Nat) : Bool :=
  let a := cell 32 UniCompos.listCp i
  let off := cell 16 UniCompos.listOff i
  allBelow (fun j =>
    let b := cell 32 UniCompos.pairs (2 * (off + j))
    let c := cell 32 UniCompos.pairs (2 * (off + j) + 1)
    c == 0 || isExcl c || (UCD.assigned c && UCD.tableCompose a b 12 0 UCD14.compN == some c)) (cell 8 UniCompos.listLen i)

set_option maxRecDepth 100000 in
theorem bwd2_check : allBelow bwd2Ok UniCompos.listsN = true := by decide +kernel

/-- the list a code point reaches is the list recorded for that code point -/
def cellOf (cp : Nat) : Nat :=
  match rowId UniCompos.mainN UniCompos.main UniCompos.planes cp with
  | some (r + 1) => cell 16 UniCompos.rows (r * 256 + cp % 256)
  | _ => 0

def cellCpOk (cp : Nat) : Bool := cellOf cp == 0 || (decide (cellOf cp ≤ UniCompos.listsN) && cell 32 UniCompos.listCp (cellOf cp - 1) == cp)

def composBlock (b : Nat) : Bool := rowId UniCompos.mainN UniCompos.main UniCompos.planes (b * 256) != some 0

set_option maxRecDepth 100000 in
theorem cellcp_check : allBlocks composBlock cellCpOk = true := by decide +kernel

/-- Hangul syllables: not excluded, assigned -/
theorem hangul_not_excluded : exclRanges.all (fun r => decide (r.2 < 0xAC00) || decide (0xD7A3 < r.1)) = true := by decide +kernel

set_option maxRecDepth 100000 in
theorem hangul_assigned : allBelow (fun i => UCD.assigned (0xAC00 + i)) 11172 = true := by decide +kernel

end SafeC.Norm

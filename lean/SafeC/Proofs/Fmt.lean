import SafeC.Models.Fmt
/-!
# Lemmas about the format-string models (C09)

* `engDirective_sync`: whenever the engine accepts a directive, libc's printf grammar reads the same
  characters as one directive that is not an `n` conversion and both continue at the same place.
* suffix lemmas for the libc directive parsers, `*_bare_infix`: a bare `%n` found by libc's grammar
  is a literal occurrence of the two characters `%n`.
* `prescan_false_no_pctn`: what a pre-scan that lets a format through establishes.
-/
namespace SafeC.Fmt

/-! ## digits -/

theorem skipDigits_cons (c : Char) (r : Str) :
    skipDigits (c :: r) = if c.isDigit = true then skipDigits r else c :: r := by
  simp [skipDigits, List.dropWhile_cons]

theorem skipDigits_suffix (f : Str) : skipDigits f <:+ f := List.dropWhile_suffix _

/-- a run of digits in front of a non-digit -/
theorem skipDigits_run (ds : Str) (h : ∀ d ∈ ds, d.isDigit = true) (c : Char) (hc : c.isDigit = false) (r : Str) :
    skipDigits (ds ++ c :: r) = c :: r := by
  induction ds with
  | nil => simp [skipDigits, hc]
  | cons d ds ih =>
    have hd : d.isDigit = true := h d (by simp)
    have := ih (fun x hx => h x (by simp [hx]))
    simp [skipDigits, hd] at this ⊢
    exact this

theorem takeWhile_all (p : Char → Bool) (l : Str) : ∀ d ∈ l.takeWhile p, p d = true := by
  induction l with
  | nil => simp
  | cons a l ih =>
    intro d hd
    by_cases ha : p a = true
    · simp [ha] at hd
      rcases hd with rfl | hd
      · exact ha
      · exact ih d hd
    · simp [ha] at hd

/-- `dollarArg f = some f'` means `f` is a non-empty run of digits, a `$`, and `f'` -/
theorem dollarArg_some {f f' : Str} (h : dollarArg f = some f') :
    ∃ d ds, d.isDigit = true ∧ (∀ x ∈ ds, x.isDigit = true) ∧ f = d :: (ds ++ '$' :: f') := by
  unfold dollarArg at h
  split at h
  · rename_i hc
    obtain ⟨hany, hhead⟩ := hc
    have hf : f.takeWhile Char.isDigit ++ skipDigits f = f := List.takeWhile_append_dropWhile
    obtain ⟨t, ht⟩ := List.head?_eq_some_iff.mp hhead
    have hf' : f' = t := by
      have := Option.some.inj h
      rw [ht] at this
      simpa using this.symm
    subst hf'
    have hall := takeWhile_all Char.isDigit f
    cases htw : f.takeWhile Char.isDigit with
    | nil => simp [htw] at hany
    | cons d ds =>
      rw [htw] at hall
      refine ⟨d, ds, hall d (by simp), fun x hx => hall x (by simp [hx]), ?_⟩
      rw [← hf, htw, ht]
      simp
  · cases h

theorem dollarArg_suffix {f f' : Str} (h : dollarArg f = some f') : f' <:+ f := by
  obtain ⟨d, ds, _, _, rfl⟩ := dollarArg_some h
  exact ⟨d :: (ds ++ ['$']), by simp⟩

theorem dollarArg_getD_suffix (f : Str) : (dollarArg f).getD f <:+ f := by
  cases h : dollarArg f with
  | none => exact List.suffix_refl f
  | some f' => exact dollarArg_suffix h

/-! ## the engine, phase by phase, against libc's printf grammar -/

/-- from the specifier switch on -/
def engT2 (g : Str) : EngStep := engSpec (engLength g).1 (engLength g).2
def engT1 (g : Str) : EngStep := engT2 (engPrec g)
def engT0 (g : Str) : EngStep := engT1 (engWidth g)

theorem engDirective_eq (f : Str) : engDirective f = engT0 (f.dropWhile engIsFlag) := rfl

def libT3 : Str → Bool × Str
  | [] => (false, [])
  | c :: r => (c == 'n', r)
def libT2 (g : Str) : Bool × Str := libT3 (libcPLength g)
def libT1 (g : Str) : Bool × Str := libT2 (libcPPrec g)
def libT0 (g : Str) : Bool × Str := libT1 (libcPWidth g)

theorem libcPDirective_eq (f : Str) :
    libcPDirective f = libT0 (((dollarArg f).getD f).dropWhile libcPIsFlag) := by
  unfold libcPDirective libT0 libT1 libT2
  cases libcPLength (libcPPrec (libcPWidth (((dollarArg f).getD f).dropWhile libcPIsFlag))) <;> rfl

theorem intConv_mem {c : Char} (h : engIsIntConv c = true) : c ∈ ['d', 'i', 'u', 'x', 'X', 'o', 'b'] := by
  simpa [engIsIntConv, or_assoc] using h

theorem otherConv_mem {c : Char} (h : engIsOtherConv c = true) :
    c ∈ ['f', 'F', 'e', 'E', 'g', 'G', 'a', 'A', 'c', 's', 'p', '%'] := by
  simpa [engIsOtherConv, or_assoc] using h

theorem sync3 (ld : Bool) (g r : Str) (h : engSpec ld g = .next r) : libT3 g = (false, r) := by
  cases g with
  | nil => simp [engSpec] at h
  | cons c t =>
    by_cases hi : engIsIntConv c = true
    · have hn : c ≠ 'n' := by
        intro e; subst e; revert hi; decide
      cases ld with
      | true => simp [engSpec, hi] at h
      | false =>
        simp [engSpec, hi] at h
        subst h; simp [libT3, hn]
    · by_cases ho : engIsOtherConv c = true
      · have hn : c ≠ 'n' := by
          intro e; subst e; revert ho; decide
        simp [engSpec, hi, ho] at h
        subst h; simp [libT3, hn]
      · have hi' : engIsIntConv c = false := by simpa using hi
        have ho' : engIsOtherConv c = false := by simpa using ho
        by_cases hn : c = 'n'
        · subst hn
          have h1 : engIsIntConv 'n' = false := by decide
          have h2 : engIsOtherConv 'n' = false := by decide
          simp [engSpec, h1, h2] at h
        · simp [engSpec, hi', ho', hn] at h

/-- characters the engine has no use for at or behind the length switch -/
theorem engT2_stuck (c : Char) (t : Str)
    (hl : c ≠ 'l' ∧ c ≠ 'L' ∧ c ≠ 'h' ∧ c ≠ 't' ∧ c ≠ 'j' ∧ c ≠ 'z')
    (hi : engIsIntConv c = false) (ho : engIsOtherConv c = false) (r : Str) :
    engT2 (c :: t) ≠ .next r := by
  obtain ⟨h1, h2, h3, h4, h5, h6⟩ := hl
  simp [engT2, engLength, h1, h2, h3, h4, h5, h6, engSpec, hi, ho]
  split <;> simp

theorem sync2 (g r : Str) (h : engT2 g = .next r) : libT2 g = (false, r) := by
  cases g with
  | nil => simp [engT2, engLength, engSpec] at h
  | cons c t =>
    by_cases hl : c = 'l'
    · subst hl
      simp only [engT2, engLength, if_true] at h
      simp only [libT2, libcPLength, or_true, if_true]
      exact sync3 _ _ _ h
    by_cases hL : c = 'L'
    · subst hL
      have h' : engSpec true t = .next r := by simpa [engT2, engLength] using h
      have : libcPLength ('L' :: t) = t := by simp [libcPLength]
      rw [libT2, this]
      exact sync3 _ _ _ h'
    by_cases hh : c = 'h'
    · subst hh
      have h' : engSpec false (if t.head? = some 'h' then t.tail else t) = .next r := by
        simpa [engT2, engLength] using h
      have : libcPLength ('h' :: t) = (if t.head? = some 'h' then t.tail else t) := by simp [libcPLength]
      rw [libT2, this]
      exact sync3 _ _ _ h'
    by_cases htjz : c = 't' ∨ c = 'j' ∨ c = 'z'
    · have h' : engSpec false t = .next r := by
        rcases htjz with rfl | rfl | rfl <;> simpa [engT2, engLength] using h
      have : libcPLength (c :: t) = t := by
        rcases htjz with rfl | rfl | rfl <;> simp [libcPLength]
      rw [libT2, this]
      exact sync3 _ _ _ h'
    · have ht : c ≠ 't' := fun e => htjz (Or.inl e)
      have hj : c ≠ 'j' := fun e => htjz (Or.inr (Or.inl e))
      have hz : c ≠ 'z' := fun e => htjz (Or.inr (Or.inr e))
      by_cases hqZ : c = 'q' ∨ c = 'Z'
      · exfalso
        refine engT2_stuck c t ⟨hl, hL, hh, ht, hj, hz⟩ ?_ ?_ r h <;>
          rcases hqZ with rfl | rfl <;> decide
      · have hq : c ≠ 'q' := fun e => hqZ (Or.inl e)
        have hZ : c ≠ 'Z' := fun e => hqZ (Or.inr e)
        have h' : engSpec false (c :: t) = .next r := by
          simpa [engT2, engLength, hl, hL, hh, ht, hj, hz] using h
        have : libcPLength (c :: t) = c :: t := by
          simp [libcPLength, hl, hL, hh, ht, hj, hz, hq, hZ]
        rw [libT2, this]
        exact sync3 _ _ _ h'

theorem engT2_digit (d : Char) (t : Str) (hd : d.isDigit = true) (r : Str) : engT2 (d :: t) ≠ .next r := by
  refine engT2_stuck d t ?_ ?_ ?_ r
  · refine ⟨?_, ?_, ?_, ?_, ?_, ?_⟩ <;> (intro e; subst e; revert hd; decide)
  · cases h : engIsIntConv d with
    | false => rfl
    | true =>
      have hall : ∀ x ∈ ['d', 'i', 'u', 'x', 'X', 'o', 'b'], x.isDigit = false := by decide
      have := hall d (intConv_mem h)
      rw [hd] at this; cases this
  · cases h : engIsOtherConv d with
    | false => rfl
    | true =>
      have hall : ∀ x ∈ ['f', 'F', 'e', 'E', 'g', 'G', 'a', 'A', 'c', 's', 'p', '%'], x.isDigit = false := by decide
      have := hall d (otherConv_mem h)
      rw [hd] at this; cases this


theorem digit_ne {d : Char} (hd : d.isDigit = true) {c : Char} (hc : c.isDigit = false) : d ≠ c := by
  intro e; subst e; rw [hd] at hc; cases hc

/-- the width / precision field: the engine's reading agrees with libc's unless libc sees `*m$`, which
    leaves the engine in front of a digit -/
theorem widthSync (E : Str → EngStep) (L : Str → Bool × Str)
    (hEL : ∀ g r, E g = .next r → L g = (false, r))
    (hdig : ∀ d t, d.isDigit = true → ∀ r, E (d :: t) ≠ .next r) :
    ∀ g r, E (engWidth g) = .next r → L (libcPWidth g) = (false, r) := by
  intro g r h
  cases g with
  | nil => exact hEL _ _ (by simpa [engWidth, libcPWidth] using h)
  | cons c t =>
    by_cases hd : c.isDigit = true
    · have hs : c ≠ '*' := digit_ne hd (by decide)
      have : libcPWidth (c :: t) = skipDigits (c :: t) := by simp [libcPWidth, hs, hd]
      rw [this]
      exact hEL _ _ (by simpa [engWidth, hd] using h)
    · by_cases hs : c = '*'
      · subst hs
        have h' : E t = .next r := by simpa [engWidth] using h
        cases hda : dollarArg t with
        | none =>
          have : libcPWidth ('*' :: t) = t := by simp [libcPWidth, hda]
          rw [this]; exact hEL _ _ h'
        | some t' =>
          obtain ⟨d, ds, hdd, _, rfl⟩ := dollarArg_some hda
          exact absurd h' (hdig d _ hdd r)
      · have : libcPWidth (c :: t) = c :: t := by simp [libcPWidth, hs, hd]
        rw [this]
        exact hEL _ _ (by simpa [engWidth, hd, hs] using h)

theorem sync1 (g r : Str) (h : engT1 g = .next r) : libT1 g = (false, r) := by
  cases g with
  | nil => exact sync2 _ _ (by simpa [engT1, engPrec, libcPPrec] using h)
  | cons c t =>
    by_cases hc : c = '.'
    · subst hc
      have h' : engT2 (engWidth t) = .next r := by simpa [engT1, engPrec] using h
      have : libcPPrec ('.' :: t) = libcPWidth t := by simp [libcPPrec]
      rw [libT1, this]
      exact widthSync engT2 libT2 sync2 engT2_digit t r h'
    · have h' : engT2 (c :: t) = .next r := by simpa [engT1, engPrec, hc] using h
      have : libcPPrec (c :: t) = c :: t := by simp [libcPPrec, hc]
      rw [libT1, this]
      exact sync2 _ _ h'

theorem engT1_digit (d : Char) (t : Str) (hd : d.isDigit = true) (r : Str) : engT1 (d :: t) ≠ .next r := by
  have hdot : d ≠ '.' := digit_ne hd (by decide)
  have : engT1 (d :: t) = engT2 (d :: t) := by simp [engT1, engPrec, hdot]
  rw [this]; exact engT2_digit d t hd r

theorem sync0 (g r : Str) (h : engT0 g = .next r) : libT0 g = (false, r) :=
  widthSync engT1 libT1 sync1 engT1_digit g r h

/-- a character that is none of: digit, `*`, `.`, length modifier, conversion — the engine stops on it
    wherever in a directive it meets it -/
theorem engT0_stuck (c : Char) (t : Str) (hd : c.isDigit = false) (hs : c ≠ '*') (hdot : c ≠ '.')
    (hl : c ≠ 'l' ∧ c ≠ 'L' ∧ c ≠ 'h' ∧ c ≠ 't' ∧ c ≠ 'j' ∧ c ≠ 'z')
    (hi : engIsIntConv c = false) (ho : engIsOtherConv c = false) (r : Str) :
    engT0 (c :: t) ≠ .next r := by
  have : engT0 (c :: t) = engT2 (c :: t) := by simp [engT0, engWidth, hd, hs, engT1, engPrec, hdot]
  rw [this]; exact engT2_stuck c t hl hi ho r

theorem engT0_nil (r : Str) : engT0 [] ≠ .next r := by
  simp [engT0, engWidth, engT1, engPrec, engT2, engLength, engSpec]

/-- `%m$…`: the engine reads the digits as flags / width and stops on the `$` -/
theorem engDirective_dollar (ds : Str) (hds : ∀ x ∈ ds, x.isDigit = true) (rest r : Str) :
    engT0 ((ds ++ '$' :: rest).dropWhile engIsFlag) ≠ .next r := by
  have hstop : engT0 ('$' :: rest) ≠ .next r :=
    engT0_stuck '$' rest (by decide) (by decide) (by decide) (by decide) (by decide) (by decide) r
  induction ds with
  | nil =>
    have : (([] : Str) ++ '$' :: rest).dropWhile engIsFlag = '$' :: rest := by
      have : engIsFlag '$' = false := by decide
      simp [this]
    rw [this]; exact hstop
  | cons d ds ih =>
    have hd : d.isDigit = true := hds d (by simp)
    have hds' : ∀ x ∈ ds, x.isDigit = true := fun x hx => hds x (by simp [hx])
    by_cases hf : engIsFlag d = true
    · have : ((d :: ds) ++ '$' :: rest).dropWhile engIsFlag = (ds ++ '$' :: rest).dropWhile engIsFlag := by
        simp [hf]
      rw [this]; exact ih hds'
    · have : ((d :: ds) ++ '$' :: rest).dropWhile engIsFlag = d :: (ds ++ '$' :: rest) := by
        simp [hf]
      rw [this]
      have hw : engWidth (d :: (ds ++ '$' :: rest)) = '$' :: rest := by
        have := skipDigits_run (d :: ds) (by simpa using And.intro hd hds') '$' (by decide) rest
        simpa [engWidth, hd] using this
      have h0 : engT0 (d :: (ds ++ '$' :: rest)) = engT1 ('$' :: rest) := by simp [engT0, hw]
      have h1 : engT0 ('$' :: rest) = engT1 ('$' :: rest) := by
        have : engWidth ('$' :: rest) = '$' :: rest := by
          have h1 : ('$' : Char).isDigit = false := by decide
          simp [engWidth, h1]
        simp [engT0, this]
      rw [h0, ← h1]; exact hstop

theorem dropWhile_of_imp (p q : Char → Bool) (hpq : ∀ c, p c = true → q c = true) (l : Str) :
    l.dropWhile q = (l.dropWhile p).dropWhile q := by
  induction l with
  | nil => simp
  | cons a l ih =>
    by_cases hp : p a = true
    · simp [hp, hpq a hp, ih]
    · simp [hp]

theorem engFlag_libcFlag (c : Char) (h : engIsFlag c = true) : libcPIsFlag c = true := by
  simp [engIsFlag] at h
  simp [libcPIsFlag]
  rcases h with (((h | h) | h) | h) | h <;> simp [h]

theorem libcFlag_cases (c : Char) (h : libcPIsFlag c = true) (h' : engIsFlag c = false) : c = '\'' ∨ c = 'I' := by
  simp [libcPIsFlag] at h
  simp [engIsFlag] at h'
  obtain ⟨⟨⟨⟨h0, h1⟩, h2⟩, h3⟩, h4⟩ := h'
  rcases h with (((((h | h) | h) | h) | h) | h) | h
  · exact absurd h h1
  · exact absurd h h2
  · exact absurd h h3
  · exact absurd h h4
  · exact absurd h h0
  · exact Or.inl h
  · exact Or.inr h

theorem head_dropWhile (p : Char → Bool) (l : Str) (c : Char) (t : Str) (h : l.dropWhile p = c :: t) : p c = false := by
  have := List.head?_dropWhile_not p l
  rw [h] at this
  simpa using this

/-- **directive synchronisation**: a directive the engine accepts is, for libc, the same stretch of the
    format, and not an `n` conversion -/
theorem engDirective_sync (f r : Str) (h : engDirective f = .next r) : libcPDirective f = (false, r) := by
  rw [engDirective_eq] at h
  rw [libcPDirective_eq]
  cases hda : dollarArg f with
  | some f' =>
    obtain ⟨d, ds, hd, hds, rfl⟩ := dollarArg_some hda
    exact absurd h (engDirective_dollar (d :: ds) (by simpa using And.intro hd hds) f' r)
  | none =>
    simp only [Option.getD_none]
    rw [dropWhile_of_imp engIsFlag libcPIsFlag engFlag_libcFlag f]
    cases hg : f.dropWhile engIsFlag with
    | nil =>
      rw [hg] at h
      exact absurd h (engT0_nil r)
    | cons c t =>
      rw [hg] at h
      have hne : engIsFlag c = false := head_dropWhile _ _ _ _ hg
      by_cases hlf : libcPIsFlag c = true
      · exfalso
        rcases libcFlag_cases c hlf hne with rfl | rfl
        · exact engT0_stuck '\'' t (by decide) (by decide) (by decide) (by decide) (by decide) (by decide) r h
        · exact engT0_stuck 'I' t (by decide) (by decide) (by decide) (by decide) (by decide) (by decide) r h
      · have : (c :: t).dropWhile libcPIsFlag = c :: t := by simp [hlf]
        rw [this]
        exact sync0 _ _ h

/-- **the engine against libc's printf grammar, whole formats**: with the same fuel, if libc finds an `n`
    conversion the engine has stopped with an error -/
theorem engLoop_rejects (k : Nat) : ∀ fmt : Str, printfNs k fmt ≠ [] → (engLoop k fmt).isSome = true := by
  induction k with
  | zero => intro fmt h; simp [printfNs] at h
  | succ k ih =>
    intro fmt h
    cases fmt with
    | nil => simp [printfNs] at h
    | cons c r =>
      by_cases hc : c = '%'
      · subst hc
        cases hd : engDirective r with
        | stop w => simp [engLoop, hd]
        | next r' =>
          have hl := engDirective_sync r r' hd
          simp only [printfNs, ne_eq, not_true_eq_false, if_false, hl] at h
          simp only [engLoop, ne_eq, not_true_eq_false, if_false, hd]
          exact ih r' h
      · simp only [printfNs, ne_eq, hc, not_false_eq_true, if_true] at h
        simp only [engLoop, ne_eq, hc, not_false_eq_true, if_true]
        exact ih r h


/-! ## every parser continues at a suffix of what it was given -/

theorem ite_tail_suffix (t : Str) (c : Char) : (if t.head? = some c then t.tail else t) <:+ t := by
  split
  · exact List.tail_suffix t
  · exact List.suffix_refl t

theorem suffix_cons_of_suffix {a b : Str} (c : Char) (h : a <:+ b) : a <:+ c :: b :=
  h.trans (List.suffix_cons c b)

theorem libcPWidth_suffix (g : Str) : libcPWidth g <:+ g := by
  cases g with
  | nil => exact List.suffix_refl _
  | cons c t =>
    simp only [libcPWidth]
    split
    · exact suffix_cons_of_suffix c (dollarArg_getD_suffix t)
    · split
      · exact skipDigits_suffix _
      · exact List.suffix_refl _

theorem libcPPrec_suffix (g : Str) : libcPPrec g <:+ g := by
  cases g with
  | nil => exact List.suffix_refl _
  | cons c t =>
    simp only [libcPPrec]
    split
    · exact suffix_cons_of_suffix c (libcPWidth_suffix t)
    · exact List.suffix_refl _

theorem libcPLength_suffix (g : Str) : libcPLength g <:+ g := by
  cases g with
  | nil => exact List.suffix_refl _
  | cons c t =>
    simp only [libcPLength]
    split
    · exact suffix_cons_of_suffix c (ite_tail_suffix t c)
    · split
      · exact List.suffix_cons c t
      · exact List.suffix_refl _

theorem libT3_suffix (g : Str) : (libT3 g).2 <:+ g := by
  cases g with
  | nil => exact List.suffix_refl _
  | cons c t => exact List.suffix_cons c t

theorem libcPDirective_suffix (f : Str) : (libcPDirective f).2 <:+ f := by
  rw [libcPDirective_eq]
  unfold libT0 libT1 libT2
  exact (libT3_suffix _).trans <| (libcPLength_suffix _).trans <| (libcPPrec_suffix _).trans <|
    (libcPWidth_suffix _).trans <| (List.dropWhile_suffix _).trans (dollarArg_getD_suffix f)

theorem scanfFlagsWidth_suffix (f : Str) : (scanfFlagsWidth f).2 <:+ f :=
  (skipDigits_suffix _).trans (List.dropWhile_suffix _)

theorem scanfHead_suffix (f : Str) : (scanfHead f).2 <:+ f := by
  unfold scanfHead
  split
  · split
    · exact (scanfFlagsWidth_suffix _).trans ((List.tail_suffix _).trans (skipDigits_suffix f))
    · exact skipDigits_suffix f
  · exact scanfFlagsWidth_suffix f

theorem libcSLength_suffix (g : Str) : libcSLength g <:+ g := by
  cases g with
  | nil => exact List.suffix_refl _
  | cons c t =>
    simp only [libcSLength]
    split
    · exact suffix_cons_of_suffix c (ite_tail_suffix t c)
    · split
      · exact suffix_cons_of_suffix c (ite_tail_suffix t 'l')
      · split
        · exact List.suffix_cons c t
        · exact List.suffix_refl _

theorem scanset_suffix (f : Str) : scanset f <:+ f := by
  unfold scanset
  exact (List.tail_suffix _).trans <| (List.dropWhile_suffix _).trans <|
    (ite_tail_suffix _ ']').trans (ite_tail_suffix f '^')

theorem libcSDirective_suffix (f : Str) : (libcSDirective f).2 <:+ f := by
  unfold libcSDirective
  have h1 := (libcSLength_suffix (scanfHead f).2).trans (scanfHead_suffix f)
  cases hg : libcSLength (scanfHead f).2 with
  | nil => simp
  | cons c r =>
    rw [hg] at h1
    have hr : r <:+ f := (List.suffix_cons c r).trans h1
    simp only
    split
    · exact (scanset_suffix r).trans hr
    · exact hr

/-! ## a bare `%n` found by libc's grammar is an occurrence of the two characters `%n` -/

theorem pctn_infix_of_head {r : Str} (h : r.head? = some 'n') : ['%', 'n'] <:+: '%' :: r := by
  obtain ⟨t, rfl⟩ := List.head?_eq_some_iff.mp h
  exact ⟨[], t, by simp⟩

theorem infix_cons_of_infix {a b : Str} (c : Char) (h : a <:+: b) : a <:+: c :: b :=
  h.trans (List.suffix_cons c b).isInfix

theorem printfNs_bare_infix (k : Nat) : ∀ fmt : Str, NSpell.bare ∈ printfNs k fmt → ['%', 'n'] <:+: fmt := by
  induction k with
  | zero => intro fmt h; simp [printfNs] at h
  | succ k ih =>
    intro fmt h
    cases fmt with
    | nil => simp [printfNs] at h
    | cons c r =>
      by_cases hc : c = '%'
      · subst hc
        have hsuf := libcPDirective_suffix r
        cases hd : libcPDirective r with
        | mk b r' =>
          rw [hd] at hsuf
          cases b with
          | true =>
            simp only [printfNs, ne_eq, not_true_eq_false, if_false, hd, List.mem_cons] at h
            rcases h with h | h
            · by_cases hh : r.head? = some 'n'
              · exact pctn_infix_of_head hh
              · simp [hh] at h
            · exact infix_cons_of_infix _ ((ih r' h).trans hsuf.isInfix)
          | false =>
            simp only [printfNs, ne_eq, not_true_eq_false, if_false, hd] at h
            exact infix_cons_of_infix _ ((ih r' h).trans hsuf.isInfix)
      · simp only [printfNs, ne_eq, hc, not_false_eq_true, if_true] at h
        exact infix_cons_of_infix _ (ih r h)

theorem scanfNs_bare_infix (k : Nat) : ∀ fmt : Str, NSpell.bare ∈ scanfNs k fmt → ['%', 'n'] <:+: fmt := by
  induction k with
  | zero => intro fmt h; simp [scanfNs] at h
  | succ k ih =>
    intro fmt h
    cases fmt with
    | nil => simp [scanfNs] at h
    | cons c r =>
      by_cases hc : c = '%'
      · subst hc
        have hsuf := libcSDirective_suffix r
        cases hd : libcSDirective r with
        | mk b r' =>
          rw [hd] at hsuf
          cases b with
          | true =>
            simp only [scanfNs, ne_eq, not_true_eq_false, if_false, hd, List.mem_cons] at h
            rcases h with h | h
            · by_cases hh : r.head? = some 'n'
              · exact pctn_infix_of_head hh
              · simp [hh] at h
            · exact infix_cons_of_infix _ ((ih r' h).trans hsuf.isInfix)
          | false =>
            simp only [scanfNs, ne_eq, not_true_eq_false, if_false, hd] at h
            exact infix_cons_of_infix _ ((ih r' h).trans hsuf.isInfix)
      · simp only [scanfNs, ne_eq, hc, not_false_eq_true, if_true] at h
        exact infix_cons_of_infix _ (ih r h)

/-! ## what the pre-scan establishes -/

theorem strstrPctN_none {fmt : Str} (h : strstrPctN fmt = none) : ¬ ['%', 'n'] <:+: fmt := by
  induction fmt with
  | nil => intro hi; have := hi.length_le; simp at this
  | cons c r ih =>
    unfold strstrPctN at h
    split at h
    · cases h
    · rename_i hc
      have hr : strstrPctN r = none := by simpa using h
      intro hi
      rcases List.infix_cons_iff.mp hi with hp | hi'
      · apply hc
        have := List.cons_prefix_cons.mp hp
        refine ⟨this.1.symm, ?_⟩
        obtain ⟨t, ht⟩ := this.2
        rw [← ht]; rfl
      · exact ih hr hi'

theorem strstrPctN_zero {r : Str} (h : strstrPctN r = some 0) : ∃ t, r = '%' :: 'n' :: t := by
  cases r with
  | nil => simp [strstrPctN] at h
  | cons c r' =>
    unfold strstrPctN at h
    split at h
    · rename_i hc
      obtain ⟨t, ht⟩ := List.head?_eq_some_iff.mp hc.2
      exact ⟨t, by rw [hc.1, ht]⟩
    · cases hs : strstrPctN r' <;> simp [hs] at h

/-- the first `%n` is at offset `i+1` and the character in front of it is `%`: then `%%n` occurs -/
theorem strstrPctN_succ_pct : ∀ (fmt : Str) (i : Nat), strstrPctN fmt = some (i + 1) →
    fmt.getD i '\x00' = '%' → ['%', '%', 'n'] <:+: fmt := by
  intro fmt
  induction fmt with
  | nil => intro i h; simp [strstrPctN] at h
  | cons c r ih =>
    intro i h hg
    unfold strstrPctN at h
    split at h
    · cases h
    · have hr : strstrPctN r = some i := by
        cases hs : strstrPctN r with
        | none => simp [hs] at h
        | some j => simp [hs] at h; rw [h]
      cases i with
      | zero =>
        obtain ⟨t, rfl⟩ := strstrPctN_zero hr
        have hc : c = '%' := by simpa using hg
        subst hc
        exact ⟨[], t, by simp⟩
      | succ j =>
        have hg' : r.getD j '\x00' = '%' := by simpa using hg
        exact infix_cons_of_infix _ (ih j hr hg')

/-- a format the pre-scan lets through, in which no `n` is preceded by two `%`, does not contain `%n` at all -/
theorem prescan_false_no_pctn {fmt : Str} (hps : prescan fmt = false) (hesc : ¬ ['%', '%', 'n'] <:+: fmt) :
    ¬ ['%', 'n'] <:+: fmt := by
  unfold prescan at hps
  cases hs : strstrPctN fmt with
  | none => exact strstrPctN_none hs
  | some i =>
    rw [hs] at hps
    cases i with
    | zero => simp at hps
    | succ j =>
      have : fmt.getD j '\x00' = '%' := by simpa using hps
      exact absurd (strstrPctN_succ_pct fmt j hs this) hesc


/-! ## a computable test for the hypothesis "no `n` directly behind two `%`" -/

def noPctPctN : Str → Bool
  | [] => true
  | c :: r => !(c == '%' && r.head? == some '%' && r.tail.head? == some 'n') && noPctPctN r

theorem noPctPctN_sound {fmt : Str} (h : noPctPctN fmt = true) : ¬ ['%', '%', 'n'] <:+: fmt := by
  induction fmt with
  | nil => intro hi; have := hi.length_le; simp at this
  | cons c r ih =>
    simp only [noPctPctN, Bool.and_eq_true, Bool.not_eq_true'] at h
    obtain ⟨h1, h2⟩ := h
    intro hi
    rcases List.infix_cons_iff.mp hi with hp | hi'
    · obtain ⟨t, ht⟩ := hp
      have hc : c = '%' := by
        have := congrArg List.head? ht; simp at this; exact this.symm
      have hr : r = '%' :: 'n' :: t := by
        have := congrArg List.tail ht; simp at this; exact this.symm
      subst hc; subst hr
      simp at h1
    · exact ih h2 hi'

/-! ## the fuel is enough -/

theorem printfNs_fuel (k : Nat) : ∀ fmt : Str, fmt.length ≤ k → printfNs (k + 1) fmt = printfNs k fmt := by
  induction k with
  | zero =>
    intro fmt h
    have : fmt = [] := List.length_eq_zero_iff.mp (Nat.le_zero.mp h)
    subst this; rfl
  | succ k ih =>
    intro fmt h
    cases fmt with
    | nil => rfl
    | cons c r =>
      have hr : r.length ≤ k := by simpa using h
      have hsuf := (libcPDirective_suffix r).length_le
      by_cases hc : c = '%'
      · subst hc
        cases hd : libcPDirective r with
        | mk b r' =>
          rw [hd] at hsuf
          have := ih r' (Nat.le_trans hsuf hr)
          cases b <;> simp only [printfNs, ne_eq, not_true_eq_false, if_false, hd, this]
      · simp only [printfNs, ne_eq, hc, not_false_eq_true, if_true, ih r hr]

theorem scanfNs_fuel (k : Nat) : ∀ fmt : Str, fmt.length ≤ k → scanfNs (k + 1) fmt = scanfNs k fmt := by
  induction k with
  | zero =>
    intro fmt h
    have : fmt = [] := List.length_eq_zero_iff.mp (Nat.le_zero.mp h)
    subst this; rfl
  | succ k ih =>
    intro fmt h
    cases fmt with
    | nil => rfl
    | cons c r =>
      have hr : r.length ≤ k := by simpa using h
      have hsuf := (libcSDirective_suffix r).length_le
      by_cases hc : c = '%'
      · subst hc
        cases hd : libcSDirective r with
        | mk b r' =>
          rw [hd] at hsuf
          have := ih r' (Nat.le_trans hsuf hr)
          cases b <;> simp only [scanfNs, ne_eq, not_true_eq_false, if_false, hd, this]
      · simp only [scanfNs, ne_eq, hc, not_false_eq_true, if_true, ih r hr]


theorem engDirective_suffix {f r : Str} (h : engDirective f = .next r) : r <:+ f := by
  have hs := libcPDirective_suffix f
  rw [engDirective_sync f r h] at hs
  exact hs

theorem engLoop_fuel (k : Nat) : ∀ fmt : Str, fmt.length ≤ k → engLoop (k + 1) fmt = engLoop k fmt := by
  induction k with
  | zero =>
    intro fmt h
    have : fmt = [] := List.length_eq_zero_iff.mp (Nat.le_zero.mp h)
    subst this; rfl
  | succ k ih =>
    intro fmt h
    cases fmt with
    | nil => rfl
    | cons c r =>
      have hr : r.length ≤ k := by simpa using h
      by_cases hc : c = '%'
      · subst hc
        cases hd : engDirective r with
        | stop w => simp only [engLoop, ne_eq, not_true_eq_false, if_false, hd]
        | next r' =>
          have := ih r' (Nat.le_trans (engDirective_suffix hd).length_le hr)
          simp only [engLoop, ne_eq, not_true_eq_false, if_false, hd, this]
      · simp only [engLoop, ne_eq, hc, not_false_eq_true, if_true, ih r hr]

end SafeC.Fmt

import SafeC.Proofs.SWMemEntry
import SafeC.Proofs.MemCopyEntry
/-!
# `memccpy_s`: the `CHK_OVRLP` interval test (every placement), and the copy loop never reports an overlap
-/
namespace SafeC
open Gen Mem

/-- the overlap test of `memccpy_s` (`CHK_OVRLP`: identical pointers count as overlapping) on addresses that do not
wrap around 2^64 -/
theorem ovrlp_one (dp dlen sp slen : Nat) (h1 : sp + slen < U64) (h2 : dp + dlen < U64) :
    ovrlp 1 dp dlen sp slen = true ↔ (sp ≤ dp ∧ dp < sp + slen) ∨ (dp < sp ∧ sp < dp + dlen) := by
  simp [ovrlp, Nat.mod_eq_of_lt h1, Nat.mod_eq_of_lt h2]

/-- `memccpy_s`, valid arguments, operands that DO overlap (the `n` source bytes and the `dmax` dest bytes share a
byte): ESOVRLP, the `dmax` bytes of dest zeroed, nothing else changed, one mem-handler event -/
theorem memccpy_s_overlap (cfg : Cfg) (dest dmax src c n : Nat) (st : St)
    (hd : dest ≠ 0) (hs : src ≠ 0) (hpos : 0 < n) (hle : n ≤ dmax) (hmax : dmax ≤ RSIZE_MAX_MEM)
    (hw : RW st dest dmax) (ha1 : src + n < U64) (ha2 : dest + dmax < U64)
    (hov : (src ≤ dest ∧ dest < src + n) ∨ (dest < src ∧ src < dest + dmax)) :
    ∃ st', exec (memccpy_s cfg dest dmax src c n none none) st = .ok (ESOVRLP, st') ∧
      st'.events = st.events ++ [.handler .mem ESOVRLP] ∧ st'.strays = st.strays ∧
      (∀ a, st'.data a = if dest ≤ a ∧ a < dest + dmax then 0 else st.data a) := by
  have hlt := RSIZE_MAX_MEM_lt_U32'
  have hn : dmax % U32 = dmax := Nat.mod_eq_of_lt (by omega)
  obtain ⟨s1, he, hf⟩ := mem_prim_set_ok dest dmax 0 st (by rw [hn]; exact hw)
  rw [hn] at hf
  refine ⟨{ s1 with events := s1.events ++ [.handler .mem ESOVRLP] }, ?_, ?_, hf.same.strays, hf.data⟩
  · have h1 : n ≠ 0 := by omega
    have h2 : dmax ≠ 0 := by omega
    have h3 : ¬ dmax > RSIZE_MAX_MEM := by omega
    have h4 : ¬ n > dmax := by omega
    have hov' : ovrlp 1 dest dmax src n = true := (ovrlp_one dest dmax src n ha1 ha2).2 hov
    simp [memccpy_s, h1, hd, h2, chkDmaxMemB, h3, hs, h4, hov', exec_bind, he, handlerM]
  · show s1.events ++ _ = _
    rw [hf.same.events]

/-- the copy loop returns EOK or ESNOSPC, whatever it reads -/
theorem SW_memccpyLoop_code {lo hi : Nat} (cfg : Cfg) (c : Int) (oD oM : Nat) (h0 : lo ≤ oD ∧ oD + oM ≤ hi ∧ oD < hi)
    (k dp sp n : Nat) (h : lo ≤ dp ∧ dp + k ≤ hi ∧ n ≤ k) :
    SW lo hi (memccpyLoop cfg c oD oM k dp sp n) (fun r => r = EOK ∨ r = ESNOSPC) := by
  induction k generalizing dp sp n with
  | zero => unfold memccpyLoop; sw_walk
  | succ k ih => unfold memccpyLoop; sw_walk using ih, SW_mem_prim_set'

/-- `memccpy_s`, valid arguments, operands that do NOT overlap: the call returns (on every memory content, whatever
the stop character) and the code is EOK or ESNOSPC — never ESOVRLP; nothing outside dest is written -/
theorem memccpy_s_disjoint (cfg : Cfg) (dest dmax src c n : Nat) (st : St)
    (hall : ∀ a, st.mapped a = true ∧ st.rd a = true)
    (hd : dest ≠ 0) (hs : src ≠ 0) (hpos : 0 < n) (hle : n ≤ dmax) (hmax : dmax ≤ RSIZE_MAX_MEM)
    (hw : RW st dest dmax) (ha1 : src + n < U64) (ha2 : dest + dmax < U64)
    (hno : ¬ ((src ≤ dest ∧ dest < src + n) ∨ (dest < src ∧ src < dest + dmax))) :
    ∃ code st', exec (memccpy_s cfg dest dmax src c n none none) st = .ok (code, st') ∧
      (code = EOK ∨ code = ESNOSPC) ∧ (∀ a, ¬ (dest ≤ a ∧ a < dest + dmax) → st'.data a = st.data a) := by
  have h1 : n ≠ 0 := by omega
  have h2 : dmax ≠ 0 := by omega
  have h3 : ¬ dmax > RSIZE_MAX_MEM := by omega
  have h4 : ¬ n > dmax := by omega
  have hov : ovrlp 1 dest dmax src n = false := by
    cases h : ovrlp 1 dest dmax src n with
    | false => rfl
    | true => exact absurd ((ovrlp_one dest dmax src n ha1 ha2).1 h) hno
  have hsw := SW_memccpyLoop_code (lo := dest) (hi := dest + dmax) cfg (asInt c) dest dmax
    ⟨Nat.le_refl _, Nat.le_refl _, by omega⟩ dmax dest src n ⟨Nat.le_refl _, Nat.le_refl _, hle⟩
  obtain ⟨r, st', he, hq, _, _, _, _, hfr⟩ := hsw.elim st hall (fun a ha hb => by
    have := hw (a - dest) (by omega)
    have e : dest + (a - dest) = a := by omega
    rw [e] at this; exact this.2.1)
  refine ⟨r, st', ?_, hq, hfr⟩
  simp only [memccpy_s, hd, h2, chkDmaxMemB, h3, h1, hs, h4, hov, if_false, Bool.false_eq_true]
  exact he

end SafeC

import SafeC.Models.Printf
/-!
# Where the printf engine stores, and what it returns when it fails (C09)

The state of the engine model is `St` = the cells of `dest`, the bytes handed to the stream, and `idx`; the arguments
are values (`Arg`) that are only ever taken from the front of the list.  `Frame m s s'` says what a run may have changed:
cells of `dest` below `m` (the `bufsize` the engine was given) and an extension of the stream — nothing else, whatever
the arguments are.  `Good m s x proj` packages, for one monadic piece `x` of the engine started in state `s`,
(1) every value it `return`s on an error exit is negative, (2) `Frame m s (proj a)` for every normal result `a`.
`Good` is closed under the engine's control structure (`good_bind`, `good_ite`, …), so the property is proved piece by
piece and, for the loop, by induction over the format.
-/
namespace SafeC.Printf
open SafeC.Gen

structure Frame (m : Nat) (s s' : St) : Prop where
  len : s'.cells.length = s.cells.length
  out : ∀ i, m ≤ i → s'.cells[i]? = s.cells[i]?
  str : s.stream <+: s'.stream

theorem Frame.refl (m : Nat) (s : St) : Frame m s s := ⟨rfl, fun _ _ => rfl, List.prefix_refl _⟩

theorem Frame.trans {m : Nat} {a b c : St} (h1 : Frame m a b) (h2 : Frame m b c) : Frame m a c :=
  ⟨h2.len.trans h1.len, fun i hi => (h2.out i hi).trans (h1.out i hi), h1.str.trans h2.str⟩

structure Good {α : Type} (m : Nat) (s : St) (x : M α) (proj : α → St) : Prop where
  neg : ∀ v, x = .error (.ret v) → v < 0
  frame : ∀ a, x = .ok a → Frame m s (proj a)

theorem good_bind {α β : Type} {m : Nat} {s : St} {x : M α} {f : α → M β} {p1 : α → St} {p2 : β → St}
    (hx : Good m s x p1) (hf : ∀ a, x = .ok a → Good m (p1 a) (f a) p2) : Good m s (x >>= f) p2 := by
  cases x with
  | error e =>
    refine ⟨fun v hv => hx.neg v ?_, fun a ha => ?_⟩
    · simpa [bind, Except.bind] using hv
    · cases ha
  | ok a =>
    have := hf a rfl
    exact ⟨fun v hv => this.neg v hv, fun b hb => (hx.frame a rfl).trans (this.frame b hb)⟩

theorem good_pure {α : Type} {m : Nat} {s : St} {a : α} {proj : α → St} (h : Frame m s (proj a)) :
    Good m s (pure a : M α) proj :=
  ⟨fun v hv => (by cases hv), fun b hb => (by cases hb; exact h)⟩

theorem good_ok {α : Type} {m : Nat} {s : St} {a : α} {proj : α → St} (h : Frame m s (proj a)) :
    Good m s (.ok a : M α) proj := good_pure h

theorem good_ret {α : Type} {m : Nat} {s : St} {v : Int} {proj : α → St} (h : v < 0) :
    Good m s (.error (.ret v) : M α) proj :=
  ⟨fun w hw => (by cases hw; exact h), fun b hb => (by cases hb)⟩

theorem good_stuck {α : Type} {m : Nat} {s : St} {proj : α → St} : Good m s (.error .stuck : M α) proj :=
  ⟨fun w hw => (by cases hw), fun b hb => (by cases hb)⟩
theorem good_fault {α : Type} {m : Nat} {s : St} {proj : α → St} : Good m s (.error .fault : M α) proj :=
  ⟨fun w hw => (by cases hw), fun b hb => (by cases hb)⟩
theorem good_unmodelled {α : Type} {m : Nat} {s : St} {proj : α → St} : Good m s (.error .unmodelled : M α) proj :=
  ⟨fun w hw => (by cases hw), fun b hb => (by cases hb)⟩

theorem good_ite {α : Type} {m : Nat} {s : St} {c : Prop} [Decidable c] {x y : M α} {proj : α → St}
    (hx : Good m s x proj) (hy : Good m s y proj) : Good m s (if c then x else y) proj := by
  split <;> assumption

/-- the error codes are positive -/
theorem codes_pos : (0 : Int) < ESNOSPC ∧ (0 : Int) < ESLEMAX ∧ (0 : Int) < ESNULLP ∧ (0 : Int) < EILSEQ := by decide

theorem ESNOSPCi_neg : ESNOSPCi < 0 := by decide

/-! ## the pieces -/

theorem out_good (sk : Sink) (m : Nat) (c : Char) (s : St) : Good m s (out sk m c s) id := by
  unfold out
  cases sk with
  | buffer =>
    simp only
    split
    · rename_i hlt
      refine good_ok ⟨by simp, fun i hi => ?_, List.prefix_refl _⟩
      simp only [id]
      rw [List.getElem?_set_ne (by omega)]
    · exact good_ret ESNOSPCi_neg
  | char =>
    refine good_ok ⟨rfl, fun _ _ => rfl, ?_⟩
    simp only [id]
    split
    · exact List.prefix_refl _
    · exact List.prefix_append _ _
  | fchar => exact good_ok ⟨rfl, fun _ _ => rfl, List.prefix_append _ _⟩

theorem emitAll_good (sk : Sink) (m : Nat) : ∀ (cs : List Char) (s : St), Good m s (emitAll sk m cs s) id := by
  intro cs
  induction cs with
  | nil => intro s; exact good_ok (Frame.refl m s)
  | cons c cs ih =>
    intro s
    unfold emitAll
    exact good_bind (out_good sk m c s) (fun s1 _ => ih s1)

theorem emitRep_good (sk : Sink) (m : Nat) (c : Char) : ∀ (n : Nat) (s : St), Good m s (emitRep sk m c n s) id := by
  intro n
  induction n with
  | zero => intro s; exact good_ok (Frame.refl m s)
  | succ n ih =>
    intro s
    unfold emitRep
    exact good_bind (out_good sk m c s) (fun s1 _ => ih s1)

/-- one step of the walk over a piece of the engine: a leaf, a bind over a known piece, or a case split -/
macro "good_step" : tactic => `(tactic| first
  | exact good_pure (Frame.refl _ _)
  | exact good_ok (Frame.refl _ _)
  | exact good_ret ESNOSPCi_neg
  | exact good_ret (by decide)
  | exact good_stuck
  | exact good_fault
  | exact good_unmodelled
  | assumption
  | (refine good_bind (p1 := id) (out_good ..) (fun _ _ => ?_))
  | (refine good_bind (p1 := id) (emitAll_good ..) (fun _ _ => ?_))
  | (refine good_bind (p1 := id) (emitRep_good ..) (fun _ _ => ?_))
  | (refine good_bind (p1 := id) (good_pure (Frame.refl _ _)) (fun _ _ => ?_))
  | exact emitRep_good ..
  | exact emitAll_good ..
  | exact out_good ..
  | split)

theorem outRev_good (sk : Sink) (m : Nat) (buf : Str) (w : Nat) (fl : Flags) (s : St) :
    Good m s (outRev sk m buf w fl s) id := by
  unfold outRev
  simp only []
  split
  · refine good_bind (p1 := id) (emitRep_good ..) (fun _ _ => ?_)
    refine good_bind (p1 := id) (emitAll_good ..) (fun _ _ => ?_)
    split
    · exact emitRep_good ..
    · exact good_pure (Frame.refl _ _)
  · refine good_bind (p1 := id) (good_pure (Frame.refl _ _)) (fun _ _ => ?_)
    refine good_bind (p1 := id) (emitAll_good ..) (fun _ _ => ?_)
    split
    · exact emitRep_good ..
    · exact good_pure (Frame.refl _ _)

theorem ntoaFormat_good (fx : Fixes) (sk : Sink) (m : Nat) (buf : Str) (neg : Bool) (base prec width : Nat) (fl : Flags) (s : St) :
    Good m s (ntoaFormat fx sk m buf neg base prec width fl s) id := by
  unfold ntoaFormat
  simp only []
  split
  · exact good_ret (by decide)
  · exact outRev_good ..

theorem ntoaLong_good (fx : Fixes) (sk : Sink) (m : Nat) (value : Nat) (neg : Bool) (base prec width : Nat) (fl : Flags) (s : St) :
    Good m s (ntoaLong fx sk m value neg base prec width fl s) id := by
  unfold ntoaLong
  exact ntoaFormat_good ..

theorem nextInt_good (m : Nat) (s : St) (args : List Arg) : Good m s (nextInt args) (fun _ => s) := by
  unfold nextInt
  split
  · exact good_ok (Frame.refl m s)
  · exact good_stuck

theorem nextLong_good (m : Nat) (s : St) (args : List Arg) : Good m s (nextLong args) (fun _ => s) := by
  unfold nextLong
  split
  · exact good_ok (Frame.refl m s)
  · exact good_stuck


macro "conv_tail" : tactic => `(tactic|
  (intro x _; obtain ⟨a, as⟩ := x; simp only []
   refine good_bind (p1 := id) (ntoaLong_good ..) (fun _ _ => ?_)
   exact good_pure (Frame.refl _ _)))

theorem convInt_good (fx : Fixes) (sk : Sink) (m : Nat) (c : Char) (fl : Flags) (w p : Nat) (args : List Arg) (s : St) :
    Good m s (convInt fx sk m c fl w p args s) Prod.fst := by
  unfold convInt
  split
  · exact good_ret (by decide)
  · extract_lets base fl1 fl2 fl3 fl4
    split <;> split
    · refine good_bind (nextLong_good m s args) ?_; conv_tail
    · refine good_bind (nextInt_good m s args) ?_; conv_tail
    · refine good_bind (nextLong_good m s args) ?_; conv_tail
    · refine good_bind (nextInt_good m s args) ?_; conv_tail

theorem good_opt_rep (sk : Sink) (m : Nat) (c : Bool) (n : Nat) (s : St) :
    Good m s (if c = true then emitRep sk m ' ' n s else pure s) id := by
  split
  · exact emitRep_good sk m ' ' n s
  · exact good_pure (Frame.refl m s)

macro "b_rep" : tactic => `(tactic| refine good_bind (p1 := id) (emitRep_good ..) (fun _ _ => ?_))
macro "b_all" : tactic => `(tactic| refine good_bind (p1 := id) (emitAll_good ..) (fun _ _ => ?_))
macro "b_out" : tactic => `(tactic| refine good_bind (p1 := id) (out_good ..) (fun _ _ => ?_))
macro "b_pure" : tactic => `(tactic| refine good_bind (p1 := id) (good_pure (Frame.refl _ _)) (fun _ _ => ?_))
macro "b_int" : tactic => `(tactic| refine good_bind (nextInt_good _ _ _) (fun _ _ => ?_))
macro "d_pure" : tactic => `(tactic| exact good_pure (Frame.refl _ _))
macro "tail_lr" : tactic => `(tactic| (split; (b_rep; d_pure); (b_pure; d_pure)))

/-- `%c` / `%lc` with the stray two-byte copy to `buffer[0]` removed (the current tree) -/
theorem convChar_good (fx : Fixes) (hfx : fx.lcMemcpy = true) (sk : Sink) (m : Nat) (fl : Flags) (w : Nat) (args : List Arg) (s : St) :
    Good m s (convChar fx sk m fl w args s) Prod.fst := by
  unfold convChar
  simp only [hfx, if_true]
  split
  · b_int
    split
    · exact good_ret (by decide)
    · b_pure
      split
      · b_rep; b_all; tail_lr
      · b_pure; b_all; tail_lr
  · split
    · b_rep; b_int; b_out; tail_lr
    · b_pure; b_int; b_out; tail_lr

theorem convStrTail_good (sk : Sink) (m bs : Nat) (fl : Flags) (w p : Nat) (t : Str) (l0 : Nat) (s : St) :
    Good m s (convStrTail sk m bs fl w p t l0 s) id := by
  unfold convStrTail
  simp only []
  split
  · exact good_ret ESNOSPCi_neg
  · split
    · b_rep; b_all; split
      · exact emitRep_good ..
      · d_pure
    · b_pure; b_all; split
      · exact emitRep_good ..
      · d_pure

theorem convStr_good (fx : Fixes) (sk : Sink) (m bs : Nat) (fl : Flags) (w p : Nat) (args : List Arg) (s : St) :
    Good m s (convStr fx sk m bs fl w p args s) Prod.fst := by
  unfold convStr
  simp only []
  refine good_ite ?_ ?_
  · split
    · exact good_ret (by decide)
    · refine good_ite (good_ret (by decide)) (good_ite (good_ret (by decide)) ?_)
      refine good_bind (p1 := id) (convStrTail_good ..) (fun _ _ => ?_); d_pure
    · exact good_stuck
  · split
    · exact good_ret (by decide)
    · refine good_bind (p1 := id) (convStrTail_good ..) (fun _ _ => ?_); d_pure
    · exact good_stuck

/-! ## one conversion specification, the loop, the engine -/

theorem good_const {α : Type} {m : Nat} {s : St} (a : α) : Good m s (.ok a : M α) (fun _ => s) :=
  good_ok (proj := fun _ => s) (Frame.refl m s)

theorem parseWidth_good (m : Nat) (s : St) (f : Str) (fl : Flags) (args : List Arg) :
    Good m s (parseWidth f fl args) (fun _ => s) := by
  unfold parseWidth
  split
  · exact good_const _
  · refine good_ite (good_const _) (good_ite ?_ (good_const _))
    refine good_bind (nextInt_good m s args) (fun x _ => ?_)
    exact good_ite (good_const _) (good_const _)

theorem parsePrec_good (fx : Fixes) (m : Nat) (s : St) (f : Str) (fl : Flags) (args : List Arg) :
    Good m s (parsePrec fx f fl args) (fun _ => s) := by
  unfold parsePrec
  split
  · exact good_const _
  · refine good_ite ?_ (good_const _)
    simp only []
    split
    · exact good_const _
    · refine good_ite (good_const _) (good_ite ?_ (good_const _))
      refine good_bind (nextInt_good m s args) (fun x _ => ?_)
      exact good_ite (good_const _) (good_const _)

/-- one conversion specification: error exits return negative values; a normal return changed only `dest` below
    `bufsize` and extended the stream -/
theorem directive_good (fx : Fixes) (hfx : fx.lcMemcpy = true) (sk : Sink) (m : Nat) (f : Str) (args : List Arg) (s : St) :
    Good m s (directive fx sk m f args s) (fun x => x.2.2) := by
  unfold directive
  simp only []
  refine good_bind (parseWidth_good m s _ _ _) (fun x1 _ => ?_)
  refine good_bind (parsePrec_good fx m s _ _ _) (fun x2 _ => ?_)
  split
  · exact good_ret (by decide)
  · refine good_ite ?_ (good_ite good_unmodelled (good_ite ?_ (good_ite ?_ (good_ite ?_ (good_ite ?_ (good_ret (by decide)))))))
    · refine good_bind (p1 := Prod.fst) (convInt_good ..) (fun _ _ => ?_); d_pure
    · refine good_bind (p1 := Prod.fst) (convChar_good fx hfx ..) (fun _ _ => ?_); d_pure
    · refine good_bind (p1 := Prod.fst) (convStr_good ..) (fun _ _ => ?_); d_pure
    · split
      · refine good_bind (p1 := id) (ntoaLong_good ..) (fun _ _ => ?_); d_pure
      · exact good_stuck
    · b_out; d_pure

theorem engLoop_good (fx : Fixes) (hfx : fx.lcMemcpy = true) (sk : Sink) (m : Nat) : ∀ (k : Nat) (fmt : Str) (args : List Arg) (s : St),
    Good m s (engLoop fx sk m k fmt args s) id := by
  intro k
  induction k with
  | zero => intro fmt args s; exact good_ok (Frame.refl m s)
  | succ k ih =>
    intro fmt args s
    cases fmt with
    | nil => exact good_ok (Frame.refl m s)
    | cons c r =>
      unfold engLoop
      refine good_ite ?_ ?_
      · exact good_bind (p1 := id) (out_good ..) (fun s1 _ => ih r args s1)
      · exact good_bind (p1 := fun x => x.2.2) (directive_good fx hfx ..) (fun x _ => ih x.1 x.2.1 x.2.2)

/-- **the engine, every format and argument list**: every error exit returns a negative value; a normal return
    has stored only into `dest[0..bufsize)` and appended to the stream -/
theorem engine_good (fx : Fixes) (hfx : fx.lcMemcpy = true) (sk : Sink) (m : Nat) (hm : 0 < m) (fmt : Str) (args : List Arg) (s : St) :
    Good m s (engine fx sk m fmt args s) id := by
  unfold engine
  refine good_bind (p1 := id) (engLoop_good fx hfx sk m _ fmt args s) (fun s1 _ => ?_)
  cases sk with
  | buffer =>
    refine good_pure ⟨by simp, fun i hi => ?_, List.prefix_refl _⟩
    simp only [id]
    rw [List.getElem?_set_ne (by split <;> omega)]
  | char => exact good_pure (Frame.refl _ _)
  | fchar => exact good_pure (Frame.refl _ _)

end SafeC.Printf

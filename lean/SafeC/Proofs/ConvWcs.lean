import SafeC.Proofs.ConvStr
/-! C15: glibc's `wcsrtombs` (model) on a terminated string of encodable wide characters = `encodeAll`, limited to the
whole characters that fit. -/
namespace SafeC.Conv.Libc

/-- the wide → multibyte step on a list of encodable characters: it converts the longest prefix whose encoding fits -/
theorem gconvWc_spec (loc : Locale) (cs E : List Nat) (hE : encodeAll loc cs = some E) (space : Nat) :
    ∃ m p, m ≤ cs.length ∧ encodeAll loc (cs.take m) = some p ∧
      gconvWc loc cs space = ⟨p, m, [], if m = cs.length then .empty else .full⟩ ∧ p.length ≤ space ∧
      (m < cs.length → ∀ p', encodeAll loc (cs.take (m + 1)) = some p' → space < p'.length) := by
  induction cs generalizing E space with
  | nil => exact ⟨0, [], by simp, rfl, by simp [gconvWc], by simp, by simp⟩
  | cons c cs ih =>
    obtain ⟨a, b, ha, hb, rfl⟩ := encodeAll_cons_inv loc c cs E hE
    have hapos := enc_length_pos loc c a ha
    by_cases hs : space = 0
    · refine ⟨0, [], by simp, rfl, by simp [gconvWc, hs], by simp, ?_⟩
      intro _ p' hp'
      simp only [Nat.zero_add, List.take_succ_cons, List.take_zero] at hp'
      rw [encodeAll_cons loc c [] a [] ha rfl] at hp'
      cases hp'; simp; omega
    · by_cases hfit : a.length > space
      · refine ⟨0, [], by simp, rfl, by simp [gconvWc, hs, ha, hfit], by simp, ?_⟩
        intro _ p' hp'
        simp only [Nat.zero_add, List.take_succ_cons, List.take_zero] at hp'
        rw [encodeAll_cons loc c [] a [] ha rfl] at hp'
        cases hp'; simpa using hfit
      · obtain ⟨m, p, hm, hp, hg, hpl, hnext⟩ := ih b hb (space - a.length)
        refine ⟨m + 1, a ++ p, by simp; omega, ?_, ?_, by simp only [List.length_append]; omega, ?_⟩
        · rw [List.take_succ_cons]; exact encodeAll_cons loc c _ a p ha hp
        · simp only [gconvWc, hs, ↓reduceIte, ha, hfit, hg, List.length_cons]
          have : (m + 1 = cs.length + 1) = (m = cs.length) := by simp
          simp only [Nat.add_comm 1 m, this]
        · intro hlt p' hp'
          rw [List.take_succ_cons] at hp'
          obtain ⟨x, y, hx, hy, rfl⟩ := encodeAll_cons_inv loc c _ p' hp'
          rw [ha] at hx; cases hx
          have := hnext (by simpa using hlt) y hy
          simp only [List.length_append]; omega

theorem encodeAll_snoc_zero (loc : Locale) (ws E : List Nat) (hE : encodeAll loc ws = some E) :
    encodeAll loc (ws ++ [0]) = some (E ++ [0]) :=
  encodeAll_append loc ws [0] E [0] hE (encodeAll_cons loc 0 [] [0] [] (enc_zero loc) rfl)

/-- **wcsrtombs on a valid string**: source `ws ++ 0 :: tail` (no zero in `ws`, every character encodable), any limit.
Everything and the terminator fit: all bytes + NUL stored, count = |bytes|, `*src = NULL`.  Otherwise: the bytes of the
longest prefix of whole characters that fits, `*src` behind exactly those characters. -/
theorem wcsrtombs_valid (loc : Locale) (ws E tail : List Nat) (hE : encodeAll loc ws = some E) (hz : ∀ c ∈ ws, c ≠ 0)
    (len : Nat) :
    (E.length < len → wcsrtombs loc false (ws ++ 0 :: tail) len = ⟨E ++ [0], E.length, none, [], false⟩) ∧
    (len ≤ E.length → ∃ m p, m ≤ ws.length ∧ encodeAll loc (ws.take m) = some p ∧ p.length ≤ len ∧
        (m < ws.length → ∀ p', encodeAll loc (ws.take (m + 1)) = some p' → len < p'.length) ∧
        wcsrtombs loc false (ws ++ 0 :: tail) len = ⟨p, p.length, some m, [], false⟩) := by
  have hk : min len ws.length ≤ ws.length := Nat.min_le_right _ _
  obtain ⟨w, hwdef⟩ : ∃ w, w = (ws ++ [0]).take (min len ws.length + 1) := ⟨_, rfl⟩
  have hw : (ws ++ 0 :: tail).take (strnlen (ws ++ 0 :: tail) len + 1) = w := by
    rw [strnlen_term ws tail hz, take_term ws tail _ hk, hwdef]
  have hE0 := encodeAll_snoc_zero loc ws E hE
  obtain ⟨W, _, hW, _, _⟩ := encodeAll_take loc (ws ++ [0]) (E ++ [0]) hE0 (min len ws.length + 1)
  rw [← hwdef] at hW
  have hwl : w.length = min len ws.length + 1 := by
    rw [hwdef]; simp only [List.length_take, List.length_append, List.length_cons, List.length_nil]; omega
  obtain ⟨m, p, hm, hp, hg, hpl, hnext⟩ := gconvWc_spec loc w W hW len
  simp only [wcsrtombs, Bool.false_eq_true, ↓reduceIte, hw, hg]
  by_cases hmw : m = w.length
  · -- the whole window was converted: it is the whole string with its terminator
    rw [hmw, List.take_length, hW] at hp
    cases hp
    have h1 := encodeAll_length_ge loc _ _ hW
    have hlen : ws.length < len := by omega
    have hmin : min len ws.length = ws.length := by omega
    rw [hmin, List.take_of_length_le (by simp)] at hwdef
    rw [hwdef, hE0] at hW; cases hW
    refine ⟨fun _ => by simp [hmw], fun h => ?_⟩
    simp only [List.length_append, List.length_cons, List.length_nil] at hpl; omega
  · have hmlt : m < min len ws.length + 1 := by omega
    have hmws : m ≤ ws.length := by omega
    have ht : w.take m = ws.take m := by
      rw [hwdef, List.take_take, Nat.min_eq_left (by omega), List.take_append_of_le_length hmws]
    rw [ht] at hp
    have hnext' : ∀ p', encodeAll loc ((ws ++ [0]).take (m + 1)) = some p' → len < p'.length := by
      intro p' hp'
      apply hnext (by omega) p'
      rw [hwdef, List.take_take, Nat.min_eq_left (by omega)]; exact hp'
    simp only [hmw, ↓reduceIte]
    refine ⟨fun h => ?_, fun h => ⟨m, p, hmws, hp, hpl, ?_, by simp⟩⟩
    · exfalso
      obtain ⟨p', q', hp', _, hsplit⟩ := encodeAll_take loc (ws ++ [0]) (E ++ [0]) hE0 (m + 1)
      have := hnext' p' hp'
      have hl := congrArg List.length hsplit
      simp only [List.length_append, List.length_cons, List.length_nil] at hl
      omega
    · intro hlt p' hp'
      apply hnext' p'
      rw [List.take_append_of_le_length (by omega)]; exact hp'

end SafeC.Conv.Libc

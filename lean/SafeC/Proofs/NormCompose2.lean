import SafeC.Proofs.NormCompose
import SafeC.Proofs.NormMain
/-! C17 — every composite the pair lookup can return is a starter (tree's classes and UCD 14.0's) -/
namespace SafeC.Norm
open SafeC.Gen

theorem compos_pairs_size : UniCompos.pairs < 2 ^ (32 * (2 * UniCompos.pairsN)) := by decide +kernel

set_option maxRecDepth 100000 in
/-- every stored composite has combining class 0, in the tree's table and in UCD 14.0 -/
theorem compos_composites_starters :
    allBelow (fun j => kcc (cell 32 UniCompos.pairs (2 * j + 1)) == 0 && UCD.ccc (cell 32 UniCompos.pairs (2 * j + 1)) == 0) UniCompos.pairsN = true := by
  decide +kernel

/-- the Hangul syllable blocks have no page in either class table -/
theorem hangul_blocks_class0 :
    allBelow (fun i => rowId UniCombin.mainN UniCombin.main UniCombin.planes ((0xAC + i) * 256) == some 0 && cell 16 UCD14.cccIdx (0xAC + i) == 0) 44 = true := by
  decide +kernel

attribute [local irreducible] cell UniCanon.main UniCanon.planes UniCanon.rows UniCombin.main UniCombin.planes UniCombin.rows
  UniCompos.main UniCompos.planes UniCompos.rows UniCompos.pairs UniCompos.listOff UniCompos.listLen UCD14.cccIdx UCD14.cccPages

theorem hangulS_class0 {c : Nat} (h : 0xAC00 ≤ c ∧ c ≤ 0xD7A3) : kcc c = 0 ∧ UCD.ccc c = 0 := by
  have hb : c / 256 - 0xAC < 44 := by omega
  have hh := allBelow_spec hangul_blocks_class0 _ hb
  have e : 0xAC + (c / 256 - 0xAC) = c / 256 := by omega
  rw [e] at hh
  simp only [Bool.and_eq_true, beq_iff_eq] at hh
  constructor
  · unfold kcc combinClass
    rw [rowId_block, hh.1]
    rfl
  · unfold UCD.ccc
    have : c < 0x110000 := by omega
    simp [this, hh.2]

/-- the list search returns 0 or a stored composite -/
theorem searchList_stored (key : Nat) : ∀ (n off : Nat), searchList key off n = 0 ∨ ∃ j, searchList key off n = cell 32 UniCompos.pairs (2 * j + 1) := by
  intro n
  induction n with
  | zero => intro off; left; rfl
  | succ n ih =>
    intro off
    unfold searchList
    dsimp only
    split
    · right; exact ⟨off, rfl⟩
    · split
      · left; rfl
      · exact ih (off + 1)

theorem stored_composite_class0 (j : Nat) (h : cell 32 UniCompos.pairs (2 * j + 1) ≠ 0) :
    kcc (cell 32 UniCompos.pairs (2 * j + 1)) = 0 ∧ UCD.ccc (cell 32 UniCompos.pairs (2 * j + 1)) = 0 := by
  by_cases hj : j < UniCompos.pairsN
  · have := allBelow_spec compos_composites_starters j hj
    simpa using this
  · exact absurd (cell_eq_zero_of_ge compos_pairs_size (by omega)) h

/-- **whatever `_composite_cp` returns (and the exclusion test lets through) is a starter** — for every pair of 32-bit values -/
theorem compositeCp_class0 (fx : Fixes) (a b : Nat) (h : compositeCp fx a b ≠ 0) :
    kcc (compositeCp fx a b) = 0 ∧ UCD.ccc (compositeCp fx a b) = 0 := by
  unfold compositeCp at h ⊢
  have c0 : UniCompos.unicodeMax = 0x10FFFF := by decide
  have c1 : UniCompos.HLBase = 0x1100 := by decide
  have c2 : UniCompos.HLFinal = 0x1112 := by decide
  have c3 : UniCompos.HVBase = 0x1161 := by decide
  have c4 : UniCompos.HVFinal = 0x1175 := by decide
  have c5 : UniCompos.HSBase = 0xAC00 := by decide
  have c6 : UniCompos.HVCount = 21 := by decide
  have c7 : UniCompos.HTCount = 28 := by decide
  have c8 : UniCompos.HTBase = 0x11A7 := by decide
  have c9 : UniCompos.HTFinal = 0x11C2 := by decide
  have c10 : UniCompos.HSFinal = 0xD7A3 := by decide
  have c11 : ESLEMAX = 403 := by decide
  by_cases hb : b = 0
  · simp [hb] at h
  · by_cases hr : UniCompos.unicodeMax < a ∨ UniCompos.unicodeMax < b
    · simp only [hb, hr, ↓reduceIte]
      -- (uint32_t)-ESLEMAX: not a code point
      rw [c11]
      have hbig : UniCompos.unicodeMax < 2 ^ 32 - 403 := by rw [c0]; decide
      constructor
      · unfold kcc; rw [combinClass_oob hbig]; rfl
      · unfold UCD.ccc; simp
    · by_cases hlv : (isL a && isV b) = true
      · simp only [hb, hr, hlv, ↓reduceIte]
        unfold isL isV at hlv
        rw [c1, c2, c3, c4] at hlv
        simp only [Bool.and_eq_true, decide_eq_true_eq] at hlv
        rw [c5, c1, c6, c3, c7]
        apply hangulS_class0
        omega
      · by_cases hlvt : (isLV a && isT b) = true
        · simp only [hb, hr, hlv, hlvt, ↓reduceIte, Bool.false_eq_true]
          unfold isLV isS isT at hlvt
          rw [c5, c10, c7, c8, c9] at hlvt
          simp only [Bool.and_eq_true, decide_eq_true_eq, beq_iff_eq] at hlvt
          rw [c8]
          apply hangulS_class0
          omega
        · simp only [hb, hr, hlv, hlvt, ↓reduceIte, Bool.false_eq_true] at h ⊢
          split at h
          · exact absurd rfl h
          · exact absurd rfl h
          · rename_i r hrow
            by_cases hz : cell 16 UniCompos.rows (r * 256 + a % 256) = 0
            · rw [if_pos hz] at h; exact absurd rfl h
            · rw [if_neg hz] at h ⊢
              rcases searchList_stored (if a < UniCompos.firstLong ∧ (!fx.compCast) = true then b % 65536 else b)
                (cell 8 UniCompos.listLen (cell 16 UniCompos.rows (r * 256 + a % 256) - 1))
                (cell 16 UniCompos.listOff (cell 16 UniCompos.rows (r * 256 + a % 256) - 1)) with h0 | ⟨j, hj⟩
              · exact absurd h0 h
              · rw [hj] at h ⊢
                exact stored_composite_class0 j h

end SafeC.Norm

import SafeC.Proofs.NormComposeSpec
/-!
# C17 — decomposing and reordering the output of the Canonical Composition Algorithm gives its input back

Core Lean only.  Generic in the class function `k`, the pair map `pc` and the (full) decomposition `dec`; the only fact about
the data is **`pc a b = some c → dec c = dec a ++ dec b`** (on a set `S` closed under `pc`): the full decomposition of a primary
composite is the full decomposition of its first constituent followed by that of the second.  It is a table fact, kernel-checked
for the tree's tables and for UCD 14.0 in `NormIdemTables.lean`.

* `swaps_past` — a character moves to the right past marks with which it forms Reorderable pairs (D108) by exchanges (D109).
* `composeStep_undone` — ONE composition step is undone by decomposition + canonical reordering: when `c` is not blocked from
  the starter `s` by the pending marks `pend` and `pc s c = some p`, then
  `reorder (dec p ++ pend ++ rest) = reorder (dec s ++ pend ++ c :: rest)`.
* `composeGo_roundtrip`, `composePure_roundtrip` — the whole pass: for canonically ordered, fully decomposed `ys`
  `reorder (flatMap dec (composePure k pc ys)) = ys`.
-/
namespace SafeC.Norm

/-! ## exchanges in context -/

theorem SwapStep.append_right {k : Nat → Nat} {l l' : List Nat} (r : List Nat) (h : SwapStep k l l') :
    SwapStep k (l ++ r) (l' ++ r) := by
  cases h with
  | swap p a b q hr =>
    have := SwapStep.swap p a b (q ++ r) hr
    simpa using this

theorem swaps_append_right {k : Nat → Nat} {l l' : List Nat} (r : List Nat) (h : ReflTransGen (SwapStep k) l l') :
    ReflTransGen (SwapStep k) (l ++ r) (l' ++ r) := by
  induction h with
  | refl => exact .refl
  | tail _ s ih => exact .tail ih (s.append_right r)

theorem swaps_append_left {k : Nat → Nat} (p : List Nat) {l l' : List Nat} (h : ReflTransGen (SwapStep k) l l') :
    ReflTransGen (SwapStep k) (p ++ l) (p ++ l') := by
  induction p with
  | nil => exact h
  | cons x p ih => exact swaps_cons x ih

/-- `c` travels to the right past marks of lower (non-zero) class, one exchange of a Reorderable pair at a time -/
theorem swaps_past {k : Nat → Nat} {c : Nat} : ∀ (pend : List Nat), (∀ m ∈ pend, Reorderable k c m) →
    ReflTransGen (SwapStep k) (c :: pend) (pend ++ [c]) := by
  intro pend
  induction pend with
  | nil => intro _; exact .refl
  | cons m pend ih =>
    intro h
    have h1 : SwapStep k (c :: m :: pend) (m :: c :: pend) := SwapStep.swap [] c m pend (h m (by simp))
    exact (ReflTransGen.single h1).trans (swaps_cons m (ih (fun x hx => h x (by simp [hx]))))

theorem reorderPure_append_reorder_right (k : Nat → Nat) (a b : List Nat) :
    reorderPure k (a ++ reorderPure k b) = reorderPure k (a ++ b) := by
  induction a with
  | nil => exact reorderPure_idem k b
  | cons c a ih => simp only [List.cons_append, reorderPure, ih]

theorem reorderPure_append_reorder_left (k : Nat → Nat) (a b : List Nat) :
    reorderPure k (reorderPure k a ++ b) = reorderPure k (a ++ b) :=
  (reorderPure_swaps_eq (swaps_append_right b (reorderPure_swaps k a))).symm

theorem flatMap_of_fixed {dec : Nat → List Nat} : ∀ (ys : List Nat), (∀ d ∈ ys, dec d = [d]) → ys.flatMap dec = ys := by
  intro ys
  induction ys with
  | nil => intro _; rfl
  | cons y ys ih =>
    intro h
    simp only [List.flatMap_cons]
    rw [h y (by simp), ih (fun d hd => h d (by simp [hd]))]
    rfl

/-! ## one composition step -/

/-- **one composition step is undone by decomposition and canonical reordering.**  `s` the last starter, `pend` the marks
since `s` that were not composed (classes non-zero and `≤ pre`), `c` the next character, not blocked in the sense of the
algorithm (`¬ ((k c ≠ 0 ∧ pre = k c) ∨ pre > k c)`, D115), `p` the composite, whose full decomposition is that of `s`
followed by `c`: replacing `s` by `p` and deleting `c` is invisible after decomposition and reordering. -/
theorem composeStep_undone {k : Nat → Nat} {dec : Nat → List Nat} {s c p pre : Nat} {pend : List Nat} (rest : List Nat)
    (hpend : ∀ b ∈ pend, k b ≠ 0 ∧ k b ≤ pre) (hnb : ¬ ((k c ≠ 0 ∧ pre = k c) ∨ pre > k c))
    (hdec : dec p = dec s ++ [c]) :
    reorderPure k (dec p ++ pend ++ rest) = reorderPure k (dec s ++ pend ++ c :: rest) := by
  have hsw : ReflTransGen (SwapStep k) (c :: pend) (pend ++ [c]) := by
    apply swaps_past
    intro m hm
    have := hpend m hm
    unfold Reorderable
    omega
  have h2 := swaps_append_left (dec s) (swaps_append_right rest hsw)
  have := reorderPure_swaps_eq h2
  rw [hdec]
  simpa using this

/-! ## the whole pass -/

section roundtrip
variable {k : Nat → Nat} {pc : Nat → Nat → Option Nat} {dec : Nat → List Nat} {S : Nat → Prop}

/-- the invariant of the streaming algorithm (`composeGo`, state: last starter `s`, class `pre` of the last uncomposed mark,
the uncomposed marks `pend`): whatever it outputs from here decomposes and reorders to the same string as
`dec s ++ pend ++ rest` -/
theorem composeGo_roundtrip (hpc : ∀ a b c, S a → S b → pc a b = some c → S c ∧ dec c = dec a ++ dec b) :
    ∀ (rest : List Nat) (s pre : Nat) (pend : List Nat) (lo : Nat), S s →
      (∀ b ∈ pend, k b ≠ 0 ∧ k b ≤ pre) → (∀ b ∈ pend, dec b = [b]) → (∀ c ∈ rest, S c ∧ dec c = [c]) →
      pre ≤ lo → OrdFrom k lo rest →
      reorderPure k ((composeGo k pc rest s pre pend).flatMap dec) = reorderPure k (dec s ++ pend ++ rest) := by
  intro rest
  induction rest with
  | nil =>
    intro s pre pend lo _ _ hfix _ _ _
    simp only [composeGo, List.flatMap_cons, flatMap_of_fixed pend hfix, List.append_nil]
  | cons c rest ih =>
    intro s pre pend lo hs hpend hfix hrest hlo hord
    obtain ⟨hc, hord'⟩ := hord
    have hcS := (hrest c (by simp)).1
    have hcd := (hrest c (by simp)).2
    have hrest' : ∀ x ∈ rest, S x ∧ dec x = [x] := fun x hx => hrest x (by simp [hx])
    -- the two continuations when `c` is not composed
    have hkeep : reorderPure k ((if k c = 0 then s :: pend ++ composeGo k pc rest c 0 []
          else composeGo k pc rest s (k c) (pend ++ [c])).flatMap dec) = reorderPure k (dec s ++ pend ++ c :: rest) := by
      by_cases hz : k c = 0
      · have := ih c 0 [] 0 hcS (by simp) (by simp) hrest' (Nat.le_refl _) (hz ▸ hord')
        simp only [hz, if_true, List.flatMap_cons, List.flatMap_append, flatMap_of_fixed pend hfix]
        rw [← reorderPure_append_reorder_right, this, reorderPure_append_reorder_right, hcd]
        simp
      · have := ih s (k c) (pend ++ [c]) (k c) hs
          (by
            intro b hb
            rcases List.mem_append.1 hb with h | h
            · have := hpend b h; omega
            · simp only [List.mem_singleton] at h; rw [h]; omega)
          (by
            intro b hb
            rcases List.mem_append.1 hb with h | h
            · exact hfix b h
            · simp only [List.mem_singleton] at h; rw [h]; exact hcd)
          hrest' (Nat.le_refl _) hord'
        simp only [hz, if_false]
        simpa using this
    unfold composeGo
    by_cases hb : (k c ≠ 0 ∧ pre = k c) ∨ pre > k c
    · simp only [if_pos hb]
      exact hkeep
    · simp only [if_neg hb]
      cases hp : pc s c with
      | none => exact hkeep
      | some p =>
        obtain ⟨hpS, hpd⟩ := hpc s c p hs hcS hp
        rw [hcd] at hpd
        have := ih p pre pend (k c) hpS hpend hfix hrest' (by omega) hord'
        dsimp only
        rw [this]
        exact composeStep_undone rest hpend hb hpd

/-- **decomposition + canonical reordering undoes the Canonical Composition Algorithm**: for every canonically ordered
string `ys` of fully decomposed characters, `reorder (flatMap dec (composePure k pc ys)) = ys` — the NFD of the NFC is the NFD -/
theorem composePure_roundtrip (hpc : ∀ a b c, S a → S b → pc a b = some c → S c ∧ dec c = dec a ++ dec b)
    {ys : List Nat} (hys : ∀ c ∈ ys, S c ∧ dec c = [c]) (hord : CanonOrdered k ys) :
    reorderPure k ((composePure k pc ys).flatMap dec) = ys := by
  have key : ∀ (ys : List Nat) (lo : Nat), (∀ c ∈ ys, S c ∧ dec c = [c]) → OrdFrom k lo ys →
      reorderPure k ((composePure k pc ys).flatMap dec) = reorderPure k ys := by
    intro ys
    induction ys with
    | nil => intro _ _ _; rfl
    | cons c rest ih =>
      intro lo hys hord
      obtain ⟨_, hord'⟩ := hord
      have hcS := (hys c (by simp)).1
      have hcd := (hys c (by simp)).2
      have hrest : ∀ x ∈ rest, S x ∧ dec x = [x] := fun x hx => hys x (by simp [hx])
      unfold composePure
      by_cases hz : k c = 0
      · have := composeGo_roundtrip hpc rest c 0 [] 0 hcS (by simp) (by simp) hrest (Nat.le_refl _) (hz ▸ hord')
        simp only [hz, if_true]
        rw [this, hcd]
        simp
      · simp only [hz, if_false, List.flatMap_cons, hcd, List.singleton_append, reorderPure]
        rw [ih (k c) hrest hord']
  rw [key ys 0 hys (ordFrom_of_canonOrdered hord), reorderPure_of_canonOrdered hord]

end roundtrip

#print axioms composeStep_undone
#print axioms composePure_roundtrip

end SafeC.Norm

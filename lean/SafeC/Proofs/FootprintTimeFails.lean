import SafeC.Proofs.FootprintTime
/-!
# `ctime_s` when libc gives up after formatting (`libcFails`: glibc's `ctime_r` from the year 10000 on)

The tail then copies the 25 characters glibc had formatted (`dmax ≥ 120`: libc's buffer IS dest) and clears dest.
Same footprint as the normal paths: `*timer`, libc's text, dest.
-/
namespace SafeC
open Gen

variable {R W : Nat → Prop}

/-- the tail with `libcFails`: loads from the text (direct path only), stores to dest -/
theorem within2_timeTail_fails (cfg : Cfg) (dest dmax : Nat) (db : Bos) (text n : Nat) (s : St) (hpos : 0 < dmax)
    (htext : text ≠ 0 → 120 ≤ dmax →
      (∀ j, j < n → s.data (text + j) ≠ 0) ∧ s.data (text + n) = 0 ∧ n < 120 ∧ (dest + n < text ∨ text + n < dest))
    (hr : text ≠ 0 → 120 ≤ dmax → ∀ j, j ≤ n → R (text + j)) (hw : ∀ a, Cells dest dmax a → W a) :
    Within2 R W (timeTail cfg dest dmax db text true) s := by
  refine AccS.within2 (Q := fun _ _ => True) ?_ s rfl
  unfold timeTail
  dsimp only
  rw [if_pos (Or.inr rfl)]
  have clr : ∀ d : Nat → Nat, AccS R W d (do
      (if cfg.slack = true then memsetP 0 dmax dest else store dest 0)
      pure NEG1 : Prog Nat) (fun _ _ => True) := by
    intro d
    refine AccS.bind (Q := fun _ _ => True) (S := fun _ _ => True) ?_ (fun _ _ _ => AccS.pure _ trivial)
    split
    · exact AccS_memsetP 0 dmax dest hw
    · exact AccS.storeBind (hw dest ⟨Nat.le_refl _, by omega⟩) (AccS.pure _ trivial)
  split
  · rename_i h
    obtain ⟨hnz, hnul, hn, hdisj⟩ := htext h.1 h.2
    refine AccS.bind (AccS_copyText n 120 text dest s.data hn hnz hnul hdisj (hr h.1 h.2)
      (fun j hj => hw _ ⟨by omega, by omega⟩)) (fun _ d' _ => clr d')
  · exact AccS.bind (AccS.pure (Q := fun _ _ => True) () trivial) (fun _ d' _ => clr d')

/-- `ctime_s`, any `libcFails`: the checks read `*timer` (twice), the clearing exits store to dest -/
theorem within2_ctime_s' (cfg : Cfg) (dest dmax timer : Nat) (db : Bos) (text : Nat) (lf : Bool) (s : St)
    (hw : dest ≠ 0 → ∀ a, Cells dest dmax a → W a) (hr : timer ≠ 0 → R timer)
    (htail : dest ≠ 0 → 26 ≤ dmax → timer ≠ 0 → ∀ s', (∀ a, ¬ W a → s'.data a = s.data a) →
      Within2 R W (timeTail cfg dest dmax db text lf) s') :
    Within2 R W (ctime_s cfg dest dmax timer db text lf) s := by
  unfold ctime_s
  refine within2_timeEntry dest dmax db _ s (fun hd hp => hw hd dest ⟨Nat.le_refl _, by omega⟩) (fun hd h26 => ?_)
  have hw' := hw hd
  have h0 : W dest := hw' dest ⟨Nat.le_refl _, by omega⟩
  split
  · exact (Acc_failClr cfg dest dmax _ hw' h0).within2 s
  rename_i htm
  refine within2_bind_acc (Acc.loadP timer (hr htm)) s (fun t s1 _ h1 => ?_)
  dsimp only
  split
  · exact (Acc_failClr cfg dest dmax _ hw' h0).within2 s1
  refine within2_bind_acc (Acc.loadP timer (hr htm)) s1 (fun t2 s2 _ h2 => ?_)
  split
  · exact (Acc_failClr cfg dest dmax _ hw' h0).within2 s2
  · exact htail hd h26 htm s2 (fun a ha => by rw [h2 a ha, h1 a ha])

end SafeC

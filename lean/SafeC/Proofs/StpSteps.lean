import SafeC.Proofs.ExtExact
import SafeC.Proofs.CopyOverlapB
/-!
# The stp copy loops: "`j0` continuing iterations", then every exit analysed once

`stpLoop_steps`: as long as the characters read are non-NUL and have not been overwritten by the stores made
before, the bumper is not met, `slen` is not used up and the `src unterminated` test does not fire, the loop
makes `j0` iterations and arrives — with `dest[0..j0) = src[0..j0)` (values of the ORIGINAL state) — at the
same loop started `j0` cells further.  The three exits follow by unfolding one more step:
`stpLoop_hit` (bumper: ESOVRLP, dest cleared), `stpLoop_done` (terminator / `slen` used up: EOK, pointer
`d + m`), `stpLoop_full` (no room: ESNOSPC).  No hypothesis on the placement other than the ones named.
-/
namespace SafeC
open Gen

/-- `st1` is `st` after `n` cells were copied in ascending order from `s` to `d` (values of `st`) -/
def CopiedN (st st1 : St) (d s n : Nat) : Prop :=
  SameMeta st1 st ∧ ∀ a, st1.data a = if d ≤ a ∧ a < d + n then st.data (s + (a - d)) else st.data a

theorem CopiedN.zero (st : St) (d s : Nat) : CopiedN st st d s 0 :=
  ⟨SameMeta.refl _, fun a => by
    have : ¬ (d ≤ a ∧ a < d + 0) := by omega
    rw [if_neg this]⟩

/-- one more cell in front -/
theorem CopiedN.cons {st st1 : St} {d s n : Nat} (h : CopiedN (st.upd d (st.data s)) st1 (d+1) (s+1) n)
    (hcl : ∀ j, 0 < j → j ≤ n → s + j ≠ d) : CopiedN st st1 d s (n+1) := by
  refine ⟨h.1.trans (SameMeta.upd _ _ _), fun a => ?_⟩
  rw [h.2 a]
  by_cases h1 : d + 1 ≤ a ∧ a < d + 1 + n
  · have h2 : d ≤ a ∧ a < d + (n+1) := by omega
    rw [if_pos h1, if_pos h2]
    have e : s + 1 + (a - (d+1)) = s + (a - d) := by omega
    rw [e]
    exact St.upd_data_ne _ _ _ _ (hcl (a - d) (by omega) (by omega))
  · rw [if_neg h1]
    by_cases h2 : a = d
    · subst h2
      have h3 : a ≤ a ∧ a < a + (n+1) := by omega
      rw [if_pos h3]; simp
    · have h3 : ¬ (d ≤ a ∧ a < d + (n+1)) := by omega
      rw [if_neg h3]; exact St.upd_data_ne _ _ _ _ h2

theorem CopiedN.at {st st1 : St} {d s n : Nat} (h : CopiedN st st1 d s n) (i : Nat) (hi : i < n) :
    st1.data (d + i) = st.data (s + i) := by
  rw [h.2 (d+i)]
  have h1 : d ≤ d + i ∧ d + i < d + n := by omega
  have e : d + i - d = i := by omega
  rw [if_pos h1, e]

theorem CopiedN.out {st st1 : St} {d s n : Nat} (h : CopiedN st st1 d s n) (a : Nat) (ha : ¬ (d ≤ a ∧ a < d + n)) :
    st1.data a = st.data a := by
  rw [h.2 a, if_neg ha]

/-- the `slen` the loop carries after `j` iterations -/
def stpSlen (isN : Bool) (slen j : Nat) : Nat := if isN then slen - j else slen + j

/-- **`j0` continuing iterations of the stp loops**, any placement -/
theorem stpLoop_steps (cfg : Cfg) (isN onDest : Bool) (B oD oM : Nat) (srcbos : Bos) (j0 : Nat) :
    ∀ (k d s slen : Nat) (st : St),
    (∀ a, st.mapped a = true ∧ st.rd a = true) → RW st d j0 → j0 ≤ k →
    (∀ j, j < j0 → st.data (s+j) ≠ 0) →
    (∀ i j, i < j → j < j0 → s + j ≠ d + i) →
    (∀ j, j < j0 → (if onDest then d + j else s + j) ≠ B) →
    (isN = true → j0 ≤ slen) →
    (∀ i, i < j0 → untermB srcbos (stpSlen isN slen (i+1)) = false) →
    ∃ st1, CopiedN st st1 d s j0 ∧
      ∀ k' d' s' slen', k' + j0 = k → d' = d + j0 → s' = s + j0 → slen' = stpSlen isN slen j0 →
        exec (stpLoop cfg isN onDest B oD oM srcbos k d s slen) st =
          exec (stpLoop cfg isN onDest B oD oM srcbos k' d' s' slen') st1 := by
  induction j0 with
  | zero =>
    intro k d s slen st _ _ _ _ _ _ _ _
    refine ⟨st, CopiedN.zero st d s, ?_⟩
    intro k' d' s' slen' h1 h2 h3 h4
    have e : slen' = slen := by rw [h4]; unfold stpSlen; cases isN <;> simp
    have e1 : k' = k := by omega
    rw [e, e1, h2, h3]; rfl
  | succ j0 ih =>
    intro k d s slen st hall hrw hk hnz hcl hb hsl hun
    obtain ⟨k, rfl⟩ : ∃ k0, k = k0 + 1 := ⟨k - 1, by omega⟩
    have hb0 : ¬ (if onDest then d else s) = B := by simpa using hb 0 (by omega)
    have hsl0 : ¬ (isN = true ∧ slen = 0) := by
      intro ⟨h1, h2⟩; have := hsl h1; omega
    obtain ⟨hdm, hdw, _⟩ := hrw.head
    have hs_m := hall s
    have hc : st.data s ≠ 0 := by simpa using hnz 0 (by omega)
    have hu0 : untermB srcbos (if isN then slen - 1 else slen + 1) = false := by
      have := hun 0 (by omega)
      simpa [stpSlen] using this
    have hne : ∀ j, j < j0 → (st.upd d (st.data s)).data (s + 1 + j) = st.data (s + (j+1)) := by
      intro j hj
      have e : s + 1 + j = s + (j+1) := by omega
      rw [e]
      exact St.upd_data_ne _ _ _ _ (by have := hcl 0 (j+1) (by omega) (by omega); omega)
    obtain ⟨st1, hcp, hex⟩ := ih k (d+1) (s+1) (if isN then slen - 1 else slen + 1) (st.upd d (st.data s))
      (by intro a; exact hall a) (RW.of_sameMeta (SameMeta.upd _ _ _) hrw.tail) (by omega)
      (by intro j hj; rw [hne j hj]; exact hnz (j+1) (by omega))
      (by intro i j hij hj; have := hcl (i+1) (j+1) (by omega) (by omega); omega)
      (by
        intro j hj
        have := hb (j+1) (by omega)
        have e1 : d + 1 + j = d + (j+1) := by omega
        have e2 : s + 1 + j = s + (j+1) := by omega
        rw [e1, e2]; exact this)
      (by intro h; have := hsl h; simp only [h, if_true]; omega)
      (by
        intro i hi
        have := hun (i+1) (by omega)
        unfold stpSlen at this ⊢
        cases hN : isN with
        | true =>
          simp only [hN, if_true] at this ⊢
          have e : slen - 1 - (i + 1) = slen - (i + 1 + 1) := by omega
          rw [e]; exact this
        | false =>
          simp only [hN, Bool.false_eq_true, if_false] at this ⊢
          have e : slen + 1 + (i + 1) = slen + (i + 1 + 1) := by omega
          rw [e]; exact this)
    refine ⟨st1, hcp.cons (by intro j h1 h2; have := hcl 0 j h1 (by omega); omega), ?_⟩
    intro k' d' s' slen' h1 h2 h3 h4
    rw [stpLoop_succ, if_neg hb0, if_neg hsl0]
    simp only [exec_bind, exec_load_ok _ _ hs_m.1 hs_m.2, exec_store_ok _ _ _ hdm hdw]
    rw [if_neg hc, hu0]
    simp only [Bool.false_eq_true, if_false]
    refine hex k' d' s' slen' (by omega) (by omega) (by omega) ?_
    rw [h4]; unfold stpSlen
    cases isN <;> simp <;> omega

/-! ## the exits -/

/-- a failing exit through `handle_error(dest, dmax, code)` seen from outside (`OvrlpPost` is the instance ESOVRLP) -/
def ClearedPost (cfg : Cfg) (dest dmax code : Nat) (st st' : St) : Prop :=
  st'.strays = st.strays ∧
  st'.events = st.events ++ [.handler .str code] ∧
  st'.data dest = 0 ∧
  (cfg.slack = true → ∀ i, i < dmax → st'.data (dest + i) = 0) ∧
  (∀ a, ¬ (dest ≤ a ∧ a < dest + dmax) → st'.data a = st.data a)

theorem ClearedPost.ovrlp {cfg : Cfg} {dest dmax : Nat} {st st' : St} (h : ClearedPost cfg dest dmax ESOVRLP st st') :
    OvrlpPost cfg dest dmax st st' := h

theorem handleError_cleared (cfg : Cfg) (oD oM code : Nat) (st : St) (hrw : RW st oD oM) (hoM : 0 < oM) :
    ∃ st', exec (handleError cfg oD oM code) st = .ok ((), st') ∧ ClearedPost cfg oD oM code st st' := by
  obtain ⟨st', he, _, _, _, hst, hev, h0, hsl, hns⟩ := handleError_ok cfg oD oM code st hrw hoM
  refine ⟨st', he, hst, hev, h0, ?_, ?_⟩
  · intro hcs i hi
    rw [hsl hcs (oD+i)]
    have : oD ≤ oD + i ∧ oD + i < oD + oM := by omega
    simp [this]
  · intro a ha
    cases hcs : cfg.slack with
    | true => rw [hsl hcs a]; simp [ha]
    | false => exact hns hcs a (by intro h; subst h; exact ha ⟨Nat.le_refl _, by omega⟩)

theorem stpFail_cleared (cfg : Cfg) (oD oM code : Nat) (st : St) (hrw : RW st oD oM) (hoM : 0 < oM) :
    ∃ st', exec (do handleError cfg oD oM code; pure (0, code) : Prog (Nat × Nat)) st = .ok ((0, code), st') ∧
      ClearedPost cfg oD oM code st st' := by
  obtain ⟨st', he, _, _, _, hst, hev, h0, hsl, hns⟩ := handleError_ok cfg oD oM code st hrw hoM
  refine ⟨st', by simp [exec_bind, he], hst, hev, h0, ?_, ?_⟩
  · intro hcs i hi
    rw [hsl hcs (oD+i)]
    have : oD ≤ oD + i ∧ oD + i < oD + oM := by omega
    simp [this]
  · intro a ha
    cases hcs : cfg.slack with
    | true => rw [hsl hcs a]; simp [ha]
    | false => exact hns hcs a (by intro h; subst h; exact ha ⟨Nat.le_refl _, by omega⟩)

/-- the cells copied before the failing exit lie inside dest: the exit looks the same from the original state -/
theorem ClearedPost.of_copied {cfg : Cfg} {oD oM code d s n : Nat} {st st1 st' : St}
    (hc : CopiedN st st1 d s n) (hin : oD ≤ d ∧ d + n ≤ oD + oM) (h : ClearedPost cfg oD oM code st1 st') :
    ClearedPost cfg oD oM code st st' := by
  obtain ⟨h1, h2, h3, h4, h5⟩ := h
  refine ⟨h1.trans hc.1.strays, by rw [h2, hc.1.events], h3, h4, fun a ha => ?_⟩
  rw [h5 a ha]
  exact hc.out a (by omega)

theorem RW.sub' {st : St} {oD oM d k : Nat} (hrw : RW st oD oM) (h : oD ≤ d ∧ d + k ≤ oD + oM) : RW st d k := by
  intro i hi
  have := hrw (d - oD + i) (by omega)
  have e : oD + (d - oD + i) = d + i := by omega
  rwa [e] at this

/-- **bumper exit**: after `g` continuing iterations the pointer compared equals the bumper -/
theorem stpLoop_hit (cfg : Cfg) (isN onDest : Bool) (B oD oM : Nat) (hoM : 0 < oM) (srcbos : Bos)
    (k d s g slen : Nat) (st : St)
    (hall : ∀ a, st.mapped a = true ∧ st.rd a = true)
    (hrw : RW st oD oM) (hinv : oD ≤ d ∧ d + k = oD + oM) (hgk : g < k)
    (hnz : ∀ j, j < g → st.data (s+j) ≠ 0)
    (hcl : ∀ i j, i < j → j < g → s + j ≠ d + i)
    (hb : ∀ j, j < g → (if onDest then d + j else s + j) ≠ B)
    (hbg : (if onDest then d + g else s + g) = B)
    (hsl : isN = true → g ≤ slen)
    (hun : ∀ i, i < g → untermB srcbos (stpSlen isN slen (i+1)) = false) :
    ∃ st', exec (stpLoop cfg isN onDest B oD oM srcbos k d s slen) st = .ok ((0, ESOVRLP), st') ∧
      ClearedPost cfg oD oM ESOVRLP st st' := by
  obtain ⟨st1, hcp, hex⟩ := stpLoop_steps cfg isN onDest B oD oM srcbos g k d s slen st hall
    (hrw.sub' (by omega)) (by omega) hnz hcl hb hsl hun
  rw [hex (k - g - 1 + 1) (d + g) (s + g) _ (by omega) rfl rfl rfl, stpLoop_succ, if_pos hbg]
  obtain ⟨st', he, hp⟩ := stpFail_cleared cfg oD oM ESOVRLP st1 (RW.of_sameMeta hcp.1 hrw) hoM
  exact ⟨st', he, hp.of_copied hcp (by omega)⟩

/-- **no-room exit**: `k` continuing iterations use up the `k` cells -/
theorem stpLoop_full (cfg : Cfg) (isN onDest : Bool) (B oD oM : Nat) (hoM : 0 < oM) (srcbos : Bos)
    (k d s slen : Nat) (st : St)
    (hall : ∀ a, st.mapped a = true ∧ st.rd a = true)
    (hrw : RW st oD oM) (hinv : oD ≤ d ∧ d + k = oD + oM)
    (hnz : ∀ j, j < k → st.data (s+j) ≠ 0)
    (hcl : ∀ i j, i < j → j < k → s + j ≠ d + i)
    (hb : ∀ j, j < k → (if onDest then d + j else s + j) ≠ B)
    (hsl : isN = true → k ≤ slen)
    (hun : ∀ i, i < k → untermB srcbos (stpSlen isN slen (i+1)) = false) :
    ∃ st', exec (stpLoop cfg isN onDest B oD oM srcbos k d s slen) st = .ok ((0, ESNOSPC), st') ∧
      ClearedPost cfg oD oM ESNOSPC st st' := by
  obtain ⟨st1, hcp, hex⟩ := stpLoop_steps cfg isN onDest B oD oM srcbos k k d s slen st hall
    (hrw.sub' (by omega)) (Nat.le_refl _) hnz hcl hb hsl hun
  rw [hex 0 (d + k) (s + k) _ (by omega) rfl rfl rfl]
  unfold stpLoop
  obtain ⟨st', he, hp⟩ := stpFail_cleared cfg oD oM ESNOSPC st1 (RW.of_sameMeta hcp.1 hrw) hoM
  exact ⟨st', he, hp.of_copied hcp (by omega)⟩

/-- what a successful stp loop leaves: pointer = address of the terminator, the `m` characters in front of it
are the source's (ORIGINAL values), null-slack zeros behind, nothing outside the `k` cells touched, no event -/
def StpDone (cfg : Cfg) (d k s m : Nat) (st st' : St) : Prop :=
  SameMeta st' st ∧
  (∀ i, i < m → st'.data (d+i) = st.data (s+i)) ∧ st'.data (d+m) = 0 ∧
  (cfg.slack = true → ∀ i, m ≤ i → i < k → st'.data (d+i) = 0) ∧
  (∀ a, ¬ (d ≤ a ∧ a < d + k) → st'.data a = st.data a)

/-- **success exit**: `m` continuing iterations, then the terminator is read (not overwritten before) or `slen` is
used up; the bumper is not met in these `m + 1` tests -/
theorem stpLoop_done (cfg : Cfg) (isN onDest : Bool) (B oD oM : Nat) (srcbos : Bos)
    (k d s m slen : Nat) (st : St)
    (hall : ∀ a, st.mapped a = true ∧ st.rd a = true)
    (hrw : RW st d k) (hmk : m < k)
    (hnz : ∀ j, j < m → st.data (s+j) ≠ 0)
    (hcl : ∀ i j, i < j → j ≤ m → s + j ≠ d + i)
    (hb : ∀ j, j ≤ m → (if onDest then d + j else s + j) ≠ B)
    (hfin : ((isN = true → m < slen) ∧ st.data (s+m) = 0) ∨ (isN = true ∧ slen = m))
    (hun : ∀ i, i < m → untermB srcbos (stpSlen isN slen (i+1)) = false) :
    ∃ st', exec (stpLoop cfg isN onDest B oD oM srcbos k d s slen) st = .ok ((d + m, EOK), st') ∧
      StpDone cfg d k s m st st' := by
  have hsl : isN = true → m ≤ slen := by
    intro h; rcases hfin with h1 | h1
    · have := h1.1 h; omega
    · omega
  obtain ⟨st1, hcp, hex⟩ := stpLoop_steps cfg isN onDest B oD oM srcbos m k d s slen st hall
    (fun i hi => hrw i (by omega)) (by omega) hnz (fun i j h1 h2 => hcl i j h1 (by omega))
    (fun j hj => hb j (by omega)) hsl hun
  rw [hex (k - m - 1 + 1) (d + m) (s + m) _ (by omega) rfl rfl rfl, stpLoop_succ,
    if_neg (hb m (Nat.le_refl _))]
  have hsub : RW st1 (d + m) (k - m - 1 + 1) := by
    intro i hi
    have := (RW.of_sameMeta hcp.1 hrw) (m + i) (by omega)
    have e : d + (m + i) = d + m + i := by omega
    rwa [e] at this
  have fin : ∀ (s2 st' : St), SameMeta s2 st1 → (∀ a, a ≠ d + m → s2.data a = st1.data a) → SameMeta st' s2 →
      st'.data (d + m) = 0 → (∀ a, ¬ (d + m ≤ a ∧ a < d + m + (k - m - 1 + 1)) → st'.data a = s2.data a) →
      (cfg.slack = true → ∀ a, d + m ≤ a → a < d + m + (k - m - 1 + 1) → st'.data a = 0) →
      StpDone cfg d k s m st st' := by
    intro s2 st' hm2 hd2 hm h0 hfr hcl'
    refine ⟨(hm.trans hm2).trans hcp.1, ?_, h0, ?_, ?_⟩
    · intro i hi
      rw [hfr (d+i) (by omega), hd2 (d+i) (by omega)]
      exact hcp.at i hi
    · intro hcs i h1 h2; exact hcl' hcs (d+i) (by omega) (by omega)
    · intro a ha
      rw [hfr a (by omega), hd2 a (by omega)]
      exact hcp.out a (by omega)
  by_cases hx : isN = true ∧ stpSlen isN slen m = 0
  · rw [if_pos hx]
    obtain ⟨st', he, hm, h0, hfr, hcl'⟩ := stpEok_ok cfg isN (d + m) (k - m - 1 + 1) st1 hsub (by omega) (Or.inr (Or.inl hx.1))
    exact ⟨st', he, fin st1 st' (SameMeta.refl _) (fun _ _ => rfl) hm h0 hfr hcl'⟩
  · rw [if_neg hx]
    have hz : st.data (s + m) = 0 := by
      rcases hfin with h1 | h1
      · exact h1.2
      · exfalso; apply hx; refine ⟨h1.1, ?_⟩
        unfold stpSlen; simp only [h1.1, if_true]; omega
    have hz1 : st1.data (s + m) = 0 := by
      rw [hcp.out (s + m) (by
        intro ⟨h1, h2⟩
        exact hcl (s + m - d) m (by omega) (Nat.le_refl _) (by omega))]
      exact hz
    have hs_m := hall (s + m)
    have hs_m1 : st1.mapped (s + m) = true ∧ st1.rd (s + m) = true := by
      rw [hcp.1.mapped, hcp.1.rd]; exact hs_m
    obtain ⟨hdm, hdw, _⟩ := hsub.head
    simp only [exec_bind, exec_load_ok _ _ hs_m1.1 hs_m1.2, exec_store_ok _ _ _ hdm hdw, hz1, if_true]
    obtain ⟨st', he, hm, h0, hfr, hcl'⟩ := stpEok_ok cfg isN (d + m) (k - m - 1 + 1) (st1.upd (d + m) 0)
      (RW.of_sameMeta (SameMeta.upd _ _ _) hsub) (by omega) (Or.inr (Or.inr (by simp)))
    exact ⟨st', he, fin (st1.upd (d + m) 0) st' (SameMeta.upd _ _ _) (fun a ha => St.upd_data_ne _ _ _ _ ha) hm h0 hfr hcl'⟩

end SafeC

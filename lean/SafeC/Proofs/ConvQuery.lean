import SafeC.Proofs.ConvWcs
import SafeC.Proofs.ConvMbsLoop
/-! C15: the NULL-destination (query) forms of the libc models on ARBITRARY terminated sources: a query that does not
report an illegal sequence proves the source valid; corollaries of the valid-string theorems for limits ≥ the count. -/
namespace SafeC.Conv.Libc

/-- an incomplete sequence consists of a lead byte and continuation bytes only: no zero byte -/
theorem body_incomplete_nz (loc : Locale) (suf : List Nat) (h : body loc suf = .incomplete) (hne : suf ≠ []) :
    ∀ x ∈ suf, x ≠ 0 := by
  cases suf with
  | nil => exact absurd rfl hne
  | cons b rest =>
    cases loc
    · simp only [body, asciiBody] at h; split at h <;> cases h
    · simp only [body, utf8Body] at h
      split at h
      · cases h
      · rename_i hb
        split at h
        · cases h
        · rename_i cnt hi hl
          split at h
          · cases h
          · rename_i hall
            split at h
            · rename_i hlen
              have hrl : rest.length < cnt - 1 := by
                simp only [List.length_take] at hlen; omega
              have ht : rest.take (cnt - 1) = rest := List.take_of_length_le (by omega)
              rw [ht] at hall
              simp only [Bool.not_eq_true', Bool.not_eq_false] at hall
              intro x hx
              rcases List.mem_cons.mp hx with rfl | hx
              · omega
              · have := (isCont_iff x).mp (List.all_eq_true.mp hall x hx)
                omega
            · split at h <;> cases h

/-- the main loop on ANY input: what it delivers re-encodes to what it consumed -/
theorem mbMain_sound (loc : Locale) (fuel : Nat) (inp : List Nat) (space : Nat) (hf : inp.length < fuel) :
    ((mbMain loc fuel inp space).status = .empty → encodeAll loc (mbMain loc fuel inp space).out = some inp) ∧
    ((mbMain loc fuel inp space).status = .full → (mbMain loc fuel inp space).out.length = space) ∧
    (mbMain loc fuel inp space).out.length ≤ inp.length ∧
    ((mbMain loc fuel inp space).status = .incomplete → ∃ pre suf, suf ≠ [] ∧ inp = pre ++ suf ∧ body loc suf = .incomplete) := by
  induction fuel generalizing inp space with
  | zero => omega
  | succ fuel ih =>
    unfold mbMain
    split
    · rename_i he
      have : inp = [] := by simpa using he
      subst this
      exact ⟨fun _ => rfl, fun h => (by cases h), (by simp), fun h => (by cases h)⟩
    · split
      · rename_i hs
        exact ⟨fun h => (by cases h), fun _ => (by simp [hs]), (by simp), fun h => (by cases h)⟩
      · rename_i hs
        split
        · rename_i ch n hb
          obtain ⟨he, hn, hp⟩ := body_ok loc inp ch n hb
          obtain ⟨i1, i2, i3, i4⟩ := ih (inp.drop n) (space - 1) (by simp only [List.length_drop]; omega)
          refine ⟨fun h => ?_, fun h => ?_, ?_, fun h => ?_⟩
          · have := i1 h
            rw [encodeAll_cons loc ch _ _ _ he this, List.take_append_drop]
          · have := i2 h
            simp only [List.length_cons]; omega
          · simp only [List.length_cons, List.length_drop] at i3 ⊢; omega
          · obtain ⟨pre, suf, h1, h2, h3⟩ := i4 h
            exact ⟨inp.take n ++ pre, suf, h1, by rw [List.append_assoc, ← h2, List.take_append_drop], h3⟩
        · rename_i hb
          refine ⟨fun h => (by cases h), fun h => (by cases h), (by simp), fun _ => ⟨[], inp, ?_, rfl, hb⟩⟩
          intro h; subst h; simp at *
        · exact ⟨fun h => (by cases h), fun h => (by cases h), (by simp), fun h => (by cases h)⟩

/-- a list of characters whose encoding is `s ++ [0]` with no zero in `s` is `ws ++ [0]` with `ws` non-zero, encoding to `s` -/
theorem encodeAll_term_inv (loc : Locale) (out s : List Nat) (h : encodeAll loc out = some (s ++ [0]))
    (hz : ∀ b ∈ s, b ≠ 0) : ∃ ws, out = ws ++ [0] ∧ encodeAll loc ws = some s ∧ ∀ c ∈ ws, c ≠ 0 := by
  induction out generalizing s with
  | nil => simp [encodeAll] at h
  | cons c cs ih =>
    obtain ⟨a, b, ha, hb, hab⟩ := encodeAll_cons_inv loc c cs _ h
    by_cases hc : c = 0
    · subst hc
      rw [enc_zero] at ha; cases ha
      cases s with
      | nil =>
        have : b = [] := by simpa using hab.symm
        subst this
        have := encodeAll_eq_nil loc cs hb
        subst this
        exact ⟨[], rfl, rfl, by simp⟩
      | cons x xs =>
        have : x = 0 := by simp at hab; exact hab.1
        exact absurd this (hz x (by simp))
    · have hanz := enc_no_zero loc c a ha hc
      have hfin : ∀ c', (∀ x ∈ c', x ≠ 0) → s = a ++ c' → b = c' ++ [0] →
          ∃ ws, c :: cs = ws ++ [0] ∧ encodeAll loc ws = some s ∧ ∀ c ∈ ws, c ≠ 0 := by
        intro c' hc' hs hb'
        rw [hb'] at hb
        obtain ⟨ws', h1, h2, h3⟩ := ih c' hb hc'
        refine ⟨c :: ws', by rw [h1]; rfl, by rw [hs]; exact encodeAll_cons loc c ws' a c' ha h2, ?_⟩
        intro d hd
        rcases List.mem_cons.mp hd with rfl | hd
        · exact hc
        · exact h3 d hd
      rcases List.append_eq_append_iff.mp hab with ⟨a', ha', h0⟩ | ⟨c', hs, hb'⟩
      · cases a' with
        | nil =>
          simp only [List.append_nil] at ha'
          simp only [List.nil_append] at h0
          exact hfin [] (by simp) (by simp [ha']) (by simp [← h0])
        | cons x xs =>
          have hx : x = 0 := by simp at h0; exact h0.1.symm
          exact absurd hx (hanz x (by rw [ha']; simp))
      · exact hfin c' (fun x hx => hz x (by rw [hs]; simp [hx])) hs hb'

theorem mem_split_zero (mem : List Nat) (h : 0 ∈ mem) : ∃ s tail, mem = s ++ 0 :: tail ∧ ∀ b ∈ s, b ≠ 0 := by
  induction mem with
  | nil => simp at h
  | cons x xs ih =>
    by_cases hx : x = 0
    · subst hx; exact ⟨[], xs, rfl, by simp⟩
    · have : 0 ∈ xs := by
        rcases List.mem_cons.mp h with h | h
        · exact absurd h.symm hx
        · exact h
      obtain ⟨s, tail, rfl, hs⟩ := ih this
      refine ⟨x :: s, tail, rfl, ?_⟩
      intro b hb
      rcases List.mem_cons.mp hb with rfl | hb
      · exact hx
      · exact hs b hb

/-- **query ⇒ valid (multibyte source):** `mbsrtowcs(NULL, &src, …)` from the initial state on any terminated source: if it
does not report an illegal sequence, the source is the encoding of some `ws` followed by the NUL, and the value returned
is `|ws|` -/
theorem mbs_query_valid (loc : Locale) (mem : List Nat) (len : Nat) (h0 : 0 ∈ mem)
    (hq : (mbsrtowcs loc true mem len []).eilseq = false) :
    ∃ ws bs tail, mem = bs ++ 0 :: tail ∧ encodeAll loc ws = some bs ∧ (∀ c ∈ ws, c ≠ 0) ∧
      mbsrtowcs loc true mem len [] = ⟨[], ws.length, some 0, [], false⟩ := by
  obtain ⟨s, tail, rfl, hs⟩ := mem_split_zero mem h0
  have hw : (s ++ 0 :: tail).take (strlen (s ++ 0 :: tail) + 1) = s ++ [0] := by
    rw [strlen_term s tail hs, take_term s tail _ (Nat.le_refl _), List.take_of_length_le (by simp)]
  have hg : gconvMb loc [] (s ++ [0]) ((s ++ [0]).length + 1) =
      mbMain loc ((s ++ [0]).length + 1) (s ++ [0]) ((s ++ [0]).length + 1) := by simp [gconvMb]
  simp only [mbsrtowcs, ↓reduceIte, hw, hg] at hq ⊢
  obtain ⟨i1, i2, i3, i4⟩ := mbMain_sound loc ((s ++ [0]).length + 1) (s ++ [0]) ((s ++ [0]).length + 1) (by omega)
  generalize mbMain loc ((s ++ [0]).length + 1) (s ++ [0]) ((s ++ [0]).length + 1) = r at *
  have hst : r.status = .empty := by
    cases hr : r.status with
    | empty => rfl
    | full => have := i2 hr; omega
    | illegal => simp [hr] at hq
    | incomplete =>
      obtain ⟨pre, suf, h1, h2, h3⟩ := i4 hr
      have hnz := body_incomplete_nz loc suf h3 h1
      obtain ⟨b, hb⟩ : ∃ b, suf.getLast? = some b := by
        cases h : suf.getLast? with
        | none => exact absurd (List.getLast?_eq_none_iff.mp h) h1
        | some b => exact ⟨b, rfl⟩
      have hl : (s ++ [0]).getLast? = some 0 := by simp
      rw [h2, List.getLast?_append, hb] at hl
      have : b = 0 := by simpa [Option.or] using hl
      subst this
      exact absurd rfl (hnz 0 (List.mem_of_getLast? hb))
  obtain ⟨ws, hout, hws, hnz⟩ := encodeAll_term_inv loc r.out s (i1 hst) hs
  refine ⟨ws, s, tail, rfl, hws, hnz, ?_⟩
  simp [hst, hout]

/-- the wide → multibyte step with room for 6 bytes per character never stops for lack of room -/
theorem gconvWc_total (loc : Locale) (cs : List Nat) (space : Nat) (hsp : 6 * cs.length < space)
    (h : (gconvWc loc cs space).status ≠ .illegal) :
    ∃ E, encodeAll loc cs = some E ∧ gconvWc loc cs space = ⟨E, cs.length, [], .empty⟩ := by
  induction cs generalizing space with
  | nil => exact ⟨[], rfl, by simp [gconvWc]⟩
  | cons c cs ih =>
    simp only [List.length_cons] at hsp
    have hs0 : ¬ space = 0 := by omega
    cases he : enc loc c with
    | none => simp [gconvWc, hs0, he] at h
    | some bs =>
      have h6 := enc_length_le loc c bs he
      have hfit : ¬ bs.length > space := by omega
      simp only [gconvWc, hs0, ↓reduceIte, he, hfit] at h ⊢
      obtain ⟨E, hE, hg⟩ := ih (space - bs.length) (by omega) h
      exact ⟨bs ++ E, encodeAll_cons loc c cs bs E he hE, by rw [hg]; simp; omega⟩

/-- **query ⇒ valid (wide source)** -/
theorem wcs_query_valid (loc : Locale) (mem : List Nat) (len : Nat) (h0 : 0 ∈ mem)
    (hq : (wcsrtombs loc true mem len).eilseq = false) :
    ∃ ws bs tail, mem = ws ++ 0 :: tail ∧ encodeAll loc ws = some bs ∧ (∀ c ∈ ws, c ≠ 0) ∧
      wcsrtombs loc true mem len = ⟨[], bs.length, some 0, [], false⟩ := by
  obtain ⟨s, tail, rfl, hs⟩ := mem_split_zero mem h0
  have hw : (s ++ 0 :: tail).take (strlen (s ++ 0 :: tail) + 1) = s ++ [0] := by
    rw [strlen_term s tail hs, take_term s tail _ (Nat.le_refl _), List.take_of_length_le (by simp)]
  simp only [wcsrtombs, ↓reduceIte, hw] at hq ⊢
  have hsp : 6 * (s ++ [0]).length < 6 * (s ++ [0]).length + 1 := by omega
  generalize 6 * (s ++ [0]).length + 1 = sp at hq hsp ⊢
  have hni : (gconvWc loc (s ++ [0]) sp).status ≠ .illegal := by
    intro h; rw [h] at hq; simp at hq
  obtain ⟨E, hE, hg⟩ := gconvWc_total loc (s ++ [0]) sp hsp hni
  obtain ⟨ea, eb, h1, h2, rfl⟩ := encodeAll_append_inv loc s [0] E hE
  have : eb = [0] := by
    have := encodeAll_cons loc 0 [] [0] [] (enc_zero loc) rfl
    rw [this] at h2; exact (Option.some.inj h2).symm
  subst this
  refine ⟨s, ea, tail, rfl, h1, hs, ?_⟩
  rw [hg]; simp

/-! ### limits that leave room for all characters -/

theorem mbsrtowcs_valid_ge (loc : Locale) (ws E tail : List Nat) (hE : encodeAll loc ws = some E) (hz : ∀ c ∈ ws, c ≠ 0)
    (len : Nat) (hlen : ws.length ≤ len) :
    (mbsrtowcs loc false (E ++ 0 :: tail) len []).ret = ws.length ∧
    (mbsrtowcs loc false (E ++ 0 :: tail) len []).out.take ws.length = ws ∧
    (mbsrtowcs loc false (E ++ 0 :: tail) len []).st = [] ∧
    (ws.length < len → (mbsrtowcs loc false (E ++ 0 :: tail) len []).src = none) := by
  obtain ⟨b1, b2⟩ := mbsrtowcs_valid loc ws E tail hE hz len
  by_cases h : ws.length < len
  · rw [b1 h]; simp
  · have heq : len = ws.length := by omega
    obtain ⟨p, _, hr⟩ := b2 (by omega)
    rw [hr]; subst heq; simp

theorem wcsrtombs_valid_ge (loc : Locale) (ws E tail : List Nat) (hE : encodeAll loc ws = some E) (hz : ∀ c ∈ ws, c ≠ 0)
    (len : Nat) (hlen : E.length ≤ len) :
    (wcsrtombs loc false (ws ++ 0 :: tail) len).ret = E.length ∧
    (wcsrtombs loc false (ws ++ 0 :: tail) len).out.take E.length = E ∧
    (E.length < len → (wcsrtombs loc false (ws ++ 0 :: tail) len).src = none) := by
  obtain ⟨b1, b2⟩ := wcsrtombs_valid loc ws E tail hE hz len
  by_cases h : E.length < len
  · rw [b1 h]; simp
  · have heq : len = E.length := by omega
    obtain ⟨m, p, hm, hp, hpl, hnext, hr⟩ := b2 (by omega)
    have hmeq : m = ws.length := by
      apply Classical.byContradiction; intro hne
      obtain ⟨p', q', hp', _, hsplit⟩ := encodeAll_take loc ws E hE (m + 1)
      have := hnext (by omega) p' hp'
      have hl := congrArg List.length hsplit
      simp only [List.length_append] at hl; omega
    subst hmeq
    rw [List.take_of_length_le (Nat.le_refl _), hE] at hp
    cases hp
    rw [hr]; simp; omega

end SafeC.Conv.Libc

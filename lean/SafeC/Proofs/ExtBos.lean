import SafeC.Proofs.ExtFld
/-!
# `dmax` beyond a KNOWN object size: what the entry checks do

`CHK_DEST_OVR_CLEAR` (`chkDmaxClearG`: the copies, the stp pair, strcpyfld_s) reports ESLEMAX (`dmax` also above
RSIZE_MAX_STR) after `handle_error(dest, destbos, …)`, else EOVERFLOW through `handle_str_bos_overflow`, which clears
`strnlen_s(dest, destbos)` cells — the old STRING in dest, not the object.  `CHK_DEST_OVR` (`chkDmax`: strcpyfldin_s,
strcpyfldout_s, the in-place producers) only reports.  Needed: the `destbos` cells of the object writable; nothing
outside them is touched.
-/
namespace SafeC
open Gen

/-- the code of the `dmax > destbos` exit -/
def bosCode (dmax : Nat) : Nat := if dmax > RSIZE_MAX_STR then ESLEMAX else EOVERFLOW

/-- what `CHK_DEST_OVR_CLEAR` leaves when `dmax` exceeds the known object size `b`: the code, ONE handler event with
it, `dest[0] = 0`; null-slack: exactly `dest[0..b)` (ESLEMAX) resp. exactly `dest[0..len)` with `len` = the first NUL
of the old dest within `b` cells, `b` if none (EOVERFLOW) are zeroed; no slack: exactly `dest[0]` -/
def BosOver (cfg : Cfg) (dest dmax b : Nat) (st st' : St) (code : Nat) : Prop :=
  code = bosCode dmax ∧
  (dmax > RSIZE_MAX_STR → FldFail cfg dest b st st' ESLEMAX) ∧
  (dmax ≤ RSIZE_MAX_STR → ∃ len, StrLenIn st dest b len ∧ FldFail cfg dest len st st' EOVERFLOW)

theorem chkDmaxClearG_over {α : Type} (mk : Nat → α) (cfg : Cfg) (dest dmax b : Nat) (k : Prog α) (st : St)
    (hall : ∀ a, st.mapped a = true ∧ st.rd a = true) (hd : dest ≠ 0) (hb0 : 0 < b) (hbd : b < dmax)
    (hrw : RW st dest b) :
    ∃ code st', exec (chkDmaxClearG mk cfg dest dmax (some b) RSIZE_MAX_STR k) st = .ok (mk code, st') ∧
      BosOver cfg dest dmax b st st' code := by
  unfold chkDmaxClearG
  simp only
  rw [if_pos hbd]
  by_cases hx : dmax > RSIZE_MAX_STR
  · rw [if_pos hx]
    obtain ⟨st', he, hf⟩ := handleError_exact cfg dest b b ESLEMAX st hrw hb0 (Nat.le_refl _) (by omega)
    refine ⟨ESLEMAX, st', by simp [exec_bind, he], by simp [bosCode, hx], fun _ => hf, fun h => by omega⟩
  · rw [if_neg hx]
    obtain ⟨len, he1, hlen⟩ := strnlen_s_first dest b st hall hd hb0 (by omega)
    obtain ⟨st', he2, hf⟩ := handleError_exact cfg dest len b EOVERFLOW st hrw hb0 hlen.1
      (fun h0 => by have := hlen.2.1 (by omega); rw [h0] at this; simpa using this)
    have hn : ¬ len > RSIZE_MAX_STR := by have := hlen.1; omega
    refine ⟨EOVERFLOW, st', ?_, by simp [bosCode, hx], fun h => absurd h hx, fun _ => ⟨len, hlen, hf⟩⟩
    simp [exec_bind, handleStrBosOverflow, he1, hn, he2]

/-- `CHK_DEST_OVR` with `dmax` beyond the known object: the handler is called once, nothing is read or written -/
theorem chkDmax_over (dmax b : Nat) (k : Prog Nat) (st : St) (hbd : b < dmax) :
    exec (chkDmax dmax (some b) RSIZE_MAX_STR k) st =
      .ok (bosCode dmax, { st with events := st.events ++ [.handler .str (bosCode dmax)] }) := by
  unfold chkDmax bosCode
  simp only
  rw [if_pos hbd]
  by_cases hx : dmax > RSIZE_MAX_STR <;> simp [hx, failS, handlerS, exec_bind]

theorem FldFail.frame_in {cfg : Cfg} {dest len ext code : Nat} {st st' : St} (h : FldFail cfg dest len st st' code)
    (hle : len ≤ ext) (hpos : 0 < ext) : ∀ a, ¬ (dest ≤ a ∧ a < dest + ext) → st'.data a = st.data a := by
  intro a ha
  cases hcs : cfg.slack with
  | true => rw [h.slack hcs a, if_neg (by omega)]
  | false => exact h.noslack hcs a (by omega)

/-- C03 / C04 / C01 content of `BosOver`: `dest[0] = 0`, nothing outside the OBJECT `dest[0..b)` changed, permissions
and strays as before, exactly one handler event (with the returned code) -/
theorem BosOver.facts {cfg : Cfg} {dest dmax b code : Nat} {st st' : St} (h : BosOver cfg dest dmax b st st' code)
    (hb0 : 0 < b) :
    st'.data dest = 0 ∧ (∀ a, ¬ (dest ≤ a ∧ a < dest + b) → st'.data a = st.data a) ∧
      st'.strays = st.strays ∧ st'.wr = st.wr ∧ st'.events = st.events ++ [.handler .str code] := by
  obtain ⟨hc, h1, h2⟩ := h
  by_cases hx : dmax > RSIZE_MAX_STR
  · have hf := h1 hx
    have e : code = ESLEMAX := by rw [hc]; simp [bosCode, hx]
    exact ⟨hf.first, hf.frame_in (Nat.le_refl _) hb0, hf.strays, hf.wr, by rw [e]; exact hf.events⟩
  · obtain ⟨len, hl, hf⟩ := h2 (by omega)
    have e : code = EOVERFLOW := by rw [hc]; simp [bosCode, hx]
    exact ⟨hf.first, hf.frame_in hl.1 hb0, hf.strays, hf.wr, by rw [e]; exact hf.events⟩

end SafeC

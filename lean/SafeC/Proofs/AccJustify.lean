import SafeC.Proofs.AccS
/-!
# Footprint of `strljustify_s` (value-aware, stores tracked)

`while (*dest) { if (dmax == 0) … }` finds the terminator `e` reading at most `dest[dmax]`; the whitespace skip and the
shift loop then stay between `dest` and `e` because `*e == 0` stops both, and every store lands strictly below `e`.
-/
namespace SafeC
open Gen

variable {R W : Nat → Prop} {d : Nat → Nat}

theorem AccS_termScan (oD oM dmax dest : Nat) (hr : ∀ a, Str d dest (dmax+1) a → R a) (hwo : ∀ a, Cells oD oM a → W a) :
    AccS R W d (termScan oD oM dmax dest) (fun r d' => match r with
      | none => True
      | some e => d' = d ∧ dest ≤ e ∧ e ≤ dest + dmax ∧ d e = 0 ∧ ∀ j, dest ≤ j → j < e → ¬ d j = 0) := by
  induction dmax generalizing dest with
  | zero =>
    have h0 : R dest := hr _ (Str.head (by omega))
    unfold termScan
    refine AccS.loadBind h0 ?_
    split
    · rename_i hz
      exact AccS.pure _ ⟨rfl, Nat.le_refl _, by omega, hz, fun j h1 h2 => by omega⟩
    · exact AccS.bind (AccS_zeroLoop oM oD hwo) (fun _ _ _ => AccS.handlerSBind _ (AccS.pure _ trivial))
  | succ n ih =>
    have h0 : R dest := hr _ (Str.head (by omega))
    unfold termScan
    refine AccS.loadBind h0 ?_
    split
    · rename_i hz
      exact AccS.pure _ ⟨rfl, Nat.le_refl _, by omega, hz, fun j h1 h2 => by omega⟩
    · rename_i hne
      refine (ih (dest+1) (fun a h => hr a (Str.succ hne h))).conseq (fun r d' hq => ?_)
      cases r with
      | none => trivial
      | some e =>
        obtain ⟨g1, g2, g3, g4, g5⟩ := hq
        refine ⟨g1, by omega, by omega, g4, fun j h1 h2 => ?_⟩
        by_cases ej : j = dest
        · subst ej; exact hne
        · exact g5 j (by omega) h2

theorem AccD_skipWs (e fuel p : Nat) (hpe : p ≤ e) (hf : e < p + fuel) (he : d e = 0)
    (hr : ∀ a, p ≤ a → a ≤ e → R a) : AccD d R (skipWs fuel p) (fun r => p ≤ r ∧ r ≤ e) := by
  induction fuel generalizing p with
  | zero => omega
  | succ n ih =>
    have h0 : R p := hr p (Nat.le_refl _) hpe
    have next : d p ≠ 0 → AccD d R (skipWs n (p+1)) (fun r => p ≤ r ∧ r ≤ e) := fun hne => by
      have hpe' : p ≠ e := fun h => by rw [h] at hne; exact hne he
      exact (ih (p+1) (by omega) (by omega) (fun a h1 h2 => hr a (by omega) h2)).conseq (fun r ⟨g1, g2⟩ => ⟨by omega, g2⟩)
    unfold skipWs
    refine AccD.loadBind h0 ?_
    split
    · rename_i hc
      exact next (by omega)
    · refine AccD.loadBind h0 ?_
      split
      · rename_i hc
        exact next (by omega)
      · exact AccD.pure _ ⟨Nat.le_refl _, hpe⟩

theorem AccS_shiftLoop (e fuel od p : Nat) (hod : od < p) (hpe : p ≤ e) (hf : e < p + fuel) (he : d e = 0)
    (hr : ∀ a, p ≤ a → a ≤ e → R a) (hw : ∀ a, od ≤ a → a < e → W a) :
    AccS R W d (shiftLoop fuel od p) (fun r _ => od ≤ r.1 ∧ r.1 < e) := by
  induction fuel generalizing od p d with
  | zero => omega
  | succ n ih =>
    have h0 : R p := hr p (Nat.le_refl _) hpe
    unfold shiftLoop
    refine AccS.loadBind h0 ?_
    split
    · exact AccS.pure _ ⟨Nat.le_refl _, by omega⟩
    · rename_i hne
      have hpe' : p ≠ e := fun h => by rw [h] at hne; exact hne he
      refine AccS.loadBind h0 ?_
      refine AccS.storeBind (hw od (Nat.le_refl _) (by omega)) ?_
      refine AccS.storeBind (hw p (by omega) (by omega)) ?_
      refine (ih (od+1) (p+1) (by omega) (by omega) (by omega)
        (by simp [updF, show e ≠ p by omega, show e ≠ od by omega, he])
        (fun a h1 h2 => hr a (by omega) h2) (fun a h1 h2 => hw a (by omega) h2)).conseq (fun r _ ⟨g1, g2⟩ => ⟨by omega, g2⟩)

theorem strljustify_s_accs (cfg : Cfg) (dest dmax : Nat) (b : Bos)
    (hr : dest ≠ 0 → ∀ a, Str d dest (dmax+1) a → R a) (hw : dest ≠ 0 → ∀ a, Cells dest dmax a → W a) :
    AccS R W d (strljustify_s cfg dest dmax b) (fun _ _ => True) := by
  unfold strljustify_s
  split
  · exact AccS_failS _ trivial
  · rename_i hd
    split
    · exact AccS_failS _ trivial
    · rename_i hm
      have w0 : W dest := hw hd _ ⟨by omega, by omega⟩
      have h0 : R dest := hr hd _ (Str.head (by omega))
      refine AccS_chkDmax _ _ _ ?_
      split
      · exact AccS.storeBind w0 (AccS.pure _ trivial)
      · refine AccS.loadBind h0 ?_
        split
        · exact AccS.pure _ trivial
        · refine AccS.bind (AccS_termScan dest dmax dmax dest (hr hd) (hw hd)) (fun r d' hq => ?_)
          cases r with
          | none => exact AccS.pure _ trivial
          | some e =>
            obtain ⟨rfl, g2, g3, g4, g5⟩ := hq
            have hre : ∀ a, dest ≤ a → a ≤ e → R a := fun a h1 h2 =>
              hr hd a ⟨h1, by omega, fun j hj1 hj2 => g5 j hj1 (by omega)⟩
            dsimp only
            refine AccS.bind (AccS.of_AccD (AccD_skipWs e (e - dest + 1) dest g2 (by omega) g4 hre)) (fun p d' hq => ?_)
            obtain ⟨rfl, q1, q2⟩ := hq
            split
            · refine AccS.bind (AccS_shiftLoop e (e - p + 1) dest p (by omega) q2 (by omega) g4
                (fun a h1 h2 => hre a (by omega) h2) (fun a h1 h2 => hw hd a ⟨h1, by omega⟩)) (fun r d' hq => ?_)
              obtain ⟨r1, r2⟩ := r
              obtain ⟨s1, s2⟩ := hq
              simp only at s1 s2
              exact AccS.storeBind (hw hd r1 ⟨s1, by omega⟩) (AccS.pure _ trivial)
            · exact AccS.pure _ trivial

end SafeC

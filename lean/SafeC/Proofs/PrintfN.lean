import SafeC.Models.Printf
import SafeC.Proofs.Fmt
/-!
# The full printf engine model against its directive-parser abstraction (C09)

`SafeC.Printf` (Models/Printf.lean) is the executable model of `safec_vsnprintf_s` with arguments, output and run-time
failures; `SafeC.Fmt.engLoop` (Models/Fmt.lean) is the format-only abstraction the C09 correspondence run compares
with the C.  Here: whenever the full engine gets through a conversion specification, the abstraction reads the same
characters and says `next` (`directive_ok_next`); by induction over the loop, whenever the full engine returns
normally the abstraction did not stop (`engLoop_ok_none`).  Hence a format on which the abstraction stops — every format
with an `n` conversion — makes the full engine take an error exit, for EVERY argument list, sink, buffer size and start
state (`engine_error_of_rejects`).
-/
namespace SafeC.Printf
open SafeC.Gen

theorem bind_ok {α β : Type} {x : M α} {f : α → M β} {b : β} (h : x >>= f = .ok b) : ∃ a, x = .ok a ∧ f a = .ok b := by
  cases x with
  | error e => cases h
  | ok a => exact ⟨a, rfl, h⟩

/-! ## the parser phases consume the same characters as the abstraction -/

theorem parseFlags_abs : ∀ (f : Str) (fl : Flags),
    (parseFlags f fl).2 = f.dropWhile SafeC.Fmt.engIsFlag ∧ (parseFlags f fl).1.longDouble = fl.longDouble := by
  intro f
  induction f with
  | nil => intro fl; exact ⟨rfl, rfl⟩
  | cons c r ih =>
    intro fl
    unfold parseFlags
    by_cases h0 : c = '0'
    · subst h0; simpa [SafeC.Fmt.engIsFlag] using ih { fl with zeropad := true }
    by_cases h1 : c = '-'
    · subst h1; simpa [SafeC.Fmt.engIsFlag] using ih { fl with left := true }
    by_cases h2 : c = '+'
    · subst h2; simpa [SafeC.Fmt.engIsFlag] using ih { fl with plus := true }
    by_cases h3 : c = ' '
    · subst h3; simpa [SafeC.Fmt.engIsFlag] using ih { fl with space := true }
    by_cases h4 : c = '#'
    · subst h4; simpa [SafeC.Fmt.engIsFlag] using ih { fl with hash := true }
    simp [h0, h1, h2, h3, h4, SafeC.Fmt.engIsFlag]

theorem atoi_abs : ∀ (f : Str) (i : Nat), (atoi f i).2 = SafeC.Fmt.skipDigits f := by
  intro f
  induction f with
  | nil => intro i; rfl
  | cons c r ih =>
    intro i
    unfold atoi
    by_cases hd : c.isDigit = true
    · simp only [hd, if_true, ih, SafeC.Fmt.skipDigits_cons]
    · simp only [hd, SafeC.Fmt.skipDigits_cons]; rfl

theorem parseWidth_abs {f : Str} {fl : Flags} {args : List Arg} {fl' : Flags} {w : Nat} {f' : Str} {a' : List Arg}
    (h : parseWidth f fl args = .ok (fl', w, f', a')) : f' = SafeC.Fmt.engWidth f ∧ fl'.longDouble = fl.longDouble := by
  cases f with
  | nil => simp only [parseWidth, Except.ok.injEq, Prod.mk.injEq] at h; obtain ⟨rfl, _, rfl, _⟩ := h; exact ⟨rfl, rfl⟩
  | cons c r =>
    unfold parseWidth at h
    by_cases hd : c.isDigit = true
    · simp only [hd, if_true, Except.ok.injEq, Prod.mk.injEq] at h
      obtain ⟨rfl, _, rfl, _⟩ := h
      exact ⟨by simp [SafeC.Fmt.engWidth, hd, atoi_abs], rfl⟩
    · by_cases hs : c = '*'
      · subst hs
        simp only [hd, if_true] at h
        obtain ⟨⟨v, as⟩, _, h⟩ := bind_ok h
        simp only at h
        split at h <;> (simp only [Except.ok.injEq, Prod.mk.injEq] at h; obtain ⟨rfl, _, rfl, _⟩ := h)
        · exact ⟨by simp [SafeC.Fmt.engWidth, hd], rfl⟩
        · exact ⟨by simp [SafeC.Fmt.engWidth, hd], rfl⟩
      · simp only [hd, hs, if_false] at h
        obtain ⟨rfl, _, rfl, _⟩ := h
        exact ⟨by simp [SafeC.Fmt.engWidth, hd, hs], rfl⟩

theorem parsePrec_abs {fx : Fixes} {f : Str} {fl : Flags} {args : List Arg} {fl' : Flags} {p : Nat} {f' : Str} {a' : List Arg}
    (h : parsePrec fx f fl args = .ok (fl', p, f', a')) : f' = SafeC.Fmt.engPrec f ∧ fl'.longDouble = fl.longDouble := by
  cases f with
  | nil => simp only [parsePrec, Except.ok.injEq, Prod.mk.injEq] at h; obtain ⟨rfl, _, rfl, _⟩ := h; exact ⟨rfl, rfl⟩
  | cons c r =>
    unfold parsePrec at h
    by_cases hc : c = '.'
    · subst hc
      simp only [if_true] at h
      cases r with
      | nil => simp only [Except.ok.injEq, Prod.mk.injEq] at h; obtain ⟨rfl, _, rfl, _⟩ := h; exact ⟨rfl, rfl⟩
      | cons c' r' =>
        simp only at h
        by_cases hd : c'.isDigit = true
        · simp only [hd, if_true, Except.ok.injEq, Prod.mk.injEq] at h
          obtain ⟨rfl, _, rfl, _⟩ := h
          exact ⟨by simp [SafeC.Fmt.engPrec, SafeC.Fmt.engWidth, hd, atoi_abs], rfl⟩
        · by_cases hs : c' = '*'
          · subst hs
            simp only [hd, if_true] at h
            obtain ⟨⟨v, as⟩, _, h⟩ := bind_ok h
            simp only at h
            split at h <;> (simp only [Except.ok.injEq, Prod.mk.injEq] at h; obtain ⟨rfl, _, rfl, _⟩ := h)
            · exact ⟨by simp [SafeC.Fmt.engPrec, SafeC.Fmt.engWidth, hd], rfl⟩
            · exact ⟨by simp [SafeC.Fmt.engPrec, SafeC.Fmt.engWidth, hd], rfl⟩
          · simp only [hd, hs, if_false] at h
            obtain ⟨rfl, _, rfl, _⟩ := h
            exact ⟨by simp [SafeC.Fmt.engPrec, SafeC.Fmt.engWidth, hd, hs], rfl⟩
    · simp only [hc, if_false, Except.ok.injEq, Prod.mk.injEq] at h
      obtain ⟨rfl, _, rfl, _⟩ := h
      exact ⟨by simp [SafeC.Fmt.engPrec, hc], rfl⟩

theorem parseLength_abs (f : Str) (fl : Flags) :
    (parseLength f fl).2 = (SafeC.Fmt.engLength f).2 ∧
    (parseLength f fl).1.longDouble = (fl.longDouble || (SafeC.Fmt.engLength f).1) := by
  cases f with
  | nil => simp [parseLength, SafeC.Fmt.engLength]
  | cons c r =>
    unfold parseLength SafeC.Fmt.engLength
    by_cases h1 : c = 'l'
    · subst h1
      simp only [if_true]
      cases r with
      | nil => simp
      | cons c2 r2 =>
        by_cases h : c2 = 'l'
        · subst h; simp
        · simp only [List.head?_cons, Option.some.injEq, h, if_false, Bool.or_false]
          split
          · rename_i heq; simp at heq; exact absurd heq.1 h
          · simp
    by_cases h2 : c = 'L'
    · subst h2; simp
    by_cases h3 : c = 'h'
    · subst h3
      simp only [h1, if_false, h2, if_true]
      cases r with
      | nil => simp
      | cons c2 r2 =>
        by_cases h : c2 = 'h'
        · subst h; simp
        · simp only [List.head?_cons, Option.some.injEq, h, if_false, Bool.or_false]
          split
          · rename_i heq; simp at heq; exact absurd heq.1 h
          · simp
    by_cases h4 : c = 't' ∨ c = 'j' ∨ c = 'z'
    · simp [h1, h2, h3, h4]
    · simp [h1, h2, h3, h4]

theorem convInt_ok_noL {fx : Fixes} {sk : Sink} {m : Nat} {c : Char} {fl : Flags} {w p : Nat} {args : List Arg} {s : St}
    {x : St × List Arg} (h : convInt fx sk m c fl w p args s = .ok x) : fl.longDouble = false := by
  unfold convInt at h
  cases hl : fl.longDouble with
  | false => rfl
  | true => simp [hl] at h

/-! ## one conversion specification -/

/-- **whenever the full engine gets through a conversion specification, the abstraction says `next` with the same rest** -/
theorem directive_ok_next {fx : Fixes} {sk : Sink} {m : Nat} {f : Str} {args : List Arg} {s : St}
    {r : Str} {a' : List Arg} {s' : St} (h : directive fx sk m f args s = .ok (r, a', s')) :
    SafeC.Fmt.engDirective f = .next r := by
  unfold directive at h
  have hF := parseFlags_abs f {}
  cases hpf : parseFlags f {} with
  | mk fl0 f0 =>
    rw [hpf] at h hF
    simp only at h hF
    obtain ⟨⟨fl1, w, f1, a1⟩, hw, h⟩ := bind_ok h
    have hW := parseWidth_abs hw
    simp only at h
    obtain ⟨⟨fl2, p, f2, a2⟩, hp, h⟩ := bind_ok h
    have hP := parsePrec_abs hp
    simp only at h
    have hL := parseLength_abs f2 fl2
    cases hpl : parseLength f2 fl2 with
    | mk fl3 f3 =>
      rw [hpl] at h hL
      simp only at h hL
      have hld : fl3.longDouble = (SafeC.Fmt.engLength f2).1 := by
        rw [hL.2, hP.2, hW.2, hF.2]; rfl
      have hE : SafeC.Fmt.engDirective f = SafeC.Fmt.engSpec fl3.longDouble f3 := by
        simp only [SafeC.Fmt.engDirective]
        rw [← hF.1, ← hW.1, ← hP.1, hld, hL.1]
      rw [hE]
      cases f3 with
      | nil => cases h
      | cons c r3 =>
        simp only at h
        by_cases hi : c = 'd' ∨ c = 'i' ∨ c = 'u' ∨ c = 'x' ∨ c = 'X' ∨ c = 'o' ∨ c = 'b'
        · rw [if_pos hi] at h
          obtain ⟨⟨s1, as⟩, hc, h⟩ := bind_ok h
          have hnl := convInt_ok_noL hc
          simp only [pure, Except.pure, Except.ok.injEq, Prod.mk.injEq] at h
          obtain ⟨rfl, _, _⟩ := h
          have : SafeC.Fmt.engIsIntConv c = true := by
            rcases hi with h | h | h | h | h | h | h <;> subst h <;> decide
          simp [SafeC.Fmt.engSpec, this, hnl]
        · rw [if_neg hi] at h
          by_cases hf : c = 'f' ∨ c = 'F' ∨ c = 'e' ∨ c = 'E' ∨ c = 'g' ∨ c = 'G' ∨ c = 'a' ∨ c = 'A'
          · rw [if_pos hf] at h; cases h
          · rw [if_neg hf] at h
            have hni : SafeC.Fmt.engIsIntConv c = false := by
              simp only [not_or] at hi
              simp [SafeC.Fmt.engIsIntConv, hi]
            by_cases hcc : c = 'c'
            · subst hcc
              rw [if_pos rfl] at h
              obtain ⟨⟨s1, as⟩, _, h⟩ := bind_ok h
              simp only [pure, Except.pure, Except.ok.injEq, Prod.mk.injEq] at h
              obtain ⟨rfl, _, _⟩ := h
              simp [SafeC.Fmt.engSpec, SafeC.Fmt.engIsIntConv, SafeC.Fmt.engIsOtherConv]
            rw [if_neg hcc] at h
            by_cases hcs : c = 's'
            · subst hcs
              rw [if_pos rfl] at h
              obtain ⟨⟨s1, as⟩, _, h⟩ := bind_ok h
              simp only [pure, Except.pure, Except.ok.injEq, Prod.mk.injEq] at h
              obtain ⟨rfl, _, _⟩ := h
              simp [SafeC.Fmt.engSpec, SafeC.Fmt.engIsIntConv, SafeC.Fmt.engIsOtherConv]
            rw [if_neg hcs] at h
            by_cases hcp : c = 'p'
            · subst hcp
              rw [if_pos rfl] at h
              split at h
              · obtain ⟨s1, _, h⟩ := bind_ok h
                simp only [pure, Except.pure, Except.ok.injEq, Prod.mk.injEq] at h
                obtain ⟨rfl, _, _⟩ := h
                simp [SafeC.Fmt.engSpec, SafeC.Fmt.engIsIntConv, SafeC.Fmt.engIsOtherConv]
              · cases h
            rw [if_neg hcp] at h
            by_cases hpc : c = '%'
            · subst hpc
              rw [if_pos rfl] at h
              obtain ⟨s1, _, h⟩ := bind_ok h
              simp only [pure, Except.pure, Except.ok.injEq, Prod.mk.injEq] at h
              obtain ⟨rfl, _, _⟩ := h
              simp [SafeC.Fmt.engSpec, SafeC.Fmt.engIsIntConv, SafeC.Fmt.engIsOtherConv]
            · rw [if_neg hpc] at h; cases h

/-! ## the loop, by induction -/

/-- whenever the full engine's loop returns normally, the abstraction's loop (same fuel) did not stop -/
theorem engLoop_ok_none (fx : Fixes) (sk : Sink) (m : Nat) : ∀ (k : Nat) (fmt : Str) (args : List Arg) (s s' : St),
    engLoop fx sk m k fmt args s = .ok s' → SafeC.Fmt.engLoop k fmt = none := by
  intro k
  induction k with
  | zero => intro fmt args s s' _; rfl
  | succ k ih =>
    intro fmt args s s' h
    cases fmt with
    | nil => rfl
    | cons c r =>
      unfold engLoop at h
      by_cases hc : c = '%'
      · subst hc
        simp only [ne_eq, not_true_eq_false, if_false] at h
        obtain ⟨⟨r', a', s1⟩, hd, h⟩ := bind_ok h
        simp only at h
        simp only [SafeC.Fmt.engLoop, ne_eq, not_true_eq_false, if_false, directive_ok_next hd]
        exact ih r' a' s1 s' h
      · simp only [ne_eq, hc, not_false_eq_true, if_true] at h
        obtain ⟨s1, _, h⟩ := bind_ok h
        simp only [SafeC.Fmt.engLoop, ne_eq, hc, not_false_eq_true, if_true]
        exact ih r args s1 s' h

/-- **a format on which the directive-parser abstraction stops makes the full engine take an error exit**:
    every argument list, sink, buffer size, start state and repair configuration -/
theorem engine_error_of_rejects (fx : Fixes) (sk : Sink) (m : Nat) (fmt : Str) (args : List Arg) (s : St)
    (h : SafeC.Fmt.engineRejects fmt = true) : ∃ e, engine fx sk m fmt args s = .error e := by
  cases hl : engLoop fx sk m fmt.length fmt args s with
  | error e => exact ⟨e, by simp [engine, hl, bind, Except.bind]⟩
  | ok s' =>
    have := engLoop_ok_none fx sk m _ _ _ _ _ hl
    simp [SafeC.Fmt.engineRejects, SafeC.Fmt.engine, this] at h

end SafeC.Printf

import SafeC.Proofs.MemSet
/-!
# The erase entry points: `memset_s`, `memset16_s`, `memset32_s`, `memzero_s`, `memzero16_s`,
`memzero32_s`, `strzero_s` — complete outcome of every call (helper lemmas; statements of C18 are in
`SafeC/Props/C18.lean`)
-/
namespace SafeC
open Gen Mem

/-- the C18 post-condition spelled out: each of the `n` addressed cells holds `v`, every other cell is
unchanged, no stray access was recorded, no handler ran, mapping and permissions are as before -/
def Erased (st st' : St) (dest n v : Nat) : Prop :=
  (∀ i, i < n → st'.data (dest + i) = v) ∧
  (∀ a, ¬ (dest ≤ a ∧ a < dest + n) → st'.data a = st.data a) ∧
  st'.strays = st.strays ∧ st'.events = st.events ∧
  st'.mapped = st.mapped ∧ st'.wr = st.wr ∧ st'.rd = st.rd

theorem Filled.erased {st st' : St} {d n v : Nat} (h : Filled st st' d n v) : Erased st st' d n v :=
  ⟨h.inside, h.outside, h.same.strays, h.same.events, h.same.mapped, h.same.wr, h.same.rd⟩

/-- nothing at all happened to the memory; one handler event of kind `k` with `code` was appended -/
def Untouched (k : Kind) (st st' : St) (code : Nat) : Prop :=
  st'.data = st.data ∧ st'.strays = st.strays ∧ st'.events = st.events ++ [.handler k code] ∧
  st'.mapped = st.mapped ∧ st'.wr = st.wr ∧ st'.rd = st.rd

/-- bookkeeping of a failing mem-family call: permissions and strays as before, exactly one
mem-handler event, carrying the returned code -/
structure MemFail (st st' : St) (code : Nat) : Prop where
  ne : code ≠ EOK
  mapped : st'.mapped = st.mapped
  rd : st'.rd = st.rd
  wr : st'.wr = st.wr
  strays : st'.strays = st.strays
  events : st'.events = st.events ++ [.handler .mem code]

theorem failM_spec (code : Nat) (st : St) (hne : code ≠ EOK) :
    ∃ st', exec (failM code) st = .ok (code, st') ∧ MemFail st st' code ∧ st'.data = st.data :=
  ⟨{ st with events := st.events ++ [.handler .mem code] }, by simp [failM, handlerM, exec_bind],
   ⟨hne, rfl, rfl, rfl, rfl, rfl⟩, rfl⟩

/-- the `dmax` test of the mem family: limit when the object size is unknown, object size otherwise -/
def memDmaxOk (dmax : Nat) : Bos → Prop
  | none => dmax ≤ RSIZE_MAX_MEM
  | some b => dmax ≤ b

instance (dmax : Nat) (b : Bos) : Decidable (memDmaxOk dmax b) := by
  cases b <;> simp only [memDmaxOk] <;> exact inferInstance

/-- `CHK_DMAX_MEM_MAX` / `CHK_DEST_MEM_OVR`: either the test passes and the continuation runs, or the
call is rejected with ESLEMAX / EOVERFLOW before anything is touched -/
theorem chkDmaxMemB_spec (dmax : Nat) (destbos : Bos) (k : Option Nat → Prog Nat) (st : St) :
    (memDmaxOk dmax destbos ∧ exec (chkDmaxMemB dmax destbos RSIZE_MAX_MEM k) st = exec (k destbos) st) ∨
    (¬ memDmaxOk dmax destbos ∧ ∃ code st', exec (chkDmaxMemB dmax destbos RSIZE_MAX_MEM k) st = .ok (code, st') ∧
      MemFail st st' code ∧ st'.data = st.data) := by
  cases destbos with
  | none =>
    simp only [chkDmaxMemB, memDmaxOk]
    by_cases h : dmax > RSIZE_MAX_MEM
    · right
      rw [if_pos h]
      obtain ⟨st', he, hf, hd⟩ := failM_spec ESLEMAX st (by decide)
      exact ⟨by omega, _, st', he, hf, hd⟩
    · left
      rw [if_neg h]
      exact ⟨by omega, rfl⟩
  | some b =>
    simp only [chkDmaxMemB, memDmaxOk]
    by_cases h : dmax > b
    · right
      rw [if_pos h]
      refine ⟨by omega, ?_⟩
      by_cases h2 : dmax > RSIZE_MAX_MEM
      · rw [if_pos h2]
        obtain ⟨st', he, hf, hd⟩ := failM_spec ESLEMAX st (by decide)
        exact ⟨_, st', he, hf, hd⟩
      · rw [if_neg h2]
        obtain ⟨st', he, hf, hd⟩ := failM_spec EOVERFLOW st (by decide)
        exact ⟨_, st', he, hf, hd⟩
    · left
      rw [if_neg h]
      exact ⟨by omega, rfl⟩

/-! ## the `n > dmax ? clamp : set` tail shared by `memset_s`, `memset16_s`, `memset32_s` -/

/-- `if (n > cap) { err = n > lim ? ESLEMAX : ESNOSPC; handler(err); n = cap; } prim(dest, n, value); return err;` -/
def setBodyG (prim : Nat → Nat → Nat → Prog Unit) (lim dest cap value n : Nat) : Prog Nat :=
  if n > cap then do
    let err := if n > lim then ESLEMAX else ESNOSPC
    handlerM err
    prim dest cap value
    pure err
  else do
    prim dest n value
    pure EOK

/-- what a set primitive does (the conclusion of `mem_prim_set_ok` / `mem_prim_set16_ok` / …) -/
def PrimFills (prim : Nat → Nat → Nat → Prog Unit) (dest value v : Nat) : Prop :=
  ∀ (len : Nat) (st : St), RW st dest (len % U32) →
    ∃ st', exec (prim dest len value) st = .ok ((), st') ∧ Filled st st' dest (len % U32) v

/-- outcome of a set-type erase call with effective capacity `cap` (in cells) -/
structure SetOutcome (st st' : St) (dest v code n cap : Nat) : Prop where
  ok : code = EOK → Filled st st' dest (n % U32) v ∧ n ≤ cap
  fail : code ≠ EOK → MemFail st st' code ∧
    (st'.data = st.data ∨
     (cap < n ∧ ∀ a, st'.data a = if dest ≤ a ∧ a < dest + cap % U32 then v else st.data a))

theorem setBodyG_spec (prim : Nat → Nat → Nat → Prog Unit) (lim dest cap value n v : Nat) (st : St)
    (hprim : PrimFills prim dest value v) (hw : RW st dest cap) :
    ∃ code st', exec (setBodyG prim lim dest cap value n) st = .ok (code, st') ∧
      SetOutcome st st' dest v code n cap ∧ (code = EOK ↔ n ≤ cap) := by
  unfold setBodyG
  by_cases hn : n > cap
  · rw [if_pos hn]
    have herr : (if n > lim then ESLEMAX else ESNOSPC) ≠ EOK := by split <;> decide
    let st1 : St := { st with events := st.events ++ [.handler .mem (if n > lim then ESLEMAX else ESNOSPC)] }
    have hw1 : RW st1 dest (cap % U32) := fun i hi => hw i (by have := Nat.mod_le cap U32; omega)
    obtain ⟨st', he, hf⟩ := hprim cap st1 hw1
    refine ⟨_, st', ?_, ⟨fun h => absurd h herr, fun _ => ⟨⟨herr, hf.same.mapped, hf.same.rd, hf.same.wr,
      hf.same.strays, hf.same.events⟩, Or.inr ⟨hn, hf.data⟩⟩⟩, ⟨fun h => absurd h herr, fun h => by omega⟩⟩
    simp only [handlerM, exec_bind, exec_emit]
    rw [show ({ st with events := st.events ++ [Event.handler Kind.mem (if n > lim then ESLEMAX else ESNOSPC)] } : St) = st1 from rfl, he]
    rfl
  · rw [if_neg hn]
    have hw1 : RW st dest (n % U32) := fun i hi => hw i (by have := Nat.mod_le n U32; omega)
    obtain ⟨st', he, hf⟩ := hprim n st hw1
    refine ⟨EOK, st', ?_, ⟨fun _ => ⟨hf, by omega⟩, fun h => absurd rfl h⟩, ⟨fun _ => by omega, fun _ => rfl⟩⟩
    simp only [exec_bind, he]
    rfl

/-! ## `memset_s` -/

theorem memset_s_eq (dest dmax value n : Nat) (destbos : Bos) :
    memset_s dest dmax value n destbos =
      if dest = 0 then failM ESNULLP
      else if n = 0 then pure EOK
      else chkDmaxMemB dmax destbos RSIZE_MAX_MEM fun b =>
        if asInt value > 255 then failM ESLEMAX
        else setBodyG (mem_prim_set 1) RSIZE_MAX_MEM dest (b.getD dmax) value n := rfl

theorem mem_prim_set_fills (dest value : Nat) : PrimFills (mem_prim_set 1) dest value (value % 256) :=
  fun len st hw => mem_prim_set_ok dest len value st hw

/-- `memset_s`, every call whose caller told the truth about the object (`destbos.getD dmax` cells at
`dest` are writable) -/
theorem memset_s_spec (dest dmax value n : Nat) (destbos : Bos) (st : St)
    (hw : RW st dest (destbos.getD dmax)) :
    ∃ code st', exec (memset_s dest dmax value n destbos) st = .ok (code, st') ∧
      SetOutcome st st' dest (value % 256) code n (destbos.getD dmax) ∧
      (code = EOK ↔ dest ≠ 0 ∧ (n = 0 ∨ (memDmaxOk dmax destbos ∧ asInt value ≤ 255 ∧ n ≤ destbos.getD dmax))) := by
  rw [memset_s_eq]
  by_cases hd : dest = 0
  · rw [if_pos hd]
    obtain ⟨st', he, hf, hdat⟩ := failM_spec ESNULLP st (by decide)
    exact ⟨_, st', he, ⟨fun h => absurd h (by decide), fun _ => ⟨hf, Or.inl hdat⟩⟩,
      ⟨fun h => absurd h (by decide), fun h => absurd hd h.1⟩⟩
  rw [if_neg hd]
  by_cases hn : n = 0
  · rw [if_pos hn]
    subst hn
    exact ⟨EOK, st, rfl, ⟨fun _ => ⟨Filled.nil st dest _, Nat.zero_le _⟩, fun h => absurd rfl h⟩,
      ⟨fun _ => ⟨hd, Or.inl rfl⟩, fun _ => rfl⟩⟩
  rw [if_neg hn]
  rcases chkDmaxMemB_spec dmax destbos
      (fun b => if asInt value > 255 then failM ESLEMAX
        else setBodyG (mem_prim_set 1) RSIZE_MAX_MEM dest (b.getD dmax) value n) st with ⟨hok, he⟩ | ⟨hbad, code, st', he, hf, hdat⟩
  · rw [he]
    by_cases hv : asInt value > 255
    · simp only [if_pos hv]
      obtain ⟨st', he, hf, hdat⟩ := failM_spec ESLEMAX st (by decide)
      exact ⟨_, st', he, ⟨fun h => absurd h (by decide), fun _ => ⟨hf, Or.inl hdat⟩⟩,
        ⟨fun h => absurd h (by decide), fun h => by rcases h.2 with h0 | h1; exact absurd h0 hn; omega⟩⟩
    · simp only [if_neg hv]
      obtain ⟨code, st', he, ho, hiff⟩ := setBodyG_spec (mem_prim_set 1) RSIZE_MAX_MEM dest (destbos.getD dmax)
        value n (value % 256) st (mem_prim_set_fills dest value) hw
      refine ⟨code, st', he, ho, ⟨fun h => ⟨hd, Or.inr ⟨hok, by omega, hiff.1 h⟩⟩, fun h => ?_⟩⟩
      rcases h.2 with h0 | h1
      · exact absurd h0 hn
      · exact hiff.2 h1.2.2
  · exact ⟨code, st', he, ⟨fun h => absurd h hf.ne, fun _ => ⟨hf, Or.inl hdat⟩⟩,
      ⟨fun h => absurd h hf.ne, fun h => by rcases h.2 with h0 | h1; exact absurd h0 hn; exact absurd h1.1 hbad⟩⟩

/-! ## `memset16_s` / `memset32_s` (`dmax` and `destbos` in bytes, `n` in elements) -/

theorem memset16_s_eq (dest dmax value n : Nat) (destbos : Bos) :
    memset16_s dest dmax value n destbos =
      if dest = 0 then failM ESNULLP
      else if n = 0 then pure EOK
      else chkDmaxMemB dmax destbos RSIZE_MAX_MEM fun b =>
        setBodyG mem_prim_set16 RSIZE_MAX_MEM16 dest (b.getD dmax / 2) value n := rfl

theorem memset32_s_eq (dest dmax value n : Nat) (destbos : Bos) :
    memset32_s dest dmax value n destbos =
      if dest = 0 then failM ESNULLP
      else if n = 0 then pure EOK
      else chkDmaxMemB dmax destbos RSIZE_MAX_MEM fun b =>
        setBodyG mem_prim_set32 RSIZE_MAX_MEM32 dest (b.getD dmax / 4) value n := rfl

/-- the common shape of `memset16_s` and `memset32_s` -/
theorem memsetW_spec (prim : Nat → Nat → Nat → Prog Unit) (lim w dest dmax value n v : Nat) (destbos : Bos)
    (st : St) (hprim : PrimFills prim dest value v) (hw : RW st dest (destbos.getD dmax / w)) :
    ∃ code st', exec (if dest = 0 then failM ESNULLP
        else if n = 0 then pure EOK
        else chkDmaxMemB dmax destbos RSIZE_MAX_MEM fun b =>
          setBodyG prim lim dest (b.getD dmax / w) value n) st = .ok (code, st') ∧
      SetOutcome st st' dest v code n (destbos.getD dmax / w) ∧
      (code = EOK ↔ dest ≠ 0 ∧ (n = 0 ∨ (memDmaxOk dmax destbos ∧ n ≤ destbos.getD dmax / w))) := by
  by_cases hd : dest = 0
  · rw [if_pos hd]
    obtain ⟨st', he, hf, hdat⟩ := failM_spec ESNULLP st (by decide)
    exact ⟨_, st', he, ⟨fun h => absurd h (by decide), fun _ => ⟨hf, Or.inl hdat⟩⟩,
      ⟨fun h => absurd h (by decide), fun h => absurd hd h.1⟩⟩
  rw [if_neg hd]
  by_cases hn : n = 0
  · rw [if_pos hn]
    subst hn
    exact ⟨EOK, st, rfl, ⟨fun _ => ⟨Filled.nil st dest _, Nat.zero_le _⟩, fun h => absurd rfl h⟩,
      ⟨fun _ => ⟨hd, Or.inl rfl⟩, fun _ => rfl⟩⟩
  rw [if_neg hn]
  rcases chkDmaxMemB_spec dmax destbos
      (fun b => setBodyG prim lim dest (b.getD dmax / w) value n) st with ⟨hok, he⟩ | ⟨hbad, code, st', he, hf, hdat⟩
  · rw [he]
    obtain ⟨code, st', he, ho, hiff⟩ := setBodyG_spec prim lim dest (destbos.getD dmax / w)
      value n v st hprim hw
    refine ⟨code, st', he, ho, ⟨fun h => ⟨hd, Or.inr ⟨hok, hiff.1 h⟩⟩, fun h => ?_⟩⟩
    rcases h.2 with h0 | h1
    · exact absurd h0 hn
    · exact hiff.2 h1.2
  · exact ⟨code, st', he, ⟨fun h => absurd h hf.ne, fun _ => ⟨hf, Or.inl hdat⟩⟩,
      ⟨fun h => absurd h hf.ne, fun h => by rcases h.2 with h0 | h1; exact absurd h0 hn; exact absurd h1.1 hbad⟩⟩

theorem memset16_s_spec (dest dmax value n : Nat) (destbos : Bos) (st : St)
    (hw : RW st dest (destbos.getD dmax / 2)) :
    ∃ code st', exec (memset16_s dest dmax value n destbos) st = .ok (code, st') ∧
      SetOutcome st st' dest (value % 2^16) code n (destbos.getD dmax / 2) ∧
      (code = EOK ↔ dest ≠ 0 ∧ (n = 0 ∨ (memDmaxOk dmax destbos ∧ n ≤ destbos.getD dmax / 2))) := by
  rw [memset16_s_eq]
  exact memsetW_spec mem_prim_set16 RSIZE_MAX_MEM16 2 dest dmax value n _ destbos st
    (fun len st hw => mem_prim_set16_ok dest len value st hw) hw

theorem memset32_s_spec (dest dmax value n : Nat) (destbos : Bos) (st : St)
    (hw : RW st dest (destbos.getD dmax / 4)) :
    ∃ code st', exec (memset32_s dest dmax value n destbos) st = .ok (code, st') ∧
      SetOutcome st st' dest (value % 2^32) code n (destbos.getD dmax / 4) ∧
      (code = EOK ↔ dest ≠ 0 ∧ (n = 0 ∨ (memDmaxOk dmax destbos ∧ n ≤ destbos.getD dmax / 4))) := by
  rw [memset32_s_eq]
  exact memsetW_spec mem_prim_set32 RSIZE_MAX_MEM32 4 dest dmax value n _ destbos st
    (fun len st hw => mem_prim_set32_ok dest len value st hw) hw

/-! ## `memzero_s`, `memzero16_s`, `memzero32_s` -/

/-- outcome of a zero-type erase call: success fills, failure touches nothing -/
structure ZeroOutcome (st st' : St) (dest code cnt : Nat) : Prop where
  ok : code = EOK → Filled st st' dest cnt 0
  fail : code ≠ EOK → MemFail st st' code ∧ st'.data = st.data

/-- common shape: null check, zero check on the byte size, `dmax` check, then the fill -/
theorem memzeroG_spec (fill : Prog Unit) (dest dmaxB cnt : Nat) (destbos : Bos) (st : St)
    (hfill : ∃ st', exec fill st = .ok ((), st') ∧ Filled st st' dest cnt 0) :
    ∃ code st', exec (if dest = 0 then failM ESNULLP
        else if dmaxB = 0 then failM ESZEROL
        else chkDmaxMemB dmaxB destbos RSIZE_MAX_MEM fun _ => do fill; pure EOK) st = .ok (code, st') ∧
      ZeroOutcome st st' dest code cnt ∧
      (code = EOK ↔ dest ≠ 0 ∧ dmaxB ≠ 0 ∧ memDmaxOk dmaxB destbos) := by
  by_cases hd : dest = 0
  · rw [if_pos hd]
    obtain ⟨st', he, hf, hdat⟩ := failM_spec ESNULLP st (by decide)
    exact ⟨_, st', he, ⟨fun h => absurd h (by decide), fun _ => ⟨hf, hdat⟩⟩,
      ⟨fun h => absurd h (by decide), fun h => absurd hd h.1⟩⟩
  rw [if_neg hd]
  by_cases hz : dmaxB = 0
  · rw [if_pos hz]
    obtain ⟨st', he, hf, hdat⟩ := failM_spec ESZEROL st (by decide)
    exact ⟨_, st', he, ⟨fun h => absurd h (by decide), fun _ => ⟨hf, hdat⟩⟩,
      ⟨fun h => absurd h (by decide), fun h => absurd hz h.2.1⟩⟩
  rw [if_neg hz]
  rcases chkDmaxMemB_spec dmaxB destbos (fun _ => do fill; pure EOK) st with ⟨hok, he⟩ | ⟨hbad, code, st', he, hf, hdat⟩
  · rw [he]
    obtain ⟨st', he', hf⟩ := hfill
    refine ⟨EOK, st', ?_, ⟨fun _ => hf, fun h => absurd rfl h⟩, ⟨fun _ => ⟨hd, hz, hok⟩, fun _ => rfl⟩⟩
    simp only [exec_bind, he']
    rfl
  · exact ⟨code, st', he, ⟨fun h => absurd h hf.ne, fun _ => ⟨hf, hdat⟩⟩,
      ⟨fun h => absurd h hf.ne, fun h => absurd h.2.2 hbad⟩⟩

theorem memzero_s_spec (dest len : Nat) (destbos : Bos) (st : St) (hw : RW st dest len) :
    ∃ code st', exec (memzero_s dest len destbos) st = .ok (code, st') ∧
      ZeroOutcome st st' dest code len ∧
      (code = EOK ↔ dest ≠ 0 ∧ len ≠ 0 ∧ memDmaxOk len destbos) :=
  memzeroG_spec (memsetBytes 1 0 dest len) dest len len destbos st (memsetBytes_one_ok 0 dest len st hw)

theorem memzero16_s_spec (dest len : Nat) (destbos : Bos) (st : St) (hw : RW st dest (len % U32)) :
    ∃ code st', exec (memzero16_s dest len destbos) st = .ok (code, st') ∧
      ZeroOutcome st st' dest code (len % U32) ∧
      (code = EOK ↔ dest ≠ 0 ∧ (len * 2) % U64 ≠ 0 ∧ memDmaxOk ((len * 2) % U64) destbos) :=
  memzeroG_spec (mem_prim_set16 dest len 0) dest ((len * 2) % U64) (len % U32) destbos st
    (mem_prim_set16_ok dest len 0 st hw)

theorem memzero32_s_spec (dest len : Nat) (destbos : Bos) (st : St) (hw : RW st dest (len % U32)) :
    ∃ code st', exec (memzero32_s dest len destbos) st = .ok (code, st') ∧
      ZeroOutcome st st' dest code (len % U32) ∧
      (code = EOK ↔ dest ≠ 0 ∧ (len * 4) % U64 ≠ 0 ∧ memDmaxOk ((len * 4) % U64) destbos) :=
  memzeroG_spec (mem_prim_set32 dest len 0) dest ((len * 4) % U64) (len % U32) destbos st
    (mem_prim_set32_ok dest len 0 st hw)

/-! ## `strzero_s` -/

/-- bookkeeping of a failing str-family call that touched nothing -/
structure StrFail (st st' : St) (code : Nat) : Prop where
  ne : code ≠ EOK
  mapped : st'.mapped = st.mapped
  rd : st'.rd = st.rd
  wr : st'.wr = st.wr
  strays : st'.strays = st.strays
  events : st'.events = st.events ++ [.handler .str code]
  data : st'.data = st.data

theorem failS_spec (code : Nat) (st : St) (hne : code ≠ EOK) :
    ∃ st', exec (failS code) st = .ok (code, st') ∧ StrFail st st' code :=
  ⟨{ st with events := st.events ++ [.handler .str code] }, by simp [failS, handlerS, exec_bind],
   ⟨hne, rfl, rfl, rfl, rfl, rfl, rfl⟩⟩

def strDmaxOk (dmax : Nat) : Bos → Prop
  | none => dmax ≤ RSIZE_MAX_STR
  | some b => dmax ≤ b

theorem chkDmax_spec (dmax : Nat) (destbos : Bos) (k : Prog Nat) (st : St) :
    (strDmaxOk dmax destbos ∧ exec (chkDmax dmax destbos RSIZE_MAX_STR k) st = exec k st) ∨
    (¬ strDmaxOk dmax destbos ∧ ∃ code st', exec (chkDmax dmax destbos RSIZE_MAX_STR k) st = .ok (code, st') ∧
      StrFail st st' code) := by
  cases destbos with
  | none =>
    simp only [chkDmax, strDmaxOk]
    by_cases h : dmax > RSIZE_MAX_STR
    · right
      rw [if_pos h]
      obtain ⟨st', he, hf⟩ := failS_spec ESLEMAX st (by decide)
      exact ⟨by omega, _, st', he, hf⟩
    · left
      rw [if_neg h]
      exact ⟨by omega, rfl⟩
  | some b =>
    simp only [chkDmax, strDmaxOk]
    by_cases h : dmax > b
    · right
      rw [if_pos h]
      refine ⟨by omega, ?_⟩
      by_cases h2 : dmax > RSIZE_MAX_STR
      · rw [if_pos h2]
        obtain ⟨st', he, hf⟩ := failS_spec ESLEMAX st (by decide)
        exact ⟨_, st', he, hf⟩
      · rw [if_neg h2]
        obtain ⟨st', he, hf⟩ := failS_spec EOVERFLOW st (by decide)
        exact ⟨_, st', he, hf⟩
    · left
      rw [if_neg h]
      exact ⟨by omega, rfl⟩

/-- the zeroing loop `while (dmax && *dest) { *dest = 0; dmax--; dest++; }`: with `m` non-NUL cells
followed by a NUL (or `m = K`, no NUL inside), it zeroes exactly those `m` cells -/
theorem setLoop_zero_ok (K m dest : Nat) (st : St) (hw : RW st dest K) (hm : m ≤ K)
    (hnz : ∀ j, j < m → st.data (dest + j) ≠ 0) (hend : m = K ∨ st.data (dest + m) = 0) :
    ∃ st', exec (setLoop 0 K dest) st = .ok ((dest + m, K - m), st') ∧ Filled st st' dest m 0 := by
  induction K generalizing m dest st with
  | zero =>
    have : m = 0 := by omega
    subst this
    exact ⟨st, rfl, Filled.nil _ _ _⟩
  | succ K ih =>
    obtain ⟨hmp, hwr, hrd⟩ := hw.head
    cases m with
    | zero =>
      have h0 : st.data dest = 0 := by
        rcases hend with h | h
        · omega
        · simpa using h
      refine ⟨st, ?_, Filled.nil _ _ _⟩
      simp only [setLoop, exec_bind, exec_load_ok _ _ hmp hrd, h0, if_true]
      rfl
    | succ m =>
      have h0 : st.data dest ≠ 0 := by simpa using hnz 0 (by omega)
      obtain ⟨st', he, hf⟩ := ih m (dest+1) (st.upd dest 0)
        (RW.of_sameMeta (SameMeta.upd _ _ _) hw.tail) (by omega)
        (fun j hj => by
          rw [St.upd_data_ne _ _ _ _ (by omega)]
          have := hnz (j+1) (by omega)
          rwa [show dest + (j+1) = dest + 1 + j by omega] at this)
        (by
          rcases hend with h | h
          · left; omega
          · right
            rw [St.upd_data_ne _ _ _ _ (by omega)]
            rwa [show dest + (m+1) = dest + 1 + m by omega] at h)
      refine ⟨st', ?_, ((Filled.upd st dest 0).append hf).cast (by omega)⟩
      simp only [setLoop, exec_bind, exec_load_ok _ _ hmp hrd, if_neg h0, exec_store_ok _ _ _ hmp hwr]
      rw [show dest + (m+1) = dest + 1 + m by omega, show K + 1 - (m+1) = K - m by omega]
      exact he

theorem strzero_s_eq (cfg : Cfg) (dest dmax : Nat) (destbos : Bos) :
    strzero_s cfg dest dmax destbos =
      if dest = 0 then failS ESNULLP
      else if dmax = 0 then failS ESZEROL
      else chkDmax dmax destbos RSIZE_MAX_STR (do
        let (d, m) ← setLoop 0 dmax dest
        slackTail cfg d m
        pure EOK) := rfl

/-- the loop plus the slack block of `strzero_s` on a buffer whose first NUL is at index `m < dmax`,
or that holds no NUL (`m = dmax`; the slack block then reads the cell `dest[dmax]`, which must be
readable for the run to be clean) -/
theorem strzeroBody_ok (cfg : Cfg) (dest dmax m : Nat) (st : St) (hw : RW st dest dmax) (hm : m ≤ dmax)
    (hnz : ∀ j, j < m → st.data (dest + j) ≠ 0)
    (hend : (m < dmax ∧ st.data (dest + m) = 0) ∨
            (m = dmax ∧ (cfg.slack = true → st.mapped (dest + dmax) = true ∧ st.rd (dest + dmax) = true))) :
    ∃ st', exec (do
        let (d, k) ← setLoop 0 dmax dest
        slackTail cfg d k
        pure EOK) st = .ok (EOK, st') ∧
      Filled st st' dest (if cfg.slack then dmax else m) 0 := by
  obtain ⟨s1, he1, hf1⟩ := setLoop_zero_ok dmax m dest st hw hm hnz
    (by rcases hend with h | h
        · exact Or.inr h.2
        · exact Or.inl h.1)
  cases hs : cfg.slack with
  | false =>
    refine ⟨s1, ?_, by simpa using hf1⟩
    simp only [exec_bind, he1, slackTail, hs]
    rfl
  | true =>
    rcases hend with ⟨hlt, hz⟩ | ⟨heq, hrd⟩
    · -- terminated inside: the slack block clears the rest
      have hcell := hw m hlt
      have hz1 : s1.data (dest + m) = 0 := by rw [hf1.outside _ (by omega)]; exact hz
      have hw2 : RW s1 (dest + m) (dmax - m) := RW.of_filled hf1 (hw.sub (by omega) (by omega))
      obtain ⟨s2, he2, hf2⟩ := memsetP_filled 0 (dmax - m) (dest + m) s1 hw2
      refine ⟨s2, ?_, by simpa using (hf1.append hf2).cast (by omega)⟩
      have hm1 : s1.mapped (dest + m) = true := by rw [hf1.same.mapped]; exact hcell.1
      have hr1 : s1.rd (dest + m) = true := by rw [hf1.same.rd]; exact hcell.2.2
      simp only [exec_bind, he1, slackTail, hs, if_true, exec_load_ok _ _ hm1 hr1, hz1, he2]
      rfl
    · -- no NUL inside: `if (!*dest)` looks at dest[dmax]; `memset(dest, 0, 0)` either way
      subst heq
      obtain ⟨hmp, hr⟩ := hrd hs
      have hm1 : s1.mapped (dest + m) = true := by rw [hf1.same.mapped]; exact hmp
      have hr1 : s1.rd (dest + m) = true := by rw [hf1.same.rd]; exact hr
      refine ⟨s1, ?_, by simpa using hf1⟩
      by_cases hc : s1.data (dest + m) = 0
      · simp [exec_bind, he1, slackTail, hs, exec_load_ok _ _ hm1 hr1, hc, memsetP]
      · simp [exec_bind, he1, slackTail, hs, exec_load_ok _ _ hm1 hr1, hc]

/-- outcome of `strzero_s` -/
theorem strzero_s_spec (cfg : Cfg) (dest dmax m : Nat) (destbos : Bos) (st : St)
    (hw : RW st dest dmax) (hm : m ≤ dmax)
    (hnz : ∀ j, j < m → st.data (dest + j) ≠ 0)
    (hend : (m < dmax ∧ st.data (dest + m) = 0) ∨
            (m = dmax ∧ (cfg.slack = true → st.mapped (dest + dmax) = true ∧ st.rd (dest + dmax) = true))) :
    ∃ code st', exec (strzero_s cfg dest dmax destbos) st = .ok (code, st') ∧
      (code = EOK → Filled st st' dest (if cfg.slack then dmax else m) 0) ∧
      (code ≠ EOK → StrFail st st' code) ∧
      (code = EOK ↔ dest ≠ 0 ∧ dmax ≠ 0 ∧ strDmaxOk dmax destbos) := by
  rw [strzero_s_eq]
  by_cases hd : dest = 0
  · rw [if_pos hd]
    obtain ⟨st', he, hf⟩ := failS_spec ESNULLP st (by decide)
    exact ⟨_, st', he, fun h => absurd h (by decide), fun _ => hf,
      ⟨fun h => absurd h (by decide), fun h => absurd hd h.1⟩⟩
  rw [if_neg hd]
  by_cases hz : dmax = 0
  · rw [if_pos hz]
    obtain ⟨st', he, hf⟩ := failS_spec ESZEROL st (by decide)
    exact ⟨_, st', he, fun h => absurd h (by decide), fun _ => hf,
      ⟨fun h => absurd h (by decide), fun h => absurd hz h.2.1⟩⟩
  rw [if_neg hz]
  rcases chkDmax_spec dmax destbos (do
        let (d, m) ← setLoop 0 dmax dest
        slackTail cfg d m
        pure EOK) st with ⟨hok, he⟩ | ⟨hbad, code, st', he, hf⟩
  · rw [he]
    obtain ⟨st', he', hf⟩ := strzeroBody_ok cfg dest dmax m st hw hm hnz hend
    exact ⟨EOK, st', he', fun _ => hf, fun h => absurd rfl h, ⟨fun _ => ⟨hd, hz, hok⟩, fun _ => rfl⟩⟩
  · exact ⟨code, st', he, fun h => absurd h hf.ne, fun _ => hf,
      ⟨fun h => absurd h hf.ne, fun h => absurd h.2.2 hbad⟩⟩

end SafeC

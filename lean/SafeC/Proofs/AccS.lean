import SafeC.Proofs.AccD
import SafeC.Models.Inplace
import SafeC.Models.Tok
/-!
# `AccS R W d p Q`: the value-aware footprint judgement for programs that also STORE

Started on contents `d`, every load of `p` is at an address in `R` and continues with the value the memory holds
THEN (earlier stores of `p` included), every store is at an address in `W`; `Q` relates the result and the final
contents.  `AccS.sound`: on a state with data `d` in which only `R` is mapped+readable and `W` mapped+writable,
`p` returns and records no stray access.

Used for the in-place string functions and the tokenizers, whose loops are written `while (*dest && dmax)` and
write `dest` as they go: the footprint is `Str d₀ dest (dmax+1)` for the contents `d₀` at the call.
-/
namespace SafeC
open Gen

/-- the contents after `store a v` -/
def updF (d : Nat → Nat) (a v : Nat) : Nat → Nat := fun x => if x = a then v else d x

inductive AccS (R W : Nat → Prop) : {α : Type} → (Nat → Nat) → Prog α → (α → (Nat → Nat) → Prop) → Prop where
  | ret {α} {Q : α → (Nat → Nat) → Prop} {d : Nat → Nat} (x : α) : Q x d → AccS R W d (.ret x) Q
  | load {α} {Q : α → (Nat → Nat) → Prop} {d : Nat → Nat} (a : Nat) (k : Nat → Prog α) :
      R a → AccS R W d (k (d a)) Q → AccS R W d (.load a k) Q
  | store {α} {Q : α → (Nat → Nat) → Prop} {d : Nat → Nat} (a v : Nat) (k : Prog α) :
      W a → AccS R W (updF d a v) k Q → AccS R W d (.store a v k) Q
  | emit {α} {Q : α → (Nat → Nat) → Prop} {d : Nat → Nat} (e : Event) (k : Prog α) :
      AccS R W d k Q → AccS R W d (.emit e k) Q

namespace AccS
variable {R W : Nat → Prop}

theorem pure {α} {Q : α → (Nat → Nat) → Prop} {d : Nat → Nat} (x : α) (h : Q x d) :
    AccS R W d (Pure.pure x : Prog α) Q := .ret x h

theorem bind {α β} {p : Prog α} {f : α → Prog β} {Q : α → (Nat → Nat) → Prop} {S : β → (Nat → Nat) → Prop}
    {d : Nat → Nat} (hp : AccS R W d p Q) (hf : ∀ x d', Q x d' → AccS R W d' (f x) S) : AccS R W d (p >>= f) S := by
  show AccS R W d (p.bind f) S
  induction hp with
  | ret x hx => exact hf x _ hx
  | load a k ha _ ih => exact .load a _ ha (ih hf)
  | store a v k ha _ ih => exact .store a v _ ha (ih hf)
  | emit e k _ ih => exact .emit e _ (ih hf)

theorem conseq {α} {p : Prog α} {Q Q' : α → (Nat → Nat) → Prop} {d : Nat → Nat} (hp : AccS R W d p Q)
    (h : ∀ x d', Q x d' → Q' x d') : AccS R W d p Q' := by
  induction hp with
  | ret x hx => exact .ret x (h x _ hx)
  | load a k ha _ ih => exact .load a _ ha (ih h)
  | store a v k ha _ ih => exact .store a v _ ha (ih h)
  | emit e k _ ih => exact .emit e _ (ih h)

theorem loadBind {α} {f : Nat → Prog α} {Q : α → (Nat → Nat) → Prop} {d : Nat → Nat} {a : Nat} (ha : R a)
    (h : AccS R W d (f (d a)) Q) : AccS R W d (SafeC.load a >>= f) Q := .load a _ ha h
theorem storeBind {α} {f : Unit → Prog α} {Q : α → (Nat → Nat) → Prop} {d : Nat → Nat} {a v : Nat} (ha : W a)
    (h : AccS R W (updF d a v) (f ()) Q) : AccS R W d (SafeC.store a v >>= f) Q := .store a v _ ha h
theorem handlerSBind {α} {f : Unit → Prog α} {Q : α → (Nat → Nat) → Prop} {d : Nat → Nat} (c : Nat)
    (h : AccS R W d (f ()) Q) : AccS R W d (SafeC.handlerS c >>= f) Q := .emit _ _ h
theorem handlerMBind {α} {f : Unit → Prog α} {Q : α → (Nat → Nat) → Prop} {d : Nat → Nat} (c : Nat)
    (h : AccS R W d (f ()) Q) : AccS R W d (SafeC.handlerM c >>= f) Q := .emit _ _ h

/-- a value-independent footprint proof holds on every contents -/
theorem of_Acc {α} {p : Prog α} {Q : α → Prop} (h : Acc R W p Q) (d : Nat → Nat) :
    AccS R W d p (fun x _ => Q x) := by
  induction h generalizing d with
  | ret x hx => exact .ret x hx
  | load a k ha _ ih => exact .load a _ ha (ih _ _)
  | store a v k ha _ ih => exact .store a v _ ha (ih _)
  | emit e k _ ih => exact .emit e _ (ih _)

/-- a store-free value-aware proof: the contents are unchanged -/
theorem of_AccD {α} {p : Prog α} {Q : α → Prop} {d : Nat → Nat} (h : AccD d R p Q) :
    AccS R W d p (fun x d' => d' = d ∧ Q x) := by
  induction h with
  | ret x hx => exact .ret x ⟨rfl, hx⟩
  | load a k ha _ ih => exact .load a _ ha ih
  | emit e k _ ih => exact .emit e _ ih

/-- **Soundness**: only `R ∪ W` needs to be mapped. -/
theorem sound {α} {p : Prog α} {Q : α → (Nat → Nat) → Prop} {d : Nat → Nat} (h : AccS R W d p Q) (st : St)
    (hd : st.data = d)
    (hr : ∀ a, R a → st.mapped a = true ∧ st.rd a = true)
    (hw : ∀ a, W a → st.mapped a = true ∧ st.wr a = true) :
    ∃ r st', exec p st = .ok (r, st') ∧ Q r st'.data ∧ st'.strays = st.strays := by
  induction h generalizing st with
  | ret x hx => exact ⟨x, st, rfl, hd ▸ hx, rfl⟩
  | load a k ha _ ih =>
    obtain ⟨hm, hrd⟩ := hr a ha
    have e : st.noteRd a = st := by simp [St.noteRd, hrd]
    obtain ⟨r, st', he, hq, h1⟩ := ih st hd hr hw
    exact ⟨r, st', by simp only [exec, hm, if_true, e, hd]; exact he, hq, h1⟩
  | store a v k ha _ ih =>
    obtain ⟨hm, hwr⟩ := hw a ha
    have e : st.noteWr a = st := by simp [St.noteWr, hwr]
    obtain ⟨r, st', he, hq, h1⟩ := ih (st.upd a v) (by rw [← hd]; rfl) (by simpa using hr) (by simpa using hw)
    exact ⟨r, st', by simp only [exec, hm, if_true, e]; exact he, hq, by simpa using h1⟩
  | emit e k _ ih =>
    obtain ⟨r, st', he, hq, h1⟩ := ih { st with events := st.events ++ [e] } hd hr hw
    exact ⟨r, st', by simp only [exec]; exact he, hq, h1⟩

end AccS

/-- a store below `p` does not change the string at `p` -/
theorem Str.upd_below {d : Nat → Nat} {p n a a0 v : Nat} (hlt : a0 < p) (h : Str (updF d a0 v) p n a) : Str d p n a := by
  obtain ⟨h1, h2, h3⟩ := h
  refine ⟨h1, h2, fun j hj1 hj2 => ?_⟩
  have := h3 j hj1 hj2
  simpa [updF, show j ≠ a0 by omega] using this

macro "accs_struct" : tactic => `(tactic| first
  | with_reducible exact AccS.pure _ trivial
  | with_reducible exact AccS.ret _ trivial
  | with_reducible refine AccS.handlerSBind _ ?_
  | with_reducible refine AccS.handlerMBind _ ?_
  | assumption
  | contradiction
  | split
  | dsimp only)

syntax "accs_walk" "[" tacticSeq "]" (" using " term,+)? : tactic
macro_rules
  | `(tactic| accs_walk [$t]) => `(tactic| repeat (first
      | with_reducible refine AccS.loadBind (by $t) ?_
      | with_reducible refine AccS.storeBind (by $t) ?_
      | accs_struct))
  | `(tactic| accs_walk [$t] using $[$hs],*) => `(tactic| repeat (first
      $[| exact $hs]*
      | with_reducible refine AccS.loadBind (by $t) ?_
      | with_reducible refine AccS.storeBind (by $t) ?_
      | accs_struct))

variable {R W : Nat → Prop} {d : Nat → Nat}

/-! ## shared pieces -/

theorem AccS_failS {Q : Nat → (Nat → Nat) → Prop} (c : Nat) (h : Q c d) : AccS R W d (failS c) Q := by
  unfold failS; exact AccS.handlerSBind _ (AccS.pure _ h)

theorem AccS_memsetP (v n p : Nat) (hw : ∀ a, Cells p n a → W a) :
    AccS R W d (memsetP v n p) (fun _ _ => True) := by
  induction n generalizing p d with
  | zero => exact AccS.pure _ trivial
  | succ n ih =>
    unfold memsetP
    exact AccS.storeBind (hw _ ⟨by omega, by omega⟩) (ih _ (fun a ⟨h1, h2⟩ => hw a ⟨by omega, by omega⟩))

theorem AccS_zeroLoop (n p : Nat) (hw : ∀ a, Cells p n a → W a) :
    AccS R W d (zeroLoop n p) (fun _ _ => True) := by
  induction n generalizing p d with
  | zero => exact AccS.pure _ trivial
  | succ n ih =>
    unfold zeroLoop
    exact AccS.storeBind (hw _ ⟨by omega, by omega⟩) (ih _ (fun a ⟨h1, h2⟩ => hw a ⟨by omega, by omega⟩))

theorem AccS_handleError (cfg : Cfg) (p len code : Nat) (hw : ∀ a, Cells p len a → W a) (h0 : W p) :
    AccS R W d (handleError cfg p len code) (fun _ _ => True) := by
  unfold handleError
  split
  · exact AccS.bind (AccS_memsetP 0 len p hw) (fun _ _ _ => AccS.handlerSBind _ (AccS.pure _ trivial))
  · exact AccS.storeBind h0 (AccS.handlerSBind _ (AccS.pure _ trivial))

theorem AccS_chkDmax (dmax : Nat) (b : Bos) (max : Nat) {k : Prog Nat} (hk : AccS R W d k (fun _ _ => True)) :
    AccS R W d (chkDmax dmax b max k) (fun _ _ => True) := by
  unfold chkDmax
  repeat (first | assumption | exact AccS_failS _ trivial | split)

theorem AccS_chkDmaxClearW (cfg : Cfg) (dest dmax : Nat) (b : Bos) {k : Prog Nat} (hpos : dmax ≠ 0)
    (hw : ∀ a, Cells dest dmax a → W a) (hk : AccS R W d k (fun _ _ => True)) :
    AccS R W d (chkDmaxClearW cfg dest dmax b k) (fun _ _ => True) := by
  unfold chkDmaxClearW
  have h0 : W dest := hw _ ⟨by omega, by omega⟩
  split
  · split
    · exact AccS_failS _ trivial
    · exact hk
  · rename_i bos
    split
    · rename_i hgt
      have hsub : ∀ a, Cells dest (bos / SIZEOF_WCHAR_T) a → W a := fun a ⟨h1, h2⟩ => hw a ⟨h1, by
        have : SIZEOF_WCHAR_T = 4 := rfl
        rw [this] at hgt h2; omega⟩
      split
      · exact AccS.bind (AccS_handleError cfg dest _ _ hsub h0) (fun _ _ _ => AccS.pure _ trivial)
      · exact AccS.bind (AccS_handleError cfg dest _ _ hsub h0) (fun _ _ _ => AccS.pure _ trivial)
    · exact hk

/-! ## strset_s strnset_s strzero_s wcsset_s wcsnset_s -/

/-- `while (k && *dest) { *dest = v; … }`: counter first.  The pointer it hands back is what
`if (!*dest) memset(…)` dereferences next: after `k` full rounds that is `dest[k]`. -/
theorem AccS_setLoop (v k dest : Nat) (hr : ∀ a, Str d dest (k+1) a → R a) (hw : ∀ a, Cells dest k a → W a) :
    AccS R W d (setLoop v k dest) (fun r _ => r.1 + r.2 = dest + k ∧ R r.1 ∧ dest ≤ r.1) := by
  induction k generalizing dest d with
  | zero => unfold setLoop; exact AccS.pure _ ⟨by simp, hr _ (Str.head (by omega)), Nat.le_refl _⟩
  | succ n ih =>
    have h0 : R dest := hr _ (Str.head (by omega))
    unfold setLoop
    refine AccS.loadBind h0 ?_
    split
    · exact AccS.pure _ ⟨by simp, h0, Nat.le_refl _⟩
    · rename_i hne
      refine AccS.storeBind (hw _ ⟨by omega, by omega⟩) ?_
      exact (ih (dest+1) (fun a h => hr a (Str.succ hne (Str.upd_below (by omega) h)))
        (fun a ⟨h1, h2⟩ => hw a ⟨by omega, by omega⟩)).conseq (fun r _ ⟨g1, g2, g3⟩ => ⟨by omega, g2, by omega⟩)

theorem AccS_slackTail (cfg : Cfg) (p n : Nat) (hr : R p) (hw : ∀ a, Cells p n a → W a) :
    AccS R W d (slackTail cfg p n) (fun _ _ => True) := by
  unfold slackTail
  split
  · refine AccS.loadBind hr ?_
    split
    · exact AccS_memsetP 0 n p hw
    · exact AccS.pure _ trivial
  · exact AccS.pure _ trivial

theorem AccS_setBody (cfg : Cfg) (v n dmax dest : Nat) (hn : n ≤ dmax)
    (hr : ∀ a, Str d dest (n+1) a → R a) (hw : ∀ a, Cells dest dmax a → W a) :
    AccS R W d (do
      let (p, _) ← setLoop v n dest
      slackTail cfg p (dmax - (p - dest))
      pure EOK : Prog Nat) (fun _ _ => True) := by
  refine AccS.bind (AccS_setLoop v n dest hr (fun a ⟨h1, h2⟩ => hw a ⟨h1, by omega⟩)) (fun r d' hq => ?_)
  obtain ⟨r1, r2⟩ := r
  obtain ⟨g1, g2, g3⟩ := hq
  simp only at g1 g2 g3
  exact AccS.bind (AccS_slackTail cfg r1 _ g2 (fun a ⟨h1, h2⟩ => hw a ⟨by omega, by omega⟩)) (fun _ _ _ => AccS.pure _ trivial)

theorem AccS_setBody' (cfg : Cfg) (v dmax dest : Nat)
    (hr : ∀ a, Str d dest (dmax+1) a → R a) (hw : ∀ a, Cells dest dmax a → W a) :
    AccS R W d (do
      let (p, m) ← setLoop v dmax dest
      slackTail cfg p m
      pure EOK : Prog Nat) (fun _ _ => True) := by
  refine AccS.bind (AccS_setLoop v dmax dest hr hw) (fun r d' hq => ?_)
  obtain ⟨r1, r2⟩ := r
  obtain ⟨g1, g2, g3⟩ := hq
  simp only at g1 g2 g3
  exact AccS.bind (AccS_slackTail cfg r1 _ g2 (fun a ⟨h1, h2⟩ => hw a ⟨by omega, by omega⟩)) (fun _ _ _ => AccS.pure _ trivial)

theorem strset_s_accs (cfg : Cfg) (dest dmax value : Nat) (b : Bos)
    (hr : dest ≠ 0 → ∀ a, Str d dest (dmax+1) a → R a) (hw : dest ≠ 0 → ∀ a, Cells dest dmax a → W a) :
    AccS R W d (strset_s cfg dest dmax value b) (fun _ _ => True) := by
  unfold strset_s
  split
  · exact AccS_failS _ trivial
  · split
    · exact AccS_failS _ trivial
    · refine AccS_chkDmax _ _ _ ?_
      split
      · exact AccS_failS _ trivial
      · exact AccS_setBody' cfg _ dmax dest (hr ‹_›) (hw ‹_›)

theorem strzero_s_accs (cfg : Cfg) (dest dmax : Nat) (b : Bos)
    (hr : dest ≠ 0 → ∀ a, Str d dest (dmax+1) a → R a) (hw : dest ≠ 0 → ∀ a, Cells dest dmax a → W a) :
    AccS R W d (strzero_s cfg dest dmax b) (fun _ _ => True) := by
  unfold strzero_s
  split
  · exact AccS_failS _ trivial
  · split
    · exact AccS_failS _ trivial
    · exact AccS_chkDmax _ _ _ (AccS_setBody' cfg _ dmax dest (hr ‹_›) (hw ‹_›))

/-- `strnset_s` sets at most `n ≤ dmax` characters: the tail read is `dest[n]` at most -/
theorem strnset_s_accs (cfg : Cfg) (dest dmax value n : Nat) (b : Bos)
    (hr : dest ≠ 0 → n ≤ dmax → ∀ a, Str d dest (n+1) a → R a) (hw : dest ≠ 0 → ∀ a, Cells dest dmax a → W a) :
    AccS R W d (strnset_s cfg dest dmax value n b) (fun _ _ => True) := by
  unfold strnset_s
  split
  · exact AccS_failS _ trivial
  · split
    · exact AccS_failS _ trivial
    · refine AccS_chkDmax _ _ _ ?_
      split
      · exact AccS_failS _ trivial
      · split
        · exact AccS_failS _ trivial
        · exact AccS_setBody cfg _ n dmax dest (by omega) (hr ‹_› (by omega)) (hw ‹_›)

theorem wcsset_s_accs (cfg : Cfg) (dest dmax value : Nat) (b : Bos)
    (hr : dest ≠ 0 → ∀ a, Str d dest (dmax+1) a → R a) (hw : dest ≠ 0 → ∀ a, Cells dest dmax a → W a) :
    AccS R W d (wcsset_s cfg dest dmax value b) (fun _ _ => True) := by
  unfold wcsset_s
  split
  · exact AccS_failS _ trivial
  · split
    · exact AccS_failS _ trivial
    · split
      · exact AccS_failS _ trivial
      · exact AccS_chkDmaxClearW cfg dest dmax b ‹_› (hw ‹_›) (AccS_setBody' cfg _ dmax dest (hr ‹_›) (hw ‹_›))

theorem wcsnset_s_accs (cfg : Cfg) (dest dmax value n : Nat) (b : Bos)
    (hr : dest ≠ 0 → n ≤ dmax → ∀ a, Str d dest (n+1) a → R a) (hw : dest ≠ 0 → ∀ a, Cells dest dmax a → W a) :
    AccS R W d (wcsnset_s cfg dest dmax value n b) (fun _ _ => True) := by
  unfold wcsnset_s
  split
  · exact AccS_failS _ trivial
  · rename_i hd
    split
    · exact AccS_failS _ trivial
    · rename_i hm
      split
      · exact AccS_failS _ trivial
      · refine AccS_chkDmaxClearW cfg dest dmax b hm (hw hd) ?_
        split
        · exact AccS.bind (AccS_handleError cfg dest dmax _ (hw hd) (hw hd _ ⟨by omega, by omega⟩)) (fun _ _ _ => AccS.pure _ trivial)
        · exact AccS_setBody cfg _ n dmax dest (by omega) (hr hd (by omega)) (hw hd)

end SafeC

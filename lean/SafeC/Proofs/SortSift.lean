import SafeC.Proofs.SortHeapDefs
/-!
# qsort_s model: what `cycle` and `sift` compute (consistent comparator)

`cycle_fn`: `cycle` on in-range positions is `rot` on the array seen as a function.  `sift_spec`: `sift` on a Leonardo tree whose
two subtrees are heap-ordered makes the whole tree heap-ordered, touches only the tree, and its new root dominates the old tree.
-/
namespace SafeC.Sort
variable {α : Type}

/-- a comparator call returns the caller's comparator on the two elements and leaves the array alone -/
theorem cmpAt_val [Inhabited α] (e : Env α) (s : St α) {i j : Nat} (hi : i < s.a.size) (hj : j < s.a.size) :
    Tot (cmpAt e s i j) (fun r => r.2.a = s.a ∧ r.1 = e.cmp s.ncmp i j (s.g i) (s.g j)) := by
  unfold cmpAt; simp only [hi, hj, dite_true]
  refine Tot.ok ⟨rfl, ?_⟩
  simp only [St.g, getElem!_pos, hi, hj]

namespace Sift
open Cyc

theorem rotF_notin {β : Type} (tmp : β) : ∀ (ar : List Nat) (f : Nat → β) (i : Nat), i ∉ ar → rotF f tmp ar i = f i
  | [], f, i, _ => rfl
  | [x], f, i, h => by
    have : ¬ i = x := by simpa using h
    simp only [rotF, upd, this, if_false]
  | x :: y :: rest, f, i, h => by
    have h1 : ¬ i = x := fun e => h (by simp [e])
    have h2 : i ∉ y :: rest := fun e => h (by simp [List.mem_cons.mp e])
    simp only [rotF]
    rw [rotF_notin tmp (y :: rest) _ i h2]
    simp only [upd, h1, if_false]

theorem rep_g [Inhabited α] (s : St α) : Cyc.Rep s.a s.a.size s.g := by
  refine ⟨rfl, fun i hi => ?_⟩
  simp only [St.g, getElem!_pos, hi, Array.getElem?_eq_getElem]

theorem g_of_rep [Inhabited α] {s : St α} {n : Nat} {f : Nat → α} (h : Cyc.Rep s.a n f) (hf : ∀ i, n ≤ i → f i = default) : s.g = f := by
  funext i
  by_cases hi : i < n
  · have := h.2 i hi
    have hi' : i < s.a.size := by rw [h.1]; exact hi
    rw [Array.getElem?_eq_getElem hi'] at this
    injection this with this
    simp only [St.g, getElem!_pos, hi', this]
  · rw [hf i (by omega)]
    have hi' : ¬ i < s.a.size := by rw [h.1]; exact hi
    simp [St.g, hi']

end Sift
open Cyc Sift

/-- `cycle` on positions inside the array (any list: repeated positions allowed) is `rot` -/
theorem cycle_fn [Inhabited α] (s : St α) (ar : List Nat) (h : ∀ y ∈ ar, y < s.a.size) (hl : ar.length ≤ 112) :
    Tot (cycle s ar) (fun r => r.a.size = s.a.size ∧ r.g = rot s.g ar) := by
  unfold cycle
  split
  · exact Tot.ok ⟨rfl, rfl⟩
  · exact Tot.ok ⟨rfl, rfl⟩
  · rename_i x y rest
    have hx : x < s.a.size := h x (by simp)
    have hl' : ¬ (x :: y :: rest).length > 112 := by omega
    simp only [hl', if_false]
    rw [getE_rep (rep_g s) hx]
    obtain ⟨r, hr, hrep⟩ := cycleGo_rep (s.g x) (y :: rest) s.a s.g x (rep_g s) hx (fun z hz => h z (by simp [hz]))
    refine ⟨{ s with a := r }, by simp [bind, Except.bind, hr, pure, Except.pure], hrep.1, ?_⟩
    apply g_of_rep (s := { s with a := r }) hrep
    intro i hi
    show rotF s.g (s.g x) (x :: y :: rest) i = _
    rw [rotF_notin _ _ _ _ (fun hm => by have := h i hm; omega)]
    have hi' : ¬ i < s.a.size := by omega
    simp [St.g, hi']

namespace Sift
open Cyc

theorem rotF_upd_notin {β : Type} (tmp : β) (h : Nat) (v : β) : ∀ (ar : List Nat) (f : Nat → β), h ∉ ar →
    rotF (upd f h v) tmp ar = upd (rotF f tmp ar) h v
  | [], f, _ => rfl
  | [x], f, hn => by
    have : ¬ h = x := by simpa using hn
    funext i
    simp only [rotF, upd]
    grind
  | x :: y :: rest, f, hn => by
    have h1 : ¬ h = x := fun e => hn (by simp [e])
    have h1' : ¬ y = h := fun e => hn (by simp [e])
    have h2 : h ∉ y :: rest := fun e => hn (by simp [List.mem_cons.mp e])
    simp only [rotF]
    rw [← rotF_upd_notin tmp h v (y :: rest) _ h2]
    congr 1
    funext i
    simp only [upd, h1', if_false]
    grind

/-- moving the hole one step down: the root receives the child's value, the rest is the rotation below -/
theorem rotF_cons_notin {β : Type} (tmp : β) (f : Nat → β) (h l : Nat) (P : List Nat) (hn : h ∉ l :: P) :
    rotF f tmp (h :: l :: P) = upd (rotF f tmp (l :: P)) h (f l) := by
  show rotF (upd f h (f l)) tmp (l :: P) = _
  exact rotF_upd_notin tmp h (f l) (l :: P) f hn

/-- a path `sift` may take below the node of order `k` at `h` (`x` = the element sifted down) -/
inductive Descent (le : α → α → Prop) (f : Nat → α) (x : α) : Nat → Nat → List Nat → Prop
  | leaf {k h : Nat} : k ≤ 1 → Descent le f x k h []
  | stop {k h : Nat} : le (f (h - 1 - leo k)) x → le (f (h - 1)) x → Descent le f x (k + 2) h []
  | left {k h : Nat} {P : List Nat} : ¬ (le (f (h - 1 - leo k)) x ∧ le (f (h - 1)) x) → le (f (h - 1)) (f (h - 1 - leo k)) →
      Descent le f x (k + 1) (h - 1 - leo k) P → Descent le f x (k + 2) h ((h - 1 - leo k) :: P)
  | right {k h : Nat} {P : List Nat} : ¬ (le (f (h - 1 - leo k)) x ∧ le (f (h - 1)) x) → ¬ le (f (h - 1)) (f (h - 1 - leo k)) →
      Descent le f x k (h - 1) P → Descent le f x (k + 2) h ((h - 1) :: P)

theorem Descent.length {le : α → α → Prop} {f : Nat → α} {x : α} {k h : Nat} {P : List Nat} (d : Descent le f x k h P) :
    P.length ≤ k := by
  induction d with
  | leaf _ => simp
  | stop _ _ => simp
  | left _ _ _ ih => simp only [List.length_cons]; omega
  | right _ _ _ ih => simp only [List.length_cons]; omega

theorem Descent.mem {le : α → α → Prop} {f : Nat → α} {x : α} {k h : Nat} {P : List Nat} (d : Descent le f x k h P)
    (hfit : leo k ≤ h + 1) : ∀ p ∈ P, p < h ∧ h < p + leo k := by
  induction d with
  | leaf _ => simp
  | stop _ _ => simp
  | @left k h P _ _ _ ih =>
    have := leo_succ_succ k
    have := leo_pos k
    have := leo_pos (k + 1)
    intro p hp
    rcases List.mem_cons.mp hp with rfl | hp
    · omega
    · have := ih (by omega) p hp
      omega
  | @right k h P _ _ _ ih =>
    have := leo_succ_succ k
    have := leo_pos k
    have := leo_pos (k + 1)
    intro p hp
    rcases List.mem_cons.mp hp with rfl | hp
    · omega
    · have := ih (by omega) p hp
      omega


theorem leo_le_one {k : Nat} (hk : k ≤ 1) : leo k = 1 := by
  match k, hk with
  | 0, _ => simp [leo]
  | 1, _ => simp [leo]

/-- the pure content of `sift`: rotating `x` down a valid path makes the tree a heap -/
theorem Descent.spec {le : α → α → Prop} (htot : ∀ x y, le x y ∨ le y x) (htrans : ∀ {x y z}, le x y → le y z → le x z)
    {f : Nat → α} {x : α} {k h : Nat} {P : List Nat} (d : Descent le f x k h P) (hfit : leo k ≤ h + 1)
    (hsub : SubHeaps le f k h) :
    Heap le (rotF f x (h :: P)) k h ∧
    (∀ j, ¬ InTree k h j → rotF f x (h :: P) j = f j) ∧
    (∀ j, InTree k h j → rotF f x (h :: P) j = x ∨ ∃ j', InTree k h j' ∧ j' ≠ h ∧ rotF f x (h :: P) j = f j') ∧
    le x (rotF f x (h :: P) h) ∧
    (∀ j, InTree k h j → j ≠ h → le (f j) (rotF f x (h :: P) h)) := by
  have hrefl : ∀ x, le x x := fun x => (htot x x).elim id id
  induction d with
  | @leaf k h hk =>
    have hl := leo_le_one hk
    have hf : ∀ j, rotF f x [h] j = if j = h then x else f j := fun j => rfl
    refine ⟨?_, ?_, ?_, ?_, ?_⟩
    · match k, hk with
      | 0, _ => trivial
      | 1, _ => trivial
    · intro j hj
      have : ¬ j = h := by unfold InTree at hj; omega
      rw [hf, if_neg this]
    · intro j hj
      have : j = h := by unfold InTree at hj; omega
      left; rw [hf, if_pos this]
    · rw [hf, if_pos rfl]; exact hrefl x
    · intro j hj hne
      exfalso; unfold InTree at hj; omega
  | @stop k h h1 h2 =>
    have e0 := leo_succ_succ k
    have p0 := leo_pos k
    have p1 := leo_pos (k + 1)
    have hf : ∀ j, rotF f x [h] j = if j = h then x else f j := fun j => rfl
    have hfne : ∀ j, j ≠ h → rotF f x [h] j = f j := fun j hj => by rw [hf, if_neg hj]
    have hfh : rotF f x [h] h = x := by rw [hf, if_pos rfl]
    obtain ⟨s1, s2⟩ := hsub
    refine ⟨⟨?_, ?_, ?_, ?_⟩, ?_, ?_, ?_, ?_⟩
    · rw [hfne _ (by omega), hfh]; exact h2
    · rw [hfne _ (by omega), hfh]; exact h1
    · exact Heap.congr_le (fun j hj => hfne j (by omega)) s1
    · exact Heap.congr_le (fun j hj => hfne j (by omega)) s2
    · intro j hj
      exact hfne j (by unfold InTree at hj; omega)
    · intro j hj
      by_cases hjh : j = h
      · left; rw [hjh, hfh]
      · right; exact ⟨j, hj, hjh, hfne j hjh⟩
    · rw [hfh]; exact hrefl x
    · intro j hj hne
      rw [hfh]
      unfold InTree at hj
      by_cases hjR : h - 1 - leo k < j
      · exact htrans (Heap.root_max hrefl htrans (by omega) s1 (by unfold InTree; omega)) h2
      · exact htrans (Heap.root_max hrefl htrans (by omega) s2 (by unfold InTree; omega)) h1
  | @left k h P hns hrl d ih =>
    have e0 := leo_succ_succ k
    have p0 := leo_pos k
    have p1 := leo_pos (k + 1)
    obtain ⟨s1, s2⟩ := hsub
    have hmem := (Descent.left hns hrl d).mem hfit
    have hnot : h ∉ (h - 1 - leo k) :: P := fun hm => by have := hmem h hm; omega
    obtain ⟨i1, i2, i3, i4, i5⟩ := ih (by omega) (Heap.of_sub s2)
    rw [rotF_cons_notin x f h _ P hnot]
    generalize rotF f x ((h - 1 - leo k) :: P) = g at i1 i2 i3 i4 i5
    have hf : ∀ j, upd g h (f (h - 1 - leo k)) j = if j = h then f (h - 1 - leo k) else g j := fun j => rfl
    have hfne : ∀ j, j ≠ h → upd g h (f (h - 1 - leo k)) j = g j := fun j hj => by rw [hf, if_neg hj]
    have hfh : upd g h (f (h - 1 - leo k)) h = f (h - 1 - leo k) := by rw [hf, if_pos rfl]
    have hxl : le x (f (h - 1 - leo k)) := by
      rcases htot x (f (h - 1 - leo k)) with h' | h'
      · exact h'
      · exact absurd ⟨h', htrans hrl h'⟩ hns
    refine ⟨⟨?_, ?_, ?_, ?_⟩, ?_, ?_, ?_, ?_⟩
    · rw [hfne _ (by omega), hfh, i2 _ (by unfold InTree; omega)]; exact hrl
    · rw [hfne _ (by omega), hfh]
      rcases i3 (h - 1 - leo k) (by unfold InTree; omega) with e | ⟨j', hj', _, e⟩
      · rw [e]; exact hxl
      · rw [e]; exact Heap.root_max hrefl htrans (by omega) s2 hj'
    · refine Heap.congr_tree (by omega) (fun j hj => ?_) s1
      unfold InTree at hj
      rw [hfne _ (by omega), i2 _ (by unfold InTree; omega)]
    · exact Heap.congr_le (fun j hj => hfne j (by omega)) i1
    · intro j hj
      unfold InTree at hj
      rw [hfne _ (by omega), i2 _ (by unfold InTree; omega)]
    · intro j hj
      unfold InTree at hj
      by_cases hjh : j = h
      · right; exact ⟨h - 1 - leo k, by unfold InTree; omega, by omega, by rw [hjh, hfh]⟩
      · rw [hfne j hjh]
        by_cases hjL : j ≤ h - 1 - leo k
        · rcases i3 j (by unfold InTree; omega) with e | ⟨j', hj', _, e⟩
          · left; exact e
          · right; unfold InTree at hj'; exact ⟨j', by unfold InTree; omega, by omega, e⟩
        · right; exact ⟨j, by unfold InTree; omega, hjh, i2 j (by unfold InTree; omega)⟩
    · rw [hfh]; exact hxl
    · intro j hj hne
      rw [hfh]
      unfold InTree at hj
      by_cases hjR : h - 1 - leo k < j
      · exact htrans (Heap.root_max hrefl htrans (by omega) s1 (by unfold InTree; omega)) hrl
      · exact Heap.root_max hrefl htrans (by omega) s2 (by unfold InTree; omega)
  | @right k h P hns hrl d ih =>
    have e0 := leo_succ_succ k
    have p0 := leo_pos k
    have p1 := leo_pos (k + 1)
    obtain ⟨s1, s2⟩ := hsub
    have hmem := (Descent.right hns hrl d).mem hfit
    have hnot : h ∉ (h - 1) :: P := fun hm => by have := hmem h hm; omega
    obtain ⟨i1, i2, i3, i4, i5⟩ := ih (by omega) (Heap.of_sub s1)
    rw [rotF_cons_notin x f h _ P hnot]
    generalize rotF f x ((h - 1) :: P) = g at i1 i2 i3 i4 i5
    have hf : ∀ j, upd g h (f (h - 1)) j = if j = h then f (h - 1) else g j := fun j => rfl
    have hfne : ∀ j, j ≠ h → upd g h (f (h - 1)) j = g j := fun j hj => by rw [hf, if_neg hj]
    have hfh : upd g h (f (h - 1)) h = f (h - 1) := by rw [hf, if_pos rfl]
    have hlr : le (f (h - 1 - leo k)) (f (h - 1)) := (htot _ _).resolve_right hrl
    have hxr : le x (f (h - 1)) := by
      rcases htot x (f (h - 1)) with h' | h'
      · exact h'
      · exact absurd ⟨htrans hlr h', h'⟩ hns
    refine ⟨⟨?_, ?_, ?_, ?_⟩, ?_, ?_, ?_, ?_⟩
    · rw [hfne _ (by omega), hfh]
      rcases i3 (h - 1) (by unfold InTree; omega) with e | ⟨j', hj', _, e⟩
      · rw [e]; exact hxr
      · rw [e]; exact Heap.root_max hrefl htrans (by omega) s1 hj'
    · rw [hfne _ (by omega), hfh, i2 _ (by unfold InTree; omega)]; exact hlr
    · exact Heap.congr_le (fun j hj => hfne j (by omega)) i1
    · refine Heap.congr_le (fun j hj => ?_) s2
      rw [hfne _ (by omega), i2 _ (by unfold InTree; omega)]
    · intro j hj
      unfold InTree at hj
      rw [hfne _ (by omega), i2 _ (by unfold InTree; omega)]
    · intro j hj
      unfold InTree at hj
      by_cases hjh : j = h
      · right; exact ⟨h - 1, by unfold InTree; omega, by omega, by rw [hjh, hfh]⟩
      · rw [hfne j hjh]
        by_cases hjL : j ≤ h - 1 - leo k
        · right; exact ⟨j, by unfold InTree; omega, hjh, i2 j (by unfold InTree; omega)⟩
        · rcases i3 j (by unfold InTree; omega) with e | ⟨j', hj', _, e⟩
          · left; exact e
          · right; unfold InTree at hj'; exact ⟨j', by unfold InTree; omega, by omega, e⟩
    · rw [hfh]; exact hxr
    · intro j hj hne
      rw [hfh]
      unfold InTree at hj
      by_cases hjR : h - 1 - leo k < j
      · exact Heap.root_max hrefl htrans (by omega) s1 (by unfold InTree; omega)
      · exact htrans (Heap.root_max hrefl htrans (by omega) s2 (by unfold InTree; omega)) hlr


theorem g_congr [Inhabited α] {s s' : St α} (h : s'.a = s.a) : s'.g = s.g := by
  unfold St.g; rw [h]

/-- the loop of `sift` leaves the array alone and follows a valid descent path from `(pshift, head)` -/
theorem siftLoop_descent [Inhabited α] (e : Env α) {le : α → α → Prop} (hc : Consistent e.cmp le) (n ar0 : Nat) (h0 : ar0 < n) :
    ∀ (room : Nat) (s : St α) (head pshift : Nat) (acc : List Nat),
    s.a.size = n → head < n → leo pshift ≤ head + 1 → LpOk e.lp pshift → pshift ≤ room + 1 →
    Tot (siftLoop e room s ar0 head pshift acc)
      (fun r => r.1.a = s.a ∧ ∃ P, Descent le s.g (s.g ar0) pshift head P ∧ r.2 = P.reverse ++ acc) := by
  intro room
  induction room with
  | zero =>
    intro s head pshift acc hs hh hl hlp hr
    unfold siftLoop
    have : pshift ≤ 1 := by omega
    simp only [this, if_true]
    exact Tot.ok ⟨rfl, [], Descent.leaf this, rfl⟩
  | succ room ih =>
    intro s head pshift acc hs hh hl hlp hr
    unfold siftLoop
    by_cases hp : pshift ≤ 1
    · simp only [hp, if_true]
      exact Tot.ok ⟨rfl, [], Descent.leaf hp, rfl⟩
    · simp only [hp, if_false]
      obtain ⟨k, rfl⟩ : ∃ k, pshift = k + 2 := ⟨pshift - 2, by omega⟩
      have hleo : leo (k + 2) = leo k + leo (k + 1) + 1 := by simp [leo]
      have p0 := leo_pos k
      have p1 := leo_pos (k + 1)
      refine Tot.bind _ (sub_tot (by omega)) (fun rt hrt => ?_)
      refine Tot.bind _ (lpAt_tot hlp (by omega : k + 2 - 2 ≤ k + 2)) (fun l hl2 => ?_)
      have hl2' : l = leo k := by simpa using hl2
      subst hrt; subst hl2'
      refine Tot.bind _ (sub_tot (by omega)) (fun lf hlf => ?_)
      subst hlf
      have hlfn : head - 1 - leo k < s.a.size := by omega
      have hrtn : head - 1 < s.a.size := by omega
      have h0' : ar0 < s.a.size := by omega
      refine Tot.bind _ (cmpAt_val e s h0' hlfn) (fun ⟨c1, s1⟩ h1 => ?_)
      obtain ⟨h1a, h1c⟩ := h1
      have h1' : s1.a = s.a := h1a
      have hc1 : c1 ≥ 0 ↔ le (s.g (head - 1 - leo k)) (s.g ar0) := by
        have : c1 = _ := h1c
        rw [this]; exact hc.nonneg _ _ _ _ _
      refine Tot.bind (fun r => r.2.a = s.a ∧ (r.1 = true ↔ le (s.g (head - 1 - leo k)) (s.g ar0) ∧ le (s.g (head - 1)) (s.g ar0)))
        ?_ (fun ⟨stop, s2⟩ h2 => ?_)
      · refine Tot.ite (fun hge => ?_) (fun hlt => Tot.pure ⟨h1', ?_⟩)
        · refine Tot.bind _ (cmpAt_val e s1 (by rw [h1']; exact h0') (by rw [h1']; exact hrtn)) (fun ⟨c2, s'⟩ h' => ?_)
          obtain ⟨h'a, h'c⟩ := h'
          refine Tot.pure ⟨(show s'.a = s1.a from h'a).trans h1', ?_⟩
          have : c2 = _ := h'c
          rw [g_congr h1'] at this
          have hc2 : c2 ≥ 0 ↔ le (s.g (head - 1)) (s.g ar0) := by rw [this]; exact hc.nonneg _ _ _ _ _
          simp only [decide_eq_true_eq]
          rw [hc2]
          exact ⟨fun h => ⟨hc1.mp hge, h⟩, fun h => h.2⟩
        · constructor
          · intro h; cases h
          · intro h; exact absurd (hc1.mpr h.1) hlt
      · obtain ⟨h2a, h2s⟩ := h2
        have h2' : s2.a = s.a := h2a
        have h2s' : stop = true ↔ _ := h2s
        refine Tot.ite (fun hst => Tot.ok ⟨h2', [], Descent.stop (h2s'.mp hst).1 (h2s'.mp hst).2, rfl⟩) (fun hst => ?_)
        have hns := fun h => hst (h2s'.mpr h)
        refine Tot.bind _ (cmpAt_val e s2 (by rw [h2']; exact hlfn) (by rw [h2']; exact hrtn)) (fun ⟨c3, s3⟩ h3 => ?_)
        obtain ⟨h3a, h3c⟩ := h3
        have h3' : s3.a = s.a := (show s3.a = s2.a from h3a).trans h2'
        have hc3 : c3 ≥ 0 ↔ le (s.g (head - 1)) (s.g (head - 1 - leo k)) := by
          have : c3 = _ := h3c
          rw [g_congr h2'] at this
          rw [this]; exact hc.nonneg _ _ _ _ _
        have hg3 := g_congr h3'
        refine Tot.ite (fun hge => ?_) (fun hlt => ?_)
        · obtain ⟨r, hr1, q1, P, q2, q3⟩ := ih s3 (head - 1 - leo k) (k + 2 - 1) ((head - 1 - leo k) :: acc) (by rw [h3', hs]) (by omega)
            (by have : k + 2 - 1 = k + 1 := by omega
                rw [this]; omega)
            (fun i hi => hlp i (by omega)) (by omega)
          refine ⟨r, hr1, q1.trans h3', (head - 1 - leo k) :: P, ?_, by rw [q3]; simp⟩
          rw [hg3] at q2
          exact Descent.left hns (hc3.mp hge) q2
        · obtain ⟨r, hr1, q1, P, q2, q3⟩ := ih s3 (head - 1) (k + 2 - 2) ((head - 1) :: acc) (by rw [h3', hs]) (by omega)
            (by have : k + 2 - 2 = k := by omega
                rw [this]; omega)
            (fun i hi => hlp i (by omega)) (by omega)
          refine ⟨r, hr1, q1.trans h3', (head - 1) :: P, ?_, by rw [q3]; simp⟩
          rw [hg3] at q2
          exact Descent.right hns (fun h => hlt (hc3.mpr h)) q2

theorem rot_eq_rotF (f : Nat → α) (h : Nat) (P : List Nat) : rot f (h :: P) = rotF f (f h) (h :: P) := by
  match P with
  | [] =>
    funext i
    show f i = if i = h then f h else f i
    split
    · subst_vars; rfl
    · rfl
  | _ :: _ => rfl

end Sift
open Cyc Sift

/-- `sift` restores the heap order of one Leonardo tree, given that both subtrees are heap-ordered -/
theorem sift_spec [Inhabited α] (e : Env α) {le : α → α → Prop} (hc : Consistent e.cmp le) {n K : Nat} (hlp : LpOk e.lp K)
    (hK : K ≤ 95) (s : St α) (head pshift : Nat) (hs : s.a.size = n) (hh : head < n) (hfit : leo pshift ≤ head + 1)
    (hpK : pshift ≤ K) (hsub : SubHeaps le s.g pshift head) :
    Tot (sift e s head pshift) (fun r => r.a.size = n ∧ Heap le r.g pshift head ∧
      (∀ j, ¬ InTree pshift head j → r.g j = s.g j) ∧
      (∀ j, InTree pshift head j → ∃ j', InTree pshift head j' ∧ r.g j = s.g j') ∧
      (∀ y j, InTree pshift head j → le y (s.g j) → le y (r.g head))) := by
  unfold sift
  refine Tot.bind _ (siftLoop_descent e hc n head hh 112 s head pshift [head] hs hh hfit (fun i hi => hlp i (by omega)) (by omega))
    (fun ⟨s1, acc⟩ h1 => ?_)
  obtain ⟨q1, P, d, q3⟩ := h1
  have q1' : s1.a = s.a := q1
  have q3' : acc = P.reverse ++ [head] := q3
  have hrev : acc.reverse = head :: P := by rw [q3']; simp
  have hmem := d.mem hfit
  have hlen := d.length
  have hself : InTree pshift head head := by have := leo_pos pshift; unfold InTree; omega
  show Tot (cycle s1 acc.reverse) _
  rw [hrev]
  obtain ⟨r, hr, hsz, hg⟩ := cycle_fn s1 (head :: P) (by
      intro y hy
      rw [q1', hs]
      rcases List.mem_cons.mp hy with rfl | hy
      · exact hh
      · have := hmem y hy; omega) (by simp only [List.length_cons]; omega)
  rw [g_congr q1', rot_eq_rotF] at hg
  obtain ⟨i1, i2, i3, i4, i5⟩ := d.spec hc.total hc.trans hfit hsub
  rw [← hg] at i1 i2 i3 i4 i5
  refine ⟨r, hr, by rw [hsz, q1', hs], i1, i2, ?_, ?_⟩
  · intro j hj
    rcases i3 j hj with e | ⟨j', hj', _, e⟩
    · exact ⟨head, hself, e⟩
    · exact ⟨j', hj', e⟩
  · intro y j hj hy
    by_cases hjh : j = head
    · rw [hjh] at hy; exact hc.trans hy i4
    · exact hc.trans hy (i5 j hj hjh)

end SafeC.Sort


import SafeC.Proofs.AccCopyEntry
/-!
# Footprint of `stpcpy_s` / `stpncpy_s` (same bumper loop as the copy family, plus the `srcbos` countdown and the
same-pointer walk)
-/
namespace SafeC
open Gen

variable {R W : Nat → Prop} {d : Nat → Nat}

theorem AccS_stpEok (cfg : Cfg) (isN : Bool) (dest dmax : Nat) (hpos : 0 < dmax) (hw : ∀ a, Cells dest dmax a → W a) :
    AccS R W d (stpEok cfg isN dest dmax) (fun _ _ => True) := by
  unfold stpEok
  split
  · exact AccS.bind (AccS_nullSlack dest dmax hw) (fun _ _ _ => AccS.pure _ trivial)
  · split
    · exact AccS.storeBind (hw _ ⟨Nat.le_refl _, by omega⟩) (AccS.pure _ trivial)
    · exact AccS.pure _ trivial

/-- **the `stp` copy loop**: as `AccS_copyLoop` -/
theorem AccS_stpLoop (cfg : Cfg) (isN onDest : Bool) (bumper oD oM : Nat) (sb : Bos) :
    ∀ (dmax dest src slen : Nat) (d : Nat → Nat), Sep onDest bumper dest src →
    (∀ a, (onDest = false → a < bumper) → Str d src (copyCut isN dmax slen) a → R a) →
    oD ≤ dest → dest + dmax ≤ oD + oM → (∀ a, Cells oD oM a → W a) → W oD →
    AccS R W d (stpLoop cfg isN onDest bumper oD oM sb dmax dest src slen) (fun _ _ => True) := by
  intro dmax
  induction dmax with
  | zero =>
    intro dest src slen d _ _ _ _ hwo hw0
    unfold stpLoop
    exact AccS_errRet cfg oD oM _ _ hwo hw0
  | succ n ih =>
    intro dest src slen d hsep hr hlo hhi hwo hw0
    have hwd : ∀ a, Cells dest (n+1) a → W a := fun a ⟨h1, h2⟩ => hwo a ⟨by omega, by omega⟩
    unfold stpLoop
    by_cases hb : (if onDest = true then dest else src) = bumper
    · rw [if_pos hb]; exact AccS_errRet cfg oD oM _ _ hwo hw0
    rw [if_neg hb]
    by_cases hs : isN = true ∧ slen = 0
    · rw [if_pos hs]
      exact AccS_stpEok cfg isN dest (n+1) (by omega) hwd
    rw [if_neg hs]
    have hcut : 0 < copyCut isN (n+1) slen := by
      unfold copyCut; split
      · rename_i hbd; have : slen ≠ 0 := fun e => hs ⟨hbd, e⟩; omega
      · omega
    have hcut' : copyCut isN n (if isN = true then slen - 1 else slen + 1) + 1 ≤ copyCut isN (n+1) slen := by
      unfold copyCut; split
      · rename_i hbd; have : slen ≠ 0 := fun e => hs ⟨hbd, e⟩; omega
      · omega
    have hside : onDest = false → src < bumper := by
      intro ho
      rcases hsep with ⟨h1, _⟩ | ⟨_, h2, _⟩
      · rw [ho] at h1; cases h1
      · rw [ho] at hb; simp only [Bool.false_eq_true, if_false] at hb; omega
    refine AccS.loadBind (hr src hside (Str.head hcut)) ?_
    refine AccS.storeBind (hwd _ ⟨by omega, by omega⟩) ?_
    split
    · exact AccS_stpEok cfg isN dest (n+1) (by omega) hwd
    · rename_i hc
      have unt : AccS R W (updF d dest (d src)) (do
          (if cfg.fixStpUnterm then handleError cfg oD oM ESUNTERM else handlerS ESUNTERM)
          pure (0, ESUNTERM) : Prog (Nat × Nat)) (fun _ _ => True) := by
        refine AccS.bind (Q := fun _ _ => True) (S := fun _ _ => True) ?_ (fun _ _ _ => AccS.pure _ trivial)
        split
        · exact AccS_handleError cfg oD oM _ hwo hw0
        · exact AccS.handlerSBind _ (AccS.pure _ trivial)
      have hrec : AccS R W (updF d dest (d src)) (stpLoop cfg isN onDest bumper oD oM sb n (dest+1) (src+1)
          (if isN = true then slen - 1 else slen + 1)) (fun _ _ => True) := by
        refine ih (dest+1) (src+1) _ _ ?_ ?_ (by omega) (by omega) hwo hw0
        · rcases hsep with ⟨h1, h2, h3⟩ | ⟨h1, h2, h3⟩
          · refine Or.inl ⟨h1, ?_, by omega⟩
            rw [h1] at hb; simp only [if_true] at hb; omega
          · refine Or.inr ⟨h1, ?_, by omega⟩
            have := hside h1; omega
        · intro a ha hstr
          refine hr a ha (Str.succ' hc hcut' (Str.upd_off ?_ hstr))
          rcases hsep with ⟨h1, h2, h3⟩ | ⟨h1, h2, h3⟩
          · left
            rw [h1] at hb; simp only [if_true] at hb; omega
          · right
            have := ha h1; omega
      dsimp only
      generalize (if isN = true then slen - 1 else slen + 1) = s' at hrec ⊢
      cases sb with
      | none => simp only [Bool.false_eq_true, if_false]; exact hrec
      | some b =>
        dsimp only
        split
        · exact unt
        · exact hrec

/-- `dest == src`: walk to the terminator inside `dmax` -/
theorem AccS_stpSameWalk (cfg : Cfg) (isN : Bool) (oD oM : Nat) :
    ∀ (dmax dest : Nat) (d : Nat → Nat), (∀ a, Cells dest dmax a → R a) →
    oD ≤ dest → dest + dmax ≤ oD + oM → (∀ a, Cells oD oM a → W a) → W oD →
    AccS R W d (stpSameWalk cfg isN oD oM dmax dest) (fun _ _ => True) := by
  intro dmax
  induction dmax with
  | zero =>
    intro dest d _ _ _ hwo hw0
    unfold stpSameWalk
    exact AccS_errRet cfg oD oM _ _ hwo hw0
  | succ n ih =>
    intro dest d hr hlo hhi hwo hw0
    unfold stpSameWalk
    refine AccS.loadBind (hr _ ⟨Nat.le_refl _, by omega⟩) ?_
    split
    · exact AccS_stpEok cfg isN dest (n+1) (by omega) (fun a ⟨h1, h2⟩ => hwo a ⟨by omega, by omega⟩)
    · exact ih (dest+1) d (fun a ⟨h1, h2⟩ => hr a ⟨by omega, by omega⟩) (by omega) (by omega) hwo hw0

theorem AccS_stpBody (cfg : Cfg) (isN : Bool) (dest dmax src slen : Nat) (sb : Bos)
    (hrs : ∀ a, Str d src (copyCut isN dmax slen) a → R a)
    (hrd : ∀ a, Cells dest dmax a → R a) (hw : ∀ a, Cells dest dmax a → W a) (hw0 : W dest) :
    AccS R W d (stpBody cfg isN dest dmax src slen sb) (fun _ _ => True) := by
  unfold stpBody
  split
  · exact AccS_stpSameWalk cfg isN dest dmax dmax dest d hrd (Nat.le_refl _) (Nat.le_refl _) hw hw0
  split
  · exact AccS_stpLoop cfg isN true src dest dmax sb dmax dest src slen d (Or.inl ⟨rfl, by omega, Nat.le_refl _⟩)
      (fun a _ h => hrs a h) (Nat.le_refl _) (Nat.le_refl _) hw hw0
  · exact AccS_stpLoop cfg isN false dest dest dmax sb dmax dest src slen d (Or.inr ⟨rfl, by omega, Nat.le_refl _⟩)
      (fun a _ h => hrs a h) (Nat.le_refl _) (Nat.le_refl _) hw hw0

/-- **stpcpy_s** -/
theorem stpcpy_s_accs (cfg : Cfg) (dest dmax src : Nat) (db sb : Bos)
    (hrs : src ≠ 0 → ∀ a, Str d src dmax a → R a)
    (hrd : dest ≠ 0 → ∀ a, Cells dest dmax a → R a) (hw : dest ≠ 0 → ∀ a, Cells dest dmax a → W a) :
    AccS R W d (stpcpy_s cfg dest dmax src db sb) (fun _ _ => True) := by
  unfold stpcpy_s
  split
  · exact AccS.handlerSBind _ (AccS.pure _ trivial)
  rename_i hd
  split
  · exact AccS.handlerSBind _ (AccS.pure _ trivial)
  rename_i hm
  have h0 : W dest := hw hd _ ⟨Nat.le_refl _, by omega⟩
  refine AccS_chkDmaxClearG _ cfg dest dmax db _ hm (hrd hd) (hw hd) ?_
  split
  · exact AccS_errRet cfg dest dmax _ _ (hw hd) h0
  rename_i hs
  exact AccS_stpBody cfg false dest dmax src 0 sb (hrs hs) (hrd hd) (hw hd) h0

/-- **stpncpy_s** (`hov`: as for `strncpy_s`, the `slen > srcbos` exit works on `destbos` cells) -/
theorem stpncpy_s_accs (cfg : Cfg) (dest dmax src slen : Nat) (db sb : Bos)
    (hob : dest ≠ 0 → ∀ b s, db = some b → sb = some s → s < slen → (∀ a, Cells dest b a → R a) ∧ (∀ a, Cells dest b a → W a))
    (hrs : src ≠ 0 → ∀ a, Str d src (min dmax slen) a → R a)
    (hrd : dest ≠ 0 → ∀ a, Cells dest dmax a → R a) (hw : dest ≠ 0 → ∀ a, Cells dest dmax a → W a) :
    AccS R W d (stpncpy_s cfg dest dmax src slen db sb) (fun _ _ => True) := by
  unfold stpncpy_s
  split
  · exact AccS.handlerSBind _ (AccS.pure _ trivial)
  rename_i hd
  split
  · exact AccS.handlerSBind _ (AccS.pure _ trivial)
  rename_i hm
  have h0 : W dest := hw hd _ ⟨Nat.le_refl _, by omega⟩
  refine AccS_chkDmaxClearG' _ cfg dest dmax db _ hm (hrd hd) (hw hd) (fun hle => ?_)
  split
  · exact AccS_errRet cfg dest dmax _ _ (hw hd) h0
  rename_i hs
  split
  · exact AccS_lenClear cfg dest dmax _ _ hm (hrd hd) (hw hd)
  have body := AccS_stpBody (d := d) cfg true dest dmax src slen sb (hrs hs) (hrd hd) (hw hd) h0
  split
  · rename_i s
    split
    · rename_i hgt
      exact AccS.bind (AccS_bosOverflow cfg dest dmax db hm (fun b hb => hob hd b s hb rfl hgt) hle (hw hd))
        (fun _ _ _ => AccS.pure _ trivial)
    · exact body
  · exact body

end SafeC

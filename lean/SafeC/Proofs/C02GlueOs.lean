import SafeC.Proofs.C02GlueMem
import SafeC.Proofs.AccOs
import SafeC.Props.C12Time
/-!
# Glue for `Props/C02Ext8.lean` (os family): from a `Within2` footprint to a run with only the footprint mapped.
No property statement here.
-/
namespace SafeC.Props.C02
open SafeC Gen

/-- a total run that loads from `R` and stores to `W` only is a guarded run without fault or stray access on every
state that maps `R` readable and `W` writable -/
theorem within2_sound {α} {R W : Nat → Prop} (p : Prog α) (st : St) (h : Within2 R W p st)
    (hr : ∀ a, R a → st.mapped a = true ∧ st.rd a = true) (hw : ∀ a, W a → st.mapped a = true ∧ st.wr a = true) :
    ∃ r st', exec p st = .ok (r, st') ∧ st'.strays = st.strays := by
  induction p generalizing st with
  | ret x => exact ⟨x, st, rfl, rfl⟩
  | load a k ih =>
    obtain ⟨ha, hk⟩ := h
    obtain ⟨hm, hrd⟩ := hr a ha
    have e : st.noteRd a = st := by simp [St.noteRd, hrd]
    obtain ⟨r, st', he, hs⟩ := ih (st.data a) st hk hr hw
    exact ⟨r, st', by simp only [exec, hm, if_true, e]; exact he, hs⟩
  | store a v k ih =>
    obtain ⟨ha, hk⟩ := h
    obtain ⟨hm, hwr⟩ := hw a ha
    have e : st.noteWr a = st := by simp [St.noteWr, hwr]
    obtain ⟨r, st', he, hs⟩ := ih (st.upd a v) hk (by simpa using hr) (by simpa using hw)
    exact ⟨r, st', by simp only [exec, hm, if_true, e]; exact he, by simpa using hs⟩
  | emit e k ih =>
    obtain ⟨r, st', he, hs⟩ := ih { st with events := st.events ++ [e] } h hr hw
    exact ⟨r, st', by simp only [exec]; exact he, hs⟩

theorem runs_of_within2 {α} {R W : Nat → Prop} {p : Prog α} {st : St} (h : Within2 R W p st)
    (hr : ∀ a, R a → Rd st a) (hw : ∀ a, W a → Wr st a) : Runs p st := by
  obtain ⟨r, st', he, hs⟩ := within2_sound p st h hr hw
  exact ⟨r, st', he, hs⟩

end SafeC.Props.C02

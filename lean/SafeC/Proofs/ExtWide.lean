import SafeC.Proofs.ExtCopy
/-!
# The wide twins `wcsncpy_s`, `wcscat_s`, `wcsncat_s`: every call, every placement, every content,
object size unknown or known (`destbos` in bytes), source size unknown or known

Same loops as the narrow family (`copyLoop`, `findEnd`), different entry checks (`chkDmaxClearW`,
`chkDmaxW`) and an inner `wcsnlen_s` on the `slen` exits.  The theorems give, for ALL arguments, that
the call returns and changes nothing outside `dest[0..dmax)`; and for a usable dest (non-null,
`0 < dmax ≤ RSIZE_MAX_WSTR`, `dmax` wide characters inside the known object) the C03 / C04 / C08
facts collected in `StrPost` and `TermAt`.
-/
namespace SafeC
open Gen

/-- what a string producer leaves in a usable dest: a NUL within dmax (C03); dest[0] = 0 after any
failure, and in the null-slack build all dmax cells zero when the failure was met after copying
began or the source is null (C04) -/
structure StrPost (cfg : Cfg) (dest dmax : Nat) (st' : St) (code : Nat) : Prop where
  term : ∃ i, i < dmax ∧ st'.data (dest + i) = 0
  fail_first : code ≠ EOK → st'.data dest = 0
  fail_clear : code = ESNOSPC ∨ code = ESOVRLP ∨ code = ESUNTERM ∨ code = ESNULLP →
    cfg.slack = true → ∀ i, i < dmax → st'.data (dest + i) = 0

/-- a failing exit that leaves `dest[0] = 0` and whose code is not one of the "cleared" four -/
theorem StrPost.of_first {cfg : Cfg} {dest dmax code : Nat} {st' : St} (hpos : 0 < dmax)
    (h0 : st'.data dest = 0)
    (hc : code ≠ ESNOSPC ∧ code ≠ ESOVRLP ∧ code ≠ ESUNTERM ∧ code ≠ ESNULLP) :
    StrPost cfg dest dmax st' code :=
  ⟨⟨0, hpos, by simpa using h0⟩, fun _ => h0, fun h => by
    rcases h with h | h | h | h
    · exact absurd h hc.1
    · exact absurd h hc.2.1
    · exact absurd h hc.2.2.1
    · exact absurd h hc.2.2.2⟩

/-- a failing exit that cleared dest (all cells with null-slack, the first one without) -/
theorem StrPost.of_clear {cfg : Cfg} {dest dmax code : Nat} {st' : St} (hpos : 0 < dmax)
    (h0 : st'.data dest = 0) (hcl : cfg.slack = true → ∀ i, i < dmax → st'.data (dest + i) = 0) :
    StrPost cfg dest dmax st' code :=
  ⟨⟨0, hpos, by simpa using h0⟩, fun _ => h0, fun _ => hcl⟩

/-- `handle_error` on the whole extent -/
theorem herr_clear (cfg : Cfg) (dest dmax code : Nat) (st : St) (hrw : RW st dest dmax) (hpos : 0 < dmax) :
    ∃ st', exec (handleError cfg dest dmax code) st = .ok ((), st') ∧ FramePost dest dmax st st' ∧
      StrPost cfg dest dmax st' code := by
  obtain ⟨st', he, hm, hr, hw, hst, _, h0, hsl, hns⟩ := handleError_ok cfg dest dmax code st hrw hpos
  refine ⟨st', he, ⟨hm, hr, hw, hst, ?_⟩, StrPost.of_clear hpos h0 ?_⟩
  · intro a ha
    cases hcs : cfg.slack with
    | true => rw [hsl hcs a]; simp [ha]
    | false => exact hns hcs a (by intro h; subst h; exact ha ⟨Nat.le_refl _, by omega⟩)
  · intro hcs i hi
    rw [hsl hcs (dest+i)]
    have : dest ≤ dest + i ∧ dest + i < dest + dmax := by omega
    simp [this]

/-- `handle_error` with any clear length `len ≤ ext` (possibly 0): writes inside the extent only -/
theorem handleError_frame (cfg : Cfg) (dest len ext code : Nat) (st : St) (hw : RW st dest ext)
    (hpos : 0 < ext) (hle : len ≤ ext) :
    ∃ st', exec (handleError cfg dest len code) st = .ok ((), st') ∧ FramePost dest ext st st' ∧
      (0 < len ∨ cfg.slack = false ∨ st.data dest = 0 → st'.data dest = 0) := by
  by_cases hl : 0 < len
  · have hw' : RW st dest len := fun i hi => hw i (by omega)
    obtain ⟨st', he, hm, hr, hwr, hst, _, hd0, hsl, hns⟩ := handleError_ok cfg dest len code st hw' hl
    refine ⟨st', he, ⟨hm, hr, hwr, hst, ?_⟩, fun _ => hd0⟩
    intro a ha
    cases hcs : cfg.slack with
    | true =>
      rw [hsl hcs a]
      have : ¬ (dest ≤ a ∧ a < dest + len) := by omega
      simp [this]
    | false => exact hns hcs a (by intro h; subst h; exact ha ⟨Nat.le_refl _, by omega⟩)
  · have hl0 : len = 0 := by omega
    subst hl0
    have hh := hw 0 hpos
    simp only [Nat.add_zero] at hh
    unfold handleError handlerS
    cases hcs : cfg.slack with
    | true =>
      refine ⟨{ st with events := st.events ++ [.handler .str code] }, by simp [memsetP, exec_bind],
        ⟨rfl, rfl, rfl, rfl, fun _ _ => rfl⟩, ?_⟩
      intro h
      rcases h with h | h | h
      · omega
      · cases h
      · exact h
    | false =>
      refine ⟨{ st.upd dest 0 with events := st.events ++ [.handler .str code] }, ?_,
        ⟨rfl, rfl, rfl, rfl, ?_⟩, fun _ => by simp [St.upd]⟩
      · simp [exec_bind, exec_store_ok _ _ _ hh.1 hh.2.1]
      · intro a ha
        have : a ≠ dest := by intro h; subst h; exact ha ⟨Nat.le_refl _, by omega⟩
        simp [St.upd, this]

/-! ## `wcsnlen_s` as called inside the library -/

theorem wcsnlenLoop_ok (smax str count : Nat) (st : St)
    (hall : ∀ a, st.mapped a = true ∧ st.rd a = true) :
    ∃ len, exec (wcsnlenLoop smax str count) st = .ok (count + len, st) ∧ len ≤ smax ∧
      (len < smax → st.data (str + len) = 0) := by
  induction smax generalizing str count with
  | zero => exact ⟨0, by simp [wcsnlenLoop], Nat.le_refl _, fun h => absurd h (Nat.lt_irrefl 0)⟩
  | succ n ih =>
    have hm := hall str
    unfold wcsnlenLoop
    simp only [exec_bind, exec_load_ok _ _ hm.1 hm.2]
    by_cases hc : st.data str = 0
    · simp only [hc, if_true]
      exact ⟨0, by simp, by omega, fun _ => by simpa using hc⟩
    · simp only [hc, if_false]
      obtain ⟨len, he, hle, hz⟩ := ih (str+1) (count+1)
      refine ⟨len+1, ?_, by omega, ?_⟩
      · have e : count + (len+1) = count + 1 + len := by omega
        rw [e]; exact he
      · intro h
        have := hz (by omega)
        have e : str + 1 + len = str + (len+1) := by omega
        rwa [e] at this

/-- `wcsnlen_s`, any arguments: returns a length `≤ smax`; memory, permissions, strays unchanged
(possibly one handler event); exact when the bound passes its own checks -/
theorem wcsnlen_s_any (str smax : Nat) (st : St) (hall : ∀ a, st.mapped a = true ∧ st.rd a = true) :
    ∃ len st', exec (wcsnlen_s str smax) st = .ok (len, st') ∧
      st'.data = st.data ∧ st'.mapped = st.mapped ∧ st'.rd = st.rd ∧ st'.wr = st.wr ∧ st'.strays = st.strays ∧
      len ≤ smax ∧
      (str ≠ 0 → 0 < smax → smax ≤ RSIZE_MAX_WSTR → st' = st ∧ (len < smax → st.data (str + len) = 0)) := by
  unfold wcsnlen_s
  by_cases hs : str = 0
  · rw [if_pos hs]
    exact ⟨0, st, rfl, rfl, rfl, rfl, rfl, rfl, Nat.zero_le _, fun h => absurd hs h⟩
  rw [if_neg hs]
  by_cases hz : smax = 0
  · rw [if_pos hz]
    exact ⟨0, { st with events := st.events ++ [.handler .str ESZEROL] }, by simp [handlerS, exec_bind],
      rfl, rfl, rfl, rfl, rfl, Nat.zero_le _, fun _ h => by omega⟩
  rw [if_neg hz]
  by_cases hx : smax > RSIZE_MAX_WSTR
  · rw [if_pos hx]
    exact ⟨0, { st with events := st.events ++ [.handler .str ESLEMAX] }, by simp [handlerS, exec_bind],
      rfl, rfl, rfl, rfl, rfl, Nat.zero_le _, fun _ _ h => by omega⟩
  rw [if_neg hx]
  obtain ⟨len, he, hle, hz'⟩ := wcsnlenLoop_ok smax str 0 st hall
  exact ⟨len, st, by simpa using he, rfl, rfl, rfl, rfl, rfl, hle, fun _ _ _ => ⟨rfl, hz'⟩⟩

/-- the `slen` exits of the wide family: `handle_werror(dest, wcsnlen_s(dest, dmax), code)` -/
theorem wlenExit_ok (cfg : Cfg) (dest dmax code : Nat) (st : St)
    (hall : ∀ a, st.mapped a = true ∧ st.rd a = true) (hrw : RW st dest dmax) (hpos : 0 < dmax) :
    ∃ st', exec (do let l ← wcsnlen_s dest dmax
                    handleError cfg dest l code
                    pure code : Prog Nat) st = .ok (code, st') ∧
      FramePost dest dmax st st' ∧
      (dest ≠ 0 → dmax ≤ RSIZE_MAX_WSTR → st'.data dest = 0) := by
  obtain ⟨len, s1, he1, hd, hm, hr, hw, hst, hle, hex⟩ := wcsnlen_s_any dest dmax st hall
  have hrw1 : RW s1 dest dmax := by
    intro i hi; rw [hm, hw, hr]; exact hrw i hi
  obtain ⟨st', he2, hf, h0⟩ := handleError_frame cfg dest len dmax code s1 hrw1 hpos hle
  refine ⟨st', by simp [exec_bind, he1, he2], ?_, ?_⟩
  · exact ⟨hf.mapped.trans hm, hf.rd.trans hr, hf.wr.trans hw, hf.strays.trans hst,
      fun a ha => (hf.frame a ha).trans (by rw [hd])⟩
  · intro hdz hmx
    obtain ⟨hs1, hz⟩ := hex hdz hpos hmx
    apply h0
    by_cases hl : 0 < len
    · exact Or.inl hl
    · have : len = 0 := by omega
      subst this
      right; right
      rw [hd]; simpa using hz hpos

/-! ## `findEnd` with the facts about what it walked over -/

theorem findEnd_full (cfg : Cfg) (chk : Bool) (B oD oM : Nat) (hoM : 0 < oM)
    (k d : Nat) (st : St)
    (hall : ∀ a, st.mapped a = true ∧ st.rd a = true)
    (hrw : RW st oD oM) (hk : 0 < k) (hinv : oD ≤ d ∧ d + k = oD + oM) :
    (∃ code st', exec (findEnd cfg chk B oD oM k d) st = .ok (.inl code, st') ∧
        FramePost oD oM st st' ∧ StrPost cfg oD oM st' code ∧ code ≠ EOK) ∨
    (∃ d' k', exec (findEnd cfg chk B oD oM k d) st = .ok (.inr (d', k'), st) ∧
        d ≤ d' ∧ d' + k' = oD + oM ∧ 0 < k' ∧ (∀ a, d ≤ a → a < d' → st.data a ≠ 0) ∧ st.data d' = 0) := by
  induction k generalizing d with
  | zero => exact absurd hk (Nat.lt_irrefl 0)
  | succ k ih =>
    have hm := hall d
    unfold findEnd
    simp only [exec_bind, exec_load_ok _ _ hm.1 hm.2]
    by_cases hc : st.data d = 0
    · simp only [hc, if_true]
      exact Or.inr ⟨d, k+1, rfl, Nat.le_refl _, hinv.2, by omega, fun a h1 h2 => by omega, hc⟩
    · simp only [hc, if_false]
      by_cases hb : chk = true ∧ d = B
      · rw [if_pos hb]
        obtain ⟨st', he, hf, hp⟩ := herr_clear cfg oD oM ESOVRLP st hrw hoM
        exact Or.inl ⟨ESOVRLP, st', by simp [exec_bind, he], hf, hp, ESOVRLP_ne_EOK⟩
      · rw [if_neg hb]
        by_cases hk0 : k = 0
        · rw [if_pos hk0]
          obtain ⟨st', he, hf, hp⟩ := herr_clear cfg oD oM ESUNTERM st hrw hoM
          exact Or.inl ⟨ESUNTERM, st', by simp [exec_bind, he], hf, hp, ESUNTERM_ne_EOK⟩
        · rw [if_neg hk0]
          rcases ih (d+1) (by omega) (by omega) with h | ⟨d', k', he, h1, h2, h3, h4, h5⟩
          · exact Or.inl h
          · refine Or.inr ⟨d', k', he, by omega, h2, h3, ?_, h5⟩
            intro a ha1 ha2
            by_cases had : a = d
            · subst had; exact hc
            · exact h4 a (by omega) ha2

/-! ## the copy loop and the concatenation body, repackaged -/

/-- the copy loop started at the beginning of dest -/
theorem copy_body (cfg : Cfg) (onDest bounded : Bool) (B dest dmax src slen : Nat) (st : St)
    (hall : ∀ a, st.mapped a = true ∧ st.rd a = true) (hrw : RW st dest dmax) (hpos : 0 < dmax) :
    ∃ code st', exec (copyLoop cfg onDest bounded B dest dmax dmax dest src slen) st = .ok (code, st') ∧
      FramePost dest dmax st st' ∧ StrPost cfg dest dmax st' code ∧
      (code = EOK → ∃ t, TermAt cfg dest dmax t st') := by
  obtain ⟨code, st', he, hp, hs⟩ :=
    copyLoop_full cfg onDest bounded B dest dmax hpos dmax dest src slen st hall hrw ⟨Nat.le_refl _, rfl⟩
  refine ⟨code, st', he, FramePost.of_copy hp, ⟨(copyPost_usable hpos hp).2.1, hp.fail_first, ?_⟩, ?_⟩
  · intro h
    apply hp.fail_clear
    rcases h with h | h | h | h <;> subst h <;> decide
  · intro hc
    obtain ⟨t, h1, h2, _, h4, h5, h6⟩ := hs hc
    refine ⟨t - dest, by omega, ?_, ?_, ?_⟩
    · intro i hi; exact h4 (dest+i) (by omega) (by omega)
    · have e : dest + (t - dest) = t := by omega
      rw [e]; exact h5
    · intro hsl i hi1 hi2; exact h6 hsl (dest+i) (by omega) (by omega)

/-- `findEnd` followed by the copy loop: the common body of the concatenations -/
theorem cat_body (cfg : Cfg) (chk onDest bounded : Bool) (B dest dmax src slen : Nat) (st : St)
    (hall : ∀ a, st.mapped a = true ∧ st.rd a = true)
    (hrw : RW st dest dmax) (hpos : 0 < dmax)
    (f : Nat ⊕ (Nat × Nat) → Prog Nat) (hf1 : ∀ c, f (.inl c) = pure c)
    (hf2 : ∀ d m, f (.inr (d, m)) = copyLoop cfg onDest bounded B dest dmax m d src slen) :
    ∃ code st', exec (findEnd cfg chk B dest dmax dmax dest >>= f) st = .ok (code, st') ∧
      FramePost dest dmax st st' ∧ StrPost cfg dest dmax st' code ∧
      (code = EOK → ∃ t, TermAt cfg dest dmax t st') := by
  rcases findEnd_full cfg chk B dest dmax hpos dmax dest st hall hrw hpos ⟨Nat.le_refl _, rfl⟩ with
    ⟨code, st', he, hfr, hsp, hne⟩ | ⟨d', k', he, h1, h2, h3, h4, h5⟩
  · refine ⟨code, st', ?_, hfr, hsp, fun h => absurd h hne⟩
    rw [exec_bind, he]
    show exec (f (.inl code)) st' = _
    rw [hf1]; rfl
  · obtain ⟨code, st', he2, hp, hs⟩ :=
      copyLoop_full cfg onDest bounded B dest dmax hpos k' d' src slen st hall hrw ⟨h1, h2⟩
    refine ⟨code, st', ?_, FramePost.of_copy hp, ⟨(copyPost_usable hpos hp).2.1, hp.fail_first, ?_⟩, ?_⟩
    · rw [exec_bind, he]
      show exec (f (.inr (d', k'))) st = _
      rw [hf2]; exact he2
    · intro h
      apply hp.fail_clear
      rcases h with h | h | h | h <;> subst h <;> decide
    · intro hc
      obtain ⟨t, g1, g2, g3, g4, g5, g6⟩ := hs hc
      refine ⟨t - dest, by omega, ?_, ?_, ?_⟩
      · intro i hi
        by_cases hlt : dest + i < d'
        · rw [g3 _ hlt]; exact h4 _ (by omega) hlt
        · exact g4 (dest+i) (by omega) (by omega)
      · have e : dest + (t - dest) = t := by omega
        rw [e]; exact g5
      · intro hsl i hi1 hi2; exact g6 hsl (dest+i) (by omega) (by omega)

/-! ## entry checks -/

/-- usable dest/dmax for a wide entry point: non-null, `0 < dmax ≤ RSIZE_MAX_WSTR`, and `dmax` wide
characters inside the object when its size (in bytes) is known -/
def UsableW (dest dmax : Nat) (destbos : Bos) : Prop :=
  dest ≠ 0 ∧ 0 < dmax ∧ dmax ≤ RSIZE_MAX_WSTR ∧ ∀ b, destbos = some b → dmax * SIZEOF_WCHAR_T ≤ b

/-- outcome of a whole call: returns, frame for all arguments, `Q` for a usable dest -/
def Outcome (dest dmax : Nat) (st : St) (p : Prog Nat) (Q : Nat → St → Prop) : Prop :=
  ∃ code st', exec p st = .ok (code, st') ∧ FramePost dest dmax st st' ∧ Q code st'

theorem failS_outcome (dest dmax code : Nat) (st : St) (Q : Nat → St → Prop)
    (hq : ∀ st', Q code st') : Outcome dest dmax st (failS code) Q :=
  ⟨code, { st with events := st.events ++ [.handler .str code] }, by simp [failS, handlerS, exec_bind],
    ⟨rfl, rfl, rfl, rfl, fun _ _ => rfl⟩, hq _⟩

/-- `CHK_DEST_NULL; CHK_DMAX_ZERO; CHK_DMAX_MAX / CHK_DESTW_OVR_CLEAR` in front of a body -/
theorem entryClearW (cfg : Cfg) (dest dmax : Nat) (destbos : Bos) (st : St) (k : Prog Nat)
    (Q : Nat → St → Prop) (hrw : dest ≠ 0 → RW st dest dmax)
    (hk : dest ≠ 0 → 0 < dmax → Outcome dest dmax st k (fun c s => dmax ≤ RSIZE_MAX_WSTR → Q c s)) :
    Outcome dest dmax st
      (if dest = 0 then failS ESNULLP else if dmax = 0 then failS ESZEROL
       else chkDmaxClearW cfg dest dmax destbos k)
      (fun c s => UsableW dest dmax destbos → Q c s) := by
  by_cases hd : dest = 0
  · rw [if_pos hd]; exact failS_outcome _ _ _ _ _ (fun _ h => absurd hd h.1)
  rw [if_neg hd]
  by_cases hz : dmax = 0
  · rw [if_pos hz]; exact failS_outcome _ _ _ _ _ (fun _ h => by have := h.2.1; omega)
  rw [if_neg hz]
  have hpos : 0 < dmax := Nat.pos_of_ne_zero hz
  obtain ⟨code, st', he, hf, hq⟩ := hk hd hpos
  unfold chkDmaxClearW
  cases destbos with
  | none =>
    simp only
    by_cases hx : dmax > RSIZE_MAX_WSTR
    · rw [if_pos hx]; exact failS_outcome _ _ _ _ _ (fun _ h => by have := h.2.2.1; omega)
    · rw [if_neg hx]; exact ⟨code, st', he, hf, fun h => hq h.2.2.1⟩
  | some b =>
    simp only
    have hw : SIZEOF_WCHAR_T = 4 := rfl
    by_cases hb : dmax * SIZEOF_WCHAR_T > b
    · rw [if_pos hb]
      have hlen : b / SIZEOF_WCHAR_T ≤ dmax := by rw [hw] at hb ⊢; omega
      have hq' : ∀ c s, UsableW dest dmax (some b) → Q c s := by
        intro c s h; have := h.2.2.2 b rfl; omega
      by_cases hx : dmax > RSIZE_MAX_WSTR
      · rw [if_pos hx]
        obtain ⟨s1, he1, hf1, _⟩ := handleError_frame cfg dest (b / SIZEOF_WCHAR_T) dmax ESLEMAX st (hrw hd) hpos hlen
        exact ⟨ESLEMAX, s1, by simp [exec_bind, he1], hf1, hq' _ _⟩
      · rw [if_neg hx]
        obtain ⟨s1, he1, hf1, _⟩ := handleError_frame cfg dest (b / SIZEOF_WCHAR_T) dmax EOVERFLOW st (hrw hd) hpos hlen
        exact ⟨EOVERFLOW, s1, by simp [exec_bind, he1], hf1, hq' _ _⟩
    · rw [if_neg hb]; exact ⟨code, st', he, hf, fun h => hq h.2.2.1⟩

/-- the non-clearing variant `CHK_DESTW_OVR` of the concatenations -/
theorem entryW (dest dmax : Nat) (destbos : Bos) (st : St) (k : Prog Nat)
    (Q : Nat → St → Prop)
    (hk : dest ≠ 0 → 0 < dmax → Outcome dest dmax st k (fun c s => dmax ≤ RSIZE_MAX_WSTR → Q c s)) :
    Outcome dest dmax st
      (if dest = 0 then failS ESNULLP else if dmax = 0 then failS ESZEROL
       else chkDmaxW dmax destbos k)
      (fun c s => UsableW dest dmax destbos → Q c s) := by
  by_cases hd : dest = 0
  · rw [if_pos hd]; exact failS_outcome _ _ _ _ _ (fun _ h => absurd hd h.1)
  rw [if_neg hd]
  by_cases hz : dmax = 0
  · rw [if_pos hz]; exact failS_outcome _ _ _ _ _ (fun _ h => by have := h.2.1; omega)
  rw [if_neg hz]
  have hpos : 0 < dmax := Nat.pos_of_ne_zero hz
  obtain ⟨code, st', he, hf, hq⟩ := hk hd hpos
  unfold chkDmaxW
  cases destbos with
  | none =>
    simp only
    by_cases hx : dmax > RSIZE_MAX_WSTR
    · rw [if_pos hx]; exact failS_outcome _ _ _ _ _ (fun _ h => by have := h.2.2.1; omega)
    · rw [if_neg hx]; exact ⟨code, st', he, hf, fun h => hq h.2.2.1⟩
  | some b =>
    simp only
    by_cases hb : dmax * SIZEOF_WCHAR_T > b
    · rw [if_pos hb]
      have hq' : ∀ c s, UsableW dest dmax (some b) → Q c s := by
        intro c s h; have := h.2.2.2 b rfl; omega
      by_cases hx : dmax > RSIZE_MAX_WSTR
      · rw [if_pos hx]; exact failS_outcome _ _ _ _ _ (fun s => hq' _ s)
      · rw [if_neg hx]; exact failS_outcome _ _ _ _ _ (fun s => hq' _ s)
    · rw [if_neg hb]; exact ⟨code, st', he, hf, fun h => hq h.2.2.1⟩

/-! ## the three entry points -/

/-- what the wide producers guarantee for a usable dest; `shape` only where the function promises it -/
def WQ (cfg : Cfg) (dest dmax : Nat) (shape : Prop) (code : Nat) (st' : St) : Prop :=
  StrPost cfg dest dmax st' code ∧ (shape → code = EOK → ∃ t, TermAt cfg dest dmax t st')

theorem WQ.of_fail {cfg : Cfg} {dest dmax code : Nat} {shape : Prop} {st' : St}
    (h : StrPost cfg dest dmax st' code) (hne : code ≠ EOK) : WQ cfg dest dmax shape code st' :=
  ⟨h, fun _ hc => absurd hc hne⟩

/-- `cat_body` as an `Outcome` -/
theorem cat_outcome (cfg : Cfg) (chk onDest bounded : Bool) (B dest dmax src slen : Nat) (st : St)
    (hall : ∀ a, st.mapped a = true ∧ st.rd a = true)
    (hrw : RW st dest dmax) (hpos : 0 < dmax)
    (f : Nat ⊕ (Nat × Nat) → Prog Nat) (hf1 : ∀ c, f (.inl c) = pure c)
    (hf2 : ∀ d m, f (.inr (d, m)) = copyLoop cfg onDest bounded B dest dmax m d src slen) :
    Outcome dest dmax st (findEnd cfg chk B dest dmax dmax dest >>= f)
      (fun c s => dmax ≤ RSIZE_MAX_WSTR → WQ cfg dest dmax True c s) := by
  obtain ⟨code, st', he, hf, hp, hsh⟩ :=
    cat_body cfg chk onDest bounded B dest dmax src slen st hall hrw hpos f hf1 hf2
  exact ⟨code, st', he, hf, fun _ => ⟨hp, fun _ => hsh⟩⟩

theorem EOVERFLOW_ne_EOK : EOVERFLOW ≠ EOK := by decide

/-- the shared `slen` exit as an `Outcome` -/
theorem wlenExit_outcome (cfg : Cfg) (dest dmax code : Nat) (shape : Prop) (st : St)
    (hall : ∀ a, st.mapped a = true ∧ st.rd a = true) (hrw : RW st dest dmax) (hd : dest ≠ 0) (hpos : 0 < dmax)
    (hne : code ≠ EOK) (hc : code ≠ ESNOSPC ∧ code ≠ ESOVRLP ∧ code ≠ ESUNTERM ∧ code ≠ ESNULLP) :
    Outcome dest dmax st (do let l ← wcsnlen_s dest dmax
                             handleError cfg dest l code
                             pure code : Prog Nat)
      (fun c s => dmax ≤ RSIZE_MAX_WSTR → WQ cfg dest dmax shape c s) := by
  obtain ⟨st', he, hf, h0⟩ := wlenExit_ok cfg dest dmax code st hall hrw hpos
  exact ⟨code, st', he, hf, fun hmx => WQ.of_fail (StrPost.of_first hpos (h0 hd hmx) hc) hne⟩

/-- the null-source exit as an `Outcome` -/
theorem nullSrc_outcome (cfg : Cfg) (dest dmax : Nat) (shape : Prop) (st : St)
    (hrw : RW st dest dmax) (hpos : 0 < dmax) :
    Outcome dest dmax st (do handleError cfg dest dmax ESNULLP; pure ESNULLP : Prog Nat)
      (fun c s => dmax ≤ RSIZE_MAX_WSTR → WQ cfg dest dmax shape c s) := by
  obtain ⟨st', he, hf, hp⟩ := herr_clear cfg dest dmax ESNULLP st hrw hpos
  exact ⟨ESNULLP, st', by simp [exec_bind, he], hf, fun _ => WQ.of_fail hp ESNULLP_ne_EOK⟩

/-- **wcsncpy_s: every call.**  All arguments, placements, contents, object sizes known or not. -/
theorem wcsncpy_s_ext (cfg : Cfg) (dest dmax src slen : Nat) (destbos srcbos : Bos) (st : St)
    (hall : ∀ a, st.mapped a = true ∧ st.rd a = true) (hrw : dest ≠ 0 → RW st dest dmax) :
    Outcome dest dmax st (wcsncpy_s cfg dest dmax src slen destbos srcbos)
      (fun code st' => UsableW dest dmax destbos → WQ cfg dest dmax (slen ≠ 0) code st') := by
  unfold wcsncpy_s
  by_cases h0 : slen = 0 ∧ dest ≠ 0 ∧ dmax ≠ 0
  · rw [if_pos h0]
    obtain ⟨hs0, hd, hz⟩ := h0
    have hpos : 0 < dmax := Nat.pos_of_ne_zero hz
    have hh := hrw hd 0 hpos
    simp only [Nat.add_zero] at hh
    refine ⟨EOK, st.upd dest 0, by simp [exec_bind, exec_store_ok _ _ _ hh.1 hh.2.1], ?_, ?_⟩
    · exact ⟨rfl, rfl, rfl, rfl, fun a ha => St.upd_data_ne _ _ _ _ (by omega)⟩
    · intro _
      refine ⟨⟨⟨0, hpos, by simp⟩, fun h => absurd rfl h, fun h => ?_⟩, fun h => absurd hs0 h⟩
      rcases h with h | h | h | h <;> exact absurd h (by decide)
  rw [if_neg h0]
  apply entryClearW cfg dest dmax destbos st _ _ hrw
  intro hd hpos
  have hrw' := hrw hd
  by_cases hs : src = 0
  · rw [if_pos hs]; exact nullSrc_outcome cfg dest dmax _ st hrw' hpos
  rw [if_neg hs]
  by_cases hsl : slen > RSIZE_MAX_WSTR
  · rw [if_pos hsl]
    exact wlenExit_outcome cfg dest dmax ESLEMAX _ st hall hrw' hd hpos ESLEMAX_ne_EOK (by decide)
  rw [if_neg hsl]
  have body : ∀ (onDest : Bool) (B : Nat),
      Outcome dest dmax st (copyLoop cfg onDest true B dest dmax dmax dest src slen)
        (fun c s => dmax ≤ RSIZE_MAX_WSTR → WQ cfg dest dmax (slen ≠ 0) c s) := by
    intro onDest B
    obtain ⟨code, st', he, hf, hp, hsh⟩ := copy_body cfg onDest true B dest dmax src slen st hall hrw' hpos
    exact ⟨code, st', he, hf, fun _ => ⟨hp, fun _ => hsh⟩⟩
  have body' : Outcome dest dmax st
      (if dest < src then copyLoop cfg true true src dest dmax dmax dest src slen
       else copyLoop cfg false true dest dest dmax dmax dest src slen)
      (fun c s => dmax ≤ RSIZE_MAX_WSTR → WQ cfg dest dmax (slen ≠ 0) c s) := by
    by_cases hlt : dest < src
    · rw [if_pos hlt]; exact body true src
    · rw [if_neg hlt]; exact body false dest
  cases srcbos with
  | none => exact body'
  | some sb =>
    simp only
    by_cases hb : slen * SIZEOF_WCHAR_T > sb
    · rw [if_pos hb]
      exact wlenExit_outcome cfg dest dmax EOVERFLOW _ st hall hrw' hd hpos EOVERFLOW_ne_EOK (by decide)
    · rw [if_neg hb]; exact body'

/-- **wcscat_s: every call.** -/
theorem wcscat_s_ext (cfg : Cfg) (dest dmax src : Nat) (destbos : Bos) (st : St)
    (hall : ∀ a, st.mapped a = true ∧ st.rd a = true) (hrw : dest ≠ 0 → RW st dest dmax) :
    Outcome dest dmax st (wcscat_s cfg dest dmax src destbos)
      (fun code st' => UsableW dest dmax destbos → WQ cfg dest dmax True code st') := by
  unfold wcscat_s
  apply entryW dest dmax destbos st _ _
  intro hd hpos
  have hrw' := hrw hd
  by_cases hs : src = 0
  · rw [if_pos hs]; exact nullSrc_outcome cfg dest dmax _ st hrw' hpos
  rw [if_neg hs]
  by_cases hlt : dest < src
  · rw [if_pos hlt]
    refine cat_outcome cfg true true false src dest dmax src 0 st hall hrw' hpos _ ?_ ?_
    · intro c; rfl
    · intro d m; rfl
  · rw [if_neg hlt]
    refine cat_outcome cfg false false false dest dest dmax src 0 st hall hrw' hpos _ ?_ ?_
    · intro c; rfl
    · intro d m; rfl

/-- the `slen == 0` branch of `wcsncat_s`: `handle_werror(dest, dmax, …, l < dmax ? EOK : ESZEROL)` -/
theorem wcsncat_slen0_outcome (cfg : Cfg) (dest dmax : Nat) (st : St)
    (hall : ∀ a, st.mapped a = true ∧ st.rd a = true) (hrw : RW st dest dmax) (hpos : 0 < dmax) :
    Outcome dest dmax st (do
        let l ← wcsnlen_s dest dmax
        let error := if l < dmax then EOK else ESZEROL
        handleError cfg dest dmax error
        pure error : Prog Nat)
      (fun c s => dmax ≤ RSIZE_MAX_WSTR → WQ cfg dest dmax True c s) := by
  obtain ⟨len, s1, he1, hd, hm, hr, hw, hst, hle, _⟩ := wcsnlen_s_any dest dmax st hall
  have hrw1 : RW s1 dest dmax := by
    intro i hi; rw [hm, hw, hr]; exact hrw i hi
  obtain ⟨st', he2, hf, hp⟩ := herr_clear cfg dest dmax (if len < dmax then EOK else ESZEROL) s1 hrw1 hpos
  refine ⟨_, st', by simp [exec_bind, he1, he2], ?_, fun _ => ⟨hp, fun _ _ => ⟨0, hpos, fun i hi => by omega, ?_, ?_⟩⟩⟩
  · exact ⟨hf.mapped.trans hm, hf.rd.trans hr, hf.wr.trans hw, hf.strays.trans hst,
      fun a ha => (hf.frame a ha).trans (by rw [hd])⟩
  · obtain ⟨i, hi, h0⟩ := hp.term
    -- dest[0] = 0 on every `handle_error` exit
    obtain ⟨s2, he3, _, _, _, _, _, h00, _, _⟩ := handleError_ok cfg dest dmax (if len < dmax then EOK else ESZEROL) s1 hrw1 hpos
    rw [he2] at he3
    injection he3 with he3
    injection he3 with _ he3
    subst he3
    simpa using h00
  · intro hsl i _ hi
    obtain ⟨s2, he3, _, _, _, _, _, _, hcl, _⟩ := handleError_ok cfg dest dmax (if len < dmax then EOK else ESZEROL) s1 hrw1 hpos
    rw [he2] at he3
    injection he3 with he3
    injection he3 with _ he3
    subst he3
    rw [hcl hsl (dest+i)]
    have : dest ≤ dest + i ∧ dest + i < dest + dmax := by omega
    simp [this]

/-- **wcsncat_s: every call.** -/
theorem wcsncat_s_ext (cfg : Cfg) (dest dmax src slen : Nat) (destbos srcbos : Bos) (st : St)
    (hall : ∀ a, st.mapped a = true ∧ st.rd a = true) (hrw : dest ≠ 0 → RW st dest dmax) :
    Outcome dest dmax st (wcsncat_s cfg dest dmax src slen destbos srcbos)
      (fun code st' => UsableW dest dmax destbos → WQ cfg dest dmax True code st') := by
  unfold wcsncat_s
  by_cases h0 : slen = 0 ∧ dest = 0 ∧ dmax = 0
  · rw [if_pos h0]
    exact ⟨EOK, st, rfl, FramePost.refl _ _ _, fun h => absurd h0.2.1 h.1⟩
  rw [if_neg h0]
  apply entryW dest dmax destbos st _ _
  intro hd hpos
  have hrw' := hrw hd
  by_cases hs : src = 0
  · rw [if_pos hs]; exact nullSrc_outcome cfg dest dmax _ st hrw' hpos
  rw [if_neg hs]
  by_cases hsl : slen > RSIZE_MAX_WSTR
  · rw [if_pos hsl]
    exact wlenExit_outcome cfg dest dmax ESLEMAX _ st hall hrw' hd hpos ESLEMAX_ne_EOK (by decide)
  rw [if_neg hsl]
  have rest : Outcome dest dmax st
      (if slen = 0 then do
          let l ← wcsnlen_s dest dmax
          let error := if l < dmax then EOK else ESZEROL
          handleError cfg dest dmax error
          pure error
        else if dest < src then do
          match ← findEnd cfg true src dest dmax dmax dest with
          | .inl code => pure code
          | .inr (d, m) => copyLoop cfg true true src dest dmax m d src slen
        else do
          match ← findEnd cfg false dest dest dmax dmax dest with
          | .inl code => pure code
          | .inr (d, m) => copyLoop cfg false true dest dest dmax m d src slen : Prog Nat)
      (fun c s => dmax ≤ RSIZE_MAX_WSTR → WQ cfg dest dmax True c s) := by
    by_cases hz : slen = 0
    · rw [if_pos hz]; exact wcsncat_slen0_outcome cfg dest dmax st hall hrw' hpos
    rw [if_neg hz]
    by_cases hlt : dest < src
    · rw [if_pos hlt]
      refine cat_outcome cfg true true true src dest dmax src slen st hall hrw' hpos _ ?_ ?_
      · intro c; rfl
      · intro d m; rfl
    · rw [if_neg hlt]
      refine cat_outcome cfg false false true dest dest dmax src slen st hall hrw' hpos _ ?_ ?_
      · intro c; rfl
      · intro d m; rfl
  cases srcbos with
  | none => exact rest
  | some sb =>
    simp only
    by_cases hb : slen * SIZEOF_WCHAR_T > sb
    · rw [if_pos hb]
      exact wlenExit_outcome cfg dest dmax EOVERFLOW _ st hall hrw' hd hpos EOVERFLOW_ne_EOK (by decide)
    · rw [if_neg hb]; exact rest

end SafeC

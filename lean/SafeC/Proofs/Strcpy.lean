import SafeC.Proofs.CopyLoop
/-!
# `strcpy_s` / `wcscpy_s` entry points: every call, every placement
-/
namespace SafeC
open Gen

/-- outcome summary of an errno-returning string producer on the extent `[dest, dest+ext)` -/
structure SafePost (cfg : Cfg) (dest ext : Nat) (st st' : St) (code : Nat) : Prop where
  mapped : st'.mapped = st.mapped
  rd : st'.rd = st.rd
  wr : st'.wr = st.wr
  strays : st'.strays = st.strays
  frame : ∀ a, ¬ (dest ≤ a ∧ a < dest + ext) → st'.data a = st.data a
  ok_events : code = EOK → st'.events = st.events
  fail_events : code ≠ EOK → st'.events = st.events ++ [.handler .str code]

theorem ESNULLP_ne_EOK : ESNULLP ≠ EOK := by decide
theorem ESZEROL_ne_EOK : ESZEROL ≠ EOK := by decide
theorem ESLEMAX_ne_EOK : ESLEMAX ≠ EOK := by decide

theorem failS_post (cfg : Cfg) (dest ext code : Nat) (st : St) (hne : code ≠ EOK) :
    ∃ st', exec (failS code) st = .ok (code, st') ∧ SafePost cfg dest ext st st' code ∧ st'.data = st.data := by
  refine ⟨{ st with events := st.events ++ [.handler .str code] }, by simp [failS, handlerS, exec_bind], ?_, rfl⟩
  exact ⟨rfl, rfl, rfl, rfl, fun _ _ => rfl, fun h => absurd h hne, fun _ => rfl⟩

/-- **strcpy_s, object size unknown to the library: all arguments, all placements, all contents.**
`dest` (if non-null) really has `dmax` cells; everything is mapped and readable (C01 setting).
Then the call returns, records no stray access, changes nothing outside `dest[0..dmax)`, invokes
the handler exactly once with the code it returns iff that code is not EOK, and when `dest`/`dmax`
are usable leaves a terminator inside `dest[0..dmax)` unless it took the `dest == src` shortcut. -/
theorem strcpyG_safe (max : Nat) (cfg : Cfg) (dest dmax src : Nat) (st : St)
    (hall : ∀ a, st.mapped a = true ∧ st.rd a = true)
    (hrw : dest ≠ 0 → RW st dest dmax) :
    ∃ code st', exec (strcpyG max cfg dest dmax src none) st = .ok (code, st') ∧
      SafePost cfg dest dmax st st' code ∧
      (dest ≠ 0 → 0 < dmax → dmax ≤ max → dest ≠ src →
        (∃ i, i < dmax ∧ st'.data (dest + i) = 0) ∧
        (code ≠ EOK → st'.data dest = 0) ∧
        (code ≠ EOK → cfg.slack = true → ∀ i, i < dmax → st'.data (dest + i) = 0)) := by
  unfold strcpyG
  by_cases hd : dest = 0
  · simp only [hd, if_true]
    obtain ⟨st', he, hp, _⟩ := failS_post cfg 0 dmax ESNULLP st ESNULLP_ne_EOK
    exact ⟨_, st', he, hp, fun h => absurd rfl h⟩
  simp only [hd, if_false]
  by_cases hz : dmax = 0
  · simp only [hz, if_true]
    obtain ⟨st', he, hp, _⟩ := failS_post cfg dest 0 ESZEROL st ESZEROL_ne_EOK
    exact ⟨_, st', he, hp, fun _ h => absurd h (Nat.lt_irrefl 0)⟩
  simp only [hz, if_false, chkDmaxClear, chkDmaxClearG]
  by_cases hmx : dmax > max
  · simp only [hmx, if_true]
    refine ⟨ESLEMAX, { st with events := st.events ++ [.handler .str ESLEMAX] }, by simp [handlerS, exec_bind], ?_, ?_⟩
    · exact ⟨rfl, rfl, rfl, rfl, fun _ _ => rfl, fun h => absurd h ESLEMAX_ne_EOK, fun _ => rfl⟩
    · intro _ _ hle; omega
  simp only [hmx, if_false]
  have hrw' := hrw hd
  have hpos : 0 < dmax := Nat.pos_of_ne_zero hz
  by_cases hs : src = 0
  · simp only [hs, if_true]
    obtain ⟨st', he, hm, hr, hw, hst, hev, h0, hsl, hns⟩ := handleError_ok cfg dest dmax ESNULLP st hrw' hpos
    refine ⟨ESNULLP, st', by simp [exec_bind, he], ?_, ?_⟩
    · refine ⟨hm, hr, hw, hst, ?_, fun h => absurd h ESNULLP_ne_EOK, fun _ => hev⟩
      intro a ha
      cases hcs : cfg.slack with
      | true => rw [hsl hcs a]; simp [ha]
      | false => exact hns hcs a (by intro h; subst h; exact ha ⟨Nat.le_refl _, by omega⟩)
    · intro _ _ _ _
      refine ⟨⟨0, hpos, by simpa using h0⟩, fun _ => h0, ?_⟩
      intro _ hcs i hi
      rw [hsl hcs (dest+i)]
      have : dest ≤ dest + i ∧ dest + i < dest + dmax := by omega
      simp [this]
  simp only [hs, if_false]
  by_cases hsame : dest = src
  · rw [if_pos hsame]
    refine ⟨EOK, st, rfl, ⟨rfl, rfl, rfl, rfl, fun _ _ => rfl, fun _ => rfl, fun h => absurd rfl h⟩, ?_⟩
    intro _ _ _ h; exact absurd hsame h
  rw [if_neg hsame]
  -- both branches are instances of `copyLoop_safe`
  have key : ∀ (onDest : Bool) (B : Nat),
      ∃ code st', exec (copyLoop cfg onDest false B dest dmax dmax dest src 0) st = .ok (code, st') ∧
        CopyPost cfg dest dmax st st' code :=
    fun onDest B => copyLoop_safe cfg onDest false B dest dmax hpos dmax dest src 0 st hall hrw' ⟨Nat.le_refl _, rfl⟩
  have fin : ∀ (p : Prog Nat), (∃ code st', exec p st = .ok (code, st') ∧ CopyPost cfg dest dmax st st' code) →
      ∃ code st', exec p st = .ok (code, st') ∧ SafePost cfg dest dmax st st' code ∧
        (dest ≠ 0 → 0 < dmax → dmax ≤ max → dest ≠ src →
          (∃ i, i < dmax ∧ st'.data (dest + i) = 0) ∧
          (code ≠ EOK → st'.data dest = 0) ∧
          (code ≠ EOK → cfg.slack = true → ∀ i, i < dmax → st'.data (dest + i) = 0)) := by
    intro p ⟨code, st', he, hp⟩
    refine ⟨code, st', he, ⟨hp.mapped, hp.rd, hp.wr, hp.strays, hp.frame, hp.ok_events, hp.fail_events⟩, ?_⟩
    intro _ _ _ _
    refine ⟨?_, hp.fail_first, hp.fail_clear⟩
    by_cases hc : code = EOK
    · exact hp.ok_term hc
    · exact ⟨0, hpos, by simpa using hp.fail_first hc⟩
  by_cases hlt : dest < src
  · simp only [hlt, if_true]; exact fin _ (key true src)
  · simp only [hlt, if_false]; exact fin _ (key false dest)

end SafeC
